(* Proofs for the deferred-work queue (Model/Dissolve.v): (A) the Job ring queue refines a FIFO and
   never panics (it needs "more than half full unless at initial capacity" because its resize has no
   empty-queue branch); (B) invariant of the dissolver transition system for all schedules. *)
From Coq Require Import List NArith ZArith Bool Arith Lia Permutation.
From Cfg Require Import Model.RingQueue Model.RingQueueSpec Proofs.RingQueueLib Proofs.RingQueue Model.Dissolve.
Import ListNotations.

(* ---------------------------------------------------------------- (A) ring *)
Definition embed (q : dq) : rq :=
  mkRq (dnodes q) (dhead q) (dtail q) (dcnt q) 0%Z (dclosed q) (dinit q) false.

Definition dabs (q : dq) : list job := abs (embed q).

Definition DWF (q : dq) : Prop :=
  1 <= dinit q /\ WF (embed q) /\
  (exists k, length (dnodes q) = dinit q * 2 ^ k) /\
  (length (dnodes q) = dinit q \/ length (dnodes q) < 2 * dcnt q).

Definition DInv (q : dq) : Prop :=
  1 <= dinit q /\ if dclosed q then dnodes q = [] /\ dcnt q = 0 else DWF q.

Lemma dresize_ok q n :
  1 <= dinit q -> WF (embed q) -> 1 <= dcnt q -> dcnt q <= n ->
  exists ns, dresize q n = Some (mkDq ns 0 (dcnt q mod n) (dcnt q) (dclosed q) (dinit q)) /\
             length ns = n /\ forall k, k < dcnt q -> nth k ns zero_item = get (embed q) k.
Proof.
  intros Hic (Hcap & Hh & Hc & Ht) Hc1 Hn. cbn [embed nodes head tail cnt initCap] in *.
  unfold dresize. rewrite idx_small in Ht by lia. set (c := length (dnodes q)) in *.
  assert (Lb : length (repeat zero_item n) = n) by apply repeat_length.
  destruct (dhead q + dcnt q <? c) eqn:Ew.
  - apply Nat.ltb_lt in Ew.
    replace (dhead q <? dtail q) with true by (symmetry; apply Nat.ltb_lt; lia).
    destruct (slice_some (dnodes q) (dhead q) (dtail q)) as (s & Hs & Ls & Ns); [lia|fold c; lia|].
    rewrite Hs. cbn [bind].
    destruct (copy_at_some (repeat zero_item n) 0 s) as (r & Hr & Lr & Nr); [lia|].
    rewrite Hr. cbn [option_map fst bind]. rewrite modn_some by lia. cbn [bind].
    exists r. split; [reflexivity|]. split; [lia|].
    intros k Hk. rewrite Nr. rewrite Lb, Ls.
    replace ((0 <=? k) && (k <? 0 + Nat.min (n - 0) (dtail q - dhead q))) with true
      by (symmetry; apply andb_true_iff; split; [apply Nat.leb_le|apply Nat.ltb_lt]; lia).
    rewrite Nat.sub_0_r, Ns by lia. unfold get. cbn [embed nodes head]. fold c. rewrite idx_small by lia.
    replace (dhead q + k <? c) with true by (symmetry; apply Nat.ltb_lt; lia). reflexivity.
  - apply Nat.ltb_ge in Ew.
    replace (dhead q <? dtail q) with false by (symmetry; apply Nat.ltb_ge; lia).
    destruct (slice_some (dnodes q) (dhead q) c) as (s1 & Hs1 & Ls1 & Ns1); [lia|lia|].
    destruct (slice_some (dnodes q) 0 (dtail q)) as (s2 & Hs2 & Ls2 & Ns2); [lia|fold c; lia|].
    rewrite Hs1, Hs2. cbn [bind].
    destruct (copy_at_some (repeat zero_item n) 0 s1) as (r1 & Hr1 & Lr1 & Nr1); [lia|].
    rewrite Hr1. cbn [bind]. rewrite Lb in Nr1, Lr1. rewrite Ls1 in Nr1.
    replace (Nat.min (n - 0) (c - dhead q)) with (c - dhead q) in * by lia.
    destruct (copy_at_some r1 (c - dhead q) s2) as (r & Hr & Lr & Nr); [lia|].
    rewrite Hr. cbn [option_map fst bind]. rewrite modn_some by lia. cbn [bind].
    exists r. split; [reflexivity|]. split; [lia|].
    intros k Hk. rewrite Nr. rewrite Lr1, Ls2.
    unfold get. cbn [embed nodes head]. fold c. rewrite idx_small by lia.
    destruct (dhead q + k <? c) eqn:Ek.
    + apply Nat.ltb_lt in Ek.
      replace ((c - dhead q <=? k) && _) with false
        by (symmetry; apply andb_false_iff; left; apply Nat.leb_gt; lia).
      rewrite Nr1.
      replace ((0 <=? k) && (k <? 0 + (c - dhead q))) with true
        by (symmetry; apply andb_true_iff; split; [apply Nat.leb_le|apply Nat.ltb_lt]; lia).
      rewrite Nat.sub_0_r, Ns1 by lia. reflexivity.
    + apply Nat.ltb_ge in Ek.
      replace ((c - dhead q <=? k) && _) with true
        by (symmetry; apply andb_true_iff; split; [apply Nat.leb_le|apply Nat.ltb_lt]; lia).
      rewrite Ns2 by lia. f_equal. lia.
Qed.

(* the resized queue, seen through the embedding *)
Lemma dresize_post q n ns :
  1 <= dinit q -> dinit q <= n -> dcnt q <= n -> length ns = n ->
  (forall k, k < dcnt q -> nth k ns zero_item = get (embed q) k) ->
  let q' := mkDq ns 0 (dcnt q mod n) (dcnt q) (dclosed q) (dinit q) in
  WF (embed q') /\ dabs q' = dabs q.
Proof.
  intros Hic Hin Hc Ln Hk q'.
  destruct (resize_post (embed q) n ns) as (W & A & _ & _); auto; try (cbn; lia).
Qed.

Lemma DInv_open q : DInv q -> dclosed q = false -> DWF q.
Proof. intros (H1 & H2) Hc. rewrite Hc in H2. auto. Qed.
Lemma DInv_closed q : DInv q -> dclosed q = true -> dnodes q = [] /\ dcnt q = 0 /\ dabs q = [].
Proof.
  intros (H1 & H2) Hc. rewrite Hc in H2. destruct H2. repeat split; auto.
  unfold dabs. apply abs_cnt0. auto.
Qed.

Lemma dabs_length q : length (dabs q) = dcnt q.
Proof. unfold dabs. rewrite abs_length. reflexivity. Qed.

Lemma DInv_new ic : 1 <= ic -> DInv (dnew ic) /\ dabs (dnew ic) = [].
Proof.
  intros H. split; [|reflexivity]. split; [exact H|]. cbn. split; [exact H|]. split.
  - unfold WF; cbn. rewrite repeat_length. unfold idx; cbn. rewrite Nat.mod_0_l by lia. repeat split; lia.
  - cbn. rewrite repeat_length. split; [exists 0; cbn; lia|left; reflexivity].
Qed.

Lemma dclose_inv q : 1 <= dinit q -> DInv (dclose q) /\ dabs (dclose q) = [] /\ dclosed (dclose q) = true.
Proof. intros H. split; [split; cbn; auto|split; reflexivity]. Qed.

(* Add *)
Lemma dadd_ok q j : DInv q ->
  exists q' ok, dadd q j = Some (q', ok) /\ DInv q' /\ dclosed q' = dclosed q /\ dinit q' = dinit q /\
    ok = negb (dclosed q) /\ dabs q' = if ok then dabs q ++ [j] else dabs q.
Proof.
  intros HI. unfold dadd. destruct (dclosed q) eqn:Ec.
  - exists q, false. split; [reflexivity|]. split; [exact HI|]. repeat split; auto.
  - destruct (DInv_open q HI Ec) as (Hic & Hwf & (k & Hk) & Hs).
    assert (exists q1, (if dcnt q =? length (dnodes q) then dresize q (dcnt q * 2) else Some q) = Some q1 /\
              WF (embed q1) /\ dabs q1 = dabs q /\ dcnt q1 < length (dnodes q1) /\ dcnt q1 = dcnt q /\
              dclosed q1 = false /\ dinit q1 = dinit q /\
              (exists k', length (dnodes q1) = dinit q * 2 ^ k') /\
              (length (dnodes q1) = dinit q \/ length (dnodes q1) < 2 * (dcnt q + 1)))
      as (q1 & H1 & W1 & A1 & C1 & C1' & Ec1 & I1 & P1 & S1).
    { pose proof Hwf as (Hcap & _). cbn [embed nodes initCap] in Hcap.
      destruct (dcnt q =? length (dnodes q)) eqn:E.
      - apply Nat.eqb_eq in E.
        destruct (dresize_ok q (dcnt q * 2) Hic Hwf) as (ns & Hr & Ln & Nn); [lia|lia|].
        destruct (dresize_post q (dcnt q * 2) ns Hic) as (W' & A'); auto; try lia.
        eexists; split; [exact Hr|]. cbn [dnodes dcnt dclosed dinit].
        split; [exact W'|]. split; [exact A'|]. rewrite Ln. repeat split; auto; try lia.
        exists (S k). rewrite E, Hk. cbn [Nat.pow]. lia.
      - apply Nat.eqb_neq in E. destruct Hwf as (? & ? & Hc & ?). cbn [embed nodes cnt] in Hc.
        exists q. repeat split; auto; try lia. exists k; auto. }
    rewrite H1. cbn [bind].
    destruct (put_ok (embed q1) j W1) as (r & Hp & Wr & Ar & _ & (Kc & Ki) & Lr & Cr); [cbn; lia|exact C1|].
    unfold put in Hp. cbn [embed nodes tail head cnt qsize qclosed initCap shrinkArmed] in Hp.
    destruct (wr (dnodes q1) (dtail q1) j) as [ns|] eqn:Hw; [|discriminate]. cbn [bind] in Hp |- *.
    destruct (modn (dtail q1 + 1) (length ns)) as [t|] eqn:Hm; [|discriminate]. cbn [bind] in Hp |- *.
    injection Hp as <-.
    eexists _, true. split; [reflexivity|]. cbn [dclosed dinit].
    assert (Wn : WF (embed (mkDq ns (dhead q1) t (S (dcnt q1)) (dclosed q1) (dinit q1)))) by exact Wr.
    assert (An : dabs (mkDq ns (dhead q1) t (S (dcnt q1)) (dclosed q1) (dinit q1)) = dabs q1 ++ [j]) by exact Ar.
    cbn [embed nodes] in Lr.
    split; [|repeat split; auto; try congruence].
    split; [cbn; lia|]. cbn [dclosed]. rewrite Ec1. split; [cbn; lia|]. split; [exact Wn|].
    cbn [dnodes dcnt dinit]. rewrite Lr, I1, C1'. split; auto.
    destruct S1; [left; auto|right; lia].
Qed.

(* Remove *)
Lemma dremove_ok q : DInv q ->
  exists q' r, dremove q = Some (q', r) /\ DInv q' /\ dclosed q' = dclosed q /\ dinit q' = dinit q /\
    match r with
    | None => dabs q = [] /\ dabs q' = []
    | Some j => dabs q = j :: dabs q'
    end.
Proof.
  intros HI. unfold dremove. destruct (dcnt q =? 0) eqn:E0.
  - apply Nat.eqb_eq in E0. exists q, None. split; [reflexivity|]. split; [exact HI|].
    split; [reflexivity|]. split; [reflexivity|]. split; unfold dabs; apply abs_cnt0; auto.
  - apply Nat.eqb_neq in E0. destruct (dclosed q) eqn:Ec.
    { destruct (DInv_closed q HI Ec) as (_ & ? & _). lia. }
    destruct (DInv_open q HI Ec) as (Hic & Hwf & (k & Hk) & Hs).
    destruct (take1_ok false (embed q) Hwf) as (r & Ht & Wr & Ar & _ & (Kc & Ki) & Lr & Cr); [exact Hic|cbn; lia|].
    unfold take1 in Ht. cbn [embed nodes tail head cnt qsize qclosed initCap shrinkArmed] in Ht.
    destruct (rd (dnodes q) (dhead q)) as [j|] eqn:Hrd; [|discriminate]. cbn [bind] in Ht |- *.
    destruct (modn (dhead q + 1) (length (dnodes q))) as [h|] eqn:Hm; [|discriminate]. cbn [bind] in Ht |- *.
    injection Ht as <- Hj. rewrite Ec in Wr, Ar.
    set (q1 := mkDq (dnodes q) h (dtail q) (dcnt q - 1) false (dinit q)) in *.
    assert (W1 : WF (embed q1)) by exact Wr.
    assert (A1 : dabs q = j :: dabs q1) by (unfold dabs; rewrite Ar, Hj; reflexivity).
    cbn [dnodes dinit dcnt q1].
    destruct ((dinit q <=? length (dnodes q) / 2) && (dcnt q - 1 <=? length (dnodes q) / 2)) eqn:E.
    + apply andb_true_iff in E. destruct E as [E1 E2]. apply Nat.leb_le in E1, E2.
      (* only possible above the initial capacity, where the queue is more than half full *)
      destruct Hs as [Hs|Hs].
      { pose proof (Nat.div_lt (length (dnodes q)) 2). lia. }
      destruct k as [|k]; [cbn in Hk; pose proof (Nat.div_lt (length (dnodes q)) 2); lia|].
      assert (Hhalf : length (dnodes q) / 2 = dinit q * 2 ^ k).
      { rewrite Hk. cbn [Nat.pow]. replace (dinit q * (2 * 2 ^ k)) with ((dinit q * 2 ^ k) * 2) by lia.
        apply Nat.div_mul. lia. }
      assert (Hp : 1 <= 2 ^ k) by (pose proof (Nat.pow_nonzero 2 k); lia).
      assert (Hcnt : dcnt q - 1 = length (dnodes q) / 2).
      { rewrite Hhalf in *. rewrite Hk in Hs. cbn [Nat.pow] in Hs. nia. }
      destruct (dresize_ok q1 (length (dnodes q) / 2)) as (ns & Hr & Ln & Nn); auto; cbn [dcnt dinit q1]; try nia.
      destruct (dresize_post q1 (length (dnodes q) / 2) ns) as (W' & A'); auto; cbn [dcnt dinit q1]; try lia.
      rewrite Hr. cbn [bind]. eexists _, (Some j). split; [reflexivity|]. cbn [dclosed dinit dcnt q1] in *.
      split; [|repeat split; auto; rewrite A1, A'; reflexivity].
      split; [cbn; lia|]. cbn [dclosed]. split; [cbn; lia|]. split; [exact W'|].
      cbn [dnodes dcnt dinit]. rewrite Ln. split; [exists k; exact Hhalf|].
      right. nia.
    + cbn [bind]. eexists _, (Some j). split; [reflexivity|]. fold q1.
      split; [|repeat split; auto].
      split; [cbn; lia|]. cbn [dclosed q1]. split; [cbn; lia|]. split; [exact W1|].
      split; [exists k; exact Hk|]. subst q1. cbn [dnodes dcnt dinit].
      destruct Hs as [Hs|Hs]; [left; exact Hs|].
      apply andb_false_iff in E. destruct E as [E|E]; [apply Nat.leb_gt in E|apply Nat.leb_gt in E].
      * left. destruct k as [|k]; [cbn in Hk; lia|].
        exfalso. rewrite Hk in E. cbn [Nat.pow] in E.
        replace (dinit q * (2 * 2 ^ k)) with ((dinit q * 2 ^ k) * 2) in E by lia.
        rewrite Nat.div_mul in E by lia. pose proof (Nat.pow_nonzero 2 k). nia.
      * destruct k as [|k]; [left; cbn in Hk; lia|]. right.
        assert (Hhalf : length (dnodes q) / 2 = dinit q * 2 ^ k).
        { rewrite Hk. cbn [Nat.pow]. replace (dinit q * (2 * 2 ^ k)) with ((dinit q * 2 ^ k) * 2) by lia.
          apply Nat.div_mul. lia. }
        rewrite Hhalf in E. rewrite Hk. cbn [Nat.pow]. lia.
Qed.

(* ---------------------------------------------------------------- (B) the dissolver *)
Lemma flat_map_updw {B} (f : wpc -> list B) ws : forall w p p',
  nth_error ws w = Some p ->
  exists rest, Permutation (flat_map f ws) (f p ++ rest) /\
               Permutation (flat_map f (updw ws w p')) (f p' ++ rest).
Proof.
  induction ws as [|h t IH]; intros w p p' H; destruct w; cbn in H; try discriminate.
  - injection H as ->. exists (flat_map f t). cbn. split; apply Permutation_refl.
  - destruct (IH w p p' H) as (rest & P1 & P2). exists (f h ++ rest). cbn. split.
    + rewrite P1. rewrite !app_assoc. apply Permutation_app_tail. apply Permutation_app_comm.
    + rewrite P2. rewrite !app_assoc. apply Permutation_app_tail. apply Permutation_app_comm.
Qed.

Lemma getw_updw ws : forall w p w', getw (updw ws w p) w' =
  if w =? w' then (match getw ws w with Some _ => Some p | None => None end) else getw ws w'.
Proof.
  unfold getw. induction ws as [|h t IH]; intros w p w'.
  - destruct w, w'; cbn; auto. destruct (w =? w'); auto.
  - destruct w, w'; cbn; auto.
Qed.

Lemma job_in_false j l : job_in j l = false <-> ~ In (it_id j) (map it_id l).
Proof.
  unfold job_in. induction l as [|x l IH]; cbn; [tauto|].
  rewrite orb_false_iff, IH. unfold job_eqb. rewrite N.eqb_neq. intuition congruence.
Qed.

Lemma job_in_app j a b : job_in j (a ++ b) = job_in j a || job_in j b.
Proof. apply existsb_app. Qed.

Definition check_ev (e : dev) (done : list job) : bool :=
  match e with EStart j _ => negb (job_in j done) | _ => true end.

Lemma ok_log_snoc l : forall d e, ok_log d (l ++ [e]) = ok_log d l && check_ev e (d ++ done_of l).
Proof.
  induction l as [|x l IH]; intros d e; cbn [app ok_log done_of].
  - rewrite app_nil_r. destruct e as [j f|j [|]]; cbn; rewrite ?andb_true_r; reflexivity.
  - destruct x as [j f|j [|]]; cbn [ok_log done_of]; rewrite IH.
    + rewrite andb_assoc. reflexivity.
    + rewrite <- app_assoc. reflexivity.
    + reflexivity.
Qed.

Lemma done_of_snoc l e : done_of (l ++ [e]) = done_of l ++ match e with EFinish j true => [j] | _ => [] end.
Proof.
  induction l as [|x l IH]; cbn.
  - destruct e as [j f|j [|]]; reflexivity.
  - destruct x as [j f|j [|]]; cbn; rewrite IH; reflexivity.
Qed.

Lemma late_starts_snoc l e :
  late_starts (l ++ [e]) = late_starts l ++ match e with EStart j true => [j] | _ => [] end.
Proof.
  induction l as [|x l IH]; cbn.
  - destruct e as [j [|]|j f]; reflexivity.
  - destruct x as [j [|]|j f]; cbn; rewrite IH; reflexivity.
Qed.

Record DSInv (s : dst) : Prop := mkDSInv {
  ds_q : DInv (d_q s);
  ds_cons : exists lost, Permutation (d_accepted s) (d_succeeded s ++ dabs (d_q s) ++ held s ++ lost) /\
                         (dclosed (d_q s) = false -> lost = []);
  ds_fresh : NoDup (map it_id (d_accepted s ++ d_rejected s));
  ds_done : d_succeeded s = done_of (d_log s);
  ds_log : ok_log [] (d_log s) = true;
  ds_open : dclosed (d_q s) = false -> late_starts (d_log s) = [] /\ forall w, getw (d_w s) w <> Some WExit
}.

Lemma DSInv_init ic nw : 1 <= ic -> DSInv (dinitial ic nw).
Proof.
  intros H. destruct (DInv_new ic H) as (HI & HA).
  constructor; cbn; auto.
  - exists []. split; auto.
    assert (E : flat_map job_of (repeat WIdle nw) = []) by (induction nw; cbn; auto).
    rewrite E. constructor.
  - constructor.
  - intros _. split; auto. intros w. unfold getw. revert w. induction nw; intros [|w]; cbn; try discriminate; auto.
Qed.

Lemma nodup_app_l {A} (a b : list A) : NoDup (a ++ b) -> NoDup a.
Proof.
  induction a; cbn; intros H; [constructor|]. inversion H; subst. constructor; auto.
  intros Hin. apply H2. apply in_or_app. auto.
Qed.

Lemma nodup_app_disj {A} (a b : list A) x : NoDup (a ++ b) -> In x a -> In x b -> False.
Proof.
  induction a as [|y a IH]; cbn; intros H Ha Hb; [contradiction|]. inversion H; subst.
  destruct Ha as [->|Ha]; [apply H2; apply in_or_app; auto|auto].
Qed.

(* the ids of held/queued/succeeded jobs are pairwise distinct *)
Lemma cons_nodup s : DSInv s ->
  exists lost, NoDup (map it_id (d_succeeded s ++ dabs (d_q s) ++ held s ++ lost)).
Proof.
  intros HS. destruct (ds_cons _ HS) as (lost & P & _). exists lost.
  pose proof (ds_fresh _ HS) as ND. rewrite map_app in ND. apply nodup_app_l in ND.
  eapply Permutation_NoDup; [apply Permutation_map; exact P|exact ND].
Qed.

Lemma held_not_succeeded s w j : DSInv s -> getw (d_w s) w = Some (WHold j) -> job_in j (d_succeeded s) = false.
Proof.
  intros HS Hw. destruct (cons_nodup s HS) as (lost & ND).
  destruct (flat_map_updw job_of (d_w s) w (WHold j) WIdle Hw) as (rest & P1 & _).
  apply job_in_false. intros Hin.
  assert (Hheld : In (it_id j) (map it_id (held s))).
  { apply in_map. unfold held. eapply Permutation_in; [apply Permutation_sym; exact P1|]. cbn. auto. }
  rewrite map_app in ND. eapply nodup_app_disj; [exact ND|exact Hin|].
  rewrite !map_app. apply in_or_app. right. apply in_or_app. left. exact Hheld.
Qed.

Lemma open_no_exit s w p' : DSInv s -> (dclosed (d_q s) = false -> p' <> WExit) ->
  dclosed (d_q s) = false -> forall w', getw (updw (d_w s) w p') w' <> Some WExit.
Proof.
  intros HS Hp Ho w'. rewrite getw_updw. destruct (ds_open _ HS Ho) as (_ & Hx).
  destruct (w =? w'); [|apply Hx]. destruct (getw (d_w s) w); [|discriminate].
  intros [= E]. apply (Hp Ho E).
Qed.

(* a worker moves without touching jobs; the queue may be replaced by an equivalent one *)
Lemma pres_w_plain s w p p' q' :
  DSInv s -> getw (d_w s) w = Some p -> job_of p' = job_of p ->
  (dclosed (d_q s) = false -> p' <> WExit) ->
  DInv q' -> dabs q' = dabs (d_q s) -> dclosed q' = dclosed (d_q s) ->
  DSInv (setw (setq s q') w p').
Proof.
  intros HS Hw Hj Hx HI' Ha Hc. destruct HS as [HI Hcons Hf Hd Hl Ho].
  constructor; cbn [d_q d_w d_log d_accepted d_rejected d_succeeded setw setq]; auto.
  - destruct Hcons as (lost & P & Hlost). exists lost. rewrite Ha, Hc. split; auto.
    destruct (flat_map_updw job_of (d_w s) w p p' Hw) as (rest & P1 & P2).
    unfold held in *. cbn [d_w]. rewrite P, P1, P2, Hj. apply Permutation_refl.
  - rewrite Hc. intros Hop. destruct (Ho Hop) as (Hls & _). split; auto.
    apply open_no_exit; auto. constructor; auto.
Qed.

Lemma pres_w_plain0 s w p p' :
  DSInv s -> getw (d_w s) w = Some p -> job_of p' = job_of p ->
  (dclosed (d_q s) = false -> p' <> WExit) -> DSInv (setw s w p').
Proof.
  intros HS Hw Hj Hx. 
  replace (setw s w p') with (setw (setq s (d_q s)) w p') by (destruct s; reflexivity).
  eapply pres_w_plain; eauto. apply HS.
Qed.

Lemma pres_submit s j q' ok :
  DSInv s -> job_in j (d_accepted s) || job_in j (d_rejected s) = false ->
  DInv q' -> dclosed q' = dclosed (d_q s) -> ok = negb (dclosed (d_q s)) ->
  dabs q' = (if ok then dabs (d_q s) ++ [j] else dabs (d_q s)) ->
  DSInv (if ok then mkD q' (d_w s) (d_log s) (d_accepted s ++ [j]) (d_rejected s) (d_succeeded s)
         else mkD q' (d_w s) (d_log s) (d_accepted s) (d_rejected s ++ [j]) (d_succeeded s)).
Proof.
  intros HS Hfresh HI' Hc Hok Ha. destruct HS as [HI Hcons Hf Hd Hl Ho].
  apply orb_false_iff in Hfresh. destruct Hfresh as [F1 F2].
  apply job_in_false in F1, F2.
  assert (ND' : NoDup (it_id j :: map it_id (d_accepted s ++ d_rejected s))).
  { constructor; auto. rewrite map_app. intros Hin. apply in_app_or in Hin. tauto. }
  destruct ok; constructor; cbn [d_q d_w d_log d_accepted d_rejected d_succeeded]; auto.
  - destruct Hcons as (lost & P & Hlost). assert (Hop : dclosed (d_q s) = false) by (destruct (dclosed (d_q s)); auto; discriminate).
    rewrite (Hlost Hop) in *. exists []. split; auto. rewrite Ha. unfold held in *. cbn [d_w].
    eapply Permutation_trans; [apply Permutation_sym, Permutation_cons_append|].
    rewrite <- !app_assoc. cbn [app]. rewrite (app_assoc (d_succeeded s)).
    apply Permutation_cons_app. rewrite <- app_assoc. exact P.
  - eapply Permutation_NoDup; [|exact ND']. rewrite !map_app. cbn [map].
    rewrite <- app_assoc. cbn [app]. apply Permutation_middle.
  - rewrite Hc. exact Ho.
  - destruct Hcons as (lost & P & Hlost). exists lost. rewrite Ha, Hc. split; auto.
  - eapply Permutation_NoDup; [|exact ND']. rewrite !map_app. cbn [map].
    rewrite app_assoc. apply Permutation_cons_append.
  - rewrite Hc. exact Ho.
Qed.

Lemma pres_close s : DSInv s -> DSInv (setq s (dclose (d_q s))).
Proof.
  intros HS. destruct HS as [HI Hcons Hf Hd Hl Ho].
  destruct (dclose_inv (d_q s)) as (HI' & Ha & Hc); [apply HI|].
  constructor; cbn [d_q d_w d_log d_accepted d_rejected d_succeeded setq]; auto.
  - destruct Hcons as (lost & P & _). exists (dabs (d_q s) ++ lost). rewrite Ha, Hc. split; [|discriminate].
    unfold held in *. cbn [d_w app]. rewrite P. apply Permutation_app_head.
    rewrite !app_assoc. apply Permutation_app_tail. apply Permutation_app_comm.
  - rewrite Hc. discriminate.
Qed.

(* Remove handed job j to worker w *)
Lemma pres_take s w j q' :
  DSInv s -> getw (d_w s) w = Some WRemove ->
  DInv q' -> dabs (d_q s) = j :: dabs q' -> dclosed q' = dclosed (d_q s) ->
  DSInv (setw (setq s q') w (WHold j)).
Proof.
  intros HS Hw HI' Ha Hc. destruct HS as [HI Hcons Hf Hd Hl Ho].
  constructor; cbn [d_q d_w d_log d_accepted d_rejected d_succeeded setw setq]; auto.
  - destruct Hcons as (lost & P & Hlost). exists lost. rewrite Hc. split; auto.
    destruct (flat_map_updw job_of (d_w s) w WRemove (WHold j) Hw) as (rest & P1 & P2).
    unfold held in *. cbn [d_w]. rewrite P, P1, P2, Ha. cbn [job_of app].
    apply Permutation_app_head. apply Permutation_middle.
  - rewrite Hc. intros Hop. destruct (Ho Hop) as (Hls & _). split; auto.
    apply open_no_exit; auto. constructor; auto. discriminate.
Qed.

(* worker w enters job() *)
Lemma pres_start s w j :
  DSInv s -> getw (d_w s) w = Some (WHold j) ->
  DSInv (setw (addlog s (EStart j (dclosed (d_q s)))) w (WRunning j)).
Proof.
  intros HS Hw. pose proof (held_not_succeeded s w j HS Hw) as Hns.
  pose proof HS as [HI Hcons Hf Hd Hl Ho].
  constructor; cbn [d_q d_w d_log d_accepted d_rejected d_succeeded setw addlog]; auto.
  - destruct Hcons as (lost & P & Hlost). exists lost. split; auto.
    destruct (flat_map_updw job_of (d_w s) w (WHold j) (WRunning j) Hw) as (rest & P1 & P2).
    unfold held in *. cbn [d_w]. rewrite P, P1, P2. apply Permutation_refl.
  - rewrite done_of_snoc, app_nil_r. exact Hd.
  - rewrite ok_log_snoc, Hl. cbn [check_ev app andb]. rewrite <- Hd, Hns. reflexivity.
  - intros Hop. destruct (Ho Hop) as (Hls & _). rewrite late_starts_snoc, Hop, Hls. split; auto.
    apply open_no_exit; auto. discriminate.
Qed.

(* the job run by worker w returns *)
Lemma pres_finish s w j (ok : bool) :
  DSInv s -> getw (d_w s) w = Some (WRunning j) ->
  DSInv (if ok then setw (mkD (d_q s) (d_w s) (d_log s ++ [EFinish j true]) (d_accepted s) (d_rejected s)
                              (d_succeeded s ++ [j])) w WIdle
         else setw (addlog s (EFinish j false)) w (WRequeue j)).
Proof.
  intros HS Hw. destruct HS as [HI Hcons Hf Hd Hl Ho].
  destruct ok; constructor; cbn [d_q d_w d_log d_accepted d_rejected d_succeeded setw addlog]; auto.
  - destruct Hcons as (lost & P & Hlost). exists lost. split; auto.
    destruct (flat_map_updw job_of (d_w s) w (WRunning j) WIdle Hw) as (rest & P1 & P2).
    unfold held in *. cbn [d_w setw]. rewrite P2, P, P1. cbn [job_of app].
    rewrite <- !app_assoc. apply Permutation_app_head. cbn [app].
    apply Permutation_sym. apply Permutation_middle.
  - rewrite done_of_snoc, Hd. reflexivity.
  - rewrite ok_log_snoc, Hl. reflexivity.
  - intros Hop. destruct (Ho Hop) as (Hls & _). rewrite late_starts_snoc, Hls. split; auto.
    apply open_no_exit; auto. constructor; auto. discriminate.
  - destruct Hcons as (lost & P & Hlost). exists lost. split; auto.
    destruct (flat_map_updw job_of (d_w s) w (WRunning j) (WRequeue j) Hw) as (rest & P1 & P2).
    unfold held in *. cbn [d_w setw addlog]. rewrite P2, P, P1. apply Permutation_refl.
  - rewrite done_of_snoc, app_nil_r. exact Hd.
  - rewrite ok_log_snoc, Hl. reflexivity.
  - intros Hop. destruct (Ho Hop) as (Hls & _). rewrite late_starts_snoc, Hls. split; auto.
    apply open_no_exit; auto. constructor; auto. discriminate.
Qed.

(* a failed job is put back (or dropped when the queue is closed) *)
Lemma pres_requeue s w j q' (ok : bool) :
  DSInv s -> getw (d_w s) w = Some (WRequeue j) ->
  DInv q' -> dclosed q' = dclosed (d_q s) -> ok = negb (dclosed (d_q s)) ->
  dabs q' = (if ok then dabs (d_q s) ++ [j] else dabs (d_q s)) ->
  DSInv (setw (setq s q') w WIdle).
Proof.
  intros HS Hw HI' Hc Hok Ha. destruct HS as [HI Hcons Hf Hd Hl Ho].
  constructor; cbn [d_q d_w d_log d_accepted d_rejected d_succeeded setw setq]; auto.
  - destruct Hcons as (lost & P & Hlost).
    destruct (flat_map_updw job_of (d_w s) w (WRequeue j) WIdle Hw) as (rest & P1 & P2).
    unfold held in *. cbn [d_w]. rewrite Hc. destruct ok.
    + exists lost. split; auto. rewrite P, P1, P2, Ha. cbn [job_of app].
      apply Permutation_app_head. rewrite <- app_assoc. apply Permutation_app_head. cbn [app].
      apply Permutation_refl.
    + exists (j :: lost). split.
      * rewrite P, P1, P2, Ha. cbn [job_of app]. apply Permutation_app_head. apply Permutation_app_head.
        apply Permutation_sym. apply Permutation_trans with (j :: rest ++ lost); [|apply Permutation_refl].
        apply Permutation_sym. apply Permutation_middle.
      * intros Hop. rewrite Hop in Hok. discriminate.
  - rewrite Hc. intros Hop. destruct (Ho Hop) as (Hls & _). split; auto.
    apply open_no_exit; auto. constructor; auto. discriminate.
Qed.

Definition dok (r : dres) : Prop :=
  match r with DNext s' => DSInv s' | DBlocked => True | DPanic => False end.

Lemma dstep_ok s l : DSInv s -> dok (dstep s l).
Proof.
  intros HS. pose proof (ds_q _ HS) as HI. destruct l; cbn [dstep].
  - (* Submit *)
    destruct (job_in j (d_accepted s) || job_in j (d_rejected s)) eqn:Ef; cbn; auto.
    destruct (dadd_ok (d_q s) j HI) as (q' & ok & H & I' & Hc & _ & Hok & Ha). rewrite H. cbn [dqdo].
    pose proof (pres_submit s j q' ok HS Ef I' Hc Hok Ha) as R. destruct ok; exact R.
  - (* Close *) cbn. apply pres_close; auto.
  - (* step *)
    destruct (getw (d_w s) w) as [p|] eqn:Hw; cbn; auto. destruct p; cbn; auto.
    + destruct (dclosed (d_q s)) eqn:Ec; [|destruct (dcnt (d_q s) =? 0)]; cbn;
        eapply pres_w_plain0; eauto; try discriminate; congruence.
    + destruct (dremove_ok (d_q s) HI) as (q' & r & H & I' & Hc & _ & Ha). rewrite H. cbn [dqdo].
      destruct r as [j|]; cbn.
      * apply pres_take; auto.
      * destruct Ha as (A1 & A2). eapply pres_w_plain; eauto; try discriminate; congruence.
    + destruct (dclosed (d_q s)) eqn:Ec; eapply pres_w_plain0; eauto; try discriminate; congruence.
    + apply pres_start; auto.
    + destruct (dadd_ok (d_q s) j HI) as (q' & ok & H & I' & Hc & _ & Hok & Ha). rewrite H. cbn [dqdo].
      eapply pres_requeue; eauto.
  - (* wake *)
    destruct (getw (d_w s) w) as [p|] eqn:Hw; cbn; auto. destruct p; cbn; auto.
    destruct (dclosed (d_q s) || negb (dcnt (d_q s) =? 0)); cbn; auto.
    eapply pres_w_plain0; eauto. discriminate.
  - (* finish *)
    destruct (getw (d_w s) w) as [p|] eqn:Hw; cbn; auto. destruct p; cbn; auto.
    pose proof (pres_finish s w j ok HS Hw) as R. destruct ok; exact R.
Qed.

Theorem drun_inv sched : forall s, DSInv s -> dok (drun s sched).
Proof.
  induction sched as [|l sched IH]; intros s HS; cbn [drun]; auto.
  pose proof (dstep_ok s l HS) as H. destruct (dstep s l); cbn in *; auto.
Qed.

Definition dreach (ic nw : nat) (s : dst) : Prop := exists sched, drun (dinitial ic nw) sched = DNext s.

Lemma dreach_inv ic nw s : 1 <= ic -> dreach ic nw s -> DSInv s.
Proof.
  intros Hic (sched & H). pose proof (drun_inv sched _ (DSInv_init ic nw Hic)) as R. rewrite H in R. exact R.
Qed.

Lemma d_no_panic ic nw sched : 1 <= ic -> drun (dinitial ic nw) sched <> DPanic.
Proof.
  intros Hic H. pose proof (drun_inv sched _ (DSInv_init ic nw Hic)) as R. rewrite H in R. exact R.
Qed.

(* ---- conservation ---- *)
Lemma inv_conservation s : DSInv s -> dclosed (d_q s) = false ->
  Permutation (d_accepted s) (d_succeeded s ++ dabs (d_q s) ++ held s) /\
  NoDup (map it_id (d_accepted s)).
Proof.
  intros HS Ho. destruct (ds_cons _ HS) as (lost & P & Hl). rewrite (Hl Ho), app_nil_r in P. split; auto.
  pose proof (ds_fresh _ HS) as ND. rewrite map_app in ND. eapply nodup_app_l; eauto.
Qed.

(* ---- no run of a job after it succeeded ---- *)
Lemma ok_log_sound l : forall d, ok_log d l = true ->
  forall l1 j f l2, l = l1 ++ EStart j f :: l2 -> job_in j (d ++ done_of l1) = false.
Proof.
  induction l as [|x l IH]; intros d H l1 j f l2 E.
  - destruct l1; discriminate.
  - destruct l1 as [|y l1]; cbn in E; injection E as -> El.
    + cbn in H. apply andb_true_iff in H. destruct H as [H _]. rewrite app_nil_r.
      apply negb_true_iff in H. exact H.
    + destruct y as [j' f'|j' [|]]; cbn [ok_log done_of] in *.
      * apply andb_true_iff in H. destruct H as [_ H]. eapply IH; eauto.
      * replace (d ++ j' :: done_of l1) with ((d ++ [j']) ++ done_of l1) by (rewrite <- app_assoc; reflexivity).
        eapply IH; eauto.
      * eapply IH; eauto.
Qed.

Lemma in_done_of' j l : In (EFinish j true) l -> In j (done_of l).
Proof.
  induction l as [|x l IH]; cbn; [contradiction|]. intros [->|H].
  - cbn. auto.
  - destruct x as [j' f'|j' [|]]; cbn; auto.
Qed.

Lemma job_in_In j l : In j l -> job_in j l = true.
Proof.
  unfold job_in. intros H. apply existsb_exists. exists j. split; auto.
  unfold job_eqb. apply N.eqb_refl.
Qed.

Lemma in_done_of j l : In (EFinish j true) l -> job_in j (done_of l) = true.
Proof. intros H. apply job_in_In, in_done_of'. exact H. Qed.

Lemma inv_no_rerun s : DSInv s ->
  forall l1 j f l2, d_log s = l1 ++ EStart j f :: l2 -> ~ In (EFinish j true) l1.
Proof.
  intros HS l1 j f l2 E Hin. pose proof (ok_log_sound _ [] (ds_log _ HS) l1 j f l2 E) as H.
  cbn [app] in H. rewrite (in_done_of j l1 Hin) in H. discriminate.
Qed.

(* ---- after Close ---- *)
Lemma closed_submit s j s' : DSInv s -> dclosed (d_q s) = true -> dstep s (LSubmit j) = DNext s' ->
  In j (d_rejected s') /\ d_accepted s' = d_accepted s /\ dabs (d_q s') = [] /\ d_log s' = d_log s.
Proof.
  intros HS Hc. cbn [dstep]. destruct (job_in j (d_accepted s) || job_in j (d_rejected s)); [discriminate|].
  destruct (dadd_ok (d_q s) j (ds_q _ HS)) as (q' & ok & H & I' & Hc' & _ & Hok & Ha). rewrite H. cbn [dqdo].
  rewrite Hc in Hok. cbn in Hok. subst ok. intros [= <-]. cbn [d_rejected d_accepted d_q d_log].
  destruct (DInv_closed _ (ds_q _ HS) Hc) as (_ & _ & A0). rewrite Ha, A0.
  repeat split; auto. apply in_or_app. right. left. reflexivity.
Qed.

Lemma hold_jobs_updw s w p p' : getw (d_w s) w = Some p ->
  exists rest, Permutation (flat_map hold_of (d_w s)) (hold_of p ++ rest) /\
               Permutation (flat_map hold_of (updw (d_w s) w p')) (hold_of p' ++ rest).
Proof. apply flat_map_updw. Qed.

(* once closed: the queue hands out nothing, re-queued jobs are dropped, and a run can only start for
   a job that a worker was already holding *)
Lemma closed_step s l s' : DSInv s -> dclosed (d_q s) = true -> dstep s l = DNext s' ->
  dclosed (d_q s') = true /\
  Permutation (late_starts (d_log s') ++ holding_jobs s') (late_starts (d_log s) ++ holding_jobs s).
Proof.
  intros HS Hc. pose proof (ds_q _ HS) as HI.
  destruct (DInv_closed _ HI Hc) as (_ & Hcnt & A0).
  assert (Hplain : forall w p p' q', getw (d_w s) w = Some p -> hold_of p = [] -> hold_of p' = [] ->
            dclosed q' = true ->
            dclosed (d_q (setw (setq s q') w p')) = true /\
            Permutation (late_starts (d_log (setw (setq s q') w p')) ++ holding_jobs (setw (setq s q') w p'))
                        (late_starts (d_log s) ++ holding_jobs s)).
  { intros w p p' q' Hw H1 H2 Hq. split; [exact Hq|]. cbn [d_log setw setq]. apply Permutation_app_head.
    unfold holding_jobs. cbn [d_w setw setq].
    destruct (hold_jobs_updw s w p p' Hw) as (rest & P1 & P2). rewrite P1, P2, H1, H2. apply Permutation_refl. }
  destruct l; cbn [dstep].
  - destruct (job_in j (d_accepted s) || job_in j (d_rejected s)); [discriminate|].
    destruct (dadd_ok (d_q s) j HI) as (q' & ok & H & I' & Hc' & _ & Hok & Ha). rewrite H. cbn [dqdo].
    rewrite Hc in Hok. cbn in Hok. subst ok. intros [= <-]. cbn. split; [congruence|apply Permutation_refl].
  - intros [= <-]. cbn. split; auto; try apply Permutation_refl.
  - destruct (getw (d_w s) w) as [p|] eqn:Hw; [|discriminate]. destruct p; try discriminate.
    + rewrite Hc. intros [= <-]. replace (setw s w WCheckClosed) with (setw (setq s (d_q s)) w WCheckClosed) by (destruct s; reflexivity).
      eapply Hplain; eauto.
    + destruct (dremove_ok (d_q s) HI) as (q' & r & H & I' & Hc' & _ & Ha). rewrite H. cbn [dqdo].
      destruct r as [j|]; [rewrite A0 in Ha; discriminate|]. intros [= <-]. eapply Hplain; eauto; congruence.
    + rewrite Hc. intros [= <-]. replace (setw s w WExit) with (setw (setq s (d_q s)) w WExit) by (destruct s; reflexivity).
      eapply Hplain; eauto.
    + intros [= <-]. split; [exact Hc|]. cbn [d_log setw addlog]. rewrite late_starts_snoc, Hc.
      unfold holding_jobs. cbn [d_w setw addlog].
      destruct (hold_jobs_updw s w (WHold j) (WRunning j) Hw) as (rest & P1 & P2). rewrite P1, P2. cbn [hold_of app].
      rewrite <- app_assoc. apply Permutation_refl.
    + destruct (dadd_ok (d_q s) j HI) as (q' & ok & H & I' & Hc' & _ & Hok & Ha). rewrite H. cbn [dqdo].
      intros [= <-]. eapply Hplain; eauto; congruence.
  - destruct (getw (d_w s) w) as [p|] eqn:Hw; [|discriminate]. destruct p; try discriminate.
    rewrite Hc. cbn. intros [= <-]. replace (setw s w WRemove) with (setw (setq s (d_q s)) w WRemove) by (destruct s; reflexivity).
    eapply Hplain; eauto.
  - destruct (getw (d_w s) w) as [p|] eqn:Hw; [|discriminate]. destruct p; try discriminate.
    destruct ok; intros [= <-]; (split; [exact Hc|]); cbn [d_log setw addlog]; rewrite late_starts_snoc, app_nil_r;
      apply Permutation_app_head; unfold holding_jobs; cbn [d_w setw addlog].
    + destruct (hold_jobs_updw s w (WRunning j) WIdle Hw) as (rest & P1 & P2). rewrite P1, P2. apply Permutation_refl.
    + destruct (hold_jobs_updw s w (WRunning j) (WRequeue j) Hw) as (rest & P1 & P2). rewrite P1, P2. apply Permutation_refl.
Qed.

Lemma closed_run sched : forall s s', DSInv s -> dclosed (d_q s) = true -> drun s sched = DNext s' ->
  dclosed (d_q s') = true /\
  Permutation (late_starts (d_log s') ++ holding_jobs s') (late_starts (d_log s) ++ holding_jobs s).
Proof.
  induction sched as [|l sched IH]; intros s s' HS Hc; cbn [drun].
  - intros [= <-]. split; auto; try apply Permutation_refl.
  - destruct (dstep s l) as [s1| |] eqn:E; try discriminate. intros H.
    destruct (closed_step s l s1 HS Hc E) as (Hc1 & P1).
    pose proof (dstep_ok s l HS) as HS1. rewrite E in HS1. cbn in HS1.
    destruct (IH s1 s' HS1 Hc1 H) as (Hc2 & P2). split; auto. rewrite P2. exact P1.
Qed.

(* Every run that starts after Close is of a job that a worker had removed from the queue, and not yet
   started, when Close was called; each such job is started at most once. *)
Lemma after_close ic nw sched1 sched2 s1 s : 1 <= ic ->
  drun (dinitial ic nw) sched1 = DNext s1 -> dclosed (d_q s1) = false ->
  drun s1 (LDClose :: sched2) = DNext s ->
  Permutation (late_starts (d_log s) ++ holding_jobs s) (holding_jobs s1).
Proof.
  intros Hic H1 Ho H2. assert (HS1 : DSInv s1) by (apply (dreach_inv ic nw); [exact Hic|exists sched1; exact H1]).
  cbn [drun dstep] in H2.
  destruct (closed_run sched2 _ s (pres_close s1 HS1) eq_refl H2) as (_ & P).
  rewrite P. cbn [d_log setq]. destruct (ds_open _ HS1 Ho) as (Hls & _). rewrite Hls. apply Permutation_refl.
Qed.

(* ---- liveness, the part that is proved ---- *)
Lemma terminal_all_done s : DSInv s -> dclosed (d_q s) = false -> dcnt (d_q s) = 0 -> held s = [] ->
  Permutation (d_accepted s) (d_succeeded s).
Proof.
  intros HS Ho Hc Hh. destruct (inv_conservation s HS Ho) as (P & _). rewrite Hh in P.
  assert (A : dabs (d_q s) = []) by (unfold dabs; apply abs_cnt0; exact Hc).
  rewrite A in P. cbn in P. rewrite app_nil_r in P. exact P.
Qed.

(* no deadlock: while open, every worker that is not inside a job and not asleep on an empty queue can move;
   a sleeping worker can be woken as soon as the queue is non-empty; a job in progress can return *)
Lemma progress s w p : DSInv s -> dclosed (d_q s) = false -> getw (d_w s) w = Some p ->
  match p with
  | WRunning _ => forall ok, exists s', dstep s (LWFinish w ok) = DNext s'
  | WCondWait => dcnt (d_q s) <> 0 -> exists s', dstep s (LWWake w) = DNext s'
  | WExit => False
  | _ => exists s', dstep s (LWStep w) = DNext s'
  end.
Proof.
  intros HS Ho Hw. pose proof (ds_q _ HS) as HI. destruct p; cbn [dstep]; rewrite ?Hw.
  - rewrite Ho. destruct (dcnt (d_q s) =? 0); eauto.
  - intros Hc. rewrite Ho. apply Nat.eqb_neq in Hc. rewrite Hc. cbn. eauto.
  - destruct (dremove_ok (d_q s) HI) as (q' & r & H & _). rewrite H. cbn. destruct r; eauto.
  - eauto.
  - eauto.
  - intros ok. destruct ok; eauto.
  - destruct (dadd_ok (d_q s) j HI) as (q' & ok & H & _). rewrite H. cbn. eauto.
  - destruct (ds_open _ HS Ho) as (_ & Hx). apply (Hx w Hw).
Qed.

(* ---- bounded work: every run ends in a success (at most one per job) or in a failure ---- *)
Definition run_of (p : wpc) : list job := match p with WRunning j => [j] | _ => [] end.

Definition CInv (s : dst) : Prop :=
  count_starts (d_log s) =
  length (d_succeeded s) + count_failures (d_log s) + length (flat_map run_of (d_w s)).

Lemma len_updw {B} (f : wpc -> list B) ws w p p' : getw ws w = Some p ->
  length (flat_map f (updw ws w p')) + length (f p) = length (flat_map f ws) + length (f p').
Proof.
  intros H. destruct (flat_map_updw f ws w p p' H) as (rest & P1 & P2).
  rewrite (Permutation_length P1), (Permutation_length P2), !app_length. lia.
Qed.

Lemma count_starts_snoc l e :
  count_starts (l ++ [e]) = count_starts l + match e with EStart _ _ => 1 | _ => 0 end.
Proof. unfold count_starts. rewrite filter_app, app_length. destruct e; reflexivity. Qed.
Lemma count_failures_snoc l e :
  count_failures (l ++ [e]) = count_failures l + match e with EFinish _ false => 1 | _ => 0 end.
Proof. unfold count_failures. rewrite filter_app, app_length. destruct e as [|? [|]]; reflexivity. Qed.

Lemma cinv_step s l s' : CInv s -> dstep s l = DNext s' -> CInv s'.
Proof.
  unfold CInv. intros HC.
  assert (Hplain : forall w p p' q', getw (d_w s) w = Some p -> run_of p = [] -> run_of p' = [] ->
            count_starts (d_log (setw (setq s q') w p')) =
            length (d_succeeded (setw (setq s q') w p')) + count_failures (d_log (setw (setq s q') w p')) +
            length (flat_map run_of (d_w (setw (setq s q') w p')))).
  { intros w p p' q' Hw H1 H2. cbn [d_log d_succeeded d_w setw setq].
    pose proof (len_updw run_of (d_w s) w p p' Hw) as L. rewrite H1, H2 in L. cbn in L. lia. }
  destruct l; cbn [dstep].
  - destruct (job_in j (d_accepted s) || job_in j (d_rejected s)); [discriminate|].
    destruct (dadd (d_q s) j) as [[q' ok]|]; [|discriminate]. cbn. destruct ok; intros [= <-]; cbn; exact HC.
  - intros [= <-]. exact HC.
  - destruct (getw (d_w s) w) as [p|] eqn:Hw; [|discriminate]. destruct p; try discriminate.
    + destruct (dclosed (d_q s)); [|destruct (dcnt (d_q s) =? 0)]; intros [= <-];
        match goal with |- context [setw s w ?p'] =>
          replace (setw s w p') with (setw (setq s (d_q s)) w p') by (destruct s; reflexivity) end;
        eapply Hplain; eauto.
    + destruct (dremove (d_q s)) as [[q' r]|]; [|discriminate]. cbn. destruct r; intros [= <-]; eapply Hplain; eauto.
    + intros [= <-].
      match goal with |- context [setw s w ?p'] =>
        replace (setw s w p') with (setw (setq s (d_q s)) w p') by (destruct s; reflexivity) end.
      destruct (dclosed (d_q s)); eapply Hplain; eauto.
    + intros [= <-]. cbn [d_log d_succeeded d_w setw addlog]. rewrite count_starts_snoc, count_failures_snoc.
      pose proof (len_updw run_of (d_w s) w (WHold j) (WRunning j) Hw) as L. cbn in L. lia.
    + destruct (dadd (d_q s) j) as [[q' ok]|]; [|discriminate]. cbn. intros [= <-]. eapply Hplain; eauto.
  - destruct (getw (d_w s) w) as [p|] eqn:Hw; [|discriminate]. destruct p; try discriminate.
    destruct (dclosed (d_q s) || negb (dcnt (d_q s) =? 0)); [|discriminate]. intros [= <-].
    replace (setw s w WRemove) with (setw (setq s (d_q s)) w WRemove) by (destruct s; reflexivity).
    eapply Hplain; eauto.
  - destruct (getw (d_w s) w) as [p|] eqn:Hw; [|discriminate]. destruct p; try discriminate.
    destruct ok; intros [= <-]; cbn [d_log d_succeeded d_w setw addlog];
      rewrite count_starts_snoc, count_failures_snoc, ?app_length; cbn [length].
    + pose proof (len_updw run_of (d_w s) w (WRunning j) WIdle Hw) as L. cbn in L. lia.
    + pose proof (len_updw run_of (d_w s) w (WRunning j) (WRequeue j) Hw) as L. cbn in L. lia.
Qed.

Lemma cinv_run sched : forall s s', CInv s -> drun s sched = DNext s' -> CInv s'.
Proof.
  induction sched as [|l sched IH]; intros s s' HC; cbn [drun].
  - intros [= <-]. exact HC.
  - destruct (dstep s l) as [s1| |] eqn:E; try discriminate. intros H.
    eapply IH; [eapply cinv_step; eauto|exact H].
Qed.

Lemma cinv_init ic nw : CInv (dinitial ic nw).
Proof.
  unfold CInv, dinitial; cbn.
  assert (E : flat_map run_of (repeat WIdle nw) = []) by (induction nw; cbn; auto). rewrite E. reflexivity.
Qed.

Lemma run_le_held ws : length (flat_map run_of ws) <= length (flat_map job_of ws).
Proof.
  induction ws as [|p ws IH]; cbn; auto. rewrite !app_length. destruct p; cbn; lia.
Qed.

(* the number of runs is at most (number of accepted jobs) + (number of failed runs) *)
Lemma bounded_runs ic nw sched s : 1 <= ic -> drun (dinitial ic nw) sched = DNext s ->
  count_starts (d_log s) <= length (d_accepted s) + count_failures (d_log s).
Proof.
  intros Hic H. pose proof (cinv_run sched _ s (cinv_init ic nw) H) as HC. unfold CInv in HC.
  assert (HS : DSInv s) by (apply (dreach_inv ic nw); [exact Hic|exists sched; exact H]).
  destruct (ds_cons _ HS) as (lost & P & _). apply Permutation_length in P.
  rewrite !app_length in P. pose proof (run_le_held (d_w s)) as L. unfold held in P. lia.
Qed.

(* ---------------------------------------------------------------- full liveness: a ranking function
   Worker-only schedules on a never-closed queue are finite, with an explicit bound: every worker action
   decreases the rank, except a failing run, which may raise it by a constant. *)
Definition rk (ne : bool) (p : wpc) : nat :=
  match p with
  | WRemove => if ne then 0 else 4
  | WCondWait => 1
  | WIdle => 2
  | WCheckClosed => 3
  | WRunning _ => 5
  | WHold _ => 6
  | WRequeue _ => 0      (* plus Q + 3, added in [rsum] so that [rk] stays independent of the worker count *)
  | WExit => 0
  end.

Definition is_requeue (p : wpc) : nat := match p with WRequeue _ => 1 | _ => 0 end.

Fixpoint rsum (q : nat) (ne : bool) (ws : list wpc) : nat :=
  match ws with
  | [] => 0
  | p :: ws' => rk ne p + is_requeue p * (q + 3) + rsum q ne ws'
  end.

Definition Qc (s : dst) : nat := 4 * length (d_w s) + 8.
Definition rank (s : dst) : nat :=
  Qc s * dcnt (d_q s) + rsum (Qc s) (negb (dcnt (d_q s) =? 0)) (d_w s).

Definition worker_label (l : dlabel) : bool :=
  match l with LWStep _ | LWWake _ | LWFinish _ _ => true | _ => false end.
Definition cost (q : nat) (l : dlabel) : nat := match l with LWFinish _ false => q - 1 | _ => 0 end.

Lemma updw_length ws : forall w p, length (updw ws w p) = length ws.
Proof. induction ws; intros [|w] p; cbn; auto. Qed.

Lemma rsum_updw q ne ws : forall w p p', getw ws w = Some p ->
  rsum q ne (updw ws w p') + (rk ne p + is_requeue p * (q + 3)) = rsum q ne ws + (rk ne p' + is_requeue p' * (q + 3)).
Proof.
  unfold getw. induction ws as [|h t IH]; intros [|w] p p' H; cbn in H; try discriminate.
  - injection H as ->. cbn. lia.
  - cbn. specialize (IH w p p' H). lia.
Qed.

Lemma rk_mono p : rk true p <= rk false p /\ rk false p <= rk true p + 4.
Proof. destruct p; cbn; lia. Qed.

Lemma rsum_mono q ws : rsum q true ws <= rsum q false ws /\ rsum q false ws <= rsum q true ws + 4 * length ws.
Proof.
  induction ws as [|p ws (IH1 & IH2)]; cbn; [lia|]. destruct (rk_mono p). lia.
Qed.

Lemma rsum_ne q ne ws : rsum q true ws <= rsum q ne ws /\ rsum q ne ws <= rsum q true ws + 4 * length ws.
Proof. destruct ne; [lia|apply rsum_mono]. Qed.

Lemma rank_step s l s' : DSInv s -> dclosed (d_q s) = false -> worker_label l = true ->
  dstep s l = DNext s' ->
  dclosed (d_q s') = false /\ length (d_w s') = length (d_w s) /\ rank s' + 1 <= rank s + cost (Qc s) l.
Proof.
  intros HS Ho Hl H. pose proof (ds_q _ HS) as HI.
  (* a worker moves from p to p' without touching the queue *)
  assert (Hplain : forall w p p' s1, getw (d_w s) w = Some p ->
            d_q s1 = d_q s -> d_w s1 = updw (d_w s) w p' ->
            forall k, (forall ne, rk ne p' + is_requeue p' * (Qc s + 3) + 1 <= rk ne p + is_requeue p * (Qc s + 3) + k) ->
            dclosed (d_q s1) = false /\ length (d_w s1) = length (d_w s) /\ rank s1 + 1 <= rank s + k).
  { intros w p p' s1 Hw Eq Ew k Hk. rewrite Eq. split; [exact Ho|]. rewrite Ew, updw_length. split; [reflexivity|].
    unfold rank, Qc. rewrite Eq, Ew, updw_length.
    pose proof (rsum_updw (4 * length (d_w s) + 8) (negb (dcnt (d_q s) =? 0)) (d_w s) w p p' Hw) as R.
    specialize (Hk (negb (dcnt (d_q s) =? 0))). unfold Qc in Hk. lia. }
  destruct l; try discriminate; cbn [dstep] in H.
  - (* LWStep *)
    destruct (getw (d_w s) w) as [p|] eqn:Hw; [|discriminate]. destruct p; try discriminate.
    + (* WIdle *)
      rewrite Ho in H. destruct (dcnt (d_q s) =? 0) eqn:E0; injection H as <-.
      * (* queue empty: the rank is evaluated with ne = false *)
        split; [exact Ho|]. cbn [d_w setw]. rewrite updw_length. split; [reflexivity|].
        unfold rank, Qc; cbn [d_q d_w setw]. rewrite updw_length, E0. cbn [negb].
        pose proof (rsum_updw (4 * length (d_w s) + 8) false (d_w s) w WIdle WCondWait Hw) as R. cbn [rk is_requeue] in R. lia.
      * split; [exact Ho|]. cbn [d_w setw]. rewrite updw_length. split; [reflexivity|].
        unfold rank, Qc; cbn [d_q d_w setw]. rewrite updw_length, E0. cbn [negb].
        pose proof (rsum_updw (4 * length (d_w s) + 8) true (d_w s) w WIdle WRemove Hw) as R. cbn [rk is_requeue] in R. lia.
    + (* WRemove *)
      destruct (dremove_ok (d_q s) HI) as (q' & r & Hr & I' & Hc & _ & Ha). rewrite Hr in H. cbn [dqdo] in H.
      destruct r as [j|]; injection H as <-.
      * (* a job is taken: cnt decreases by one *)
        assert (Hcnt : dcnt (d_q s) = S (dcnt q')).
        { rewrite <- (dabs_length (d_q s)), <- (dabs_length q'), Ha. reflexivity. }
        split; [cbn; congruence|]. cbn [d_w setw setq]. rewrite updw_length. split; [reflexivity|].
        unfold rank, Qc; cbn [d_q d_w setw setq cost]. rewrite updw_length, Hcnt. cbn [Nat.eqb negb].
        remember (4 * length (d_w s) + 8) as Q eqn:EQ.
        pose proof (rsum_updw Q true (d_w s) w WRemove (WHold j) Hw) as R. cbn [rk is_requeue] in R.
        pose proof (rsum_ne Q (negb (dcnt q' =? 0)) (updw (d_w s) w (WHold j))) as (_ & M). rewrite updw_length in M.
        nia.
      * (* nothing there *)
        destruct Ha as (Ha & _). assert (E0 : dcnt (d_q s) = 0) by (rewrite <- dabs_length, Ha; reflexivity).
        assert (Eq : q' = d_q s).
        { unfold dremove in Hr. rewrite E0 in Hr. cbn in Hr. congruence. }
        subst q'. split; [exact Ho|]. cbn [d_w setw setq]. rewrite updw_length. split; [reflexivity|].
        unfold rank, Qc; cbn [d_q d_w setw setq cost]. rewrite updw_length, E0. cbn [Nat.eqb negb].
        pose proof (rsum_updw (4 * length (d_w s) + 8) false (d_w s) w WRemove WCheckClosed Hw) as R. cbn [rk is_requeue] in R. lia.
    + (* WCheckClosed *)
      rewrite Ho in H. injection H as <-.
      cbn [cost]. eapply (Hplain w WCheckClosed WIdle); [exact Hw|reflexivity|reflexivity|]. intros ne. destruct ne; cbn; lia.
    + (* WHold *)
      injection H as <-.
      cbn [cost]. eapply (Hplain w (WHold j) (WRunning j)); [exact Hw|reflexivity|reflexivity|]. intros ne. cbn; lia.
    + (* WRequeue *)
      destruct (dadd_ok (d_q s) j HI) as (q' & ok & Ha & I' & Hc & _ & Hok & Hab). rewrite Ha in H. cbn [dqdo] in H.
      injection H as <-. rewrite Ho in Hok. cbn in Hok. subst ok.
      assert (Hcnt : dcnt q' = S (dcnt (d_q s))).
      { rewrite <- (dabs_length (d_q s)), <- (dabs_length q'), Hab, app_length. cbn. lia. }
      split; [cbn; congruence|]. cbn [d_w setw setq]. rewrite updw_length. split; [reflexivity|].
      unfold rank, Qc; cbn [d_q d_w setw setq cost]. rewrite updw_length, Hcnt. cbn [Nat.eqb negb].
      remember (4 * length (d_w s) + 8) as Q eqn:EQ.
      pose proof (rsum_updw Q (negb (dcnt (d_q s) =? 0)) (d_w s) w (WRequeue j) WIdle Hw) as R. cbn [rk is_requeue] in R.
      pose proof (rsum_ne Q (negb (dcnt (d_q s) =? 0)) (updw (d_w s) w WIdle)) as (M & _).
      nia.
  - (* LWWake *)
    destruct (getw (d_w s) w) as [p|] eqn:Hw; [|discriminate]. destruct p; try discriminate.
    rewrite Ho in H. cbn [orb] in H. destruct (dcnt (d_q s) =? 0) eqn:E0; [discriminate|]. injection H as <-.
    split; [exact Ho|]. cbn [d_w setw]. rewrite updw_length. split; [reflexivity|].
    unfold rank, Qc; cbn [d_q d_w setw cost]. rewrite updw_length, E0. cbn [negb].
    pose proof (rsum_updw (4 * length (d_w s) + 8) true (d_w s) w WCondWait WRemove Hw) as R. cbn [rk is_requeue] in R. lia.
  - (* LWFinish *)
    destruct (getw (d_w s) w) as [p|] eqn:Hw; [|discriminate]. destruct p; try discriminate.
    destruct ok; injection H as <-.
    + cbn [cost]. eapply (Hplain w (WRunning j) WIdle); [exact Hw|reflexivity|reflexivity|]. intros ne. destruct ne; cbn; lia.
    + cbn [cost]. eapply (Hplain w (WRunning j) (WRequeue j)); [exact Hw|reflexivity|reflexivity|]. intros ne. unfold Qc. cbn [rk is_requeue]. lia.
Qed.

Definition fails (sched : list dlabel) : nat :=
  length (filter (fun l => match l with LWFinish _ false => true | _ => false end) sched).

Lemma cost_fails q l : cost q l = (q - 1) * fails [l].
Proof. destruct l as [| | | |w [|]]; cbn; lia. Qed.

Lemma rank_run sched : forall s s', DSInv s -> dclosed (d_q s) = false ->
  forallb worker_label sched = true -> drun s sched = DNext s' ->
  DSInv s' /\ dclosed (d_q s') = false /\ length (d_w s') = length (d_w s) /\
  length sched + rank s' <= rank s + (Qc s - 1) * fails sched.
Proof.
  induction sched as [|l sched IH]; intros s s' HS Ho Hw; cbn [drun].
  - intros [= <-]. split; [exact HS|]. split; [exact Ho|]. split; [reflexivity|]. unfold fails. cbn [filter length]. lia.
  - cbn in Hw. apply andb_true_iff in Hw. destruct Hw as [Hl Hw].
    destruct (dstep s l) as [s1| |] eqn:E; try discriminate. intros H.
    destruct (rank_step s l s1 HS Ho Hl E) as (Ho1 & Hlen1 & Hr1).
    pose proof (dstep_ok s l HS) as HS1. rewrite E in HS1. cbn in HS1.
    destruct (IH s1 s' HS1 Ho1 Hw H) as (HS' & Ho' & Hlen' & Hr').
    assert (EQ : Qc s1 = Qc s) by (unfold Qc; rewrite Hlen1; reflexivity). rewrite EQ in Hr'.
    split; auto. split; auto. split; [congruence|].
    rewrite cost_fails in Hr1. unfold fails in *. cbn [filter length] in *.
    destruct l as [| | | |w [|]]; cbn [length] in *; nia.
Qed.

Lemma rsum_le q ne ws : rsum q ne ws <= length ws * (q + 9).
Proof. induction ws as [|p ws IH]; cbn; auto. destruct p, ne; cbn; nia. Qed.

Lemma rank_le s : rank s <= Qc s * dcnt (d_q s) + length (d_w s) * (Qc s + 9).
Proof. unfold rank. pose proof (rsum_le (Qc s) (negb (dcnt (d_q s) =? 0)) (d_w s)). lia. Qed.

(* a state in which no worker action is enabled: every worker sleeps on an empty queue *)
Lemma no_worker_enabled_done s : DSInv s -> dclosed (d_q s) = false -> 1 <= length (d_w s) ->
  (forall l, worker_label l = true -> dstep s l = DBlocked) ->
  Permutation (d_accepted s) (d_succeeded s).
Proof.
  intros HS Ho Hnw Hblk.
  assert (Hall : forall w p, getw (d_w s) w = Some p -> p = WCondWait /\ dcnt (d_q s) = 0).
  { intros w p Hw. pose proof (progress s w p HS Ho Hw) as P. destruct p.
    - destruct P as (s' & E). rewrite (Hblk (LWStep w) eq_refl) in E. discriminate.
    - split; auto. destruct (Nat.eq_dec (dcnt (d_q s)) 0) as [E0|E0]; auto.
      destruct (P E0) as (s' & E). rewrite (Hblk (LWWake w) eq_refl) in E. discriminate.
    - destruct P as (s' & E). rewrite (Hblk (LWStep w) eq_refl) in E. discriminate.
    - destruct P as (s' & E). rewrite (Hblk (LWStep w) eq_refl) in E. discriminate.
    - destruct P as (s' & E). rewrite (Hblk (LWStep w) eq_refl) in E. discriminate.
    - destruct (P true) as (s' & E). rewrite (Hblk (LWFinish w true) eq_refl) in E. discriminate.
    - destruct P as (s' & E). rewrite (Hblk (LWStep w) eq_refl) in E. discriminate.
    - destruct P. }
  assert (Hc : dcnt (d_q s) = 0).
  { destruct (d_w s) as [|p ws] eqn:Ews; [cbn in Hnw; lia|].
    destruct (Hall 0 p) as (_ & H0); [reflexivity|exact H0]. }
  apply terminal_all_done; auto.
  unfold held. assert (Hws : forall ws, (forall w p, getw ws w = Some p -> p = WCondWait) -> flat_map job_of ws = []).
  { induction ws as [|p ws IHws]; intros Hp; cbn; auto.
    rewrite (Hp 0 p eq_refl). cbn. apply IHws. intros w q Hq. apply (Hp (S w) q). exact Hq. }
  apply Hws. intros w p Hw. apply (Hall w p Hw).
Qed.

(* LIVENESS.  Never-closed queue, any reachable state, any continuation made of worker actions only:
   (1) its length is bounded by rank + (Q-1) * (number of failed runs in it), a computable number
       (rank <= Q * queue length + workers * (Q + 9), Q = 4 * workers + 8) -- so with every job failing
       at most k times a worker-only run is finite;
   (2) explicit fairness premise: the run is maximal, i.e. it stops only where no worker action is
       enabled; there every submitted (accepted) job has succeeded. *)
Theorem liveness ic nw sched0 s sched s' : 1 <= ic ->
  drun (dinitial ic nw) sched0 = DNext s -> dclosed (d_q s) = false ->
  forallb worker_label sched = true -> drun s sched = DNext s' ->
  length sched <= rank s + (Qc s - 1) * fails sched /\
  rank s <= Qc s * dcnt (d_q s) + length (d_w s) * (Qc s + 9) /\
  (1 <= length (d_w s) -> (forall l, worker_label l = true -> dstep s' l = DBlocked) ->
   Permutation (d_accepted s') (d_succeeded s') /\ d_accepted s' = d_accepted s).
Proof.
  intros Hic H0 Ho Hw H.
  assert (HS : DSInv s) by (apply (dreach_inv ic nw); [exact Hic|exists sched0; exact H0]).
  destruct (rank_run sched s s' HS Ho Hw H) as (HS' & Ho' & Hlen & Hr).
  split; [lia|]. split; [apply rank_le|].
  intros Hnw Hblk. split; [apply no_worker_enabled_done; auto; lia|].
  clear - Hw H. revert s H. induction sched as [|l sched IH]; intros s H; cbn [drun] in H.
  - injection H as <-. reflexivity.
  - cbn in Hw. apply andb_true_iff in Hw. destruct Hw as [Hl Hw].
    destruct (dstep s l) as [s1| |] eqn:E; try discriminate.
    rewrite (IH Hw s1 H). destruct l; try discriminate; cbn [dstep] in E.
    + destruct (getw (d_w s) w) as [p|]; [|discriminate]. destruct p; try discriminate.
      * destruct (dclosed (d_q s)); [|destruct (dcnt (d_q s) =? 0)]; injection E as <-; reflexivity.
      * destruct (dremove (d_q s)) as [[q r]|]; [|discriminate]. cbn in E. destruct r; injection E as <-; reflexivity.
      * injection E as <-. reflexivity.
      * injection E as <-. reflexivity.
      * destruct (dadd (d_q s) j) as [[q r]|]; [|discriminate]. cbn in E. injection E as <-. reflexivity.
    + destruct (getw (d_w s) w) as [p|]; [|discriminate]. destruct p; try discriminate.
      destruct (dclosed (d_q s) || negb (dcnt (d_q s) =? 0)); [|discriminate]. injection E as <-. reflexivity.
    + destruct (getw (d_w s) w) as [p|]; [|discriminate]. destruct p; try discriminate.
      destruct ok; injection E as <-; reflexivity.
Qed.
