(* Proofs for the deferred-work queue (Model/Dissolve.v): (A) the Job ring queue refines a FIFO and
   never panics (it needs "more than half full unless at initial capacity" because its resize has no
   empty-queue branch); (B) invariant of the dissolver transition system for all schedules. *)
From Coq Require Import List NArith ZArith Bool Arith Lia Permutation.
From Cfg Require Import Model.RingQueue Model.RingQueueSpec Proofs.RingQueueLib Proofs.RingQueue Model.Dissolve.
Import ListNotations.

(* ---------------------------------------------------------------- (A) ring *)
Definition embed (q : dq) : rq :=
  mkRq (dnodes q) (dhead q) (dtail q) (dcnt q) 0%Z (dclosed q) (dinit q) false.

Definition dabs (q : dq) : list job := abs (embed q).

Definition DWF (q : dq) : Prop :=
  1 <= dinit q /\ WF (embed q) /\
  (exists k, length (dnodes q) = dinit q * 2 ^ k) /\
  (length (dnodes q) = dinit q \/ length (dnodes q) < 2 * dcnt q).

Definition DInv (q : dq) : Prop :=
  1 <= dinit q /\ if dclosed q then dnodes q = [] /\ dcnt q = 0 else DWF q.

Lemma dresize_ok q n :
  1 <= dinit q -> WF (embed q) -> 1 <= dcnt q -> dcnt q <= n ->
  exists ns, dresize q n = Some (mkDq ns 0 (dcnt q mod n) (dcnt q) (dclosed q) (dinit q)) /\
             length ns = n /\ forall k, k < dcnt q -> nth k ns zero_item = get (embed q) k.
Proof.
  intros Hic (Hcap & Hh & Hc & Ht) Hc1 Hn. cbn [embed nodes head tail cnt initCap] in *.
  unfold dresize. rewrite idx_small in Ht by lia. set (c := length (dnodes q)) in *.
  assert (Lb : length (repeat zero_item n) = n) by apply repeat_length.
  destruct (dhead q + dcnt q <? c) eqn:Ew.
  - apply Nat.ltb_lt in Ew.
    replace (dhead q <? dtail q) with true by (symmetry; apply Nat.ltb_lt; lia).
    destruct (slice_some (dnodes q) (dhead q) (dtail q)) as (s & Hs & Ls & Ns); [lia|fold c; lia|].
    rewrite Hs. cbn [bind].
    destruct (copy_at_some (repeat zero_item n) 0 s) as (r & Hr & Lr & Nr); [lia|].
    rewrite Hr. cbn [option_map fst bind]. rewrite modn_some by lia. cbn [bind].
    exists r. split; [reflexivity|]. split; [lia|].
    intros k Hk. rewrite Nr. rewrite Lb, Ls.
    replace ((0 <=? k) && (k <? 0 + Nat.min (n - 0) (dtail q - dhead q))) with true
      by (symmetry; apply andb_true_iff; split; [apply Nat.leb_le|apply Nat.ltb_lt]; lia).
    rewrite Nat.sub_0_r, Ns by lia. unfold get. cbn [embed nodes head]. fold c. rewrite idx_small by lia.
    replace (dhead q + k <? c) with true by (symmetry; apply Nat.ltb_lt; lia). reflexivity.
  - apply Nat.ltb_ge in Ew.
    replace (dhead q <? dtail q) with false by (symmetry; apply Nat.ltb_ge; lia).
    destruct (slice_some (dnodes q) (dhead q) c) as (s1 & Hs1 & Ls1 & Ns1); [lia|lia|].
    destruct (slice_some (dnodes q) 0 (dtail q)) as (s2 & Hs2 & Ls2 & Ns2); [lia|fold c; lia|].
    rewrite Hs1, Hs2. cbn [bind].
    destruct (copy_at_some (repeat zero_item n) 0 s1) as (r1 & Hr1 & Lr1 & Nr1); [lia|].
    rewrite Hr1. cbn [bind]. rewrite Lb in Nr1, Lr1. rewrite Ls1 in Nr1.
    replace (Nat.min (n - 0) (c - dhead q)) with (c - dhead q) in * by lia.
    destruct (copy_at_some r1 (c - dhead q) s2) as (r & Hr & Lr & Nr); [lia|].
    rewrite Hr. cbn [option_map fst bind]. rewrite modn_some by lia. cbn [bind].
    exists r. split; [reflexivity|]. split; [lia|].
    intros k Hk. rewrite Nr. rewrite Lr1, Ls2.
    unfold get. cbn [embed nodes head]. fold c. rewrite idx_small by lia.
    destruct (dhead q + k <? c) eqn:Ek.
    + apply Nat.ltb_lt in Ek.
      replace ((c - dhead q <=? k) && _) with false
        by (symmetry; apply andb_false_iff; left; apply Nat.leb_gt; lia).
      rewrite Nr1.
      replace ((0 <=? k) && (k <? 0 + (c - dhead q))) with true
        by (symmetry; apply andb_true_iff; split; [apply Nat.leb_le|apply Nat.ltb_lt]; lia).
      rewrite Nat.sub_0_r, Ns1 by lia. reflexivity.
    + apply Nat.ltb_ge in Ek.
      replace ((c - dhead q <=? k) && _) with true
        by (symmetry; apply andb_true_iff; split; [apply Nat.leb_le|apply Nat.ltb_lt]; lia).
      rewrite Ns2 by lia. f_equal. lia.
Qed.

(* the resized queue, seen through the embedding *)
Lemma dresize_post q n ns :
  1 <= dinit q -> dinit q <= n -> dcnt q <= n -> length ns = n ->
  (forall k, k < dcnt q -> nth k ns zero_item = get (embed q) k) ->
  let q' := mkDq ns 0 (dcnt q mod n) (dcnt q) (dclosed q) (dinit q) in
  WF (embed q') /\ dabs q' = dabs q.
Proof.
  intros Hic Hin Hc Ln Hk q'.
  destruct (resize_post (embed q) n ns) as (W & A & _ & _); auto; try (cbn; lia).
Qed.

Lemma DInv_open q : DInv q -> dclosed q = false -> DWF q.
Proof. intros (H1 & H2) Hc. rewrite Hc in H2. auto. Qed.
Lemma DInv_closed q : DInv q -> dclosed q = true -> dnodes q = [] /\ dcnt q = 0 /\ dabs q = [].
Proof.
  intros (H1 & H2) Hc. rewrite Hc in H2. destruct H2. repeat split; auto.
  unfold dabs. apply abs_cnt0. auto.
Qed.

Lemma dabs_length q : length (dabs q) = dcnt q.
Proof. unfold dabs. rewrite abs_length. reflexivity. Qed.

Lemma DInv_new ic : 1 <= ic -> DInv (dnew ic) /\ dabs (dnew ic) = [].
Proof.
  intros H. split; [|reflexivity]. split; [exact H|]. cbn. split; [exact H|]. split.
  - unfold WF; cbn. rewrite repeat_length. unfold idx; cbn. rewrite Nat.mod_0_l by lia. repeat split; lia.
  - cbn. rewrite repeat_length. split; [exists 0; cbn; lia|left; reflexivity].
Qed.

Lemma dclose_inv q : 1 <= dinit q -> DInv (dclose q) /\ dabs (dclose q) = [] /\ dclosed (dclose q) = true.
Proof. intros H. split; [split; cbn; auto|split; reflexivity]. Qed.

(* Add *)
Lemma dadd_ok q j : DInv q ->
  exists q' ok, dadd q j = Some (q', ok) /\ DInv q' /\ dclosed q' = dclosed q /\ dinit q' = dinit q /\
    ok = negb (dclosed q) /\ dabs q' = if ok then dabs q ++ [j] else dabs q.
Proof.
  intros HI. unfold dadd. destruct (dclosed q) eqn:Ec.
  - exists q, false. split; [reflexivity|]. split; [exact HI|]. repeat split; auto.
  - destruct (DInv_open q HI Ec) as (Hic & Hwf & (k & Hk) & Hs).
    assert (exists q1, (if dcnt q =? length (dnodes q) then dresize q (dcnt q * 2) else Some q) = Some q1 /\
              WF (embed q1) /\ dabs q1 = dabs q /\ dcnt q1 < length (dnodes q1) /\ dcnt q1 = dcnt q /\
              dclosed q1 = false /\ dinit q1 = dinit q /\
              (exists k', length (dnodes q1) = dinit q * 2 ^ k') /\
              (length (dnodes q1) = dinit q \/ length (dnodes q1) < 2 * (dcnt q + 1)))
      as (q1 & H1 & W1 & A1 & C1 & C1' & Ec1 & I1 & P1 & S1).
    { pose proof Hwf as (Hcap & _). cbn [embed nodes initCap] in Hcap.
      destruct (dcnt q =? length (dnodes q)) eqn:E.
      - apply Nat.eqb_eq in E.
        destruct (dresize_ok q (dcnt q * 2) Hic Hwf) as (ns & Hr & Ln & Nn); [lia|lia|].
        destruct (dresize_post q (dcnt q * 2) ns Hic) as (W' & A'); auto; try lia.
        eexists; split; [exact Hr|]. cbn [dnodes dcnt dclosed dinit].
        split; [exact W'|]. split; [exact A'|]. rewrite Ln. repeat split; auto; try lia.
        exists (S k). rewrite E, Hk. cbn [Nat.pow]. lia.
      - apply Nat.eqb_neq in E. destruct Hwf as (? & ? & Hc & ?). cbn [embed nodes cnt] in Hc.
        exists q. repeat split; auto; try lia. exists k; auto. }
    rewrite H1. cbn [bind].
    destruct (put_ok (embed q1) j W1) as (r & Hp & Wr & Ar & _ & (Kc & Ki) & Lr & Cr); [cbn; lia|exact C1|].
    unfold put in Hp. cbn [embed nodes tail head cnt qsize qclosed initCap shrinkArmed] in Hp.
    destruct (wr (dnodes q1) (dtail q1) j) as [ns|] eqn:Hw; [|discriminate]. cbn [bind] in Hp |- *.
    destruct (modn (dtail q1 + 1) (length ns)) as [t|] eqn:Hm; [|discriminate]. cbn [bind] in Hp |- *.
    injection Hp as <-.
    eexists _, true. split; [reflexivity|]. cbn [dclosed dinit].
    assert (Wn : WF (embed (mkDq ns (dhead q1) t (S (dcnt q1)) (dclosed q1) (dinit q1)))) by exact Wr.
    assert (An : dabs (mkDq ns (dhead q1) t (S (dcnt q1)) (dclosed q1) (dinit q1)) = dabs q1 ++ [j]) by exact Ar.
    cbn [embed nodes] in Lr.
    split; [|repeat split; auto; try congruence].
    split; [cbn; lia|]. cbn [dclosed]. rewrite Ec1. split; [cbn; lia|]. split; [exact Wn|].
    cbn [dnodes dcnt dinit]. rewrite Lr, I1, C1'. split; auto.
    destruct S1; [left; auto|right; lia].
Qed.

(* Remove *)
Lemma dremove_ok q : DInv q ->
  exists q' r, dremove q = Some (q', r) /\ DInv q' /\ dclosed q' = dclosed q /\ dinit q' = dinit q /\
    match r with
    | None => dabs q = [] /\ dabs q' = []
    | Some j => dabs q = j :: dabs q'
    end.
Proof.
  intros HI. unfold dremove. destruct (dcnt q =? 0) eqn:E0.
  - apply Nat.eqb_eq in E0. exists q, None. split; [reflexivity|]. split; [exact HI|].
    split; [reflexivity|]. split; [reflexivity|]. split; unfold dabs; apply abs_cnt0; auto.
  - apply Nat.eqb_neq in E0. destruct (dclosed q) eqn:Ec.
    { destruct (DInv_closed q HI Ec) as (_ & ? & _). lia. }
    destruct (DInv_open q HI Ec) as (Hic & Hwf & (k & Hk) & Hs).
    destruct (take1_ok false (embed q) Hwf) as (r & Ht & Wr & Ar & _ & (Kc & Ki) & Lr & Cr); [exact Hic|cbn; lia|].
    unfold take1 in Ht. cbn [embed nodes tail head cnt qsize qclosed initCap shrinkArmed] in Ht.
    destruct (rd (dnodes q) (dhead q)) as [j|] eqn:Hrd; [|discriminate]. cbn [bind] in Ht |- *.
    destruct (modn (dhead q + 1) (length (dnodes q))) as [h|] eqn:Hm; [|discriminate]. cbn [bind] in Ht |- *.
    injection Ht as <- Hj. rewrite Ec in Wr, Ar.
    set (q1 := mkDq (dnodes q) h (dtail q) (dcnt q - 1) false (dinit q)) in *.
    assert (W1 : WF (embed q1)) by exact Wr.
    assert (A1 : dabs q = j :: dabs q1) by (unfold dabs; rewrite Ar, Hj; reflexivity).
    cbn [dnodes dinit dcnt q1].
    destruct ((dinit q <=? length (dnodes q) / 2) && (dcnt q - 1 <=? length (dnodes q) / 2)) eqn:E.
    + apply andb_true_iff in E. destruct E as [E1 E2]. apply Nat.leb_le in E1, E2.
      (* only possible above the initial capacity, where the queue is more than half full *)
      destruct Hs as [Hs|Hs].
      { pose proof (Nat.div_lt (length (dnodes q)) 2). lia. }
      destruct k as [|k]; [cbn in Hk; pose proof (Nat.div_lt (length (dnodes q)) 2); lia|].
      assert (Hhalf : length (dnodes q) / 2 = dinit q * 2 ^ k).
      { rewrite Hk. cbn [Nat.pow]. replace (dinit q * (2 * 2 ^ k)) with ((dinit q * 2 ^ k) * 2) by lia.
        apply Nat.div_mul. lia. }
      assert (Hp : 1 <= 2 ^ k) by (pose proof (Nat.pow_nonzero 2 k); lia).
      assert (Hcnt : dcnt q - 1 = length (dnodes q) / 2).
      { rewrite Hhalf in *. rewrite Hk in Hs. cbn [Nat.pow] in Hs. nia. }
      destruct (dresize_ok q1 (length (dnodes q) / 2)) as (ns & Hr & Ln & Nn); auto; cbn [dcnt dinit q1]; try nia.
      destruct (dresize_post q1 (length (dnodes q) / 2) ns) as (W' & A'); auto; cbn [dcnt dinit q1]; try lia.
      rewrite Hr. cbn [bind]. eexists _, (Some j). split; [reflexivity|]. cbn [dclosed dinit dcnt q1] in *.
      split; [|repeat split; auto; rewrite A1, A'; reflexivity].
      split; [cbn; lia|]. cbn [dclosed]. split; [cbn; lia|]. split; [exact W'|].
      cbn [dnodes dcnt dinit]. rewrite Ln. split; [exists k; exact Hhalf|].
      right. nia.
    + cbn [bind]. eexists _, (Some j). split; [reflexivity|]. fold q1.
      split; [|repeat split; auto].
      split; [cbn; lia|]. cbn [dclosed q1]. split; [cbn; lia|]. split; [exact W1|].
      split; [exists k; exact Hk|]. subst q1. cbn [dnodes dcnt dinit].
      destruct Hs as [Hs|Hs]; [left; exact Hs|].
      apply andb_false_iff in E. destruct E as [E|E]; [apply Nat.leb_gt in E|apply Nat.leb_gt in E].
      * left. destruct k as [|k]; [cbn in Hk; lia|].
        exfalso. rewrite Hk in E. cbn [Nat.pow] in E.
        replace (dinit q * (2 * 2 ^ k)) with ((dinit q * 2 ^ k) * 2) in E by lia.
        rewrite Nat.div_mul in E by lia. pose proof (Nat.pow_nonzero 2 k). nia.
      * destruct k as [|k]; [left; cbn in Hk; lia|]. right.
        assert (Hhalf : length (dnodes q) / 2 = dinit q * 2 ^ k).
        { rewrite Hk. cbn [Nat.pow]. replace (dinit q * (2 * 2 ^ k)) with ((dinit q * 2 ^ k) * 2) by lia.
          apply Nat.div_mul. lia. }
        rewrite Hhalf in E. rewrite Hk. cbn [Nat.pow]. lia.
Qed.

(* ---------------------------------------------------------------- (B) the dissolver *)
Lemma flat_map_updw {B} (f : wpc -> list B) ws : forall w p p',
  nth_error ws w = Some p ->
  exists rest, Permutation (flat_map f ws) (f p ++ rest) /\
               Permutation (flat_map f (updw ws w p')) (f p' ++ rest).
Proof.
  induction ws as [|h t IH]; intros w p p' H; destruct w; cbn in H; try discriminate.
  - injection H as ->. exists (flat_map f t). cbn. split; apply Permutation_refl.
  - destruct (IH w p p' H) as (rest & P1 & P2). exists (f h ++ rest). cbn. split.
    + rewrite P1. rewrite !app_assoc. apply Permutation_app_tail. apply Permutation_app_comm.
    + rewrite P2. rewrite !app_assoc. apply Permutation_app_tail. apply Permutation_app_comm.
Qed.

Lemma getw_updw ws : forall w p w', getw (updw ws w p) w' =
  if w =? w' then (match getw ws w with Some _ => Some p | None => None end) else getw ws w'.
Proof.
  unfold getw. induction ws as [|h t IH]; intros w p w'.
  - destruct w, w'; cbn; auto. destruct (w =? w'); auto.
  - destruct w, w'; cbn; auto.
Qed.

Lemma job_in_false j l : job_in j l = false <-> ~ In (it_id j) (map it_id l).
Proof.
  unfold job_in. induction l as [|x l IH]; cbn; [tauto|].
  rewrite orb_false_iff, IH. unfold job_eqb. rewrite N.eqb_neq. intuition congruence.
Qed.

Lemma job_in_app j a b : job_in j (a ++ b) = job_in j a || job_in j b.
Proof. apply existsb_app. Qed.

Definition check_ev (e : dev) (done : list job) : bool :=
  match e with EStart j _ => negb (job_in j done) | _ => true end.

Lemma ok_log_snoc l : forall d e, ok_log d (l ++ [e]) = ok_log d l && check_ev e (d ++ done_of l).
Proof.
  induction l as [|x l IH]; intros d e; cbn [app ok_log done_of].
  - rewrite app_nil_r. destruct e as [j f|j [|]]; cbn; rewrite ?andb_true_r; reflexivity.
  - destruct x as [j f|j [|]]; cbn [ok_log done_of]; rewrite IH.
    + rewrite andb_assoc. reflexivity.
    + rewrite <- app_assoc. reflexivity.
    + reflexivity.
Qed.

Lemma done_of_snoc l e : done_of (l ++ [e]) = done_of l ++ match e with EFinish j true => [j] | _ => [] end.
Proof.
  induction l as [|x l IH]; cbn.
  - destruct e as [j f|j [|]]; reflexivity.
  - destruct x as [j f|j [|]]; cbn; rewrite IH; reflexivity.
Qed.

Lemma late_starts_snoc l e :
  late_starts (l ++ [e]) = late_starts l ++ match e with EStart j true => [j] | _ => [] end.
Proof.
  induction l as [|x l IH]; cbn.
  - destruct e as [j [|]|j f]; reflexivity.
  - destruct x as [j [|]|j f]; cbn; rewrite IH; reflexivity.
Qed.

Record DSInv (s : dst) : Prop := mkDSInv {
  ds_q : DInv (d_q s);
  ds_cons : exists lost, Permutation (d_accepted s) (d_succeeded s ++ dabs (d_q s) ++ held s ++ lost) /\
                         (dclosed (d_q s) = false -> lost = []);
  ds_fresh : NoDup (map it_id (d_accepted s ++ d_rejected s));
  ds_done : d_succeeded s = done_of (d_log s);
  ds_log : ok_log [] (d_log s) = true;
  ds_open : dclosed (d_q s) = false -> late_starts (d_log s) = [] /\ forall w, getw (d_w s) w <> Some WExit
}.

Lemma DSInv_init ic nw : 1 <= ic -> DSInv (dinitial ic nw).
Proof.
  intros H. destruct (DInv_new ic H) as (HI & HA).
  constructor; cbn; auto.
  - exists []. split; auto.
    assert (E : flat_map job_of (repeat WIdle nw) = []) by (induction nw; cbn; auto).
    rewrite E. constructor.
  - constructor.
  - intros _. split; auto. intros w. unfold getw. revert w. induction nw; intros [|w]; cbn; try discriminate; auto.
Qed.

Lemma nodup_app_l {A} (a b : list A) : NoDup (a ++ b) -> NoDup a.
Proof.
  induction a; cbn; intros H; [constructor|]. inversion H; subst. constructor; auto.
  intros Hin. apply H2. apply in_or_app. auto.
Qed.

Lemma nodup_app_disj {A} (a b : list A) x : NoDup (a ++ b) -> In x a -> In x b -> False.
Proof.
  induction a as [|y a IH]; cbn; intros H Ha Hb; [contradiction|]. inversion H; subst.
  destruct Ha as [->|Ha]; [apply H2; apply in_or_app; auto|auto].
Qed.

(* the ids of held/queued/succeeded jobs are pairwise distinct *)
Lemma cons_nodup s : DSInv s ->
  exists lost, NoDup (map it_id (d_succeeded s ++ dabs (d_q s) ++ held s ++ lost)).
Proof.
  intros HS. destruct (ds_cons _ HS) as (lost & P & _). exists lost.
  pose proof (ds_fresh _ HS) as ND. rewrite map_app in ND. apply nodup_app_l in ND.
  eapply Permutation_NoDup; [apply Permutation_map; exact P|exact ND].
Qed.

Lemma held_not_succeeded s w j : DSInv s -> getw (d_w s) w = Some (WHold j) -> job_in j (d_succeeded s) = false.
Proof.
  intros HS Hw. destruct (cons_nodup s HS) as (lost & ND).
  destruct (flat_map_updw job_of (d_w s) w (WHold j) WIdle Hw) as (rest & P1 & _).
  apply job_in_false. intros Hin.
  assert (Hheld : In (it_id j) (map it_id (held s))).
  { apply in_map. unfold held. eapply Permutation_in; [apply Permutation_sym; exact P1|]. cbn. auto. }
  rewrite map_app in ND. eapply nodup_app_disj; [exact ND|exact Hin|].
  rewrite !map_app. apply in_or_app. right. apply in_or_app. left. exact Hheld.
Qed.
