(* Refinement of the ring-buffer queue model (Model/RingQueue.v) to the abstract
   FIFO (Model/RingQueueSpec.v) for all operation sequences, with the
   representation invariant that makes every Go index/slice/modulo safe. *)
From Coq Require Import List NArith ZArith Bool Arith Lia.
From Cfg Require Import Model.RingQueue Model.RingQueueSpec Proofs.RingQueueLib.
Import ListNotations.

Definition get (q : rq) (k : nat) : item :=
  nth (idx (head q) k (length (nodes q))) (nodes q) zero_item.

(* abstraction function: the cnt items starting at head, wrapping *)
Definition abs (q : rq) : list item := map (get q) (seq 0 (cnt q)).

Definition WF (q : rq) : Prop :=
  initCap q <= length (nodes q) /\ head q < length (nodes q) /\
  cnt q <= length (nodes q) /\ tail q = idx (head q) (cnt q) (length (nodes q)).

Definition RInv (q : rq) : Prop :=
  1 <= initCap q /\ qsize q = size_of (abs q) /\
  (if qclosed q then nodes q = [] /\ cnt q = 0 else WF q).

Lemma abs_length q : length (abs q) = cnt q.
Proof. unfold abs. rewrite map_length, seq_length. auto. Qed.

Lemma abs_nth q k : k < cnt q -> nth k (abs q) zero_item = get q k.
Proof.
  intros. unfold abs.
  rewrite nth_indep with (d' := get q 0) by (rewrite map_length, seq_length; auto).
  rewrite map_nth. rewrite seq_nth by auto. reflexivity.
Qed.

Lemma abs_ext q q' :
  cnt q' = cnt q -> (forall k, k < cnt q -> get q' k = get q k) -> abs q' = abs q.
Proof.
  intros Hc Hg. unfold abs. rewrite Hc. apply map_ext_in. intros k Hk.
  apply in_seq in Hk. apply Hg. lia.
Qed.

Lemma size_of_app a b : size_of (a ++ b) = (size_of a + size_of b)%Z.
Proof. induction a; simpl; auto. rewrite IHa. lia. Qed.

(* ---------------------------------------------------------------- resize *)
Lemma resize_ok q n :
  1 <= initCap q -> WF q -> cnt q <= n -> 1 <= n ->
  exists ns, resize q n = Some (set_ring q ns 0 (cnt q mod n)) /\ length ns = n /\
             forall k, k < cnt q -> nth k ns zero_item = get q k.
Proof.
  intros Hic (Hcap & Hh & Hc & Ht) Hn Hn1. unfold resize.
  destruct (cnt q =? 0) eqn:E0.
  - apply Nat.eqb_eq in E0. exists (repeat zero_item n). rewrite E0.
    rewrite Nat.mod_0_l by lia. split; [reflexivity|]. split; [apply repeat_length|]. intros; lia.
  - apply Nat.eqb_neq in E0.
    set (c := length (nodes q)) in *.
    rewrite idx_small in Ht by lia.
    assert (Lb : length (repeat zero_item n) = n) by apply repeat_length.
    destruct (head q + cnt q <? c) eqn:Ew.
    + apply Nat.ltb_lt in Ew.
      replace (head q <? tail q) with true by (symmetry; apply Nat.ltb_lt; lia).
      destruct (slice_some (nodes q) (head q) (tail q)) as (s & Hs & Ls & Ns); [lia|fold c; lia|].
      rewrite Hs. cbn [bind].
      destruct (copy_at_some (repeat zero_item n) 0 s) as (r & Hr & Lr & Nr); [lia|].
      rewrite Hr. cbn [option_map fst bind]. rewrite modn_some by lia. cbn [bind].
      exists r. split; [reflexivity|]. split; [lia|].
      intros k Hk. rewrite Nr. rewrite Lb, Ls.
      replace ((0 <=? k) && (k <? 0 + Nat.min (n - 0) (tail q - head q))) with true
        by (symmetry; apply andb_true_iff; split; [apply Nat.leb_le|apply Nat.ltb_lt]; lia).
      rewrite Nat.sub_0_r, Ns by lia. unfold get. fold c. rewrite idx_small by lia.
      replace (head q + k <? c) with true by (symmetry; apply Nat.ltb_lt; lia). reflexivity.
    + apply Nat.ltb_ge in Ew.
      replace (head q <? tail q) with false by (symmetry; apply Nat.ltb_ge; lia).
      destruct (slice_some (nodes q) (head q) c) as (s1 & Hs1 & Ls1 & Ns1); [lia|lia|].
      destruct (slice_some (nodes q) 0 (tail q)) as (s2 & Hs2 & Ls2 & Ns2); [lia|fold c; lia|].
      rewrite Hs1, Hs2. cbn [bind].
      destruct (copy_at_some (repeat zero_item n) 0 s1) as (r1 & Hr1 & Lr1 & Nr1); [lia|].
      rewrite Hr1. cbn [bind]. rewrite Lb in Nr1, Lr1 |- *. rewrite Ls1 in Nr1 |- *.
      replace (Nat.min (n - 0) (c - head q)) with (c - head q) in * by lia.
      destruct (copy_at_some r1 (c - head q) s2) as (r & Hr & Lr & Nr); [lia|].
      rewrite Hr. cbn [option_map fst bind]. rewrite modn_some by lia. cbn [bind].
      exists r. split; [reflexivity|]. split; [lia|].
      intros k Hk. rewrite Nr. rewrite Lr1, Ls2.
      unfold get. fold c. rewrite idx_small by lia.
      destruct (head q + k <? c) eqn:Ek.
      * apply Nat.ltb_lt in Ek.
        replace ((c - head q <=? k) && _) with false
          by (symmetry; apply andb_false_iff; left; apply Nat.leb_gt; lia).
        rewrite Nr1.
        replace ((0 <=? k) && (k <? 0 + (c - head q))) with true
          by (symmetry; apply andb_true_iff; split; [apply Nat.leb_le|apply Nat.ltb_lt]; lia).
        rewrite Nat.sub_0_r, Ns1 by lia. reflexivity.
      * apply Nat.ltb_ge in Ek.
        replace ((c - head q <=? k) && _) with true
          by (symmetry; apply andb_true_iff; split; [apply Nat.leb_le|apply Nat.ltb_lt]; lia).
        rewrite Ns2 by lia. f_equal. lia.
Qed.

(* the state after a successful resize *)
Lemma resize_post q n ns :
  1 <= initCap q -> initCap q <= n -> cnt q <= n -> 1 <= n -> length ns = n ->
  (forall k, k < cnt q -> nth k ns zero_item = get q k) ->
  let q' := set_ring q ns 0 (cnt q mod n) in
  WF q' /\ abs q' = abs q /\ cnt q' = cnt q /\ length (nodes q') = n.
Proof.
  intros Hic Hicn Hc Hn1 Ln Hk q'. subst q'.
  split; [|split; [|split]].
  - unfold WF, set_ring; cbn. rewrite Ln. unfold idx. cbn. repeat split; lia.
  - apply abs_ext; cbn; auto. intros k Hlt. unfold get at 1. cbn. rewrite Ln.
    unfold idx. cbn. rewrite Nat.mod_small by lia. rewrite Hk by auto. reflexivity.
  - reflexivity.
  - cbn. auto.
Qed.

(* ---------------------------------------------------------------- put / take *)
Definition Keeps (q q' : rq) : Prop := qclosed q' = qclosed q /\ initCap q' = initCap q.

Lemma idx_idx h a b c : 1 <= c -> idx (idx h a c) b c = idx h (a + b) c.
Proof. intros. unfold idx. rewrite Nat.add_mod_idemp_l by lia. f_equal. lia. Qed.

Lemma put_ok q i :
  WF q -> 1 <= initCap q -> cnt q < length (nodes q) ->
  exists q', put q i = Some q' /\ WF q' /\ abs q' = abs q ++ [i] /\
             qsize q' = (qsize q + Z.of_N (it_len i))%Z /\ Keeps q q' /\
             length (nodes q') = length (nodes q) /\ cnt q' = S (cnt q).
Proof.
  intros (Hcap & Hh & Hc & Ht) Hic Hlt. unfold put.
  set (c := length (nodes q)) in *.
  assert (Htl : tail q < c) by (rewrite Ht; apply idx_lt; lia).
  destruct (wr_some (nodes q) (tail q) i Htl) as (ns & Hw). rewrite Hw. cbn [bind].
  pose proof (wr_length _ _ _ _ Hw) as Ln. fold c in Ln.
  rewrite Ln, modn_some by lia. cbn [bind].
  eexists; split; [reflexivity|].
  split; [|split; [|split; [|split; [|split]]]]; try reflexivity; try (split; reflexivity); try exact Ln.
  - unfold WF; cbn. rewrite Ln. repeat split; try lia.
    rewrite Ht. unfold idx. rewrite Nat.add_mod_idemp_l by lia. f_equal. lia.
  - unfold abs; cbn [cnt]. rewrite seq_S, map_app. cbn [map plus]. f_equal.
    + apply map_ext_in. intros k Hk. apply in_seq in Hk. unfold get; cbn. rewrite Ln. fold c.
      rewrite (wr_nth _ _ _ _ _ Hw).
      replace (idx (head q) k c =? tail q) with false; auto.
      symmetry. apply Nat.eqb_neq. rewrite Ht. rewrite !idx_small by lia.
      destruct (head q + k <? c) eqn:E1; destruct (head q + cnt q <? c) eqn:E2;
        try apply Nat.ltb_lt in E1; try apply Nat.ltb_ge in E1;
        try apply Nat.ltb_lt in E2; try apply Nat.ltb_ge in E2; lia.
    + unfold get; cbn. rewrite Ln. fold c. rewrite (wr_nth _ _ _ _ _ Hw).
      rewrite <- Ht, Nat.eqb_refl. reflexivity.
Qed.

Lemma take1_ok clear q :
  WF q -> 1 <= initCap q -> 1 <= cnt q ->
  exists q', take1 clear q = Some (q', get q 0) /\ WF q' /\ abs q = get q 0 :: abs q' /\
             qsize q' = (qsize q - Z.of_N (it_len (get q 0)))%Z /\ Keeps q q' /\
             length (nodes q') = length (nodes q) /\ cnt q' = cnt q - 1.
Proof.
  intros (Hcap & Hh & Hc & Ht) Hic Hlt. unfold take1.
  set (c := length (nodes q)) in *.
  rewrite rd_some by auto. cbn [bind].
  assert (G0 : get q 0 = nth (head q) (nodes q) zero_item).
  { unfold get. fold c. rewrite idx_small by lia. rewrite Nat.add_0_r.
    replace (head q <? c) with true by (symmetry; apply Nat.ltb_lt; auto). auto. }
  rewrite <- G0.
  assert (exists ns, (if clear then wr (nodes q) (head q) zero_item else Some (nodes q)) = Some ns /\
            length ns = c /\
            forall j, j <> head q -> nth j ns zero_item = nth j (nodes q) zero_item) as (ns & Hns & Ln & Nn).
  { destruct clear.
    - destruct (wr_some (nodes q) (head q) zero_item Hh) as (ns & Hw). exists ns. split; auto.
      split; [apply (wr_length _ _ _ _ Hw)|]. intros j Hj. rewrite (wr_nth _ _ _ _ _ Hw).
      apply Nat.eqb_neq in Hj. rewrite Hj. auto.
    - exists (nodes q). auto. }
  rewrite Hns. cbn [bind]. rewrite Ln, modn_some by lia. cbn [bind].
  eexists; split; [reflexivity|].
  assert (Hget : forall k, k < cnt q - 1 ->
     nth (idx ((head q + 1) mod c) k c) ns zero_item = get q (S k)).
  { intros k Hk. change ((head q + 1) mod c) with (idx (head q) 1 c). rewrite idx_idx by lia.
    unfold get. fold c. cbn [plus]. rewrite Nn; auto.
    rewrite idx_small by lia. destruct (head q + S k <? c) eqn:E;
      [apply Nat.ltb_lt in E|apply Nat.ltb_ge in E]; lia. }
  split; [|split; [|split; [|split; [|split]]]]; try reflexivity; try (split; reflexivity); try exact Ln.
  - unfold WF; cbn. rewrite Ln. repeat split; try lia.
    + apply Nat.mod_upper_bound. lia.
    + rewrite Ht. change ((head q + 1) mod c) with (idx (head q) 1 c). rewrite idx_idx by lia.
      f_equal. lia.
  - unfold abs at 1. replace (cnt q) with (S (cnt q - 1)) at 1 by lia.
    cbn [seq map]. f_equal. rewrite <- seq_shift, map_map. unfold abs; cbn [cnt].
    apply map_ext_in. intros k Hk. apply in_seq in Hk. unfold get at 2; cbn. rewrite Ln.
    symmetry. apply Hget. lia.
Qed.

Lemma take_n_ok clear n : forall q,
  WF q -> 1 <= initCap q -> n <= cnt q ->
  exists q', take_n clear n q = Some (q', firstn n (abs q)) /\ WF q' /\
             abs q' = skipn n (abs q) /\
             qsize q' = (qsize q - size_of (firstn n (abs q)))%Z /\ Keeps q q' /\
             length (nodes q') = length (nodes q) /\ cnt q' = cnt q - n.
Proof.
  induction n; intros q Hwf Hic Hn.
  - exists q. cbn. split; [reflexivity|]. split; [exact Hwf|]. unfold Keeps. repeat split; auto; lia.
  - destruct (take1_ok clear q Hwf Hic) as (q1 & H1 & W1 & A1 & S1 & (K1a & K1b) & L1 & C1); [lia|].
    destruct (IHn q1 W1) as (q2 & H2 & W2 & A2 & S2 & (K2a & K2b) & L2 & C2); [rewrite K1b; lia|lia|].
    exists q2. cbn [take_n]. rewrite H1. cbn [bind]. rewrite H2. cbn [bind].
    rewrite A1. cbn [firstn skipn]. split; [reflexivity|].
    split; [exact W2|]. split; [exact A2|]. split.
    { rewrite S2, S1. cbn [size_of fold_right]. fold (size_of (firstn n (abs q1))). lia. }
    split; [split; congruence|]. split; lia.
Qed.

(* ---------------------------------------------------------------- shrink *)
Lemma shrink_target_ok fuel : forall k ic c acc,
  1 <= ic -> k < fuel ->
  exists r, shrink_target fuel k ic c acc = Some r /\
            (r = acc \/ exists n, r = Some n /\ ic <= n /\ c <= n).
Proof.
  induction fuel; intros k ic c acc Hic Hk; [lia|].
  cbn [shrink_target]. destruct ((ic <=? k) && (c <=? k)) eqn:E.
  - apply andb_true_iff in E. destruct E as [E1 E2]. apply Nat.leb_le in E1, E2.
    assert (k / 2 < k) by (apply Nat.div_lt; lia).
    destruct (IHfuel (k / 2) ic c (Some k) Hic) as (r & Hr & [->|(n & -> & ? & ?)]); [lia| |];
      rewrite Hr; eexists; split; eauto.
  - eexists; split; eauto.
Qed.

Lemma shrink_search_ok q :
  WF q -> 1 <= initCap q ->
  exists q', shrink_search q = Some q' /\ WF q' /\ abs q' = abs q /\ qsize q' = qsize q /\
             Keeps q q' /\ cnt q' = cnt q.
Proof.
  intros Hwf Hic. unfold shrink_search.
  destruct (shrink_target_ok (S (length (nodes q))) (length (nodes q) / 2) (initCap q) (cnt q) None Hic)
    as (r & Hr & [->|(n & -> & Hn1 & Hn2)]).
  { pose proof (Nat.div_le_upper_bound (length (nodes q)) 2 (length (nodes q))). lia. }
  - rewrite Hr. cbn [bind]. exists q. unfold Keeps. split; [reflexivity|]. split; [exact Hwf|]. repeat split; auto.
  - rewrite Hr. cbn [bind].
    destruct (resize_ok q n Hic Hwf) as (ns & Hrs & Ln & Nn); [lia|lia|].
    destruct (resize_post q n ns Hic) as (W' & A' & C' & L'); auto; try lia.
    rewrite Hrs. eexists; split; [reflexivity|]. split; [exact W'|]. split; [exact A'|]. unfold Keeps. repeat split; auto.
Qed.

Lemma abs_cnt0 q : cnt q = 0 -> abs q = [].
Proof. intros H. unfold abs. rewrite H. reflexivity. Qed.

Lemma reset0_ok q :
  WF q -> 1 <= initCap q -> cnt q = 0 ->
  WF (set_ring q (nodes q) 0 0) /\ abs (set_ring q (nodes q) 0 0) = abs q.
Proof.
  intros (Hcap & Hh & Hc & Ht) Hic H0. split.
  - unfold WF, set_ring; cbn. rewrite H0. unfold idx. cbn.
    rewrite Nat.mod_0_l by lia. repeat split; lia.
  - rewrite !abs_cnt0; auto.
Qed.

Lemma do_shrink_ok q :
  WF q -> 1 <= initCap q ->
  exists q', do_shrink q = Some q' /\ WF q' /\ abs q' = abs q /\ qsize q' = qsize q /\
             Keeps q q' /\ cnt q' = cnt q.
Proof.
  intros Hwf Hic. unfold do_shrink. destruct (cnt q =? 0) eqn:E.
  - apply Nat.eqb_eq in E. destruct (reset0_ok q Hwf Hic E) as (W0 & A0).
    destruct (shrink_search_ok _ W0 Hic) as (q' & H & W & A & S & K & C).
    exists q'. split; auto. split; [exact W|]. destruct K as [Ka Kb]. unfold Keeps. repeat split; auto; congruence.
  - apply shrink_search_ok; auto.
Qed.

(* ---------------------------------------------------------------- operations vs the FIFO *)
Definition absf (q : rq) : fifo := mkFifo (abs q) (qclosed q).

Lemma RInv_open q : RInv q -> qclosed q = false -> 1 <= initCap q /\ WF q /\ qsize q = size_of (abs q).
Proof. intros (H1 & H2 & H3) Hc. rewrite Hc in H3. auto. Qed.

Lemma RInv_closed q : RInv q -> qclosed q = true -> nodes q = [] /\ cnt q = 0 /\ abs q = [].
Proof. intros (H1 & H2 & H3) Hc. rewrite Hc in H3. destruct H3. repeat split; auto. apply abs_cnt0; auto. Qed.

Lemma mk_RInv_open q : 1 <= initCap q -> WF q -> qsize q = size_of (abs q) -> qclosed q = false -> RInv q.
Proof. intros. unfold RInv. rewrite H2. auto. Qed.

Lemma RInv_obs q : RInv q -> obs_proj (observe q) = fobserve (absf q).
Proof.
  intros (H1 & H2 & H3). unfold obs_proj, observe, fobserve, absf; cbn.
  rewrite abs_length, H2. reflexivity.
Qed.

Lemma RInv_new ic : 1 <= ic -> RInv (new ic) /\ absf (new ic) = fifo_new.
Proof.
  intros. split; [|reflexivity]. unfold RInv, new, WF; cbn. rewrite repeat_length.
  unfold idx; cbn. rewrite Nat.mod_0_l by lia. repeat split; lia.
Qed.

Lemma grow_ok fuel : forall nc need, 1 <= nc -> need - nc <= fuel ->
  exists c, grow fuel nc need = Some c /\ need <= c /\ nc <= c.
Proof.
  induction fuel; intros nc need Hnc Hf; cbn [grow]; destruct (need <=? nc) eqn:E;
    try (apply Nat.leb_le in E; exists nc; repeat split; auto; lia); apply Nat.leb_gt in E.
  - lia.
  - destruct (IHfuel (nc * 2) need) as (c & Hc & ? & ?); try lia. exists c. repeat split; auto; lia.
Qed.

Lemma put_all_ok is : forall q,
  WF q -> 1 <= initCap q -> cnt q + length is <= length (nodes q) ->
  exists q', put_all q is = Some q' /\ WF q' /\ abs q' = abs q ++ is /\
             qsize q' = (qsize q + size_of is)%Z /\ Keeps q q'.
Proof.
  induction is as [|i is IH]; intros q Hwf Hic Hlen; cbn [put_all length] in *.
  - exists q. rewrite app_nil_r. cbn. split; auto. split; auto. split; auto. split; [lia|split; auto].
  - destruct (put_ok q i Hwf Hic) as (q1 & H1 & W1 & A1 & S1 & (K1a & K1b) & L1 & C1); [lia|].
    destruct (IH q1 W1) as (q2 & H2 & W2 & A2 & S2 & (K2a & K2b)); [rewrite K1b; lia|lia|].
    rewrite H1. cbn [bind]. exists q2. split; auto. split; auto.
    split; [rewrite A2, A1, <- app_assoc; reflexivity|].
    split; [rewrite S2, S1; cbn [size_of fold_right]; fold (size_of is); lia|].
    split; congruence.
Qed.

Lemma add_ref q i : RInv q ->
  exists q' b, add q i = Some (q', b) /\ RInv q' /\ fstep (absf q) (OpAdd i) = (absf q', OutBool b).
Proof.
  intros HI. unfold add. destruct (qclosed q) eqn:Ec.
  - exists q, false. split; [reflexivity|]. split; [exact HI|]. unfold fstep, absf; cbn. rewrite Ec. reflexivity.
  - destruct (RInv_open q HI Ec) as (Hic & Hwf & Hs).
    assert (exists q1, (if cnt q =? length (nodes q) then resize q (cnt q * 2) else Some q) = Some q1 /\
              WF q1 /\ abs q1 = abs q /\ cnt q1 < length (nodes q1) /\ qsize q1 = qsize q /\ Keeps q q1)
      as (q1 & H1 & W1 & A1 & C1 & S1 & (K1a & K1b)).
    { destruct (cnt q =? length (nodes q)) eqn:E.
      - apply Nat.eqb_eq in E. pose proof Hwf as (Hcap & _).
        destruct (resize_ok q (cnt q * 2) Hic Hwf) as (ns & Hr & Ln & Nn); [lia|lia|].
        destruct (resize_post q (cnt q * 2) ns Hic) as (W' & A' & C' & L'); auto; try lia.
        eexists; split; [exact Hr|]. split; [exact W'|]. split; [exact A'|].
        split; [rewrite L', C'; lia|]. split; [reflexivity|split; reflexivity].
      - apply Nat.eqb_neq in E. exists q. split; [reflexivity|]. split; [exact Hwf|]. destruct Hwf as (? & ? & ? & ?). unfold Keeps. repeat split; auto. lia. }
    rewrite H1. cbn [bind].
    destruct (put_ok q1 i W1) as (q2 & H2 & W2 & A2 & S2 & (K2a & K2b) & L2 & C2); [lia|auto|].
    rewrite H2. cbn [bind]. exists q2, true. split; auto. split.
    + apply mk_RInv_open; try congruence; try lia.
      rewrite S2, S1, Hs, A2, A1, size_of_app. cbn. lia.
    + unfold fstep, absf; cbn. rewrite Ec. rewrite A2, A1. f_equal. f_equal. congruence.
Qed.

Lemma add_many_ref q is : RInv q ->
  exists q' b, add_many q is = Some (q', b) /\ RInv q' /\ fstep (absf q) (OpAddMany is) = (absf q', OutBool b).
Proof.
  intros HI. unfold add_many. destruct (qclosed q) eqn:Ec.
  - exists q, false. split; [reflexivity|]. split; [exact HI|]. unfold fstep, absf; cbn. rewrite Ec. reflexivity.
  - destruct (RInv_open q HI Ec) as (Hic & Hwf & Hs).
    assert (exists q1, (if length (nodes q) <? cnt q + length is
                        then bind (grow (cnt q + length is)
                                     (if length (nodes q) =? 0 then initCap q else length (nodes q))
                                     (cnt q + length is)) (fun c => resize q c)
                        else Some q) = Some q1 /\
              WF q1 /\ abs q1 = abs q /\ cnt q1 + length is <= length (nodes q1) /\ qsize q1 = qsize q /\ Keeps q q1)
      as (q1 & H1 & W1 & A1 & C1 & S1 & (K1a & K1b)).
    { pose proof Hwf as (Hcap & _ & Hcnt & _).
      destruct (length (nodes q) <? cnt q + length is) eqn:E.
      - apply Nat.ltb_lt in E.
        replace (length (nodes q) =? 0) with false by (symmetry; apply Nat.eqb_neq; lia).
        destruct (grow_ok (cnt q + length is) (length (nodes q)) (cnt q + length is)) as (c & Hg & G1 & G2); [lia|lia|].
        rewrite Hg. cbn [bind].
        destruct (resize_ok q c Hic Hwf) as (ns & Hr & Ln & Nn); [lia|lia|].
        destruct (resize_post q c ns Hic) as (W' & A' & C' & L'); auto; try lia.
        eexists; split; [exact Hr|]. split; [exact W'|]. split; [exact A'|].
        split; [rewrite L', C'; lia|]. split; [reflexivity|split; reflexivity].
      - apply Nat.ltb_ge in E. exists q. split; [reflexivity|]. split; [exact Hwf|].
        unfold Keeps. repeat split; auto. }
    rewrite H1. cbn [bind].
    destruct (put_all_ok is q1 W1) as (q2 & H2 & W2 & A2 & S2 & (K2a & K2b)); [lia|auto|].
    rewrite H2. cbn [bind]. exists q2, true. split; auto. split.
    + apply mk_RInv_open; try congruence; try lia.
      rewrite S2, S1, Hs, A2, A1, size_of_app. lia.
    + unfold fstep, absf; cbn. rewrite Ec. rewrite A2, A1. f_equal. f_equal. congruence.
Qed.

Lemma abs_nonempty q : 1 <= cnt q -> abs q = get q 0 :: tl (abs q).
Proof.
  intros H. unfold abs. replace (cnt q) with (S (cnt q - 1)) by lia. reflexivity.
Qed.

Lemma remove_ref q : RInv q ->
  exists q' r, remove q = Some (q', r) /\ RInv q' /\ fstep (absf q) OpRemove = (absf q', OutItem r).
Proof.
  intros HI. unfold remove. destruct (cnt q =? 0) eqn:E0.
  - apply Nat.eqb_eq in E0. exists q, None. split; [reflexivity|]. split; [exact HI|].
    unfold fstep, absf; cbn. rewrite abs_cnt0 by auto. reflexivity.
  - apply Nat.eqb_neq in E0. destruct (qclosed q) eqn:Ec.
    { destruct (RInv_closed q HI Ec) as (_ & ? & _). lia. }
    destruct (RInv_open q HI Ec) as (Hic & Hwf & Hs).
    destruct (take1_ok false q Hwf Hic) as (q1 & H1 & W1 & A1 & S1 & (K1a & K1b) & L1 & C1); [lia|].
    rewrite H1. cbn [bind].
    assert (exists q2, (if (initCap q1 <=? length (nodes q1) / 2) && (cnt q1 <=? length (nodes q1) / 2)
                        then resize q1 (length (nodes q1) / 2) else Some q1) = Some q2 /\
              WF q2 /\ abs q2 = abs q1 /\ qsize q2 = qsize q1 /\ Keeps q1 q2)
      as (q2 & H2 & W2 & A2 & S2 & (K2a & K2b)).
    { destruct ((initCap q1 <=? length (nodes q1) / 2) && (cnt q1 <=? length (nodes q1) / 2)) eqn:E.
      - apply andb_true_iff in E. destruct E as [E1 E2]. apply Nat.leb_le in E1, E2.
        destruct (resize_ok q1 (length (nodes q1) / 2)) as (ns & Hr & Ln & Nn); auto; try lia.
        destruct (resize_post q1 (length (nodes q1) / 2) ns) as (W' & A' & C' & L'); auto; try lia.
        eexists; split; [exact Hr|]. split; [exact W'|]. split; [exact A'|].
        split; [reflexivity|split; reflexivity].
      - exists q1. split; [reflexivity|]. split; [exact W1|]. unfold Keeps. repeat split; auto. }
    rewrite H2. cbn [bind]. exists q2, (Some (get q 0)). split; auto. split.
    + apply mk_RInv_open; try congruence; try lia.
      rewrite S2, S1, Hs, A2, A1. cbn [size_of fold_right]. fold (size_of (abs q1)). lia.
    + unfold fstep, absf; cbn. rewrite A1. rewrite A2. f_equal. f_equal. congruence.
Qed.

Lemma take_count_fcount q m : take_count q m = fcount (cnt q) m.
Proof.
  destruct m as [m|]; unfold take_count, fcount; auto. destruct (cnt q <? m) eqn:E;
    [apply Nat.ltb_lt in E|apply Nat.ltb_ge in E]; lia.
Qed.

Lemma fcount_le n m : fcount n m <= n.
Proof. destruct m; cbn; lia. Qed.

(* common part of the three batch removals: the items taken *)
Lemma take_batch_ok q k : RInv q -> 1 <= cnt q -> k <= cnt q ->
  qclosed q = false /\ 1 <= initCap q /\
  exists q1, take_n true k q = Some (q1, firstn k (abs q)) /\ WF q1 /\ abs q1 = skipn k (abs q) /\
             qsize q1 = size_of (abs q1) /\ Keeps q q1.
Proof.
  intros HI H1 Hk. destruct (qclosed q) eqn:Ec.
  { destruct (RInv_closed q HI Ec) as (_ & ? & _). lia. }
  destruct (RInv_open q HI Ec) as (Hic & Hwf & Hs).
  destruct (take_n_ok true k q Hwf Hic Hk) as (q1 & T1 & W1 & A1 & S1 & K1 & L1 & C1).
  split; [reflexivity|]. split; [exact Hic|]. exists q1.
  split; [exact T1|]. split; [exact W1|]. split; [exact A1|]. split; [|exact K1].
  rewrite S1, Hs, A1. rewrite <- (firstn_skipn k (abs q)) at 1. rewrite size_of_app. lia.
Qed.

Lemma fstep_batch q k :
  1 <= cnt q ->
  (match fl (absf q) with
   | [] => (absf q, OutItems None)
   | _ :: _ => (mkFifo (skipn k (fl (absf q))) (fclosed (absf q)), OutItems (Some (firstn k (fl (absf q)))))
   end) = (mkFifo (skipn k (abs q)) (qclosed q), OutItems (Some (firstn k (abs q)))).
Proof. intros H. cbn. rewrite (abs_nonempty q H). reflexivity. Qed.

Lemma remove_many_ref q m : RInv q ->
  exists q' r, remove_many q m = Some (q', r) /\ RInv q' /\ fstep (absf q) (OpRemoveMany m) = (absf q', OutItems r).
Proof.
  intros HI. unfold remove_many. destruct (cnt q =? 0) eqn:E0.
  - apply Nat.eqb_eq in E0. exists q, None. split; [reflexivity|]. split; [exact HI|].
    unfold fstep, absf; cbn. rewrite abs_cnt0 by auto. reflexivity.
  - apply Nat.eqb_neq in E0. rewrite take_count_fcount.
    destruct (take_batch_ok q (fcount (cnt q) m) HI) as (Ec & Hic & q1 & T1 & W1 & A1 & S1 & (K1a & K1b));
      [lia|apply fcount_le|].
    rewrite T1. cbn [bind].
    destruct (shrink_search_ok q1 W1) as (q2 & H2 & W2 & A2 & S2 & (K2a & K2b) & C2); [rewrite K1b; lia|].
    rewrite H2. cbn [bind]. eexists _, _. split; [reflexivity|]. split.
    + apply mk_RInv_open; try congruence; try lia.
    + cbn [fstep]. replace (length (fl (absf q))) with (cnt q) by (cbn; rewrite abs_length; auto).
      rewrite fstep_batch by lia. unfold absf. rewrite A2, A1. f_equal. f_equal. congruence.
Qed.

Lemma remove_many_into_shrink_ref q b m : RInv q ->
  exists q' r, remove_many_into_shrink q b m = Some (q', r) /\ RInv q' /\
               fstep (absf q) (OpRemoveManyIntoShrink b m) = (absf q', OutItems r).
Proof.
  intros HI. unfold remove_many_into_shrink. destruct (cnt q =? 0) eqn:E0.
  - apply Nat.eqb_eq in E0. exists q, None. split; [reflexivity|]. split; [exact HI|].
    unfold fstep, absf; cbn. rewrite abs_cnt0 by auto. reflexivity.
  - apply Nat.eqb_neq in E0. rewrite take_count_fcount.
    destruct (take_batch_ok q (Nat.min (fcount (cnt q) m) b) HI) as (Ec & Hic & q1 & T1 & W1 & A1 & S1 & (K1a & K1b));
      [lia|pose proof (fcount_le (cnt q) m); lia|].
    rewrite T1. cbn [bind].
    destruct (do_shrink_ok q1 W1) as (q2 & H2 & W2 & A2 & S2 & (K2a & K2b) & C2); [rewrite K1b; lia|].
    rewrite H2. cbn [bind]. eexists _, _. split; [reflexivity|]. split.
    + apply mk_RInv_open; try congruence; try lia.
    + cbn [fstep]. replace (length (fl (absf q))) with (cnt q) by (cbn; rewrite abs_length; auto).
      rewrite fstep_batch by lia. unfold absf. rewrite A2, A1. f_equal. f_equal. congruence.
Qed.

Lemma remove_many_into_ref q b m : RInv q ->
  exists q' r, remove_many_into q b m = Some (q', r) /\ RInv q' /\
               fstep (absf q) (OpRemoveManyInto b m) = (absf q', OutItems r).
Proof.
  intros HI. unfold remove_many_into. destruct (cnt q =? 0) eqn:E0.
  - apply Nat.eqb_eq in E0. exists q, None. split; [reflexivity|]. split; [exact HI|].
    unfold fstep, absf; cbn. rewrite abs_cnt0 by auto. reflexivity.
  - apply Nat.eqb_neq in E0. rewrite take_count_fcount.
    destruct (take_batch_ok q (Nat.min (fcount (cnt q) m) b) HI) as (Ec & Hic & q1 & T1 & W1 & A1 & S1 & (K1a & K1b));
      [lia|pose proof (fcount_le (cnt q) m); lia|].
    rewrite T1. cbn [bind].
    assert (exists q2, (if cnt q1 =? 0 then set_ring q1 (nodes q1) 0 0 else q1) = q2 /\
              WF q2 /\ abs q2 = abs q1 /\ qsize q2 = qsize q1 /\ Keeps q1 q2)
      as (q2 & H2 & W2 & A2 & S2 & (K2a & K2b)).
    { destruct (cnt q1 =? 0) eqn:E1.
      - apply Nat.eqb_eq in E1. destruct (reset0_ok q1 W1) as (W0 & A0); auto; try (rewrite K1b; lia).
        eexists; split; [reflexivity|]. split; [exact W0|]. split; [exact A0|].
        split; [reflexivity|split; reflexivity].
      - exists q1. split; [reflexivity|]. split; [exact W1|]. unfold Keeps. repeat split; auto. }
    rewrite H2. eexists _, _. split; [reflexivity|]. split.
    + apply mk_RInv_open; try congruence; try lia.
    + cbn [fstep]. replace (length (fl (absf q))) with (cnt q) by (cbn; rewrite abs_length; auto).
      rewrite fstep_batch by lia. unfold absf. rewrite A2, A1. f_equal. f_equal. congruence.
Qed.

Lemma RInv_closed_state q : 1 <= initCap q -> RInv (closed_state q) /\ absf (closed_state q) = mkFifo [] true.
Proof.
  intros. split; [|reflexivity]. unfold RInv, closed_state; cbn. repeat split; auto.
Qed.

Lemma close_ref q : RInv q ->
  RInv (close q) /\ fstep (absf q) OpClose = (absf (close q), OutUnit).
Proof.
  intros HI. destruct (RInv_closed_state q) as (H1 & H2); [apply HI|].
  split; [exact H1|]. unfold close. rewrite H2. reflexivity.
Qed.

Lemma close_remaining_ref q : RInv q ->
  exists q' r, close_remaining q = Some (q', r) /\ RInv q' /\
               fstep (absf q) OpCloseRemaining = (absf q', OutRemaining r).
Proof.
  intros HI. unfold close_remaining. destruct (qclosed q) eqn:Ec.
  - exists q, []. split; [reflexivity|]. split; [exact HI|]. unfold fstep, absf; cbn. rewrite Ec. reflexivity.
  - destruct (RInv_open q HI Ec) as (Hic & Hwf & Hs).
    destruct (take_n_ok false (cnt q) q Hwf Hic) as (q1 & T1 & W1 & A1 & S1 & (K1a & K1b) & L1 & C1); [lia|].
    rewrite T1. cbn [bind]. eexists _, _. split; [reflexivity|].
    destruct (RInv_closed_state q1) as (H1 & H2); [lia|]. split; [exact H1|].
    rewrite H2. unfold fstep, absf; cbn. rewrite Ec. rewrite <- abs_length at 1. rewrite firstn_all. reflexivity.
Qed.

Definition set_armed (q : rq) (b : bool) : rq :=
  mkRq (nodes q) (head q) (tail q) (cnt q) (qsize q) (qclosed q) (initCap q) b.

Lemma RInv_set_armed q b : RInv q -> RInv (set_armed q b) /\ absf (set_armed q b) = absf q.
Proof. intros HI. split; [exact HI|reflexivity]. Qed.

Lemma shrink_target_0 fuel ic c acc : 1 <= ic -> shrink_target fuel 0 ic c acc = Some acc.
Proof.
  intros. destruct fuel; cbn [shrink_target];
    replace (ic <=? 0) with false by (symmetry; apply Nat.leb_gt; lia); reflexivity.
Qed.

Lemma do_shrink_ref q : RInv q ->
  exists q', do_shrink q = Some q' /\ RInv q' /\ absf q' = absf q.
Proof.
  intros HI. destruct (qclosed q) eqn:Ec.
  - destruct (RInv_closed q HI Ec) as (Hn & Hc & Ha). pose proof HI as (Hic & Hs & _).
    unfold do_shrink. rewrite Hc. cbn [Nat.eqb]. unfold shrink_search.
    replace (length (nodes (set_ring q (nodes q) 0 0))) with 0 by (cbn; rewrite Hn; reflexivity).
    change (0 / 2) with 0. rewrite shrink_target_0 by (cbn; lia). cbn [bind].
    eexists; split; [reflexivity|]. split.
    + unfold RInv; cbn. rewrite Ec. rewrite Hs. repeat split; auto. rewrite Ha, Hc. reflexivity.
    + unfold absf; cbn. rewrite Ec, Ha, Hc. reflexivity.
  - destruct (RInv_open q HI Ec) as (Hic & Hwf & Hs).
    destruct (do_shrink_ok q Hwf Hic) as (q' & H & W & A & S & (Ka & Kb) & C).
    exists q'. split; auto. split.
    + apply mk_RInv_open; try congruence; lia.
    + unfold absf. congruence.
Qed.

Lemma finish_collect_ref q d : RInv q ->
  exists q', finish_collect q d = Some q' /\ RInv q' /\ fstep (absf q) (OpFinishCollect d) = (absf q', OutUnit).
Proof.
  intros HI. unfold finish_collect. destruct (qclosed q) eqn:Ec.
  - exists q. auto.
  - destruct d.
    + destruct (RInv_open q HI Ec) as (Hic & Hwf & Hs).
      eexists; split; [reflexivity|]. split; [apply mk_RInv_open; auto|].
      unfold absf; cbn. rewrite Ec. reflexivity.
    + destruct (do_shrink_ref q HI) as (q' & H & I' & A'). exists q'. rewrite A'. auto.
Qed.

Lemma shrink_fire_ref q : RInv q ->
  exists q', shrink_fire q = Some q' /\ RInv q' /\ fstep (absf q) OpShrinkFire = (absf q', OutUnit).
Proof.
  intros HI. unfold shrink_fire. destruct (shrinkArmed q).
  - destruct (do_shrink_ref (set_armed q false)) as (q' & H & I' & A'); [exact HI|].
    exists q'. split; [exact H|]. split; auto. cbn [fstep]. rewrite A'. reflexivity.
  - exists q. auto.
Qed.

(* ---------------------------------------------------------------- all operation sequences *)
Lemma qstep_refines q o : RInv q ->
  exists q' r, qstep q o = Some (q', r) /\ RInv q' /\ fstep (absf q) o = (absf q', r).
Proof.
  intros HI. destruct o; cbn [qstep].
  - destruct (add_ref q i HI) as (q' & b & H & I' & F). rewrite H. cbn [option_map]. eexists _, _. split; [reflexivity|]. split; assumption.
  - destruct (add_many_ref q is HI) as (q' & b & H & I' & F). rewrite H. cbn [option_map]. eexists _, _. split; [reflexivity|]. split; assumption.
  - destruct (remove_ref q HI) as (q' & b & H & I' & F). rewrite H. cbn [option_map]. eexists _, _. split; [reflexivity|]. split; assumption.
  - destruct (remove_many_ref q maxItems HI) as (q' & b & H & I' & F). rewrite H. cbn [option_map]. eexists _, _. split; [reflexivity|]. split; assumption.
  - destruct (remove_many_into_ref q buflen maxItems HI) as (q' & b & H & I' & F). rewrite H. cbn [option_map]. eexists _, _. split; [reflexivity|]. split; assumption.
  - destruct (remove_many_into_shrink_ref q buflen maxItems HI) as (q' & b & H & I' & F). rewrite H. cbn [option_map]. eexists _, _. split; [reflexivity|]. split; assumption.
  - destruct (finish_collect_ref q delayed HI) as (q' & H & I' & F). rewrite H. cbn [option_map]. eexists _, _. split; [reflexivity|]. split; assumption.
  - destruct (shrink_fire_ref q HI) as (q' & H & I' & F). rewrite H. cbn [option_map]. eexists _, _. split; [reflexivity|]. split; assumption.
  - destruct (close_ref q HI). eexists _, _. split; [reflexivity|]. split; assumption.
  - destruct (close_remaining_ref q HI) as (q' & b & H & I' & F). rewrite H. cbn [option_map]. eexists _, _. split; [reflexivity|]. split; assumption.
Qed.

Definition proj_outs (rs : list (qout * qobs)) : list (qout * (nat * Z * bool)) :=
  map (fun '(r, o) => (r, obs_proj o)) rs.

Lemma qrun_refines ops : forall q, RInv q ->
  exists q' rs, qrun q ops = Some (q', rs) /\ RInv q' /\ proj_outs rs = frun (absf q) ops.
Proof.
  induction ops as [|o ops IH]; intros q HI; cbn [qrun frun].
  - exists q, []. auto.
  - destruct (qstep_refines q o HI) as (q1 & r & H1 & I1 & F1). rewrite H1. cbn [bind].
    destruct (IH q1 I1) as (q2 & rs & H2 & I2 & F2). rewrite H2. cbn [bind].
    eexists _, _. split; [reflexivity|]. split; auto.
    rewrite F1. cbn [proj_outs map]. fold (proj_outs rs). rewrite F2, (RInv_obs q1 I1). reflexivity.
Qed.

(* Main refinement theorem: from New(initCap), initCap >= 1, no operation sequence
   panics or diverges, and everything the exported API returns (operation
   results, Len, Size, Closed) is what the abstract FIFO returns. *)
Theorem ring_refines_fifo : forall ic ops, 1 <= ic ->
  exists q' rs, qrun (new ic) ops = Some (q', rs) /\ proj_outs rs = frun fifo_new ops.
Proof.
  intros ic ops Hic. destruct (RInv_new ic Hic) as (HI & HA).
  destruct (qrun_refines ops (new ic) HI) as (q' & rs & H & _ & F).
  exists q', rs. rewrite <- HA. auto.
Qed.
