(* C27 — proofs: an option field survives the control message for ALL option values iff
   the regenerated inventories route it there and back; instances for the four calls. *)
From Coq Require Import List String NArith Bool.
From Cfg Require Import Model.Control.
Import ListNotations.
Open Scope string_scope.

Theorem carried_roundtrip : forall m f,
  carried_b m f = true -> forall o, roundtrip m o f = o f.
Proof.
  intros m f H o. unfold roundtrip, decode, encode, carried_b in *.
  destruct (wire_of m f) as [w|]; [|discriminate].
  destruct (src_of m w) as [f'|]; [|discriminate].
  apply andb_prop in H. destruct H as [H G]. apply negb_true_iff in G. rewrite G. cbn [andb].
  apply String.eqb_eq in H. subst. reflexivity.
Qed.

Theorem lost_refuted : forall m f,
  carried_b m f = false -> exists o, roundtrip m o f <> o f.
Proof.
  intros m f H. unfold roundtrip, decode, encode, carried_b in *.
  destruct (wire_of m f) as [w|].
  - destruct (src_of m w) as [f'|].
    + destruct (String.eqb f' f) eqn:E.
      * cbn [andb] in H. apply negb_false_iff in H. apply String.eqb_eq in E. subst f'.
        exists (fun _ => 1%N). rewrite H. cbn. discriminate.
      * exists (fun x => if String.eqb x f then 1%N else 0%N).
        rewrite E, String.eqb_refl. rewrite andb_false_r. discriminate.
    + exists (fun _ => 1%N). rewrite andb_false_r. discriminate.
  - exists (fun _ => 1%N). discriminate.
Qed.

Theorem roundtrip_iff : forall m f,
  carried_b m f = true <-> forall o, roundtrip m o f = o f.
Proof.
  intros m f; split; [apply carried_roundtrip|].
  intro H. destruct (carried_b m f) eqn:E; [reflexivity|].
  destruct (lost_refuted m f E) as [o Ho]. exfalso. apply Ho. apply H.
Qed.

Lemma all_carried : forall m,
  forallb (fun p => carried_b m (snd p)) (cm_setters m) = true ->
  forall s f, In (s, f) (cm_setters m) -> forall o, roundtrip m o f = o f.
Proof.
  intros m H s f Hin o. rewrite forallb_forall in H. apply carried_roundtrip. exact (H (s, f) Hin).
Qed.

Lemma mem_str_In : forall x l, mem_str x l = true <-> In x l.
Proof.
  intros x l; unfold mem_str; rewrite existsb_exists; split.
  - intros [y [Hy E]]. apply String.eqb_eq in E. subst. assumption.
  - intro H. exists x. split; [assumption|apply String.eqb_refl].
Qed.

Lemma carried_except : forall m known,
  forallb (fun p => carried_b m (snd p) || mem_str (snd p) known) (cm_setters m) = true ->
  forall s f, In (s, f) (cm_setters m) -> ~ In f known -> forall o, roundtrip m o f = o f.
Proof.
  intros m known H s f Hin Hk o. rewrite forallb_forall in H. specialize (H (s, f) Hin). cbn [snd] in H.
  apply orb_prop in H. destruct H as [H|H]; [apply carried_roundtrip; assumption|].
  apply mem_str_In in H. contradiction.
Qed.

Lemma lost_all_refuted : forall m f, In f (lost m) -> exists o, roundtrip m o f <> o f.
Proof.
  intros m f H. unfold lost in H. apply filter_In in H. destruct H as [_ H].
  apply negb_true_iff in H. apply lost_refuted; assumption.
Qed.

Lemma lost_incl : forall m known,
  forallb (fun f => mem_str f known) (lost m) = true -> incl (lost m) known.
Proof.
  intros m known H f Hf. rewrite forallb_forall in H. apply mem_str_In. apply H; assumption.
Qed.

(* the generated inventories of the checked tree *)
Lemma unsub_ok : forallb (fun p => carried_b unsub_map (snd p)) (cm_setters unsub_map) = true.
Proof. vm_compute. reflexivity. Qed.
Lemma disc_ok : forallb (fun p => carried_b disc_map (snd p)) (cm_setters disc_map) = true.
Proof. vm_compute. reflexivity. Qed.
Lemma refresh_ok : forallb (fun p => carried_b refresh_map (snd p)) (cm_setters refresh_map) = true.
Proof. vm_compute. reflexivity. Qed.
Lemma sub_ok_except :
  forallb (fun p => carried_b sub_map (snd p) || mem_str (snd p) known_lost_sub) (cm_setters sub_map) = true.
Proof. vm_compute. reflexivity. Qed.
Lemma sub_lost_known : forallb (fun f => mem_str f known_lost_sub) (lost sub_map) = true.
Proof. vm_compute. reflexivity. Qed.
(* the inventories are not empty (a translator that finds nothing must not pass) *)
Lemma inventories_nonempty :
  Nat.leb 8 (List.length (cm_setters sub_map)) && Nat.leb 4 (List.length (cm_setters unsub_map)) &&
  Nat.leb 4 (List.length (cm_setters disc_map)) && Nat.leb 4 (List.length (cm_setters refresh_map)) &&
  Nat.leb 8 (List.length (cm_encoded sub_map)) && Nat.leb 8 (List.length (cm_decoded sub_map)) = true.
Proof. vm_compute. reflexivity. Qed.
