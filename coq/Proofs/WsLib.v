(* Generic lemmas shared by the WebSocket proofs (C29, C30, C31): byte-string equality, span,
   splitting at a separator, trimming, finite ranges of N. *)
From Coq Require Import List NArith Bool Lia.
From Cfg Require Import Model.WsHandshake Model.WsHandshakeSpec.
Import ListNotations.
Open Scope N_scope.

(* ---------------------------------------------------------------- bytes_eqb *)
Lemma bytes_eqb_eq : forall a b, bytes_eqb a b = true <-> a = b.
Proof.
  induction a as [|x a IH]; destruct b as [|y b]; simpl; split; intro H; try congruence; try discriminate; auto.
  - apply andb_true_iff in H as [H1 H2]. apply N.eqb_eq in H1. apply IH in H2. congruence.
  - inversion H; subst. rewrite N.eqb_refl. simpl. apply IH. reflexivity.
Qed.

Lemma bytes_eqb_refl : forall a, bytes_eqb a a = true.
Proof. intro a. apply bytes_eqb_eq. reflexivity. Qed.

Lemma mem_bytes_In : forall p l, mem_bytes p l = true <-> In p l.
Proof.
  intros p l. unfold mem_bytes. rewrite existsb_exists. split.
  - intros [x [Hx He]]. apply bytes_eqb_eq in He. subst. exact Hx.
  - intro H. exists p. split; auto. apply bytes_eqb_refl.
Qed.

(* ---------------------------------------------------------------- finite ranges *)
Fixpoint n_range (lo : N) (n : nat) : list N :=
  match n with O => [] | S k => lo :: n_range (lo + 1) k end.

Lemma n_range_In : forall n lo c, lo <= c -> c < lo + N.of_nat n -> In c (n_range lo n).
Proof.
  induction n as [|n IH]; intros lo c H1 H2.
  - simpl in H2. lia.
  - simpl. destruct (N.eq_dec lo c) as [->|Hne]; [left; reflexivity|right].
    apply IH; lia.
Qed.

Lemma forall_below : forall (P : N -> bool) (n : nat),
    forallb P (n_range 0 n) = true -> forall c, c < N.of_nat n -> P c = true.
Proof.
  intros P n H c Hc. rewrite forallb_forall in H. apply H. apply n_range_In; lia.
Qed.

(* ---------------------------------------------------------------- span *)
Lemma span_spec : forall p s a b,
    span p s = (a, b) ->
    s = a ++ b /\ forallb p a = true /\ match b with [] => True | c :: _ => p c = false end.
Proof.
  induction s as [|c r IH]; intros a b H; simpl in H.
  - inversion H; subst. auto.
  - destruct (p c) eqn:Hp.
    + destruct (span p r) as [a' b'] eqn:Hs. inversion H; subst.
      destruct (IH a' b eq_refl) as [E [F G]]. subst r. simpl. rewrite Hp. auto.
    + inversion H; subst. simpl. auto.
Qed.

Lemma span_app : forall p a b,
    forallb p a = true -> match b with [] => True | c :: _ => p c = false end ->
    span p (a ++ b) = (a, b).
Proof.
  induction a as [|x a IH]; intros b Ha Hb; simpl.
  - destruct b as [|c r]; simpl; auto. rewrite Hb. reflexivity.
  - simpl in Ha. apply andb_true_iff in Ha as [Hx Ha]. rewrite Hx. rewrite (IH b Ha Hb). reflexivity.
Qed.

Lemma span_length : forall p s, (length (snd (span p s)) <= length s)%nat.
Proof.
  intros p s. destruct (span p s) as [a b] eqn:E. apply span_spec in E as [E _]. subst. simpl.
  rewrite app_length. lia.
Qed.

(* ---------------------------------------------------------------- drop_while / trim *)
Lemma drop_while_spec : forall p s,
    exists a, s = a ++ drop_while p s /\ forallb p a = true
              /\ match drop_while p s with [] => True | c :: _ => p c = false end.
Proof.
  induction s as [|c r IH]; simpl.
  - exists []. auto.
  - destruct (p c) eqn:Hp.
    + destruct IH as [a [E [F G]]]. exists (c :: a). simpl. rewrite Hp. rewrite <- E. auto.
    + exists []. simpl. auto.
Qed.

Lemma drop_while_app : forall p a b,
    forallb p a = true -> match b with [] => True | c :: _ => p c = false end ->
    drop_while p (a ++ b) = b.
Proof.
  induction a as [|x a IH]; intros b Ha Hb; simpl.
  - destruct b; simpl; auto. rewrite Hb. reflexivity.
  - simpl in Ha. apply andb_true_iff in Ha as [Hx Ha]. rewrite Hx. auto.
Qed.

Lemma drop_while_all : forall p s, forallb p s = true -> drop_while p s = [].
Proof.
  induction s as [|c r IH]; simpl; intro H; auto.
  apply andb_true_iff in H as [Hc Hr]. rewrite Hc. auto.
Qed.

Lemma forallb_rev : forall (p : N -> bool) l, forallb p (rev l) = forallb p l.
Proof.
  induction l as [|x l IH]; simpl; auto.
  rewrite forallb_app. simpl. rewrite IH. rewrite andb_true_r. apply andb_comm.
Qed.

(* trimming with respect to any character class *)
Definition trim_by (p : N -> bool) (s : list N) : list N := rev (drop_while p (rev (drop_while p s))).

Lemma trim_by_shape : forall p s,
    exists a b, s = a ++ trim_by p s ++ b /\ forallb p a = true /\ forallb p b = true
                /\ match trim_by p s with [] => True | c :: _ => p c = false end
                /\ match rev (trim_by p s) with [] => True | c :: _ => p c = false end.
Proof.
  intros p s. unfold trim_by.
  destruct (drop_while_spec p s) as [a [E [Fa Ga]]].
  destruct (drop_while_spec p (rev (drop_while p s))) as [b [E2 [Fb Gb]]].
  exists a, (rev b). split; [|split; [exact Fa|split; [rewrite forallb_rev; exact Fb|split]]].
  - rewrite <- rev_app_distr. rewrite <- E2. rewrite rev_involutive. exact E.
  - set (m := drop_while p (rev (drop_while p s))) in *.
    destruct (rev m) as [|c r] eqn:Er; auto.
    (* first char of rev m is first char of drop_while p s, unless m is empty *)
    assert (Hd : drop_while p s = rev m ++ rev b).
    { rewrite <- rev_app_distr, <- E2, rev_involutive. reflexivity. }
    rewrite Er in Hd. simpl in Hd. rewrite Hd in Ga. exact Ga.
  - rewrite rev_involutive. exact Gb.
Qed.

Lemma trim_by_unique : forall p a t b,
    forallb p a = true -> forallb p b = true ->
    match t with [] => True | c :: _ => p c = false end ->
    match rev t with [] => True | c :: _ => p c = false end ->
    trim_by p (a ++ t ++ b) = t.
Proof.
  intros p a t b Ha Hb Ht Hr. unfold trim_by.
  destruct t as [|c t'].
  - simpl. rewrite (drop_while_all p (a ++ b)).
    + reflexivity.
    + rewrite forallb_app. rewrite Ha, Hb. reflexivity.
  - rewrite drop_while_app; auto.
    rewrite rev_app_distr. rewrite drop_while_app.
    + apply rev_involutive.
    + rewrite forallb_rev. exact Hb.
    + exact Hr.
Qed.

Lemma trim_ows_is_trim_by : forall s, trim_ows s = trim_by ows s.
Proof. reflexivity. Qed.
Lemma trim_ws_is_trim_by : forall s, trim_ws s = trim_by is_space s.
Proof. reflexivity. Qed.

(* the model's strings.TrimSpace (written with span) is the same function *)
Lemma span_snd_drop_while : forall p s, snd (span p s) = drop_while p s.
Proof.
  induction s as [|c r IH]; simpl; auto.
  destruct (p c); auto. destruct (span p r); simpl in *; auto.
Qed.

Lemma trim_space_trim_ws : forall s, trim_space s = trim_ws s.
Proof.
  intro s. unfold trim_space, trim_ws. rewrite !span_snd_drop_while. reflexivity.
Qed.

(* ---------------------------------------------------------------- split_on *)
Lemma split_on_nonempty : forall sep s, split_on sep s <> [].
Proof.
  induction s as [|c r IH]; simpl; try discriminate.
  destruct (c =? sep); try discriminate. destruct (split_on sep r); discriminate.
Qed.

Lemma split_on_nosep : forall sep a,
    forallb (fun c => negb (c =? sep)) a = true -> split_on sep a = [a].
Proof.
  induction a as [|c r IH]; simpl; intro H; auto.
  apply andb_true_iff in H as [Hc Hr]. apply negb_true_iff in Hc. rewrite Hc. rewrite (IH Hr). reflexivity.
Qed.

Lemma split_on_app : forall sep a b,
    forallb (fun c => negb (c =? sep)) a = true ->
    split_on sep (a ++ sep :: b) = a :: split_on sep b.
Proof.
  induction a as [|c r IH]; simpl; intros b H.
  - rewrite N.eqb_refl. reflexivity.
  - apply andb_true_iff in H as [Hc Hr]. apply negb_true_iff in Hc. rewrite Hc. rewrite (IH b Hr). reflexivity.
Qed.

(* every piece of a suffix that starts after a separator is a piece of the whole *)
Lemma split_on_suffix_tail : forall sep pre s,
    exists firstp, split_on sep (pre ++ sep :: s) = firstp ++ split_on sep s /\ firstp <> [].
Proof.
  induction pre as [|c r IH]; simpl; intros s.
  - rewrite N.eqb_refl. exists [[]]. split; [reflexivity|discriminate].
  - destruct (IH s) as [fp [E Hne]].
    destruct (c =? sep).
    + exists ([] :: fp). rewrite E. split; [reflexivity|discriminate].
    + rewrite E. destruct fp as [|p ps]; [congruence|].
      simpl. exists ((c :: p) :: ps). split; [reflexivity|discriminate].
Qed.

Lemma split_on_suffix_In : forall sep pre s x,
    In x (split_on sep s) -> In x (split_on sep (pre ++ sep :: s)).
Proof.
  intros sep pre s x H. destruct (split_on_suffix_tail sep pre s) as [fp [E _]].
  rewrite E. apply in_or_app. right. exact H.
Qed.

Lemma split_on_prefix_piece : forall sep a b,
    forallb (fun c => negb (c =? sep)) a = true ->
    hd [] (split_on sep (a ++ b)) = a ++ hd [] (split_on sep b).
Proof.
  induction a as [|c r IH]; simpl; intros b H; auto.
  apply andb_true_iff in H as [Hc Hr]. apply negb_true_iff in Hc. rewrite Hc.
  specialize (IH b Hr).
  destruct (split_on sep (r ++ b)) as [|p ps] eqn:E.
  - exfalso. eapply split_on_nonempty. exact E.
  - simpl in *. rewrite IH. reflexivity.
Qed.
