(* C14: the code as found violates the property on three schedule shapes.
   A concrete instance of the libraries (meeting both contracts) in which a
   patch only applies to the base it was computed from. *)
From Coq Require Import List Bool Arith Lia.
From Cfg Require Import Model.Delta.
Import ListNotations.

Definition rbytes := list nat.
Definition rcode (b : rbytes) : nat := hd 0 b.
Definition rcreate (b t : rbytes) : rbytes := 0 :: rcode b :: t.
Definition rapply (b p : rbytes) : option rbytes :=
  match p with
  | 0 :: c :: t => if Nat.eqb c (rcode b) then Some t else None
  | _ => None
  end.
Definition rblen (l : rbytes) : nat := match l with 0 :: _ => 0 | _ => 10 end.
Definition rid (x : rbytes) : rbytes := x.

Lemma r_apply_create : forall b t, rapply b (rcreate b t) = Some t.
Proof. intros b t. unfold rapply, rcreate. rewrite Nat.eqb_refl. reflexivity. Qed.
Lemma r_unesc_esc : forall x, rid (rid x) = x.
Proof. reflexivity. Qed.

Definition r_prun := p_run rbytes rblen rcreate rapply rid rid false.
Definition r_mrun := m_run rbytes rblen rcreate rapply rid rid false.
Definition r_result := event_result rbytes rapply rid false.
Definition r_mresult := mevent_result rbytes rapply rid false.

(* 1. tags filter + recovery: the recovered publications end before the stream
      top (offset 3 is filtered out), the next live delta is against offset 3 *)
Definition w_filtered_tail : list (pact rbytes) :=
  [ PSubscribe _ false false;
    PPub _ (mkSP _ [1] true true) true;
    PDrop _;
    PPub _ (mkSP _ [2] true true) false;
    PPub _ (mkSP _ [3] false true) false;
    PSubscribe _ true true;
    PPub _ (mkSP _ [4] true true) true ].

(* 2. no filter at all: a fresh subscription never received a payload, reconnects
      with recovery while nothing was missed, and is sent a delta *)
Definition w_no_payload : list (pact rbytes) :=
  [ PPub _ (mkSP _ [1] true true) false;
    PSubscribe _ false false;
    PDrop _;
    PSubscribe _ true true;
    PPub _ (mkSP _ [2] true true) true ].

(* 3. map subscription with a tags filter: the key's current entry is hidden
      from the state, the next update is a delta against it *)
Definition w_map_hidden_base : list (mact rbytes) :=
  [ MPub _ (mkMP _ 7 (Some [1]) false true) false;
    MSubscribeState _;
    MPub _ (mkMP _ 7 (Some [2]) true true) true ].

Lemma refute_filtered_tail :
  exists e, In e (snd (r_prun false (p_init _) w_filtered_tail)) /\ r_result e <> Some (e_expect _ e).
Proof.
  eexists. split.
  - vm_compute. right. right. left. reflexivity.
  - vm_compute. discriminate.
Qed.

Lemma refute_no_payload :
  Forall (fun a => match a with PPub _ p _ => svis _ p = true | _ => True end) w_no_payload /\
  exists e, In e (snd (r_prun false (p_init _) w_no_payload)) /\ r_result e <> Some (e_expect _ e).
Proof.
  split.
  - repeat constructor.
  - eexists. split.
    + vm_compute. left. reflexivity.
    + vm_compute. discriminate.
Qed.

Lemma refute_map_hidden_base :
  exists e, In e (snd (r_mrun true (m_init _) w_map_hidden_base)) /\ r_mresult e <> Some (me_expect _ e).
Proof.
  eexists. split.
  - vm_compute. left. reflexivity.
  - vm_compute. discriminate.
Qed.

Fixpoint leqb (a b : list nat) : bool :=
  match a, b with
  | [], [] => true
  | x :: a', y :: b' => Nat.eqb x y && leqb a' b'
  | _, _ => false
  end.

(* with the guard the same two stream schedules are reconstructed *)
Lemma fixed_filtered_tail :
  forallb (fun e => match r_result e with Some x => leqb x (e_expect _ e) | None => false end)
          (snd (r_prun true (p_init _) w_filtered_tail)) = true.
Proof. vm_compute. reflexivity. Qed.
Lemma fixed_no_payload :
  forallb (fun e => match r_result e with Some x => leqb x (e_expect _ e) | None => false end)
          (snd (r_prun true (p_init _) w_no_payload)) = true.
Proof. vm_compute. reflexivity. Qed.
