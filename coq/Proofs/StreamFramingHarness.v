(* C32: the decidable oracle of Harness/C32.v is sound, and the model of the handlers
   passes it for every list of queued messages the encoder can produce. *)
From Coq Require Import List PeanoNat NArith Bool Lia.
From Cfg Require Import Model.Decimal Model.StreamFraming Proofs.BytesLib Proofs.StreamFraming Harness.C32.
Import ListNotations.
Open Scope N_scope.

Definition same_event (e : sse_event) (m : bytes) : Prop :=
  ev_type e = [] /\ ev_id e = [] /\ ev_retry e = None /\ normalise (ev_data e) = normalise m.

Lemma events_match_sound : forall evs ref, events_match evs ref = true -> Forall2 same_event evs ref.
Proof.
  induction evs as [|e evs IH]; destruct ref as [|m ref]; cbn [events_match]; intros H;
    try discriminate; constructor.
  - apply andb_true_iff in H. destruct H as [H _].
    repeat (apply andb_true_iff in H; destruct H as [H ?]).
    unfold same_event. destruct (ev_retry e); [discriminate|].
    split; [now apply bytes_eqb_iff|]. split; [now apply bytes_eqb_iff|]. split; [reflexivity|now apply bytes_eqb_iff].
  - apply IH. apply andb_true_iff in H. now destruct H.
Qed.

Lemma list_bytes_eqb_sound : forall a b, list_bytes_eqb a b = true -> a = b.
Proof.
  induction a as [|x a IH]; destruct b as [|y b]; cbn [list_bytes_eqb]; intros H;
    try discriminate; try reflexivity.
  apply andb_true_iff in H. destruct H as [A B]. apply bytes_eqb_iff in A. apply IH in B. congruence.
Qed.

Lemma list_bytes_eqb_refl : forall a, list_bytes_eqb a a = true.
Proof. induction a as [|x a IH]; cbn [list_bytes_eqb]; [reflexivity|]. now rewrite bytes_eqb_same, IH. Qed.

Theorem oracle_sound : forall c, oracle c = true ->
  match c with
  | CSsePre body => exists e, sse_parse body = [e] /\ ev_type e = []
  | CSse body ref => Forall2 same_event (sse_parse body) ref
  | CNd body ref => ndjson_parse body = ref
  | CPb body ref => pb_parse (S (length body)) body = Some ref
  end.
Proof.
  intros [body | body ref | body ref | body ref] H; cbn [oracle] in H.
  - destruct (sse_parse body) as [|e [|e2 l]]; try discriminate.
    exists e. split; [reflexivity|].
    repeat (apply andb_true_iff in H; destruct H as [H ?]).
    now apply bytes_eqb_iff.
  - now apply events_match_sound.
  - now apply list_bytes_eqb_sound.
  - destruct (pb_parse (S (length body)) body) as [ms|]; [|discriminate].
    f_equal. now apply list_bytes_eqb_sound.
Qed.

Lemma events_match_refl : forall ref,
  Forall (fun m => json_clean m = true) ref ->
  events_match (map (fun m => mkEv [] (strip_cr m) [] None) ref) ref = true.
Proof.
  induction 1 as [|m ref Hm _ IH]; [reflexivity|].
  cbn [map events_match ev_type ev_data ev_id ev_retry]. rewrite (strip_cr_same_json m Hm), IH. cbn [bytes_eqb]. now rewrite bytes_eqb_same.
Qed.

(* for every list of queued messages (JSON texts without raw LF, which is what the
   protocol encoder emits / arbitrary binary messages below 2^56 bytes) the bytes the
   handlers write satisfy the oracle *)
Theorem model_meets_oracle : forall ref,
  (Forall (fun m => lf_free m = true) ref -> Forall (fun m => json_clean m = true) ref ->
   oracle (CSse (flat_map (sse_msg true) ref) ref) = true) /\
  (Forall (fun m => lf_free m = true) ref -> oracle (CNd (json_frame ref) ref) = true) /\
  (Forall pb_small ref -> oracle (CPb (pb_frame ref) ref) = true).
Proof.
  intros ref. split; [|split].
  - intros H1 H2. cbn [oracle]. rewrite (sse_chunk_roundtrip ref H1). now apply events_match_refl.
  - intros H. cbn [oracle]. rewrite (ndjson_roundtrip ref H). apply list_bytes_eqb_refl.
  - intros H. cbn [oracle]. rewrite (pb_roundtrip ref H). apply list_bytes_eqb_refl.
Qed.
