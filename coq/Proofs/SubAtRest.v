(* C05 / C06: what is left of a connection at rest, for timeout-free schedules.
   Combines the close-coverage invariant (SubCloseInv), the presence-owner invariant
   (SubPresInv), the routing invariant (SubRouteSettled) and the gauge invariant (SubGauges). *)
From Coq Require Import List NArith ZArith Bool Lia.
From Cfg Require Import Model.SubLifecycle Proofs.SubLifecycleLib Proofs.SubRoute Proofs.SubRouteStep
  Proofs.SubRouteSettled Proofs.SubGauges Proofs.SubCloseInv Proofs.SubPresInv.
Import ListNotations.
Open Scope N_scope.

(* C05, full strength for timeout-free schedules: once the connection is closed and every
   operation has run to completion there is no context (committed or reserved), no hub routing
   entry, no hub registration, no presence entry added for it, and both gauges are back. *)
Theorem closed_settled_clean sched s :
  no_timeout sched = true -> exec sched init = Some s -> settled s -> status s = Closed ->
  (forall c, lookup c (chans s) = None /\ hub s c = None /\ pres s c = false) /\
  reg s = false /\ gconn s = 0%Z /\ (forall c, gsub s c = Z.of_N (others s c)).
Proof.
  intros NT E ST CL.
  destruct (closed_settled_nothing_committed _ _ NT E ST CL) as [NC RG].
  pose proof (routing_settled _ _ NT E ST) as RA.
  destruct (gauges_all _ _ E) as [GC GS].
  assert (NOCTX : forall c, lookup c (chans s) = None).
  { intros c. destruct (lookup c (chans s)) as [x|] eqn:L; auto. exfalso.
    destruct (RA c) as (_ & CH & _). destruct (CH x L) as [SX _]. apply (NC c (c_gen x)). exists x. auto. }
  assert (NOHUB : forall c, hub s c = None).
  { intros c. destruct (hub s c) as [g|] eqn:Hh; auto. exfalso.
    destruct (RA c) as (_ & _ & HB & _). destruct (HB g Hh) as (x & L & _). rewrite NOCTX in L. discriminate. }
  split; [|split; [exact RG|split]].
  - intros c. split; [apply NOCTX|split; [apply NOHUB|]].
    destruct (pres s c) eqn:PR; auto. exfalso.
    destruct (presence_settled _ _ c NT E ST PR) as (x & L & _). rewrite NOCTX in L. discriminate.
  - rewrite GC, RG. reflexivity.
  - intros c. rewrite GS. unfold hub1. rewrite NOHUB. lia.
Qed.

(* C06, direction "no stale entry", all timeout-free schedules: at rest the connection is in a
   channel's presence only if it is subscribed there with presence enabled. *)
Theorem presence_only_if_subscribed sched s c :
  no_timeout sched = true -> exec sched init = Some s -> settled s ->
  pres s c = true ->
  exists x, lookup c (chans s) = Some x /\ c_sub x = true /\ o_pres (c_opts x) = true.
Proof. intros NT E ST PR. exact (presence_settled _ _ c NT E ST PR). Qed.
