(* C29 proofs, part B: one frame of the Go reader against one frame of the reference decoder,
   then the whole stream: model = reference(go_policy) for ALL byte streams; totality. *)
From Coq Require Import String List NArith Bool Arith Lia ZifyN ZifyNat.
From Cfg Require Import Gen.WsConst Model.WsUtf8 Model.WsClose Model.WsFrame Model.WsRead Model.WsReadSpec
     Proofs.WsLib Proofs.WsReadHdr Proofs.WsReadA.
Import ListNotations.
Open Scope N_scope.

Definition infl_of (infl : bytes -> option bytes) : bytes -> option bytes := fun d => infl (d ++ flate_tail).

Lemma R_fields : forall st st1 cur frag,
    g_final st1 = g_final st -> g_len st1 = g_len st -> R st cur frag -> R st1 cur frag.
Proof.
  intros st st1 cur frag H1 H2 HR. unfold R in *.
  destruct cur as [[[t dc] acc]|]; destruct frag as [[[[t' dc'] acc'] total]|]; auto.
  - rewrite H1, H2. exact HR.
  - rewrite H1, H2. exact HR.
Qed.

Lemma R_final : forall st cur frag, R st cur frag ->
    (match frag with Some _ => true | None => false end) = negb (g_final st).
Proof.
  intros st cur frag HR. unfold R in HR.
  destruct cur as [[[t dc] acc]|]; destruct frag as [[[[t' dc'] acc'] total]|]; try contradiction.
  - destruct HR as [_ [_ [_ [F _]]]]. rewrite F. reflexivity.
  - destruct HR as [F _]. rewrite F. reflexivity.
Qed.

(* ---------------------------------------------------------------- control frames *)

Lemma ctl_agree : forall cfg st1 cur frag op len key bs3,
    125 <= rc_rbuf cfg -> is_ctl_op op = true -> len <= 125 -> R st1 cur frag ->
    match control_frame cfg st1 op len key bs3 with
    | AErr evs => step_rel (GEnd evs) (spec_control (P_of cfg) (c_of cfg) frag op len key bs3)
    | ACtl evs rest st' => step_rel (GCont evs st' cur rest) (spec_control (P_of cfg) (c_of cfg) frag op len key bs3)
    | AData _ _ _ _ _ _ => False
    end.
Proof.
  intros cfg st1 cur frag op len key bs3 Hb Hop Hlen HR.
  unfold control_frame, spec_control, need.
  assert (Hread : (if 0 <? len
                   then match conn_read cfg len bs3 with
                        | RdOk pl bs4 => inr ((if rc_server cfg then xor_mask key 0 pl else pl), bs4)
                        | r => inl (rd_err r)
                        end
                   else inr ([], bs3))
                  = match take_n len bs3 with
                    | Some (pl, bs4) => inr (unmask (c_of cfg) key pl, bs4)
                    | None => inl [Err EEof]
                    end).
  { destruct (N.ltb_spec 0 len) as [Hpos|Hz].
    - rewrite conn_read_take by assumption. destruct (take_n len bs3) as [[pl bs4]|]; reflexivity.
    - assert (len = 0) by lia. subst len. rewrite take_n_0. unfold unmask. simpl.
      destruct (rc_server cfg); reflexivity. }
  rewrite Hread. clear Hread.
  destruct (take_n len bs3) as [[pl bs4]|]; [|reflexivity].
  unfold is_ctl_op in Hop. unfold c_PongMessage, c_PingMessage.
  destruct (N.eqb_spec op 10) as [->|N10].
  - simpl. repeat split; auto.
  - destruct (N.eqb_spec op 9) as [->|N9].
    + unfold step_rel. cbn [map expected flat_map expected_one app N.eqb Pos.eqb]. rewrite norm_pong. repeat split; auto.
    + destruct (N.eqb_spec op 8) as [->|N8]; [|simpl in Hop; discriminate].
      simpl. pose proof (close_agree cfg (unmask (c_of cfg) key pl)) as HC.
      destruct (close_frame (P_of cfg) (unmask (c_of cfg) key pl)); [exact HC|contradiction].
Qed.

(* ---------------------------------------------------------------- data frames *)

Lemma deliver_agree : forall cfg infl typ dc data rest,
    match deliver cfg infl typ dc data with
    | (evs, true) => step_rel (GCont evs (mkG true 0) None rest)
                              (complete (P_of cfg) (c_of cfg) (infl_of infl) typ dc data rest)
    | (evs, false) => step_rel (GEnd evs) (complete (P_of cfg) (c_of cfg) (infl_of infl) typ dc data rest)
    end.
Proof.
  intros cfg infl typ dc data rest. unfold deliver, complete, infl_of. rewrite gtrip_dtrip.
  destruct (dtrip (c_of cfg) dc data); [exact norm_too_big|].
  destruct dc.
  - destruct (infl (data ++ flate_tail)) as [out|]; [|reflexivity].
    simpl s_dlimit.
    destruct ((0 <? rc_dlimit cfg) && (rc_dlimit cfg <? N.of_nat (length out))); [reflexivity|].
    rewrite check_lax1 by reflexivity. simpl. repeat split; auto.
  - rewrite check_lax1 by reflexivity. simpl. repeat split; auto.
Qed.

Lemma data_agree : forall cfg infl st cur frag fin' rsv1 op len key bs3,
    R st cur frag -> is_data_op op = true ->
    (if op =? 0 then negb (g_final st) else g_final st) = true ->
    match data_frame cfg st fin' (rsv1 && rc_compress cfg) op len key bs3 with
    | AErr evs => step_rel (GEnd evs) (spec_data (P_of cfg) (c_of cfg) (infl_of infl) frag fin' rsv1 op len key bs3)
    | AData op' decomp len' key' rest st' =>
        step_rel (data_step cfg infl cur op' decomp len' key' rest st')
                 (spec_data (P_of cfg) (c_of cfg) (infl_of infl) frag fin' rsv1 op len key bs3)
    | ACtl _ _ _ => False
    end.
Proof.
  intros cfg infl st cur frag fin' rsv1 op len key bs3 HR Hop Hfin.
  unfold data_frame, spec_data.
  (* the message this frame belongs to, on both sides *)
  assert (Hst : exists typ dc acc,
             (match frag with Some f => f | None => (op, rsv1 && s_compress (c_of cfg), [], 0) end)
             = (typ, dc, acc, g_len st)
             /\ (match cur with
                 | None => if (op =? c_TextMessage) || (op =? c_BinaryMessage) then inr (op, rsv1 && rc_compress cfg, [])
                           else inl [Err EUnreachable]
                 | Some (typ, dc, acc) => if op =? c_continuationFrame then inr (typ, dc, acc) else inl [Err EUnreachable]
                 end) = inr (typ, dc, acc)).
  { unfold R in HR. unfold is_data_op in Hop. unfold c_TextMessage, c_BinaryMessage, c_continuationFrame.
    destruct cur as [[[t dc] acc]|]; destruct frag as [[[[t' dc'] acc'] total]|]; try contradiction.
    - destruct HR as [-> [-> [-> [F L]]]]. rewrite F in Hfin.
      destruct (N.eqb_spec op 0) as [->|]; [|discriminate].
      exists t', dc', acc'. rewrite L. split; reflexivity.
    - destruct HR as [F L]. rewrite F in Hfin.
      destruct (N.eqb_spec op 0) as [->|N0]; [discriminate|].
      simpl in Hop. rewrite Hop. exists op, (rsv1 && rc_compress cfg), []. rewrite L. split; reflexivity. }
  destruct Hst as [typ [dc [acc [E1 E2]]]]. rewrite E1.
  change two63 with int63.
  destruct (int63 <=? g_len st + len); [reflexivity|].
  simpl s_limit.
  destruct ((0 <? rc_limit cfg) && (rc_limit cfg <? g_len st + len)); [reflexivity|].
  unfold data_step. rewrite E2. rewrite !gtrip_dtrip. unfold unmask. simpl s_server.
  destruct (take_n len bs3) as [[pl bs4]|].
  2:{ match goal with |- step_rel (if ?b then _ else _) (if ?b' then _ else _) => change b' with b; destruct b end;
      [exact norm_too_big|simpl; reflexivity]. }
  simpl g_final.
  destruct fin'.
  - pose proof (deliver_agree cfg infl typ dc (acc ++ (if rc_server cfg then xor_mask key 0 pl else pl)) bs4) as HD.
    unfold unmask. simpl s_server.
    destruct (deliver cfg infl typ dc (acc ++ (if rc_server cfg then xor_mask key 0 pl else pl))) as [evs [|]]; exact HD.
  - unfold unmask. simpl s_server.
    match goal with |- step_rel (if ?b then _ else _) (if ?b' then _ else _) => change b' with b; destruct b end;
      [exact norm_too_big|].
    simpl. repeat split; auto.
Qed.

(* ---------------------------------------------------------------- one frame *)

Lemma step_agree : forall cfg infl st cur frag bs,
    125 <= rc_rbuf cfg -> R st cur frag ->
    step_rel (go_step cfg infl st cur bs) (spec_frame (P_of cfg) (c_of cfg) (infl_of infl) frag bs).
Proof.
  intros cfg infl st cur frag bs Hb HR.
  unfold go_step, advance_frame, spec_frame, need.
  rewrite conn_read_take by (auto; lia).
  destruct (take_n 2 bs) as [[p bs1]|] eqn:T2; [|reflexivity].
  destruct (take2 _ _ _ T2) as [b0 [b1 ->]].
  rewrite (R_final _ _ _ HR).
  pose proof (hdr_check_ok (rc_close1_strict cfg) (rc_compress cfg) (rc_server cfg) (g_final st)
                           (b_fin b0) (b_rsv1 b0) (b_rsv2 b0) (b_rsv3 b0) (b_masked b1) (b_opcode b0) (b_len7 b1)
                           (opcode_lt b0) (len7_lt b1)) as HC.
  unfold hdr_check in HC. unfold header_errs. simpl s_compress. simpl s_server.
  destruct (header_errs_f (rc_compress cfg) (rc_server cfg) (g_final st) (b_fin b0) (b_rsv1 b0) (b_rsv2 b0) (b_rsv3 b0)
                          (b_masked b1) (b_opcode b0) (b_len7 b1)) as [errs fin'] eqn:HE.
  unfold check, enforced. change (lax (P_of cfg)) with (go_lax (rc_close1_strict cfg)).
  destruct (filter (fun k => negb (go_lax (rc_close1_strict cfg) k))
                   (header_violations (rc_compress cfg) (rc_server cfg) (negb (g_final st)) (b_fin b0) (b_rsv1 b0)
                                      (b_rsv2 b0) (b_rsv3 b0) (b_masked b1) (b_opcode b0) (b_len7 b1))) as [|v vs] eqn:HV;
    destruct errs as [|e es]; try discriminate HC.
  2:{ (* header violation on both sides *)
    apply andb_true_iff in HC as [HC1 HC2]. apply negb_true_iff in HC1.
    unfold step_rel. rewrite (expected_viol v HC1). rewrite norm_proto; [reflexivity|].
    destruct (join sep_comma (e :: es)); [discriminate|discriminate]. }
  (* header accepted on both sides *)
  apply andb_true_iff in HC as [Hmask HC].
  pose proof (len_phase cfg (b_len7 b1) bs1
                (fun len bs2 => spec_key (b_masked b1) bs2 (fun key bs3 =>
                   if is_control (b_opcode b0) then spec_control (P_of cfg) (c_of cfg) frag (b_opcode b0) len key bs3
                   else spec_data (P_of cfg) (c_of cfg) (infl_of infl) frag (b_fin b0) (b_rsv1 b0) (b_opcode b0) len key bs3)) Hb) as PL.
  unfold phase_rel in PL.
  destruct (read_len cfg (b_len7 b1) bs1) as [evs|[len bs2]] eqn:ERL.
  { destruct PL as [sevs [E1 E2]]. rewrite E1. exact E2. }
  rewrite PL. clear PL.
  pose proof (key_phase cfg (b_masked b1) bs2
                (fun key bs3 =>
                   if is_control (b_opcode b0) then spec_control (P_of cfg) (c_of cfg) frag (b_opcode b0) len key bs3
                   else spec_data (P_of cfg) (c_of cfg) (infl_of infl) frag (b_fin b0) (b_rsv1 b0) (b_opcode b0) len key bs3) Hb) as PK.
  unfold phase_rel in PK.
  destruct (read_key cfg (b_masked b1) bs2) as [evs|[key bs3]].
  { destruct PK as [sevs [E1 E2]]. rewrite E1. exact E2. }
  rewrite PK. clear PK.
  unfold c_continuationFrame, c_TextMessage, c_BinaryMessage.
  destruct (is_control (b_opcode b0)) eqn:IC.
  - (* control frame *)
    repeat (apply andb_true_iff in HC as [HC ?Hf]).
    unfold is_data_op in Hf2. apply negb_true_iff in Hf2. rewrite Hf2.
    apply eqb_prop in Hf. subst fin'.
    (* control frames carry their length in the 7 bit field *)
    assert (Hlen : len = b_len7 b1 /\ len <= 125).
    { apply N.leb_le in Hf1. unfold read_len in ERL.
      destruct (N.eqb_spec (b_len7 b1) 126) as [E|_]; [lia|].
      destruct (N.eqb_spec (b_len7 b1) 127) as [E|_]; [lia|]. inversion ERL. split; [reflexivity|lia]. }
    destruct Hlen as [_ Hlen].
    pose proof (ctl_agree cfg (mkG (g_final st) (g_len st)) cur frag (b_opcode b0) len key bs3 Hb HC Hlen
                          (R_fields st _ cur frag eq_refl eq_refl HR)) as HA.
    destruct (control_frame cfg (mkG (g_final st) (g_len st)) (b_opcode b0) len key bs3); [exact HA|contradiction|exact HA].
  - (* data frame *)
    repeat (apply andb_true_iff in HC as [HC ?Hf]).
    pose proof HC as Hdata. unfold is_data_op in HC. rewrite HC.
    apply eqb_prop in Hf0. subst fin'.
    pose proof (data_agree cfg infl st cur frag (b_fin b0) (b_rsv1 b0) (b_opcode b0) len key bs3 HR Hdata Hf) as HA.
    destruct (data_frame cfg st (b_fin b0) (b_rsv1 b0 && rc_compress cfg) (b_opcode b0) len key bs3); [exact HA|exact HA|contradiction].
Qed.

(* ---------------------------------------------------------------- the whole stream *)

Lemma expected_app : forall a b, expected (a ++ b) = expected a ++ expected b.
Proof. intros. unfold expected. apply flat_map_app. Qed.

Lemma loop_agree : forall fuel cfg infl st cur frag bs,
    125 <= rc_rbuf cfg -> R st cur frag ->
    map norm_event (read_loop fuel cfg infl st cur bs)
    = expected (spec_loop fuel (P_of cfg) (c_of cfg) (infl_of infl) frag bs).
Proof.
  induction fuel as [|f IH]; intros cfg infl st cur frag bs Hb HR; [reflexivity|].
  simpl. pose proof (step_agree cfg infl st cur frag bs Hb HR) as HS.
  destruct (go_step cfg infl st cur bs) as [evs|evs st' cur' rest];
    destruct (spec_frame (P_of cfg) (c_of cfg) (infl_of infl) frag bs) as [sevs|sevs frag' rest']; simpl in HS; try contradiction.
  - exact HS.
  - destruct HS as [E1 [-> HR']]. rewrite map_app, expected_app, E1. f_equal. apply IH; assumption.
Qed.

(* For ALL byte streams: what the model of the Go reader shows (messages, pongs, close frames, final
   error; the free text of 1002/1009 close frames aside) is what the reference decoder dictates
   under the policy of rules the Go code enforces. *)
Theorem read_all_eq_ref : forall cfg infl bs,
    125 <= rc_rbuf cfg ->
    map norm_event (read_all cfg infl bs)
    = expected (spec_read (P_of cfg) (c_of cfg) (infl_of infl) bs).
Proof.
  intros cfg infl bs Hb. unfold read_all, spec_read. apply loop_agree; [exact Hb|]. split; reflexivity.
Qed.
