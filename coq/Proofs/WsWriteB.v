(* C30 proofs, part B: the frames a messageWriter produces for one message (buffer chunking, the
   large-write bypass, ReadFrom, the server fast path) are decoded by the strict reference decoder
   into that message. *)
From Coq Require Import String List NArith Bool Arith Lia ZifyN ZifyNat.
From Cfg Require Import Gen.WsConst Model.WsUtf8 Model.WsFrame Model.WsReadSpec Model.WsWrite Model.WsWriteSpec
     Proofs.WsLib Proofs.WsReadA Proofs.WsReadC Proofs.WsWriteA.
Import ListNotations.
Open Scope N_scope.

(* ---------------------------------------------------------------- the decoder, one frame at a time *)

Definition spec_run (P : spolicy) (c : scfg) (infl : bytes -> option bytes) (frag : option fragst) (bs : bytes) : list sevent :=
  spec_loop (S (length bs)) P c infl frag bs.

Lemma spec_loop_enough : forall fuel fuel' P c infl frag bs,
    (length bs < fuel)%nat -> (length bs < fuel')%nat ->
    spec_loop fuel P c infl frag bs = spec_loop fuel' P c infl frag bs.
Proof.
  induction fuel as [|f IH]; intros fuel' P c infl frag bs H1 H2; [lia|].
  destruct fuel' as [|f']; [lia|]. simpl.
  destruct (spec_frame P c infl frag bs) as [evs|evs frag' rest] eqn:E; [reflexivity|].
  f_equal. destruct (frame_cont_facts _ _ _ _ _ _ _ _ E) as [_ L]. apply IH; lia.
Qed.

Lemma spec_loop_S : forall f P c infl frag bs,
    spec_loop (S f) P c infl frag bs
    = match spec_frame P c infl frag bs with
      | FEnd evs => evs
      | FCont evs frag' rest => evs ++ spec_loop f P c infl frag' rest
      end.
Proof. reflexivity. Qed.

Lemma spec_run_step : forall P c infl frag bs,
    spec_run P c infl frag bs
    = match spec_frame P c infl frag bs with
      | FEnd evs => evs
      | FCont evs frag' rest => evs ++ spec_run P c infl frag' rest
      end.
Proof.
  intros. unfold spec_run at 1. rewrite spec_loop_S.
  destruct (spec_frame P c infl frag bs) as [evs|evs frag' rest] eqn:E; [reflexivity|].
  f_equal. destruct (frame_cont_facts _ _ _ _ _ _ _ _ E) as [_ L]. unfold spec_run. apply spec_loop_enough; lia.
Qed.

Lemma spec_run_nil : forall P c infl, spec_run P c infl None [] = [SEnd OEof].
Proof. reflexivity. Qed.

(* ---------------------------------------------------------------- setting *)

Section Writer.
  Variable ok : N -> bool.
  Variable infl : bytes -> option bytes.
  Variable cfg : wcfg.
  Hypothesis Hcap : c_maxFrameHeaderSize < wc_buf cfg.      (* newConn: write buffer size >= 1 *)

  Let masked : bool := negb (wc_server cfg).
  Let P : spolicy := S0 ok.
  Let C : scfg := peer masked.

  Definition keys_ok (keys : list bytes) : Prop := Forall (fun k => length k = 4%nat) keys.

  Lemma next_key_ok : forall keys, keys_ok keys ->
      length (fst (next_key keys)) = 4%nat /\ keys_ok (snd (next_key keys)).
  Proof.
    intros [|k ks] H; simpl.
    - split; [reflexivity|constructor].
    - inversion H; subst. split; assumption.
  Qed.

  Lemma cap_pos : 1 <= cap cfg.
  Proof. unfold cap. lia. Qed.

  (* ---- what flushFrame writes for a data message *)

  Definition is_data (typ : N) : Prop := typ = 1 \/ typ = 2.

  Lemma data_not_control : forall t, t = 0 \/ is_data t -> is_control_type t = false.
  Proof. intros t [-> | [-> | ->]]; reflexivity. Qed.

  Lemma flush_data : forall keys w final extra,
      keys_ok keys -> m_compress w = false -> (m_type w = 0 \/ is_data (m_type w)) ->
      (wc_server cfg = false -> extra = []) ->
      exists key keys',
        flush_frame cfg keys w final extra
        = inl (enc_frame masked key (b0_of (m_type w) final) (m_buf w ++ extra), keys', mkMw [] 0 false)
        /\ keys_ok keys' /\ (masked = true -> length key = 4%nat).
  Proof.
    intros keys w final extra Hk Hc Ht Hex. unfold flush_frame.
    rewrite (data_not_control _ Ht). simpl andb. cbv iota. rewrite Hc.
    unfold enc_frame, masked. rewrite app_length.
    destruct (wc_server cfg) eqn:Es.
    - exists [], keys. split; [|split; [exact Hk|discriminate]]. reflexivity.
    - rewrite (Hex eq_refl). destruct (next_key_ok keys Hk) as [K1 K2].
      destruct (next_key keys) as [key keys'] eqn:Ek. simpl in K1, K2.
      exists key, keys'. split; [|split; [exact K2|intros _; exact K1]].
      rewrite app_nil_r. simpl length. rewrite Nat.add_0_r. reflexivity.
  Qed.

  (* ---- the writer's state against the decoder's fragment state *)

  Definition wrel (typ : N) (w : mw) (frag : option fragst) (sofar : bytes) : Prop :=
    m_compress w = false /\
    ((m_type w = typ /\ frag = None /\ sofar = m_buf w)
     \/ (m_type w = 0 /\ exists acc, frag = Some (typ, false, acc, N.of_nat (length acc)) /\ sofar = acc ++ m_buf w)).

  (* a non-final flush: one frame on the wire, decoded as a fragment *)
  Lemma flush_nonfinal_decode : forall keys w typ frag sofar extra,
      keys_ok keys -> is_data typ -> wrel typ w frag sofar ->
      (wc_server cfg = false -> extra = []) ->
      N.of_nat (length (sofar ++ extra)) < two63 ->
      exists fr keys',
        flush_frame cfg keys w false extra = inl (fr, keys', mkMw [] 0 false)
        /\ keys_ok keys'
        /\ wrel typ (mkMw [] 0 false) (Some (typ, false, sofar ++ extra, N.of_nat (length (sofar ++ extra)))) (sofar ++ extra)
        /\ forall rest, spec_run P C infl frag (fr ++ rest)
                        = spec_run P C infl (Some (typ, false, sofar ++ extra, N.of_nat (length (sofar ++ extra)))) rest.
  Proof.
    intros keys w typ frag sofar extra Hk Hd [Hc Hw] Hex Hlen.
    assert (Ht : m_type w = 0 \/ is_data (m_type w)).
    { destruct Hw as [[-> _]|[-> _]]; auto. }
    destruct (flush_data keys w false extra Hk Hc Ht Hex) as [key [keys' [E [K1 K2]]]].
    exists (enc_frame masked key (b0_of (m_type w) false) (m_buf w ++ extra)), keys'.
    split; [exact E|]. split; [exact K1|]. split.
    { split; [reflexivity|]. right. split; [reflexivity|]. exists (sofar ++ extra). split; [reflexivity|]. simpl. rewrite app_nil_r. reflexivity. }
    intro rest. rewrite spec_run_step. unfold P, C.
    destruct Hw as [[Ety [-> ->]]|[Ety [acc [-> ->]]]].
    - rewrite (decode_data_frame ok infl masked key false (m_type w) (m_buf w ++ extra) rest None typ [] 0).
      + simpl app. try rewrite N.add_0_l. reflexivity.
      + rewrite app_length in *. exact Hlen.
      + exact K2.
      + rewrite Ety. destruct Hd as [-> | ->]; auto.
      + try rewrite N.add_0_l. exact Hlen.
    - rewrite (decode_data_frame ok infl masked key false (m_type w) (m_buf w ++ extra) rest
                 (Some (typ, false, acc, N.of_nat (length acc))) typ acc (N.of_nat (length acc))).
      + simpl app. rewrite <- Nat2N.inj_add, <- app_length, app_assoc. reflexivity.
      + rewrite <- app_assoc, !app_length in Hlen. rewrite app_length. lia.
      + exact K2.
      + rewrite Ety. auto.
      + rewrite <- Nat2N.inj_add, <- app_length, app_assoc. exact Hlen.
  Qed.

  (* the final flush: the message is complete *)
  Lemma flush_final_decode : forall keys w typ frag sofar extra,
      keys_ok keys -> is_data typ -> wrel typ w frag sofar ->
      (wc_server cfg = false -> extra = []) ->
      N.of_nat (length (sofar ++ extra)) < two63 -> (typ = 1 -> utf8_valid (sofar ++ extra) = true) ->
      exists fr keys' w',
        flush_frame cfg keys w true extra = inl (fr, keys', w')
        /\ keys_ok keys'
        /\ forall rest, spec_run P C infl frag (fr ++ rest) = SMsg typ (sofar ++ extra) :: spec_run P C infl None rest.
  Proof.
    intros keys w typ frag sofar extra Hk Hd [Hc Hw] Hex Hlen Hutf.
    assert (Ht : m_type w = 0 \/ is_data (m_type w)).
    { destruct Hw as [[-> _]|[-> _]]; auto. }
    destruct (flush_data keys w true extra Hk Hc Ht Hex) as [key [keys' [E [K1 K2]]]].
    eexists _, keys', _. split; [exact E|]. split; [exact K1|].
    intro rest. rewrite spec_run_step. unfold P, C.
    assert (Hcomplete : complete (S0 ok) (peer masked) infl typ false (sofar ++ extra) rest
                        = FCont [SMsg typ (sofar ++ extra)] None rest).
    { unfold complete. destruct Hd as [-> | ->].
      - rewrite (Hutf eq_refl). reflexivity.
      - reflexivity. }
    destruct Hw as [[Ety [-> ->]]|[Ety [acc [-> ->]]]].
    - rewrite (decode_data_frame ok infl masked key true (m_type w) (m_buf w ++ extra) rest None typ [] 0).
      + simpl app. rewrite Hcomplete. reflexivity.
      + exact Hlen.
      + exact K2.
      + rewrite Ety. destruct Hd as [-> | ->]; auto.
      + try rewrite N.add_0_l. exact Hlen.
    - rewrite (decode_data_frame ok infl masked key true (m_type w) (m_buf w ++ extra) rest
                 (Some (typ, false, acc, N.of_nat (length acc))) typ acc (N.of_nat (length acc))).
      + rewrite app_assoc. rewrite Hcomplete. reflexivity.
      + rewrite <- app_assoc, !app_length in Hlen. rewrite app_length. lia.
      + exact K2.
      + rewrite Ety. auto.
      + rewrite <- Nat2N.inj_add, <- app_length, app_assoc. exact Hlen.
  Qed.

  (* ---- the copy loop *)

  Lemma firstn_skipn_len : forall (p : bytes) n, (n <= length p)%nat ->
      length (firstn n p) = n /\ length (skipn n p) = (length p - n)%nat.
  Proof. intros p n H. split; [apply firstn_length_le; exact H|apply skipn_length]. Qed.

  Lemma copy_loop_decode : forall fuel keys w p wire0 typ frag sofar,
      keys_ok keys -> is_data typ -> wrel typ w frag sofar ->
      (length p < fuel)%nat ->
      N.of_nat (length sofar + length p) < two63 ->
      N.of_nat (length (m_buf w)) <= cap cfg ->
      exists emitted keys' w' frag',
        copy_loop fuel cfg keys w p wire0 = inl (wire0 ++ emitted, keys', w')
        /\ keys_ok keys' /\ wrel typ w' frag' (sofar ++ p)
        /\ N.of_nat (length (m_buf w')) <= cap cfg
        /\ forall rest, spec_run P C infl frag (emitted ++ rest) = spec_run P C infl frag' rest.
  Proof.
    induction fuel as [|f IH]; intros keys w p wire0 typ frag sofar Hk Hd Hw Hf Hlen Hb; [lia|].
    destruct p as [|x p'].
    - exists [], keys, w, frag. simpl. rewrite !app_nil_r.
      split; [reflexivity|]. split; [exact Hk|]. split; [exact Hw|]. split; [exact Hb|]. intro rest. reflexivity.
    - set (pp := x :: p') in *.
      assert (Hpp : (1 <= length pp)%nat) by (unfold pp; simpl; lia).
      pose proof cap_pos as Hcp.
      cbn [copy_loop]. fold pp.
      destruct (N.eqb_spec (cap cfg - N.of_nat (length (m_buf w))) 0) as [Hfull|Hroom].
      + (* buffer full: flush a non-final frame, then copy *)
        destruct (flush_nonfinal_decode keys w typ frag sofar [] Hk Hd Hw (fun _ => eq_refl))
          as [fr [keys1 [E [K1 [W1 D1]]]]].
        { rewrite app_nil_r. lia. }
        rewrite E. rewrite app_nil_r in W1, D1.
        set (n := N.to_nat (N.min (cap cfg) (N.of_nat (length pp)))).
        assert (Hn : (1 <= n <= length pp)%nat /\ N.of_nat n <= cap cfg) by (unfold n; lia).
        destruct (firstn_skipn_len pp n ltac:(lia)) as [L1 L2].
        set (w1 := mkMw (firstn n pp) (m_type (mkMw [] 0 false)) (m_compress (mkMw [] 0 false))).
        assert (Hw1 : wrel typ w1 (Some (typ, false, sofar, N.of_nat (length sofar))) (sofar ++ firstn n pp)).
        { split; [reflexivity|]. right. split; [reflexivity|]. exists sofar. split; reflexivity. }
        destruct (IH keys1 w1 (skipn n pp) (wire0 ++ fr) typ _ _ K1 Hd Hw1) as [em [keys' [w' [frag' [E2 [K2 [W2 [B2 D2]]]]]]]].
        * rewrite L2. lia.
        * rewrite app_length, L1, L2. lia.
        * unfold w1. simpl m_buf. rewrite L1. lia.
        * exists (fr ++ em), keys', w', frag'.
          split; [rewrite E2, <- app_assoc; reflexivity|]. split; [exact K2|].
          split; [rewrite <- app_assoc, firstn_skipn in W2; exact W2|]. split; [exact B2|].
          intro rest. rewrite <- app_assoc. rewrite D1. apply D2.
      + (* room left: copy *)
        set (n := N.to_nat (N.min (cap cfg - N.of_nat (length (m_buf w))) (N.of_nat (length pp)))).
        assert (Hn : (1 <= n <= length pp)%nat /\ N.of_nat (length (m_buf w)) + N.of_nat n <= cap cfg) by (unfold n; lia).
        destruct (firstn_skipn_len pp n ltac:(lia)) as [L1 L2].
        set (w1 := mkMw (m_buf w ++ firstn n pp) (m_type w) (m_compress w)).
        assert (Hw1 : wrel typ w1 frag (sofar ++ firstn n pp)).
        { destruct Hw as [Hc Hw]. split; [exact Hc|].
          destruct Hw as [[Ety [-> ->]]|[Ety [acc [-> ->]]]].
          - left. repeat split; auto.
          - right. split; [exact Ety|]. exists acc. split; [reflexivity|]. unfold w1. simpl. rewrite app_assoc. reflexivity. }
        destruct (IH keys w1 (skipn n pp) wire0 typ _ _ Hk Hd Hw1) as [em [keys' [w' [frag' [E2 [K2 [W2 [B2 D2]]]]]]]].
        * rewrite L2. lia.
        * rewrite app_length, L1, L2. lia.
        * unfold w1. simpl m_buf. rewrite app_length, L1. lia.
        * exists em, keys', w', frag'.
          split; [exact E2|]. split; [exact K2|].
          split; [rewrite <- app_assoc, firstn_skipn in W2; exact W2|]. split; [exact B2|exact D2].
  Qed.
End Writer.
