(* C30 proofs, part C: every write API, then any sequence of operations: the strict reference
   decoder reads from the wire exactly the messages whose write returned nil, in order. *)
From Coq Require Import String List NArith Bool Arith Lia ZifyN ZifyNat.
From Cfg Require Import Gen.WsConst Model.WsUtf8 Model.WsFrame Model.WsReadSpec Model.WsWrite Model.WsWriteSpec
     Proofs.WsLib Proofs.WsReadA Proofs.WsReadC Proofs.WsWriteA Proofs.WsWriteB.
Import ListNotations.
Open Scope N_scope.

Section Ops.
  Variable ok : N -> bool.
  Variable infl : bytes -> option bytes.
  Variable cfg : wcfg.
  Hypothesis Hcap : c_maxFrameHeaderSize < wc_buf cfg.

  Let masked : bool := negb (wc_server cfg).
  Let run := spec_run (S0 ok) (peer masked) infl.

  (* ---- one chunk fed to a messageWriter *)
  Lemma feed_decode : forall c keys w typ frag sofar,
      keys_ok keys -> is_data typ -> wrel typ w frag sofar ->
      N.of_nat (length (m_buf w)) <= cap cfg ->
      N.of_nat (length sofar + length (chunk_bytes c)) < two63 ->
      exists emitted keys' w' frag',
        feed cfg keys w c = inl (emitted, keys', w')
        /\ keys_ok keys' /\ wrel typ w' frag' (sofar ++ chunk_bytes c)
        /\ N.of_nat (length (m_buf w')) <= cap cfg
        /\ forall rest, run frag (emitted ++ rest) = run frag' rest.
  Proof.
    intros c keys w typ frag sofar Hk Hd Hw Hb Hlen.
    destruct c as [p|p|p]; simpl chunk_bytes in *; unfold feed.
    - destruct ((2 * wc_buf cfg <? N.of_nat (length p)) && wc_server cfg) eqn:Big.
      + apply andb_true_iff in Big as [_ Hs].
        destruct (flush_nonfinal_decode ok infl cfg keys w typ frag sofar p Hk Hd Hw) as [fr [keys' [E [K [W D]]]]].
        { intro Hf. rewrite Hf in Hs. discriminate. }
        { rewrite app_length. exact Hlen. }
        exists fr, keys', (mkMw [] 0 false), (Some (typ, false, sofar ++ p, N.of_nat (length (sofar ++ p)))).
        split; [exact E|]. split; [exact K|]. split; [exact W|]. split; [simpl; lia|exact D].
      + destruct (copy_loop_decode ok infl cfg Hcap (S (length p)) keys w p [] typ frag sofar Hk Hd Hw ltac:(lia) Hlen Hb)
          as [em [keys' [w' [frag' [E R]]]]].
        exists em, keys', w', frag'. split; [exact E|exact R].
    - destruct (copy_loop_decode ok infl cfg Hcap (S (length p)) keys w p [] typ frag sofar Hk Hd Hw ltac:(lia) Hlen Hb)
        as [em [keys' [w' [frag' [E R]]]]].
      exists em, keys', w', frag'. split; [exact E|exact R].
    - destruct (copy_loop_decode ok infl cfg Hcap (S (length p)) keys w p [] typ frag sofar Hk Hd Hw ltac:(lia) Hlen Hb)
        as [em [keys' [w' [frag' [E [K [W [B D]]]]]]]].
      rewrite E. simpl app.
      destruct (N.of_nat (length (m_buf w')) =? cap cfg).
      + destruct (flush_nonfinal_decode ok infl cfg keys' w' typ frag' (sofar ++ p) [] K Hd W (fun _ => eq_refl))
          as [fr [keys'' [E2 [K2 [W2 D2]]]]].
        { rewrite app_nil_r, app_length. exact Hlen. }
        rewrite E2. rewrite app_nil_r in W2, D2.
        exists (em ++ fr), keys'', (mkMw [] 0 false), (Some (typ, false, sofar ++ p, N.of_nat (length (sofar ++ p)))).
        split; [reflexivity|]. split; [exact K2|]. split; [exact W2|]. split; [simpl; lia|].
        intro rest. rewrite <- app_assoc. unfold run. rewrite D. apply D2.
      + exists em, keys', w', frag'. split; [reflexivity|]. split; [exact K|]. split; [exact W|]. split; [exact B|exact D].
  Qed.

  Lemma feed_all_decode : forall cs keys w wire0 typ frag sofar,
      keys_ok keys -> is_data typ -> wrel typ w frag sofar ->
      N.of_nat (length (m_buf w)) <= cap cfg ->
      N.of_nat (length sofar + length (flat_map chunk_bytes cs)) < two63 ->
      exists emitted keys' w' frag',
        feed_all cfg keys w cs wire0 = inl (wire0 ++ emitted, keys', w')
        /\ keys_ok keys' /\ wrel typ w' frag' (sofar ++ flat_map chunk_bytes cs)
        /\ forall rest, run frag (emitted ++ rest) = run frag' rest.
  Proof.
    induction cs as [|c cs IH]; intros keys w wire0 typ frag sofar Hk Hd Hw Hb Hlen.
    - exists [], keys, w, frag. simpl. rewrite !app_nil_r. split; [reflexivity|]. split; [exact Hk|]. split; [exact Hw|reflexivity].
    - simpl flat_map in *. rewrite app_length in Hlen.
      destruct (feed_decode c keys w typ frag sofar Hk Hd Hw Hb ltac:(lia)) as [em [keys1 [w1 [frag1 [E [K [W [B D]]]]]]]].
      simpl feed_all. rewrite E.
      destruct (IH keys1 w1 (wire0 ++ em) typ frag1 (sofar ++ chunk_bytes c) K Hd W B) as [em2 [keys2 [w2 [frag2 [E2 [K2 [W2 D2]]]]]]].
      { rewrite app_length. lia. }
      exists (em ++ em2), keys2, w2, frag2. split; [rewrite E2, <- app_assoc; reflexivity|].
      split; [exact K2|]. split; [rewrite <- app_assoc in W2; exact W2|].
      intro rest. rewrite <- app_assoc. rewrite D. apply D2.
  Qed.

  Lemma data_types : forall typ, is_data typ ->
      negb (is_control_type typ) && negb (is_data_type typ) = false.
  Proof. intros typ [-> | ->]; reflexivity. Qed.

  Lemma wrel_init : forall typ b, wrel typ (mkMw b typ false) None b.
  Proof. intros. split; [reflexivity|]. left. repeat split. Qed.

  (* ---- NextWriter ... Close *)
  Lemma stream_decode : forall keys typ cs,
      keys_ok keys -> is_data typ ->
      N.of_nat (length (flat_map chunk_bytes cs)) < two63 ->
      (typ = 1 -> utf8_valid (flat_map chunk_bytes cs) = true) ->
      exists wire keys',
        write_stream cfg keys typ cs = inl (wire, keys') /\ keys_ok keys'
        /\ forall rest, run None (wire ++ rest) = SMsg typ (flat_map chunk_bytes cs) :: run None rest.
  Proof.
    intros keys typ cs Hk Hd Hlen Hutf. unfold write_stream. rewrite (data_types typ Hd).
    destruct (feed_all_decode cs keys (mkMw [] typ false) [] typ None [] Hk Hd (wrel_init typ []))
      as [em [keys1 [w1 [frag1 [E [K [W D]]]]]]].
    { simpl. pose proof (cap_pos cfg Hcap). lia. }
    { simpl. exact Hlen. }
    rewrite E. simpl app in *.
    destruct (flush_final_decode ok infl cfg keys1 w1 typ frag1 (flat_map chunk_bytes cs) [] K Hd W (fun _ => eq_refl))
      as [fr [keys2 [w2 [E2 [K2 D2]]]]].
    { rewrite app_nil_r. exact Hlen. }
    { rewrite app_nil_r. exact Hutf. }
    rewrite E2. rewrite app_nil_r in D2.
    exists (em ++ fr), keys2. split; [reflexivity|]. split; [exact K2|].
    intro rest. rewrite <- app_assoc. unfold run. rewrite D. apply D2.
  Qed.


  (* ---- WriteMessage *)
  Lemma message_decode : forall keys typ data,
      keys_ok keys -> is_data typ ->
      N.of_nat (length data) < two63 -> (typ = 1 -> utf8_valid data = true) ->
      exists wire keys',
        write_message cfg keys typ data = inl (wire, keys') /\ keys_ok keys'
        /\ forall rest, run None (wire ++ rest) = SMsg typ data :: run None rest.
  Proof.
    intros keys typ data Hk Hd Hlen Hutf. unfold write_message.
    destruct (wc_server cfg) eqn:Es.
    - rewrite (data_types typ Hd).
      set (n := N.to_nat (N.min (cap cfg) (N.of_nat (length data)))).
      destruct (flush_final_decode ok infl cfg keys (mkMw (firstn n data) typ false) typ None (firstn n data) (skipn n data)
                                   Hk Hd (wrel_init typ _)) as [fr [keys' [w' [E [K D]]]]].
      { intro Hf. rewrite Hf in Es. discriminate. }
      { rewrite firstn_skipn. exact Hlen. }
      { rewrite firstn_skipn. exact Hutf. }
      rewrite E. rewrite firstn_skipn in D. exists fr, keys'. split; [reflexivity|]. split; [exact K|exact D].
    - destruct (stream_decode keys typ [CWrite data] Hk Hd) as [wire [keys' [E [K D]]]].
      { simpl. rewrite app_nil_r. exact Hlen. }
      { simpl. rewrite app_nil_r. exact Hutf. }
      simpl flat_map in D. rewrite app_nil_r in D. exists wire, keys'. split; [exact E|]. split; [exact K|exact D].
  Qed.

  (* ---- WriteControl *)
  Definition close_payload_ok (d : bytes) : Prop :=
    match d with
    | [] => True
    | [_] => False
    | a :: b :: text => ok (a * 256 + b) = true /\ utf8_valid text = true
    end.

  Lemma control_decode : forall keys typ data wire keys',
      keys_ok keys -> write_control cfg keys typ data = inl (wire, keys') ->
      (typ = 8 -> close_payload_ok data) ->
      keys_ok keys'
      /\ (typ = 8 \/ typ = 9 \/ typ = 10)
      /\ forall rest, run None (wire ++ rest)
                      = if typ =? 8 then message_events typ data else message_events typ data ++ run None rest.
  Proof.
    intros keys typ data wire keys' Hk E Hclose. unfold write_control in E.
    destruct (is_control_type typ) eqn:Ict; simpl negb in E; cbv iota in E; [|discriminate].
    assert (Htyp : typ = 8 \/ typ = 9 \/ typ = 10).
    { unfold is_control_type, c_CloseMessage, c_PingMessage, c_PongMessage in Ict.
      destruct (N.eqb_spec typ 8); [auto|]. destruct (N.eqb_spec typ 9); [auto|]. destruct (N.eqb_spec typ 10); [auto|discriminate]. }
    unfold c_maxControlFramePayloadSize in E.
    destruct (N.ltb_spec 125 (N.of_nat (length data))) as [|Hlen]; [discriminate|].
    assert (Hwire : exists key, wire = enc_frame masked key (b0_of typ true) data
                                /\ (masked = true -> length key = 4%nat) /\ keys_ok keys').
    { unfold enc_frame, encode_header, masked.
      destruct (N.leb_spec 65536 (N.of_nat (length data))); [lia|].
      destruct (N.ltb_spec 125 (N.of_nat (length data))); [lia|].
      destruct (wc_server cfg).
      - inversion E; subst. exists []. split; [reflexivity|]. split; [discriminate|exact Hk].
      - destruct (next_key_ok keys Hk) as [K1 K2]. destruct (next_key keys) as [key ks]. simpl in K1, K2.
        inversion E; subst. exists key. split; [|split; [intros _; exact K1|exact K2]].
        simpl negb. cbv iota. unfold b0_of. rewrite N.add_0_r. rewrite (N.add_comm (N.of_nat (length data))). reflexivity. }
    destruct Hwire as [key [-> [Kl K']]]. split; [exact K'|]. split; [exact Htyp|].
    intro rest. unfold run. rewrite spec_run_step.
    rewrite (decode_control_frame ok infl masked key typ data rest None Htyp Hlen Kl).
    unfold message_events.
    destruct Htyp as [-> | [-> | ->]].
    - (* close *)
      simpl. specialize (Hclose eq_refl). unfold close_frame.
      destruct data as [|a [|b text]]; simpl in Hclose.
      + reflexivity.
      + contradiction.
      + destruct Hclose as [H1 H2]. unfold S0, strict, check, enforced. simpl close_ok. rewrite H1, H2. reflexivity.
    - reflexivity.
    - reflexivity.
  Qed.
End Ops.
