(* C30 proofs, part C: every write API, then any sequence of operations: the strict reference
   decoder reads from the wire exactly the messages whose write returned nil, in order. *)
From Coq Require Import String List NArith Bool Arith Lia ZifyN ZifyNat.
From Cfg Require Import Gen.WsConst Model.WsUtf8 Model.WsFrame Model.WsReadSpec Model.WsWrite Model.WsWriteSpec
     Proofs.WsLib Proofs.WsReadA Proofs.WsReadC Proofs.WsWriteA Proofs.WsWriteB.
Import ListNotations.
Open Scope N_scope.

Section Ops.
  Variable ok : N -> bool.
  Variable infl : bytes -> option bytes.
  Variable cfg : wcfg.
  Hypothesis Hcap : c_maxFrameHeaderSize < wc_buf cfg.
  Hypothesis Hnoz : wc_compress cfg = false.      (* no write compression: see the extension below *)

  Let masked : bool := negb (wc_server cfg).
  Let run := spec_run (S0 ok) (peer masked) infl.

  (* ---- one chunk fed to a messageWriter *)
  Lemma feed_decode : forall c keys w typ frag sofar,
      keys_ok keys -> is_data typ -> wrel typ w frag sofar ->
      N.of_nat (length (m_buf w)) <= cap cfg ->
      N.of_nat (length sofar + length (chunk_bytes c)) < two63 ->
      exists emitted keys' w' frag',
        feed cfg keys w c = inl (emitted, keys', w')
        /\ keys_ok keys' /\ wrel typ w' frag' (sofar ++ chunk_bytes c)
        /\ N.of_nat (length (m_buf w')) <= cap cfg
        /\ forall rest, run frag (emitted ++ rest) = run frag' rest.
  Proof.
    intros c keys w typ frag sofar Hk Hd Hw Hb Hlen.
    destruct c as [p|p|p|p]; simpl chunk_bytes in *; unfold feed.
    - destruct ((2 * wc_buf cfg <? N.of_nat (length p)) && wc_server cfg) eqn:Big.
      + apply andb_true_iff in Big as [_ Hs].
        destruct (flush_nonfinal_decode ok infl cfg Hcap keys w typ frag sofar p Hk Hd Hw) as [fr [keys' [E [K [W D]]]]].
        { intro Hf. rewrite Hf in Hs. discriminate. }
        { rewrite app_length. exact Hlen. }
        exists fr, keys', (mkMw [] 0 false), (Some (typ, false, sofar ++ p, N.of_nat (length (sofar ++ p)))).
        split; [exact E|]. split; [exact K|]. split; [exact W|]. split; [simpl; lia|exact D].
      + destruct (copy_loop_decode ok infl cfg Hcap (S (length p)) keys w p [] typ frag sofar Hk Hd Hw ltac:(lia) Hlen Hb)
          as [em [keys' [w' [frag' [E R]]]]].
        exists em, keys', w', frag'. split; [exact E|exact R].
    - destruct (copy_loop_decode ok infl cfg Hcap (S (length p)) keys w p [] typ frag sofar Hk Hd Hw ltac:(lia) Hlen Hb)
        as [em [keys' [w' [frag' [E R]]]]].
      exists em, keys', w', frag'. split; [exact E|exact R].
    - destruct (copy_loop_decode ok infl cfg Hcap (S (length p)) keys w p [] typ frag sofar Hk Hd Hw ltac:(lia) Hlen Hb)
        as [em [keys' [w' [frag' [E [K [W [B D]]]]]]]].
      rewrite E. simpl app.
      destruct (N.of_nat (length (m_buf w')) =? cap cfg).
      + destruct (flush_nonfinal_decode ok infl cfg Hcap keys' w' typ frag' (sofar ++ p) [] K Hd W (fun _ => eq_refl))
          as [fr [keys'' [E2 [K2 [W2 D2]]]]].
        { rewrite app_nil_r, app_length. exact Hlen. }
        rewrite E2. rewrite app_nil_r in W2, D2.
        exists (em ++ fr), keys'', (mkMw [] 0 false), (Some (typ, false, sofar ++ p, N.of_nat (length (sofar ++ p)))).
        split; [reflexivity|]. split; [exact K2|]. split; [exact W2|]. split; [simpl; lia|].
        intro rest. rewrite <- app_assoc. unfold run. rewrite D. apply D2.
      + exists em, keys', w', frag'. split; [reflexivity|]. split; [exact K|]. split; [exact W|]. split; [exact B|exact D].
    - destruct (copy_loop_decode ok infl cfg Hcap (S (length p)) keys w p [] typ frag sofar Hk Hd Hw ltac:(lia) Hlen Hb)
        as [em [keys' [w' [frag' [E R]]]]].
      exists em, keys', w', frag'. split; [exact E|exact R].
  Qed.

  Lemma feed_all_decode : forall cs keys w wire0 typ frag sofar,
      keys_ok keys -> is_data typ -> wrel typ w frag sofar ->
      N.of_nat (length (m_buf w)) <= cap cfg ->
      N.of_nat (length sofar + length (flat_map chunk_bytes cs)) < two63 ->
      exists emitted keys' w' frag',
        feed_all cfg keys w cs wire0 = inl (wire0 ++ emitted, keys', w')
        /\ keys_ok keys' /\ wrel typ w' frag' (sofar ++ flat_map chunk_bytes cs)
        /\ forall rest, run frag (emitted ++ rest) = run frag' rest.
  Proof.
    induction cs as [|c cs IH]; intros keys w wire0 typ frag sofar Hk Hd Hw Hb Hlen.
    - exists [], keys, w, frag. simpl. rewrite !app_nil_r. split; [reflexivity|]. split; [exact Hk|]. split; [exact Hw|reflexivity].
    - simpl flat_map in *. rewrite app_length in Hlen.
      destruct (feed_decode c keys w typ frag sofar Hk Hd Hw Hb ltac:(lia)) as [em [keys1 [w1 [frag1 [E [K [W [B D]]]]]]]].
      simpl feed_all. rewrite E.
      destruct (IH keys1 w1 (wire0 ++ em) typ frag1 (sofar ++ chunk_bytes c) K Hd W B) as [em2 [keys2 [w2 [frag2 [E2 [K2 [W2 D2]]]]]]].
      { rewrite app_length. lia. }
      exists (em ++ em2), keys2, w2, frag2. split; [rewrite E2, <- app_assoc; reflexivity|].
      split; [exact K2|]. split; [rewrite <- app_assoc in W2; exact W2|].
      intro rest. rewrite <- app_assoc. rewrite D. apply D2.
  Qed.

  Lemma data_types : forall typ, is_data typ ->
      negb (is_control_type typ) && negb (is_data_type typ) = false.
  Proof. intros typ [-> | ->]; reflexivity. Qed.

  Lemma wrel_init : forall typ b, wrel typ (mkMw b typ false) None b.
  Proof. intros. split; [reflexivity|]. left. repeat split. Qed.

  (* ---- NextWriter ... Close *)
  Lemma stream_decode : forall keys typ cs,
      keys_ok keys -> is_data typ ->
      N.of_nat (length (flat_map chunk_bytes cs)) < two63 ->
      (typ = 1 -> utf8_valid (flat_map chunk_bytes cs) = true) ->
      exists wire keys',
        write_stream cfg keys typ cs = inl (wire, keys') /\ keys_ok keys'
        /\ forall rest, run None (wire ++ rest) = SMsg typ (flat_map chunk_bytes cs) :: run None rest.
  Proof.
    intros keys typ cs Hk Hd Hlen Hutf. unfold write_stream. rewrite (data_types typ Hd).
    destruct (feed_all_decode cs keys (mkMw [] typ false) [] typ None [] Hk Hd (wrel_init typ []))
      as [em [keys1 [w1 [frag1 [E [K [W D]]]]]]].
    { simpl. pose proof (cap_pos cfg Hcap). lia. }
    { simpl. exact Hlen. }
    rewrite E. simpl app in *.
    destruct (flush_final_decode ok infl cfg Hcap keys1 w1 typ frag1 (flat_map chunk_bytes cs) [] K Hd W (fun _ => eq_refl))
      as [fr [keys2 [w2 [E2 [K2 D2]]]]].
    { rewrite app_nil_r. exact Hlen. }
    { rewrite app_nil_r. exact Hutf. }
    rewrite E2. rewrite app_nil_r in D2.
    exists (em ++ fr), keys2. split; [reflexivity|]. split; [exact K2|].
    intro rest. rewrite <- app_assoc. unfold run. rewrite D. apply D2.
  Qed.


  (* ---- WriteMessage *)
  Lemma message_decode : forall keys typ data,
      keys_ok keys -> is_data typ ->
      N.of_nat (length data) < two63 -> (typ = 1 -> utf8_valid data = true) ->
      exists wire keys',
        write_message cfg keys typ data = inl (wire, keys') /\ keys_ok keys'
        /\ forall rest, run None (wire ++ rest) = SMsg typ data :: run None rest.
  Proof.
    intros keys typ data Hk Hd Hlen Hutf. unfold write_message. rewrite Hnoz. simpl negb. rewrite andb_true_r.
    assert (Hs : wc_server cfg = true \/ wc_server cfg = false) by (destruct (wc_server cfg); auto).
    destruct Hs as [Es|Es]; rewrite Es.
    - rewrite (data_types typ Hd).
      set (n := N.to_nat (N.min (cap cfg) (N.of_nat (length data)))).
      destruct (flush_final_decode ok infl cfg Hcap keys (mkMw (firstn n data) typ false) typ None (firstn n data) (skipn n data)
                                   Hk Hd (wrel_init typ _)) as [fr [keys' [w' [E [K D]]]]].
      { intro Hf. rewrite Hf in Es. discriminate. }
      { rewrite firstn_skipn. exact Hlen. }
      { rewrite firstn_skipn. exact Hutf. }
      rewrite E. rewrite firstn_skipn in D. exists fr, keys'. split; [reflexivity|]. split; [exact K|exact D].
    - destruct (stream_decode keys typ [CWrite data] Hk Hd) as [wire [keys' [E [K D]]]].
      { simpl. rewrite app_nil_r. exact Hlen. }
      { simpl. rewrite app_nil_r. exact Hutf. }
      simpl flat_map in D. rewrite app_nil_r in D.
      exists wire, keys'. split; [exact E|]. split; [exact K|exact D].
  Qed.

  (* ---- WriteControl *)
  Definition close_payload_ok (d : bytes) : Prop :=
    match d with
    | [] => True
    | [_] => False
    | a :: b :: text => ok (a * 256 + b) = true /\ utf8_valid text = true
    end.

  Lemma control_decode : forall keys typ data wire keys',
      keys_ok keys -> write_control cfg keys typ data = inl (wire, keys') ->
      (typ = 8 -> close_payload_ok data) ->
      keys_ok keys'
      /\ (typ = 8 \/ typ = 9 \/ typ = 10)
      /\ forall rest, run None (wire ++ rest)
                      = if typ =? 8 then message_events typ data else message_events typ data ++ run None rest.
  Proof.
    intros keys typ data wire keys' Hk E Hclose. unfold write_control in E.
    destruct (is_control_type typ) eqn:Ict; simpl negb in E; cbv iota in E; [|discriminate].
    assert (Htyp : typ = 8 \/ typ = 9 \/ typ = 10).
    { unfold is_control_type, c_CloseMessage, c_PingMessage, c_PongMessage in Ict.
      destruct (N.eqb_spec typ 8); [auto|]. destruct (N.eqb_spec typ 9); [auto|]. destruct (N.eqb_spec typ 10); [auto|discriminate]. }
    unfold c_maxControlFramePayloadSize in E.
    destruct (N.ltb_spec 125 (N.of_nat (length data))) as [|Hlen]; [discriminate|].
    assert (Hwire : exists key, wire = enc_frame masked key (b0_of typ true) data
                                /\ (masked = true -> length key = 4%nat) /\ keys_ok keys').
    { unfold enc_frame, encode_header, masked.
      destruct (N.leb_spec 65536 (N.of_nat (length data))); [lia|].
      destruct (N.ltb_spec 125 (N.of_nat (length data))); [lia|].
      assert (Hs : wc_server cfg = true \/ wc_server cfg = false) by (destruct (wc_server cfg); auto).
      destruct Hs as [Es|Es]; rewrite Es in E |- *.
      - inversion E; subst. exists []. split; [|split; [discriminate|exact Hk]].
        simpl negb. cbv iota. unfold b0_of. rewrite N.add_0_r. reflexivity.
      - destruct (next_key_ok keys Hk) as [K1 K2]. destruct (next_key keys) as [key ks]. simpl in K1, K2.
        inversion E; subst. exists key. split; [|split; [intros _; exact K1|exact K2]].
        simpl negb. cbv iota. unfold b0_of. rewrite N.add_0_r. rewrite (N.add_comm (N.of_nat (length data))). reflexivity. }
    destruct Hwire as [key [-> [Kl K']]]. split; [exact K'|]. split; [exact Htyp|].
    intro rest. unfold run. rewrite spec_run_step.
    rewrite (decode_control_frame ok infl masked key typ data rest None Htyp Hlen Kl).
    unfold message_events.
    destruct Htyp as [-> | [-> | ->]].
    - (* close *)
      simpl. specialize (Hclose eq_refl). unfold close_frame.
      destruct data as [|a [|b text]]; simpl in Hclose.
      + reflexivity.
      + contradiction.
      + destruct Hclose as [H1 H2]. unfold S0, strict, check, enforced. simpl close_ok. rewrite H1, H2. reflexivity.
    - reflexivity.
    - reflexivity.
  Qed.
End Ops.

(* ---------------------------------------------------------------- sequences of operations *)

Definition op_ok (ok : N -> bool) (o : wop) : Prop :=
  match o with
  | OpMessage t d => is_data t /\ N.of_nat (length d) < two63 /\ (t = 1 -> utf8_valid d = true)
  | OpStream t cs => is_data t /\ N.of_nat (length (flat_map chunk_bytes cs)) < two63
                     /\ (t = 1 -> utf8_valid (flat_map chunk_bytes cs) = true)
  | OpPrepared t d pkeys => is_data t /\ N.of_nat (length d) < two63 /\ (t = 1 -> utf8_valid d = true) /\ keys_ok pkeys
  | OpControl t d => t = 8 -> close_payload_ok ok d
  | OpZ _ _ _ | OpPreparedZ _ _ _ _ => True
  end.

Definition is_none {A} (x : option A) : bool := match x with None => true | Some _ => false end.

Lemma prepared_cap : forall cfg, c_maxFrameHeaderSize < wc_buf (prepared_cfg cfg).
Proof. intro cfg. vm_compute. reflexivity. Qed.

Lemma prepared_noz : forall cfg, wc_compress cfg = false -> wc_compress (prepared_cfg cfg) = false.
Proof. intros cfg H. exact H. Qed.

Lemma close_at_end_app_noend : forall a b, no_end a -> close_at_end (a ++ b) = a ++ close_at_end b.
Proof.
  induction a as [|e a IH]; intros b H; [reflexivity|].
  simpl. destruct e as [t d|p|o].
  - f_equal. apply IH. intros o Hi. apply (H o). right. exact Hi.
  - f_equal. apply IH. intros o Hi. apply (H o). right. exact Hi.
  - exfalso. apply (H o). left. reflexivity.
Qed.

Lemma ops_events_all_failed : forall ops (es : list (option werr)),
    Forall (fun e => is_none e = false) es -> ops_events ops (map is_none es) = [].
Proof.
  induction ops as [|o ops IH]; intros es H; [reflexivity|].
  destruct es as [|e es]; [reflexivity|]. inversion H; subst. simpl. rewrite H2. simpl. apply IH. exact H3.
Qed.

Section Seq.
  Variable ok : N -> bool.
  Variable infl : bytes -> option bytes.
  Variable cfg : wcfg.
  Hypothesis Hcap : c_maxFrameHeaderSize < wc_buf cfg.
  Hypothesis Hnoz : wc_compress cfg = false.
  Let run := spec_run (S0 ok) (peer (negb (wc_server cfg))) infl.

  (* one operation on a connection that has not sent a close frame: a data message / ping / pong is
     followed by whatever comes next; a close frame ends the decoding *)
  Lemma op_decode : forall keys o wire keys' sent' e,
      keys_ok keys -> op_ok ok o ->
      write_op cfg keys false o = (wire, keys', sent', e) ->
      keys_ok keys'
      /\ match e with
         | Some _ => wire = [] /\ sent' = false
         | None =>
             (sent' = true /\ exists out, message_events (op_type o) (op_data o) = [SEnd out]
                                         /\ forall rest, run None (wire ++ rest) = [SEnd out])
             \/ (sent' = false /\ no_end (message_events (op_type o) (op_data o))
                 /\ forall rest, run None (wire ++ rest) = message_events (op_type o) (op_data o) ++ run None rest)
         end.
  Proof.
    intros keys o wire keys' sent' e Hk Hok E. unfold write_op in E. rewrite Hnoz in E. simpl andb in E. cbv iota in E.
    assert (Hdata : forall t d w (k' : list bytes), is_data t ->
               (forall rest, run None (w ++ rest) = SMsg t d :: run None rest) ->
               (t =? c_CloseMessage) = false
               /\ no_end (message_events t d)
               /\ forall rest, run None (w ++ rest) = message_events t d ++ run None rest).
    { intros t d w k' Hd D. split; [destruct Hd as [-> | ->]; reflexivity|].
      assert (Em : message_events t d = [SMsg t d]) by (destruct Hd as [-> | ->]; reflexivity).
      rewrite Em. split; [intros o' [Hi|[]]; discriminate|exact D]. }
    destruct o as [t d|t cs|t d|t d pkeys|t d zs|t d zs pkeys]; simpl in Hok.
    - destruct Hok as [Hd [Hlen Hutf]].
      destruct (message_decode ok infl cfg Hcap Hnoz keys t d Hk Hd Hlen Hutf) as [w [k' [Ew [K D]]]].
      rewrite Ew in E. destruct (Hdata t d w k' Hd D) as [Hs [Hne D']]. rewrite Hs in E.
      inversion E; subst. split; [exact K|]. right. split; [reflexivity|]. split; [exact Hne|exact D'].
    - destruct Hok as [Hd [Hlen Hutf]].
      destruct (stream_decode ok infl cfg Hcap Hnoz keys t cs Hk Hd Hlen Hutf) as [w [k' [Ew [K D]]]].
      rewrite Ew in E. destruct (Hdata t (flat_map chunk_bytes cs) w k' Hd D) as [Hs [Hne D']]. rewrite Hs in E.
      inversion E; subst. split; [exact K|]. right. split; [reflexivity|]. split; [exact Hne|exact D'].
    - destruct (write_control cfg keys t d) as [[w k']|err] eqn:Ew.
      + destruct (control_decode ok infl cfg Hcap Hnoz keys t d w k' Hk Ew Hok) as [K [Ht D]].
        inversion E; subst. split; [exact K|]. simpl op_type. simpl op_data. unfold c_CloseMessage.
        destruct Ht as [-> | [-> | ->]].
        * left. split; [reflexivity|].
          assert (Ex : exists out, message_events 8 d = [SEnd out]).
          { unfold message_events. simpl. destruct d as [|a [|b text]]; eexists; reflexivity. }
          destruct Ex as [out Eo]. exists out. split; [exact Eo|]. intro rest. rewrite <- Eo. apply (D rest).
        * right. split; [reflexivity|]. split; [intros o' [Hi|[]]; discriminate|]. intro rest. apply (D rest).
        * right. split; [reflexivity|]. split; [intros o' []|]. intro rest. apply (D rest).
      + inversion E; subst. split; [exact Hk|]. split; reflexivity.
    - destruct Hok as [Hd [Hlen [Hutf Hpk]]].
      destruct (message_decode ok infl (prepared_cfg cfg) (prepared_cap cfg) (prepared_noz cfg Hnoz) pkeys t d Hpk Hd Hlen Hutf) as [w [k' [Ew [K D]]]].
      rewrite Ew in E. destruct (Hdata t d w k' Hd D) as [Hs [Hne D']]. rewrite Hs in E.
      inversion E; subst. split; [exact Hk|]. right. split; [reflexivity|]. split; [exact Hne|exact D'].
    - inversion E; subst. split; [exact Hk|]. split; reflexivity.
    - inversion E; subst. split; [exact Hk|]. split; reflexivity.
  Qed.

  Lemma write_all_sent : forall ops keys,
      fst (write_all cfg keys true ops) = [] /\ Forall (fun e => is_none e = false) (snd (write_all cfg keys true ops)).
  Proof.
    induction ops as [|o ops IH]; intro keys; simpl; [split; [reflexivity|constructor]|].
    destruct (IH keys) as [I1 I2]. destruct (write_all cfg keys true ops) as [w es]. simpl in *. subst w.
    split; [reflexivity|]. constructor; [reflexivity|exact I2].
  Qed.

  (* Any sequence of write operations: what the strict RFC decoder (as the peer) reads from the wire
     is exactly the list of messages whose write returned nil, in order; nothing else. *)
  Theorem roundtrip : forall ops keys,
      keys_ok keys -> Forall (op_ok ok) ops ->
      run None (fst (write_all cfg keys false ops))
      = close_at_end (ops_events ops (map is_none (snd (write_all cfg keys false ops)))).
  Proof.
    induction ops as [|o ops IH]; intros keys Hk Hok; [reflexivity|].
    inversion Hok as [|? ? Ho Hops]; subst.
    cbn [write_all].
    destruct (write_op cfg keys false o) as [[[wire keys'] sent'] e] eqn:Eo.
    destruct (op_decode keys o wire keys' sent' e Hk Ho Eo) as [K R].
    destruct e as [err|].
    - destruct R as [-> ->]. specialize (IH keys' K Hops).
      destruct (write_all cfg keys' false ops) as [w es]. simpl in *. exact IH.
    - destruct R as [[-> [out [Em D]]]|[-> [Hne D]]].
      + destruct (write_all_sent ops keys') as [W1 W2].
        destruct (write_all cfg keys' true ops) as [w es]. simpl in *. subst w.
        rewrite D. rewrite Em. rewrite (ops_events_all_failed ops es W2). reflexivity.
      + specialize (IH keys' K Hops).
        destruct (write_all cfg keys' false ops) as [w es]. simpl in *.
        rewrite D. rewrite IH. rewrite close_at_end_app_noend by exact Hne. reflexivity.
  Qed.
End Seq.
