(* C23 core domain: ReadStream / ReadState on both sides. *)
From Coq Require Import List NArith ZArith Bool String Ascii Lia.
From Cfg Require Import Model.RStr Model.LuaNum Model.Redis Model.RedisScripts Model.MapApi23 Model.MemMap23
                        Model.RedisMapBroker Model.RedisMapScripts
                        Proofs.C18Lib Proofs.C18Redis Proofs.C23Redis Proofs.C23Lib Proofs.C23Add.
From Cfg Require Proofs.C18Stream Proofs.C18StreamP Proofs.C18StreamH.
Import ListNotations.
Open Scope string_scope.

(* ---------- the ghost list: stream entries with the score that went into the payload ---------- *)
Definition gent := (tpub * Z)%type.
Definition g_off (x : gent) : N := off_of (fst x).
Definition genc (epoch : string) (x : gent) : sentry :=
  mkEntry (g_off x, 0%N)
          ["e"; epoch; "d"; pb (snd (fst (fst (fst x)))) (snd (fst (fst x))) (snd (fst x)) (snd x)].

Definition g_ok (g : list gent) : Prop := forall x, In x g -> (0 <= snd x)%Z.

Lemma map_fst_filter (f : tpub -> bool) (g : list gent) :
  map fst (filter (fun x => f (fst x)) g) = filter f (map fst g).
Proof. induction g as [|x g IH]; [reflexivity|]. cbn. destruct (f (fst x)); cbn; rewrite IH; reflexivity. Qed.

Lemma limit_list_map' {A B} (f : A -> B) c l : limit_list c (map f l) = map f (limit_list c l).
Proof. unfold limit_list. destruct c as [z|]; [|reflexivity]. destruct (z <=? 0)%Z; [reflexivity|]. apply firstn_map. Qed.
Lemma limit_list_nil' {A} c : @limit_list A c [] = [].
Proof. destruct c as [z|]; [|reflexivity]. cbn. destruct (z <=? 0)%Z; [reflexivity|]. apply firstn_nil. Qed.

Lemma take_lim_limit (z : Z) {A} (l : list A) :
  (z =? 0)%Z = false -> limit_list (if (0 <? z)%Z then Some z else None) l = take_lim z l.
Proof.
  intros Hz. unfold limit_list, take_lim. apply Z.eqb_neq in Hz.
  destruct (0 <? z)%Z eqn:E.
  - apply Z.ltb_lt in E. replace (z <=? 0)%Z with false by (symmetry; apply Z.leb_gt; lia).
    replace (z <? 0)%Z with false by (symmetry; apply Z.ltb_ge; lia). reflexivity.
  - apply Z.ltb_ge in E. replace (z <? 0)%Z with true by (symmetry; apply Z.ltb_lt; lia). reflexivity.
Qed.
Lemma take_lim_nil' {A} z : @take_lim A z [] = [].
Proof. unfold take_lim. destruct (z <? 0)%Z; [reflexivity|]. apply firstn_nil. Qed.

(* ---------- Redis: ranges over an encoded stream ---------- *)
Definition strm_view (epoch : string) (g : list gent) (top : N) : option (list sentry * (N * N)) :=
  match g with [] => None | _ => Some (map (genc epoch) g, (top, 0%N)) end.

Lemma sel_fwd_g epoch g lo :
  (forall x, In x g -> (g_off x <= u64max)%N) ->
  filter (fun e => sid_le (lo, 0%N) (e_id e) && sid_le (e_id e) (u64max, u64max)) (map (genc epoch) g)
  = map (genc epoch) (filter (fun x => (lo <=? g_off x)%N) g).
Proof.
  intros Hb. rewrite C18Stream.filter_map_swap. f_equal. apply filter_ext_in. intros x Hin. unfold genc. cbn [e_id].
  rewrite C18Stream.sid_le_lo, C18Stream.sid_le_hi. specialize (Hb x Hin). apply N.leb_le in Hb. rewrite Hb, andb_true_r. reflexivity.
Qed.
Lemma sel_rev_g epoch g hi :
  filter (fun e => sid_le (0, 0)%N (e_id e) && sid_le (e_id e) (hi, u64max)) (map (genc epoch) g)
  = map (genc epoch) (filter (fun x => (g_off x <=? hi)%N) g).
Proof.
  rewrite C18Stream.filter_map_swap. f_equal. apply filter_ext_in. intros x Hin. unfold genc. cbn [e_id].
  rewrite C18Stream.sid_le_lo, C18Stream.sid_le_hi. replace (0 <=? g_off x)%N with true by (symmetry; apply N.leb_le; lia). reflexivity.
Qed.

Lemma xr_fwd_g st k epoch g top a lo rest cnt :
  sview st k (strm_view epoch g top) -> (forall x, In x g -> (g_off x <= u64max)%N) ->
  parse_bound a 0 = Some (Some (lo, 0%N)) -> parse_count rest = Some (Some cnt) ->
  redis_call st ("xrange" :: k :: a :: "+" :: rest) =
    (st, RArr (map entry_reply (map (genc epoch) (limit_list cnt (filter (fun x => (lo <=? g_off x)%N) g))))).
Proof.
  intros Hs Hb Ha Hc. rewrite xrange_call.
  rewrite (xrange_gen false st _ _ _ _ (lo, 0%N) (u64max, u64max) cnt); [| exact Ha | reflexivity | exact Hc].
  rewrite (sview_get _ _ _ Hs). destruct g as [|x g]; [cbn [filter]; rewrite limit_list_nil'; reflexivity|].
  unfold strm_view, xrange_sel. rewrite sel_fwd_g by assumption. rewrite limit_list_map'. reflexivity.
Qed.
Lemma xr_rev_g st k epoch g top b hi rest cnt :
  sview st k (strm_view epoch g top) ->
  parse_bound b u64max = Some (Some (hi, u64max)) -> parse_count rest = Some (Some cnt) ->
  redis_call st ("xrevrange" :: k :: b :: "-" :: rest) =
    (st, RArr (map entry_reply (map (genc epoch) (limit_list cnt (rev (filter (fun x => (g_off x <=? hi)%N) g)))))).
Proof.
  intros Hs Hb Hc. rewrite xrevrange_call.
  rewrite (xrange_gen true st _ _ _ _ (0, 0)%N (hi, u64max) cnt); [| reflexivity | exact Hb | exact Hc].
  rewrite (sview_get _ _ _ Hs). destruct g as [|x g]; [cbn [filter rev]; rewrite limit_list_nil'; reflexivity|].
  unfold strm_view, xrange_sel. rewrite sel_rev_g. rewrite <- map_rev, limit_list_map'. reflexivity.
Qed.

(* ---------- Go: parsing the entries back ---------- *)
Lemma parse_entry_genc epoch x : (g_off x < 18446744073709551616)%N -> (0 <= snd x)%Z ->
  parse_stream_entry (entry_reply (genc epoch x)) = Some (fst x).
Proof.
  intros Ho Hs. destruct x as [[[[o k] d] r] sc]. unfold g_off, off_of in Ho. cbn [fst snd] in *.
  unfold genc, entry_reply, parse_stream_entry, g_off, off_of. cbn [fst snd e_id e_fv map].
  cbn [as_arr to_str find_d]. change (String.eqb "e" "d") with false. change (String.eqb "d" "d") with true. cbn iota.
  unfold sid_str. cbn [fst snd].
  change ("-" ++ dec 0) with (String "-" (dec 0)).
  rewrite (sindex_char_app "-" (dec o) (dec 0)) by (apply dec_no_char; reflexivity).
  pose proof (dec_nonempty o) as Hne. destruct (String.length (dec o)) as [|h'] eqn:El.
  { destruct (dec o); [congruence|discriminate]. }
  rewrite <- El, stake_app, parse_u64_map_dec by assumption. rewrite unpb_pb by assumption. reflexivity.
Qed.

Lemma parse_entries_g epoch g :
  (forall x, In x g -> (g_off x < 18446744073709551616)%N /\ (0 <= snd x)%Z) ->
  parse_all parse_stream_entry (map entry_reply (map (genc epoch) g)) = Some (map fst g).
Proof.
  induction g as [|x g IH]; intros H; [reflexivity|]. cbn [map parse_all].
  destruct (H x (or_introl eq_refl)) as [H1 H2]. rewrite parse_entry_genc by assumption.
  rewrite IH by (intros; apply H; right; assumption). reflexivity.
Qed.

(* ---------- memory: Stream.Get in terms of filters ---------- *)
Lemma mget_fwd c off lim :
  contigT (ch_items c) 1 (ch_top c) ->
  stream_get c off true lim false =
    if (lim =? 0)%Z then [] else take_lim lim (filter (fun it => (off <=? off_of it)%N) (ch_items c)).
Proof.
  intros Hc. unfold stream_get. cbn [andb].
  rewrite (filter_ge_contigT _ _ _ off Hc). rewrite (index_of_contigT _ _ _ off 0 Hc).
  pose proof (contigT_length _ _ _ Hc) as Hlen.
  destruct (ch_top c + 1 <=? off)%N eqn:E1.
  - apply N.leb_le in E1. cbn iota. rewrite skipn_all2 by lia. destruct (lim =? 0)%Z; [reflexivity|]. symmetry. apply take_lim_nil'.
  - apply N.leb_gt in E1.
    destruct (1 <=? off)%N eqn:E2.
    + replace (off <=? ch_top c)%N with true by (symmetry; apply N.leb_le; lia). cbn [andb Nat.add]. reflexivity.
    + apply N.leb_gt in E2. cbn [andb]. replace (N.to_nat (off - 1)) with O by lia.
      destruct (ch_items c); [|reflexivity]. destruct (lim =? 0)%Z; [reflexivity|]. symmetry. apply take_lim_nil'.
Qed.

Lemma mget_rev c off lim :
  contigT (ch_items c) 1 (ch_top c) -> (off <= ch_top c)%N ->
  stream_get c off true lim true =
    if (lim =? 0)%Z then [] else take_lim lim (rev (filter (fun it => (off_of it <=? off)%N) (ch_items c))).
Proof.
  intros Hc Ho. unfold stream_get. cbn [andb].
  replace (ch_top c + 1 <=? off)%N with false by (symmetry; apply N.leb_gt; lia).
  rewrite (filter_le_contigT _ _ _ off Hc). rewrite (index_of_contigT _ _ _ off 0 Hc).
  replace (off <=? ch_top c)%N with true by (symmetry; apply N.leb_le; lia). rewrite andb_true_r.
  destruct (1 <=? off)%N eqn:E2.
  - apply N.leb_le in E2. cbn [Nat.add]. replace (N.to_nat (off + 1 - 1)) with (S (N.to_nat (off - 1))) by lia. reflexivity.
  - apply N.leb_gt in E2. replace (N.to_nat (off + 1 - 1)) with O by lia. cbn [firstn rev].
    destruct (lim =? 0)%Z; [reflexivity|]. symmetry. apply take_lim_nil'.
Qed.

Lemma mget_all c lim (rev_ : bool) :
  (lim =? 0)%Z = false ->
  stream_get c 0 false lim rev_ = take_lim lim (if rev_ then rev (ch_items c) else ch_items c).
Proof.
  intros Hl. unfold stream_get. cbn [andb].
  destruct (ch_items c) as [|it items] eqn:E.
  - destruct rev_; cbn [rev]; symmetry; apply take_lim_nil'.
  - rewrite Hl. destruct rev_.
    + replace (S (List.length (it :: items) - 1)) with (List.length (it :: items)) by (cbn; lia).
      rewrite firstn_all. reflexivity.
    + reflexivity.
Qed.

(* ================= ReadStream ================= *)
Definition unrec_of (since : option (N * string)) (epoch : string) : bool :=
  match since with Some (_, se) => (negb (String.eqb se "") && negb (String.eqb se epoch))%bool | None => false end.

Definition since_ok (top : N) (since : option (N * string)) (reverse : bool) : Prop :=
  match since with
  | None => True
  | Some (so, _) => if reverse then (2 <= so <= top + 1)%N else (so + 1 < 18446744073709551616)%N
  end.

Definition sel_pubs (items : list tpub) (since : option (N * string)) (limit : Z) (reverse : bool) : list tpub :=
  if (limit =? 0)%Z then [] else
  match since with
  | None => take_lim limit (if reverse then rev items else items)
  | Some (so, _) =>
      if reverse then take_lim limit (rev (filter (fun p => (off_of p <=? so - 1)%N) items))
      else take_lim limit (filter (fun p => (so + 1 <=? off_of p)%N) items)
  end.

Lemma mm_read_stream_some m ch c since limit reverse nonce :
  sfind ch (mm_chans m) = Some c -> contigT (ch_items c) 1 (ch_top c) -> since_ok (ch_top c) since reverse ->
  mm_read_stream m ch since limit reverse nonce =
    (m, if unrec_of since (ch_epoch c) then MUnrec
        else MStream (sel_pubs (ch_items c) since limit reverse) (ch_top c) (ch_epoch c)).
Proof.
  intros Hf Hc Hs. unfold mm_read_stream. rewrite Hf. cbn [chan_pos fst snd]. unfold sel_pubs, unrec_of.
  destruct since as [[so se]|].
  - destruct (negb (String.eqb se "") && negb (String.eqb se (ch_epoch c)))%bool; [reflexivity|].
    cbn [since_ok] in Hs. destruct reverse; cbn [negb andb].
    + unfold wrap_pred. replace (so =? 0)%N with false by (symmetry; apply N.eqb_neq; lia).
      rewrite mget_rev by (assumption || lia). reflexivity.
    + rewrite N.mod_small by assumption.
      destruct (ch_top c =? so)%N eqn:E.
      * apply N.eqb_eq in E. subst so.
        rewrite C18StreamH.filter_all_false; [rewrite take_lim_nil'; destruct (limit =? 0)%Z; reflexivity|].
        intros p Hin. pose proof (contigT_bounds _ _ _ Hc p Hin). apply N.leb_gt. lia.
      * rewrite mget_fwd by assumption. reflexivity.
  - destruct (limit =? 0)%Z eqn:El; [reflexivity|]. rewrite mget_all by assumption. reflexivity.
Qed.

(* ---- the script ---- *)
Definition topr (top : N) : reply := if (top =? 0)%N then RInt 0 else RBulk (dec top).

Definition sr_tail (ch include since limit reverse : string) (top : reply) (epoch : string) : M reply :=
  if String.eqb include "0" then finish (RArr [top; RBulk epoch; RArr []]) else
  let cnt := if String.eqb limit "0" then [] else ["COUNT"; limit] in
  dom pubs <- (if String.eqb reverse "0" then rc (["xrange"; k_stream ch; since; "+"] ++ cnt)%list
               else
                 dom from <- (if (negb (String.eqb since "-") && negb (String.eqb since "0"))%bool then ret since
                              else arg_of_reply top) ;;
                 rc (["xrevrange"; k_stream ch; from; "-"] ++ cnt)%list) ;;
  finish (RArr [top; RBulk epoch; pubs]).

Lemma sr_head_some st ch h epoch top include sinc limit reverse nonce :
  hview st (k_meta ch) (Some h) -> hash_ok h epoch top 0 "" ->
  sh_map_stream_read [k_stream ch; k_meta ch] [include; sinc; limit; reverse; "0"; nonce] st =
  sr_tail ch include sinc limit reverse (topr top) epoch st.
Proof.
  intros Hv (He & Hs & _). unfold sh_map_stream_read. cbn [arg nth].
  rewrite bind_rc, (hmget2_v _ _ _ _ _ Hv). cbn [hash_or_empty]. rewrite He, Hs. cbn [bulk_opt]. cbn iota beta.
  unfold topr. destruct (top =? 0)%N; reflexivity.
Qed.

Lemma sr_head_none st ch include sinc limit reverse nonce :
  getk st (k_meta ch) = None ->
  sh_map_stream_read [k_stream ch; k_meta ch] [include; sinc; limit; reverse; "0"; nonce] st =
  sr_tail ch include sinc limit reverse (RInt 0) nonce
          (delk (setval st (k_meta ch) (VHash [("e", nonce)])) (k_stream ch)).
Proof.
  intros Hv. unfold sh_map_stream_read. cbn [arg nth].
  rewrite bind_rc, (hmget2_none _ _ _ _ Hv). cbn iota beta.
  rewrite bind_assoc, bind_rc, (hset1_none _ _ _ _ Hv). cbn iota beta.
  destruct (del1 (setval st (k_meta ch) (VHash [("e", nonce)])) (k_stream ch)) as [n Hd].
  rewrite bind_assoc, bind_rc, Hd. cbn iota beta. rewrite bind_ret. reflexivity.
Qed.

(* ---- the Go side ---- *)
Definition go_sr (since : option (N * string)) (include : bool) (r : reply) : mres :=
  match as_arr r with
  | inl _ => MErr
  | inr l =>
      if Nat.ltb (List.length l) 2 then MErr else
      match (match as_u64 (nth 0 l RNil) with inr n => Some n | inl PNil => Some 0%N | inl PErr => None end),
            to_str (nth 1 l RNil) with
      | Some top, inr ep =>
          if match since with Some (_, se) => (negb (String.eqb se "") && negb (String.eqb se ep))%bool | None => false end
          then MUnrec else
          if (negb include || Nat.ltb (List.length l) 3)%bool then MStream [] top ep else
          match as_arr (nth 2 l RNil) with
          | inl _ => MErr
          | inr vs => match parse_all parse_stream_entry vs with
                      | Some pubs => MStream pubs top ep
                      | None => MErr
                      end
          end
      | _, _ => MErr
      end
  end.

Lemma rm_read_stream_eq SC cf st ch since limit reverse node :
  rm_read_stream SC cf st ch since limit reverse node =
  let args := stream_read_args cf since limit reverse node in
  let '(st', r) := ms_stream_read SC [k_stream ch; k_meta ch] args st in
  (st', go_sr since (String.eqb (nth 0 args "") "1") r).
Proof. reflexivity. Qed.

Lemma as_u64_topr top : (top < 18446744073709551616)%N -> as_u64 (topr top) = inr top.
Proof.
  intros H. unfold topr. destruct (top =? 0)%N eqn:E; [apply N.eqb_eq in E; subst; reflexivity|].
  cbn [as_u64 to_str]. rewrite parse_u64_map_dec by assumption. reflexivity.
Qed.

Lemma go_sr_pubs since top ep g' epoch :
  (top < 18446744073709551616)%N ->
  (forall x, In x g' -> (g_off x < 18446744073709551616)%N /\ (0 <= snd x)%Z) ->
  go_sr since true (RArr [topr top; RBulk ep; RArr (map entry_reply (map (genc epoch) g'))]) =
    if unrec_of since ep then MUnrec else MStream (map fst g') top ep.
Proof.
  intros Ht Hg. unfold go_sr. cbn [as_arr List.length Nat.ltb Nat.leb nth to_str]. rewrite as_u64_topr by assumption.
  unfold unrec_of. destruct (match since with Some _ => _ | None => false end); [reflexivity|].
  cbn [negb orb]. rewrite parse_entries_g by assumption. reflexivity.
Qed.

Lemma go_sr_nopubs since (include : bool) top ep :
  (top < 18446744073709551616)%N ->
  go_sr since include (RArr [topr top; RBulk ep; RArr []]) = if unrec_of since ep then MUnrec else MStream [] top ep.
Proof.
  intros Ht. unfold go_sr. cbn [as_arr List.length Nat.ltb Nat.leb nth to_str]. rewrite as_u64_topr by assumption.
  unfold unrec_of. destruct (match since with Some _ => _ | None => false end); [reflexivity|].
  destruct include; reflexivity.
Qed.

Definition lim_str (limit : Z) : string := zdec (if (limit <? 0)%Z then 0%Z else limit).

Lemma lim_str_nonpos limit : (limit <= 0)%Z -> lim_str limit = "0".
Proof.
  intros H. unfold lim_str. destruct (limit <? 0)%Z eqn:E; [reflexivity|]. apply Z.ltb_ge in E.
  replace limit with 0%Z by lia. reflexivity.
Qed.
Lemma lim_str_pos limit : (0 < limit)%Z -> lim_str limit = dec (Z.to_N limit).
Proof.
  intros H. unfold lim_str. replace (limit <? 0)%Z with false by (symmetry; apply Z.ltb_ge; lia).
  rewrite <- zdec_of_N. rewrite Z2N.id by lia. reflexivity.
Qed.

Lemma cnt_parse' limit :
  (limit < 2147483648)%Z ->
  parse_count (if String.eqb (lim_str limit) "0" then [] else ["COUNT"; lim_str limit])
  = Some (Some (if (0 <? limit)%Z then Some limit else None)).
Proof.
  intros H. destruct (0 <? limit)%Z eqn:E.
  - apply Z.ltb_lt in E. rewrite lim_str_pos by assumption. rewrite C18StreamH.dec_eqb_0.
    replace (Z.to_N limit =? 0)%N with false by (symmetry; apply N.eqb_neq; lia).
    rewrite parse_count_dec by lia. rewrite Z2N.id by lia. reflexivity.
  - apply Z.ltb_ge in E. rewrite lim_str_nonpos by assumption. reflexivity.
Qed.

Definition g_inv (g : list gent) (top : N) : Prop :=
  forall x, In x g -> (1 <= g_off x <= top)%N /\ (0 <= snd x)%Z.

Lemma in_limit_list' {A} c (l : list A) x : In x (limit_list c l) -> In x l.
Proof.
  unfold limit_list. destruct c as [z|]; [|auto]. destruct (z <=? 0)%Z; [intros []|]. apply C18StreamH.in_firstn.
Qed.

Lemma rm_read_stream_some cf st ch h epoch top g since limit reverse node :
  mc_mttl cf = 0%Z ->
  hview st (k_meta ch) (Some h) -> hash_ok h epoch top 0 "" -> sview st (k_stream ch) (strm_view epoch g top) ->
  g_inv g top -> (top < BOUND)%N -> since_ok top since reverse -> (limit < 2147483648)%Z ->
  rm_read_stream map_shallow cf st ch since limit reverse node =
    (st, if unrec_of since epoch then MUnrec else MStream (sel_pubs (map fst g) since limit reverse) top epoch).
Proof.
  intros Hmt Hv Hh Hs Hg Ht Hso Hlim. unfold C18Stream.BOUND in Ht.
  assert (Hb64 : forall x, In x g -> (g_off x <= u64max)%N) by (intros x Hin; destruct (Hg x Hin); unfold u64max; lia).
  assert (Hp : forall g', (forall x, In x g' -> In x g) ->
                forall x, In x g' -> (g_off x < 18446744073709551616)%N /\ (0 <= snd x)%Z).
  { intros g' Hsub x Hin. destruct (Hg x (Hsub x Hin)). split; [lia | assumption]. }
  pose proof (cnt_parse' limit Hlim) as Hcnt.
  rewrite rm_read_stream_eq. unfold stream_read_args. rewrite Hmt. change (0 <? 0)%Z with false. cbv zeta.
  fold (lim_str limit).
  destruct (limit =? 0)%Z eqn:El.
  { (* limit 0: position only *)
    assert (Hargs : exists i0 off, (let '(include0, offset) :=
                match since with
                | Some (so, _) => if reverse then if (so =? 0)%N then (false, "") else (true, utoa (so - 1))
                                  else (true, utoa ((so + 1) mod 18446744073709551616))
                | None => (true, if reverse then "+" else "-")
                end in
              [if include0 && negb true then "1" else "0"; offset; lim_str limit; if reverse then "1" else "0"; "0"; node])
             = ["0"; off; lim_str limit; if reverse then "1" else "0"; "0"; node] /\ i0 = tt).
    { destruct since as [[so se]|]; [destruct reverse; [destruct (so =? 0)%N|]|];
        cbn iota beta; rewrite ?andb_false_r; eexists tt, _; split; reflexivity. }
    destruct Hargs as (_ & off & Ha & _). rewrite Ha. clear Ha.
    cbn [ms_stream_read map_shallow]. unfold runM. rewrite (sr_head_some _ _ _ _ _ _ _ _ _ _ Hv Hh).
    unfold sr_tail. cbn [String.eqb Ascii.eqb Bool.eqb]. unfold finish. cbn [nth]. 
    rewrite go_sr_nopubs by lia. unfold sel_pubs. rewrite El. reflexivity. }
  cbn [negb]. unfold sel_pubs. rewrite El.
  destruct since as [[so se]|].
  - cbn [since_ok] in Hso. destruct reverse.
    + (* reverse, since *)
      replace (so =? 0)%N with false by (symmetry; apply N.eqb_neq; lia). cbn iota beta. cbn [andb nth].
      cbn [ms_stream_read map_shallow]. unfold runM. rewrite (sr_head_some _ _ _ _ _ _ _ _ _ _ Hv Hh).
      unfold sr_tail, utoa. cbn [String.eqb Ascii.eqb Bool.eqb].
      rewrite (dec_neq_lit (so - 1) "-") by reflexivity. rewrite C18StreamH.dec_eqb_0.
      replace (so - 1 =? 0)%N with false by (symmetry; apply N.eqb_neq; lia). cbn [negb andb].
      rewrite bind_assoc, bind_ret, bind_rc. cbn [app].
      erewrite (xr_rev_g st _ epoch g top _ (so - 1)%N _ _ Hs); [| apply parse_bound_dec; unfold u64max; lia | exact Hcnt].
      cbn iota beta. unfold finish.
      rewrite go_sr_pubs; [| lia | apply Hp; intros x Hin; apply in_limit_list' in Hin; apply in_rev in Hin; apply filter_In in Hin; tauto].
      destruct (unrec_of _ _); [reflexivity|]. f_equal. f_equal.
      rewrite <- limit_list_map', map_rev. change (fun x : gent => (g_off x <=? so - 1)%N) with (fun x : gent => (fun p => (off_of p <=? so - 1)%N) (fst x)).
      rewrite map_fst_filter. apply take_lim_limit. assumption.
    + (* forward, since *)
      rewrite N.mod_small by assumption. cbn iota beta. cbn [andb nth].
      cbn [ms_stream_read map_shallow]. unfold runM. rewrite (sr_head_some _ _ _ _ _ _ _ _ _ _ Hv Hh).
      unfold sr_tail, utoa. cbn [String.eqb Ascii.eqb Bool.eqb].
      rewrite bind_rc. cbn [app].
      erewrite (xr_fwd_g st _ epoch g top _ (so + 1)%N _ _ Hs Hb64); [| apply parse_bound_dec; unfold u64max; lia | exact Hcnt].
      cbn iota beta. unfold finish.
      rewrite go_sr_pubs; [| lia | apply Hp; intros x Hin; apply in_limit_list' in Hin; apply filter_In in Hin; tauto].
      destruct (unrec_of _ _); [reflexivity|]. f_equal. f_equal.
      rewrite <- limit_list_map'. change (fun x : gent => (so + 1 <=? g_off x)%N) with (fun x : gent => (fun p => (so + 1 <=? off_of p)%N) (fst x)).
      rewrite map_fst_filter. apply take_lim_limit. assumption.
  - destruct reverse.
    + (* reverse from the top *)
      cbn iota beta. cbn [andb nth].
      cbn [ms_stream_read map_shallow]. unfold runM. rewrite (sr_head_some _ _ _ _ _ _ _ _ _ _ Hv Hh).
      unfold sr_tail. cbn [String.eqb Ascii.eqb Bool.eqb negb andb].
      rewrite bind_assoc, bind_ret, bind_rc. cbn [app].
      erewrite (xr_rev_g st _ epoch g top _ u64max _ _ Hs); [| reflexivity | exact Hcnt].
      cbn iota beta. unfold finish.
      rewrite C18Stream.filter_all by (intros x Hin; apply N.leb_le; apply Hb64; assumption).
      rewrite go_sr_pubs; [| lia | apply Hp; intros x Hin; apply in_limit_list' in Hin; apply in_rev in Hin; assumption].
      cbn [unrec_of]. f_equal. f_equal. rewrite <- limit_list_map', map_rev. apply take_lim_limit. assumption.
    + (* forward from the beginning *)
      cbn iota beta. cbn [andb nth].
      cbn [ms_stream_read map_shallow]. unfold runM. rewrite (sr_head_some _ _ _ _ _ _ _ _ _ _ Hv Hh).
      unfold sr_tail. cbn [String.eqb Ascii.eqb Bool.eqb negb andb].
      rewrite bind_rc. cbn [app].
      erewrite (xr_fwd_g st _ epoch g top _ 0%N _ _ Hs Hb64); [| reflexivity | exact Hcnt].
      cbn iota beta. unfold finish.
      rewrite C18Stream.filter_all by (intros x Hin; apply N.leb_le; lia).
      rewrite go_sr_pubs; [| lia | apply Hp; intros x Hin; apply in_limit_list' in Hin; assumption].
      cbn [unrec_of]. f_equal. f_equal. rewrite <- limit_list_map'. apply take_lim_limit. assumption.
Qed.

Lemma rm_read_stream_none cf st ch limit reverse node :
  mc_mttl cf = 0%Z -> getk st (k_meta ch) = None -> (limit < 2147483648)%Z ->
  rm_read_stream map_shallow cf st ch None limit reverse node =
    (delk (setval st (k_meta ch) (VHash [("e", node)])) (k_stream ch), MStream [] 0 node).
Proof.
  intros Hmt Hv Hlim. pose proof (cnt_parse' limit Hlim) as Hcnt.
  rewrite rm_read_stream_eq. unfold stream_read_args. rewrite Hmt. change (0 <? 0)%Z with false. cbv zeta.
  fold (lim_str limit). cbn iota beta. cbn [andb nth].
  cbn [ms_stream_read map_shallow]. unfold runM. rewrite (sr_head_none _ _ _ _ _ _ _ Hv).
  set (st' := delk _ _).
  assert (Hs : sview st' (k_stream ch) (strm_view node [] 0)) by apply getk_delk_same.
  unfold sr_tail.
  destruct (limit =? 0)%Z eqn:El.
  { cbn [negb String.eqb Ascii.eqb Bool.eqb]. unfold finish. change (RInt 0) with (topr 0).
    rewrite go_sr_nopubs by lia. reflexivity. }
  cbn [negb String.eqb Ascii.eqb Bool.eqb].
  destruct reverse; cbn [String.eqb Ascii.eqb Bool.eqb negb andb].
  - rewrite bind_assoc, bind_ret, bind_rc. cbn [app].
    erewrite (xr_rev_g st' _ node [] 0 _ u64max _ _ Hs); [| reflexivity | exact Hcnt].
    cbn iota beta. unfold finish. change (RInt 0) with (topr 0). cbn [filter rev]. rewrite limit_list_nil'.
    rewrite go_sr_pubs; [reflexivity | lia | intros x []].
  - rewrite bind_rc. cbn [app].
    erewrite (xr_fwd_g st' _ node [] 0 _ 0%N _ _ Hs); [| intros x [] | reflexivity | exact Hcnt].
    cbn iota beta. unfold finish. change (RInt 0) with (topr 0). cbn [filter]. rewrite limit_list_nil'.
    rewrite go_sr_pubs; [reflexivity | lia | intros x []].
Qed.

(* ================= ReadState ================= *)
Definition rev_bad (rev_ : option (N * string)) (epoch : string) : bool :=
  match rev_ with Some (_, re) => negb (String.eqb re epoch) | None => false end.

Lemma as_u64_bulk_opt h epoch top :
  hash_ok h epoch top 0 "" -> (top < 18446744073709551616)%N ->
  match as_u64 (bulk_opt (sfind "s" h)) with inr n => n | inl _ => 0%N end = top.
Proof.
  intros (_ & Hs & _) Ht. rewrite Hs. destruct (top =? 0)%N eqn:E.
  - apply N.eqb_eq in E. subst. reflexivity.
  - cbn [bulk_opt as_u64 to_str]. rewrite parse_u64_map_dec by assumption. reflexivity.
Qed.

Lemma rm_read_single_some cf st ch key rev_ h epoch top state :
  is_ephemeral cf = false ->
  hview st (k_meta ch) (Some h) -> hash_ok h epoch top 0 "" -> (top < BOUND)%N ->
  hview st (k_state ch) (match state with [] => None | _ => Some (map (enc_s epoch) state) end) ->
  has_char ":" epoch = false -> (forall kv, In kv state -> entry_ok (snd kv)) ->
  rm_read_single cf st ch key rev_ =
    (st, if rev_bad rev_ epoch then MUnrec else
         match sfind key state with
         | Some e => MState [spub_of (key, e)] top epoch
         | None => MState [] top epoch
         end).
Proof.
  intros Hep Hv Hh Ht Hs Hc Hent. unfold C18Stream.BOUND in Ht. unfold rm_read_single. rewrite Hep.
  rewrite (hget_v _ _ _ _ Hs), (hmget2_v _ _ _ _ _ Hv). cbn [hash_or_empty].
  assert (Hf : sfind key (hash_or_empty (match state with [] => None | _ => Some (map (enc_s epoch) state) end))
               = match sfind key state with Some e => Some (snd (enc_s epoch (key, e))) | None => None end).
  { destruct state as [|kv l]; [reflexivity|]. cbn [hash_or_empty]. apply sfind_enc_s. }
  rewrite Hf. clear Hf.
  destruct Hh as (He & Hs' & Hrest).
  assert (Hoff : match as_u64 (nth 0 [bulk_opt (sfind "s" h); bulk_opt (sfind "e" h)] RNil) with inr n => n | inl _ => 0%N end = top).
  { cbn [nth]. apply (as_u64_bulk_opt h epoch top); [repeat split; tauto | lia]. }
  destruct (sfind key state) as [e|] eqn:Ek.
  - cbn [bulk_opt]. cbn [to_str as_arr]. rewrite Hoff. cbn [nth]. rewrite He. cbn [bulk_opt to_str].
    unfold rev_bad. destruct (match rev_ with Some _ => _ | None => false end); [reflexivity|].
    unfold enc_s. cbn [fst snd]. unfold sval at 1. rewrite dec_app_nonempty.
    assert (Hin : In (key, e) state).
    { clear -Ek. induction state as [|[k' e'] l IH]; [discriminate|]. cbn [sfind] in Ek.
      destruct (String.eqb key k') eqn:E; [apply String.eqb_eq in E; injection Ek as <-; subst; left; reflexivity|].
      right. apply IH. exact Ek. }
    destruct (Hent _ Hin) as [H1 H2]. cbn [snd] in H1, H2.
    fold (sval (me_off e) epoch (pb key (me_data e) false (me_score e))).
    rewrite parse_sval by (assumption || lia). rewrite unpb_pb by assumption. reflexivity.
  - cbn [bulk_opt]. cbn [to_str as_arr]. rewrite Hoff. cbn [nth]. rewrite He. cbn [bulk_opt to_str].
    unfold rev_bad. destruct (match rev_ with Some _ => _ | None => false end); reflexivity.
Qed.

Lemma mm_read_state_some m ch c rev_ limit key nonce :
  sfind ch (mm_chans m) = Some c ->
  mm_read_state m ch rev_ limit key nonce =
    (m, if rev_bad rev_ (ch_epoch c) then MUnrec else
        if negb (String.eqb key "") then
          match sfind key (ch_state c) with
          | Some e => MState [spub_of (key, e)] (ch_top c) (ch_epoch c)
          | None => MState [] (ch_top c) (ch_epoch c)
          end
        else if (limit =? 0)%Z then MState [] (ch_top c) (ch_epoch c)
        else MState (map spub_of (sort_state (ch_state c))) (ch_top c) (ch_epoch c)).
Proof.
  intros Hf. unfold mm_read_state. rewrite Hf. cbn [chan_pos fst snd]. unfold rev_bad.
  destruct rev_ as [[ro re]|].
  - rewrite (String.eqb_sym (ch_epoch c) re). destruct (negb (String.eqb re (ch_epoch c))); [reflexivity|].
    destruct (negb (String.eqb key "")); [destruct (sfind key (ch_state c)); reflexivity|].
    destruct (limit =? 0)%Z; reflexivity.
  - destruct (negb (String.eqb key "")); [destruct (sfind key (ch_state c)); reflexivity|].
    destruct (limit =? 0)%Z; reflexivity.
Qed.

Lemma num_of_0 st : num_of "0" st = (st, inl 0%Z). Proof. reflexivity. Qed.

Lemma num_of_lim limit st : (limit < 2147483648)%Z ->
  num_of (lim_str limit) st = (st, inl (if (0 <? limit)%Z then limit else 0%Z)).
Proof.
  intros H. destruct (0 <? limit)%Z eqn:E.
  - apply Z.ltb_lt in E. rewrite lim_str_pos by assumption. rewrite num_of_dec by lia. rewrite Z2N.id by lia. reflexivity.
  - apply Z.ltb_ge in E. rewrite lim_str_nonpos by assumption. reflexivity.
Qed.

Definition smeta_cond (sth smh : option (list (string * string))) (epoch : string) : Prop :=
  (smh = None /\ hash_or_empty sth = []) \/ exists hs, smh = Some hs /\ sfind "epoch" hs = Some epoch.

Lemma hscan_v st k n oh : hview st k oh ->
  redis_call st ["hscan"; k; "0"; "COUNT"; n] = (st, RArr [RBulk "0"; RArr (flat_kv (hash_or_empty oh))]).
Proof. intros H. rewrite hscan0_call, (hview_get _ _ _ H). reflexivity. Qed.
Lemma hgetall_v st k oh : hview st k oh ->
  redis_call st ["hgetall"; k] = (st, RArr (flat_kv (hash_or_empty oh))).
Proof. intros H. rewrite hgetall_call, (hview_get _ _ _ H). reflexivity. Qed.
Lemma exists_v st k oh : hview st k oh ->
  redis_call st ["exists"; k] = (st, RInt (match oh with Some _ => 1 | None => 0 end)).
Proof.
  intros H. rewrite exists1_call. destruct oh as [h|]; [destruct H as [x H]; rewrite H | cbn in H; rewrite H]; reflexivity.
Qed.

Lemma ru_some st ch h epoch top sth smh limit nonce :
  hview st (k_meta ch) (Some h) -> hash_ok h epoch top 0 "" ->
  hview st (k_state ch) sth -> hview st (k_smeta ch) smh -> smeta_cond sth smh epoch -> (limit < 2147483648)%Z ->
  runM (sh_map_read_unordered [k_state ch; k_expire ch; k_meta ch; k_smeta ch] ["0"; lim_str limit; nonce; "0"; "0"; "0"]) st
  = (st, RArr [RBulk (dec top); RBulk epoch; RBulk "0"; RArr (flat_kv (hash_or_empty sth))]).
Proof.
  intros Hv (He & Hs & _) Hst Hsm Hc Hlim. unfold runM, sh_map_read_unordered. cbn [arg nth]. cbv zeta.
  unfold bindM at 1. rewrite (num_of_lim _ _ Hlim).
  unfold bindM at 1. rewrite num_of_0. unfold bindM at 1. rewrite num_of_0.
  change (String.eqb "0" "1") with false. cbn iota.
  rewrite k_meta_ne, k_smeta_ne, k_expire_ne. cbn [negb].
  rewrite !bind_assoc. rewrite bind_rc, (hget_v _ _ _ _ Hv). cbn [hash_or_empty]. rewrite He. cbn [bulk_opt]. cbn iota beta.
  rewrite !bind_assoc, bind_ret.
  rewrite !bind_assoc, bind_rc, (hget_v _ _ _ _ Hv). cbn [hash_or_empty]. rewrite Hs.
  assert (Hra : (0 <? limit)%Z = true -> redis_arg_of_num limit = Some (dec (Z.to_N limit))).
  { intros E. apply Z.ltb_lt in E. rewrite <- (redis_arg_of_num_small (Z.to_N limit)) by lia. rewrite Z2N.id by lia. reflexivity. }
  destruct (top =? 0)%N eqn:Etop; [apply N.eqb_eq in Etop; subst top; change (dec 0) with "0"|];
  (cbn [bulk_opt]; cbn iota beta;
  change (0 <? 0)%Z with false; cbn iota; rewrite !bind_assoc, bind_ret, bind_ret;
  rewrite !bind_assoc, bind_rc, (exists_v _ _ _ Hsm); cbn iota beta;
  destruct Hc as [[-> Hemp]|(hs & -> & Hep)];
  [ change (0 =? 0)%Z with true; cbn iota; unfold finish; rewrite Hemp; reflexivity
  | change (1 =? 0)%Z with false; cbn iota;
    rewrite !bind_assoc, bind_rc, (hget_v _ _ _ _ Hsm); cbn [hash_or_empty]; rewrite Hep; cbn [bulk_opt]; cbn iota beta;
    rewrite String.eqb_refl; rewrite bind_ret; rewrite bind_ret;
    destruct (0 <? limit)%Z eqn:E;
    [ rewrite E; unfold bindM at 1; unfold num_arg;
      rewrite (Hra eq_refl);
      unfold ret at 1; rewrite bind_rc, (hscan_v _ _ _ _ Hst); reflexivity
    | change (0 <? 0)%Z with false; cbn iota; rewrite bind_rc, (hgetall_v _ _ _ Hst); reflexivity ] ]).
Qed.

Lemma ru_none st ch limit nonce :
  getk st (k_meta ch) = None -> getk st (k_smeta ch) = None -> (limit < 2147483648)%Z ->
  runM (sh_map_read_unordered [k_state ch; k_expire ch; k_meta ch; k_smeta ch] ["0"; lim_str limit; nonce; "0"; "0"; "0"]) st
  = (setval st (k_meta ch) (VHash [("e", nonce)]), RArr [RBulk "0"; RBulk nonce; RBulk "0"; RArr []]).
Proof.
  intros Hv Hsm Hlim. unfold runM, sh_map_read_unordered. cbn [arg nth]. cbv zeta.
  unfold bindM at 1. rewrite (num_of_lim _ _ Hlim).
  unfold bindM at 1. rewrite num_of_0. unfold bindM at 1. rewrite num_of_0.
  change (String.eqb "0" "1") with false. cbn iota.
  rewrite k_meta_ne, k_smeta_ne, k_expire_ne. cbn [negb].
  rewrite !bind_assoc. rewrite bind_rc, (hget_none _ _ _ Hv). cbn iota beta.
  rewrite !bind_assoc, bind_rc, (hset1_none _ _ _ _ Hv). cbn iota beta. rewrite bind_ret.
  set (st1 := setval st (k_meta ch) (VHash [("e", nonce)])).
  assert (Hv1 : hview st1 (k_meta ch) (Some [("e", nonce)])) by apply hview_setval.
  assert (Hsm1 : hview st1 (k_smeta ch) None).
  { apply (hview_frame [k_meta ch] st); [apply frame_setval | notin | exact Hsm]. }
  rewrite !bind_assoc, bind_rc, (hget_v _ _ _ _ Hv1). cbn [hash_or_empty sfind String.eqb Ascii.eqb Bool.eqb bulk_opt]. cbn iota beta.
  change (0 <? 0)%Z with false. cbn iota. rewrite !bind_assoc, bind_ret, bind_ret.
  rewrite !bind_assoc, bind_rc, (exists_v _ _ _ Hsm1). cbn iota beta.
  reflexivity.
Qed.

Definition state_view (epoch : string) (state : list (string * mentry)) : option (list (string * string)) :=
  match state with [] => None | _ => Some (map (enc_s epoch) state) end.

Lemma state_view_hash epoch state : hash_or_empty (state_view epoch state) = map (enc_s epoch) state.
Proof. destruct state; reflexivity. Qed.

Lemma read_pages_S SC cf f st ch cursor limit rev_ nonce acc :
  read_pages SC cf (S f) st ch cursor limit rev_ nonce acc =
      let '(st', r) := ms_read_unordered SC [k_state ch; k_expire ch; k_meta ch; k_smeta ch]
                         [cursor; zdec (if (limit <? 0)%Z then 0%Z else limit); nonce; millis (mc_mttl cf);
                          if (0 <? mc_mttl cf)%Z then millis (mc_mttl cf) else "0";
                          if is_ephemeral cf then "1" else "0"] st in
      match as_arr r with
      | inl _ => (st', MErr)
      | inr l =>
          if Nat.ltb (List.length l) 4 then (st', MErr) else
          match as_u64 (nth 0 l RNil) with
          | inl PErr => (st', MErr)
          | o =>
              let off := match o with inr n => n | inl _ => 0%N end in
              let ep := match to_str (nth 1 l RNil) with inr s => s | inl _ => "" end in
              let next := match to_str (nth 2 l RNil) with inr s => s | inl _ => "" end in
              if match rev_ with Some (_, re) => negb (String.eqb re ep) | None => false end then (st', MUnrec) else
              let pubs := parse_state_kv (match as_arr (nth 3 l RNil) with inr d => d | inl _ => [] end) in
              if (String.eqb next "0" || String.eqb next "")%bool
              then (st', MState (sort_spubs (acc ++ pubs)) off ep)
              else read_pages SC cf f st' ch next limit rev_ nonce (acc ++ pubs)%list
          end
      end.
Proof. reflexivity. Qed.

Lemma read_pages_some cf st ch rev_ limit nonce h epoch top state smh :
  mc_mttl cf = 0%Z -> is_ephemeral cf = false ->
  hview st (k_meta ch) (Some h) -> hash_ok h epoch top 0 "" -> (top < BOUND)%N ->
  hview st (k_state ch) (state_view epoch state) -> hview st (k_smeta ch) smh ->
  smeta_cond (state_view epoch state) smh epoch ->
  has_char ":" epoch = false -> (forall kv, In kv state -> entry_ok (snd kv)) -> (limit < 2147483648)%Z ->
  read_pages map_shallow cf 50 st ch "0" limit rev_ nonce [] =
    (st, if rev_bad rev_ epoch then MUnrec else MState (map spub_of (sort_state state)) top epoch).
Proof.
  intros Hmt Hep Hv Hh Ht Hst Hsm Hc Hce Hent Hlim. unfold C18Stream.BOUND in Ht.
  rewrite read_pages_S. rewrite Hmt, Hep. change (0 <? 0)%Z with false. cbn iota. change (millis 0) with "0".
  fold (lim_str limit). cbn [ms_read_unordered map_shallow].
  rewrite (ru_some _ _ _ _ _ _ _ _ nonce Hv Hh Hst Hsm Hc Hlim).
  cbn [as_arr List.length Nat.ltb Nat.leb nth as_u64 to_str]. rewrite parse_u64_map_dec by lia.
  unfold rev_bad. destruct (match rev_ with Some _ => _ | None => false end); [reflexivity|].
  cbn [String.eqb Ascii.eqb Bool.eqb orb app].
  rewrite state_view_hash, parse_state_kv_enc by assumption. rewrite sort_spubs_map. reflexivity.
Qed.

Lemma read_pages_none cf st ch limit nonce :
  mc_mttl cf = 0%Z -> is_ephemeral cf = false ->
  getk st (k_meta ch) = None -> getk st (k_smeta ch) = None -> (limit < 2147483648)%Z ->
  read_pages map_shallow cf 50 st ch "0" limit None nonce [] =
    (setval st (k_meta ch) (VHash [("e", nonce)]), MState [] 0 nonce).
Proof.
  intros Hmt Hep Hv Hsm Hlim.
  rewrite read_pages_S. rewrite Hmt, Hep. change (0 <? 0)%Z with false. cbn iota. change (millis 0) with "0".
  fold (lim_str limit). cbn [ms_read_unordered map_shallow].
  rewrite (ru_none _ _ _ nonce Hv Hsm Hlim). reflexivity.
Qed.
