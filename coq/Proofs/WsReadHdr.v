(* C29 proofs: the header rules of the Go reader against the reference decoder's, by exhaustion of the
   decoded header fields (9 booleans x 16 opcodes x 128 length codes).  Separate file: the sweep takes
   about a minute. *)
From Coq Require Import String List NArith Bool Arith Lia ZifyN ZifyNat.
From Cfg Require Import Gen.WsConst Model.WsUtf8 Model.WsClose Model.WsFrame Model.WsRead Model.WsReadSpec Proofs.WsLib.
Import ListNotations.
Open Scope N_scope.

(* ---------------------------------------------------------------- header fields are small *)

Lemma opcode_lt : forall b0, b_opcode b0 < 16.
Proof.
  intro b0. unfold b_opcode. change 15 with (N.ones 4). rewrite N.land_ones. apply N.mod_lt. discriminate.
Qed.

Lemma len7_lt : forall b1, b_len7 b1 < 128.
Proof.
  intro b1. unfold b_len7. change 127 with (N.ones 7). rewrite N.land_ones. apply N.mod_lt. discriminate.
Qed.

(* ---------------------------------------------------------------- the header rules, by exhaustion of the
   decoded fields: 9 booleans x 16 opcodes x 128 length codes *)

Definition is_data_op (op : N) : bool := (op =? 0) || (op =? 1) || (op =? 2).
Definition is_ctl_op (op : N) : bool := (op =? 8) || (op =? 9) || (op =? 10).

Definition hdr_check (close1 compress server gfinal final rsv1 rsv2 rsv3 masked : bool) (op len7 : N) : bool :=
  let '(errs, fin') := header_errs_f compress server gfinal final rsv1 rsv2 rsv3 masked op len7 in
  let vs := filter (fun k => negb (go_lax close1 k))
                   (header_violations compress server (negb gfinal) final rsv1 rsv2 rsv3 masked op len7) in
  match errs, vs with
  | [], [] =>
      Bool.eqb masked server
      && (if is_control op
          then is_ctl_op op && negb (is_data_op op) && (len7 <=? 125) && final && Bool.eqb fin' gfinal
          else is_data_op op && negb (is_ctl_op op) && Bool.eqb fin' final
               && (if op =? 0 then negb gfinal else gfinal))
  | _ :: _, v :: _ =>
      negb (vkind_eqb v VMsgLen63)
      && match join sep_comma errs with [] => false | _ :: _ => true end
  | _, _ => false
  end.

Definition bools : list bool := [true; false].

Definition hdr_check_all : bool :=
  forallb (fun close1 => forallb (fun compress => forallb (fun server => forallb (fun gfinal =>
  forallb (fun final => forallb (fun rsv1 => forallb (fun rsv2 => forallb (fun rsv3 => forallb (fun masked =>
  forallb (fun op => forallb (fun len7 =>
     hdr_check close1 compress server gfinal final rsv1 rsv2 rsv3 masked op len7)
  (n_range 0 128)) (n_range 0 16)) bools) bools) bools) bools) bools) bools) bools) bools) bools.

Lemma hdr_check_all_true : hdr_check_all = true.
Proof. vm_compute. reflexivity. Qed.

Lemma in_bools : forall b, In b bools.
Proof. intros []; simpl; auto. Qed.

Lemma hdr_check_ok : forall close1 compress server gfinal final rsv1 rsv2 rsv3 masked op len7,
    op < 16 -> len7 < 128 ->
    hdr_check close1 compress server gfinal final rsv1 rsv2 rsv3 masked op len7 = true.
Proof.
  intros close1 compress server gfinal final rsv1 rsv2 rsv3 masked op len7 Hop Hlen.
  pose proof hdr_check_all_true as H. unfold hdr_check_all in H.
  rewrite forallb_forall in H. specialize (H close1 (in_bools close1)).
  rewrite forallb_forall in H. specialize (H compress (in_bools compress)).
  rewrite forallb_forall in H. specialize (H server (in_bools server)).
  rewrite forallb_forall in H. specialize (H gfinal (in_bools gfinal)).
  rewrite forallb_forall in H. specialize (H final (in_bools final)).
  rewrite forallb_forall in H. specialize (H rsv1 (in_bools rsv1)).
  rewrite forallb_forall in H. specialize (H rsv2 (in_bools rsv2)).
  rewrite forallb_forall in H. specialize (H rsv3 (in_bools rsv3)).
  rewrite forallb_forall in H. specialize (H masked (in_bools masked)).
  rewrite forallb_forall in H. specialize (H op (n_range_In 16 0 op ltac:(lia) ltac:(lia))).
  rewrite forallb_forall in H. specialize (H len7 (n_range_In 128 0 len7 ltac:(lia) ltac:(lia))).
  exact H.
Qed.

