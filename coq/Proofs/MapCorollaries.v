(* C20 named corollaries, proved on the model for every state. *)
From Coq Require Import List NArith ZArith Bool Lia Permutation.
From Cfg Require Import Model.MapHub Model.MapSpec Proofs.MapBase Proofs.MapRefine Proofs.MapRefine2
  Proofs.MapExpiry Proofs.MapExpiry2.
Import ListNotations.
Open Scope N_scope.

(* what a client can see of a channel *)
Definition items_at (h : hub) (i : N) : list pub :=
  match get_chan h i with Some c => s_items (c_stream c) | None => [] end.
Definition top_at (h : hub) (i : N) : N :=
  match get_chan h i with Some c => s_top (c_stream c) | None => 0 end.
(* an entry without its deadline *)
Definition vis_at (h : hub) (i : N) (k : key) : option (pub * N * N) :=
  match entry_at h i k with Some e => Some (e_pub e, e_ver e, e_vep e) | None => None end.

Definition unchanged (h h' : hub) : Prop :=
  h_bcast h' = h_bcast h /\
  (forall i, items_at h' i = items_at h i /\ top_at h' i = top_at h i) /\
  (forall i k, vis_at h' i k = vis_at h i k).

Lemma unchanged_refl : forall h, unchanged h h.
Proof. unfold unchanged; auto. Qed.
Lemma unchanged_trans : forall a b c, unchanged a b -> unchanged b c -> unchanged a c.
Proof.
  intros a b c (A1 & A2 & A3) (B1 & B2 & B3). unfold unchanged. splits.
  - congruence.
  - intro i. destruct (A2 i), (B2 i). split; congruence.
  - intros. rewrite B3, A3. reflexivity.
Qed.

Lemma get_chan_set_chan : forall h ch c i,
  get_chan (set_chan h ch c) i = if i =? ch then Some c else get_chan h i.
Proof.
  intros. unfold get_chan, set_chan, set_chans; simpl. destruct (i =? ch) eqn:E.
  - apply N.eqb_eq in E; subst. apply (aget_aset_same N.eqb N_eqb_eq').
  - apply N.eqb_neq in E. apply (aget_aset_other N.eqb N_eqb_eq'); auto.
Qed.

Lemma ensure_unchanged : forall cf h ch h1 c, add_ensure cf h ch = (h1, c) -> unchanged h h1 /\ same_entries h h1.
Proof.
  intros cf h ch h1 c H. destruct (ensure_frame _ _ _ _ _ H) as (SE & _ & _ & G1). split; auto.
  unfold add_ensure in H. destruct (get_chan h ch) as [c0|] eqn:G.
  - destruct (cf_ordered cf && negb (c_ordered c0)); inversion H; subst; clear H; [|apply unchanged_refl].
    unfold unchanged, items_at, top_at, vis_at. splits; auto.
    + intro i. rewrite get_chan_set_chan. destruct (i =? ch) eqn:E; auto. apply N.eqb_eq in E; subst. rewrite G. auto.
    + intros i k. rewrite SE. reflexivity.
  - inversion H; subst; clear H. unfold unchanged, items_at, top_at, vis_at. splits; auto.
    + intro i. change (get_chan (set_nep (set_chan h ch (new_chan (h_nep h) (cf_ordered cf))) (h_nep h + 1)) i)
        with (get_chan (set_chan h ch (new_chan (h_nep h) (cf_ordered cf))) i).
      rewrite get_chan_set_chan. destruct (i =? ch) eqn:E; auto. apply N.eqb_eq in E; subst. rewrite G. auto.
    + intros i k. rewrite SE. reflexivity.
Qed.

(* the reason returned by mapHub.add is the first failing check, in the order
   version, key mode, compare-and-swap *)
Lemma add_reason : forall cf h ch k o h1 c h' p pp r tp,
  add_ensure cf h ch = (h1, c) -> add cf h ch k o = (h', p, pp, r, tp) ->
  r = match decide_publish cf (s_epoch (c_stream c)) k o (aget key_eqb (c_state c) k) with Some r => r | None => RNone end.
Proof.
  intros cf h ch k o h1 c h' p pp r tp EN H. unfold add in H. rewrite EN in H.
  rewrite stale_spec, keymode_spec, cas_spec in H. unfold decide_publish, first_some.
  change (snd (chan_pos c)) with (s_epoch (c_stream c)) in H.
  destruct (chk_version cf k (po_ver o) (po_vep o) (aget key_eqb (c_state c) k)) as [r1|] eqn:CV.
  { apply chk_version_reason in CV. inversion H; subst. reflexivity. }
  destruct (chk_keymode k (po_mode o) (aget key_eqb (c_state c) k)) as [r2|] eqn:CK.
  { inversion H; subst. reflexivity. }
  destruct (chk_cas (s_epoch (c_stream c)) k (po_exp o) (aget key_eqb (c_state c) k)) as [r3|] eqn:CC.
  { apply chk_cas_reason in CC. inversion H; subst. reflexivity. }
  unfold add_commit in H.
  destruct (if has_stream (cf_mode cf)
            then let '(s', off) := stream_add (c_stream c) (fun off => mkPub k off (po_data o) (po_tags o) false (po_score o)) (cf_size cf) in (set_stream c s', (off, s_epoch s'))
            else (c, chan_pos c)) as [c1 p1].
  destruct (is_empty k); [inversion H; subst; reflexivity|].
  destruct (if po_ver o =? 0 then match aget key_eqb (c_state c) k with Some e => (e_ver e, e_vep e) | None => (0, po_vep o) end
            else (po_ver o, po_vep o)) as [ver vep].
  inversion H; subst; reflexivity.
Qed.

Lemma items_top_set_chan_other : forall h ch c i, i <> ch ->
  items_at (set_chan h ch c) i = items_at h i /\ top_at (set_chan h ch c) i = top_at h i.
Proof.
  intros. unfold items_at, top_at. rewrite get_chan_set_chan.
  assert (i =? ch = false) as -> by (apply N.eqb_neq; auto). auto.
Qed.

Lemma get_chan_track : forall h k d i, get_chan (track h k d) i = get_chan h i.
Proof. reflexivity. Qed.

Lemma touch_meta_view : forall h ch t,
  (forall i, get_chan (touch_meta h ch t) i = get_chan h i) /\ h_bcast (touch_meta h ch t) = h_bcast h /\
  (forall i k, entry_at (touch_meta h ch t) i k = entry_at h i k).
Proof. intros. unfold touch_meta. destruct (0 <? t); splits; reflexivity. Qed.
Lemma ret_touch_view : forall cf h ch,
  (forall i, get_chan (ret_touch cf h ch) i = get_chan h i) /\ h_bcast (ret_touch cf h ch) = h_bcast h /\
  (forall i k, entry_at (ret_touch cf h ch) i k = entry_at h i k).
Proof.
  intros. unfold ret_touch. destruct (has_stream (cf_mode cf)); [|splits; reflexivity].
  destruct (touch_meta_view (touch_stream h ch (cf_sttl cf)) ch (cf_mttl cf)) as (A & B & C).
  splits; intros; rewrite ?A, ?B, ?C; reflexivity.
Qed.
Lemma unchanged_view : forall h h',
  (forall i, get_chan h' i = get_chan h i) -> h_bcast h' = h_bcast h -> (forall i k, entry_at h' i k = entry_at h i k) ->
  unchanged h h'.
Proof.
  intros h h' G B E. unfold unchanged, items_at, top_at, vis_at. splits; auto.
  - intro i. rewrite G. auto.
  - intros. rewrite E. reflexivity.
Qed.
Lemma unchanged_touch_meta : forall h ch t, unchanged h (touch_meta h ch t).
Proof. intros. destruct (touch_meta_view h ch t) as (A & B & C). apply unchanged_view; auto. Qed.
Lemma unchanged_ret_touch : forall cf h ch, unchanged h (ret_touch cf h ch).
Proof. intros. destruct (ret_touch_view cf h ch) as (A & B & C). apply unchanged_view; auto. Qed.

Lemma unchanged_track : forall h k d, unchanged h (track h k d).
Proof. intros. unfold unchanged, items_at, top_at, vis_at; simpl. auto. Qed.

(* a suppressed mapHub.add changes nothing a client can see *)
Lemma add_suppressed : forall cf h ch k o h' p pp r tp,
  add cf h ch k o = (h', p, pp, r, tp) -> r <> RNone ->
  unchanged h h' /\ tp = None /\ p = (top_at h' ch, match get_chan h' ch with Some c => s_epoch (c_stream c) | None => 0 end) /\
  (r <> RKeyExists \/ po_refresh o = false -> same_entries h h').
Proof.
  intros cf h ch k o h' p pp r tp H NR. unfold add in H.
  destruct (add_ensure cf h ch) as [h1 c] eqn:EN.
  destruct (ensure_unchanged _ _ _ _ _ EN) as (U1 & SE1).
  destruct (ensure_frame _ _ _ _ _ EN) as (_ & _ & _ & G1).
  assert (P1 : chan_pos c = (top_at h1 ch, match get_chan h1 ch with Some c => s_epoch (c_stream c) | None => 0 end)).
  { unfold top_at. rewrite G1. reflexivity. }
  destruct (add_stale cf k o (aget key_eqb (c_state c) k)); [inversion H; subst; splits; auto|].
  rewrite keymode_spec in H.
  destruct (chk_keymode k (po_mode o) (aget key_eqb (c_state c) k)) as [r2|] eqn:CK.
  { inversion H; subst; clear H.
    destruct (chk_keymode_cases _ _ _ _ CK) as [[-> [e Ecur]]|[-> Ecur]]; rewrite ?Ecur.
    - destruct (po_refresh o && (0 <? cf_keyttl cf)) eqn:RF.
      + set (e' := mkEntry (e_pub e) (h_now h1 + cf_keyttl cf) (e_ver e) (e_vep e)).
        set (c' := set_entry_nodirty c (aset key_eqb (c_state c) k e')).
        assert (UP : upd h1 (set_chan h1 ch c') ch k (Some e')) by (apply (upd_set_chan_aset h1 ch c); auto).
        assert (U2 : unchanged h1 (track (set_chan h1 ch c') (ch, k) (h_now h1 + cf_keyttl cf))).
        { unfold unchanged. splits; auto.
          - intro i. unfold items_at, top_at. rewrite get_chan_track, get_chan_set_chan. destruct (i =? ch) eqn:E; auto. apply N.eqb_eq in E; subst. rewrite G1. auto.
          - intros i k'. unfold vis_at. change (entry_at (track (set_chan h1 ch c') (ch, k) (h_now h1 + cf_keyttl cf)) i k') with (entry_at (set_chan h1 ch c') i k').
            rewrite UP. destruct (ck_eqb (i, k') (ch, k)) eqn:E; auto.
            apply ck_eqb_eq in E. inversion E; subst. unfold entry_at. rewrite G1, Ecur. reflexivity. }
        destruct (touch_meta_view (track (set_chan h1 ch c') (ch, k) (h_now h1 + cf_keyttl cf)) ch (cf_mttl cf)) as (TG & TB & TE).
        splits; auto.
        * eapply unchanged_trans; [eapply unchanged_trans; eauto|apply unchanged_touch_meta].
        * unfold top_at. rewrite !TG, get_chan_track, get_chan_set_chan, N.eqb_refl. reflexivity.
        * intros [C|C]; [congruence|]. rewrite C in RF. discriminate.
      + splits; auto.
    - splits; auto. }
  destruct (if is_empty k then None else cas_check (snd (chan_pos c)) (po_exp o) (aget key_eqb (c_state c) k)).
  { inversion H; subst. splits; auto. }
  exfalso. unfold add_commit in H.
  destruct (if has_stream (cf_mode cf)
            then let '(s', off) := stream_add (c_stream c) (fun off => mkPub k off (po_data o) (po_tags o) false (po_score o)) (cf_size cf) in (set_stream c s', (off, s_epoch s'))
            else (c, chan_pos c)) as [c1 p1].
  destruct (is_empty k); [inversion H; subst; congruence|].
  destruct (if po_ver o =? 0 then match aget key_eqb (c_state c) k with Some e => (e_ver e, e_vep e) | None => (0, po_vep o) end
            else (po_ver o, po_vep o)) as [ver vep].
  inversion H; subst; congruence.
Qed.

Definition add_commit0 (cf : chcfg) (h1 : hub) (ch : N) (c : mchan) (k : key) (o : popts)
           (cur : option entry) (prev : option pub) : hub * pos * option pub * reason * option pub :=
  let mk := fun off => mkPub k off (po_data o) (po_tags o) false (po_score o) in
  let '(c1, p) :=
    if has_stream (cf_mode cf) then
      let '(s', off) := stream_add (c_stream c) mk (cf_size cf) in
      (set_stream c s', (off, s_epoch s'))
    else (c, chan_pos c) in
  let thepub := mk (if has_stream (cf_mode cf) || negb (is_empty k) then fst p else 0) in
  if is_empty k then (set_chan h1 ch c1, p, prev, RNone, Some thepub) else
  let d := if 0 <? cf_keyttl cf then h_now h1 + cf_keyttl cf else 0 in
  let '(ver, vep) :=
    if po_ver o =? 0 then match cur with Some e => (e_ver e, e_vep e) | None => (0, po_vep o) end
    else (po_ver o, po_vep o) in
  let c2 := set_state c1 (aset key_eqb (c_state c1) k (mkEntry thepub d ver vep)) in
  let h2 := set_chan h1 ch c2 in
  let h3 := if 0 <? cf_keyttl cf then track h2 (ch, k) d else h2 in
  (h3, p, prev, RNone, Some thepub).

Lemma add_commit_split : forall cf h1 ch c k o cur prev,
  add_commit cf h1 ch c k o cur prev =
  (let '(hR, p, pp, r, tp) := add_commit0 cf h1 ch c k o cur prev in (ret_touch cf hR ch, p, pp, r, tp)).
Proof.
  intros. unfold add_commit, add_commit0.
  destruct (has_stream (cf_mode cf)); [destruct (stream_add _ _ _)|];
    (destruct (is_empty k); [reflexivity|]);
    (destruct (if po_ver o =? 0 then _ else _)); reflexivity.
Qed.

(* an accepted mapHub.add on a stream-backed channel appends exactly one entry *)
Lemma add_accepted : forall cf h ch k o h' p pp tp,
  add cf h ch k o = (h', p, pp, RNone, tp) ->
  exists q, tp = Some q /\ h_bcast h' = h_bcast h /\
    (forall i, i <> ch -> items_at h' i = items_at h i /\ top_at h' i = top_at h i) /\
    (forall i k', (i, k') <> (ch, k) -> vis_at h' i k' = vis_at h i k') /\
    (k <> [] -> exists ver vep, vis_at h' ch k = Some (q, ver, vep)) /\
    p_key q = k /\ p_removed q = false /\ p_data q = po_data o /\
    (has_stream (cf_mode cf) = true ->
       p_off q = fst p /\ fst p = top_at h ch + 1 /\ top_at h' ch = fst p /\
       items_at h' ch = skipn (length (items_at h ch ++ [q]) - N.to_nat (cf_size cf)) (items_at h ch ++ [q])) /\
    (has_stream (cf_mode cf) = false -> items_at h' ch = items_at h ch /\ top_at h' ch = top_at h ch).
Proof.
  intros cf h ch k o h' p pp tp H. unfold add in H.
  destruct (add_ensure cf h ch) as [h1 c] eqn:EN.
  destruct (ensure_unchanged _ _ _ _ _ EN) as ((UB & UI & UV) & SE1).
  destruct (ensure_frame _ _ _ _ _ EN) as (_ & _ & _ & G1).
  assert (I1 : items_at h ch = s_items (c_stream c) /\ top_at h ch = s_top (c_stream c)).
  { destruct (UI ch) as (A & B). rewrite <- A, <- B. unfold items_at, top_at. rewrite G1. auto. }
  destruct I1 as (II & IT).
  destruct (add_stale cf k o (aget key_eqb (c_state c) k)); [discriminate|].
  destruct (add_keymode cf h1 ch c k o (aget key_eqb (c_state c) k)) as [[h2 r2]|] eqn:KM.
  { inversion H; subst. unfold add_keymode in KM. destruct (is_empty k); [discriminate|].
    destruct (po_mode o); try discriminate; destruct (aget key_eqb (c_state c) k); try discriminate.
    destruct (po_refresh o && (0 <? cf_keyttl cf)); inversion KM. }
  destruct (if is_empty k then None else cas_check (snd (chan_pos c)) (po_exp o) (aget key_eqb (c_state c) k)); [discriminate|].
  rewrite add_commit_split in H.
  destruct (add_commit0 cf h1 ch c k o (aget key_eqb (c_state c) k) (add_prev h ch k o)) as [[[[hR p0] pp0] r0] tp0] eqn:AC.
  inversion H; subst. clear H.
  destruct (ret_touch_view cf hR ch) as (VG & VB & VE).
  assert (TR : forall i, items_at (ret_touch cf hR ch) i = items_at hR i /\ top_at (ret_touch cf hR ch) i = top_at hR i) by (intro i; unfold items_at, top_at; rewrite VG; auto).
  assert (TV : forall i k', vis_at (ret_touch cf hR ch) i k' = vis_at hR i k') by (intros; unfold vis_at; rewrite VE; reflexivity).
  cut (exists q, tp = Some q /\ h_bcast hR = h_bcast h /\
    (forall i, i <> ch -> items_at hR i = items_at h i /\ top_at hR i = top_at h i) /\
    (forall i k', (i, k') <> (ch, k) -> vis_at hR i k' = vis_at h i k') /\
    (k <> [] -> exists ver vep, vis_at hR ch k = Some (q, ver, vep)) /\
    p_key q = k /\ p_removed q = false /\ p_data q = po_data o /\
    (has_stream (cf_mode cf) = true ->
       p_off q = fst p /\ fst p = top_at h ch + 1 /\ top_at hR ch = fst p /\
       items_at hR ch = skipn (length (items_at h ch ++ [q]) - N.to_nat (cf_size cf)) (items_at h ch ++ [q])) /\
    (has_stream (cf_mode cf) = false -> items_at hR ch = items_at h ch /\ top_at hR ch = top_at h ch)).
  { intros (q & A1 & A2 & A3 & A4 & A5 & A6 & A7 & A8 & A9 & A10). exists q.
    split; [exact A1|]. split; [congruence|].
    split; [intros i NE; destruct (TR i), (A3 i NE); split; congruence|].
    split; [intros i k' NE; rewrite TV; auto|].
    split; [intros KN; destruct (A5 KN) as (v1 & v2 & E); exists v1, v2; rewrite TV; exact E|].
    split; [exact A6|]. split; [exact A7|]. split; [exact A8|].
    split; [intros HS; destruct (A9 HS) as (B1 & B2 & B3 & B4); destruct (TR ch); splits; auto; congruence
           | intros HS; destruct (A10 HS) as (B1 & B2); destruct (TR ch); split; congruence]. }
  clear VG VB VE TR TV. rename hR into h'. rename AC into H.
  unfold add_commit0 in H.
  set (mk := fun off => mkPub k off (po_data o) (po_tags o) false (po_score o)) in *.
  assert (OTH : forall c2 hx, (forall i, get_chan hx i = get_chan (set_chan h1 ch c2) i) ->
             forall i, i <> ch -> items_at hx i = items_at h i /\ top_at hx i = top_at h i).
  { intros c2 hx GX i NE. destruct (UI i) as (A & B). rewrite <- A, <- B. unfold items_at, top_at. rewrite GX, get_chan_set_chan.
    assert (i =? ch = false) as -> by (apply N.eqb_neq; auto). auto. }
  destruct (has_stream (cf_mode cf)) eqn:HS.
  - unfold stream_add in H. simpl in H.
    set (q := mk (s_top (c_stream c) + 1)) in *.
    set (st' := {| s_top := s_top (c_stream c) + 1; s_epoch := s_epoch (c_stream c);
                   s_items := skipn (length (s_items (c_stream c) ++ [q]) - N.to_nat (cf_size cf)) (s_items (c_stream c) ++ [q]) |}) in *.
    destruct (is_empty k) eqn:EK.
    + inversion H; subst; clear H. exists q. splits; auto; try discriminate.
      * apply (OTH (set_stream c st')). auto.
      * intros i k' NE. rewrite <- UV. unfold vis_at.
        rewrite (same_entries_set_chan h1 ch c (set_stream c st') G1 eq_refl). reflexivity.
      * intro C. apply is_empty_true in EK. contradiction.
      * intros _. unfold top_at at 2, items_at at 1. rewrite !get_chan_set_chan, !N.eqb_refl. simpl. rewrite II, IT. splits; auto; lia.
    + destruct (if po_ver o =? 0 then match aget key_eqb (c_state c) k with Some e => (e_ver e, e_vep e) | None => (0, po_vep o) end
                else (po_ver o, po_vep o)) as [ver vep].
      set (d := if 0 <? cf_keyttl cf then h_now h1 + cf_keyttl cf else 0) in *.
      set (c2 := set_state (set_stream c st') (aset key_eqb (c_state (set_stream c st')) k (mkEntry q d ver vep))) in *.
      assert (UP : upd h1 (set_chan h1 ch c2) ch k (Some (mkEntry q d ver vep))) by (apply (upd_set_chan_aset h1 ch c); auto).
      assert (EQH : forall i k', entry_at h' i k' = entry_at (set_chan h1 ch c2) i k' /\ get_chan h' i = get_chan (set_chan h1 ch c2) i /\ h_bcast h' = h_bcast h1).
      { destruct (0 <? cf_keyttl cf); inversion H; subst; auto. }
      assert (TP : tp = Some q /\ p = (s_top (c_stream c) + 1, s_epoch (c_stream c))).
      { destruct (0 <? cf_keyttl cf); inversion H; subst; auto. }
      destruct TP as (-> & ->). exists q. splits; auto; try discriminate.
      * destruct (EQH 0 []) as (_ & _ & B). congruence.
      * apply (OTH c2). intro i. destruct (EQH i []) as (_ & B & _). exact B.
      * intros i k' NE. rewrite <- UV. unfold vis_at. destruct (EQH i k') as (A & _). rewrite A, UP.
        destruct (ck_eqb (i, k') (ch, k)) eqn:E; auto. apply ck_eqb_eq in E. contradiction.
      * intros _. exists ver, vep. unfold vis_at. destruct (EQH ch k) as (A & _). rewrite A, UP, ck_eqb_refl. reflexivity.
      * intros _. destruct (EQH ch []) as (_ & B & _). unfold top_at at 2, items_at at 1. rewrite !B, !get_chan_set_chan, !N.eqb_refl. simpl. rewrite II, IT. splits; auto; lia.
  - destruct (is_empty k) eqn:EK.
    + inversion H; subst; clear H. exists (mk 0). splits; auto; try discriminate.
      * apply (OTH c). auto.
      * intros i k' NE. rewrite <- UV. unfold vis_at. rewrite (same_entries_set_chan h1 ch c c G1 eq_refl). reflexivity.
      * intro C. apply is_empty_true in EK. contradiction.
      * intros _. unfold items_at at 1, top_at at 1. rewrite get_chan_set_chan, N.eqb_refl. split; congruence.
    + destruct (if po_ver o =? 0 then match aget key_eqb (c_state c) k with Some e => (e_ver e, e_vep e) | None => (0, po_vep o) end
                else (po_ver o, po_vep o)) as [ver vep].
      set (d := if 0 <? cf_keyttl cf then h_now h1 + cf_keyttl cf else 0) in *.
      set (q := mk (if false || negb false then fst (chan_pos c) else 0)) in *.
      set (c2 := set_state c (aset key_eqb (c_state c) k (mkEntry q d ver vep))) in *.
      assert (UP : upd h1 (set_chan h1 ch c2) ch k (Some (mkEntry q d ver vep))) by (apply (upd_set_chan_aset h1 ch c); auto).
      assert (EQH : forall i k', entry_at h' i k' = entry_at (set_chan h1 ch c2) i k' /\ get_chan h' i = get_chan (set_chan h1 ch c2) i /\ h_bcast h' = h_bcast h1).
      { destruct (0 <? cf_keyttl cf); inversion H; subst; auto. }
      assert (TP : tp = Some q) by (destruct (0 <? cf_keyttl cf); inversion H; subst; auto).
      subst tp. exists q. splits; auto; try discriminate.
      * destruct (EQH 0 []) as (_ & _ & B). congruence.
      * apply (OTH c2). intro i. destruct (EQH i []) as (_ & B & _). exact B.
      * intros i k' NE. rewrite <- UV. unfold vis_at. destruct (EQH i k') as (A & _). rewrite A, UP.
        destruct (ck_eqb (i, k') (ch, k)) eqn:E; auto. apply ck_eqb_eq in E. contradiction.
      * intros _. exists ver, vep. unfold vis_at. destruct (EQH ch k) as (A & _). rewrite A, UP, ck_eqb_refl. reflexivity.
      * intros _. unfold items_at at 1, top_at at 1. destruct (EQH ch []) as (_ & B & _). rewrite B, get_chan_set_chan, N.eqb_refl. simpl. split; congruence.
Qed.

Theorem publish_suppressed_unchanged : forall cfgs h ch k o h' p r cur,
  publish cfgs h ch k o = (h', URes p true r cur) ->
  unchanged h h' /\ (r <> RKeyExists \/ po_refresh o = false -> same_entries h h').
Proof.
  intros cfgs h ch k o h' p r cur H. unfold publish in H.
  destruct (cfg_of cfgs ch) as [cf|e]; [|discriminate].
  destruct (is_ephemeral (cf_mode cf) && match po_exp o with Some _ => true | None => false end); [discriminate|].
  destruct (is_ephemeral (cf_mode cf) && (0 <? po_ver o)); [discriminate|].
  destruct (if po_idem o =? 0 then None else idem_get h ch (po_idem o)).
  { inversion H; subst. split; [apply unchanged_refl | intros _; apply same_entries_refl]. }
  destruct (add cf h ch k o) as [[[[h1 p1] pp] r1] tp] eqn:AD.
  destruct r1; try (destruct (add_suppressed _ _ _ _ _ _ _ _ _ _ AD) as (A & B & C & D); [discriminate|];
                    inversion H; subst; split; auto; fail).
  destruct (add_accepted _ _ _ _ _ _ _ _ _ AD) as (q & -> & _). inversion H.
Qed.

Theorem publish_accepted : forall cfgs h ch k o h' p r cur cf,
  publish cfgs h ch k o = (h', URes p false r cur) -> cfg_of cfgs ch = CfgOk cf ->
  r = RNone /\ cur = None /\
  exists q prev,
    h_bcast h' = h_bcast h ++ [mkBc ch q p (po_delta o) prev] /\
    p_key q = k /\ p_removed q = false /\ p_data q = po_data o /\
    (forall i, i <> ch -> items_at h' i = items_at h i /\ top_at h' i = top_at h i) /\
    (forall i k', (i, k') <> (ch, k) -> vis_at h' i k' = vis_at h i k') /\
    (k <> [] -> exists ver vep, vis_at h' ch k = Some (q, ver, vep)) /\
    (has_stream (cf_mode cf) = true ->
       p_off q = fst p /\ fst p = top_at h ch + 1 /\ top_at h' ch = fst p /\
       items_at h' ch = skipn (length (items_at h ch ++ [q]) - N.to_nat (cf_size cf)) (items_at h ch ++ [q])) /\
    (has_stream (cf_mode cf) = false -> items_at h' ch = items_at h ch /\ top_at h' ch = top_at h ch).
Proof.
  intros cfgs h ch k o h' p r cur cf H CF. unfold publish in H. rewrite CF in H.
  destruct (is_ephemeral (cf_mode cf) && match po_exp o with Some _ => true | None => false end); [discriminate|].
  destruct (is_ephemeral (cf_mode cf) && (0 <? po_ver o)); [discriminate|].
  destruct (if po_idem o =? 0 then None else idem_get h ch (po_idem o)); [discriminate|].
  destruct (add cf h ch k o) as [[[[h1 p1] pp] r1] tp] eqn:AD.
  destruct r1; try discriminate.
  destruct (add_accepted _ _ _ _ _ _ _ _ _ AD) as (q & -> & B & C & D & E & F & G & I & J & K).
  inversion H; subst. splits; auto. exists q, pp.
  destruct (po_idem o =? 0); simpl; rewrite B; splits; auto.
Qed.

(* ------------------------------------------------------------------ remove *)
Lemma hremove_cases : forall cf h ch k o h' p pp r,
  hremove cf h ch k o = (h', p, pp, r) ->
  (r <> RNone /\ h' = h) \/
  (r = RNone /\ exists q e, pp = Some q /\ entry_at h ch k = Some e /\
     p_key q = k /\ p_removed q = true /\ h_bcast h' = h_bcast h /\
     (forall i, i <> ch -> items_at h' i = items_at h i /\ top_at h' i = top_at h i) /\
     (forall i k', entry_at h' i k' = if ck_eqb (i, k') (ch, k) then None else entry_at h i k') /\
     (has_stream (cf_mode cf) = true ->
        p_off q = fst p /\ fst p = top_at h ch + 1 /\ top_at h' ch = fst p /\
        items_at h' ch = skipn (length (items_at h ch ++ [q]) - N.to_nat (cf_size cf)) (items_at h ch ++ [q])) /\
     (has_stream (cf_mode cf) = false -> items_at h' ch = items_at h ch /\ top_at h' ch = top_at h ch)).
Proof.
  intros cf h ch k o h' p pp r H. unfold hremove in H.
  destruct (get_chan h ch) as [c|] eqn:G.
  2:{ left. destruct (ro_exp o); inversion H; subst; split; auto; discriminate. }
  destruct (cas_check (snd (chan_pos c)) (ro_exp o) (aget key_eqb (c_state c) k)).
  { left. inversion H; subst. split; auto; discriminate. }
  destruct (aget key_eqb (c_state c) k) as [e|] eqn:GE.
  2:{ left. inversion H; subst. split; auto; discriminate. }
  right.
  set (mk := fun off => mkPub k off 0 (match ro_tags o with Some t => Some t | None => p_tags (e_pub e) end) true 0%Z) in *.
  set (c1 := set_state c (adel key_eqb (c_state c) k)) in *.
  set (h1 := set_exp h (adel ck_eqb (h_kexp h) (ch, k)) (h_queue h) (h_next h)) in *.
  assert (ENT : entry_at h ch k = Some e) by (unfold entry_at; rewrite G; exact GE).
  assert (OTH : forall c2 i, i <> ch -> items_at (set_chan h1 ch c2) i = items_at h i /\ top_at (set_chan h1 ch c2) i = top_at h i).
  { intros c2 i NE. apply (items_top_set_chan_other h1 ch c2 i NE). }
  assert (UPD : forall c2, c_state c2 = adel key_eqb (c_state c) k ->
            forall i k', entry_at (set_chan h1 ch c2) i k' = if ck_eqb (i, k') (ch, k) then None else entry_at h i k').
  { intros c2 ST. apply (upd_set_chan_adel h1 ch c c2); auto. }
  destruct (has_stream (cf_mode cf)) eqn:HS.
  - unfold stream_add in H. simpl in H. inversion H; subst; clear H. split; auto.
    match goal with |- context [ret_touch cf ?x ch] => set (hR := x) end.
    destruct (ret_touch_view cf hR ch) as (VG & VB & VE).
    assert (TR : forall i, items_at (ret_touch cf hR ch) i = items_at hR i /\ top_at (ret_touch cf hR ch) i = top_at hR i) by (intro i; unfold items_at, top_at; rewrite VG; auto).
    exists (mk (s_top (c_stream c) + 1)), e.
    split; [reflexivity|]. split; [exact ENT|]. split; [reflexivity|]. split; [reflexivity|]. split; [rewrite VB; reflexivity|].
    split; [intros i NE; destruct (TR i) as (A & B); rewrite A, B; apply OTH; exact NE|].
    split; [intros i k'; rewrite VE; apply UPD; reflexivity|].
    split; [|intro; discriminate].
    intros _. destruct (TR ch) as (A & B). rewrite A, B. unfold hR. unfold top_at at 2, items_at at 1. rewrite !get_chan_set_chan, !N.eqb_refl. simpl.
    unfold top_at, items_at. rewrite G. splits; auto.
  - inversion H; subst; clear H. split; auto.
    exists (mk 0), e. splits; auto; try discriminate.
    intros _. unfold top_at at 1, items_at at 1. rewrite !get_chan_set_chan, !N.eqb_refl. simpl.
    unfold top_at, items_at. rewrite G. auto.
Qed.

Theorem remove_suppressed_unchanged : forall cfgs h ch k o h' p r cur,
  remove cfgs h ch k o = (h', URes p true r cur) -> h' = h.
Proof.
  intros cfgs h ch k o h' p r cur H. unfold remove in H.
  destruct (cfg_of cfgs ch) as [cf|e]; [|discriminate].
  destruct (is_ephemeral (cf_mode cf) && match ro_exp o with Some _ => true | None => false end); [discriminate|].
  destruct (if ro_idem o =? 0 then None else idem_get h ch (ro_idem o)); [inversion H; auto|].
  destruct (hremove cf h ch k o) as [[[h1 p1] pp] r1] eqn:RM.
  destruct (hremove_cases _ _ _ _ _ _ _ _ _ RM) as [(NR & ->)|(-> & q & e & -> & _)].
  - destruct r1; try congruence; inversion H; auto.
  - inversion H.
Qed.

Theorem remove_accepted : forall cfgs h ch k o h' p r cur cf,
  remove cfgs h ch k o = (h', URes p false r cur) -> cfg_of cfgs ch = CfgOk cf ->
  r = RNone /\ cur = None /\
  exists q e,
    h_bcast h' = h_bcast h ++ [mkBc ch q p false None] /\ entry_at h ch k = Some e /\
    p_key q = k /\ p_removed q = true /\
    (forall i, i <> ch -> items_at h' i = items_at h i /\ top_at h' i = top_at h i) /\
    (forall i k', entry_at h' i k' = if ck_eqb (i, k') (ch, k) then None else entry_at h i k') /\
    (has_stream (cf_mode cf) = true ->
       p_off q = fst p /\ fst p = top_at h ch + 1 /\ top_at h' ch = fst p /\
       items_at h' ch = skipn (length (items_at h ch ++ [q]) - N.to_nat (cf_size cf)) (items_at h ch ++ [q])) /\
    (has_stream (cf_mode cf) = false -> items_at h' ch = items_at h ch /\ top_at h' ch = top_at h ch).
Proof.
  intros cfgs h ch k o h' p r cur cf H CF. unfold remove in H. rewrite CF in H.
  destruct (is_ephemeral (cf_mode cf) && match ro_exp o with Some _ => true | None => false end); [discriminate|].
  destruct (if ro_idem o =? 0 then None else idem_get h ch (ro_idem o)); [discriminate|].
  destruct (hremove cf h ch k o) as [[[h1 p1] pp] r1] eqn:RM.
  destruct (hremove_cases _ _ _ _ _ _ _ _ _ RM) as [(NR & ->)|(-> & q & e & -> & B & C & D & E & F & G & I & J)].
  - destruct r1; try congruence; inversion H.
  - inversion H; subst. splits; auto. exists q, e.
    destruct (ro_idem o =? 0); simpl; rewrite E; splits; auto.
Qed.

(* check order, stated on the model: the suppress reason is decided by the
   first failing check of [version; key mode; compare-and-swap] *)
Theorem check_order : forall cf h ch k o h1 c h' p pp r tp,
  add_ensure cf h ch = (h1, c) -> add cf h ch k o = (h', p, pp, r, tp) ->
  let cur := aget key_eqb (c_state c) k in
  let ep := s_epoch (c_stream c) in
  (forall r1, chk_version cf k (po_ver o) (po_vep o) cur = Some r1 -> r = RVersion) /\
  (forall r2, chk_version cf k (po_ver o) (po_vep o) cur = None -> chk_keymode k (po_mode o) cur = Some r2 -> r = r2) /\
  (forall r3, chk_version cf k (po_ver o) (po_vep o) cur = None -> chk_keymode k (po_mode o) cur = None ->
              chk_cas ep k (po_exp o) cur = Some r3 -> r = RMismatch) /\
  (chk_version cf k (po_ver o) (po_vep o) cur = None -> chk_keymode k (po_mode o) cur = None ->
   chk_cas ep k (po_exp o) cur = None -> r = RNone).
Proof.
  intros cf h ch k o h1 c h' p pp r tp EN AD cur ep.
  pose proof (add_reason _ _ _ _ _ _ _ _ _ _ _ _ EN AD) as R. fold cur ep in R.
  unfold decide_publish, first_some in R. splits.
  - intros r1 E. rewrite E in R. apply chk_version_reason in E. congruence.
  - intros r2 E1 E2. rewrite E1, E2 in R. exact R.
  - intros r3 E1 E2 E3. rewrite E1, E2, E3 in R. apply chk_cas_reason in E3. congruence.
  - intros E1 E2 E3. rewrite E1, E2, E3 in R. exact R.
Qed.
