(* Proofs for C39: the model of MergePublications meets MergeSpec, and the
   decidable oracle merge_spec_b is sound and complete for MergeSpec. *)
From Coq Require Import List NArith Bool Lia ZifyN ZifyBool
     Sorting.Sorted Sorting.Permutation RelationClasses.
From Cfg Require Import Model.Merge Model.MergeSpec.
Import ListNotations.
Open Scope N_scope.

(* ------------------------------------------------------------------ *)
(* Generic boolean list helpers                                        *)

Lemma memN_In : forall x l, memN x l = true <-> In x l.
Proof.
  intros x l. unfold memN. rewrite existsb_exists. split.
  - intros [y [Hy He]]. apply N.eqb_eq in He. subst. exact Hy.
  - intros H. exists x. split; [exact H | apply N.eqb_refl].
Qed.

Lemma memN_false : forall x l, memN x l = false <-> ~ In x l.
Proof.
  intros x l. rewrite <- memN_In. destruct (memN x l); split; intros; congruence.
Qed.

Lemma existsb_false : forall (A : Type) (f : A -> bool) l,
  existsb f l = false <-> (forall x, In x l -> f x = false).
Proof.
  intros A f l. split.
  - intros H x Hx. destruct (f x) eqn:E; [|reflexivity].
    assert (existsb f l = true) by (apply existsb_exists; eauto). congruence.
  - intros H. destruct (existsb f l) eqn:E; [|reflexivity].
    apply existsb_exists in E. destruct E as [x [Hx Hf]].
    rewrite (H x Hx) in Hf. discriminate.
Qed.

Lemma forallb_false_ex : forall (A : Type) (f : A -> bool) l,
  forallb f l = false -> exists x, In x l /\ f x = false.
Proof.
  intros A f l. induction l as [|a l IH]; cbn; intros H.
  - discriminate.
  - destruct (f a) eqn:E.
    + cbn in H. destruct (IH H) as [x [Hx Hf]]. exists x. auto.
    + exists a. auto.
Qed.

(* ------------------------------------------------------------------ *)
(* nodupN and range_covered                                            *)

Lemma nodupN_In : forall x l, In x (nodupN l) <-> In x l.
Proof.
  intros x l. induction l as [|a l IH]; cbn; [tauto|].
  destruct (memN a l) eqn:E.
  - rewrite IH. apply memN_In in E. split; [auto|].
    intros [->|H]; auto.
  - cbn. rewrite IH. tauto.
Qed.

Lemma nodupN_NoDup : forall l, NoDup (nodupN l).
Proof.
  induction l as [|a l IH]; cbn; [constructor|].
  destruct (memN a l) eqn:E; [exact IH|].
  constructor; [|exact IH].
  rewrite nodupN_In. apply memN_false. exact E.
Qed.

Definition rangeN (lo hi : N) : list N :=
  map (fun i => lo + N.of_nat i) (seq 0 (N.to_nat (hi - lo))).

Lemma rangeN_In : forall lo hi x, In x (rangeN lo hi) <-> lo <= x /\ x < hi.
Proof.
  intros lo hi x. unfold rangeN. rewrite in_map_iff. split.
  - intros [i [<- Hi]]. apply in_seq in Hi. lia.
  - intros [H1 H2]. exists (N.to_nat (x - lo)). split; [lia|].
    apply in_seq. lia.
Qed.

Lemma rangeN_length : forall lo hi, length (rangeN lo hi) = N.to_nat (hi - lo).
Proof. intros. unfold rangeN. rewrite map_length, seq_length. reflexivity. Qed.

Lemma rangeN_NoDup : forall lo hi, NoDup (rangeN lo hi).
Proof.
  intros lo hi. unfold rangeN.
  apply FinFun.Injective_map_NoDup; [|apply seq_NoDup].
  intros a b H. lia.
Qed.

Lemma range_covered_spec : forall lo hi sk,
  range_covered lo hi sk = true <-> (forall o, lo <= o -> o < hi -> In o sk).
Proof.
  intros lo hi sk. unfold range_covered.
  destruct (hi <=? lo) eqn:Hle.
  - split; [|reflexivity]. intros _ o H1 H2. lia.
  - set (F := nodupN (filter (fun o => (lo <=? o) && (o <? hi)) sk)).
    assert (HF : forall x, In x F <-> In x sk /\ lo <= x /\ x < hi).
    { intros x. unfold F. rewrite nodupN_In, filter_In.
      rewrite andb_true_iff, N.leb_le, N.ltb_lt. tauto. }
    assert (HND : NoDup F) by apply nodupN_NoDup.
    assert (Hinc : incl F (rangeN lo hi)).
    { intros x Hx. apply rangeN_In. apply HF in Hx. tauto. }
    split.
    + intros Hlen o H1 H2.
      apply N.eqb_eq in Hlen.
      assert (Hinc' : incl (rangeN lo hi) F).
      { apply NoDup_length_incl; [exact HND| |exact Hinc].
        rewrite rangeN_length. lia. }
      assert (Ho : In o (rangeN lo hi)) by (apply rangeN_In; lia).
      apply Hinc' in Ho. apply HF in Ho. tauto.
    + intros H. apply N.eqb_eq.
      assert (Hinc' : incl (rangeN lo hi) F).
      { intros x Hx. apply rangeN_In in Hx. apply HF.
        split; [apply H; lia | lia]. }
      pose proof (NoDup_incl_length HND Hinc) as L1.
      pose proof (NoDup_incl_length (rangeN_NoDup lo hi) Hinc') as L2.
      rewrite rangeN_length in L1, L2. lia.
Qed.

(* Constructive witness when the range is not covered. *)
Lemma range_covered_false : forall lo hi sk,
  range_covered lo hi sk = false ->
  exists o, lo <= o /\ o < hi /\ ~ In o sk.
Proof.
  intros lo hi sk H.
  destruct (forallb (fun o => memN o sk) (rangeN lo hi)) eqn:E.
  - rewrite forallb_forall in E.
    assert (range_covered lo hi sk = true).
    { apply range_covered_spec. intros o H1 H2. apply memN_In. apply E.
      apply rangeN_In. lia. }
    congruence.
  - apply forallb_false_ex in E. destruct E as [o [Ho Hm]].
    apply rangeN_In in Ho. apply memN_false in Hm. exists o. tauto.
Qed.

(* ------------------------------------------------------------------ *)
(* isort: permutation and sortedness                                    *)

Lemma insert_perm : forall p l, Permutation (insert p l) (p :: l).
Proof.
  intros p l. induction l as [|q l IH]; cbn [insert]; [reflexivity|].
  destruct (p_off p <=? p_off q); [reflexivity|].
  rewrite IH. apply perm_swap.
Qed.

Lemma isort_perm : forall l, Permutation (isort l) l.
Proof.
  induction l as [|p l IH]; cbn [isort]; [reflexivity|].
  rewrite insert_perm. constructor. exact IH.
Qed.

Definition le_off (p q : pub) : Prop := p_off p <= p_off q.

Lemma insert_sorted : forall p l,
  StronglySorted le_off l -> StronglySorted le_off (insert p l).
Proof.
  intros p l. induction l as [|q l IH]; cbn [insert]; intros H.
  - constructor; constructor.
  - inversion H as [|? ? Hs Hf]; subst.
    destruct (p_off p <=? p_off q) eqn:E.
    + apply N.leb_le in E. constructor; [exact H|].
      constructor; [exact E|].
      eapply Forall_impl; [|exact Hf]. unfold le_off. intros a Ha. lia.
    + apply N.leb_gt in E. constructor; [apply IH; exact Hs|].
      eapply Permutation_Forall; [symmetry; apply insert_perm|].
      constructor; [unfold le_off; lia | exact Hf].
Qed.

Lemma isort_sorted : forall l, StronglySorted le_off (isort l).
Proof.
  induction l as [|p l IH]; cbn [isort]; [constructor|].
  apply insert_sorted. exact IH.
Qed.

(* ------------------------------------------------------------------ *)
(* Set-level facts about real_offs / marker_offs / max_off              *)

Lemma real_offs_In : forall x l,
  In x (real_offs l) <-> exists p, In p l /\ p_filt p = false /\ p_off p = x.
Proof.
  intros x l. unfold real_offs. rewrite in_map_iff. split.
  - intros [p [He Hp]]. apply filter_In in Hp. destruct Hp as [Hp Hf].
    exists p. rewrite negb_true_iff in Hf. auto.
  - intros [p [Hp [Hf He]]]. exists p. split; [exact He|].
    apply filter_In. rewrite Hf. auto.
Qed.

Lemma marker_offs_In : forall x l,
  In x (marker_offs l) <-> exists p, In p l /\ p_filt p = true /\ p_off p = x.
Proof.
  intros x l. unfold marker_offs. rewrite in_map_iff. split.
  - intros [p [He Hp]]. apply filter_In in Hp. destruct Hp as [Hp Hf].
    exists p. auto.
  - intros [p [Hp [Hf He]]]. exists p. split; [exact He|].
    apply filter_In. auto.
Qed.

Lemma real_offs_perm : forall l l' x,
  Permutation l l' -> (In x (real_offs l) <-> In x (real_offs l')).
Proof.
  intros l l' x HP. rewrite !real_offs_In.
  split; intros [p [Hp H]]; exists p; (split; [|exact H]).
  - eapply Permutation_in; eauto.
  - eapply Permutation_in; [symmetry|]; eauto.
Qed.

Lemma marker_offs_perm : forall l l' x,
  Permutation l l' -> (In x (marker_offs l) <-> In x (marker_offs l')).
Proof.
  intros l l' x HP. rewrite !marker_offs_In.
  split; intros [p [Hp H]]; exists p; (split; [|exact H]).
  - eapply Permutation_in; eauto.
  - eapply Permutation_in; [symmetry|]; eauto.
Qed.

Lemma max_off_perm : forall l l', Permutation l l' -> max_off l = max_off l'.
Proof.
  intros l l' HP. unfold max_off.
  induction HP; cbn [map fold_right]; try lia.
Qed.

(* ------------------------------------------------------------------ *)
(* uniq_go                                                              *)

Lemma uniq_go_spec : forall s keys maxo skipped l m sk,
  uniq_go s keys maxo skipped = (l, m, sk) ->
  sk = skipped ++ marker_offs s /\
  m = N.max maxo (max_off s) /\
  (forall p, In p l -> In p s /\ p_filt p = false /\ ~ In (p_off p) keys) /\
  (forall o, In o (real_offs s) -> ~ In o keys -> In o (map p_off l)) /\
  NoDup (map p_off l) /\
  (StronglySorted le_off s -> StronglySorted le_off l).
Proof.
  induction s as [|e s IH]; intros keys maxo skipped l m sk H; cbn [uniq_go] in H.
  - inversion H; subst. cbn. rewrite app_nil_r.
    repeat split; try (intros; contradiction); try constructor. lia.
  - set (maxo' := if maxo <? p_off e then p_off e else maxo) in H.
    assert (Hmax : forall t, N.max maxo' (max_off t) = N.max maxo (max_off (e :: t))).
    { intros t. unfold maxo', max_off. cbn [map fold_right].
      destruct (maxo <? p_off e) eqn:E; lia. }
    destruct (p_filt e) eqn:Hf.
    + apply IH in H. destruct H as (Hsk & Hm & Hl & Hr & Hnd & Hss).
      split; [|split; [|split; [|split; [|split]]]].
      * rewrite Hsk, <- app_assoc. unfold marker_offs. cbn [filter]. rewrite Hf.
        reflexivity.
      * rewrite Hm. apply Hmax.
      * intros p Hp. destruct (Hl p Hp) as (A & B & C). repeat split; auto.
        right; exact A.
      * intros o Ho Hk. apply Hr; [|exact Hk].
        unfold real_offs in *. cbn [filter] in Ho. rewrite Hf in Ho. exact Ho.
      * exact Hnd.
      * intros HS. inversion HS; subst. auto.
    + destruct (memN (p_off e) keys) eqn:Hk.
      * apply IH in H. destruct H as (Hsk & Hm & Hl & Hr & Hnd & Hss).
        apply memN_In in Hk.
        split; [|split; [|split; [|split; [|split]]]].
        -- rewrite Hsk. unfold marker_offs. cbn [filter]. rewrite Hf. reflexivity.
        -- rewrite Hm. apply Hmax.
        -- intros p Hp. destruct (Hl p Hp) as (A & B & C). repeat split; auto.
           right; exact A.
        -- intros o Ho Hnk. apply Hr; [|exact Hnk].
           unfold real_offs in *. cbn [filter] in Ho. rewrite Hf in Ho.
           cbn in Ho. destruct Ho as [<-|Ho]; [contradiction|exact Ho].
        -- exact Hnd.
        -- intros HS. inversion HS; subst. auto.
      * destruct (uniq_go s (p_off e :: keys) maxo' skipped) as [[l0 m0] sk0] eqn:E.
        inversion H; subst l m0 sk0. clear H.
        apply IH in E. destruct E as (Hsk & Hm & Hl & Hr & Hnd & Hss).
        apply memN_false in Hk.
        split; [|split; [|split; [|split; [|split]]]].
        -- rewrite Hsk. unfold marker_offs. cbn [filter]. rewrite Hf. reflexivity.
        -- rewrite Hm. apply Hmax.
        -- intros p [<-|Hp].
           ++ repeat split; auto. left; reflexivity.
           ++ destruct (Hl p Hp) as (A & B & C). repeat split; auto.
              ** right; exact A.
              ** intros Hc. apply C. right. exact Hc.
        -- intros o Ho Hnk. cbn [map].
           unfold real_offs in Ho. cbn [filter] in Ho. rewrite Hf in Ho.
           cbn in Ho. destruct Ho as [<-|Ho]; [left; reflexivity|].
           destruct (N.eq_dec (p_off e) o) as [->|Hne]; [left; reflexivity|].
           right. apply Hr; [exact Ho|]. intros [Hc|Hc]; auto.
        -- cbn [map]. constructor; [|exact Hnd].
           intros Hc. apply in_map_iff in Hc. destruct Hc as [p [He Hp]].
           destruct (Hl p Hp) as (_ & _ & C). apply C. left. symmetry. exact He.
        -- intros HS. inversion HS as [|? ? HS' HF]; subst.
           constructor; [auto|].
           rewrite Forall_forall in *. intros p Hp. apply HF.
           apply (Hl p Hp).
Qed.

Lemma le_nodup_lt : forall l,
  StronglySorted N.le l -> NoDup l -> StronglySorted N.lt l.
Proof.
  induction l as [|a l IH]; intros HS HN; [constructor|].
  inversion HS as [|? ? HS' HF]; subst. inversion HN as [|? ? Hni HN']; subst.
  constructor; [auto|].
  rewrite Forall_forall in *. intros x Hx.
  specialize (HF x Hx). assert (a <> x) by (intros ->; contradiction). lia.
Qed.

Lemma sorted_map_off : forall l,
  StronglySorted le_off l -> StronglySorted N.le (map p_off l).
Proof.
  induction l as [|a l IH]; intros H; cbn [map]; [constructor|].
  inversion H as [|? ? HS HF]; subst. constructor; [auto|].
  rewrite Forall_forall in *. intros x Hx. apply in_map_iff in Hx.
  destruct Hx as [p [<- Hp]]. apply HF. exact Hp.
Qed.

(* Everything we need about [uniq (isort all)]. *)
Lemma uniq_isort_spec : forall all l m sk,
  uniq (isort all) = (l, m, sk) ->
  StronglySorted N.lt (map p_off l) /\
  NoDup (map p_off l) /\
  (forall p, In p l -> p_filt p = false /\ In p all) /\
  (forall o, In o (map p_off l) <-> In o (real_offs all)) /\
  m = max_off all /\
  (forall o, In o sk <-> In o (marker_offs all)).
Proof.
  intros all l m sk H. unfold uniq in H. apply uniq_go_spec in H.
  destruct H as (Hsk & Hm & Hl & Hr & Hnd & Hss).
  pose proof (isort_perm all) as HP.
  split; [|split; [|split; [|split; [|split]]]].
  - apply le_nodup_lt; [|exact Hnd]. apply sorted_map_off. apply Hss.
    apply isort_sorted.
  - exact Hnd.
  - intros p Hp. destruct (Hl p Hp) as (A & B & _). split; [exact B|].
    eapply Permutation_in; eauto.
  - intros o. split.
    + intros Ho. apply in_map_iff in Ho. destruct Ho as [p [<- Hp]].
      destruct (Hl p Hp) as (A & B & _). apply real_offs_In. exists p.
      repeat split; auto. eapply Permutation_in; eauto.
    + intros Ho. apply Hr; [|intros []].
      eapply real_offs_perm; [|exact Ho]. exact HP.
  - rewrite Hm. rewrite (max_off_perm _ _ HP). lia.
  - intros o. rewrite Hsk. cbn [app]. apply marker_offs_perm. exact HP.
Qed.

(* ------------------------------------------------------------------ *)
(* gaps_ok                                                              *)

Lemma range_covered_nil : forall lo hi, lo < hi -> range_covered lo hi [] = false.
Proof.
  intros lo hi H. destruct (range_covered lo hi []) eqn:E; [|reflexivity].
  rewrite range_covered_spec in E. destruct (E lo); lia.
Qed.

(* One step of gaps_ok without the [skipped = []] shortcut. *)
Lemma gaps_ok_step : forall prev p l sk,
  prev < p_off p ->
  gaps_ok prev (p :: l) sk =
  (if p_off p =? prev + 1 then true else range_covered (prev + 1) (p_off p) sk)
  && gaps_ok (p_off p) l sk.
Proof.
  intros prev p l sk Hlt. cbn [gaps_ok].
  destruct (p_off p =? prev + 1) eqn:E; [reflexivity|].
  apply N.eqb_neq in E.
  destruct sk as [|s sk].
  - rewrite range_covered_nil by lia. reflexivity.
  - destruct (range_covered (prev + 1) (p_off p) (s :: sk)); reflexivity.
Qed.

Lemma gaps_true : forall l prev sk,
  StronglySorted N.lt (prev :: map p_off l) ->
  gaps_ok prev l sk = true ->
  forall a b o,
    In a (prev :: map p_off l) -> In b (prev :: map p_off l) ->
    a < o -> o < b ->
    (forall c, In c (prev :: map p_off l) -> ~ (a < c /\ c < b)) ->
    In o sk.
Proof.
  induction l as [|p l IH]; intros prev sk HS HG a b o Ha Hb Hao Hob Hnc.
  - cbn in Ha, Hb. destruct Ha as [<-|[]]. destruct Hb as [<-|[]]. lia.
  - cbn [map] in *.
    inversion HS as [|? ? HS' HF]; subst.
    pose proof HF as HF0. rewrite Forall_forall in HF0.
    assert (Hpp : prev < p_off p) by (apply HF0; left; reflexivity).
    rewrite gaps_ok_step in HG by exact Hpp.
    apply andb_true_iff in HG. destruct HG as [HG1 HG2].
    inversion HS' as [|? ? HS'' HF']; subst.
    rewrite Forall_forall in HF'.
    destruct Ha as [<-|Ha].
    + (* a = prev: then b = p_off p *)
      assert (Hbp : b = p_off p).
      { destruct Hb as [<-|[<-|Hb]]; [lia|reflexivity|].
        exfalso. apply (Hnc (p_off p)); [right; left; reflexivity|].
        specialize (HF' b Hb). lia. }
      subst b.
      destruct (p_off p =? prev + 1) eqn:E; [apply N.eqb_eq in E; lia|].
      rewrite range_covered_spec in HG1. apply HG1; lia.
    + assert (Hb' : In b (p_off p :: map p_off l)).
      { destruct Hb as [<-|Hb]; [|exact Hb]. exfalso.
        specialize (HF0 a Ha). lia. }
      apply (IH (p_off p) sk HS' HG2 a b o Ha Hb' Hao Hob).
      intros c Hc. apply Hnc. right. exact Hc.
Qed.

Lemma gaps_false : forall l prev sk,
  StronglySorted N.lt (prev :: map p_off l) ->
  gaps_ok prev l sk = false ->
  exists a b o,
    In a (prev :: map p_off l) /\ In b (prev :: map p_off l) /\
    a < o /\ o < b /\
    (forall c, In c (prev :: map p_off l) -> ~ (a < c /\ c < b)) /\
    ~ In o sk.
Proof.
  induction l as [|p l IH]; intros prev sk HS HG.
  - cbn in HG. discriminate.
  - cbn [map] in *.
    inversion HS as [|? ? HS' HF]; subst.
    pose proof HF as HF0. rewrite Forall_forall in HF0.
    assert (Hpp : prev < p_off p) by (apply HF0; left; reflexivity).
    rewrite gaps_ok_step in HG by exact Hpp.
    inversion HS' as [|? ? HS'' HF']; subst.
    rewrite Forall_forall in HF'.
    apply andb_false_iff in HG. destruct HG as [HG|HG].
    + destruct (p_off p =? prev + 1) eqn:E; [discriminate|].
      apply N.eqb_neq in E.
      apply range_covered_false in HG. destruct HG as [o [H1 [H2 H3]]].
      exists prev, (p_off p), o.
      split; [left; reflexivity|]. split; [right; left; reflexivity|].
      split; [lia|]. split; [lia|]. split; [|exact H3].
      intros c [<-|[<-|Hc]]; [lia|lia|]. specialize (HF' c Hc). lia.
    + destruct (IH (p_off p) sk HS' HG) as (a & b & o & Ha & Hb & Hao & Hob & Hnc & Hno).
      exists a, b, o.
      split; [right; exact Ha|]. split; [right; exact Hb|].
      split; [exact Hao|]. split; [exact Hob|]. split; [|exact Hno].
      intros c [<-|Hc]; [|apply Hnc; exact Hc].
      assert (p_off p <= a).
      { destruct Ha as [<-|Ha]; [lia|]. specialize (HF' a Ha). lia. }
      lia.
Qed.

(* ------------------------------------------------------------------ *)
(* Main theorem: the model meets the specification                      *)

Lemma merge_meets_spec : forall rec buf,
  let '(out, maxo, ok) := merge rec buf in MergeSpec rec buf out maxo ok.
Proof.
  intros rec buf. unfold merge.
  destruct buf as [|b0 buf'].
  - destruct (uniq (isort rec)) as [[l m] sk] eqn:E.
    apply uniq_isort_spec in E.
    unfold MergeSpec. rewrite app_nil_r. split.
    + split; [discriminate|]. intros [H _]. contradiction.
    + intros _. tauto.
  - set (buf := b0 :: buf').
    destruct (uniq (isort (rec ++ buf))) as [[l m] sk] eqn:E.
    apply uniq_isort_spec in E.
    destruct E as (Hss & Hnd & Hin & Hoffs & Hm & Hsk).
    assert (Hgood : ~ Hole (rec ++ buf) -> MergeSpec rec buf l m true).
    { intros HnH. unfold MergeSpec. split.
      - split; [discriminate|]. intros [_ H]. contradiction.
      - intros _. tauto. }
    destruct l as [|p0 [|p1 r]].
    + apply Hgood. intros (a & b & o & Ha & Hb & _).
      apply Hoffs in Ha. contradiction.
    + apply Hgood. intros (a & b & o & Ha & Hb & Hao & Hob & _).
      apply Hoffs in Ha. apply Hoffs in Hb. cbn in Ha, Hb.
      destruct Ha as [<-|[]]. destruct Hb as [<-|[]]. lia.
    + cbn [tl].
      destruct (gaps_ok (p_off p0) (p1 :: r) sk) eqn:G.
      * apply Hgood. intros (a & b & o & Ha & Hb & Hao & Hob & Hnc & Hno).
        apply Hno. apply Hsk.
        apply (gaps_true (p1 :: r) (p_off p0) sk Hss G a b o);
          try (apply Hoffs; assumption); try assumption.
        intros c Hc. apply Hnc. apply Hoffs. exact Hc.
      * unfold MergeSpec. split; [|discriminate].
        split; [|reflexivity]. intros _. split; [discriminate|].
        destruct (gaps_false (p1 :: r) (p_off p0) sk Hss G)
          as (a & b & o & Ha & Hb & Hao & Hob & Hnc & Hno).
        exists a, b, o. repeat split; auto.
        -- apply Hoffs. exact Ha.
        -- apply Hoffs. exact Hb.
        -- intros c Hc. apply Hnc. apply Hoffs. exact Hc.
        -- intros Hc. apply Hno. apply Hsk. exact Hc.
Qed.

(* ------------------------------------------------------------------ *)
(* The decidable oracle                                                 *)

Lemma hole_b_spec : forall all, hole_b all = true <-> Hole all.
Proof.
  intros all. unfold hole_b, Hole. split.
  - intros H. apply existsb_exists in H. destruct H as [a [Ha H]].
    apply existsb_exists in H. destruct H as [b [Hb H]].
    rewrite !andb_true_iff, !negb_true_iff in H. destruct H as [[Hab Hnc] Hrc].
    apply N.ltb_lt in Hab.
    apply range_covered_false in Hrc. destruct Hrc as [o [H1 [H2 H3]]].
    exists a, b, o. repeat split; auto; try lia.
    intros c Hc Hbt. rewrite existsb_false in Hnc. specialize (Hnc c Hc).
    cbn beta in Hnc. lia.
  - intros (a & b & o & Ha & Hb & Hao & Hob & Hnc & Hno).
    apply existsb_exists. exists a. split; [exact Ha|].
    apply existsb_exists. exists b. split; [exact Hb|].
    rewrite !andb_true_iff, !negb_true_iff. repeat split.
    + apply N.ltb_lt. lia.
    + apply existsb_false. intros c Hc. specialize (Hnc c Hc). cbn beta. lia.
    + destruct (range_covered (a + 1) b (marker_offs all)) eqn:E; [|reflexivity].
      rewrite range_covered_spec in E. exfalso. apply Hno. apply E; lia.
Qed.

Lemma strict_sorted_spec : forall l,
  strict_sorted l = true <-> StronglySorted N.lt l.
Proof.
  intros l. split.
  - intros H. apply Sorted_StronglySorted; [exact N.lt_strorder.(StrictOrder_Transitive)|].
    induction l as [|a l IH]; [constructor|].
    destruct l as [|b t].
    + constructor; constructor.
    + cbn [strict_sorted] in H. apply andb_true_iff in H. destruct H as [H1 H2].
      constructor; [apply IH; exact H2|]. constructor. apply N.ltb_lt. exact H1.
  - intros H. apply StronglySorted_Sorted in H.
    induction l as [|a l IH]; [reflexivity|].
    destruct l as [|b t]; [reflexivity|].
    inversion H as [|? ? HS HR]; subst. inversion HR; subst.
    cbn [strict_sorted]. apply andb_true_iff. split.
    + apply N.ltb_lt. assumption.
    + apply IH. exact HS.
Qed.

Lemma pub_eqb_eq : forall p q, pub_eqb p q = true <-> p = q.
Proof.
  intros [o1 f1 i1] [o2 f2 i2]. unfold pub_eqb. cbn [p_off p_filt p_id].
  rewrite !andb_true_iff, !N.eqb_eq, eqb_true_iff. split.
  - intros [[-> ->] ->]. reflexivity.
  - intros H. inversion H. auto.
Qed.

Lemma lt_sorted_NoDup : forall l, StronglySorted N.lt l -> NoDup l.
Proof.
  induction l as [|a l IH]; intros H; [constructor|].
  inversion H as [|? ? HS HF]; subst. constructor; [|auto].
  rewrite Forall_forall in HF. intros Hc. specialize (HF a Hc). lia.
Qed.

Lemma buf_nonempty_b : forall buf : list pub,
  (match buf with [] => false | _ => true end) = true <-> buf <> [].
Proof. intros [|b buf]; split; intros; congruence. Qed.

Lemma hole_cond : forall rec buf,
  ((match buf with [] => false | _ => true end) && hole_b (rec ++ buf)) = true
  <-> (buf <> [] /\ Hole (rec ++ buf)).
Proof.
  intros. rewrite andb_true_iff, buf_nonempty_b, hole_b_spec. tauto.
Qed.

Lemma merge_spec_b_sound : forall rec buf out maxo ok,
  merge_spec_b rec buf out maxo ok = true -> MergeSpec rec buf out maxo ok.
Proof.
  intros rec buf out maxo ok H. unfold merge_spec_b in H.
  pose proof (hole_cond rec buf) as HC.
  destruct ((match buf with [] => false | _ => true end) && hole_b (rec ++ buf)).
  - apply negb_true_iff in H. subst ok. unfold MergeSpec. split.
    + split; [intros _; apply HC; reflexivity | reflexivity].
    + discriminate.
  - rewrite !andb_true_iff in H. destruct H as [[[[Hok Hss] Hfa] Hsub] Hmax].
    subst ok. apply strict_sorted_spec in Hss. apply N.eqb_eq in Hmax.
    rewrite forallb_forall in Hfa. unfold subsetN in Hsub.
    rewrite forallb_forall in Hsub.
    assert (Hp : forall p, In p out -> p_filt p = false /\ In p (rec ++ buf)).
    { intros p Hp. specialize (Hfa p Hp). apply andb_true_iff in Hfa.
      destruct Hfa as [Hf He]. apply negb_true_iff in Hf. split; [exact Hf|].
      apply existsb_exists in He. destruct He as [q [Hq He]].
      apply pub_eqb_eq in He. subst q. exact Hq. }
    unfold MergeSpec. split.
    + split; [discriminate|]. intros Hc. apply HC in Hc. discriminate.
    + intros _. split; [exact Hss|]. split; [apply lt_sorted_NoDup; exact Hss|].
      split; [exact Hp|]. split; [|exact Hmax].
      intros o. split.
      * intros Ho. apply in_map_iff in Ho. destruct Ho as [p [<- Hin]].
        destruct (Hp p Hin) as [Hf Ha]. apply real_offs_In. exists p. auto.
      * intros Ho. apply memN_In. apply Hsub. exact Ho.
Qed.

Lemma merge_spec_b_complete : forall rec buf out maxo ok,
  MergeSpec rec buf out maxo ok -> merge_spec_b rec buf out maxo ok = true.
Proof.
  intros rec buf out maxo ok [Hfail Hok]. unfold merge_spec_b.
  pose proof (hole_cond rec buf) as HC.
  destruct ((match buf with [] => false | _ => true end) && hole_b (rec ++ buf)).
  - apply negb_true_iff. apply Hfail. apply HC. reflexivity.
  - destruct ok.
    2:{ apply proj1 in Hfail. specialize (Hfail eq_refl). apply HC in Hfail.
        discriminate. }
    destruct (Hok eq_refl) as (Hss & _ & Hp & Hoffs & Hmax).
    rewrite !andb_true_iff. repeat split.
    + apply strict_sorted_spec. exact Hss.
    + apply forallb_forall. intros p Hin. destruct (Hp p Hin) as [Hf Ha].
      rewrite Hf. cbn [negb andb]. apply existsb_exists. exists p.
      split; [exact Ha | apply pub_eqb_eq; reflexivity].
    + unfold subsetN. apply forallb_forall. intros o Ho. apply memN_In.
      apply Hoffs. exact Ho.
    + apply N.eqb_eq. exact Hmax.
Qed.
