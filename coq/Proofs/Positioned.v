(* C01: invariant of the Positioned transition system and the property theorems.
   Everything is proved for ALL schedules (lists of labels), i.e. all interleavings of
   the subscribe thread, the delivery thread, the unsubscribe threads, publishes and
   PUB/SUB faults (drop / duplicate / reorder-delay = arbitrary choice of the token to
   deliver / lag flag / history clear / epoch reset). *)
From Coq Require Import List NArith Bool Lia ZifyN ZifyNat ZifyBool Sorting.Sorted.
From Cfg Require Import Model.Merge Model.MergeSpec Proofs.Merge Model.Positioned Model.PositionedSpec Proofs.PositionedLib.
Import ListNotations.
Open Scope N_scope.

(* ------------------------------------------------------------------ *)
(* tactics                                                              *)

Ltac unf := unfold set_fl, set_broker, set_ps, set_hub, set_ch, set_closed, set_pc, set_dl, set_up, set_pending, set_cw in *.

Ltac break_step H :=
  repeat (match type of H with
          | context [match ?x with _ => _ end] =>
              match x with
              | context [match _ with _ => _ end] => fail 1
              | _ => destruct x eqn:?
              end
          end; try discriminate H).

Lemma in_remove_nth : forall (A : Type) i (l : list A) x, In x (remove_nth i l) -> In x l.
Proof.
  induction i as [|i IH]; intros l x H; destruct l as [|a l]; cbn [remove_nth] in H; try contradiction.
  - right. exact H.
  - destruct H as [<-|H]; [left; reflexivity|right; apply IH; exact H].
Qed.

Lemma in_lastn : forall (A : Type) n (l : list A) x, In x (lastn n l) -> In x l.
Proof.
  intros A n l. induction l as [|a l IH]; intros x H; cbn [lastn] in H.
  - destruct (Nat.leb _ _); exact H.
  - destruct (Nat.leb (length (a :: l)) n); [exact H|]. right. apply IH. exact H.
Qed.


Lemma dl_idle_true : forall s, dl_idle s = true -> dl s = DIdle.
Proof. intros s H. unfold dl_idle in H. destruct (dl s); try discriminate; reflexivity. Qed.
Lemma up_idle_true : forall s, up_idle s = true -> up s = UIdle.
Proof. intros s H. unfold up_idle in H. destruct (up s); [reflexivity|discriminate|discriminate]. Qed.

Ltac inv_some H := inversion H; subst; clear H.

Ltac boolfix :=
  repeat match goal with
  | H : negb _ = true |- _ => apply negb_true_iff in H
  | H : negb _ = false |- _ => apply negb_false_iff in H
  | H : (_ && _)%bool = true |- _ => apply andb_true_iff in H; destruct H
  | H : (_ || _)%bool = false |- _ => apply orb_false_iff in H; destruct H
  | H : dl_idle _ = true |- _ => apply dl_idle_true in H
  | H : up_idle _ = true |- _ => apply up_idle_true in H
  end.

Ltac sc :=
  try assumption; intros;
  repeat match goal with
   | H : In _ (_ ++ _) |- _ => apply in_app_or in H; destruct H
   | H : In _ [_] |- _ => destruct H as [H|[]]
   | H : In _ [] |- _ => destruct H
   | H : In _ (remove_nth _ _) |- _ => apply in_remove_nth in H
   | H : In _ (lastn _ _) |- _ => apply in_lastn in H
   | H : TPub _ = TPub _ |- _ => inversion H; subst; clear H
   | H : DPub _ _ _ = DPub _ _ _ |- _ => inversion H; subst; clear H
   | H : Sub _ _ = Sub _ _ |- _ => inversion H; subst; clear H
   | H : SHist _ = SHist _ |- _ => inversion H; subst; clear H
   end;
  subst;
  try discriminate; try congruence;
  try (apply in_or_app; (left; eauto; fail) || (right; left; reflexivity));
  try (split; [apply in_or_app; left; eapply proj1; eauto | eapply proj2; eauto]; fail);
  eauto.

(* ------------------------------------------------------------------ *)
(* emit / emits                                                         *)

Definition with_log (s : st) (l : list frame) : st :=
  mkSt (b_ep s) (b_top s) (b_items s) (b_fresh s) (g_log s) (fl s) (ps_entry s) (ps_insub s) (ps_locked s)
       (ps_buf s) (hub s) (ch s) (closed s) (pc s) (dl s) (up s) (pending s) (cleanup s) (g_pos s) l (cw s).

Lemma with_log_id : forall s, with_log s (log s) = s.
Proof. destruct s; reflexivity. Qed.

Lemma emit_eq : forall s f, emit s f = if closed s then s else with_log s (log s ++ [f]).
Proof. reflexivity. Qed.

Lemma emits_eq : forall fs s, emits s fs = if closed s then s else with_log s (log s ++ fs).
Proof.
  induction fs as [|f fs IH]; intros s; cbn [emits].
  - rewrite app_nil_r, with_log_id. destruct (closed s); reflexivity.
  - rewrite IH, emit_eq. destruct (closed s) eqn:E; [rewrite E; reflexivity|].
    cbn [with_log closed log]. rewrite E. unfold with_log; cbn. rewrite <- app_assoc. reflexivity.
Qed.

(* ------------------------------------------------------------------ *)
(* invariant                                                            *)

Definition pc_res (p : spc) : option subres :=
  match p with SMerged r | SReplied r | SSrvCommitted r => Some r | _ => None end.
Definition pre_start (p : spc) : bool :=
  match p with SReplied _ | SCommitted | SSrvStop | SDone => false | _ => true end.
Definition in_window (p : spc) : bool :=
  match p with
  | SBuffering | SHubAdded | SHist _ | SMerged _ | SReplied _ | SCommitted
  | SSrvCommitted _ | SSrvStop | SFailStop => true
  | _ => false
  end.
Definition before_hub (p : spc) : bool :=
  match p with SIdle | SReserved | SBuffering => true | _ => false end.

Definition bound (s : st) : N := match pc s with SReplied r => r_pos r | _ => g_pos s end.
Definition pend (s : st) : option N :=
  match dl s with
  | DPub p _ PEnq => if po p =? 0 then None else Some (po p)
  | _ => None
  end.

Definition res_ok' (c : cfg) (glog : list pubT) (r : subres) : Prop :=
  res_ok glog r /\
  (r_recovered r = false -> r_pubs r = []) /\
  (r_recovered r = true -> c_rec c = true).

Definition RecvInv (s : st) : Prop :=
  forall p0 r, recv (log s) = Some (p0, r) ->
    StronglySorted N.lt (p0 :: r) /\
    Forall (fun o => o <= bound s) r /\ p0 <= bound s /\
    (forall o, In o r -> In o (published_real (g_log s))) /\
    (forall o, p0 < o -> o <= bound s ->
               In o r \/ In o (withheld (g_log s)) \/ pend s = Some o) /\
    (forall o, pend s = Some o -> o = bound s /\ p0 < o /\ Forall (fun x => x < o) r).

(* structural part: who may be where *)
Record SInv (c : cfg) (s : st) : Prop := {
  i_fl : forall p, In (TPub p) (fl s) -> In p (g_log s);
  i_buf : forall p, In p (ps_buf s) -> In p (g_log s);
  i_items : forall p, In p (b_items s) -> In p (g_log s);
  i_dl : forall p lag ph, dl s = DPub p lag ph -> In p (g_log s) /\ (ph = PEnq -> pf p = false);
  i_hist : forall h, pc s = SHist h -> (forall p, In p (h_pubs h) -> In p (g_log s)) /\ hist_wf c h;
  i_prestart : pre_start (pc s) = true -> has_start (log s) = false;
  i_entry_insub : ps_entry s = true -> ps_insub s = true;
  i_entry_pc : c_pos c = true -> in_window (pc s) = true -> ps_entry s = true;
  i_cw_nostart : has_start (cw s) = false;
  i_cw_nil : c_batch c = false -> cw s = [];
  i_entry_dl : ps_entry s = true -> forall p lag ph, dl s = DPub p lag ph ->
               ph = PSync \/ (ph = PEnq /\ po p = 0);
  i_dl_hub : dl s <> DIdle -> hub s = true;
  i_hub_pc : hub s = true -> before_hub (pc s) = false;
  i_pos : forall pos pep, ch s = Sub pos pep -> pos = g_pos s;
  i_mark : dl s = DMark -> ps_entry s = false
}.

Lemma sinv_init : forall c, SInv c init.
Proof.
  intros c. constructor; cbn; intros; try contradiction; try discriminate; try congruence; auto.
Qed.

Lemma check_pub_fields : forall c s p lag,
  let s' := check_pub c s p lag in
  b_ep s' = b_ep s /\ b_top s' = b_top s /\ b_items s' = b_items s /\ g_log s' = g_log s /\
  fl s' = fl s /\ ps_entry s' = ps_entry s /\ ps_insub s' = ps_insub s /\ ps_buf s' = ps_buf s /\
  hub s' = hub s /\ closed s' = closed s /\ pc s' = pc s /\ up s' = up s /\ log s' = log s /\
  cleanup s' = cleanup s /\ ps_locked s' = ps_locked s /\ cw s' = cw s.
Proof.
  intros c s p lag. unfold check_pub.
  repeat match goal with |- context [match ?x with _ => _ end] => destruct x eqn:? end;
    unf; cbn; repeat split; reflexivity.
Qed.

Lemma check_pub_dl : forall c s p lag,
  dl (check_pub c s p lag) = DIdle \/
  (dl (check_pub c s p lag) = DPub p lag PEnq /\ pf p = false).
Proof.
  intros c s p lag. unfold check_pub.
  repeat match goal with |- context [match ?x with _ => _ end] => destruct x eqn:? end;
    unf; cbn; auto.
Qed.

Lemma check_pub_pos : forall c s p lag pos pep,
  (forall pos pep, ch s = Sub pos pep -> pos = g_pos s) ->
  ch (check_pub c s p lag) = Sub pos pep -> pos = g_pos (check_pub c s p lag).
Proof.
  intros c s p lag pos pep I. unfold check_pub.
  destruct (ch s) as [| |pos0 pep0] eqn:Hch; try (unf; cbn; rewrite Hch; discriminate).
  pose proof (I pos0 pep0 eq_refl) as I0. clear I.
  repeat match goal with |- context [match ?x with _ => _ end] => destruct x eqn:? end;
    unf; cbn; try rewrite Hch; intros H; try discriminate; try (inv_some H; reflexivity);
    try (inv_some H; exact I0).
Qed.

Lemma sinv_step : forall c s l s', SInv c s -> step c s l = Some s' -> SInv c s'.
Proof.
  intros c s l s' I H.
  destruct l; unfold step in H; break_step H; inv_some H; boolfix.
  all: destruct I as [Ifl Ibuf Iitems Idl Ihist Ipre Iei Iep Icws Icwn Ied Idh Ihp Ipos Imk].
  all: try match goal with E : pc _ = _ |- _ => rewrite E in Ipre, Iep, Ihp; cbn [pre_start in_window before_hub] in Ipre, Iep, Ihp end.
  all: unfold emit_push; repeat match goal with |- context [if c_batch ?c0 then _ else _] => destruct (c_batch c0) eqn:? end.
  all: try rewrite !emits_eq; try rewrite !emit_eq.
  all: repeat match goal with |- context [if closed ?s then _ else _] => destruct (closed s) eqn:? end.
  all: try match goal with |- SInv _ (check_pub _ _ _ _) => idtac | _ =>
    constructor; unf; unfold with_log; cbn [b_ep b_top b_items b_fresh g_log fl ps_entry ps_insub ps_locked ps_buf hub ch closed pc dl up pending cleanup g_pos log cw] in * end.
  all: try (sc; fail).
  all: try (intros h Hh; destruct (Ihist h Hh) as [X Y]; split; [intros; apply in_or_app; left; auto|exact Y]; fail).
  all: try (rewrite has_start_app; intros Hp; rewrite (Ipre Hp); reflexivity).
  all: try (intros; exfalso; congruence).
  all: try (intros; match goal with H : nth_error _ _ = Some _ |- _ => apply nth_error_In in H end; sc; fail).
  all: try (intros _; apply Idh; congruence).
  all: try (intros pos' pep' Hc; match goal with E : ch _ = _ |- _ => rewrite E in Hc end; sc; fail).
  all: try (destruct k; rewrite has_start_app; intros Hp; rewrite (Ipre Hp); reflexivity).
  all: try match goal with
    | E : (po ?p =? 0) = true |- ps_entry _ = true -> forall p0 lag0 ph, DPub ?p _ PEnq = DPub p0 lag0 ph -> _ =>
        intros _ ? ? ? Hq; inversion Hq; subst; right; split; [reflexivity|apply N.eqb_eq; exact E]
    | E : nth_error (fl _) _ = Some (TPub ?p) |- forall p0 lag0 ph, DPub ?p _ PSync = DPub p0 lag0 ph -> _ =>
        intros ? ? ? Hq; inversion Hq; subst; split; [apply Ifl; eapply nth_error_In; exact E|discriminate]
    | E : dl _ = DPub ?p _ PSync |- forall p0 lag0 ph, DPub ?p _ PCheck = DPub p0 lag0 ph -> In _ _ /\ _ =>
        intros ? ? ? Hq; inversion Hq; subst; split; [exact (proj1 (Idl _ _ _ E))|discriminate]
    | E : dl _ = DPub ?p _ PSync |- forall p0, In p0 (ps_buf _ ++ [?p]) -> _ =>
        intros ? Hp; apply in_app_or in Hp; destruct Hp as [Hp|[<-|[]]]; [auto|exact (proj1 (Idl _ _ _ E))]
    | E : ps_insub _ = false |- ps_entry _ = true -> _ =>
        intros He; rewrite (Iei He) in E; discriminate
    | E : ch _ = Sub _ _ |- forall pos pep, ch _ = Sub pos pep -> pos = g_pos _ =>
        intros ? ? Hc; rewrite E in Hc; inversion Hc; subst; eapply Ipos; reflexivity
    | E : pc _ = SReserved |- true = true -> _ =>
        intros _ ? ? ? Hd; exfalso;
        assert (Hh : hub s = false) by (destruct (hub s) eqn:Eh; [specialize (Ihp eq_refl); discriminate|reflexivity]);
        assert (Hn : dl s <> DIdle) by congruence; specialize (Idh Hn); congruence
    | |- forall h, SHist (history_read _ _) = SHist h -> _ =>
        intros ? Hh; inversion Hh; subst; split;
        [intros ? Hp; apply Iitems; eapply history_read_prov; exact Hp | apply history_read_wf]
    end.
  all: try (unfold has_start in *; rewrite ?existsb_app; rewrite Icws; reflexivity).
  all: try (intros Hp; specialize (Ipre Hp); try match goal with E : cw _ = _ :: _ |- _ => rewrite E in Icws end;
            unfold has_start in *; rewrite ?existsb_app; cbn [existsb] in *;
            repeat match goal with H : (_ || _)%bool = false |- _ => apply orb_false_iff in H; destruct H end;
            repeat match goal with H : _ = false |- _ => rewrite H end; reflexivity).
  all: try (intros Hm; exfalso; assert (Hh : hub s = true) by (apply Idh; congruence); specialize (Ihp Hh); discriminate).
  (* LCheck on a publication *)
  pose proof (check_pub_fields c s p lag) as F. cbv zeta in F.
  destruct F as (F1 & F2 & F3 & F4 & F5 & F6 & F7 & F8 & F9 & F10 & F11 & F12 & F13 & F14 & F15 & F16).
  constructor; rewrite ?F1, ?F2, ?F3, ?F4, ?F5, ?F6, ?F7, ?F8, ?F9, ?F10, ?F11, ?F12, ?F13, ?F16; try assumption.
  - intros q lagq phq Hd. destruct (check_pub_dl c s p lag) as [E|[E Ef]]; rewrite E in Hd; [discriminate|].
    inversion Hd; subst. split; [|intros _; exact Ef].
    match goal with E : dl s = DPub _ _ PCheck |- _ => exact (proj1 (Idl _ _ _ E)) end.
  - intros He q lagq phq Hd. exfalso.
    match goal with E : dl s = DPub _ _ PCheck |- _ => destruct (Ied He _ _ _ E) as [X|[X _]]; discriminate end.
  - intros Hn. apply Idh. congruence.
  - intros pos' pep' Hc. eapply check_pub_pos; eauto.
  - intros Hm. destruct (check_pub_dl c s p lag) as [E|[E _]]; rewrite E in Hm; discriminate.
Qed.


(* ------------------------------------------------------------------ *)
(* main invariant                                                       *)

Record MInv (c : cfg) (s : st) : Prop := {
  m_s : SInv c s;
  m_res : forall r, pc_res (pc s) = Some r -> res_ok' c (g_log s) r;
  m_srv : forall r, pc s = SSrvCommitted r -> g_pos s = r_pos r /\ c_var c = VServer;
  m_recv : closed s = false -> RecvInv s;
  m_spec : C01Spec (g_log s) (log s)
}.

Lemma last_in_or : forall (l : list N) d, last l d = d \/ In (last l d) l.
Proof.
  induction l as [|a l IH]; intros d; [left; reflexivity|].
  right. destruct l as [|b l']; [left; reflexivity|].
  change (In (last (b :: l') d) (a :: b :: l')). right.
  destruct (IH d) as [E|E].
  - cbn [last] in E. destruct l'; [left; cbn in *; congruence|].
    (* last (b::n::l') d = d  : still an element or default; use IH on a fresh default *)
    destruct (IH b) as [E'|E']; [|rewrite (last_cons_default _ _ d b); exact E'].
    rewrite (last_cons_default _ _ d b). rewrite E'. left. reflexivity.
  - exact E.
Qed.

Lemma recvinv_spec : forall s, RecvInv s -> C01Spec (g_log s) (log s).
Proof.
  intros s H p0 r Hr. destruct (H p0 r Hr) as (A & B & C & D & E & F).
  split; [exact A|]. split; [|exact D].
  intros o H1 H2.
  assert (Hb : last r p0 <= bound s).
  { destruct (last_in_or r p0) as [X|X]; [rewrite X; exact C|].
    rewrite Forall_forall in B. apply B. exact X. }
  destruct (E o H1) as [X|[X|X]]; [lia|left; exact X|right; exact X|].
  exfalso. destruct (F o X) as (F1 & F2 & F3).
  destruct (last_in_or r p0) as [Y|Y]; [lia|].
  rewrite Forall_forall in F3. specialize (F3 _ Y). lia.
Qed.

Lemma recvinv_frame : forall s s',
  RecvInv s -> recv (log s') = recv (log s) -> bound s' = bound s -> pend s' = pend s ->
  incl (g_log s) (g_log s') -> RecvInv s'.
Proof.
  intros s s' H E1 E2 E3 Hi p0 r Hr. rewrite E1 in Hr.
  destruct (H p0 r Hr) as (A & B & C & D & E & F). rewrite E2, E3.
  split; [exact A|]. split; [exact B|]. split; [exact C|]. split; [|split].
  - intros o Ho. eapply published_real_mono; eauto.
  - intros o H1 H2. destruct (E o H1 H2) as [X|[X|X]]; auto.
    right; left. eapply withheld_mono; eauto.
  - exact F.
Qed.

Lemma recv_app_boring : forall l f, is_start f = false -> pub_offs [f] = [] -> recv (l ++ [f]) = recv l.
Proof.
  intros l f H1 H2. destruct (recv l) as [[p0 r]|] eqn:E.
  - rewrite (recv_app_start _ _ _ [f] E), H2, app_nil_r. reflexivity.
  - apply recv_none in E. rewrite (recv_app_nostart _ _ E), H1. reflexivity.
Qed.

Lemma res_ok_mono : forall c g g' r, incl g g' -> res_ok' c g r -> res_ok' c g' r.
Proof.
  intros c g g' r Hi ((A & B & C & D) & E & F). split; [|split; assumption].
  split; [exact A|]. split; [|split; [exact C|]].
  - intros q Hq. destruct (B q Hq). split; [assumption|]. eapply published_real_mono; eauto.
  - intros o H1 H2. destruct (D o H1 H2); [left; assumption|right]. eapply withheld_mono; eauto.
Qed.

Lemma do_merge_flags : forall c h buf r, hist_wf c h -> do_merge c h buf = Some r ->
  (r_recovered r = false -> r_pubs r = []) /\ (r_recovered r = true -> c_rec c = true).
Proof.
  intros c h buf r Hwf H. unfold do_merge in H.
  destruct (negb (c_pos c)); [inv_some H; cbn; split; [reflexivity|discriminate]|].
  destruct (merge _ _) as [[out maxo] ok]. destruct (negb ok); [discriminate|].
  destruct (h_recovered h) eqn:Hr.
  - destruct (Hwf Hr) as [Hc _].
    destruct (c_fix_anchor c); [destruct (range_covered _ _ _); [|discriminate]|];
      inv_some H; cbn; split; [discriminate|intros _; exact Hc|discriminate|intros _; exact Hc].
  - inv_some H; cbn. split; [reflexivity|discriminate].
Qed.

Lemma pub_offs_map_FPub : forall l, (forall q, In q l -> po q <> 0) -> pub_offs (map FPub l) = map po l.
Proof.
  induction l as [|a l IH]; intros H; [reflexivity|]. cbn [map pub_offs].
  destruct (po a =? 0) eqn:E; [apply N.eqb_eq in E; exfalso; apply (H a); [left; reflexivity|exact E]|].
  f_equal. apply IH. intros q Hq. apply H. right. exact Hq.
Qed.

Lemma sorted_cons_nonzero : forall p0 l, StronglySorted N.lt (p0 :: map po l) -> forall q, In q l -> po q <> 0.
Proof.
  intros p0 l H q Hq. inversion H as [|? ? _ HF]; subst. rewrite Forall_forall in HF.
  specialize (HF (po q) (in_map po _ _ Hq)). lia.
Qed.

(* pend is empty whenever the PubSubSync entry exists *)
Lemma pend_none_entry : forall c s, SInv c s -> ps_entry s = true -> pend s = None.
Proof.
  intros c s I He. unfold pend. destruct (dl s) as [|p lag ph| |] eqn:Ed; try reflexivity.
  destruct (i_entry_dl c s I He p lag ph Ed) as [->|[-> E0]]; [reflexivity|].
  rewrite E0. reflexivity.
Qed.

Lemma recvinv_of_res : forall s glog r pubs b,
  res_ok glog r ->
  StronglySorted N.lt (r_off r :: pubs) -> pubs = map po (r_pubs r) ->
  recv (log s) = Some (r_off r, pubs) -> bound s = r_pos r -> pend s = None -> g_log s = glog ->
  b = true -> RecvInv s.
Proof.
  intros s glog r pubs b (A & B & C & D) HS -> Hr Hb Hp <- _ p0 r' Hr'.
  rewrite Hr in Hr'. inv_some Hr'. rewrite Hb, Hp.
  split; [exact A|]. split; [|split; [exact C|split; [|split]]].
  - apply Forall_forall. intros o Ho. apply in_map_iff in Ho. destruct Ho as [q [<- Hq]].
    apply (B q Hq).
  - intros o Ho. apply in_map_iff in Ho. destruct Ho as [q [<- Hq]]. apply (B q Hq).
  - intros o H1 H2. destruct (D o H1 H2); auto.
  - intros o Ho. discriminate.
Qed.
