(* The finite part of C35, re-proved on every run over the table generated
   from internal/redispartition/precomputed.go (Gen/Precomputed.v). *)
From Coq Require Import List NArith Bool.
From Cfg Require Import Model.Crc16 Model.Partition Proofs.Crc16 Proofs.Partition Gen.Precomputed.
Import ListNotations.
Open Scope N_scope.

(* every tag's slot computed, sorted, checked distinct; every (p, n <= p) walked *)
Lemma precomputed_table_ok : table_ok precomputed = true.
Proof. vm_cast_no_check (eq_refl true). Qed.

Theorem precomputed_good : forall p tags,
  find_tags precomputed p = Some tags -> entry_good p tags.
Proof. exact (table_ok_sound precomputed precomputed_table_ok). Qed.

(* the bound of the finite statement, read off the generated table *)
Definition sizes : list N := map fst precomputed.
Definition total_tags : N := fold_right N.add 0 (map (fun e => N.of_nat (length (snd e))) precomputed).

Lemma precomputed_nonempty : precomputed <> [].
Proof. discriminate. Qed.
