(* C14: meaning of the harness oracle. *)
From Coq Require Import List NArith Bool Arith.
From Cfg Require Import Model.Delta Harness.C14.
Import ListNotations.

Fixpoint obs_good (T : tables) (j : bool) (h : hmap) (l : list obs) : Prop :=
  match l with
  | [] => True
  | OReset :: t => obs_good T j [] t
  | ORemove k :: t => obs_good T j (hdel k h) t
  | OPush k d x e :: t =>
      client_step N (apply_t T) (unesc_t T) j (hget k h) (mkW N d x) = Some e /\
      obs_good T j (hset k (Some e) h) t
  end.

Lemma oracle_obs_sound : forall T j l h, oracle_obs T j h l = true -> obs_good T j h l.
Proof.
  intros T j. induction l as [|o t IH]; intros h H; cbn; auto.
  destruct o as [|k d x e|k]; cbn in H.
  - apply IH; exact H.
  - apply andb_prop in H. destruct H as [H1 H2].
    destruct (client_step N (apply_t T) (unesc_t T) j (hget k h) (mkW N d x)) as [r|] eqn:E; cbn in H1; [|discriminate].
    apply N.eqb_eq in H1. subst r. split; [reflexivity|]. apply IH. exact H2.
  - apply IH; exact H.
Qed.
