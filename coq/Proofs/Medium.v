(* C38: proofs over Model/Medium.v, all option combinations, all schedules. *)
From Coq Require Import List NArith Bool Lia.
From Cfg Require Import Model.Medium.
Import ListNotations.
Open Scope N_scope.

Inductive Sub : list qitem -> list qitem -> Prop :=
  | sub_nil : forall l, Sub [] l
  | sub_skip : forall a x b, Sub a b -> Sub a (x :: b)
  | sub_take : forall x a b, Sub a b -> Sub (x :: a) (x :: b).

Lemma Sub_refl : forall l, Sub l l.
Proof. induction l; [apply sub_nil|apply sub_take; auto]. Qed.
Lemma Sub_app_r : forall a b c, Sub a b -> Sub a (b ++ c).
Proof. intros a b c H. induction H; cbn; [apply sub_nil|apply sub_skip; auto|apply sub_take; auto]. Qed.
Lemma Sub_snoc : forall a b x, Sub a b -> Sub (a ++ [x]) (b ++ [x]).
Proof.
  intros a b x H. induction H; cbn.
  - induction l as [|y l IH]; cbn; [apply Sub_refl|apply sub_skip; exact IH].
  - apply sub_skip. exact IHSub.
  - apply sub_take. exact IHSub.
Qed.
Lemma Sub_app : forall a b c d, Sub a b -> Sub c d -> Sub (a ++ c) (b ++ d).
Proof.
  intros a b c d H. induction H; intros Hc; cbn.
  - induction l as [|y l IH]; cbn; [exact Hc|apply sub_skip; exact IH].
  - apply sub_skip. auto.
  - apply sub_take. auto.
Qed.
Lemma Sub_trans : forall b a c, Sub a b -> Sub b c -> Sub a c.
Proof.
  intros b a c H1 H2. revert a H1. induction H2; intros a' H1.
  - inversion H1; subst. apply sub_nil.
  - apply sub_skip. auto.
  - inversion H1; subst; [apply sub_nil|apply sub_skip; auto|apply sub_take; auto].
Qed.
Lemma Sub_app_l : forall a b g, Sub (a ++ b) g -> Sub a g.
Proof.
  intros a b g H. eapply Sub_trans; [|exact H].
  rewrite <- (app_nil_r a) at 1. apply Sub_app; [apply Sub_refl|apply sub_nil].
Qed.

(* what a coalescing run sends is the last element of the run it consumed *)
Lemma drain_spec : forall n cur q y q', count_insuff [cur] = 0%nat -> drain n cur q = (y, q') ->
  exists t, q = t ++ q' /\ Sub [y] (cur :: t) /\ count_insuff (y :: q') = count_insuff q.
Proof.
  induction n as [|n IH]; intros cur q y q' Hc H; cbn [drain] in H.
  - inversion H; subst. exists []. split; [reflexivity|]. split; [apply sub_take; apply sub_nil|].
    destruct y; cbn in *; [reflexivity|discriminate].
  - destruct q as [|x q1].
    + inversion H; subst. exists []. split; [reflexivity|]. split; [apply sub_take; apply sub_nil|].
      destruct y; cbn in *; [reflexivity|discriminate].
    + destruct x as [o sz|].
      * apply IH in H; [|reflexivity]. destruct H as (t & E & S & C). exists (QPub o sz :: t). subst q1.
        split; [reflexivity|]. split; [apply sub_skip; exact S|]. cbn [count_insuff filter] in *. exact C.
      * inversion H; subst. exists [QInsuff]. split; [reflexivity|]. split; [apply sub_skip; apply sub_take; apply sub_nil|].
        reflexivity.
Qed.

Record MInv (o : mopts) (s : mst) : Prop := {
  v_sub : exists c, Sub (mout s) c /\ Sub (c ++ mq s) (g_in s);
  v_direct : o_queue o = false -> mq s = [] /\ mout s = g_in s;
  v_mark : mclosed s = false -> count_insuff (mout s ++ mq s) = count_insuff (g_in s);
  v_closed : mclosed s = true -> mq s = []
}.

Lemma count_app : forall a b, count_insuff (a ++ b) = (count_insuff a + count_insuff b)%nat.
Proof. intros. unfold count_insuff. rewrite filter_app, app_length. reflexivity. Qed.

Lemma accept_inv : forall o s i now, MInv o s -> MInv o (accept o s i now).
Proof.
  intros o s i now [[c [S1 S2]] Hd Hm Hc]. unfold accept.
  destruct (o_queue o) eqn:Eq.
  - assert (Drop : MInv o (mkMS (mq s) (mclosed s) now (mout s) (g_in s ++ [i])) \/ True) by (right; exact I).
    assert (Keep : mclosed s = false -> MInv o (mkMS (mq s ++ [i]) (mclosed s) now (mout s) (g_in s ++ [i]))).
    { intros Hop. constructor; cbn [mq mout g_in mclosed].
      - exists c. split; [exact S1|]. rewrite app_assoc. apply Sub_snoc. exact S2.
      - intros X. congruence.
      - intros _. rewrite app_assoc, count_app, (Hm Hop), (count_app (g_in s)). reflexivity.
      - intros X. congruence. }
    assert (DropPub : forall off sz, i = QPub off sz -> MInv o (mkMS (mq s) (mclosed s) now (mout s) (g_in s ++ [i]))).
    { intros off sz ->. constructor; cbn [mq mout g_in mclosed].
      - exists c. split; [exact S1|]. apply Sub_app_r. exact S2.
      - intros X. congruence.
      - intros Hop. rewrite (count_app (g_in s)), <- (Hm Hop). cbn. rewrite PeanoNat.Nat.add_0_r. reflexivity.
      - exact Hc. }
    destruct i as [off sz|].
    + destruct (qmax o <? qsize (mq s)); [eapply DropPub; reflexivity|].
      destruct (mclosed s) eqn:Ec; [eapply DropPub; reflexivity|apply Keep; reflexivity].
    + destruct (mclosed s) eqn:Ec; [|apply Keep; reflexivity].
      constructor; cbn [mq mout g_in mclosed].
      * exists c. split; [exact S1|]. apply Sub_app_r. exact S2.
      * intros X. congruence.
      * intros X. congruence.
      * exact Hc.
  - destruct (Hd eq_refl) as [Hq Ho]. constructor; cbn [mq mout g_in mclosed].
    + exists (g_in s ++ [i]). rewrite Hq, app_nil_r, Ho. split; apply Sub_refl.
    + intros _. split; [exact Hq|rewrite Ho; reflexivity].
    + intros Hop. rewrite Hq, app_nil_r, Ho. reflexivity.
    + exact Hc.
Qed.

Lemma mstep_inv : forall o s l s' r, MInv o s -> mstep o s l = Some (s', r) -> MInv o s'.
Proof.
  intros o s l s' r I H. destruct l; cbn [mstep] in H.
  - inversion H; subst. apply accept_inv. exact I.
  - destruct (mclosed s) eqn:Ec; [discriminate|].
    destruct (mq s) as [|x q] eqn:Eq; [discriminate|].
    destruct I as [[c [S1 S2]] Hd Hm Hc]. rewrite Eq in S2, Hm.
    assert (One : MInv o (mkMS q (mclosed s) (mchk s) (mout s ++ [x]) (g_in s))).
    { constructor; cbn [mq mout g_in mclosed].
      - exists (c ++ [x]). split; [apply Sub_snoc; exact S1|]. rewrite <- app_assoc. exact S2.
      - intros X. destruct (Hd X) as [Y _]. congruence.
      - intros Hop. rewrite <- app_assoc. exact (Hm Ec).
      - intros X. congruence. }
    rewrite Ec in One.
    destruct (negb (o_delay o)); [inversion H; subst; exact One|].
    destruct x as [off sz|]; [|inversion H; subst; exact One].
    destruct (drain (length q) (QPub off sz) q) as [y q'] eqn:Ed. inversion H; subst.
    destruct (drain_spec (length q) (QPub off sz) q y q' eq_refl Ed) as (t & Et & St & Ct).
    constructor; cbn [mq mout g_in mclosed].
    + exists (c ++ QPub off sz :: t). split.
      * apply Sub_app; [exact S1|exact St].
      * rewrite <- app_assoc. cbn [app]. rewrite <- Et. exact S2.
    + intros X. destruct (Hd X) as [Y _]. congruence.
    + intros Hop. specialize (Hm Ec). rewrite <- app_assoc. cbn [app].
      rewrite count_app in Hm. rewrite count_app, Ct, <- Hm. reflexivity.
    + intros X. congruence.
  - destruct (now - mchk s <? delay); [inversion H; subst; exact I|].
    set (s1 := mkMS (mq s) (mclosed s) now (mout s) (g_in s)) in *.
    assert (I1 : MInv o s1) by (destruct I; constructor; auto).
    destruct (match r1 with Some true => Some true | _ => r2 end) as [[|]|]; inversion H; subst; auto.
    apply accept_inv. exact I1.
  - inversion H; subst. destruct I as [[c [S1 S2]] Hd Hm Hc]. constructor; cbn [mq mout g_in mclosed].
    + exists c. split; [exact S1|]. rewrite app_nil_r. eapply Sub_app_l. exact S2.
    + intros X. destruct (Hd X) as [Y Z]. auto.
    + discriminate.
    + reflexivity.
Qed.

Lemma minit_inv : forall o now, MInv o (minit now).
Proof.
  intros o now. constructor; cbn; auto.
  exists []. split; apply sub_nil.
Qed.

Lemma mrun_inv : forall o ls s s' rs, MInv o s -> mrun o s ls = Some (s', rs) -> MInv o s'.
Proof.
  induction ls as [|l ls IH]; intros s s' rs I H; cbn [mrun] in H.
  - inversion H; subst. exact I.
  - destruct (mstep o s l) as [[s1 r]|] eqn:E; [|discriminate].
    destruct (mrun o s1 ls) as [[s2 rs2]|] eqn:E2; [|discriminate]. inversion H; subst.
    eapply IH; [|exact E2]. eapply mstep_inv; eauto.
Qed.

(* the medium never reorders: its output is a subsequence of its input *)
Theorem c38_order : forall o now ls s rs, mrun o (minit now) ls = Some (s, rs) -> Sub (mout s) (g_in s).
Proof.
  intros o now ls s rs H. destruct (v_sub o s (mrun_inv o ls _ _ _ (minit_inv o now) H)) as [c [S1 S2]].
  eapply Sub_trans; [exact S1|]. eapply Sub_app_l. exact S2.
Qed.

(* without the queue nothing is lost or delayed *)
Theorem c38_direct_exact : forall o now ls s rs,
  o_queue o = false -> mrun o (minit now) ls = Some (s, rs) -> mout s = g_in s.
Proof.
  intros o now ls s rs Hq H. apply (v_direct o s (mrun_inv o ls _ _ _ (minit_inv o now) H) Hq).
Qed.

(* the insufficient-state marker is never coalesced away or dropped by the byte bound *)
Theorem c38_marker_kept : forall o now ls s rs,
  mrun o (minit now) ls = Some (s, rs) -> mclosed s = false ->
  count_insuff (mout s ++ mq s) = count_insuff (g_in s).
Proof.
  intros o now ls s rs H. apply (v_mark o s (mrun_inv o ls _ _ _ (minit_inv o now) H)).
Qed.

(* the decidable subsequence test used as oracle is sound for Sub *)
Lemma qitem_eqb_eq : forall x y, qitem_eqb x y = true -> x = y.
Proof.
  intros [o1 s1|] [o2 s2|]; cbn; intros H; try discriminate; auto.
  apply andb_true_iff in H. destruct H as [A B]. apply N.eqb_eq in A. apply N.eqb_eq in B. subst. reflexivity.
Qed.
Lemma subseq_sound : forall a b, subseq a b qitem_eqb = true -> Sub a b.
Proof.
  intros a b. revert a. induction b as [|y b IH]; intros a H.
  - destruct a; [apply sub_nil|discriminate].
  - destruct a as [|x a]; [apply sub_nil|]. cbn [subseq] in H.
    destruct (qitem_eqb x y) eqn:E.
    + apply qitem_eqb_eq in E. subst. apply sub_take. apply IH. exact H.
    + apply sub_skip. apply IH. exact H.
Qed.
