(* C25 proofs: per-connection monotone versions, delta base consistency, no push
   without tracking, epoch flip, for all schedules of the keyed model. *)
From Coq Require Import List Arith Bool Lia.
From Cfg Require Import Model.Keyed.
Import ListNotations.

Ltac split_step H :=
  repeat match type of H with
         | (if ?c then _ else _) = _ => destruct c
         | match ?x with _ => _ end = _ => destruct x
         end; inversion H; subst.
Ltac split_in Hin :=
  repeat match type of Hin with
         | context [match ?x with _ => _ end] => destruct x
         end.

Section KeyedProofs.
  Variable keep : bool.
  Variable gx : bool.

  Notation step := (step keep gx).
  Notation run := (run keep gx).

  Lemma upd_same : forall (A : Type) (f : key -> option A) k v, upd f k v k = v.
  Proof. intros; unfold upd; rewrite Nat.eqb_refl; reflexivity. Qed.
  Lemma upd_other : forall (A : Type) (f : key -> option A) k v k', k' <> k -> upd f k v k' = f k'.
  Proof. intros A f k v k' H; unfold upd. apply Nat.eqb_neq in H. rewrite H. reflexivity. Qed.

  (* the connection's idea of the client: a delta-ready key state means the client
     holds exactly the payload of that version *)
  Definition ConnInv (s : st) : Prop :=
    forall k ks, s_conn s k = Some ks -> ks_ready ks = true -> s_held s k = Some (ks_ver ks).

  (* prepared deltas are labelled with the version of their real base *)
  Definition BcInv (s : st) : Prop :=
    forall b p, In b (s_bc s) -> bc_delta b = Some p -> pr_label p = pr_base p.

  Definition Inv (s : st) : Prop := ConnInv s /\ BcInv s.

  Lemma in_remove_nth : forall (A : Type) i (l : list A) x, In x (remove_nth i l) -> In x l.
  Proof.
    intros A i. induction i as [|i IH]; intros l x H; destruct l; cbn in *; auto.
    destruct H; auto.
  Qed.

  Definition sound_variant : Prop := gx = true \/ keep = true.

  Lemma conn_upd_none : forall s k (held' : key -> option ver) ent polls bc sub keys,
    ConnInv s -> (forall k', k' <> k -> held' k' = s_held s k') ->
    ConnInv (mkSt ent polls bc (upd (s_conn s) k None) sub held' keys).
  Proof.
    intros s k held' ent polls bc sub keys H Hh k' ks Hc Hr. cbn in *.
    unfold upd in Hc. destruct (Nat.eqb k' k) eqn:E; [discriminate|].
    apply Nat.eqb_neq in E. rewrite (Hh k' E). apply H; auto.
  Qed.

  Lemma deliver_inv : forall s b dp1 s' ps,
    Inv s -> (forall p, bc_delta b = Some p -> pr_label p = pr_base p) ->
    deliver s b dp1 = (s', ps) -> Inv s'.
  Proof.
    intros s b dp1 s' ps [HC HB] Hb H. unfold deliver in H.
    destruct (s_conn s (bc_key b)) as [ks|] eqn:Ec; [|inversion H; subst; split; auto].
    destruct (Nat.leb (bc_ver b) (ks_ver ks)); [inversion H; subst; split; auto|].
    inversion H; subst s' ps; clear H. split; [|exact HB].
    intros k ks' Hc Hr. cbn in *. unfold upd in *.
    destruct (Nat.eqb k (bc_key b)) eqn:E.
    - inversion Hc; subst ks'. cbn.
      destruct (bc_delta b) as [pd|] eqn:Ed; [|reflexivity].
      destruct (dp1 && ks_ready ks && Nat.eqb (ks_ver ks) (pr_label pd)) eqn:Eu; [|reflexivity].
      apply andb_prop in Eu. destruct Eu as [Eu E3]. apply andb_prop in Eu. destruct Eu as [_ E2].
      apply Nat.eqb_eq in E3. rewrite (HC _ _ Ec E2). rewrite E3, (Hb pd eq_refl), Nat.eqb_refl. reflexivity.
    - apply HC; auto.
  Qed.

  Lemma step_inv : forall s a s' ps, sound_variant -> Inv s -> step s a = (s', ps) -> Inv s'.
  Proof.
    intros s a s' ps Hsv [HC HB] H. destruct a as [|k fresh|k others|k|i bv prev|k|k v|i dp1|i|k others| |i|k cv]; cbn [Keyed.step] in H; try unfold track_with in H.
    - destruct (s_sub s); inversion H; subst; split; auto. intros k ks Hc; discriminate.
    - destruct (negb (s_sub s)); [inversion H; subst; split; auto|].
      match type of H with (if ?c then _ else _) = _ => destruct c end; inversion H; subst s' ps; clear H; (split; [|exact HB]).
      + intros k' ks Hc Hr. cbn in *. unfold upd in *. destruct (Nat.eqb k' k); [inversion Hc; reflexivity|apply HC; auto].
      + intros k' ks Hc Hr. cbn in *. unfold upd in *. destruct (Nat.eqb k' k); [inversion Hc; subst; discriminate|apply HC; auto].
    - destruct (s_conn s k); inversion H; subst; [|split; auto]. split; [|exact HB].
      apply conn_upd_none; auto. intros k' Hk'. apply upd_other; auto.
    - destruct (s_ent s k); inversion H; subst; split; auto.
    - destruct (nth_error (s_polls s) i) as [[k reqv]|]; [|inversion H; subst; split; auto].
      destruct (s_ent s k) as [e|]; [|inversion H; subst; split; auto].
      destruct (Nat.leb bv (e_ver e)).
      + destruct (e_nb e && Nat.ltb 0 (e_ver e)); [|inversion H; subst; split; auto].
        destruct keep; [inversion H; subst; split; auto|].
        * intros b p Hin Hd. cbn in Hin. apply in_app_or in Hin. destruct Hin as [Hin|[<-|[]]]; [eapply HB; eauto|discriminate].
        * destruct (Nat.eqb bv (e_ver e)); inversion H; subst; split; auto.
          intros b p Hin Hd. cbn in Hin. apply in_app_or in Hin. destruct Hin as [Hin|[<-|[]]]; [eapply HB; eauto|discriminate].
      + inversion H; subst s' ps; clear H. split; [exact HC|].
        intros b p Hin Hd. cbn in Hin. apply in_app_or in Hin. destruct Hin as [Hin|[<-|[]]]; [eapply HB; eauto|].
        cbn [bc_delta] in Hd. destruct keep eqn:Ek.
        * destruct (e_data e); inversion Hd; reflexivity.
        * match type of Hd with (if ?c then _ else _) = _ => destruct c end; [|discriminate Hd].
          destruct Hsv as [Hg|Hk]; [|congruence]. rewrite Hg in Hd.
          destruct (Nat.eqb reqv (e_ver e)) eqn:Er; [|discriminate Hd]. apply Nat.eqb_eq in Er. inversion Hd; subst. cbn. auto.
    - destruct (s_ent s k); inversion H; subst; [|split; auto]. split; [|exact HB].
      apply conn_upd_none; auto. intros k' Hk'. apply upd_other; auto.
    - destruct (s_ent s k) as [e|]; [|inversion H; subst; split; auto].
      destruct (Nat.leb v (e_ver e)); inversion H; subst; split; auto.
      intros b p Hin Hd. cbn in Hin. apply in_app_or in Hin. destruct Hin as [Hin|[<-|[]]]; [eapply HB; eauto|].
      cbn in Hd. destruct (keep && e_data e); inversion Hd; reflexivity.
    - destruct (nth_error (s_bc s) i) as [b|] eqn:En; [|inversion H; subst; split; auto].
      eapply deliver_inv; [| |exact H].
      + split; [exact HC|]. intros b' p Hin Hd. cbn in Hin. apply in_remove_nth in Hin. eapply HB; eauto.
      + intros p Hd. eapply HB; eauto. eapply nth_error_In; eauto.
    - inversion H; subst. split; [exact HC|]. intros b p Hin Hd. cbn in Hin. apply in_remove_nth in Hin. eapply HB; eauto.
    - destruct (s_conn s k); inversion H; subst; [|split; auto]. split; [|exact HB].
      apply conn_upd_none; auto. intros k' Hk'. apply upd_other; auto.
    - destruct (s_keys s); inversion H; subst; (split; [|exact HB]); [exact HC|intros k' ks' Hc; discriminate].
    - inversion H; subst. split; auto.
    - destruct (negb (s_sub s)); [inversion H; subst; split; auto|].
      match type of H with (if ?c then _ else _) = _ => destruct c end; inversion H; subst s' ps; clear H; (split; [|exact HB]).
      + intros k' ks Hc Hr. cbn in *. unfold upd in *. destruct (Nat.eqb k' k); [inversion Hc; reflexivity|apply HC; auto].
      + intros k' ks Hc Hr. cbn in *. unfold upd in *. destruct (Nat.eqb k' k); [inversion Hc; subst; discriminate|apply HC; auto].
  Qed.

  Lemma inv_init : Inv init.
  Proof. split; [intros k ks H; discriminate|intros b p []]. Qed.

  (* --- delta base: a delta push applies to what the client holds *)
  Lemma step_delta_applies : forall s a s' ps k v base,
    sound_variant -> Inv s -> step s a = (s', ps) -> In (PDelta k v base) ps -> s_held s k = Some base.
  Proof.
    intros s a s' ps k v base Hsv [HC HB] H Hin.
    destruct a as [|k0 fresh|k0 others|k0|i bv prev|k0|k0 v0|i dp1|i|k0 others| |i|k0 cv]; cbn [Keyed.step] in H; try unfold track_with in H;
      try (split_step H; split_in Hin; cbn in Hin; intuition discriminate).
    destruct (nth_error (s_bc s) i) as [b|] eqn:En; [|inversion H; subst; destruct Hin].
    unfold deliver in H. cbn [s_conn s_held] in H.
    destruct (s_conn s (bc_key b)) as [ks|] eqn:Ec; [|inversion H; subst; destruct Hin].
    destruct (Nat.leb (bc_ver b) (ks_ver ks)); [inversion H; subst; destruct Hin|].
    inversion H; subst s' ps; clear H. destruct Hin as [Hin|[]].
    destruct (bc_delta b) as [pd|] eqn:Ed; [|discriminate].
    destruct (dp1 && ks_ready ks && Nat.eqb (ks_ver ks) (pr_label pd)) eqn:Eu; [|discriminate].
    inversion Hin; subst k v base.
    apply andb_prop in Eu. destruct Eu as [Eu E3]. apply andb_prop in Eu. destruct Eu as [_ E2].
    apply Nat.eqb_eq in E3. rewrite (HC _ _ Ec E2). f_equal. rewrite E3.
    apply (HB b pd); auto. eapply nth_error_In; eauto.
  Qed.

  (* --- monotone versions: a delivered update is newer than the connection's version, which becomes it;
         no update is pushed for a key the connection does not track *)
  Lemma deliver_push_monotone : forall s i dp1 s' ps k v,
    step s (ADeliver i dp1) = (s', ps) ->
    (In (PFull k v) ps \/ exists base, In (PDelta k v base) ps) ->
    (exists ks, s_conn s k = Some ks /\ ks_ver ks < v) /\ s_conn s' k = Some (mkKs v true).
  Proof.
    intros s i dp1 s' ps k v H Hin. cbn [Keyed.step] in H; try unfold track_with in H.
    destruct (nth_error (s_bc s) i) as [b|] eqn:En; [|inversion H; subst; destruct Hin as [[]|[b0 []]]].
    unfold deliver in H. cbn [s_conn s_held] in H.
    destruct (s_conn s (bc_key b)) as [ks|] eqn:Ec; [|inversion H; subst; destruct Hin as [[]|[b0 []]]].
    destruct (Nat.leb (bc_ver b) (ks_ver ks)) eqn:El; [inversion H; subst; destruct Hin as [[]|[b0 []]]|].
    apply Nat.leb_gt in El.
    inversion H; subst s' ps; clear H.
    assert (Hkv : k = bc_key b /\ v = bc_ver b).
    { destruct Hin as [[Hin|[]]|[b0 [Hin|[]]]];
        destruct (bc_delta b) as [pd|]; try destruct (dp1 && ks_ready ks && Nat.eqb (ks_ver ks) (pr_label pd));
        inversion Hin; auto. }
    destruct Hkv as [-> ->]. split; [exists ks; auto|]. cbn. apply upd_same.
  Qed.

  (* a track reply only carries a payload newer than the version the client sent *)
  Lemma track_push_newer : forall s k fresh s' ps k' v,
    step s (ATrack k fresh) = (s', ps) -> In (PFull k' v) ps ->
    k' = k /\ (if fresh then 0 else match s_held s k with Some h => h | None => 0 end) < v /\
    s_conn s' k = Some (mkKs v true) /\ s_held s' k = Some v.
  Proof.
    intros s k fresh s' ps k' v H Hin. cbn [Keyed.step] in H; try unfold track_with in H.
    destruct (negb (s_sub s)); [inversion H; subst; destruct Hin|].
    match type of H with (if ?c then _ else _) = _ => destruct c eqn:Ec end; inversion H; subst s' ps; clear H; [|destruct Hin].
    destruct Hin as [Hin|[]]. inversion Hin; subst k' v.
    apply andb_prop in Ec. destruct Ec as [_ Elt]. apply Nat.ltb_lt in Elt.
    split; auto. split; [exact Elt|]. cbn. rewrite !upd_same. auto.
  Qed.

  Lemma trackv_push_newer : forall s k cv s' ps k' v,
    step s (ATrackV k cv) = (s', ps) -> In (PFull k' v) ps ->
    k' = k /\ cv < v /\ s_conn s' k = Some (mkKs v true) /\ s_held s' k = Some v.
  Proof.
    intros s k cv s' ps k' v H Hin. cbn [Keyed.step] in H; unfold track_with in H.
    destruct (negb (s_sub s)); [inversion H; subst; destruct Hin|].
    match type of H with (if ?c then _ else _) = _ => destruct c eqn:Ec end; inversion H; subst s' ps; clear H; [|destruct Hin].
    destruct Hin as [Hin|[]]. inversion Hin; subst k' v.
    apply andb_prop in Ec. destruct Ec as [_ Elt]. apply Nat.ltb_lt in Elt.
    split; auto. split; [exact Elt|]. cbn. rewrite !upd_same. auto.
  Qed.

  (* a re-track with a client-supplied version never leaves the key delta-ready unless the reply itself
     carried the payload: the next update is sent in full, whatever version the client claimed *)
  Lemma trackv_not_ready : forall s k cv s' ps ks,
    step s (ATrackV k cv) = (s', ps) -> s_sub s = true -> s_conn s' k = Some ks ->
    (ps = [] /\ ks = mkKs cv false /\ s_held s' k = s_held s k) \/
    (exists v, ps = [PFull k v] /\ cv < v /\ ks = mkKs v true /\ s_held s' k = Some v).
  Proof.
    intros s k cv s' ps ks H Hs Hc. cbn [Keyed.step] in H; unfold track_with in H. rewrite Hs in H. cbn [negb] in H.
    match type of H with (if ?c then _ else _) = _ => destruct c eqn:Ec end; inversion H; subst s' ps; clear H;
      cbn [s_conn s_held] in *; rewrite upd_same in *; inversion Hc; subst ks.
    - right. eexists. split; [reflexivity|]. apply andb_prop in Ec. destruct Ec as [_ Elt]. apply Nat.ltb_lt in Elt.
      split; [exact Elt|]. split; reflexivity.
    - left. split; [reflexivity|]. split; reflexivity.
  Qed.

  (* pushes of key updates only come from a delivery or a track reply *)
  Lemma push_sources : forall s a s' ps k v,
    step s a = (s', ps) -> (In (PFull k v) ps \/ exists base, In (PDelta k v base) ps) ->
    (exists i dp1, a = ADeliver i dp1) \/ (exists fresh, a = ATrack k fresh) \/ (exists cv, a = ATrackV k cv).
  Proof.
    intros s a s' ps k v H Hin.
    destruct a as [|k0 fresh|k0 others|k0|i bv prev|k0|k0 v0|i dp1|i|k0 others| |i|k0 cv]; cbn [Keyed.step] in H; try unfold track_with in H;
      try (split_step H; destruct Hin as [Hin|[b0 Hin]]; split_in Hin; cbn in Hin; intuition discriminate).
    - right. left. destruct (negb (s_sub s)); [inversion H; subst; destruct Hin as [[]|[b0 []]]|].
      match type of H with (if ?c then _ else _) = _ => destruct c end; inversion H; subst s' ps; clear H.
      + destruct Hin as [[Hin|[]]|[b0 [Hin|[]]]]; inversion Hin; subst. eauto.
      + destruct Hin as [[]|[b0 []]].
    - left. eauto.
    - right. right. destruct (negb (s_sub s)); [inversion H; subst; destruct Hin as [[]|[b0 []]]|].
      match type of H with (if ?c then _ else _) = _ => destruct c end; inversion H; subst s' ps; clear H.
      + destruct Hin as [[Hin|[]]|[b0 [Hin|[]]]]; inversion Hin; subst. eauto.
      + destruct Hin as [[]|[b0 []]].
  Qed.

  (* --- untrack / revoke / removal / epoch flip end the tracking of the key *)
  Lemma untracked_after : forall s a s' ps k,
    step s a = (s', ps) ->
    (exists o, a = AUntrack k o) \/ (exists o, a = ARevoke k o) \/ a = APollRemoved k \/ a = AEpochFlip ->
    s_conn s' k = None \/ (s_conn s' k = s_conn s k /\ ps = []).
  Proof.
    intros s a s' ps k H [[o ->]|[[o ->]|[->| ->]]]; cbn [Keyed.step] in H; try unfold track_with in H.
    - destruct (s_conn s k) eqn:E; inversion H; subst; [left; cbn; apply upd_same|right; split; [rewrite E|]; reflexivity].
    - destruct (s_conn s k) eqn:E; inversion H; subst; [left; cbn; apply upd_same|right; split; [rewrite E|]; reflexivity].
    - destruct (s_ent s k) eqn:E; inversion H; subst; [left; cbn; apply upd_same|right; split; reflexivity].
    - destruct (s_keys s); inversion H; subst; [right; split; reflexivity|left; reflexivity].
  Qed.

  (* an untracked key receives no update whatever is delivered *)
  Lemma no_push_untracked : forall s i dp1 s' ps k,
    s_conn s k = None -> step s (ADeliver i dp1) = (s', ps) ->
    (forall v, ~ In (PFull k v) ps) /\ (forall v base, ~ In (PDelta k v base) ps) /\ s_conn s' k = None.
  Proof.
    intros s i dp1 s' ps k Hk H.
    assert (G : forall v, (In (PFull k v) ps \/ exists base, In (PDelta k v base) ps) -> False).
    { intros v Hin. destruct (deliver_push_monotone _ _ _ _ _ _ _ H Hin) as [[ks [A _]] _]. congruence. }
    split; [intros v Hin; apply (G v); auto|]. split; [intros v base Hin; apply (G v); eauto|].
    cbn [Keyed.step] in H; try unfold track_with in H. destruct (nth_error (s_bc s) i) as [b|]; [|inversion H; subst; auto].
    unfold deliver in H. cbn [s_conn] in H.
    destruct (s_conn s (bc_key b)) as [ks|] eqn:Ec; [|inversion H; subst; auto].
    destruct (Nat.leb (bc_ver b) (ks_ver ks)); inversion H; subst; auto.
    cbn. rewrite upd_other; auto. intros E. subst. congruence.
  Qed.

  (* --- the connection's membership in the keyed hub *)
  Definition KeysInv (s : st) : Prop := forall k, s_conn s k <> None -> In k (s_keys s).

  Lemma in_add_tkey : forall k l x, In x (add_tkey k l) <-> x = k \/ In x l.
  Proof.
    intros k l x. unfold add_tkey. destruct (existsb (Nat.eqb k) l) eqn:E.
    - split; [auto|]. intros [->|H]; auto. apply existsb_exists in E. destruct E as [y [Hy Ey]].
      apply Nat.eqb_eq in Ey. subst; auto.
    - cbn. split; intros [H|H]; auto.
  Qed.

  Lemma in_del_tkey : forall k l x, In x (del_tkey k l) <-> x <> k /\ In x l.
  Proof.
    intros k l x. unfold del_tkey. rewrite filter_In. rewrite negb_true_iff, Nat.eqb_neq. tauto.
  Qed.

  Lemma deliver_keys : forall s b dp1 s' ps, KeysInv s -> deliver s b dp1 = (s', ps) -> KeysInv s'.
  Proof.
    intros s b dp1 s' ps HK H. unfold deliver in H.
    destruct (s_conn s (bc_key b)) as [ks|] eqn:Ec; [|inversion H; subst; auto].
    destruct (Nat.leb (bc_ver b) (ks_ver ks)); inversion H; subst; auto.
    intros k Hk. cbn in *. unfold upd in Hk. destruct (Nat.eqb k (bc_key b)) eqn:E.
    - apply Nat.eqb_eq in E. subst. apply HK. congruence.
    - apply HK; auto.
  Qed.

  Lemma step_keys : forall s a s' ps, KeysInv s -> step s a = (s', ps) -> KeysInv s'.
  Proof.
    intros s a s' ps HK H.
    assert (Hdel : forall k0 ent polls bc sub held,
              KeysInv (mkSt ent polls bc (upd (s_conn s) k0 None) sub held (del_tkey k0 (s_keys s)))).
    { intros k0 ent polls bc sub held k Hk. cbn in *. unfold upd in Hk. apply in_del_tkey.
      destruct (Nat.eqb k k0) eqn:E; [congruence|]. apply Nat.eqb_neq in E. split; auto. }
    assert (Hadd : forall k0 ent polls bc sub held v,
              KeysInv (mkSt ent polls bc (upd (s_conn s) k0 v) sub held (add_tkey k0 (s_keys s)))).
    { intros k0 ent polls bc sub held v k Hk. cbn in *. unfold upd in Hk. apply in_add_tkey.
      destruct (Nat.eqb k k0) eqn:E; [apply Nat.eqb_eq in E; auto|right; apply HK; auto]. }
    destruct a as [|k fresh|k others|k|i bv prev|k|k v|i dp1|i|k others| |i|k cv]; cbn [Keyed.step] in H; try unfold track_with in H.
    - destruct (s_sub s); inversion H; subst; auto. intros k' Hk; cbn in Hk; congruence.
    - destruct (negb (s_sub s)); [inversion H; subst; auto|].
      match type of H with (if ?c then _ else _) = _ => destruct c end; inversion H; subst; apply Hadd.
    - destruct (s_conn s k); inversion H; subst; auto.
    - destruct (s_ent s k); inversion H; subst; auto.
    - split_step H; auto.
    - destruct (s_ent s k); inversion H; subst; auto.
    - split_step H; auto.
    - destruct (nth_error (s_bc s) i) as [b|]; [|inversion H; subst; auto].
      eapply deliver_keys; [|exact H]. exact HK.
    - inversion H; subst; auto.
    - destruct (s_conn s k); inversion H; subst; auto.
    - destruct (s_keys s) eqn:Ek; inversion H; subst; intros k' Hk; cbn in Hk; [apply HK in Hk; rewrite Ek in Hk; auto|congruence].
    - inversion H; subst; auto.
    - destruct (negb (s_sub s)); [inversion H; subst; auto|].
      match type of H with (if ?c then _ else _) = _ => destruct c end; inversion H; subst; apply Hadd.
  Qed.

  Lemma keys_init : KeysInv init.
  Proof. intros k H; cbn in H; congruence. Qed.

  (* --- epoch flip *)
  Lemma epoch_flip_unsubscribes : forall s s' ps k0,
    KeysInv s -> s_conn s k0 <> None ->
    step s AEpochFlip = (s', ps) ->
    s_sub s' = false /\ (forall k, s_conn s' k = None) /\ ps = [PUnsub] /\
    (forall k e, s_ent s' k = Some e -> e_ver e = 0 /\ e_data e = false).
  Proof.
    intros s s' ps k0 HK Hk0 H. cbn in H. pose proof (HK k0 Hk0) as Hin.
    destruct (s_keys s) as [|x t]; [destruct Hin|]. inversion H; subst; clear H. cbn.
    split; auto. split; auto. split; auto.
    intros k e He. destruct (s_ent s k); inversion He; subst; auto.
  Qed.

  (* --- all schedules *)
  (* --- bounded liveness for a late joiner.  The entry of a warm key is flagged for a connection that
     is behind and not delta-ready, nothing else is in flight: ONE poll cycle (timer-driven or notified,
     the model does not distinguish them) with a responsive backend whose version is at least the
     entry's serves it - the request carries version 0, and after the response and the delivery of its
     broadcast the connection holds the backend's version and the flag is cleared. *)
  Lemma late_joiner_served : forall s k e ks bv prev dp1,
    s_ent s k = Some e -> e_nb e = true -> 0 < e_ver e -> e_ver e <= bv ->
    s_conn s k = Some ks -> ks_ver ks < e_ver e -> ks_ready ks = false ->
    s_polls s = [] -> s_bc s = [] ->
    forall s1 p1 s2 p2 s3 p3,
    step s (APollReq k) = (s1, p1) -> step s1 (APollResp 0 bv prev) = (s2, p2) -> step s2 (ADeliver 0 dp1) = (s3, p3) ->
    s_polls s1 = [(k, 0)] /\ p3 = [PFull k bv] /\ s_held s3 k = Some bv /\ s_conn s3 k = Some (mkKs bv true) /\
    (exists e', s_ent s3 k = Some e' /\ e_nb e' = false /\ e_ver e' = bv).
  Proof.
    intros s k e ks bv prev dp1 He Hnb Hv Hbv Hc Hks Hr Hp Hb s1 p1 s2 p2 s3 p3 H1 H2 H3.
    destruct s as [ent polls bc conn sub held keys]. cbn [s_ent s_polls s_bc s_conn] in *. subst polls bc.
    cbn [Keyed.step s_ent s_polls s_bc s_conn s_sub s_held s_keys] in H1. rewrite He, Hnb in H1. cbn [app] in H1.
    inversion H1; subst s1 p1; clear H1.
    cbn [Keyed.step s_ent s_polls s_bc s_conn s_sub s_held s_keys nth_error remove_nth] in H2. rewrite He, Hnb in H2.
    assert (L0 : Nat.ltb 0 (e_ver e) = true) by (apply Nat.ltb_lt; exact Hv).
    assert (Hfin : forall ent' d, s2 = mkSt ent' [] [mkBc k bv d] conn sub held keys ->
                   (d = None \/ exists pd, d = Some pd) ->
                   p3 = [PFull k bv] /\ s_held s3 k = Some bv /\ s_conn s3 k = Some (mkKs bv true) /\ s_ent s3 = ent').
    { intros ent' d -> _.
      cbn [Keyed.step s_ent s_polls s_bc s_conn s_sub s_held s_keys nth_error remove_nth] in H3.
      unfold deliver in H3. cbn [s_conn bc_key bc_ver bc_delta s_ent s_polls s_bc s_sub s_held s_keys] in H3. rewrite Hc in H3.
      assert (Lv : Nat.leb bv (ks_ver ks) = false) by (apply Nat.leb_gt; lia). rewrite Lv, Hr in H3.
      rewrite andb_false_r in H3. cbn [andb] in H3.
      destruct d as [pd|]; inversion H3; subst s3 p3; cbn [s_held s_conn s_ent];
        (split; [reflexivity|]; split; [apply upd_same|]; split; [apply upd_same|reflexivity]). }
    rewrite L0 in H2. cbn [andb] in H2.
    destruct (Nat.leb bv (e_ver e)) eqn:El.
    - apply Nat.leb_le in El. assert (Eb : bv = e_ver e) by lia. subst bv.
      destruct keep.
      + inversion H2; subst s2 p2; clear H2.
        destruct (Hfin _ None eq_refl (or_introl eq_refl)) as [A [B [C D]]].
        split; [reflexivity|]. split; [exact A|]. split; [exact B|]. split; [exact C|].
        rewrite D. eexists. split; [apply upd_same|]. split; reflexivity.
      + rewrite Nat.eqb_refl in H2. inversion H2; subst s2 p2; clear H2.
        destruct (Hfin _ None eq_refl (or_introl eq_refl)) as [A [B [C D]]].
        split; [reflexivity|]. split; [exact A|]. split; [exact B|]. split; [exact C|].
        rewrite D. eexists. split; [apply upd_same|]. split; reflexivity.
    - inversion H2; subst s2 p2; clear H2.
      match goal with |- context [mkBc k bv ?d] => idtac end || idtac.
      match type of Hfin with _ => idtac end.
      split; [reflexivity|].
      match goal with H : step (mkSt ?ent' [] [mkBc k bv ?d] conn sub held keys) _ = _ |- _ =>
        destruct (Hfin ent' d eq_refl) as [A [B [C D]]];
          [destruct d; [right; eexists; reflexivity|left; reflexivity]|]
      end.
      split; [exact A|]. split; [exact B|]. split; [exact C|].
      rewrite D. eexists. split; [apply upd_same|]. split; reflexivity.
  Qed.

  Lemma run_inv : forall l s s' pss, sound_variant -> Inv s -> run s l = (s', pss) -> Inv s'.
  Proof.
    induction l as [|a t IH]; intros s s' pss Hsv HI H; cbn in H; [inversion H; subst; auto|].
    destruct (step s a) as [s1 p] eqn:E1. destruct (run s1 t) as [s2 ps] eqn:E2. inversion H; subst.
    apply (IH s1 s' ps Hsv); [eapply step_inv; eauto|exact E2].
  Qed.

  (* every delta delivered along any schedule applies to what the client holds at that moment *)
  Lemma run_deltas_apply : forall l s, sound_variant -> Inv s ->
    forall pre a post, l = pre ++ a :: post ->
    forall s1 pss1 s2 ps k v base, run s pre = (s1, pss1) -> step s1 a = (s2, ps) ->
    In (PDelta k v base) ps -> s_held s1 k = Some base.
  Proof.
    intros l s Hsv HI pre a post _ s1 pss1 s2 ps k v base Hr Hs Hin.
    eapply step_delta_applies; eauto. eapply run_inv; eauto.
  Qed.
End KeyedProofs.

(* the variant as found (backend PrevData labelled with the entry's current version): refuted *)
Definition w_prevdata_race : list act :=
  [ASubscribe; ATrack 0 true; APollReq 0; APollResp 0 5 false; ADeliver 0 true;
   APollReq 0; APublish 0 6; ADeliver 0 true; APollResp 0 7 true; ADeliver 0 true].

Lemma refute_prevdata_race :
  let '(s, pss) := run false false init w_prevdata_race in
  last pss [] = [PDelta 0 7 5] /\ s_held s 0 = None.
Proof. vm_compute. split; reflexivity. Qed.

Lemma fixed_prevdata_race :
  let '(s, pss) := run false true init w_prevdata_race in
  last pss [] = [PFull 0 7] /\ s_held s 0 = Some 7.
Proof. vm_compute. split; reflexivity. Qed.
