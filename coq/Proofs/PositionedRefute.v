(* C01: the code as it stands (both patch flags off) violates the specification on the
   recovery paths.  Witness schedules, checked by computation; each was replayed on the
   real implementation by the C01 correspondence driver (corpus cases 2, 3, 15). *)
From Coq Require Import List NArith Bool.
From Cfg Require Import Model.Merge Model.Positioned Model.PositionedSpec Proofs.PositionedLib.
Import ListNotations.
Open Scope N_scope.

Definition P := LPublish false 100%nat.
Definition D := LDeliver 0%nat false.

(* client subscribe command, recover from the current top (2): offset 3 is lost by PUB/SUB
   inside the subscribe window, offset 4 is buffered; the reply announces 2 and carries [4] *)
Definition cfg_client_recover := mkCfg VClient true true 2 1 false false false false false false false.
Definition sched_client_drop : list label :=
  [P; P; D; D; LReserve; LStartBuf; LHubAdd; LHistRead; P; P; LDrop 0%nat; D; LSync;
   LMerge; LWriteReply; LCommit; LStopBuf; P; D; LSync; LCheck; LEnqueue].

(* same path, NO lost message: the PUB/SUB copy of offset 2 (which the client already has) is
   merely delayed into the window; the reply announces 2 and re-sends 2 *)
Definition sched_client_delay : list label :=
  [P; P; D; LReserve; LStartBuf; LHubAdd; LHistRead; D; LSync;
   LMerge; LWriteReply; LCommit; LStopBuf].

(* server-side Client.Subscribe with RecoverSince 1 of 3: no fault at all; the push announces
   1, carries nothing, the position jumps to 3 and the next live publication is 4 *)
Definition cfg_server_recover := mkCfg VServer true true 1 1 false false false false false false false.
Definition sched_server : list label :=
  [P; P; P; D; D; D; LReserve; LStartBuf; LHubAdd; LHistRead; LMerge; LCommit; LSrvPush; LStopBuf;
   P; D; LSync; LCheck; LEnqueue].

Lemma refute : forall c ls,
  (match run c init ls with Some s => negb (c01_oracle (g_log s) (log s)) | None => false end) = true ->
  exists s, run c init ls = Some s /\ ~ C01Spec (g_log s) (log s).
Proof.
  intros c ls H. destruct (run c init ls) as [s|]; [|discriminate].
  exists s. split; [reflexivity|]. intros HS. apply c01_oracle_complete in HS.
  rewrite HS in H. discriminate.
Qed.

Theorem c01_client_recover_refuted_drop :
  exists s, run cfg_client_recover init sched_client_drop = Some s /\ ~ C01Spec (g_log s) (log s).
Proof. apply refute. vm_compute. reflexivity. Qed.

Definition cfg_connect_recover := mkCfg VConnect true true 2 1 false false false false false false false.
Theorem c01_connect_recover_refuted :
  exists s, run cfg_connect_recover init sched_client_drop = Some s /\ ~ C01Spec (g_log s) (log s).
Proof. apply refute. vm_compute. reflexivity. Qed.

Theorem c01_client_recover_refuted_delay :
  exists s, run cfg_client_recover init sched_client_delay = Some s /\ ~ C01Spec (g_log s) (log s).
Proof. apply refute. vm_compute. reflexivity. Qed.

Theorem c01_server_recover_refuted :
  exists s, run cfg_server_recover init sched_server = Some s /\ ~ C01Spec (g_log s) (log s).
Proof. apply refute. vm_compute. reflexivity. Qed.

(* what the three witnesses put on the wire *)
Example witness_drop_log :
  option_map log (run cfg_client_recover init sched_client_drop)
  = Some [FSubReply true [mkP 4 1 false] 2 1; FPub (mkP 5 1 false)].
Proof. vm_compute. reflexivity. Qed.
Example witness_delay_log :
  option_map log (run cfg_client_recover init sched_client_delay)
  = Some [FSubReply true [mkP 2 1 false] 2 1].
Proof. vm_compute. reflexivity. Qed.
Example witness_server_log :
  option_map log (run cfg_server_recover init sched_server)
  = Some [FSubPush 1 1; FPub (mkP 4 1 false)].
Proof. vm_compute. reflexivity. Qed.

(* the same schedules under the patched model: the client path refuses / trims, the server
   path delivers the recovered publications after the push *)
Example patched_drop :
  option_map pc (run (mkCfg VClient true true 2 1 false true false false false false false) init
     [P; P; D; D; LReserve; LStartBuf; LHubAdd; LHistRead; P; P; LDrop 0%nat; D; LSync; LMerge])
  = Some SFailStop.
Proof. vm_compute. reflexivity. Qed.
Example patched_delay :
  option_map log (run (mkCfg VClient true true 2 1 false true false false false false false) init sched_client_delay)
  = Some [FSubReply true [] 2 1].
Proof. vm_compute. reflexivity. Qed.
Example patched_server :
  option_map log (run (mkCfg VServer true true 1 1 false true true false false false false) init sched_server)
  = Some [FSubPush 1 1; FPub (mkP 2 1 false); FPub (mkP 3 1 false); FPub (mkP 4 1 false)].
Proof. vm_compute. reflexivity. Qed.
