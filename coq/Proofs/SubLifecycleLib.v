(* Basic lemmas for Model/SubLifecycle.v: association lists, pointwise updates,
   projections of the primitive state updates. *)
From Coq Require Import List NArith ZArith Bool Lia.
From Cfg Require Import Model.SubLifecycle.
Import ListNotations.
Open Scope N_scope.

Lemma lookup_remove {V} k k' (m : amap V) :
  lookup k (remove k' m) = if k =? k' then None else lookup k m.
Proof.
  induction m as [|[a v] m IH]; cbn.
  - destruct (k =? k'); reflexivity.
  - destruct (N.eqb_spec k' a); subst.
    + rewrite IH. destruct (N.eqb_spec k a); reflexivity.
    + cbn. rewrite IH. destruct (N.eqb_spec k a); subst.
      * destruct (N.eqb_spec a k'); [congruence|reflexivity].
      * reflexivity.
Qed.

Lemma lookup_insert {V} k k' (v : V) m :
  lookup k (insert k' v m) = if k =? k' then Some v else lookup k m.
Proof.
  unfold insert. cbn. rewrite lookup_remove. destruct (k =? k'); reflexivity.
Qed.

Lemma in_keys_lookup {V} k (m : amap V) : In k (keys m) <-> lookup k m <> None.
Proof.
  induction m as [|[a v] m IH]; cbn.
  - split; [tauto|congruence].
  - destruct (N.eqb_spec k a); subst.
    + split; [congruence|auto].
    + rewrite <- IH. split; [intros [?|?]; [congruence|auto]|auto].
Qed.

Lemma upd_same {V} (f : N -> V) k v : upd f k v k = v.
Proof. unfold upd. rewrite N.eqb_refl. reflexivity. Qed.
Lemma upd_other {V} (f : N -> V) k v x : x <> k -> upd f k v x = f x.
Proof. unfold upd. intros. destruct (N.eqb_spec x k); congruence. Qed.

Ltac eqb_cases :=
  repeat match goal with
  | |- context [N.eqb ?a ?b] => destruct (N.eqb_spec a b); subst
  | H : context [N.eqb ?a ?b] |- _ => destruct (N.eqb_spec a b); subst
  end.

Ltac inv H := inversion H; subst; clear H.
