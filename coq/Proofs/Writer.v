(* Invariant of the writer transition system (Model/Writer.v) for ALL schedules. *)
From Coq Require Import List NArith ZArith Bool Arith Lia.
From Cfg Require Import Model.RingQueue Model.RingQueueSpec Proofs.RingQueueLib Proofs.RingQueue Model.Writer.
Import ListNotations.

Definition infl (o : option nat) (th : list (nat * pc)) : list item :=
  match o with
  | Some t => match getpc th t with Some p => items_of p | None => [] end
  | None => []
  end.

Lemma inflight_infl s : inflight s = infl (owner s) (thr s).
Proof. reflexivity. Qed.

Lemma infl_self t p th : infl (Some t) ((t, p) :: th) = items_of p.
Proof. unfold infl. cbn. rewrite Nat.eqb_refl. reflexivity. Qed.

Lemma infl_keep o th t p p' :
  getpc th t = Some p -> items_of p = [] -> items_of p' = [] -> infl o ((t, p') :: th) = infl o th.
Proof.
  intros Hg H1 H2. destruct o as [o|]; cbn; auto. destruct (t =? o) eqn:E; auto.
  apply Nat.eqb_eq in E. subst o. rewrite Hg, H1, H2. reflexivity.
Qed.

Lemma infl_spawn o th t p' :
  getpc th t = None -> items_of p' = [] -> infl o ((t, p') :: th) = infl o th.
Proof.
  intros Hg H2. destruct o as [o|]; cbn; auto. destruct (t =? o) eqn:E; auto.
  apply Nat.eqb_eq in E. subst o. rewrite Hg, H2. reflexivity.
Qed.

Lemma infl_owner th t p : getpc th t = Some p -> infl (Some t) th = items_of p.
Proof. intros H. unfold infl. rewrite H. reflexivity. Qed.

Record WInv (s : wst) : Prop := mkWInv {
  wi_q : RInv (wq s);
  wi_data : exists rest, attempted s ++ infl (owner s) (thr s) ++ abs (wq s) ++ rest = enq s /\
                         (noflush s = false -> rest = []);
  wi_hold : forall t p, getpc (thr s) t = Some p -> holding p = true -> owner s = Some t;
  wi_closing : forall t p, getpc (thr s) t = Some p -> closing p = true ->
                           wclosed s = true /\ noflush s = false /\ flushdone s = false;
  wi_flags : wclosed s = false -> noflush s = false /\ flushdone s = false;
  wi_nf : noflush s = true -> qclosed (wq s) = true;
  wi_fd : flushdone s = true -> qclosed (wq s) = true /\ noflush s = false /\ infl (owner s) (thr s) = [];
  wi_cw : forall t is, getpc (thr s) t = Some (CWrite is) -> qclosed (wq s) = true
}.

Lemma attempted_add_log s b e : attempted (add_log s b e) = attempted s ++ b.
Proof.
  unfold attempted, add_log; cbn. rewrite map_app, concat_app. cbn. rewrite app_nil_r. reflexivity.
Qed.

Lemma WInv_init c : 1 <= c_initcap c -> WInv (winit c).
Proof.
  intros H. destruct (RInv_new (c_initcap c) H) as (HI & HA).
  constructor; cbn; auto; try discriminate; try (intros; split; reflexivity).
  - exists []. split; auto.
  - intros t p Hg Hh. destruct (c_mode c); destruct t; cbn in Hg; try discriminate;
      injection Hg as <-; discriminate.
  - intros t p Hg Hh. destruct (c_mode c); destruct t; cbn in Hg; try discriminate;
      injection Hg as <-; discriminate.
  - intros t p Hg. destruct (c_mode c); destruct t; cbn in Hg; discriminate.
Qed.

(* ---- frame lemmas ---- *)
Definition same_ctl (s s1 : wst) : Prop :=
  wlog s1 = wlog s /\ owner s1 = owner s /\ wclosed s1 = wclosed s /\ thr s1 = thr s /\
  enq s1 = enq s /\ noflush s1 = noflush s /\ flushdone s1 = flushdone s.
Definition same_q (q q1 : rq) : Prop := RInv q1 /\ abs q1 = abs q /\ qclosed q1 = qclosed q.

Lemma same_q_refl q : RInv q -> same_q q q.
Proof. intros. split; [assumption|split; reflexivity]. Qed.

Lemma WInv_equiv s s1 : WInv s -> same_ctl s s1 -> same_q (wq s) (wq s1) -> WInv s1.
Proof.
  intros [HI Hd Hh Hc Hf Hn Hfd Hcw] (E1 & E2 & E3 & E4 & E5 & E6 & E7) (Q1 & Q2 & Q3).
  constructor; unfold attempted in *; rewrite ?E1, ?E2, ?E3, ?E4, ?E5, ?E6, ?E7, ?Q2, ?Q3; eauto.
Qed.

Ltac pc_cases t t0 H :=
  cbn [thr set_pc getpc] in H; destruct (t =? t0) eqn:?E;
  [apply Nat.eqb_eq in E; subst t0; injection H as <- | apply Nat.eqb_neq in E].

Ltac cw_goal t :=
  let t0 := fresh "t0" in let is0 := fresh "is0" in let H := fresh "H" in
  intros t0 is0 H; cbn [thr set_pc getpc] in H; destruct (t =? t0) eqn:?E;
  [ try discriminate; try (inversion H; subst; discriminate) | eauto ].

(* a move of thread t that neither acquires nor releases writer.mu and does not touch data *)
Lemma pres_plain s t p' :
  WInv s ->
  (getpc (thr s) t = None \/
   exists p, getpc (thr s) t = Some p /\ items_of p = [] /\ (holding p' = true -> holding p = true)) ->
  (getpc (thr s) t = None -> holding p' = false) ->
  closing p' = false -> items_of p' = [] ->
  WInv (set_pc s t p').
Proof.
  intros [HI Hd Hh Hc Hf Hn Hfd Hcw] Hp Hsp Hcl Hit.
  assert (Einfl : infl (owner s) ((t, p') :: thr s) = infl (owner s) (thr s)).
  { destruct Hp as [Hp|(p & Hp & Hp1 & _)]; [apply infl_spawn|eapply infl_keep]; eauto. }
  constructor; cbn [wq set_pc owner thr wclosed noflush flushdone enq]; auto.
  - change (attempted (set_pc s t p')) with (attempted s). rewrite Einfl. exact Hd.
  - intros t0 p0 H Hho. pc_cases t t0 H.
    + destruct Hp as [Hp|(p & Hp & _ & Hp2)]; [rewrite Hsp in Hho by auto; discriminate|].
      apply (Hh t p); auto.
    + apply (Hh t0 p0); auto.
  - intros t0 p0 H Hho. pc_cases t t0 H; [congruence|]. apply (Hc t0 p0); auto.
  - rewrite Einfl. exact Hfd.
  - cw_goal t.
Qed.

Lemma pres_lock s t p' :
  WInv s -> owner s = None ->
  closing p' = false -> items_of p' = [] ->
  WInv (set_pc (set_owner s (Some t)) t p').
Proof.
  intros [HI Hd Hh Hc Hf Hn Hfd Hcw] Ho Hcl Hit.
  assert (Einfl : infl (Some t) ((t, p') :: thr s) = infl (owner s) (thr s)).
  { rewrite infl_self, Ho, Hit. reflexivity. }
  constructor; cbn [wq set_pc set_owner owner thr wclosed noflush flushdone enq]; auto.
  - change (attempted (set_pc (set_owner s (Some t)) t p')) with (attempted s). rewrite Einfl. exact Hd.
  - intros t0 p0 H Hho. pc_cases t t0 H; auto.
    specialize (Hh t0 p0 H Hho). congruence.
  - intros t0 p0 H Hho. pc_cases t t0 H; [congruence|]. apply (Hc t0 p0); auto.
  - rewrite Einfl. exact Hfd.
  - cw_goal t.
Qed.

Lemma pres_unlock s t p p' :
  WInv s -> getpc (thr s) t = Some p -> holding p = true -> items_of p = [] ->
  holding p' = false -> closing p' = false -> items_of p' = [] ->
  WInv (set_pc (set_owner s None) t p').
Proof.
  intros [HI Hd Hh Hc Hf Hn Hfd Hcw] Hp Hho Hi0 Hh' Hcl Hit.
  pose proof (Hh t p Hp Hho) as Ho.
  assert (Einfl : infl None ((t, p') :: thr s) = infl (owner s) (thr s)).
  { rewrite Ho, (infl_owner _ _ _ Hp), Hi0. reflexivity. }
  constructor; cbn [wq set_pc set_owner owner thr wclosed noflush flushdone enq]; auto.
  - change (attempted (set_pc (set_owner s None) t p')) with (attempted s). rewrite Einfl. exact Hd.
  - intros t0 p0 H Hho0. pc_cases t t0 H; [congruence|].
    specialize (Hh t0 p0 H Hho0). congruence.
  - intros t0 p0 H Hho0. pc_cases t t0 H; [congruence|]. apply (Hc t0 p0); auto.
  - rewrite Einfl. exact Hfd.
  - cw_goal t.
Qed.

(* the lock holder removes [items] from the head of the queue *)
Lemma pres_remove s t p p' q' items :
  WInv s -> getpc (thr s) t = Some p -> holding p = true -> items_of p = [] ->
  RInv q' -> abs (wq s) = items ++ abs q' -> qclosed q' = qclosed (wq s) ->
  holding p' = true -> closing p' = false -> items_of p' = items ->
  WInv (set_pc (set_q s q') t p').
Proof.
  intros [HI Hd Hh Hc Hf Hn Hfd Hcw] Hp Hho Hi0 HI' Ha Hq Hh' Hcl Hit.
  pose proof (Hh t p Hp Hho) as Ho.
  assert (E0 : infl (owner s) (thr s) = []) by (rewrite Ho, (infl_owner _ _ _ Hp); auto).
  assert (Einfl : infl (owner s) ((t, p') :: thr s) = items) by (rewrite Ho, infl_self; auto).
  constructor; cbn [wq set_pc set_q owner thr wclosed noflush flushdone enq]; auto.
  - change (attempted (set_pc (set_q s q') t p')) with (attempted s). rewrite Einfl.
    destruct Hd as (rest & Hd & Hr). exists rest. split; auto.
    rewrite <- Hd, E0, Ha, <- !app_assoc. reflexivity.
  - intros t0 p0 H Hho0. pc_cases t t0 H; auto. apply (Hh t0 p0); auto.
  - intros t0 p0 H Hho0. pc_cases t t0 H; [congruence|]. apply (Hc t0 p0); auto.
  - rewrite Hq. auto.
  - rewrite Hq, Einfl. intros Hf1. destruct (Hfd Hf1) as (Hc1 & Hn1 & _). repeat split; auto.
    destruct (RInv_closed _ HI Hc1) as (_ & _ & Ha0). rewrite Ha0 in Ha.
    symmetry in Ha. apply app_eq_nil in Ha. apply Ha.
  - rewrite Hq. cw_goal t.
Qed.

(* the lock holder hands its batch to the transport *)
Lemma pres_write s t p p' err :
  WInv s -> getpc (thr s) t = Some p -> holding p = true -> closing p = false ->
  holding p' = true -> closing p' = false -> items_of p' = [] ->
  WInv (set_pc (add_log s (items_of p) err) t p').
Proof.
  intros [HI Hd Hh Hc Hf Hn Hfd Hcw] Hp Hho Hcl0 Hh' Hcl Hit.
  pose proof (Hh t p Hp Hho) as Ho.
  assert (E0 : infl (owner s) (thr s) = items_of p) by (rewrite Ho, (infl_owner _ _ _ Hp); auto).
  assert (Einfl : infl (owner s) ((t, p') :: thr s) = []) by (rewrite Ho, infl_self; auto).
  constructor; cbn [wq set_pc add_log owner thr wclosed noflush flushdone enq]; auto.
  - change (attempted (set_pc (add_log s (items_of p) err) t p')) with (attempted (add_log s (items_of p) err)).
    rewrite attempted_add_log, Einfl. destruct Hd as (rest & Hd & Hr). exists rest. split; auto.
    rewrite <- Hd, E0, <- !app_assoc. reflexivity.
  - intros t0 p0 H Hho0. pc_cases t t0 H; auto. apply (Hh t0 p0); auto.
  - intros t0 p0 H Hho0. pc_cases t t0 H; [congruence|]. apply (Hc t0 p0); auto.
  - rewrite Einfl. intros Hf1. destruct (Hfd Hf1) as (Hc1 & Hn1 & _). auto.
  - cw_goal t.
Qed.

(* a producer's Add / AddMany accepted [is] *)
Lemma pres_enq s t q' is :
  WInv s -> getpc (thr s) t = None ->
  RInv q' -> abs q' = abs (wq s) ++ is -> qclosed q' = false -> qclosed (wq s) = false ->
  WInv (set_pc (add_enq (set_q s q') is) t PAdded).
Proof.
  intros [HI Hd Hh Hc Hf Hn Hfd Hcw] Hp HI' Ha Hq Hq0.
  assert (Einfl : infl (owner s) ((t, PAdded) :: thr s) = infl (owner s) (thr s)) by (apply infl_spawn; auto).
  assert (Hnf : noflush s = false).
  { destruct (noflush s) eqn:E; auto. rewrite Hn in Hq0 by auto. discriminate. }
  constructor; cbn [wq set_pc add_enq set_q owner thr wclosed noflush flushdone enq]; auto.
  - change (attempted (set_pc (add_enq (set_q s q') is) t PAdded)) with (attempted s). rewrite Einfl.
    destruct Hd as (rest & Hd & Hr). rewrite (Hr Hnf) in *. exists []. split; auto.
    rewrite <- Hd, Ha, !app_nil_r, <- !app_assoc. reflexivity.
  - intros t0 p0 H Hho0. pc_cases t t0 H; [discriminate|]. apply (Hh t0 p0); auto.
  - intros t0 p0 H Hho0. pc_cases t t0 H; [discriminate|]. apply (Hc t0 p0); auto.
  - intros Hx. congruence.
  - intros Hf1. destruct (Hfd Hf1) as (Hc1 & _). congruence.
  - intros t0 is0 H. cbn [thr set_pc getpc] in H. destruct (t =? t0); [discriminate|].
    rewrite (Hcw t0 is0 H) in Hq0. discriminate.
Qed.

(* ---- close ---- *)
Ltac others_not_holding t Hh Ho :=
  let t0 := fresh "t0" in let p0 := fresh "p0" in let H := fresh "H" in let Hho := fresh "Hho" in
  intros t0 p0 H Hho; pc_cases t t0 H; [try discriminate|];
  let Hx := fresh in pose proof (Hh t0 p0 H) as Hx;
  destruct p0; try discriminate; specialize (Hx eq_refl); congruence.

Lemma pres_c0_close s t flush :
  WInv s -> owner s = None -> wclosed s = false ->
  WInv (set_pc (set_wclosed (set_owner s (Some t))) t (CCloseQ flush)).
Proof.
  intros [HI Hd Hh Hc Hf Hn Hfd Hcw] Ho Hw. destruct (Hf Hw) as (Hnf & Hfl).
  assert (Einfl : infl (Some t) ((t, CCloseQ flush) :: thr s) = infl (owner s) (thr s)).
  { rewrite infl_self, Ho. reflexivity. }
  constructor; cbn [wq set_pc set_owner set_wclosed owner thr wclosed noflush flushdone enq]; auto.
  - change (attempted (set_pc (set_wclosed (set_owner s (Some t))) t (CCloseQ flush))) with (attempted s).
    rewrite Einfl. exact Hd.
  - intros t0 p0 H Hho. pc_cases t t0 H; auto. specialize (Hh t0 p0 H Hho). congruence.
  - rewrite Einfl. exact Hfd.
  - cw_goal t.
Qed.

Lemma pres_closeq_flush s t q' :
  WInv s -> getpc (thr s) t = Some (CCloseQ true) ->
  RInv q' -> qclosed q' = true ->
  (abs (wq s) = [] -> WInv (set_pc (set_flushdone (set_q s q')) t CUnlock)) /\
  WInv (set_pc (set_q s q') t (CWrite (abs (wq s)))).
Proof.
  intros [HI Hd Hh Hc Hf Hn Hfd Hcw] Hp HI' Hq.
  pose proof (Hh t _ Hp eq_refl) as Ho. destruct (Hc t _ Hp eq_refl) as (Hw & Hnf & Hfl).
  assert (E0 : infl (owner s) (thr s) = []) by (rewrite Ho, (infl_owner _ _ _ Hp); auto).
  destruct (RInv_closed _ HI' Hq) as (_ & _ & Ha').
  split; [intros Ha|].
  - assert (Einfl : infl (owner s) ((t, CUnlock) :: thr s) = []) by (rewrite Ho, infl_self; auto).
    constructor; cbn [wq set_pc set_q set_flushdone owner thr wclosed noflush flushdone enq]; auto.
    + change (attempted (set_pc (set_flushdone (set_q s q')) t CUnlock)) with (attempted s). rewrite Einfl, Ha'.
      destruct Hd as (rest & Hd & Hr). exists rest. split; auto. rewrite <- Hd, E0, Ha. reflexivity.
    + intros t0 p0 H Hho. pc_cases t t0 H; auto. apply (Hh t0 p0); auto.
    + others_not_holding t Hh Ho.
    + congruence.
  - assert (Einfl : infl (owner s) ((t, CWrite (abs (wq s))) :: thr s) = abs (wq s)) by (rewrite Ho, infl_self; auto).
    constructor; cbn [wq set_pc set_q owner thr wclosed noflush flushdone enq]; auto.
    + change (attempted (set_pc (set_q s q') t (CWrite (abs (wq s))))) with (attempted s). rewrite Einfl, Ha'.
      destruct Hd as (rest & Hd & Hr). exists rest. split; auto. rewrite <- Hd, E0. cbn. reflexivity.
    + intros t0 p0 H Hho. pc_cases t t0 H; auto. apply (Hh t0 p0); auto.
    + congruence.
Qed.

Lemma pres_closeq_noflush s t :
  WInv s -> getpc (thr s) t = Some (CCloseQ false) ->
  WInv (set_pc (set_noflush (set_q s (close (wq s))) true) t CUnlock).
Proof.
  intros [HI Hd Hh Hc Hf Hn Hfd Hcw] Hp.
  pose proof (Hh t _ Hp eq_refl) as Ho. destruct (Hc t _ Hp eq_refl) as (Hw & Hnf & Hfl).
  assert (E0 : infl (owner s) (thr s) = []) by (rewrite Ho, (infl_owner _ _ _ Hp); auto).
  destruct (close_ref _ HI) as (HI' & _).
  assert (Einfl : infl (owner s) ((t, CUnlock) :: thr s) = []) by (rewrite Ho, infl_self; auto).
  constructor; cbn [wq set_pc set_q set_noflush owner thr wclosed noflush flushdone enq]; auto.
  - change (attempted (set_pc (set_noflush (set_q s (close (wq s))) true) t CUnlock)) with (attempted s).
    rewrite Einfl. destruct Hd as (rest & Hd & Hr). exists (abs (wq s) ++ rest). split; [|discriminate].
    rewrite <- Hd, E0. reflexivity.
  - intros t0 p0 H Hho. pc_cases t t0 H; auto. apply (Hh t0 p0); auto.
  - others_not_holding t Hh Ho.
  - congruence.
  - congruence.
Qed.

Lemma pres_cwrite s t items err :
  WInv s -> getpc (thr s) t = Some (CWrite items) ->
  WInv (set_pc (set_flushdone (add_log s items err)) t CUnlock).
Proof.
  intros [HI Hd Hh Hc Hf Hn Hfd Hcw] Hp.
  pose proof (Hh t _ Hp eq_refl) as Ho. destruct (Hc t _ Hp eq_refl) as (Hw & Hnf & Hfl).
  assert (E0 : infl (owner s) (thr s) = items) by (rewrite Ho, (infl_owner _ _ _ Hp); auto).
  assert (Einfl : infl (owner s) ((t, CUnlock) :: thr s) = []) by (rewrite Ho, infl_self; auto).
  constructor; cbn [wq set_pc set_flushdone add_log owner thr wclosed noflush flushdone enq]; auto.
  - change (attempted (set_pc (set_flushdone (add_log s items err)) t CUnlock)) with (attempted (add_log s items err)).
    rewrite attempted_add_log, Einfl. destruct Hd as (rest & Hd & Hr). exists rest. split; auto.
    rewrite <- Hd, E0, <- !app_assoc. reflexivity.
  - intros t0 p0 H Hho. pc_cases t t0 H; auto. apply (Hh t0 p0); auto.
  - others_not_holding t Hh Ho.
  - congruence.
  - intros _. split; [eapply Hcw; eauto|]. auto.
  - cw_goal t.
Qed.

(* ---- queue operations, in the form needed by the writer steps ---- *)
Lemma absf_inj q q' : absf q' = absf q -> abs q' = abs q /\ qclosed q' = qclosed q.
Proof. unfold absf. intros H. injection H. auto. Qed.

Lemma finish_same q d : RInv q -> exists q', finish_collect q d = Some q' /\ same_q q q'.
Proof.
  intros HI. destruct (finish_collect_ref q d HI) as (q' & H & I' & F). exists q'. split; auto.
  cbn in F. injection F as F1 F2. split; [auto|split; congruence].
Qed.

Lemma shrink_fire_same q : RInv q -> exists q', shrink_fire q = Some q' /\ same_q q q'.
Proof.
  intros HI. destruct (shrink_fire_ref q HI) as (q' & H & I' & F). exists q'. split; auto.
  cbn in F. injection F as F1 F2. split; [auto|split; congruence].
Qed.

Definition removed (q q' : rq) (r : option (list item)) : Prop :=
  RInv q' /\ qclosed q' = qclosed q /\
  match r with None => abs q' = abs q | Some items => abs q = items ++ abs q' end.

Lemma fstep_batch_removed q q' k r :
  (match fl (absf q) with
   | [] => (absf q, OutItems None)
   | _ :: _ => (mkFifo (skipn k (fl (absf q))) (fclosed (absf q)), OutItems (Some (firstn k (fl (absf q)))))
   end) = (absf q', OutItems r) ->
  qclosed q' = qclosed q /\ match r with None => abs q' = abs q | Some items => abs q = items ++ abs q' end.
Proof.
  cbn. destruct (abs q) eqn:E; intros H.
  - injection H as H1 H2 H3. subst r. split; congruence.
  - injection H as H1 H2 H3. subst r. split; [congruence|]. rewrite <- H1. symmetry. apply firstn_skipn.
Qed.

Lemma remove_into_removed q b m : RInv q ->
  exists q' r, remove_many_into q b m = Some (q', r) /\ removed q q' r.
Proof.
  intros HI. destruct (remove_many_into_ref q b m HI) as (q' & r & H & I' & F).
  exists q', r. split; auto. split; auto. cbn [fstep] in F. apply fstep_batch_removed in F. exact F.
Qed.

Lemma remove_into_shrink_removed q b m : RInv q ->
  exists q' r, remove_many_into_shrink q b m = Some (q', r) /\ removed q q' r.
Proof.
  intros HI. destruct (remove_many_into_shrink_ref q b m HI) as (q' & r & H & I' & F).
  exists q', r. split; auto. split; auto. cbn [fstep] in F. apply fstep_batch_removed in F. exact F.
Qed.

Definition added (q q' : rq) (is : list item) (ok : bool) : Prop :=
  RInv q' /\
  if ok then qclosed q = false /\ qclosed q' = false /\ abs q' = abs q ++ is
  else qclosed q = true /\ same_q q q'.

Lemma add_added q i : RInv q -> exists q' ok, add q i = Some (q', ok) /\ added q q' [i] ok.
Proof.
  intros HI. destruct (add_ref q i HI) as (q' & ok & H & I' & F). exists q', ok. split; auto. split; auto.
  cbn in F. destruct (qclosed q) eqn:Ec; injection F as F1 F2 F3; subst ok.
  - split; [auto|]. split; [auto|split; congruence].
  - repeat split; congruence.
Qed.

Lemma add_many_added q is : RInv q -> exists q' ok, add_many q is = Some (q', ok) /\ added q q' is ok.
Proof.
  intros HI. destruct (add_many_ref q is HI) as (q' & ok & H & I' & F). exists q', ok. split; auto. split; auto.
  cbn in F. destruct (qclosed q) eqn:Ec; injection F as F1 F2 F3; subst ok.
  - split; [auto|]. split; [auto|split; congruence].
  - repeat split; congruence.
Qed.

Lemma close_remaining_all q : RInv q ->
  exists q', close_remaining q = Some (q', abs q) /\ RInv q' /\ qclosed q' = true.
Proof.
  intros HI. destruct (close_remaining_ref q HI) as (q' & r & H & I' & F).
  cbn in F. destruct (qclosed q) eqn:Ec; injection F as F1 F2 F3; subst r.
  - destruct (RInv_closed q HI Ec) as (_ & _ & A0).
    exists q'. rewrite A0. split; auto. split; auto. congruence.
  - exists q'. auto.
Qed.

Lemma WInv_set_q s q' : WInv s -> same_q (wq s) q' -> WInv (set_q s q').
Proof. intros H Q. eapply WInv_equiv; eauto. repeat split. Qed.
Lemma WInv_set_timer s a b : WInv s -> WInv (set_timer s a b).
Proof. intros H. eapply WInv_equiv; eauto. repeat split. apply same_q_refl, H. Qed.
Lemma WInv_set_closeCh s : WInv s -> WInv (set_closeCh s).
Proof. intros H. eapply WInv_equiv; eauto. repeat split. apply same_q_refl, H. Qed.

(* ---- every atomic action preserves the invariant and never panics ---- *)
Definition ok_res (r : res) : Prop :=
  match r with Next s' => WInv s' | Blocked => True | Panic => False end.

Ltac plain_on s1 HW Hp :=
  apply (pres_plain s1);
  [ exact HW
  | right; eexists; split; [exact Hp|split; [reflexivity|try (intros _; reflexivity); try discriminate]]
  | let Hx := fresh in intros Hx; cbn [thr set_q set_timer] in Hx; rewrite Hx in Hp; discriminate
  | reflexivity | reflexivity ].
Ltac plain_some Hp :=
  match goal with HW : WInv ?s |- WInv (set_pc ?s _ _) => plain_on s HW Hp end.

Lemma finish_ok c s k : WInv s ->
  (forall q', same_q (wq s) q' -> ok_res (k (set_q s q'))) -> ok_res (finish c s k).
Proof.
  intros HW Hk. unfold finish. destruct (finish_same (wq s) (c_shrink_delayed c) (wi_q _ HW)) as (q' & H & Q).
  rewrite H. cbn [qdo]. auto.
Qed.

Lemma step_thread_ok c s t p :
  WInv s -> getpc (thr s) t = Some p -> ok_res (step_thread c s t p).
Proof.
  intros HW Hp. pose proof (wi_q _ HW) as HI.
  destruct p; cbn [step_thread ok_res]; auto.
  - (* PAdded *)
    destruct ((0 <? c_maxq c)%Z && (c_maxq c <? qsize (wq s))%Z); [|destruct (c_mode c)]; cbn; plain_some Hp.
  - (* PSched *)
    destruct (owner s) eqn:Eo; cbn; auto.
    destruct (negb (wclosed s) && negb (tsched s)).
    + pose proof (WInv_set_timer s true true HW) as HW1.
      plain_on (set_timer s true true) HW1 Hp.
    + plain_some Hp.
  - (* G0 *)
    destruct (qclosed (wq s)); [cbn; plain_some Hp|].
    destruct (cnt (wq s) =? 0); cbn; auto. unfold after_wait. destruct (c_mode c); plain_some Hp.
  - (* GDelayChk *)
    destruct (c_max c) as [m|]; [destruct (cnt (wq s) <? m)|]; cbn; plain_some Hp.
  - (* GDelayWait *)
    destruct (closeCh s); cbn; auto. plain_some Hp.
  - (* GFinishExit *)
    apply finish_ok; auto. intros q' Q. cbn.
    pose proof (WInv_set_q s q' HW Q) as HW1.
    plain_on (set_q s q') HW1 Hp.
  - (* GLock *)
    unfold lock. destruct (owner s) eqn:Eo; cbn; auto.
    destruct (c_max c); apply pres_lock; auto.
  - (* GLen *)
    destruct (cnt (wq s) =? 0); cbn.
    + destruct (c_mode c); eapply pres_unlock; eauto.
    + plain_some Hp.
  - (* GRemove *)
    assert (exists q' r, (match c_mode c with
              | MDelay => remove_many_into (wq s) bufSize (Some bufSize)
              | _ => remove_many_into_shrink (wq s) bufSize (Some bufSize) end) = Some (q', r) /\
              removed (wq s) q' r) as (q' & r & H & (I' & Hc & Ha)).
    { destruct (c_mode c); [apply remove_into_shrink_removed|apply remove_into_removed|apply remove_into_shrink_removed]; auto. }
    rewrite H. cbn [qdo]. destruct r as [items|]; cbn.
    + eapply pres_remove; eauto.
    + assert (HW1 : WInv (set_q s q')) by (apply WInv_set_q; [exact HW|split; [exact I'|split; assumption]]).
      destruct (c_mode c); eapply (pres_unlock (set_q s q')); eauto.
  - (* GUnlock *)
    destruct (c_mode c); [destruct err| |destruct err]; eapply pres_unlock; eauto.
  - (* GFinish *)
    apply finish_ok; auto. intros q' Q. cbn.
    pose proof (WInv_set_q s q' HW Q) as HW1.
    destruct err; plain_on (set_q s q') HW1 Hp.
  - (* GClosedChk *)
    destruct (qclosed (wq s)); plain_some Hp.
  - (* GClosedChkFC *)
    apply finish_ok; auto. intros q' Q. cbn.
    pose proof (WInv_set_q s q' HW Q) as HW1.
    plain_on (set_q s q') HW1 Hp.
  - (* F0 *)
    unfold lock. destruct (owner s) eqn:Eo; cbn; auto.
    apply (pres_lock (set_timer s false (tarmed s))); auto using WInv_set_timer.
  - (* FLen *)
    destruct (cnt (wq s) =? 0); cbn.
    + eapply pres_unlock; eauto.
    + plain_some Hp.
  - (* FRemove *)
    destruct (remove_into_removed (wq s) bufSize (Some bufSize) HI) as (q' & r & H & (I' & Hc & Ha)).
    rewrite H. cbn [qdo]. destruct r as [items|]; cbn.
    + eapply pres_remove; eauto.
    + assert (HW1 : WInv (set_q s q')) by (apply WInv_set_q; [exact HW|split; [exact I'|split; assumption]]).
      eapply (pres_unlock (set_q s q')); eauto.
  - (* FRearm *)
    destruct (negb err && negb (cnt (wq s) =? 0) && negb (wclosed s) && negb (tsched s)).
    + eapply (pres_unlock (set_timer s true true)); eauto using WInv_set_timer.
    + eapply pres_unlock; eauto.
  - (* FFinish *)
    apply finish_ok; auto. intros q' Q. cbn.
    pose proof (WInv_set_q s q' HW Q) as HW1.
    plain_on (set_q s q') HW1 Hp.
  - (* C0 *)
    unfold lock. destruct (owner s) eqn:Eo; cbn; auto.
    cbn [wclosed set_owner]. destruct (wclosed s) eqn:Ew; cbn.
    + apply (WInv_equiv (set_pc s t CDone)); [plain_on s HW Hp| |apply same_q_refl; exact HI].
      unfold same_ctl; cbn. rewrite Eo. repeat split; reflexivity.
    + apply pres_c0_close; auto.
  - (* CCloseQ *)
    destruct flush.
    + destruct (close_remaining_all (wq s) HI) as (q' & H & I' & Hc). rewrite H. cbn [qdo].
      destruct (pres_closeq_flush s t q' HW Hp I' Hc) as (P1 & P2).
      destruct (abs (wq s)) eqn:Ea; cbn; auto.
    + cbn. apply pres_closeq_noflush; auto.
  - (* CUnlock *)
    eapply (pres_unlock (set_closeCh s)); eauto using WInv_set_closeCh.
Qed.

Lemma astep_ok c s l : WInv s -> ok_res (astep c s l).
Proof.
  intros HW. pose proof (wi_q _ HW) as HI. destruct l; cbn [astep].
  - (* LEnq *)
    destruct (getpc (thr s) t) eqn:Hp; cbn; auto.
    assert (forall q' ok, added (wq s) q' is ok ->
              ok_res (if ok then Next (set_pc (add_enq (set_q s q') is) t PAdded)
                      else Next (set_pc (set_q s q') t (PDone RClosed)))) as Hk.
    { intros q' ok (I' & Hok). destruct ok; cbn.
      - destruct Hok as (H1 & H2 & H3). apply pres_enq; auto.
      - destruct Hok as (_ & Hok). pose proof (WInv_set_q s q' HW Hok) as HW1.
        apply (pres_plain (set_q s q')); auto. }
    destruct many.
    + destruct (add_many_added (wq s) is HI) as (q' & ok & H & A). rewrite H. cbn [qdo]. auto.
    + destruct is as [|i [|]]; cbn; auto.
      destruct (add_added (wq s) i HI) as (q' & ok & H & A). rewrite H. cbn [qdo]. auto.
  - (* LClose *)
    destruct (getpc (thr s) t) eqn:Hp; cbn; auto. apply pres_plain; auto.
  - (* LTimerFire *)
    destruct (getpc (thr s) t) eqn:Hp; cbn; auto. destruct (tarmed s); cbn; auto.
    apply (pres_plain (set_timer s (tsched s) false)); auto using WInv_set_timer.
  - (* LShrinkFire *)
    destruct (shrinkArmed (wq s)); cbn; auto.
    destruct (shrink_fire_same (wq s) HI) as (q' & H & Q). rewrite H. cbn. apply WInv_set_q; auto.
  - (* LStep *)
    destruct (getpc (thr s) t) eqn:Hp; cbn; auto. apply step_thread_ok; auto.
  - (* LWake *)
    destruct (getpc (thr s) t) eqn:Hp; cbn; auto. destruct p; cbn; auto.
    unfold after_wait. destruct (c_mode c); plain_some Hp.
  - (* LDelay *)
    destruct (getpc (thr s) t) eqn:Hp; cbn; auto. destruct p; cbn; auto. plain_some Hp.
  - (* LWrite *)
    destruct (getpc (thr s) t) eqn:Hp; cbn; auto. destruct p; cbn; auto.
    + apply (pres_write s t (GWrite items) (GUnlock err) err); auto.
    + apply (pres_write s t (FWrite items) (FRearm err) err); auto.
    + apply pres_cwrite; auto.
Qed.

Theorem wrun_inv c sched : forall s, WInv s -> ok_res (wrun c s sched).
Proof.
  induction sched as [|l sched IH]; intros s HW; cbn [wrun]; auto.
  pose proof (astep_ok c s l HW) as H. destruct (astep c s l); cbn in *; auto.
Qed.

(* ---------------------------------------------------------------- property lemmas *)
Definition reachable (c : wcfg) (s : wst) : Prop := exists sched, wrun c (winit c) sched = Next s.

Lemma reachable_inv c s : 1 <= c_initcap c -> reachable c s -> WInv s.
Proof.
  intros Hc (sched & H). pose proof (wrun_inv c sched (winit c) (WInv_init c Hc)) as R.
  rewrite H in R. exact R.
Qed.

Lemma no_panic c sched : 1 <= c_initcap c -> wrun c (winit c) sched <> Panic.
Proof.
  intros Hc H. pose proof (wrun_inv c sched (winit c) (WInv_init c Hc)) as R. rewrite H in R. exact R.
Qed.

Lemma inv_prefix s : WInv s -> exists rest, attempted s ++ rest = enq s.
Proof.
  intros HW. destruct (wi_data _ HW) as (rest & H & _). eexists. rewrite <- H. reflexivity.
Qed.

Lemma inv_quiescent s : WInv s ->
  noflush s = false -> cnt (wq s) = 0 -> inflight s = [] -> attempted s = enq s.
Proof.
  intros HW Hn Hc Hi. destruct (wi_data _ HW) as (rest & H & Hr). rewrite (Hr Hn) in H.
  rewrite inflight_infl in Hi. rewrite Hi, (abs_cnt0 _ Hc) in H. cbn in H. rewrite app_nil_r in H. exact H.
Qed.

Lemma inv_close_flush s : WInv s -> flushdone s = true -> attempted s = enq s /\ qclosed (wq s) = true.
Proof.
  intros HW Hf. destruct (wi_fd _ HW Hf) as (Hc & Hn & Hi).
  destruct (wi_data _ HW) as (rest & H & Hr). rewrite (Hr Hn), Hi in H.
  destruct (RInv_closed _ (wi_q _ HW) Hc) as (_ & _ & Ha). rewrite Ha in H. cbn in H.
  rewrite app_nil_r in H. auto.
Qed.

Lemma delivered_no_failure s : write_failed s = false -> delivered s = attempted s.
Proof.
  unfold write_failed, delivered, attempted. induction (wlog s) as [|[b e] l IH]; cbn; auto.
  intros H. apply orb_false_iff in H. destruct H as [-> H]. cbn. rewrite IH; auto.
Qed.

Lemma NoDup_app_l {A} (a b : list A) : NoDup (a ++ b) -> NoDup a.
Proof.
  induction a; cbn; intros H; [constructor|]. inversion H; subst. constructor; auto.
  intros Hin. apply H2. apply in_or_app. auto.
Qed.

Lemma inv_no_dup s : WInv s -> NoDup (enq s) -> NoDup (attempted s).
Proof. intros HW H. destruct (inv_prefix s HW) as (rest & E). rewrite <- E in H. eapply NoDup_app_l; eauto. Qed.

(* the effective closer with flush: its next one or two actions complete the flush *)
Lemma closer_flush_progress c s t : WInv s -> getpc (thr s) t = Some (CCloseQ true) ->
  exists s1, astep c s (LStep t) = Next s1 /\
    (flushdone s1 = true \/
     exists items, getpc (thr s1) t = Some (CWrite items) /\
       forall e, exists s2, astep c s1 (LWrite t e) = Next s2 /\ flushdone s2 = true).
Proof.
  intros HW Hp. cbn [astep]. rewrite Hp. cbn [step_thread].
  destruct (close_remaining_all (wq s) (wi_q _ HW)) as (q' & H & _). rewrite H. cbn [qdo].
  destruct (abs (wq s)) as [|i l]; eexists; (split; [reflexivity|]).
  - left. reflexivity.
  - right. exists (i :: l). cbn [getpc thr set_pc]. rewrite Nat.eqb_refl. split; auto.
    intros e. eexists. split; reflexivity.
Qed.

(* MaxQueueSize: the check made by enqueue after a successful Add *)
Lemma slow_check c s t : WInv s -> getpc (thr s) t = Some PAdded ->
  (0 < c_maxq c)%Z -> (c_maxq c < size_of (abs (wq s)))%Z ->
  exists s', astep c s (LStep t) = Next s' /\ getpc (thr s') t = Some (PDone RSlow).
Proof.
  intros HW Hp H0 H1. cbn [astep]. rewrite Hp. cbn [step_thread].
  destruct (wi_q _ HW) as (_ & Hs & _). rewrite Hs.
  replace (0 <? c_maxq c)%Z with true by (symmetry; apply Z.ltb_lt; auto).
  replace (c_maxq c <? size_of (abs (wq s)))%Z with true by (symmetry; apply Z.ltb_lt; auto).
  cbn. eexists; split; [reflexivity|]. cbn. rewrite Nat.eqb_refl. reflexivity.
Qed.

(* enqueue as one uninterrupted call on an open queue: Add then the size check *)
Lemma slow_sequential c s t is many : WInv s -> qclosed (wq s) = false ->
  getpc (thr s) t = None -> (many = false -> exists i, is = [i]) ->
  (0 < c_maxq c)%Z -> (c_maxq c < size_of (abs (wq s)) + size_of is)%Z ->
  exists s1 s2, astep c s (LEnq t is many) = Next s1 /\ astep c s1 (LStep t) = Next s2 /\
                getpc (thr s2) t = Some (PDone RSlow) /\ enq s1 = enq s ++ is.
Proof.
  intros HW Hc Hp Hm H0 H1.
  assert (exists q', (if many then add_many (wq s) is else
                        match is with [i] => add (wq s) i | _ => None end) = Some (q', true) /\
                     RInv q' /\ abs q' = abs (wq s) ++ is) as (q' & H & I' & A).
  { destruct many.
    - destruct (add_many_added (wq s) is (wi_q _ HW)) as (q' & ok & H & (I' & A)).
      destruct ok; [|destruct A as (Hx & _); congruence]. exists q'. split; auto. split; auto. apply A.
    - destruct (Hm eq_refl) as (i & ->).
      destruct (add_added (wq s) i (wi_q _ HW)) as (q' & ok & H & (I' & A)).
      destruct ok; [|destruct A as (Hx & _); congruence]. exists q'. split; auto. split; auto. apply A. }
  assert (E1 : astep c s (LEnq t is many) = Next (set_pc (add_enq (set_q s q') is) t PAdded)).
  { cbn [astep]. rewrite Hp. destruct many.
    - rewrite H. reflexivity.
    - destruct (Hm eq_refl) as (i & ->). rewrite H. reflexivity. }
  pose proof (astep_ok c s (LEnq t is many) HW) as HW1. rewrite E1 in HW1. cbn in HW1.
  destruct (slow_check c _ t HW1) as (s2 & E2 & P2); auto.
  { cbn. rewrite Nat.eqb_refl. reflexivity. }
  { cbn [wq set_pc add_enq set_q]. rewrite A, size_of_app. auto. }
  eexists _, s2. split; [exact E1|]. split; [exact E2|]. split; auto.
Qed.

(* enqueue on a closed queue: ConnectionClosed, nothing is queued *)
Lemma closed_enqueue c s t is many s' : WInv s -> qclosed (wq s) = true ->
  astep c s (LEnq t is many) = Next s' ->
  getpc (thr s') t = Some (PDone RClosed) /\ enq s' = enq s /\ abs (wq s') = [] /\ wlog s' = wlog s.
Proof.
  intros HW Hc. cbn [astep]. destruct (getpc (thr s) t); [discriminate|].
  destruct (RInv_closed _ (wi_q _ HW) Hc) as (_ & _ & Ha).
  assert (forall q' ok, added (wq s) q' is ok ->
     (if ok then Next (set_pc (add_enq (set_q s q') is) t PAdded)
      else Next (set_pc (set_q s q') t (PDone RClosed))) = Next s' ->
     getpc (thr s') t = Some (PDone RClosed) /\ enq s' = enq s /\ abs (wq s') = [] /\ wlog s' = wlog s) as Hk.
  { intros q' ok (I' & A). destruct ok; [destruct A; congruence|].
    destruct A as (_ & _ & A & _). intros [= <-]. cbn. rewrite Nat.eqb_refl. repeat split; auto. congruence. }
  destruct many.
  - destruct (add_many_added (wq s) is (wi_q _ HW)) as (q' & ok & H & A). rewrite H. cbn [qdo]. eauto.
  - destruct is as [|i [|]]; try discriminate.
    destruct (add_added (wq s) i (wi_q _ HW)) as (q' & ok & H & A). rewrite H. cbn [qdo]. eauto.
Qed.
