(* C31 proofs, part B: the challenge key (base64 decoding into a fixed buffer), the handshake
   decision against the specification, negotiated subprotocol / extension were offered. *)
From Coq Require Import String List NArith Bool Arith Lia ZifyN ZifyNat.
From Cfg Require Import Gen.WsConst Model.WsHandshake Model.WsHandshakeSpec Model.WsCloseSpec Proofs.WsLib Proofs.WsHandshakeA.
Import ListNotations.
Open Scope N_scope.

(* ---------------------------------------------------------------- base64 decoding *)

Fixpoint count_b64 (s : bytes) : nat :=
  match s with [] => O | c :: r => if is_b64 c then S (count_b64 r) else count_b64 r end.

Lemma count_b64_le : forall s, (count_b64 s <= length s)%nat.
Proof. induction s as [|c r IH]; simpl; [lia|]. destruct (is_b64 c); lia. Qed.

Lemma count_b64_full : forall s, count_b64 s = length s -> forallb is_b64 s = true.
Proof.
  induction s as [|c r IH]; simpl; auto. destruct (is_b64 c) eqn:E; intro H.
  - simpl. apply IH. lia.
  - pose proof (count_b64_le r). lia.
Qed.

Lemma skip_nl_length : forall s, (length (skip_nl s) <= length s)%nat.
Proof. induction s as [|c r IH]; simpl; [lia|]. destruct (is_nl c); simpl; lia. Qed.

Lemma b64_not_nl : forall c, is_b64 c = true -> is_nl c = false.
Proof.
  intros c H. unfold is_nl. destruct (N.eqb_spec c 10) as [->|]; [vm_compute in H; discriminate|].
  destruct (N.eqb_spec c 13) as [->|]; [vm_compute in H; discriminate|]. reflexivity.
Qed.

Lemma b64_not_pad : forall c, is_b64 c = true -> (c =? 61) = false.
Proof. intros c H. destruct (N.eqb_spec c 61) as [->|]; [vm_compute in H; discriminate|reflexivity]. Qed.

Lemma b64_store_ok : forall cap n dlen m, b64_store cap n dlen = B64Ok m -> m = n + (dlen - 1).
Proof. unfold b64_store. intros. destruct (n + (dlen - 1) <=? cap); inversion H; reflexivity. Qed.

(* The accounting invariant of Decode: 4*bytes + 3*pending sextets grows by 3 per alphabet character. *)
Lemma b64_ok_shape : forall cap src j n m,
    j < 4 -> go_b64_decode cap src j n = B64Ok m ->
    exists d tail,
      src = d ++ tail /\ forallb (fun c => is_b64 c || is_nl c) d = true /\
      ( (tail = [] /\ 4 * m = 4 * n + 3 * j + 3 * N.of_nat (count_b64 d))
        \/ (exists t1 t2, tail = 61 :: t1 /\ skip_nl t1 = 61 :: t2 /\ all_nl t2 = true
                          /\ 4 * m + 2 = 4 * n + 3 * j + 3 * N.of_nat (count_b64 d))
        \/ (exists t1, tail = 61 :: t1 /\ all_nl t1 = true
                       /\ 4 * m + 1 = 4 * n + 3 * j + 3 * N.of_nat (count_b64 d)) ).
Proof.
  intros cap src. induction src as [|c rest IH]; intros j n m Hj H; simpl in H.
  - destruct (N.eqb_spec j 0) as [->|]; [|discriminate]. inversion H; subst.
    exists [], []. split; [reflexivity|]. split; [reflexivity|]. left. split; [reflexivity|]. simpl count_b64. lia.
  - destruct (is_b64 c) eqn:Eb.
    + destruct (N.eqb_spec j 3) as [->|Hj3].
      * destruct (b64_store cap n 4) as [n'| |] eqn:Es; try discriminate.
        apply b64_store_ok in Es. subst n'.
        destruct (IH 0 (n + (4 - 1)) m ltac:(lia) H) as [d [tail [E [F G]]]].
        exists (c :: d), tail. split; [simpl; rewrite E; reflexivity|].
        split; [simpl; rewrite Eb; simpl; exact F|]. simpl count_b64. rewrite Eb.
        destruct G as [[-> G]|[[t1 [t2 [-> [G1 [G2 G]]]]]|[t1 [-> [G1 G]]]]].
        -- left. split; [reflexivity|]. lia.
        -- right. left. exists t1, t2. repeat split; auto. lia.
        -- right. right. exists t1. repeat split; auto. lia.
      * destruct (IH (j + 1) n m ltac:(lia) H) as [d [tail [E [F G]]]].
        exists (c :: d), tail. split; [simpl; rewrite E; reflexivity|].
        split; [simpl; rewrite Eb; simpl; exact F|]. simpl count_b64. rewrite Eb.
        destruct G as [[-> G]|[[t1 [t2 [-> [G1 [G2 G]]]]]|[t1 [-> [G1 G]]]]].
        -- left. split; [reflexivity|]. lia.
        -- right. left. exists t1, t2. repeat split; auto. lia.
        -- right. right. exists t1. repeat split; auto. lia.
    + destruct (is_nl c) eqn:En.
      * destruct (IH j n m Hj H) as [d [tail [E [F G]]]].
        exists (c :: d), tail. split; [simpl; rewrite E; reflexivity|].
        split; [simpl; rewrite Eb, En; simpl; exact F|]. simpl count_b64. rewrite Eb. exact G.
      * destruct (N.eqb_spec c 61) as [->|]; [|discriminate].
        destruct (N.ltb_spec j 2); [discriminate|].
        destruct (N.eqb_spec j 2) as [->|Hj2].
        -- destruct (skip_nl rest) as [|c2 rest2] eqn:Esk; [discriminate|].
           destruct (N.eqb_spec c2 61) as [->|]; [|discriminate].
           destruct (all_nl rest2) eqn:Ea; [|discriminate]. simpl in H.
           apply b64_store_ok in H. subst m.
           exists [], (61 :: rest). split; [reflexivity|]. split; [reflexivity|].
           right. left. exists rest, rest2. repeat split; auto. simpl count_b64. lia.
        -- destruct (all_nl rest) eqn:Ea; [|discriminate].
           apply b64_store_ok in H. subst m.
           exists [], (61 :: rest). split; [reflexivity|]. split; [reflexivity|].
           right. right. exists rest. repeat split; auto. simpl count_b64. lia.
Qed.

Lemma skip_nl_one : forall x t2, skip_nl [x] = 61 :: t2 -> x = 61 /\ t2 = [].
Proof.
  intros x t2 H. simpl in H. destruct (is_nl x); [discriminate|]. inversion H. auto.
Qed.

Lemma firstn_app_exact : forall (a b : bytes) n, length a = n -> firstn n (a ++ b) = a.
Proof. intros a b n <-. rewrite firstn_app, Nat.sub_diag, firstn_all. simpl. apply app_nil_r. Qed.
Lemma skipn_app_exact : forall (a b : bytes) n, length a = n -> skipn n (a ++ b) = b.
Proof. intros a b n <-. rewrite skipn_app, Nat.sub_diag, skipn_all. reflexivity. Qed.

(* Decode reports exactly 16 bytes for a 24 character string only for 22 alphabet characters + "==" *)
Lemma key_ok_valid : forall cap s,
    length s = 24%nat -> go_b64_decode cap s 0 0 = B64Ok 16 -> valid_key s = true.
Proof.
  intros cap s Hl H.
  destruct (b64_ok_shape cap s 0 0 16 ltac:(lia) H) as [d [tail [E [F G]]]].
  pose proof (count_b64_le d) as Hc.
  assert (Hlen : (length d + length tail = 24)%nat) by (rewrite <- Hl, E, app_length; reflexivity).
  destruct G as [[-> G]|[[t1 [t2 [-> [G1 [G2 G]]]]]|[t1 [-> [G1 G]]]]]; try lia.
  pose proof (skip_nl_length t1) as Hsk. rewrite G1 in Hsk. simpl in Hsk, Hlen.
  assert (Hd : length d = 22%nat) by lia.
  assert (Ht1 : length t1 = 1%nat) by lia.
  destruct t1 as [|x [|y t1']]; try discriminate.
  apply skip_nl_one in G1 as [-> ->].
  assert (Hall : forallb is_b64 d = true) by (apply count_b64_full; lia).
  unfold valid_key. subst s. rewrite Hl. simpl (N.of_nat 24 =? 24).
  rewrite firstn_app_exact by exact Hd. rewrite skipn_app_exact by exact Hd.
  rewrite (forallb_impl is_b64 b64char d); auto.
Qed.

Lemma quantum4 : forall cap a b c d rest n,
    is_b64 a = true -> is_b64 b = true -> is_b64 c = true -> is_b64 d = true -> n + 3 <= cap ->
    go_b64_decode cap (a :: b :: c :: d :: rest) 0 n = go_b64_decode cap rest 0 (n + 3).
Proof.
  intros cap a b c d rest n Ha Hb Hc Hd Hn. simpl. rewrite Ha, Hb, Hc, Hd. simpl.
  unfold b64_store. replace (n + (4 - 1)) with (n + 3) by lia.
  destruct (N.leb_spec (n + 3) cap); [reflexivity|lia].
Qed.

Lemma key_valid_ok : forall cap s,
    16 <= cap -> valid_key s = true -> length s = 24%nat /\ go_b64_decode cap s 0 0 = B64Ok 16.
Proof.
  intros cap s Hcap H. unfold valid_key in H.
  apply andb_true_iff in H as [H H3]. apply andb_true_iff in H as [H1 H2].
  apply N.eqb_eq in H1. assert (Hl : length s = 24%nat) by lia. split; [exact Hl|].
  do 25 (destruct s as [|? s]; try discriminate). clear Hl H1.
  simpl in H2, H3.
  repeat (apply andb_true_iff in H2 as [?H H2]).
  repeat (apply andb_true_iff in H3 as [?H H3]).
  repeat match goal with H : (_ =? _) = true |- _ => apply N.eqb_eq in H; subst end.
  repeat match goal with H : b64char _ = true |- _ => rewrite <- b64_b64char in H end.
  do 5 (rewrite quantum4 by (auto; lia)). simpl.
  repeat match goal with H : is_b64 ?x = true |- context [is_b64 ?x] => rewrite H end.
  simpl. unfold b64_store. simpl.
  destruct (N.leb_spec 16 cap); [reflexivity|lia].
Qed.

Lemma b64_no_panic : forall cap src j n,
    j < 4 -> 4 * n + 3 * j + 3 * N.of_nat (length src) <= 4 * cap + 3 ->
    go_b64_decode cap src j n <> B64Panic.
Proof.
  intros cap src. induction src as [|c rest IH]; intros j n Hj Hb; simpl.
  - destruct (j =? 0); discriminate.
  - cbn [length] in Hb. rewrite Nat2N.inj_succ in Hb. destruct (is_b64 c).
    + destruct (N.eqb_spec j 3) as [->|].
      * unfold b64_store. destruct (N.leb_spec (n + (4 - 1)) cap); [|lia]. apply IH; lia.
      * apply IH; lia.
    + destruct (is_nl c).
      * apply IH; lia.
      * destruct (c =? 61); [|discriminate]. destruct (N.ltb_spec j 2); [discriminate|].
        destruct (N.eqb_spec j 2) as [->|].
        -- destruct (skip_nl rest) as [|c2 r2] eqn:Esk; [discriminate|].
           destruct ((c2 =? 61) && all_nl r2); [|discriminate].
           unfold b64_store. destruct (N.leb_spec (n + (2 - 1)) cap); [discriminate|].
           destruct rest; [discriminate|]. cbn [length] in Hb. rewrite Nat2N.inj_succ in Hb. lia.
        -- destruct (all_nl rest); [|discriminate].
           unfold b64_store. destruct (N.leb_spec (n + (3 - 1)) cap); [discriminate|]. lia.
Qed.

(* ---- isValidChallengeKey *)

Theorem key_valid_iff : forall cap s,
    16 <= cap -> (is_valid_challenge_key cap s = KValid <-> valid_key s = true).
Proof.
  intros cap s Hcap. unfold is_valid_challenge_key, key_len, key_decoded_len. split.
  - destruct (N.eqb_spec (N.of_nat (length s)) 24) as [Hl|]; simpl; [|discriminate].
    destruct (go_b64_decode cap s 0 0) as [n| |] eqn:E; try discriminate.
    destruct (N.eqb_spec n 16) as [->|]; [|discriminate]. intros _.
    eapply key_ok_valid; [lia|exact E].
  - intro H. destruct (key_valid_ok cap s Hcap H) as [Hl E].
    rewrite Hl. simpl. rewrite E. reflexivity.
Qed.

Theorem key_no_panic : forall cap s, 18 <= cap -> is_valid_challenge_key cap s <> KPanic.
Proof.
  intros cap s Hcap. unfold is_valid_challenge_key, key_len, key_decoded_len.
  destruct (N.eqb_spec (N.of_nat (length s)) 24) as [Hl|]; simpl; [|discriminate].
  pose proof (b64_no_panic cap s 0 0 ltac:(lia) ltac:(lia)) as Hn.
  destruct (go_b64_decode cap s 0 0) as [n| |]; try discriminate; [|congruence].
  destruct (n =? 16); discriminate.
Qed.

(* 24 alphabet characters, as sent by a client that forgets the padding *)
Definition key_unpadded : bytes := repeat 65 24.

Theorem key_panic_cap16 : is_valid_challenge_key 16 key_unpadded = KPanic.
Proof. vm_compute. reflexivity. Qed.

(* ---------------------------------------------------------------- the decision *)

Lemma origin_check_ok : forall uh u r, origin_check uh u r = origin_ok uh u r.
Proof.
  intros uh u r. unfold origin_check, origin_ok, check_same_origin.
  destruct (u_origin u); auto. destruct (r_origin r); auto. destruct (uh b); auto.
  apply equal_ascii_fold_eq_fold.
Qed.

Lemma cap_ge_16 : 16 <= key_buf_cap.
Proof. vm_compute. discriminate. Qed.

Theorem upgrade_sound : forall uh u r,
    accepted (upgrade uh u r) = true -> valid_upgrade_rx u r = true /\ origin_ok uh u r = true.
Proof.
  intros uh u r. unfold upgrade, upgrade_tail, valid_upgrade_rx.
  rewrite origin_check_ok.
  destruct (r_major r =? 1).
  - destruct (u_disable_h1 u); [discriminate|].
    destruct (token_list_contains_value (r_connection r) s_upgrade) eqn:T1; [|discriminate].
    destruct (token_list_contains_value (r_upgrade r) s_websocket) eqn:T2; [|discriminate].
    destruct (bytes_eqb (r_method r) s_GET) eqn:M; [|discriminate].
    destruct (token_list_contains_value (r_version r) s_13) eqn:T3; [|discriminate].
    simpl negb. cbv iota.
    destruct (is_valid_challenge_key key_buf_cap (header_get (r_key r))) eqn:K; try discriminate.
    destruct (u_resp_ext u); [discriminate|].
    destruct (origin_ok uh u r); [|discriminate]. intros _.
    rewrite (tlcv_sound _ _ T1), (tlcv_sound _ _ T2), (tlcv_sound _ _ T3).
    apply (key_valid_iff _ _ cap_ge_16) in K. unfold header_get in K. rewrite K. auto.
  - destruct (r_major r =? 2); [|discriminate].
    destruct (bytes_eqb (header_get (r_h2protocol r)) s_websocket) eqn:P; [|discriminate].
    destruct (bytes_eqb (r_method r) s_CONNECT) eqn:M; [|discriminate].
    destruct (token_list_contains_value (r_version r) s_13) eqn:T3; [|discriminate].
    simpl negb. cbv iota.
    destruct (u_resp_ext u); [discriminate|].
    destruct (origin_ok uh u r); [|discriminate]. intros _.
    rewrite (tlcv_sound _ _ T3). unfold header_get in P. rewrite P. auto.
Qed.

Theorem upgrade_complete : forall uh u r,
    wellformed r = true -> valid_upgrade_rx u r = true -> origin_ok uh u r = true -> config_sane u = true ->
    accepted (upgrade uh u r) = true.
Proof.
  intros uh u r Hwf Hv Ho Hs. unfold upgrade, upgrade_tail. rewrite origin_check_ok, Ho.
  unfold config_sane in Hs. apply negb_true_iff in Hs. rewrite Hs.
  unfold wellformed in Hwf. apply andb_true_iff in Hwf as [Hwf W3]. apply andb_true_iff in Hwf as [W1 W2].
  unfold valid_upgrade_rx in Hv.
  destruct (r_major r =? 1).
  - apply andb_true_iff in Hv as [Hv Hkey]. apply andb_true_iff in Hv as [Hv Hver].
    apply andb_true_iff in Hv as [Hv Hupg]. apply andb_true_iff in Hv as [Hv Hcon].
    apply andb_true_iff in Hv as [Hdis Hmeth].
    apply negb_true_iff in Hdis. rewrite Hdis.
    rewrite (tlcv_complete _ _ W1 Hcon), (tlcv_complete _ _ W2 Hupg), Hmeth, (tlcv_complete _ _ W3 Hver). simpl.
    apply (key_valid_iff _ _ cap_ge_16) in Hkey. unfold header_get. rewrite Hkey. reflexivity.
  - destruct (r_major r =? 2); [|discriminate].
    apply andb_true_iff in Hv as [Hv Hver]. apply andb_true_iff in Hv as [Hmeth Hproto].
    unfold header_get. rewrite Hproto, Hmeth, (tlcv_complete _ _ W3 Hver). reflexivity.
Qed.

Theorem upgrade_iff : forall uh u r,
    wellformed r = true -> config_sane u = true ->
    (accepted (upgrade uh u r) = true <-> valid_upgrade u r = true /\ origin_ok uh u r = true).
Proof.
  intros uh u r Hwf Hs. unfold valid_upgrade. rewrite Hwf. simpl. split.
  - apply upgrade_sound.
  - intros [Hv Ho]. apply upgrade_complete; auto.
Qed.

(* The unrestricted converse fails: RFC 7230 section 7 tells recipients to ignore empty list
   members, tokenListContainsValue gives up at the first one. *)
Definition req_empty_member : request :=
  mkRequest 1 s_GET [] [bytes_of_string "keep-alive, , Upgrade"%string] [s_websocket] [s_13]
            [bytes_of_string "dGhlIHNhbXBsZSBub25jZQ=="%string] [] [] [] [].
Definition cfg_plain : config := mkConfig None false false (Some true) false None.

Theorem upgrade_rx_converse_refuted :
  valid_upgrade_rx cfg_plain req_empty_member = true
  /\ origin_ok (fun _ => None) cfg_plain req_empty_member = true
  /\ accepted (upgrade (fun _ => None) cfg_plain req_empty_member) = false.
Proof. vm_compute. auto. Qed.

Theorem upgrade_no_panic : 18 <= key_buf_cap -> forall uh u r, upgrade uh u r <> Panic.
Proof.
  intros Hcap uh u r. unfold upgrade, upgrade_tail.
  pose proof (key_no_panic key_buf_cap (header_get (r_key r)) Hcap) as Hk.
  repeat match goal with
         | |- (if ?b then _ else _) <> _ => destruct b; try discriminate
         | |- match ?k with KValid => _ | KInvalid => _ | KPanic => _ end <> _ =>
             destruct k eqn:?; try discriminate; try congruence
         end.
Qed.

(* ---------------------------------------------------------------- accept key *)

Theorem accept_key_rfc : forall lib k, accept_key lib k = lib (k ++ rfc_guid).
Proof. reflexivity. Qed.

(* ---------------------------------------------------------------- subprotocol *)

Lemma sel_scan_offered : forall h cur protos,
    nosep 44 cur = true -> sel_scan h cur protos <> [] ->
    In (sel_scan h cur protos) protos
    /\ In (sel_scan h cur protos) (map trim_ws (split_on 44 (rev cur ++ h))).
Proof.
  induction h as [|c r IH]; intros cur protos Hc Hne; simpl in *.
  - destruct cur as [|x cur']; [congruence|].
    destruct (mem_bytes (trim_space (rev (x :: cur'))) protos) eqn:M; [|congruence].
    apply mem_bytes_In in M. split; auto.
    rewrite app_nil_r. rewrite split_on_nosep.
    + simpl. left. symmetry. apply trim_space_trim_ws.
    + fold (nosep 44 (rev (x :: cur'))). unfold nosep. rewrite forallb_rev. exact Hc.
  - destruct (N.eqb_spec c 44) as [->|Hn].
    + destruct (mem_bytes (trim_space (rev cur)) protos) eqn:M.
      * apply mem_bytes_In in M. split; auto.
        rewrite split_on_app by (fold (nosep 44 (rev cur)); unfold nosep; rewrite forallb_rev; exact Hc).
        simpl. left. symmetry. apply trim_space_trim_ws.
      * destruct (IH [] protos eq_refl Hne) as [I1 I2]. split; auto.
        simpl in I2. apply in_map_iff in I2 as [x [Hx Hin]]. apply in_map_iff. exists x. split; auto.
        apply split_on_suffix_In. exact Hin.
    + assert (Hc' : nosep 44 (c :: cur) = true).
      { simpl. apply N.eqb_neq in Hn. rewrite Hn. simpl. exact Hc. }
      destruct (IH (c :: cur) protos Hc' Hne) as [I1 I2]. split; auto.
      simpl in I2. rewrite <- app_assoc in I2. exact I2.
Qed.

Theorem subprotocol_offered : forall u r protos,
    u_subprotocols u = Some protos -> select_subprotocol u r <> [] ->
    In (select_subprotocol u r) protos /\ In (select_subprotocol u r) (offered_protocols r).
Proof.
  intros u r protos Hp Hne. unfold select_subprotocol in *. rewrite Hp in *.
  unfold header_get in *. destruct (r_protocol r) as [|h rest] eqn:Er; simpl in *; [congruence|].
  destruct h as [|h0 h']; [congruence|].
  destruct (sel_scan_offered (h0 :: h') [] protos eq_refl Hne) as [I1 I2]. split; auto.
  unfold offered_protocols. rewrite Er. simpl. apply in_or_app. left. exact I2.
Qed.

(* ---------------------------------------------------------------- extensions *)

Definition suffix (s' s : bytes) : Prop := exists pre, s = pre ++ s'.

Lemma suffix_refl : forall s, suffix s s.
Proof. intro s. exists []. reflexivity. Qed.
Lemma suffix_trans : forall a b c, suffix a b -> suffix b c -> suffix a c.
Proof. intros a b c [p1 ->] [p2 ->]. exists (p2 ++ p1). rewrite app_assoc. reflexivity. Qed.
Lemma suffix_cons : forall c s, suffix s (c :: s).
Proof. intros c s. exists [c]. reflexivity. Qed.

Lemma span_suffix : forall p s, suffix (snd (span p s)) s.
Proof.
  intros p s. destruct (span p s) as [a b] eqn:E. apply span_spec in E as [E _]. exists a. exact E.
Qed.

Lemma skip_space_suffix : forall s, suffix (skip_space s) s.
Proof. intro s. apply span_suffix. Qed.

Lemma quoted_rest_suffix : forall s e, suffix (quoted_rest s e) s.
Proof.
  induction s as [|b r IH]; intro e; simpl.
  - apply suffix_refl.
  - destruct e; [eapply suffix_trans; [apply IH|apply suffix_cons]|].
    destruct (b =? 92); [eapply suffix_trans; [apply IH|apply suffix_cons]|].
    destruct (b =? 34); [apply suffix_cons|].
    eapply suffix_trans; [apply IH|apply suffix_cons].
Qed.

Lemma ntoq_suffix : forall s, suffix (next_token_or_quoted_rest s) s.
Proof.
  intros [|c r]; simpl; [apply suffix_refl|].
  destruct (c =? 34).
  - eapply suffix_trans; [apply quoted_rest_suffix|apply suffix_cons].
  - apply (span_suffix is_token_octet (c :: r)).
Qed.

Lemma ext_params_suffix : forall fuel s s', ext_params fuel s = Some s' -> suffix s' s.
Proof.
  induction fuel as [|f IH]; intros s s' H; simpl in H; [discriminate|].
  pose proof (skip_space_suffix s) as S0.
  destruct (skip_space s) as [|c r] eqn:E0.
  - inversion H; subst. exact S0.
  - destruct (c =? 59).
    + destruct (next_token (skip_space r)) as [k s1] eqn:Ek.
      destruct k as [|k0 k']; [discriminate|].
      assert (S1 : suffix s1 r).
      { eapply suffix_trans; [|apply skip_space_suffix]. unfold next_token in Ek.
        pose proof (span_suffix is_token_octet (skip_space r)) as Q. rewrite Ek in Q. exact Q. }
      set (s2 := skip_space s1) in *.
      assert (S2 : suffix s2 s1) by apply skip_space_suffix.
      set (s3 := match s2 with
                 | e :: r2 => if e =? 61 then skip_space (next_token_or_quoted_rest (skip_space r2)) else s2
                 | [] => s2
                 end) in *.
      assert (S3 : suffix s3 s2).
      { unfold s3. destruct s2 as [|e r2]; [apply suffix_refl|]. destruct (e =? 61); [|apply suffix_refl].
        eapply suffix_trans; [apply skip_space_suffix|].
        eapply suffix_trans; [apply ntoq_suffix|].
        eapply suffix_trans; [apply skip_space_suffix|apply suffix_cons]. }
      assert (Sall : suffix s3 s).
      { eapply suffix_trans; [exact S3|]. eapply suffix_trans; [exact S2|].
        eapply suffix_trans; [exact S1|]. eapply suffix_trans; [apply suffix_cons|exact S0]. }
      destruct s3 as [|d r3] eqn:E3.
      * eapply suffix_trans; [eapply IH; exact H|exact Sall].
      * destruct ((d =? 44) || (d =? 59)); [|discriminate].
        eapply suffix_trans; [eapply IH; exact H|exact Sall].
    + inversion H; subst. exact S0.
Qed.

(* what follows the extension name when parsing its parameters succeeds *)
Lemma ext_params_head : forall fuel s s',
    ext_params fuel s = Some s' ->
    match skip_space s with
    | [] => s' = []
    | c :: _ => c = 59 \/ s' = skip_space s
    end.
Proof.
  intros [|f] s s' H; simpl in H; [discriminate|].
  destruct (skip_space s) as [|c r]; [inversion H; reflexivity|].
  destruct (N.eqb_spec c 59); [left; assumption|right; inversion H; reflexivity].
Qed.

Lemma hd_split_semi : forall a y, nosep 59 a = true -> hd [] (split_on 59 (a ++ 59 :: y)) = a.
Proof. intros a y H. rewrite split_on_app; auto. Qed.

Lemma hd_split_no_semi : forall a, nosep 59 a = true -> hd [] (split_on 59 a) = a.
Proof. intros a H. rewrite split_on_nosep; auto. Qed.

(* the name of the first list member, when the scanner accepted "name *( ; param )" up to a comma or the end *)
Lemma ext_first_name : forall s t s1 fuel s',
    next_token (skip_space s) = (t, s1) -> t <> [] ->
    ext_params fuel s1 = Some s' ->
    match s' with [] => True | c :: _ => c = 44 end ->
    ext_name (hd [] (split_on 44 s)) = t.
Proof.
  intros s t s1 fuel s' H Hne Hp Hs'.
  destruct (scan_shape s t s1 H) as [sp1 [sp2 [E [F1 [F2 [F3 [E1 [G1 [G2 G3]]]]]]]]].
  pose proof (ext_params_head fuel s1 s' Hp) as Hh.
  assert (Htrim : trim_ows (sp1 ++ t ++ sp2) = t).
  { rewrite trim_ows_is_trim_by. apply trim_by_unique; auto.
    - apply hd_tok_not_sp; auto.
    - apply last_tok_not_sp; auto. }
  assert (Hnc : nosep 44 (sp1 ++ t ++ sp2) = true).
  { rewrite !nosep_app. rewrite (sps_nocomma _ F1), (toks_nocomma _ F2), (sps_nocomma _ F3). reflexivity. }
  assert (Hns : nosep 59 (sp1 ++ t ++ sp2) = true).
  { rewrite !nosep_app. rewrite (sps_nosemi _ F1), (toks_nosemi _ F2), (sps_nosemi _ F3). reflexivity. }
  unfold ext_name.
  destruct (skip_space s1) as [|c r] eqn:Es.
  - rewrite app_nil_r in E. rewrite E. rewrite (split_on_nosep 44 (sp1 ++ t ++ sp2)) by exact Hnc. simpl.
    rewrite hd_split_no_semi by exact Hns. exact Htrim.
  - destruct Hh as [ -> | -> ].
    + (* ";" follows: the member continues, the name is what precedes the ";" *)
      replace s with ((sp1 ++ t ++ sp2) ++ 59 :: r) by (rewrite E; rewrite <- !app_assoc; reflexivity).
      rewrite (split_on_prefix_piece 44 (sp1 ++ t ++ sp2)) by exact Hnc.
      assert (Hx : exists y, hd [] (split_on 44 (59 :: r)) = 59 :: y).
      { simpl. destruct (split_on 44 r) as [|p ps] eqn:Esp; [exfalso; eapply split_on_nonempty; exact Esp|].
        simpl. eexists. reflexivity. }
      destruct Hx as [y ->]. rewrite hd_split_semi by exact Hns. exact Htrim.
    + (* "," follows *)
      subst c.
      replace s with ((sp1 ++ t ++ sp2) ++ 44 :: r) by (rewrite E; rewrite <- !app_assoc; reflexivity).
      rewrite (split_on_app 44 (sp1 ++ t ++ sp2)) by exact Hnc. simpl. rewrite hd_split_no_semi by exact Hns. exact Htrim.
Qed.

Lemma hd_In : forall (l : list bytes), l <> [] -> In (hd [] l) l.
Proof. intros [|x l] H; [congruence|left; reflexivity]. Qed.

Lemma ext_line_offered : forall fuel s x,
    In x (ext_line fuel s) -> In x (map ext_name (split_on 44 s)).
Proof.
  induction fuel as [|f IH]; intros s x H; cbn [ext_line] in H; [destruct H|].
  destruct (next_token (skip_space s)) as [t s1] eqn:E.
  destruct t as [|t0 t']; [destruct H|].
  destruct (ext_params (S (length s1)) s1) as [s'|] eqn:Ep; [|destruct H].
  assert (Hfirst : forall s'', s' = s'' -> match s'' with [] => True | c :: _ => c = 44 end ->
                               In (t0 :: t') (map ext_name (split_on 44 s))).
  { intros s'' -> Hc.
    rewrite <- (ext_first_name s (t0 :: t') s1 _ s'' E ltac:(discriminate) Ep Hc).
    apply in_map. apply hd_In. apply split_on_nonempty. }
  destruct s' as [|c s2].
  - destruct H as [ <- | Hf ]; [|destruct Hf]. apply (Hfirst [] eq_refl I).
  - destruct (N.eqb_spec c 44) as [->|]; [|destruct H].
    destruct H as [ <- | H ].
    + apply (Hfirst (44 :: s2) eq_refl eq_refl).
    + specialize (IH s2 x H).
      (* s2 starts right after a comma of s *)
      assert (Hsuf : suffix (44 :: s2) s).
      { eapply suffix_trans; [eapply ext_params_suffix; exact Ep|].
        eapply suffix_trans; [|apply skip_space_suffix].
        unfold next_token in E. pose proof (span_suffix is_token_octet (skip_space s)) as Q. rewrite E in Q. exact Q. }
      destruct Hsuf as [pre ->].
      apply in_map_iff in IH as [y [Hy Hin]]. apply in_map_iff. exists y. split; auto.
      apply split_on_suffix_In. exact Hin.
Qed.

Theorem compression_offered : forall u r,
    negotiate_compress u r = true ->
    u_compression u = true /\ In s_pmd (offered_extensions r).
Proof.
  intros u r H. unfold negotiate_compress in H. apply andb_true_iff in H as [H1 H2]. split; auto.
  apply existsb_exists in H2 as [x [Hin He]]. apply bytes_eqb_eq in He. subst x.
  unfold parse_extensions in Hin. apply in_flat_map in Hin as [l [Hl Hx]].
  unfold offered_extensions. apply in_flat_map. exists l. split; auto.
  eapply ext_line_offered. exact Hx.
Qed.
