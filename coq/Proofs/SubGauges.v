(* C05, gauges: for ALL schedules the connectionsInflight gauge equals "registered in the hub"
   and the (per channel share of the) subscriptionsInflight gauge equals the number of hub
   entries of the channel. *)
From Coq Require Import List NArith ZArith Bool Lia.
From Cfg Require Import Model.SubLifecycle Proofs.SubLifecycleLib.
Import ListNotations.
Open Scope N_scope.

Definition hub1 (s : st) (c : ch) : Z := match hub s c with Some _ => 1%Z | None => 0%Z end.

Definition GInv (s : st) : Prop :=
  gconn s = (if reg s then 1 else 0)%Z /\
  forall c, gsub s c = (hub1 s c + Z.of_N (others s c))%Z.

Lemma GInv_init : GInv init.
Proof. split; cbn; auto. Qed.

Ltac coreg :=
  unfold hub1, spawn_int, submit_job, thr_set, thr_del, log, set_gst1 in *;
  cbn [gconn reg gsub hub others
       set_status set_authed set_closing set_chans set_genctr set_gclosed set_cmu set_pmu set_pinfl
       set_kstarted set_slock set_hub set_others set_reg set_pres set_bsub set_jobs set_gconn set_gsub
       set_trace set_thr set_next_ext set_next_int set_panicked set_wclosed set_hreg set_shut set_gst] in *.

(* the state functions that do not touch the gauges' inputs *)
Lemma close_gate_g g s : gconn (close_gate g s) = gconn s /\ reg (close_gate g s) = reg s /\
  gsub (close_gate g s) = gsub s /\ hub (close_gate g s) = hub s /\ others (close_gate g s) = others s.
Proof. unfold close_gate. destruct (gclosed s g); cbn; auto. Qed.
Lemma close_cap_g c s : gconn (close_cap c s) = gconn s /\ reg (close_cap c s) = reg s /\
  gsub (close_cap c s) = gsub s /\ hub (close_cap c s) = hub s /\ others (close_cap c s) = others s.
Proof. destruct c; cbn; auto. apply close_gate_g. Qed.

Lemma GInv_same s s' :
  gconn s' = gconn s -> reg s' = reg s -> gsub s' = gsub s -> hub s' = hub s -> others s' = others s ->
  GInv s -> GInv s'.
Proof. intros A B C D E [G1 G2]. unfold GInv, hub1 in *. rewrite A, B, C, D, E. auto. Qed.

Lemma GInv_hubrem c g s : GInv s -> GInv (hubrem c g s).
Proof.
  intros [G1 G2]. unfold hubrem. destruct (hub s c) as [g'|] eqn:EH.
  - destruct (g' =? g); [|split; auto].
    assert (X : GInv (set_gsub (upd (gsub s) c (gsub s c - 1)%Z) (set_hub (upd (hub s) c None) s))).
    { split; [exact G1|]. intros c0. unfold hub1. cbn [gsub hub others set_gsub set_hub]. unfold upd.
      destruct (N.eqb_spec c0 c); subst; [|apply G2].
      rewrite G2. unfold hub1. rewrite EH. lia. }
    destruct (others s c =? 0); [|exact X].
    eapply GInv_same; [.. | exact X]; reflexivity.
  - eapply GInv_same; [.. | split; [exact G1|exact G2]]; reflexivity.
Qed.

Ltac gframe G :=
  first [ exact G
        | eapply GInv_same; [.. | exact G]; coreg; reflexivity ].

Lemma att_step_G s t a b s' : GInv s -> att_step s t a b = Some s' -> GInv s'.
Proof.
  intros G H. unfold att_step in H.
  destruct (close_cap_g (a_cap a) s) as (C1 & C2 & C3 & C4 & C5).
  pose proof (GInv_hubrem (a_ch a) (a_use a) s G) as HU.
  pose proof (GInv_hubrem (a_ch a) (a_own a) s G) as HO.
  destruct (a_pc a) eqn:EPC;
    repeat match type of H with
    | (if ?c then _ else _) = _ => destruct c eqn:?
    | match ?o with Some _ => _ | None => _ end = _ => destruct o eqn:?
    | match ?k with Cli => _ | Srv => _ end = _ => destruct k eqn:?
    end; try discriminate; inv H; cbv zeta;
    repeat (match goal with |- context [if ?x then _ else _] => destruct x eqn:? end);
    repeat (match goal with |- context [match hub ?s0 ?c with Some _ => _ | None => _ end] => destruct (hub s0 c) eqn:? end);
    repeat (match goal with |- context [if ?x then _ else _] => destruct x eqn:? end).
  all: try (eapply GInv_same; [.. | exact G]; coreg; rewrite ?C1, ?C2, ?C3, ?C4, ?C5; reflexivity).
  all: try (eapply GInv_same; [.. | exact HU]; coreg; reflexivity).
  all: try (eapply GInv_same; [.. | exact HO]; coreg; reflexivity).
  all: destruct G as [G1 G2]; split; coreg; auto; intros c0; unfold upd;
       destruct (N.eqb_spec c0 (a_ch a)); subst; auto; rewrite ?G2; unfold hub1;
       repeat match goal with H : hub _ _ = _ |- _ => rewrite H end; try lia.
Qed.

Lemma u_step_G s t u b s1 ou : GInv s -> u_step s t u b = Some (s1, ou) -> GInv s1.
Proof.
  intros G H. unfold u_step in H.
  pose proof (GInv_hubrem (u_ch u) (u_rm u) s G) as HU.
  destruct (u_pc u);
    repeat match type of H with
    | (if ?c then _ else _) = _ => destruct c eqn:?
    | match ?o with Some _ => _ | None => _ end = _ => destruct o eqn:?
    end; try discriminate; inv H;
    repeat (match goal with |- context [if ?x then _ else _] => destruct x eqn:? end);
    try exact G; try exact HU.
  all: try (eapply GInv_same; [.. | exact G]; coreg; reflexivity).
  all: try (destruct (close_gate_g (c_gen c) s) as (C1 & C2 & C3 & C4 & C5);
            eapply GInv_same; [.. | exact G]; coreg; rewrite ?C1, ?C2, ?C3, ?C4, ?C5; reflexivity).
Qed.

Lemma u_timeout_G s u s1 : GInv s -> u_timeout s u = Some s1 -> GInv s1.
Proof.
  intros G H. unfold u_timeout in H. destruct (u_pc u); try discriminate. inv H.
  destruct (lookup (u_ch u) (chans s)) as [x|]; [destruct (c_gate x)|];
    try (eapply GInv_same; [.. | exact G]; coreg; reflexivity).
  destruct (close_gate_g (c_gen x) s) as (C1 & C2 & C3 & C4 & C5).
  eapply GInv_same; [.. | exact G]; coreg; rewrite ?C1, ?C2, ?C3, ?C4, ?C5; reflexivity.
Qed.

Ltac gplain G :=
  repeat (match goal with |- context [if ?x then _ else _] => destruct x eqn:? end);
  first [ exact G | eapply GInv_same; [.. | exact G]; coreg; reflexivity ].

Lemma astep_G s l s' : GInv s -> astep s l = Some s' -> GInv s'.
Proof.
  intros G H. destruct l; cbn in H.
  - (* spawn *)
    unfold spawn in H. destruct o;
      repeat match type of H with (if ?c then _ else _) = _ => destruct c eqn:? end;
      try discriminate; inv H; gplain G.
  - unfold step_thread in H. destruct (thr s t) as [[a|u|k|k|pc|c]|] eqn:ET; try discriminate.
    + eapply att_step_G; eauto.
    + destruct (u_step s t u b) as [[s1 [u'|]]|] eqn:EU; inv H;
        (eapply GInv_same; [.. | eapply u_step_G; eauto]; coreg; reflexivity).
    + (* close *)
      unfold cls_step in H. destruct (k_pc k) eqn:EPC.
      8:{ destruct (k_cur k) as [u|].
          - destruct (u_step s t u b) as [[s1 ou]|] eqn:EU; [|discriminate]. inv H.
            eapply GInv_same; [.. | eapply u_step_G; eauto]; coreg; reflexivity.
          - destruct (k_rest k); [|destruct b]; inv H; gplain G. }
      4:{ (* CRemove: removeClient *)
          inv H. destruct G as [G1 G2]. destruct (authed s); [destruct (reg s) eqn:ER|]; split; coreg; auto; lia. }
      all: repeat match type of H with (if ?c then _ else _) = _ => destruct c eqn:? end;
           try discriminate; inv H; gplain G.
    + unfold tck_step in H. destruct b.
      all: destruct (t_pc k);
        repeat match type of H with
        | (if ?c then _ else _) = _ => destruct c eqn:?
        | match ?l with [] => _ | _ :: _ => _ end = _ => destruct l
        | match ?o with Some _ => _ | None => _ end = _ => destruct o
        end; try discriminate; inv H; gplain G.
    + unfold con_step in H. destruct pc.
      2:{ (* KAuth: addClient *)
          destruct (is_closed (status s)); inv H; [gplain G|].
          destruct G as [G1 G2]. destruct (reg s) eqn:ER; split; coreg; auto; lia. }
      all: repeat match type of H with (if ?c then _ else _) = _ => destruct c eqn:? end;
           try discriminate; inv H; gplain G.
    + unfold job_step in H. destruct b; inv H; gplain G.
  - unfold timeout_thread in H. destruct (thr s t) as [[a|u|k|k|pc|c]|] eqn:ET; try discriminate.
    + destruct (u_timeout s u) as [s1|] eqn:EU; inv H.
      eapply GInv_same; [.. | eapply u_timeout_G; eauto]; coreg; reflexivity.
    + destruct (k_pc k); try discriminate. destruct (k_cur k) as [u|]; try discriminate.
      destruct (u_timeout s u) as [s1|] eqn:EU; inv H.
      eapply GInv_same; [.. | eapply u_timeout_G; eauto]; coreg; reflexivity.
  - unfold job_start in H. destruct (mem c (jobs s) && negb (slock s c)); [|discriminate].
    destruct (subscribers s c); inv H; gplain G.
  - (* other_add *)
    unfold other_add in H. destruct (slock s c); [discriminate|].
    destruct G as [G1 G2].
    destruct (subscribers s c); [|destruct b]; inv H; split; coreg; auto; intros c0; unfold upd;
      destruct (N.eqb_spec c0 c); subst; auto; rewrite G2; unfold hub1; lia.
  - unfold other_rem in H. destruct (slock s c || (others s c =? 0)) eqn:E0; [discriminate|].
    apply orb_false_iff in E0. destruct E0 as [_ E0]. apply N.eqb_neq in E0.
    destruct G as [G1 G2].
    destruct ((others s c =? 1) && match hub s c with None => true | Some _ => false end); inv H;
      split; coreg; auto; intros c0; unfold upd; destruct (N.eqb_spec c0 c); subst; auto;
      rewrite G2; unfold hub1; lia.
Qed.

Theorem exec_G l : forall s s', GInv s -> exec l s = Some s' -> GInv s'.
Proof.
  induction l as [|x l IH]; cbn; intros s s' G H.
  - inv H. auto.
  - destruct (astep s x) as [s1|] eqn:E; [|discriminate]. apply (IH s1 s'); auto. eapply astep_G; eauto.
Qed.

Theorem gauges_all sched s :
  exec sched init = Some s ->
  gconn s = (if reg s then 1 else 0)%Z /\ forall c, gsub s c = (hub1 s c + Z.of_N (others s c))%Z.
Proof. intros E. exact (exec_G _ _ _ GInv_init E). Qed.
