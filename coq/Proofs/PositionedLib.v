(* Lemmas for C01/C10: facts about the transport-log observables (recv, pub_offs),
   the decidable oracle, and the correctness of the reply construction [do_merge]
   (which rests on the C39 merge theorem). *)
From Coq Require Import List NArith Bool Lia ZifyN ZifyNat ZifyBool Sorting.Sorted.
From Cfg Require Import Model.Merge Model.MergeSpec Proofs.Merge Model.Positioned Model.PositionedSpec.
Import ListNotations.
Open Scope N_scope.

(* ------------------------------------------------------------------ *)
(* log observables                                                      *)

Definition has_start (l : list frame) : bool := existsb is_start l.

Lemma pub_offs_app : forall a b, pub_offs (a ++ b) = pub_offs a ++ pub_offs b.
Proof.
  induction a as [|f a IH]; intros b; [reflexivity|].
  destruct f; cbn [app pub_offs]; try apply IH.
  destruct (po p =? 0); [apply IH|]. cbn [app]. f_equal. apply IH.
Qed.

Lemma recv_none : forall l, recv l = None <-> has_start l = false.
Proof.
  induction l as [|f l IH]; cbn [recv has_start existsb]; [tauto|].
  destruct (is_start f); cbn [orb]; [split; discriminate|exact IH].
Qed.

Lemma recv_app_nostart : forall l f, has_start l = false ->
  recv (l ++ [f]) = if is_start f then Some (start_off f, start_pubs f) else None.
Proof.
  induction l as [|g l IH]; intros f H; cbn [app recv].
  - destruct (is_start f); [rewrite app_nil_r|]; reflexivity.
  - cbn [has_start existsb] in H. apply orb_false_iff in H. destruct H as [H1 H2].
    rewrite H1. apply IH. exact H2.
Qed.

Lemma recv_app_nostart_l : forall l fs, has_start l = false -> recv (l ++ fs) = recv fs.
Proof.
  induction l as [|g l IH]; intros fs H; cbn [app recv]; [reflexivity|].
  cbn [has_start existsb] in H. apply orb_false_iff in H. destruct H as [H1 H2].
  rewrite H1. apply IH. exact H2.
Qed.

Lemma recv_app_start : forall l p0 r fs, recv l = Some (p0, r) ->
  recv (l ++ fs) = Some (p0, r ++ pub_offs fs).
Proof.
  induction l as [|g l IH]; intros p0 r fs H; cbn [app recv] in *; [discriminate|].
  destruct (is_start g).
  - inversion H; subst. rewrite pub_offs_app, app_assoc. reflexivity.
  - apply IH. exact H.
Qed.

Lemma has_start_app : forall a b, has_start (a ++ b) = has_start a || has_start b.
Proof. intros. unfold has_start. apply existsb_app. Qed.

Lemma recv_some_start : forall l p0 r, recv l = Some (p0, r) -> has_start l = true.
Proof.
  intros l p0 r H. destruct (has_start l) eqn:E; [reflexivity|].
  apply recv_none in E. congruence.
Qed.

(* ------------------------------------------------------------------ *)
(* withheld / published_real                                            *)

Lemma withheld_In : forall glog o,
  In o (withheld glog) <-> exists p, In p glog /\ pf p = true /\ po p = o.
Proof.
  intros glog o. unfold withheld. rewrite in_map_iff. split.
  - intros [p [He Hp]]. apply filter_In in Hp. exists p. tauto.
  - intros [p [Hp [Hf He]]]. exists p. split; [exact He|]. apply filter_In. tauto.
Qed.

Lemma published_real_In : forall glog o,
  In o (published_real glog) <-> exists p, In p glog /\ pf p = false /\ po p = o.
Proof.
  intros glog o. unfold published_real. rewrite in_map_iff. split.
  - intros [p [He Hp]]. apply filter_In in Hp. exists p.
    destruct Hp as [Hp Hf]. apply negb_true_iff in Hf. tauto.
  - intros [p [Hp [Hf He]]]. exists p. split; [exact He|]. apply filter_In.
    rewrite Hf. tauto.
Qed.

Lemma withheld_mono : forall g g' o, incl g g' -> In o (withheld g) -> In o (withheld g').
Proof.
  intros g g' o Hi H. apply withheld_In in H. destruct H as [p [Hp H]].
  apply withheld_In. exists p. split; [apply Hi; exact Hp|exact H].
Qed.

Lemma published_real_mono : forall g g' o, incl g g' -> In o (published_real g) -> In o (published_real g').
Proof.
  intros g g' o Hi H. apply published_real_In in H. destruct H as [p [Hp H]].
  apply published_real_In. exists p. split; [apply Hi; exact Hp|exact H].
Qed.

Lemma spec_mono : forall g g' l, incl g g' -> C01Spec g l -> C01Spec g' l.
Proof.
  intros g g' l Hi H p0 r Hr. destruct (H p0 r Hr) as (A & B & C).
  split; [exact A|]. split.
  - intros o H1 H2. destruct (B o H1 H2) as [X|X]; [left; exact X|right].
    eapply withheld_mono; eauto.
  - intros o Ho. eapply published_real_mono; eauto.
Qed.

Lemma spec_recv_eq : forall g l l', recv l' = recv l -> C01Spec g l -> C01Spec g l'.
Proof. intros g l l' E H p0 r Hr. apply H. rewrite <- E. exact Hr. Qed.

(* ------------------------------------------------------------------ *)
(* sortedness helpers                                                   *)

Lemma sorted_app_one : forall l x,
  StronglySorted N.lt l -> Forall (fun y => y < x) l -> StronglySorted N.lt (l ++ [x]).
Proof.
  induction l as [|a l IH]; intros x HS HF; cbn [app].
  - constructor; constructor.
  - inversion HS as [|? ? HS' HF']; subst. inversion HF as [|? ? Ha HFl]; subst.
    constructor; [apply IH; assumption|].
    apply Forall_app. split; [exact HF'|]. constructor; [exact Ha|constructor].
Qed.

Lemma last_app_one : forall (l : list N) x d, last (l ++ [x]) d = x.
Proof. intros. apply last_last. Qed.

Lemma last_cons_default : forall (l : list N) a d d', last (a :: l) d = last (a :: l) d'.
Proof.
  induction l as [|b l IH]; intros a d d'; [reflexivity|].
  change (last (b :: l) d = last (b :: l) d'). apply IH.
Qed.

Lemma sorted_last_max : forall l p0 x,
  StronglySorted N.lt (p0 :: l) -> In x (p0 :: l) -> x <= last l p0.
Proof.
  induction l as [|a l IH]; intros p0 x HS Hx.
  - destruct Hx as [<-|[]]. cbn. lia.
  - inversion HS as [|? ? HS' HF]; subst.
    assert (Ha : p0 < a) by (inversion HF; assumption).
    assert (E : last (a :: l) p0 = last l a).
    { destruct l as [|b l']; [reflexivity|]. change (last (b :: l') p0 = last (b :: l') a).
      apply last_cons_default. }
    rewrite E.
    destruct Hx as [<-|Hx].
    + assert (a <= last l a) by (apply IH; [exact HS'|left; reflexivity]). lia.
    + apply IH; assumption.
Qed.

(* ------------------------------------------------------------------ *)
(* the oracle decides the specification                                 *)

Lemma rangeb_spec : forall n lo P,
  rangeb lo n P = true <-> (forall o, lo <= o -> o < lo + N.of_nat n -> P o = true).
Proof.
  induction n as [|n IH]; intros lo P; cbn [rangeb].
  - split; [intros _ o H1 H2; lia|reflexivity].
  - rewrite andb_true_iff, IH. split.
    + intros [H0 H] o H1 H2. destruct (N.eq_dec o lo) as [->|Hne]; [exact H0|].
      apply H; lia.
    + intros H. split; [apply H; lia|]. intros o H1 H2. apply H; lia.
Qed.

Lemma c01_oracle_sound : forall glog l, c01_oracle glog l = true -> C01Spec glog l.
Proof.
  intros glog l H p0 r Hr. unfold c01_oracle in H. rewrite Hr in H.
  apply andb_true_iff in H. destruct H as [H H3]. apply andb_true_iff in H. destruct H as [H1 H2].
  apply strict_sorted_spec in H1. split; [exact H1|]. split.
  - intros o Ho1 Ho2. rewrite rangeb_spec in H2.
    assert (Hb : (memN o r || memN o (withheld glog))%bool = true) by (apply H2; lia).
    apply orb_true_iff in Hb. destruct Hb as [Hb|Hb]; apply memN_In in Hb; tauto.
  - intros o Ho. rewrite forallb_forall in H3. apply memN_In. apply H3. exact Ho.
Qed.

Lemma c01_oracle_complete : forall glog l, C01Spec glog l -> c01_oracle glog l = true.
Proof.
  intros glog l H. unfold c01_oracle. destruct (recv l) as [[p0 r]|] eqn:Hr; [|reflexivity].
  destruct (H p0 r Hr) as (A & B & C).
  rewrite !andb_true_iff. split; [split|].
  - apply strict_sorted_spec. exact A.
  - apply rangeb_spec. intros o H1 H2.
    assert (Hl : p0 <= last r p0) by (apply sorted_last_max; [exact A|left; reflexivity]).
    destruct (B o) as [X|X]; try lia; apply orb_true_iff; [left|right]; apply memN_In; exact X.
  - apply forallb_forall. intros o Ho. apply memN_In. apply C. exact Ho.
Qed.

(* consequence of the specification: delivery never continues past a lost offset *)
Lemma spec_never_past_gap : forall glog l p0 r g,
  C01Spec glog l -> recv l = Some (p0, r) ->
  p0 < g -> ~ In g r -> ~ In g (withheld glog) -> forall o, In o r -> o < g.
Proof.
  intros glog l p0 r g H Hr Hg Hn1 Hn2 o Ho.
  destruct (H p0 r Hr) as (A & B & _).
  destruct (N.lt_ge_cases o g) as [Hlt|Hge]; [exact Hlt|].
  assert (Hl : o <= last r p0) by (apply sorted_last_max; [exact A|right; exact Ho]).
  destruct (B g Hg) as [X|X]; [lia|contradiction|contradiction].
Qed.

(* ------------------------------------------------------------------ *)
(* history read and reply construction                                  *)

Definition hist_wf (c : cfg) (h : hres) : Prop :=
  h_recovered h = true ->
  c_rec c = true /\
  c_since c <= h_top h /\ (h_top h = c_since c \/ In (h_top h) (map po (h_pubs h))).

Lemma last_po_In : forall l a, In (last_po (a :: l)) (map po (a :: l)).
Proof.
  intros l a. unfold last_po. apply in_map.
  assert (H : forall (l : list pubT) a d, In (last (a :: l) d) (a :: l)).
  { induction l0 as [|b l0 IH]; intros a0 d; [left; reflexivity|].
    right. change (In (last (b :: l0) d) (b :: l0)). apply IH. }
  apply H.
Qed.

Lemma from_off_incl : forall o l sfx, from_off o l = Some sfx -> incl sfx l.
Proof.
  induction l as [|p l IH]; intros sfx H; cbn [from_off] in H; [discriminate|].
  destruct (po p =? o).
  - inversion H; subst. apply incl_refl.
  - apply incl_tl. apply IH. exact H.
Qed.

Lemma history_since_incl : forall s since sep, incl (history_since s since sep) (b_items s).
Proof.
  intros s since sep. unfold history_since, hist_get.
  destruct ((b_top s =? since) && (sep =? b_ep s))%bool; [apply incl_nil_l|].
  destruct (b_top s <=? since); [apply incl_nil_l|].
  destruct (from_off (since + 1) (b_items s)) eqn:E; [|apply incl_refl].
  eapply from_off_incl; eauto.
Qed.

Lemma history_read_wf : forall c s, hist_wf c (history_read c s).
Proof.
  intros c s. unfold history_read.
  destruct (c_pos c); [|intros H; discriminate].
  destruct (c_rec c) eqn:Hrec; [|intros H; discriminate].
  unfold recover_read.
  destruct (negb _); [intros H; discriminate|].
  destruct (history_since s (c_since c) (c_since_ep c)) as [|p l] eqn:E.
  - destruct (b_top s =? c_since c) eqn:Et; [|intros H; discriminate].
    intros _. cbn [h_top h_pubs]. apply N.eqb_eq in Et. split; [exact Hrec|]. split; [lia|left; exact Et].
  - destruct ((po p =? c_since c + 1) && (last_po (p :: l) =? b_top s))%bool eqn:Ec; [|intros H; discriminate].
    intros _. cbn [h_top h_pubs]. apply andb_true_iff in Ec. destruct Ec as [E1 E2].
    apply N.eqb_eq in E1. apply N.eqb_eq in E2.
    pose proof (last_po_In l p) as HI. rewrite E2 in HI.
    split; [exact Hrec|]. split; [|right; exact HI].
    (* b_top is the offset of an element of a list starting at since+1 ... only need >= since *)
    destruct (N.le_gt_cases (c_since c) (b_top s)) as [Hle|Hgt]; [exact Hle|].
    exfalso. unfold history_since, hist_get in E.
    destruct ((b_top s =? c_since c) && _)%bool; [discriminate|].
    destruct (b_top s <=? c_since c) eqn:El; [discriminate|]. lia.
Qed.

Lemma history_read_prov : forall c s p,
  In p (h_pubs (history_read c s)) -> In p (b_items s).
Proof.
  intros c s p. unfold history_read.
  destruct (c_pos c); [|intros []].
  destruct (c_rec c); [|intros []].
  unfold recover_read. destruct (negb _); [intros []|].
  match goal with |- context [if ?b then _ else _] => destruct b end; cbn [h_pubs]; [|intros []].
  apply history_since_incl.
Qed.

Definition res_ok (glog : list pubT) (r : subres) : Prop :=
  StronglySorted N.lt (r_off r :: map po (r_pubs r)) /\
  (forall q, In q (r_pubs r) -> po q <= r_pos r /\ In (po q) (published_real glog)) /\
  r_off r <= r_pos r /\
  (forall o, r_off r < o -> o <= r_pos r -> In o (map po (r_pubs r)) \/ In o (withheld glog)).

Definition good (c : cfg) : Prop :=
  c_pos c = true /\
  (c_rec c = true -> c_fix_anchor c = true) /\
  (c_rec c = true -> c_var c = VServer -> c_fix_srvpubs c = true) /\
  c_batch c = false.

Lemma max_off_ge : forall l q, In q l -> p_off q <= max_off l.
Proof.
  induction l as [|a l IH]; intros q Hq; [destruct Hq|].
  destruct Hq as [<-|H]; unfold max_off in *; cbn [map fold_right]; [lia|].
  specialize (IH q H). lia.
Qed.

Lemma max_off_In : forall l, l <> [] -> In (max_off l) (map p_off l).
Proof.
  induction l as [|a l IH]; intros H; [congruence|].
  destruct l as [|b l'].
  - left. unfold max_off. cbn. lia.
  - assert (Hne : b :: l' <> []) by discriminate. specialize (IH Hne).
    unfold max_off in *. cbn [map fold_right] in *.
    destruct (N.max_spec (p_off a) (N.max (p_off b) (fold_right N.max 0 (map p_off l')))) as [[_ E]|[_ E]];
      rewrite E; [right; exact IH|left; reflexivity].
Qed.

Lemma sorted_filter : forall (f : N -> bool) l,
  StronglySorted N.lt l -> StronglySorted N.lt (filter f l).
Proof.
  induction l as [|a l IH]; intros H; cbn [filter]; [constructor|].
  inversion H as [|? ? HS HF]; subst. destruct (f a); [|apply IH; exact HS].
  constructor; [apply IH; exact HS|].
  rewrite Forall_forall in *. intros x Hx. apply filter_In in Hx. apply HF. tauto.
Qed.

Lemma map_po_of_mp : forall l, map po (map of_mp l) = map p_off l.
Proof. intros. rewrite map_map. reflexivity. Qed.

Lemma map_off_to_mp : forall l, map p_off (map to_mp l) = map po l.
Proof. intros. rewrite map_map. reflexivity. Qed.

Lemma filter_map_off : forall (f : N -> bool) (l : list pub),
  map p_off (filter (fun q => f (p_off q)) l) = filter f (map p_off l).
Proof.
  induction l as [|a l IH]; [reflexivity|]. cbn [filter map].
  destruct (f (p_off a)); cbn [map]; rewrite IH; reflexivity.
Qed.

(* The reply built from a recovered history and the PUB/SUB buffer is anchored at the
   announced offset and accounts for every offset up to the installed position --
   provided the anchor check of the patched code is in place (or no recovery). *)
Lemma do_merge_ok : forall c h buf r glog,
  good c -> hist_wf c h ->
  (forall p, In p (h_pubs h ++ buf) -> In p glog) ->
  do_merge c h buf = Some r -> res_ok glog r.
Proof.
  intros c h buf r glog (Hpos & Hanch & _ & _) Hwf Hprov H.
  unfold do_merge in H. rewrite Hpos in H. cbn [negb] in H.
  pose proof (merge_meets_spec (map to_mp (h_pubs h)) (map to_mp buf)) as HM.
  destruct (merge (map to_mp (h_pubs h)) (map to_mp buf)) as [[out maxo] ok].
  destruct ok; cbn [negb] in H; [|discriminate].
  destruct HM as [_ HM]. specialize (HM eq_refl).
  destruct HM as (HSS & HND & Hout & Hoffs & Hmax).
  set (all := map to_mp (h_pubs h) ++ map to_mp buf) in *.
  set (l1 := match out with [] => h_top h | _ => if h_top h <? last_off out then last_off out else h_top h end) in *.
  set (l2 := if l1 <? maxo then maxo else l1) in *.
  assert (Hl2 : maxo <= l2 /\ l1 <= l2) by (unfold l2; destruct (l1 <? maxo) eqn:E; lia).
  assert (Hl1 : h_top h <= l1).
  { unfold l1. destruct out; [lia|]. destruct (h_top h <? last_off (p :: out)) eqn:E; lia. }
  assert (Hall : all = map to_mp (h_pubs h ++ buf)) by (unfold all; rewrite map_app; reflexivity).
  destruct (h_recovered h) eqn:Hrec.
  - (* recovered *)
    destruct (Hwf Hrec) as [Hcr [Hs1 Hs2]].
    rewrite (Hanch Hcr) in H.
    destruct (range_covered (c_since c + 1) (maxo + 1) (map po (h_pubs h ++ buf))) eqn:Hcov; [|discriminate].
    inversion H; subst r; clear H. unfold res_ok; cbn [r_off r_pubs r_pos].
    rewrite range_covered_spec in Hcov.
    rewrite map_po_of_mp.
    rewrite (filter_map_off (fun o => c_since c <? o) out).
    assert (HmaxIn : forall q, In q all -> p_off q <= maxo) by (intros q Hq; rewrite Hmax; apply max_off_ge; exact Hq).
    assert (Hl1max : l1 <= N.max (c_since c) maxo).
    { unfold l1. assert (Hh : h_top h <= N.max (c_since c) maxo).
      { destruct Hs2 as [->|Hin]; [lia|].
        apply in_map_iff in Hin. destruct Hin as [p [Ep Hp]].
        assert (In (to_mp p) all) by (unfold all; apply in_or_app; left; apply in_map; exact Hp).
        specialize (HmaxIn _ H). cbn in HmaxIn. lia. }
      destruct out as [|q0 out']; [exact Hh|].
      destruct (h_top h <? last_off (q0 :: out')) eqn:E; [|exact Hh].
      unfold last_off.
      assert (Hin : In (last (q0 :: out') (mkPub 0 false 0)) (q0 :: out')).
      { clear. generalize q0. induction out' as [|b o IH]; intros a; [left; reflexivity|].
        right. change (In (last (b :: o) (mkPub 0 false 0)) (b :: o)). apply IH. }
      destruct (Hout _ Hin) as [_ Hq]. specialize (HmaxIn _ Hq). lia. }
    split; [|split; [|split]].
    + constructor.
      * apply sorted_filter. exact HSS.
      * apply Forall_forall. intros x Hx. apply filter_In in Hx. destruct Hx as [_ Hx].
        apply N.ltb_lt in Hx. exact Hx.
    + intros q Hq. apply in_map_iff in Hq. destruct Hq as [q' [<- Hq']].
      apply filter_In in Hq'. destruct Hq' as [Hq' _].
      destruct (Hout _ Hq') as [Hf Hin]. cbn [of_mp po].
      split; [specialize (HmaxIn _ Hin); lia|].
      rewrite Hall in Hin. apply in_map_iff in Hin. destruct Hin as [p [<- Hp]].
      apply published_real_In. exists p. cbn in Hf. cbn. auto.
    + lia.
    + intros o Ho1 Ho2.
      assert (Hl2u : l2 <= N.max l1 maxo) by (unfold l2; destruct (l1 <? maxo) eqn:E; lia).
      assert (Homax : o <= maxo) by lia.
      assert (Hin : In o (map po (h_pubs h ++ buf))) by (apply Hcov; lia).
      apply in_map_iff in Hin. destruct Hin as [p [<- Hp]].
      destruct (pf p) eqn:Hf.
      * right. apply withheld_In. exists p. auto.
      * left. apply filter_In. split; [|apply N.ltb_lt; exact Ho1].
        apply Hoffs. apply real_offs_In. exists (to_mp p). split; [|cbn; auto].
        rewrite Hall. apply in_map. exact Hp.
  - (* not recovered: no publications, position announced as is *)
    inversion H; subst r; clear H. unfold res_ok; cbn [r_off r_pubs r_pos map].
    split; [constructor; constructor|]. split; [intros q []|]. split; [lia|].
    intros o H1 H2. lia.
Qed.
