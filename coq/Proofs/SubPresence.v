(* C06, life-cycle part: witnesses on Model/SubLifecycle.v.
   (The presenceHub statistics lemma is in Proofs/PresenceHub.v.) *)
From Coq Require Import List NArith ZArith Bool Lia.
From Cfg Require Import Model.SubLifecycle.
Import ListNotations.
Open Scope N_scope.

Fixpoint rep (n : nat) (l : label) : list label := match n with O => [] | S m => l :: rep m l end.
Definition op_ := mkOpts true false.

Definition alloc_tids (s : st) : list tid :=
  map (fun k => 2 * N.of_nat k) (seq 0 (N.to_nat (next_ext s))) ++
  map (fun k => 2 * N.of_nat k + 1) (seq 0 (N.to_nat (next_int s))).
Definition all_finished (s : st) : bool :=
  forallb (fun t => match thr s t with None => true | Some _ => false end) (alloc_tids s).

(* A presence tick's AddPresence lands after an unsubscribe removed the entry; a fresh
   reservation of the channel exists when the tick compensates; the fresh attempt then fails
   before adding presence itself.  Since f4ffc2fd compensateRacedPresence compares the
   subscription generation, so the entry is removed. *)
Definition tick_vs_resub : list label :=
  [LSpawn OConnect] ++ rep 9 (LStep 0 true) ++
  [LSpawn (OSubCli 0 op_)] ++ rep 11 (LStep 2 true) ++      (* subscribed with presence *)
  [LSpawn OTick] ++ rep 5 (LStep 4 true) ++                 (* tick: snapshot, alive, membership check; parked before AddPresence *)
  [LSpawn (OUnsubCli 0)] ++ rep 6 (LStep 6 true) ++         (* unsubscribe removes the presence entry *)
  [LSpawn (OSubCli 0 op_); LStep 8 true] ++                 (* re-subscribe: reservation (generation 2), handler pending *)
  [LStep 4 true; LStep 4 true].                             (* the tick's add lands; next: compensation *)

(* what the tick compensates, by the current rule and by the old channel-name-only rule *)
Definition raced_items_name_only (s : st) (l : list (ch * gen)) : list ch :=
  map fst (filter (fun p => match lookup (fst p) (chans s) with None => true | Some _ => false end) l).

Definition tick_added (s : st) (t : tid) : list (ch * gen) :=
  match thr s t with Some (TTck k) => t_added k | _ => [] end.

Lemma tick_vs_resub_mid :
  exists s, exec tick_vs_resub init = Some s /\ no_timeout tick_vs_resub = true /\
            pres s 0 = true /\ is_subscribed s 0 = false /\ tick_added s 4 = [(0, 1)] /\
            raced_items s (tick_added s 4) = [0] /\
            raced_items_name_only s (tick_added s 4) = [].
Proof.
  destruct (exec tick_vs_resub init) as [s|] eqn:E; [|vm_compute in E; discriminate].
  exists s. split; auto. vm_compute in E. inversion E; subst. vm_compute. repeat split; reflexivity.
Qed.

(* ... and the run ends without a stale entry *)
Definition tick_vs_resub_end : list label :=
  tick_vs_resub ++ rep 4 (LStep 4 true) ++                  (* compensation removes the entry, tick ends *)
  [LStep 8 false] ++ rep 4 (LStep 8 true).                  (* the handler rejects the re-subscribe *)

Lemma tick_vs_resub_clean :
  exists s, exec tick_vs_resub_end init = Some s /\ all_finished s = true /\
            is_subscribed s 0 = false /\ lookup 0 (chans s) = None /\ pres s 0 = false.
Proof.
  destruct (exec tick_vs_resub_end init) as [s|] eqn:E; [|vm_compute in E; discriminate].
  exists s. split; auto. vm_compute in E. inversion E; subst. vm_compute. repeat split; reflexivity.
Qed.

(* the rule itself: every added item whose channel is gone or carries another generation is compensated *)
Theorem compensation_covers s l c g :
  In (c, g) l ->
  (lookup c (chans s) = None \/ exists x, lookup c (chans s) = Some x /\ c_gen x <> g) ->
  In c (raced_items s l).
Proof.
  intros HI H. unfold raced_items. apply in_map_iff. exists (c, g). split; auto.
  apply filter_In. split; auto. cbn. destruct H as [->|(x & -> & NE)]; auto.
  destruct (N.eqb_spec (c_gen x) g); [contradiction|reflexivity].
Qed.

(* An unsubscribe's RemovePresence lands after the re-subscribe's AddPresence: the connection is
   subscribed with presence but absent from it until the next tick re-adds it. *)
Definition transient_absence : list label :=
  [LSpawn OConnect] ++ rep 9 (LStep 0 true) ++
  [LSpawn (OSubCli 0 op_)] ++ rep 11 (LStep 2 true) ++
  [LSpawn (OUnsubCli 0); LStep 4 true; LStep 4 true] ++     (* snapshot + delete; parked before RemovePresence *)
  [LSpawn (OSubSrv 0 op_)] ++ rep 8 (LStep 6 true) ++       (* re-subscribe adds presence and commits *)
  rep 4 (LStep 4 true).                                     (* the stale RemovePresence lands *)

Lemma transient_absence_witness :
  exists s, exec transient_absence init = Some s /\ all_finished s = true /\
            is_subscribed s 0 = true /\ pres s 0 = false /\
            (* ... and one more tick restores it *)
            exists s', exec ([LSpawn OTick] ++ rep 10 (LStep 8 true)) s = Some s' /\
                       all_finished s' = true /\ pres s' 0 = true.
Proof.
  destruct (exec transient_absence init) as [s|] eqn:E; [|vm_compute in E; discriminate].
  exists s. split; auto. vm_compute in E. inversion E; subst. clear E.
  repeat split; try (vm_compute; reflexivity).
  match goal with |- exists s', exec ?l ?s0 = _ /\ _ => destruct (exec l s0) as [s'|] eqn:E end;
    [|vm_compute in E; discriminate].
  exists s'. split; auto. vm_compute in E. inversion E; subst. vm_compute. split; reflexivity.
Qed.

Theorem name_only_compensation_refuted :
  exists sched s,
    exec sched init = Some s /\ no_timeout sched = true /\ pres s 0 = true /\ is_subscribed s 0 = false /\
    raced_items s (tick_added s 4) = [0] /\ raced_items_name_only s (tick_added s 4) = [].
Proof.
  destruct tick_vs_resub_mid as (s & E & NT & P & S & _ & R1 & R2). exists tick_vs_resub, s. repeat split; auto.
Qed.

Theorem tick_vs_resub_no_stale :
  exists sched s,
    exec sched init = Some s /\ all_finished s = true /\
    is_subscribed s 0 = false /\ lookup 0 (chans s) = None /\ pres s 0 = false.
Proof. destruct tick_vs_resub_clean as (s & H). exists tick_vs_resub_end, s. exact H. Qed.

Theorem transient_absence_ex :
  exists sched s,
    exec sched init = Some s /\ all_finished s = true /\ is_subscribed s 0 = true /\ pres s 0 = false.
Proof.
  destruct transient_absence_witness as (s & E & F & S & P & _). exists transient_absence, s. auto.
Qed.
