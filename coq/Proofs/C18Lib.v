(* Lemma library for C18: byte strings / decimal round trips, the Redis keyspace. *)
From Coq Require Import List NArith ZArith Bool String Ascii Lia.
From Coq Require Import Decimal DecimalString DecimalN DecimalPos.
From Cfg Require Import Model.RStr Model.LuaNum Model.Redis.
Import ListNotations.
Open Scope string_scope.

(* ---------- strings ---------- *)
Lemma append_nil_r s : s ++ "" = s.
Proof. induction s; cbn; congruence. Qed.

Lemma append_assoc (a b c : string) : (a ++ b) ++ c = a ++ (b ++ c).
Proof. induction a; cbn; congruence. Qed.

Lemma length_append (a b : string) : String.length (a ++ b) = (String.length a + String.length b)%nat.
Proof. induction a; cbn; congruence. Qed.

Lemma append_inj_l (p a b : string) : p ++ a = p ++ b -> a = b.
Proof. induction p; cbn; intros H; [assumption|]. injection H as H. auto. Qed.

Lemma stake_app (a b : string) : stake (String.length a) (a ++ b) = a.
Proof. induction a; cbn; [destruct b; reflexivity | congruence]. Qed.

Lemma sdrop_app (a b : string) : sdrop (String.length a) (a ++ b) = b.
Proof. induction a; cbn; auto. Qed.

Lemma is_prefix_app (p s : string) : is_prefix p (p ++ s) = true.
Proof. induction p; cbn; [reflexivity|]. rewrite Ascii.eqb_refl. assumption. Qed.

Lemma stake_all (a : string) : stake (String.length a) a = a.
Proof. rewrite <- (append_nil_r a) at 2. apply stake_app. Qed.

(* characters *)
Fixpoint all_chars (P : ascii -> bool) (s : string) : bool :=
  match s with EmptyString => true | String c r => P c && all_chars P r end.

Lemma sindex_char_app (c : ascii) (a b : string) :
  has_char c a = false -> sindex_char c (a ++ String c b) = Some (String.length a).
Proof.
  induction a as [|x a IH]; cbn.
  - rewrite Ascii.eqb_refl. reflexivity.
  - intros H. apply orb_false_iff in H as [H1 H2]. rewrite H1, (IH H2). reflexivity.
Qed.

Lemma sindex_char_none (c : ascii) (a : string) : has_char c a = false -> sindex_char c a = None.
Proof.
  induction a as [|x a IH]; cbn; [reflexivity|].
  intros H. apply orb_false_iff in H as [H1 H2]. rewrite H1, (IH H2). reflexivity.
Qed.

Lemma has_char_app c a b : has_char c (a ++ b) = has_char c a || has_char c b.
Proof. induction a; cbn; [reflexivity|]. rewrite IHa, orb_assoc. reflexivity. Qed.

(* decimal digits *)
Definition is_digit (c : ascii) : bool := let n := nat_of_ascii c in (Nat.leb 48 n && Nat.leb n 57)%bool.

Lemma all_digits_cons x s : all_digits (String x s) = is_digit x && all_digits s.
Proof. reflexivity. Qed.

Lemma all_digits_string_of_uint d : all_digits (NilEmpty.string_of_uint d) = true.
Proof. induction d; cbn; auto. Qed.

Lemma all_digits_dec n : all_digits (dec n) = true.
Proof. apply all_digits_string_of_uint. Qed.

Lemma dec_nonempty n : dec n <> "".
Proof.
  unfold dec. destruct n as [|p]; cbn; [discriminate|].
  pose proof (Unsigned.to_uint_nonnil p) as H.
  destruct (Pos.to_uint p); cbn; try discriminate. congruence.
Qed.

Lemma parse_dec_dec n : parse_dec (dec n) = Some n.
Proof.
  unfold parse_dec. pose proof (dec_nonempty n) as Hne.
  destruct (dec n) eqn:E; [congruence|]. rewrite <- E. unfold dec.
  rewrite NilEmpty.usu, DecimalN.Unsigned.of_to. reflexivity.
Qed.

Lemma all_digits_no_char (c : ascii) (s : string) :
  is_digit c = false -> all_digits s = true -> has_char c s = false.
Proof.
  intros Hc. induction s as [|x s IH]; [reflexivity|].
  rewrite all_digits_cons. intros H. apply andb_true_iff in H as [H1 H2].
  change (has_char c (String x s)) with (Ascii.eqb x c || has_char c s).
  rewrite (IH H2), orb_false_r.
  destruct (Ascii.eqb x c) eqn:E; [|reflexivity].
  apply Ascii.eqb_eq in E. subst x. congruence.
Qed.

Lemma dec_no_char (c : ascii) n : is_digit c = false -> has_char c (dec n) = false.
Proof. intros. apply all_digits_no_char; [assumption | apply all_digits_dec]. Qed.

Lemma dec_first_digit n : exists c r, dec n = String c r /\ is_digit c = true.
Proof.
  pose proof (dec_nonempty n) as Hne. pose proof (all_digits_dec n) as Hd.
  destruct (dec n) as [|c r]; [congruence|]. exists c, r. split; [reflexivity|].
  rewrite all_digits_cons in Hd. apply andb_true_iff in Hd as [Hd _]. exact Hd.
Qed.

Lemma dec_inj a b : dec a = dec b -> a = b.
Proof. intros H. apply (f_equal parse_dec) in H. rewrite !parse_dec_dec in H. congruence. Qed.

Lemma parse_zdec_dec n : parse_zdec (dec n) = Some (Z.of_N n).
Proof. unfold parse_zdec. rewrite parse_dec_dec. reflexivity. Qed.

Lemma zdec_of_N n : zdec (Z.of_N n) = dec n.
Proof. destruct n; reflexivity. Qed.

Lemma parse_ll_dec n : (n < 9223372036854775808)%N -> parse_ll (dec n) = Some (Z.of_N n).
Proof.
  intros H. unfold parse_ll. rewrite parse_zdec_dec, zdec_of_N, String.eqb_refl. cbn [andb].
  replace (-9223372036854775808 <=? Z.of_N n)%Z with true by (symmetry; apply Z.leb_le; lia).
  replace (Z.of_N n <=? 9223372036854775807)%Z with true by (symmetry; apply Z.leb_le; lia).
  reflexivity.
Qed.

Lemma parse_ll_zdec_nonneg z : (0 <= z < 9223372036854775808)%Z -> parse_ll (zdec z) = Some z.
Proof.
  intros H. rewrite <- (Z2N.id z) by lia. rewrite zdec_of_N. rewrite parse_ll_dec; [reflexivity|lia].
Qed.

Lemma parse_goint_dec n : parse_goint (dec n) = Some (Z.of_N n).
Proof.
  unfold parse_goint. destruct (dec_first_digit n) as (c & r & E & Hc).
  rewrite E. destruct c as [[] [] [] [] [] [] [] []]; try discriminate Hc; rewrite <- E; apply parse_zdec_dec.
Qed.

(* ---------- numbers ---------- *)
Lemma round53_small z : (0 <= z < 9007199254740992)%Z -> round53 z = z.
Proof.
  intros H. destruct z as [|p|p]; [reflexivity| |lia].
  cbn. unfold round53N.
  replace (N.pos p <? 9007199254740992)%N with true by (symmetry; apply N.ltb_lt; lia). reflexivity.
Qed.

Lemma lua_num2str_small n : (n < 100000000000000)%N -> lua_num2str (Z.of_N n) = dec n.
Proof.
  intros H. unfold lua_num2str, fmt_g.
  destruct n as [|p]; cbn [Z.of_N].
  - reflexivity.
  - cbn [Z.to_N]. unfold fmt_g_abs.
    replace (N.pos p <? 10 ^ N.of_nat 14)%N with true; [reflexivity|].
    symmetry. apply N.ltb_lt. exact H.
Qed.

Lemma str2number_dec n : str2number (dec n) = TNum (round53 (Z.of_N n)).
Proof.
  unfold str2number. rewrite all_digits_dec.
  destruct (String.eqb (dec n) "") eqn:E.
  - apply String.eqb_eq in E. destruct (dec_nonempty n E).
  - cbn [negb andb]. rewrite parse_dec_dec. reflexivity.
Qed.

Lemma redis_arg_of_num_small n : (n < 4611686018427387904)%N -> redis_arg_of_num (Z.of_N n) = Some (dec n).
Proof.
  intros H. unfold redis_arg_of_num.
  replace (-4611686018427387904 <=? Z.of_N n)%Z with true by (symmetry; apply Z.leb_le; lia).
  replace (Z.of_N n <=? 4611686018427387904)%Z with true by (symmetry; apply Z.leb_le; lia).
  cbn [andb]. rewrite zdec_of_N. reflexivity.
Qed.

(* ---------- association lists ---------- *)
Lemma sfind_sput_same {A} k (v : A) l : sfind k (sput k v l) = Some v.
Proof.
  induction l as [|[k' v'] l IH]; cbn.
  - rewrite String.eqb_refl. reflexivity.
  - destruct (String.eqb k k') eqn:E; cbn; rewrite ?String.eqb_refl, ?E; auto.
Qed.

Lemma sfind_sput_other {A} k k' (v : A) l : k' <> k -> sfind k' (sput k v l) = sfind k' l.
Proof.
  intros Hne. apply String.eqb_neq in Hne.
  induction l as [|[k2 v2] l IH]; cbn.
  - rewrite Hne. reflexivity.
  - destruct (String.eqb k k2) eqn:E; cbn.
    + apply String.eqb_eq in E. subst k2. rewrite Hne. reflexivity.
    + rewrite IH. reflexivity.
Qed.

Lemma sfind_sdel_same {A} k (l : list (string * A)) : sfind k (sdel k l) = None.
Proof.
  induction l as [|[k' v'] l IH]; cbn; [reflexivity|].
  destruct (String.eqb k k') eqn:E; cbn; rewrite ?E; auto.
Qed.

Lemma sfind_sdel_other {A} k k' (l : list (string * A)) : k' <> k -> sfind k' (sdel k l) = sfind k' l.
Proof.
  intros Hne. apply String.eqb_neq in Hne.
  induction l as [|[k2 v2] l IH]; cbn; [reflexivity|].
  destruct (String.eqb k k2) eqn:E; cbn.
  - apply String.eqb_eq in E. subst k2. rewrite Hne. exact IH.
  - rewrite IH. reflexivity.
Qed.

(* ---------- keyspace ---------- *)
Lemma now_putk st k rk : now (putk st k rk) = now st. Proof. reflexivity. Qed.
Lemma now_delk st k : now (delk st k) = now st. Proof. reflexivity. Qed.
Lemma now_setval st k v : now (setval st k v) = now st. Proof. reflexivity. Qed.
Lemma outbox_putk st k rk : outbox (putk st k rk) = outbox st. Proof. reflexivity. Qed.
Lemma outbox_delk st k : outbox (delk st k) = outbox st. Proof. reflexivity. Qed.
Lemma outbox_setval st k v : outbox (setval st k v) = outbox st. Proof. reflexivity. Qed.

Lemma getk_putk_same st k rk : getk (putk st k rk) k = if live (now st) rk then Some rk else None.
Proof. unfold getk, putk. cbn. rewrite sfind_sput_same. reflexivity. Qed.

Lemma getk_putk_other st k k' rk : k' <> k -> getk (putk st k rk) k' = getk st k'.
Proof. intros H. unfold getk, putk. cbn. rewrite sfind_sput_other by assumption. reflexivity. Qed.

Lemma getk_delk_same st k : getk (delk st k) k = None.
Proof. unfold getk, delk. cbn. rewrite sfind_sdel_same. reflexivity. Qed.

Lemma getk_delk_other st k k' : k' <> k -> getk (delk st k) k' = getk st k'.
Proof. intros H. unfold getk, delk. cbn. rewrite sfind_sdel_other by assumption. reflexivity. Qed.

Definition exp_of (o : option rkey) : option N := match o with Some rk => k_exp rk | None => None end.

Lemma getk_live st k rk : getk st k = Some rk -> live (now st) rk = true.
Proof. unfold getk. destruct (sfind k (store st)); [|discriminate]. destruct (live (now st) r) eqn:E; congruence. Qed.

Lemma getk_setval_same st k v : getk (setval st k v) k = Some (mkKey v (exp_of (getk st k))).
Proof.
  unfold setval. rewrite getk_putk_same. fold (exp_of (getk st k)).
  destruct (getk st k) as [rk|] eqn:E; cbn.
  - apply getk_live in E. unfold live in *. cbn. rewrite E. reflexivity.
  - reflexivity.
Qed.

Lemma getk_setval_other st k k' v : k' <> k -> getk (setval st k v) k' = getk st k'.
Proof. intros. unfold setval. apply getk_putk_other. assumption. Qed.

Lemma getk_clear_outbox st k : getk (clear_outbox st) k = getk st k.
Proof. reflexivity. Qed.
