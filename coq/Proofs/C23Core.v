(* C23 core domain: the simulation between the Redis map broker model (shallow scripts) and the
   memory map broker model. *)
From Coq Require Import List NArith ZArith Bool String Ascii Lia.
From Cfg Require Import Model.RStr Model.LuaNum Model.Redis Model.RedisScripts Model.MapApi23 Model.MemMap23
                        Model.RedisMapBroker Model.RedisMapScripts
                        Proofs.C18Lib Proofs.C18Redis Proofs.C23Redis Proofs.C23Lib Proofs.C23Add Proofs.C23Read.
From Cfg Require Proofs.C18Stream Proofs.C18StreamP Proofs.C18StreamH Proofs.C18StreamQ.
Import ListNotations.
Open Scope string_scope.

(* ================= the domain ================= *)
Definition cfg_ok (cf : mcfg) : bool :=
  ((mc_mode cf =? 3)%N && (mc_keyttl cf =? 0)%Z && (mc_mttl cf =? 0)%Z && negb (mc_ordered cf)
   && (0 <? mc_size cf)%Z && (mc_size cf <? 2147483648)%Z && C18Stream.small (mc_sttl cf))%bool.

Definition nonce_ok (e : string) : bool := negb (has_char ":" e).

Definition popts_ok (o : mpopts) : bool :=
  (String.eqb (mp_idem o) "" && (mp_ver o =? 0)%N && String.eqb (mp_mode o) ""
   && match mp_exp o with None => true | Some _ => false end && (0 <=? mp_score o)%Z)%bool.

Definition ropts_ok (o : mropts) : bool :=
  (String.eqb (mr_idem o) "" && match mr_exp o with None => true | Some _ => false end)%bool.

Definition since_okb (top : N) (since : option (N * string)) (reverse : bool) : bool :=
  match since with
  | None => true
  | Some (so, _) => if reverse then ((2 <=? so) && (so <=? top + 1))%N else (so + 1 <? 18446744073709551616)%N
  end.

Definition op_ok (m : mmstate) (o : mop) : bool :=
  match o with
  | MPublish ch key po nonce now => (popts_ok po && nonce_ok nonce)%bool
  | MRemove ch key ro nonce now =>
      (ropts_ok ro && negb (String.eqb key "") && match sfind ch (mm_chans m) with Some _ => true | None => false end)%bool
  | MReadStream ch since limit reverse nr nm =>
      (String.eqb nr nm && nonce_ok nr && (limit <? 2147483648)%Z &&
       match sfind ch (mm_chans m) with
       | Some c => since_okb (ch_top c) since reverse
       | None => match since with None => true | Some _ => false end
       end)%bool
  | MReadState ch rev_ limit key asc nr nm =>
      (String.eqb nr nm && nonce_ok nr && (limit <? 2147483648)%Z &&
       match sfind ch (mm_chans m) with
       | Some c => negb (String.eqb key "") || negb (limit =? 0)%Z || negb (rev_bad rev_ (ch_epoch c))
       | None => String.eqb key "" && match rev_ with None => true | Some _ => false end
       end)%bool
  | MClear _ | MTick _ => false
  end.

Fixpoint run_ok (cf : mcfg) (m : mmstate) (ops : list mop) : bool :=
  match ops with
  | [] => true
  | o :: r => op_ok m o && run_ok cf (fst (mm_step cf m o)) r
  end.

Definition op_chan (o : mop) : list string :=
  match o with
  | MPublish ch _ _ _ _ | MRemove ch _ _ _ _ | MReadState ch _ _ _ _ _ _ | MReadStream ch _ _ _ _ _ | MClear ch => [ch]
  | MTick _ => []
  end.
Definition chans (ops : list mop) : list string := flat_map op_chan ops.

(* ================= the relation ================= *)
Definition chan_rel (rs : rstate) (ch : string) (oc : option mchan) : Prop :=
  match oc with
  | None => forall k, In k (chan_keys ch) -> getk rs k = None
  | Some c => exists h g smh,
      hview rs (k_meta ch) (Some h) /\ hash_ok h (ch_epoch c) (ch_top c) 0 "" /\
      map fst g = ch_items c /\ g_inv g (ch_top c) /\
      sview rs (k_stream ch) (strm_view (ch_epoch c) g (ch_top c)) /\
      hview rs (k_state ch) (state_view (ch_epoch c) (ch_state c)) /\
      hview rs (k_smeta ch) smh /\ smeta_cond (state_view (ch_epoch c) (ch_state c)) smh (ch_epoch c) /\
      getk rs (k_expire ch) = None
  end.

Definition chan_inv (n : N) (c : mchan) : Prop :=
  has_char ":" (ch_epoch c) = false /\ (ch_top c <= n)%N /\ contigT (ch_items c) 1 (ch_top c) /\
  (forall kv, In kv (ch_state c) -> entry_ok (snd kv)).

Record R (U : list string) (n : N) (rs : rstate) (m : mmstate) : Prop := mkRel {
  R_chan : forall ch, In ch U -> chan_rel rs ch (sfind ch (mm_chans m));
  R_inv : forall ch c, sfind ch (mm_chans m) = Some c -> chan_inv n c
}.

Lemma chan_inv_mono n n' c : (n <= n')%N -> chan_inv n c -> chan_inv n' c.
Proof. intros H (A & B & C & D). split; [assumption|]. split; [lia|]. split; assumption. Qed.

Lemma hview_eq rs rs' k oh : getk rs' k = getk rs k -> hview rs k oh -> hview rs' k oh.
Proof. intros E. unfold hview. rewrite E. auto. Qed.
Lemma sview_eq rs rs' k os : getk rs' k = getk rs k -> sview rs k os -> sview rs' k os.
Proof. intros E. unfold sview. rewrite E. auto. Qed.

Lemma chan_rel_frame rs rs' ch oc :
  (forall k, In k (chan_keys ch) -> getk rs' k = getk rs k) -> chan_rel rs ch oc -> chan_rel rs' ch oc.
Proof.
  intros F. destruct oc as [c|]; cbn [chan_rel].
  - intros (h & g & smh & H1 & H2 & H3 & H4 & H5 & H6 & H7 & H8 & H9). exists h, g, smh.
    assert (Fm := F (k_meta ch)). assert (Fs := F (k_stream ch)). assert (Ft := F (k_state ch)).
    assert (Fsm := F (k_smeta ch)). assert (Fe := F (k_expire ch)). unfold chan_keys in *. cbn [In] in *.
    split; [apply (hview_eq rs); [apply Fm; tauto | assumption]|]. split; [assumption|]. split; [assumption|].
    split; [assumption|]. split; [apply (sview_eq rs); [apply Fs; tauto | assumption]|].
    split; [apply (hview_eq rs); [apply Ft; tauto | assumption]|].
    split; [apply (hview_eq rs); [apply Fsm; tauto | assumption]|]. split; [assumption|].
    rewrite Fe by tauto. assumption.
  - intros H k Hk. rewrite F by assumption. apply H. assumption.
Qed.

Lemma R_update U n n' rs m rs' m' c oc' :
  keys_ok U -> In c U -> R U n rs m -> (n <= n')%N ->
  frame (chan_keys c) rs rs' ->
  (forall ch, sfind ch (mm_chans m') = if String.eqb ch c then oc' else sfind ch (mm_chans m)) ->
  chan_rel rs' c oc' -> (forall c', oc' = Some c' -> chan_inv n' c') ->
  R U n' rs' m'.
Proof.
  intros HK Hc HR Hn [F _] Hch Hrel Hinv. constructor.
  - intros ch Hin. rewrite Hch. destruct (String.eqb ch c) eqn:E.
    + apply String.eqb_eq in E. subst. exact Hrel.
    + apply String.eqb_neq in E. apply (chan_rel_frame rs); [|apply (R_chan _ _ _ _ HR); assumption].
      intros k Hk. apply F. apply (chan_keys_disjoint U ch c HK Hin Hc E k Hk).
  - intros ch c'. rewrite Hch. destruct (String.eqb ch c) eqn:E.
    + apply Hinv.
    + intros H. apply (chan_inv_mono n); [assumption|]. apply (R_inv _ _ _ _ HR ch). assumption.
Qed.

(* ================= the state both sides start an operation from ================= *)
Definition c0_of (m : mmstate) (ch nonce : string) : mchan :=
  match sfind ch (mm_chans m) with Some c => c | None => new_chan nonce end.

Lemma pre_state U n rs m ch nonce :
  R U n rs m -> In ch U -> nonce_ok nonce = true ->
  let c0 := c0_of m ch nonce in
  exists v g, views rs ch v /\ meta_cond v nonce (ch_epoch c0) (ch_top c0) /\
     rv_state v = state_view (ch_epoch c0) (ch_state c0) /\
     smeta_cond (rv_state v) (rv_smeta v) (ch_epoch c0) /\
     rv_stream v = strm_view (ch_epoch c0) g (ch_top c0) /\ map fst g = ch_items c0 /\ g_inv g (ch_top c0) /\
     chan_inv n c0.
Proof.
  intros HR Hin Hn. unfold c0_of. pose proof (R_chan _ _ _ _ HR ch Hin) as Hrel.
  destruct (sfind ch (mm_chans m)) as [c|] eqn:E.
  - destruct Hrel as (h & g & smh & H1 & H2 & H3 & H4 & H5 & H6 & H7 & H8 & H9).
    exists (mkRV (Some h) (state_view (ch_epoch c) (ch_state c)) smh (strm_view (ch_epoch c) g (ch_top c))), g.
    unfold views, meta_cond. cbn [rv_meta rv_state rv_smeta rv_stream].
    split; [split; [assumption|]; split; [assumption|]; split; [assumption|]; split; assumption|].
    split; [assumption|]. split; [reflexivity|]. split; [assumption|]. split; [reflexivity|].
    split; [assumption|]. split; [assumption|]. apply (R_inv _ _ _ _ HR ch c E).
  - exists (mkRV None None None None), [].
    unfold views, meta_cond, chan_keys in *. cbn [rv_meta rv_state rv_smeta rv_stream new_chan ch_epoch ch_top ch_state ch_items].
    cbn [chan_rel In] in Hrel. cbn [hview sview].
    split; [split; [apply Hrel; auto 10|]; split; [apply Hrel; auto 10|]; split; [apply Hrel; auto 10|]; split; apply Hrel; auto 10|].
    split; [split; reflexivity|]. split; [reflexivity|]. split; [left; split; reflexivity|]. split; [reflexivity|].
    split; [reflexivity|]. split; [intros x []|].
    split; [unfold nonce_ok in Hn; apply negb_true_iff in Hn; exact Hn|]. split; [lia|].
    split; [apply contigT_nil; reflexivity | intros kv []].
Qed.

Lemma stream_cond_of v epoch g top items :
  rv_stream v = strm_view epoch g top -> map fst g = items -> contigT items 1 top ->
  stream_cond v top (map (genc epoch) g).
Proof.
  intros Hs Hm Hc. pose proof (contigT_length _ _ _ Hc) as Hl. rewrite <- Hm, map_length in Hl.
  unfold stream_cond. destruct g as [|x g].
  - left. cbn in Hl. split; [lia | reflexivity].
  - right. cbn [List.length] in Hl. split; [lia|]. rewrite Hs. reflexivity.
Qed.

Lemma wipe_cond_of v epoch : smeta_cond (rv_state v) (rv_smeta v) epoch -> wipe_cond v epoch.
Proof. intros [[_ H]|H]; [left; exact H | right; exact H]. Qed.

(* ================= memory side of a publish ================= *)
Lemma sfind_set_chan m ch c ch' :
  sfind ch' (mm_chans (set_chan m ch c)) = if String.eqb ch' ch then Some c else sfind ch' (mm_chans m).
Proof.
  unfold set_chan. cbn [mm_chans]. destruct (String.eqb ch' ch) eqn:E.
  - apply String.eqb_eq in E. subst. apply sfind_sput_same.
  - apply String.eqb_neq in E. apply sfind_sput_other. assumption.
Qed.

Definition state_after (key : string) (e : mentry) (state : list (string * mentry)) : list (string * mentry) :=
  if String.eqb key "" then state else sput key e state.

Lemma hub_add_core cf m ch key o nonce :
  has_stream cf = true -> popts_ok o = true ->
  let c0 := c0_of m ch nonce in
  (Z.of_nat (List.length (ch_items c0)) < mc_size cf)%Z ->
  exists m' ver vep,
    hub_add cf m ch key o nonce = (m', MUpd (ch_top c0 + 1) (ch_epoch c0) false "" None) /\
    (forall ch', sfind ch' (mm_chans m') =
       if String.eqb ch' ch
       then Some (mkMCh (ch_top c0 + 1) (ch_epoch c0) (ch_items c0 ++ [((ch_top c0 + 1)%N, key, mp_data o, false)])
                        (state_after key (mkME (ch_top c0 + 1) (mp_data o) (mp_score o) ver vep) (ch_state c0)))
       else sfind ch' (mm_chans m)).
Proof.
  intros Hhs Hp c0 Hsz. unfold popts_ok in Hp.
  apply andb_true_iff in Hp as [Hp Hsc]. apply andb_true_iff in Hp as [Hp Hexp]. apply andb_true_iff in Hp as [Hp Hmode].
  apply andb_true_iff in Hp as [Hidem Hver]. apply N.eqb_eq in Hver. apply String.eqb_eq in Hmode.
  destruct (mp_exp o) eqn:Eexp; [discriminate|].
  unfold hub_add.
  set (m1 := match sfind ch (mm_chans m) with Some c => (m, c) | None => (set_chan m ch (new_chan nonce), new_chan nonce) end).
  assert (Em1 : m1 = (fst m1, c0)).
  { unfold m1, c0, c0_of. destruct (sfind ch (mm_chans m)); reflexivity. }
  assert (Hm1 : forall c2 ch', sfind ch' (mm_chans (set_chan (fst m1) ch c2)) = if String.eqb ch' ch then Some c2 else sfind ch' (mm_chans m)).
  { intros c2 ch'. rewrite sfind_set_chan. destruct (String.eqb ch' ch) eqn:E; [reflexivity|].
    unfold m1. destruct (sfind ch (mm_chans m)); cbn [fst]; [reflexivity|]. rewrite sfind_set_chan, E. reflexivity. }
  rewrite Em1. rewrite Hhs, Hver, Hmode, Eexp. cbn [andb N.ltb N.compare]. rewrite andb_false_r. cbn iota.
  assert (Hmodes : (if negb (String.eqb key "") then
                      match sfind key (ch_state c0) with
                      | Some _ => if String.eqb "" "if_new" then Some "key_exists" else None
                      | None => if String.eqb "" "if_exists" then Some "key_not_found" else None
                      end else None) = None).
  { destruct (negb (String.eqb key "")); [|reflexivity]. destruct (sfind key (ch_state c0)); reflexivity. }
  rewrite Hmodes.
  assert (Hcas : (if negb (String.eqb key "") then cas_check (snd (chan_pos c0)) None (sfind key (ch_state c0)) else None) = None).
  { destruct (negb (String.eqb key "")); reflexivity. }
  rewrite Hcas. unfold stream_add. cbn [ch_items ch_top ch_epoch ch_state fst snd].
  replace (List.length (ch_items c0 ++ [((ch_top c0 + 1)%N, key, mp_data o, false)]) - Z.to_nat (mc_size cf))%nat with O
    by (rewrite app_length; cbn [List.length]; lia).
  cbn [skipn]. unfold state_after.
  destruct (String.eqb key "") eqn:Ek; cbn [negb].
  - eexists. exists 0%N, "". split; [reflexivity|]. intros ch'. apply Hm1.
  - cbn [N.eqb]. destruct (sfind key (ch_state c0)) as [e|]; eexists; eexists; eexists; (split; [reflexivity|]); intros ch'; apply Hm1.
Qed.
