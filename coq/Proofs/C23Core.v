(* C23 core domain: the simulation between the Redis map broker model (shallow scripts) and the
   memory map broker model. *)
From Coq Require Import List NArith ZArith Bool String Ascii Lia.
From Cfg Require Import Model.RStr Model.LuaNum Model.Redis Model.RedisScripts Model.MapApi23 Model.MemMap23
                        Model.RedisMapBroker Model.RedisMapScripts
                        Proofs.C18Lib Proofs.C18Redis Proofs.C23Redis Proofs.C23Lib Proofs.C23Add Proofs.C23Read Proofs.C23Add2 Proofs.C23Add3 Proofs.C23Add4 Proofs.C23Idem.
From Cfg Require Proofs.C18Stream Proofs.C18StreamP Proofs.C18StreamH Proofs.C18StreamQ.
Import ListNotations.
Open Scope string_scope.

(* ================= the domain ================= *)
Definition cfg_ok (cf : mcfg) : bool :=
  ((mc_mode cf =? 3)%N && (mc_keyttl cf =? 0)%Z && (mc_mttl cf =? 0)%Z && negb (mc_ordered cf)
   && (0 <? mc_size cf)%Z && (mc_size cf <? 2147483648)%Z && C18Stream.small (mc_sttl cf))%bool.

Definition nonce_ok (e : string) : bool := negb (has_char ":" e).

Definition exp_okb (exp : option (N * string)) : bool :=
  match exp with Some (eo, ee) => (negb (String.eqb ee "") && (eo <? 9007199254740992)%N)%bool | None => true end.

(* an unkeyed Publish carries neither version, KeyMode nor ExpectedPosition; a keyed one may carry any version below
   2^53 (finding map-version-ge-2^53) with any version epoch, any KeyMode and an ExpectedPosition with a non-empty
   epoch (finding map-cas-empty-epoch) and an offset below 2^53 *)
Definition popts_core (key : string) (o : mpopts) : bool :=
  ((mp_ver o <? 9007199254740992)%N && (0 <=? mp_score o)%Z &&
   (if String.eqb key "" then (mp_ver o =? 0)%N && String.eqb (mp_mode o) "" && match mp_exp o with None => true | Some _ => false end
    else exp_okb (mp_exp o)))%bool.

(* [ai]: idempotency keys are allowed in this run (and then it contains no Clear: finding map-clear-idempotency) *)
Definition idem_okb (ai : bool) (idem : string) (ttl : Z) : bool :=
  (String.eqb idem "" || (ai && (0 <=? ttl)%Z && (ttl <? 2147483648)%Z))%bool.

Definition popts_ok (ai : bool) (key : string) (o : mpopts) : bool :=
  (idem_okb ai (mp_idem o) (mp_idemttl o) && popts_core key o)%bool.

Definition ropts_ok (ai : bool) (o : mropts) : bool := (idem_okb ai (mr_idem o) (mr_idemttl o) && exp_okb (mr_exp o))%bool.

Definition since_okb (top : N) (since : option (N * string)) (reverse : bool) : bool :=
  match since with
  | None => true
  | Some (so, _) => if reverse then ((2 <=? so) && (so <=? top + 1))%N else (so + 1 <? 18446744073709551616)%N
  end.

Definition op_ok (ai : bool) (m : mmstate) (o : mop) : bool :=
  match o with
  | MPublish ch key po nonce now => (popts_ok ai key po && nonce_ok nonce)%bool
  | MRemove ch key ro nonce now =>
      (ropts_ok ai ro && negb (String.eqb key "") && match sfind ch (mm_chans m) with Some _ => true | None => false end)%bool
  | MReadStream ch since limit reverse nr nm =>
      (String.eqb nr nm && nonce_ok nr && (limit <? 2147483648)%Z &&
       match sfind ch (mm_chans m) with
       | Some c => since_okb (ch_top c) since reverse
       | None => match since with None => true | Some _ => false end
       end)%bool
  | MReadState ch rev_ limit key asc nr nm =>
      (String.eqb nr nm && nonce_ok nr && (limit <? 2147483648)%Z &&
       match sfind ch (mm_chans m) with
       | Some c => negb (String.eqb key "") || negb (limit =? 0)%Z || negb (rev_bad rev_ (ch_epoch c))
       | None => String.eqb key "" && match rev_ with None => true | Some _ => false end
       end)%bool
  | MClear _ => negb ai
  | MTick _ | MCleanup _ _ | MStats _ => false
  end.

Fixpoint run_ok (cf : mcfg) (ai : bool) (m : mmstate) (ops : list mop) : bool :=
  match ops with
  | [] => true
  | o :: r => op_ok ai m o && run_ok cf ai (fst (mm_step cf m o)) r
  end.

Definition op_chan (o : mop) : list string :=
  match o with
  | MPublish ch _ _ _ _ | MRemove ch _ _ _ _ | MReadState ch _ _ _ _ _ _ | MReadStream ch _ _ _ _ _ | MClear ch | MStats ch => [ch]
  | MTick _ | MCleanup _ _ => []
  end.
Definition chans (ops : list mop) : list string := flat_map op_chan ops.
Definition op_idem (o : mop) : list (string * string) :=
  match o with
  | MPublish ch _ po _ _ => if String.eqb (mp_idem po) "" then [] else [(ch, mp_idem po)]
  | MRemove ch _ ro _ _ => if String.eqb (mr_idem ro) "" then [] else [(ch, mr_idem ro)]
  | _ => []
  end.
Definition idems (ops : list mop) : list (string * string) := flat_map op_idem ops.

(* ================= the relation ================= *)
Definition chan_rel (rs : rstate) (ch : string) (oc : option mchan) : Prop :=
  match oc with
  | None => forall k, In k (chan_keys ch) -> getk rs k = None
  | Some c => exists h g smh,
      hview rs (k_meta ch) (Some h) /\ hash_ok h (ch_epoch c) (ch_top c) 0 "" /\
      map fst g = ch_items c /\ g_inv g (ch_top c) /\
      sview rs (k_stream ch) (strm_view (ch_epoch c) g (ch_top c)) /\
      hview rs (k_state ch) (state_view (ch_epoch c) (ch_state c)) /\
      hview rs (k_smeta ch) smh /\ smeta_cond (state_view (ch_epoch c) (ch_state c)) smh (ch_epoch c) /\
      getk rs (k_expire ch) = None /\ ver_rel (hash_or_empty smh) (ch_state c)
  end.

Definition chan_inv (n : N) (c : mchan) : Prop :=
  has_char ":" (ch_epoch c) = false /\ (ch_top c <= n)%N /\ contigT (ch_items c) 1 (ch_top c) /\
  (forall kv, In kv (ch_state c) -> entry_ok (snd kv)) /\
  (forall kv, In kv (ch_state c) -> (me_ver (snd kv) < 9007199254740992)%N).

(* idempotency results: the pairs (channel, idempotency key) of the run *)
Definition cache_rel (rs : rstate) (m : mmstate) (ch k : string) : Prop :=
  match sfind (idem_key ch k) (mm_idem m) with
  | None => getk rs (k_result ch k) = None
  | Some (off, ep, exp) => (0 < exp)%N /\ (off < BOUND)%N /\ res_view rs (k_result ch k) (Some (off, ep))
  end.

Record res_ok (P : list (string * string)) : Prop := mkResOk {
  P_res : forall p q, In p P -> In q P -> k_result (fst p) (snd p) = k_result (fst q) (snd q) -> p = q;
  P_idem : forall p q, In p P -> In q P -> idem_key (fst p) (snd p) = idem_key (fst q) (snd q) -> p = q
}.
Definition pair_eqb (a b : string * string) : bool := (String.eqb (fst a) (fst b) && String.eqb (snd a) (snd b))%bool.
Definition res_okb (P : list (string * string)) : bool :=
  forallb (fun p => forallb (fun q => pair_eqb p q ||
                                       (negb (String.eqb (k_result (fst p) (snd p)) (k_result (fst q) (snd q)))
                                        && negb (String.eqb (idem_key (fst p) (snd p)) (idem_key (fst q) (snd q))))) P) P.
Lemma res_okb_sound P : res_okb P = true -> res_ok P.
Proof.
  unfold res_okb. intros H. rewrite forallb_forall in H.
  assert (Hp : forall p q, In p P -> In q P -> p = q \/ (k_result (fst p) (snd p) <> k_result (fst q) (snd q)
                                                        /\ idem_key (fst p) (snd p) <> idem_key (fst q) (snd q))).
  { intros p q Hp Hq. specialize (H p Hp). rewrite forallb_forall in H. specialize (H q Hq).
    apply orb_true_iff in H as [H|H].
    - left. unfold pair_eqb in H. apply andb_true_iff in H as [A B]. apply String.eqb_eq in A, B. destruct p, q; cbn in *; congruence.
    - right. apply andb_true_iff in H as [A B]. apply negb_true_iff in A, B. apply String.eqb_neq in A, B. split; assumption. }
  constructor; intros p q Hp' Hq E; destruct (Hp p q Hp' Hq) as [|[A B]]; try assumption; contradiction.
Qed.

Lemma k_result_not_chan ch k c : ~ In (k_result ch k) (chan_keys c).
Proof. unfold chan_keys. cbn [In]. intros [E|[E|[E|[E|[E|[]]]]]]; discriminate E. Qed.
Lemma k_result_cleanup ch k : k_cleanup <> k_result ch k. Proof. discriminate. Qed.
Lemma k_result_ne ch k : k_result ch k <> "". Proof. discriminate. Qed.

Section WithPairs.
Variable P : list (string * string).

Record R (U : list string) (n : N) (rs : rstate) (m : mmstate) : Prop := mkRel {
  R_chan : forall ch, In ch U -> chan_rel rs ch (sfind ch (mm_chans m));
  R_inv : forall ch c, sfind ch (mm_chans m) = Some c -> chan_inv n c;
  R_cleanup : getk rs k_cleanup = None;     (* no key TTL in the domain: nothing is ever registered for cleanup *)
  R_now : mm_now m = 0%N;                   (* no time passes in the domain: cached results never expire *)
  R_cache : forall ch k, In (ch, k) P -> cache_rel rs m ch k
}.

Lemma cache_rel_frame rs rs' m m' ch k :
  getk rs' (k_result ch k) = getk rs (k_result ch k) -> sfind (idem_key ch k) (mm_idem m') = sfind (idem_key ch k) (mm_idem m) ->
  cache_rel rs m ch k -> cache_rel rs' m' ch k.
Proof. intros H1 H2. unfold cache_rel, res_view. rewrite H1, H2. auto. Qed.

Lemma chan_inv_mono n n' c : (n <= n')%N -> chan_inv n c -> chan_inv n' c.
Proof. intros H (A & B & C & D & E). split; [assumption|]. split; [lia|]. split; [assumption|]. split; assumption. Qed.

Lemma hview_eq rs rs' k oh : getk rs' k = getk rs k -> hview rs k oh -> hview rs' k oh.
Proof. intros E. unfold hview. rewrite E. auto. Qed.
Lemma sview_eq rs rs' k os : getk rs' k = getk rs k -> sview rs k os -> sview rs' k os.
Proof. intros E. unfold sview. rewrite E. auto. Qed.

Lemma chan_rel_frame rs rs' ch oc :
  (forall k, In k (chan_keys ch) -> getk rs' k = getk rs k) -> chan_rel rs ch oc -> chan_rel rs' ch oc.
Proof.
  intros F. destruct oc as [c|]; cbn [chan_rel].
  - intros (h & g & smh & H1 & H2 & H3 & H4 & H5 & H6 & H7 & H8 & H9 & H10). exists h, g, smh.
    assert (Fm := F (k_meta ch)). assert (Fs := F (k_stream ch)). assert (Ft := F (k_state ch)).
    assert (Fsm := F (k_smeta ch)). assert (Fe := F (k_expire ch)). unfold chan_keys in *. cbn [In] in *.
    split; [apply (hview_eq rs); [apply Fm; tauto | assumption]|]. split; [assumption|]. split; [assumption|].
    split; [assumption|]. split; [apply (sview_eq rs); [apply Fs; tauto | assumption]|].
    split; [apply (hview_eq rs); [apply Ft; tauto | assumption]|].
    split; [apply (hview_eq rs); [apply Fsm; tauto | assumption]|]. split; [assumption|].
    split; [rewrite Fe by tauto; assumption | assumption].
  - intros H k Hk. rewrite F by assumption. apply H. assumption.
Qed.

Lemma R_update U n n' rs m rs' m' c oc' :
  keys_ok U -> In c U -> R U n rs m -> (n <= n')%N ->
  frame (chan_keys c) rs rs' ->
  (forall ch, sfind ch (mm_chans m') = if String.eqb ch c then oc' else sfind ch (mm_chans m)) ->
  chan_rel rs' c oc' -> (forall c', oc' = Some c' -> chan_inv n' c') ->
  mm_idem m' = mm_idem m -> mm_now m' = mm_now m ->
  R U n' rs' m'.
Proof.
  intros HK Hc HR Hn [F _] Hch Hrel Hinv Hid Hnw.
  constructor; [| |rewrite F by apply k_cleanup_not_chan; apply (R_cleanup _ _ _ _ HR) | rewrite Hnw; apply (R_now _ _ _ _ HR)
               | intros ch k Hk; apply (cache_rel_frame rs _ m); [apply F, k_result_not_chan | rewrite Hid; reflexivity | apply (R_cache _ _ _ _ HR); assumption]].
  - intros ch Hin. rewrite Hch. destruct (String.eqb ch c) eqn:E.
    + apply String.eqb_eq in E. subst. exact Hrel.
    + apply String.eqb_neq in E. apply (chan_rel_frame rs); [|apply (R_chan _ _ _ _ HR); assumption].
      intros k Hk. apply F. apply (chan_keys_disjoint U ch c HK Hin Hc E k Hk).
  - intros ch c'. rewrite Hch. destruct (String.eqb ch c) eqn:E.
    + apply Hinv.
    + intros H. apply (chan_inv_mono n); [assumption|]. apply (R_inv _ _ _ _ HR ch). assumption.
Qed.

(* ================= the state both sides start an operation from ================= *)
Definition c0_of (m : mmstate) (ch nonce : string) : mchan :=
  match sfind ch (mm_chans m) with Some c => c | None => new_chan nonce end.

Lemma pre_state U n rs m ch nonce :
  R U n rs m -> In ch U -> nonce_ok nonce = true ->
  let c0 := c0_of m ch nonce in
  exists v g, views rs ch v /\ meta_cond v nonce (ch_epoch c0) (ch_top c0) /\
     rv_state v = state_view (ch_epoch c0) (ch_state c0) /\
     smeta_cond (rv_state v) (rv_smeta v) (ch_epoch c0) /\
     rv_stream v = strm_view (ch_epoch c0) g (ch_top c0) /\ map fst g = ch_items c0 /\ g_inv g (ch_top c0) /\
     ver_rel (hash_or_empty (rv_smeta v)) (ch_state c0) /\ chan_inv n c0.
Proof.
  intros HR Hin Hn. unfold c0_of. pose proof (R_chan _ _ _ _ HR ch Hin) as Hrel.
  destruct (sfind ch (mm_chans m)) as [c|] eqn:E.
  - destruct Hrel as (h & g & smh & H1 & H2 & H3 & H4 & H5 & H6 & H7 & H8 & H9 & H10).
    exists (mkRV (Some h) (state_view (ch_epoch c) (ch_state c)) smh (strm_view (ch_epoch c) g (ch_top c))), g.
    unfold views, meta_cond. cbn [rv_meta rv_state rv_smeta rv_stream].
    split; [split; [assumption|]; split; [assumption|]; split; [assumption|]; split; assumption|].
    split; [assumption|]. split; [reflexivity|]. split; [assumption|]. split; [reflexivity|].
    split; [assumption|]. split; [assumption|]. split; [assumption|]. apply (R_inv _ _ _ _ HR ch c E).
  - exists (mkRV None None None None), [].
    unfold views, meta_cond, chan_keys in *. cbn [rv_meta rv_state rv_smeta rv_stream new_chan ch_epoch ch_top ch_state ch_items].
    cbn [chan_rel In] in Hrel. cbn [hview sview].
    assert (Hk : forall k, In k [k_stream ch; k_meta ch; k_state ch; k_expire ch; k_smeta ch] -> getk rs k = None) by exact Hrel.
    cbn [In] in Hk.
    split; [split; [apply Hk; auto 10|]; split; [apply Hk; auto 10|]; split; [apply Hk; auto 10|]; split; apply Hk; auto 10|].
    split; [split; reflexivity|]. split; [reflexivity|]. split; [left; split; reflexivity|]. split; [reflexivity|].
    split; [reflexivity|]. split; [intros x []|]. split; [intros key; reflexivity|].
    unfold chan_inv, new_chan. cbn [ch_epoch ch_top ch_items ch_state].
    split; [unfold nonce_ok in Hn; apply negb_true_iff in Hn; exact Hn|]. split; [apply N.le_0_l|].
    split; [apply contigT_nil; reflexivity|]. split; intros kv [].
Qed.

Lemma stream_cond_of v epoch g top items :
  rv_stream v = strm_view epoch g top -> map fst g = items -> contigT items 1 top ->
  stream_cond v top (map (genc epoch) g).
Proof.
  intros Hs Hm Hc. pose proof (contigT_length _ _ _ Hc) as Hl. rewrite <- Hm, map_length in Hl.
  unfold stream_cond. destruct g as [|x g].
  - left. cbn in Hl. split; [lia | reflexivity].
  - right. cbn [List.length] in Hl. split; [lia|]. rewrite Hs. reflexivity.
Qed.

Lemma wipe_cond_of v epoch : smeta_cond (rv_state v) (rv_smeta v) epoch -> wipe_cond v epoch.
Proof. intros [[_ H]|H]; [left; exact H | right; exact H]. Qed.

(* ================= memory side of a publish ================= *)
Lemma sfind_set_chan m ch c ch' :
  sfind ch' (mm_chans (set_chan m ch c)) = if String.eqb ch' ch then Some c else sfind ch' (mm_chans m).
Proof.
  unfold set_chan. cbn [mm_chans]. destruct (String.eqb ch' ch) eqn:E.
  - apply String.eqb_eq in E. subst. apply sfind_sput_same.
  - apply String.eqb_neq in E. apply sfind_sput_other. assumption.
Qed.

Lemma skipn_fit {A} (l : list A) n : (List.length l <= n)%nat -> skipn (List.length l - n) l = l.
Proof. intros H. replace (List.length l - n)%nat with O by lia. reflexivity. Qed.

Definition state_after (key : string) (e : mentry) (state : list (string * mentry)) : list (string * mentry) :=
  if String.eqb key "" then state else sput key e state.

Lemma km_decision_mem mode (cur : option mentry) :
  match cur with
  | Some _ => if String.eqb mode "if_new" then Some "key_exists" else None
  | None => if String.eqb mode "if_exists" then Some "key_not_found" else None
  end = km_decision mode (is_some cur).
Proof.
  unfold km_decision. destruct cur; cbn [is_some negb]; rewrite ?andb_true_r, ?andb_false_r;
    destruct (String.eqb mode "") eqn:E; try (apply String.eqb_eq in E; subst mode; reflexivity);
    destruct (String.eqb mode "if_new"); destruct (String.eqb mode "if_exists"); reflexivity.
Qed.

Lemma hub_add_gen cf m ch key o nonce :
  has_stream cf = true ->
  let c0 := c0_of m ch nonce in
  (Z.of_nat (List.length (ch_items c0)) < mc_size cf)%Z ->
  let cur := sfind key (ch_state c0) in
  let keyed := negb (String.eqb key "") in
  exists m1,
    (forall ch', sfind ch' (mm_chans m1) = if String.eqb ch' ch then Some c0 else sfind ch' (mm_chans m)) /\
    mm_idem m1 = mm_idem m /\ mm_now m1 = mm_now m /\
    if (keyed && ver_dec (mp_ver o) (mp_vep o) cur)%bool
    then hub_add cf m ch key o nonce = (m1, MUpd (ch_top c0) (ch_epoch c0) true "version" None) else
    match (if keyed then km_decision (mp_mode o) (is_some cur) else None) with
    | Some r => hub_add cf m ch key o nonce = (m1, MUpd (ch_top c0) (ch_epoch c0) true r None)
    | None =>
        match (if keyed then cas_dec (ch_epoch c0) (mp_exp o) cur else None) with
        | Some cp => hub_add cf m ch key o nonce = (m1, MUpd (ch_top c0) (ch_epoch c0) true "position_mismatch" cp)
        | None =>
            exists m',
              hub_add cf m ch key o nonce = (m', MUpd (ch_top c0 + 1) (ch_epoch c0) false "" None) /\
              (forall ch', sfind ch' (mm_chans m') =
                 if String.eqb ch' ch
                 then Some (mkMCh (ch_top c0 + 1) (ch_epoch c0) (ch_items c0 ++ [((ch_top c0 + 1)%N, key, mp_data o, false)])
                                  (state_after key (mkME (ch_top c0 + 1) (mp_data o) (mp_score o)
                                                         (ver_after (mp_ver o) cur) (vep_after (mp_ver o) (mp_vep o) cur))
                                               (ch_state c0)))
                 else sfind ch' (mm_chans m)) /\ mm_idem m' = mm_idem m /\ mm_now m' = mm_now m
        end
    end.
Proof.
  intros Hhs c0 Hsz cur keyed.
  unfold hub_add.
  set (m1 := match sfind ch (mm_chans m) with Some c => (m, c) | None => (set_chan m ch (new_chan nonce), new_chan nonce) end).
  assert (Em1 : m1 = (fst m1, c0)).
  { unfold m1, c0, c0_of. destruct (sfind ch (mm_chans m)); reflexivity. }
  assert (Hm0 : forall ch', sfind ch' (mm_chans (fst m1)) = if String.eqb ch' ch then Some c0 else sfind ch' (mm_chans m)).
  { intros ch'. unfold m1, c0, c0_of. destruct (sfind ch (mm_chans m)) as [c|] eqn:E; cbn [fst].
    - destruct (String.eqb ch' ch) eqn:E'; [apply String.eqb_eq in E'; subst; exact E | reflexivity].
    - apply sfind_set_chan. }
  assert (Hm1 : forall c2 ch', sfind ch' (mm_chans (set_chan (fst m1) ch c2)) = if String.eqb ch' ch then Some c2 else sfind ch' (mm_chans m)).
  { intros c2 ch'. rewrite sfind_set_chan. destruct (String.eqb ch' ch) eqn:E; [reflexivity|]. rewrite Hm0, E. reflexivity. }
  assert (Hid1 : mm_idem (fst m1) = mm_idem m /\ mm_now (fst m1) = mm_now m).
  { unfold m1. destruct (sfind ch (mm_chans m)); split; reflexivity. }
  exists (fst m1). split; [exact Hm0|]. split; [apply Hid1|]. split; [apply Hid1|].
  rewrite Em1. rewrite Hhs. fold cur. fold keyed.
  assert (Ever : (true && keyed && (0 <? mp_ver o)%N &&
                  match cur with
                  | Some e => (String.eqb (mp_vep o) "" || String.eqb (mp_vep o) (me_vep e)) && (mp_ver o <=? me_ver e)%N
                  | None => false
                  end)%bool = (keyed && ver_dec (mp_ver o) (mp_vep o) cur)%bool).
  { unfold ver_dec. cbn [andb]. rewrite andb_assoc. reflexivity. }
  rewrite Ever.
  destruct (keyed && ver_dec (mp_ver o) (mp_vep o) cur)%bool; [reflexivity|].
  rewrite km_decision_mem.
  destruct (if keyed then km_decision (mp_mode o) (is_some cur) else None) as [r|]; [reflexivity|].
  assert (Hcas : (if keyed then cas_check (snd (chan_pos c0)) (mp_exp o) cur else None)
                 = (if keyed then cas_dec (ch_epoch c0) (mp_exp o) cur else None)).
  { destruct keyed; [|reflexivity]. unfold cas_dec. cbn [chan_pos snd]. destruct (mp_exp o) as [[eo ee]|]; reflexivity. }
  rewrite Hcas.
  destruct (if keyed then cas_dec (ch_epoch c0) (mp_exp o) cur else None) as [cp|]; [reflexivity|].
  unfold stream_add. cbv beta iota zeta. cbn [ch_items ch_top ch_epoch ch_state fst snd].
  rewrite !skipn_fit by (rewrite app_length; cbn [List.length]; lia).
  unfold state_after, ver_after, vep_after. subst keyed.
  destruct (String.eqb key "") eqn:Ek; cbn [negb].
  - eexists. split; [reflexivity|]. split; [intros ch'; apply Hm1|]. cbn [set_chan mm_idem mm_now]. exact Hid1.
  - fold cur. destruct (mp_ver o =? 0)%N; destruct cur as [e|]; eexists; (split; [reflexivity|]);
      (split; [intros ch'; apply Hm1|]); cbn [set_chan mm_idem mm_now]; exact Hid1.
Qed.

(* ================= steps ================= *)
Definition step_goal U n cf rs m o : Prop :=
  exists rs' m' res, rm_step map_shallow cf rs o = (rs', res) /\ mm_step cf m o = (m', res) /\ R U (n + 1) rs' m'.

Lemma cfg_ok_fields cf : cfg_ok cf = true ->
  exists size sttl, cf = mkMC 3 0 size sttl 0 false /\ (0 < size < 2147483648)%Z /\ C18Stream.small sttl = true.
Proof.
  destruct cf as [mode kttl size sttl mttl ord]. unfold cfg_ok. cbn [mc_mode mc_keyttl mc_size mc_sttl mc_mttl mc_ordered].
  intros H. repeat (apply andb_true_iff in H as [H ?]).
  apply N.eqb_eq in H. apply Z.eqb_eq in H5, H4. apply negb_true_iff in H3. apply Z.ltb_lt in H2, H1.
  subst. exists size, sttl. split; [reflexivity|]. split; [lia | assumption].
Qed.

Lemma frame_clear ks st : frame ks st (clear_outbox st).
Proof. split; [intros; apply getk_clear_outbox | reflexivity]. Qed.

Lemma R_clear U n rs m : R U n rs m -> R U n (clear_outbox rs) m.
Proof.
  intros HR. constructor; [|apply (R_inv _ _ _ _ HR)|rewrite getk_clear_outbox; apply (R_cleanup _ _ _ _ HR)|apply (R_now _ _ _ _ HR)
                          |intros ch k Hk; apply (cache_rel_frame rs _ m); [apply getk_clear_outbox | reflexivity | apply (R_cache _ _ _ _ HR); assumption]].
  intros ch Hin. apply (chan_rel_frame rs); [intros; apply getk_clear_outbox | apply (R_chan _ _ _ _ HR); assumption].
Qed.

Lemma R_mono U n n' rs m : (n <= n')%N -> R U n rs m -> R U n' rs m.
Proof.
  intros Hn HR. constructor; [apply (R_chan _ _ _ _ HR)| |apply (R_cleanup _ _ _ _ HR)|apply (R_now _ _ _ _ HR)|apply (R_cache _ _ _ _ HR)].
  intros ch c E. apply (chan_inv_mono n); [assumption | apply (R_inv _ _ _ _ HR ch c E)].
Qed.

Lemma parse_add_ok top epoch : (top < 18446744073709551616)%N ->
  parse_add_result (RArr [RInt (Z.of_N top); RBulk epoch; RBulk ""]) = MUpd top epoch false "" None.
Proof.
  intros H. unfold parse_add_result. cbn [as_arr List.length Nat.ltb Nat.leb nth as_u64 to_str].
  rewrite Z.mod_small by lia. rewrite N2Z.id. reflexivity.
Qed.

Lemma in_sput {A} k (v : A) l kv : In kv (sput k v l) -> kv = (k, v) \/ In kv l.
Proof.
  induction l as [|[k' v'] l IH]; cbn [sput].
  - intros [<-|[]]. left. reflexivity.
  - destruct (String.eqb k k'); cbn [In].
    + intros [<-|H]; [left; reflexivity | right; right; assumption].
    + intros [<-|H]; [right; left; reflexivity|]. destruct (IH H); [left; assumption | right; right; assumption].
Qed.

Lemma sput_nonempty {A} k (v : A) l : sput k v l <> [].
Proof. destruct l as [|[k' v'] l]; cbn [sput]; [discriminate|]. destruct (String.eqb k k'); discriminate. Qed.

Lemma state_view_some epoch state : state <> [] -> state_view epoch state = Some (map (enc_s epoch) state).
Proof. destruct state; [congruence | reflexivity]. Qed.

Lemma strm_view_some epoch g top : g <> [] -> strm_view epoch g top = Some (map (genc epoch) g, (top, 0%N)).
Proof. destruct g; [congruence | reflexivity]. Qed.

Lemma g_inv_snoc g top (p : tpub) sc :
  g_inv g top -> off_of p = (top + 1)%N -> (0 <= sc)%Z -> g_inv (g ++ [(p, sc)])%list (top + 1).
Proof.
  intros Hg Hp Hs x Hin. apply in_app_or in Hin as [Hin|[<-|[]]].
  - destruct (Hg x Hin). split; [lia | assumption].
  - unfold g_off. cbn [fst snd]. rewrite Hp. split; [lia | assumption].
Qed.

(* the Redis-side record of a channel after an accepted write *)
Lemma chan_rel_after rs' ch epoch top g mh' sth smh' items state p sc size :
  views rs' ch (mkRV (Some mh') sth smh'
                     (Some (trim_approx (map (genc epoch) g ++ [sentry_of (top + 1) epoch (pb (snd (fst (fst p))) (snd (fst p)) (snd p) sc)])%list size,
                            ((top + 1)%N, 0%N)))) ->
  hash_ok mh' epoch (top + 1) 0 "" ->
  sth = state_view epoch state -> smeta_cond sth smh' epoch ->
  map fst g = items -> g_inv g top -> off_of p = (top + 1)%N -> (0 <= sc)%Z ->
  (Z.of_nat (List.length g) < size)%Z -> ver_rel (hash_or_empty smh') state ->
  chan_rel rs' ch (Some (mkMCh (top + 1) epoch (items ++ [p])%list state)).
Proof.
  intros (Vm & Vs & Vsm & Vst & Ve) Hh Est Hsm Hg Hgi Hp Hsc Hsz Hvr. cbn [rv_meta rv_state rv_smeta rv_stream] in *.
  cbn [chan_rel ch_epoch ch_top ch_items ch_state].
  exists mh', (g ++ [(p, sc)])%list, smh'.
  split; [assumption|]. split; [assumption|].
  split; [rewrite map_app; cbn [map fst]; f_equal; exact Hg|].
  split; [apply g_inv_snoc; assumption|].
  split.
  { rewrite strm_view_some by (destruct g; discriminate). rewrite map_app. cbn [map].
    rewrite trim_approx_id in Vst by (rewrite app_length, map_length; cbn [List.length]; lia).
    replace (genc epoch (p, sc)) with (sentry_of (top + 1) epoch (pb (snd (fst (fst p))) (snd (fst p)) (snd p) sc)); [exact Vst|].
    unfold genc, sentry_of, g_off. cbn [fst snd]. rewrite Hp. reflexivity. }
  split; [rewrite <- Est; assumption|]. split; [assumption|]. split; [rewrite <- Est; assumption|]. split; assumption.
Qed.

Lemma zdec_nonneg z : (0 <= z)%Z -> zdec z = dec (Z.to_N z).
Proof. intros H. rewrite <- zdec_of_N. rewrite Z2N.id by assumption. reflexivity. Qed.

(* Go-side parse of the suppressed replies *)
Lemma km_decision_reason km ex r : km_decision km ex = Some r -> r = "key_exists" \/ r = "key_not_found".
Proof.
  unfold km_decision. destruct (String.eqb km ""); [discriminate|].
  destruct (String.eqb km "if_new" && ex)%bool; [intros X; injection X as <-; left; reflexivity|].
  destruct (String.eqb km "if_exists" && negb ex)%bool; [intros X; injection X as <-; right; reflexivity | discriminate].
Qed.

Lemma parse_add_supp top epoch r : (top < 18446744073709551616)%N -> r = "key_exists" \/ r = "key_not_found" ->
  parse_add_result (RArr [RInt (Z.of_N top); RBulk epoch; RBulk r]) = MUpd top epoch true r None.
Proof.
  intros H Hr. unfold parse_add_result. cbn [as_arr List.length Nat.ltb Nat.leb nth as_u64 to_str].
  rewrite Z.mod_small by lia. rewrite N2Z.id. destruct Hr as [-> | ->]; reflexivity.
Qed.

Lemma cas_dec_cp epoch exp cur cp : cas_dec epoch exp cur = Some cp ->
  cp = match cur with Some e => Some (me_off e, me_data e) | None => None end.
Proof.
  unfold cas_dec, cas_check. destruct exp as [[eo ee]|]; [|discriminate]. destruct cur as [e|].
  - destruct (negb (me_off e =? eo)%N || negb (String.eqb epoch ee))%bool; [intros X; injection X as <-; reflexivity | discriminate].
  - intros X. injection X as <-. reflexivity.
Qed.

Lemma parse_add_mismatch top epoch key (cur : option mentry) :
  (top < 18446744073709551616)%N -> has_char ":" epoch = false ->
  match cur with Some e => entry_ok e | None => True end ->
  parse_add_result (RArr [RInt (Z.of_N top); RBulk epoch; RBulk "position_mismatch"; RBulk (cur_val epoch key cur)])
  = MUpd top epoch true "position_mismatch" (match cur with Some e => Some (me_off e, me_data e) | None => None end).
Proof.
  intros H Hc Hent. unfold parse_add_result. cbn [as_arr List.length Nat.ltb Nat.leb nth as_u64 to_str].
  rewrite Z.mod_small by lia. rewrite N2Z.id. cbn [String.eqb Ascii.eqb Bool.eqb andb].
  destruct cur as [e|]; cbn [cur_val]; [|reflexivity].
  destruct Hent as [H1 H2]. unfold enc_s. cbn [fst snd]. unfold sval at 1. rewrite dec_app_nonempty.
  fold (sval (me_off e) epoch (pb key (me_data e) false (me_score e))).
  rewrite parse_sval by (assumption || lia). rewrite unpb_pb by assumption. reflexivity.
Qed.

(* a publish that was suppressed after the epoch was (possibly) created: only the meta key may have changed *)
Lemma R_after_suppress U n rs0 m st1 m1 ch nonce h1 v g :
  keys_ok U -> In ch U -> R U n rs0 m ->
  let c0 := c0_of m ch nonce in
  views rs0 ch v -> rv_state v = state_view (ch_epoch c0) (ch_state c0) ->
  smeta_cond (rv_state v) (rv_smeta v) (ch_epoch c0) ->
  rv_stream v = strm_view (ch_epoch c0) g (ch_top c0) -> map fst g = ch_items c0 -> g_inv g (ch_top c0) ->
  ver_rel (hash_or_empty (rv_smeta v)) (ch_state c0) -> chan_inv n c0 ->
  hview st1 (k_meta ch) (Some h1) -> hash_ok h1 (ch_epoch c0) (ch_top c0) 0 "" -> frame [k_meta ch] rs0 st1 ->
  (forall ch', sfind ch' (mm_chans m1) = if String.eqb ch' ch then Some c0 else sfind ch' (mm_chans m)) ->
  mm_idem m1 = mm_idem m -> mm_now m1 = mm_now m ->
  R U (n + 1) (clear_outbox st1) m1.
Proof.
  intros HK Hin HR0 c0 (Vm & Vs & Vsm & Vst & Ve) Est Hsmc Estr Hg Hgi Hvr Hinv Vm1 Hh1 F1 Hch Hid Hnw.
  eapply (R_update U n (n + 1) rs0 m _ m1 ch _ HK Hin HR0); [lia | | exact Hch | | | exact Hid | exact Hnw].
  - eapply frame_trans; [eapply frame_weaken; [|exact F1]; ck | apply frame_clear].
  - apply (chan_rel_frame st1); [intros; apply getk_clear_outbox|].
    cbn [chan_rel]. exists h1, g, (rv_smeta v).
    split; [assumption|]. split; [assumption|]. split; [assumption|]. split; [assumption|].
    split; [rewrite <- Estr; apply (sview_frame _ _ _ _ _ F1); [notin | exact Vst]|].
    split; [rewrite <- Est; apply (hview_frame _ _ _ _ _ F1); [notin | exact Vs]|].
    split; [apply (hview_frame _ _ _ _ _ F1); [notin | exact Vsm]|].
    split; [rewrite <- Est; exact Hsmc|].
    split; [destruct F1 as [F1 _]; rewrite F1 by notin; exact Ve | exact Hvr].
  - intros c' E. injection E as <-. apply (chan_inv_mono n); [lia | exact Hinv].
Qed.

Lemma parse_add_supp3 top epoch r : (top < 18446744073709551616)%N -> r = "version" \/ r = "key_exists" \/ r = "key_not_found" ->
  parse_add_result (RArr [RInt (Z.of_N top); RBulk epoch; RBulk r]) = MUpd top epoch true r None.
Proof.
  intros H Hr. unfold parse_add_result. cbn [as_arr List.length Nat.ltb Nat.leb nth as_u64 to_str].
  rewrite Z.mod_small by lia. rewrite N2Z.id. destruct Hr as [-> | [-> | ->]]; reflexivity.
Qed.

Lemma step_publish_plain U n cf rs m ch key po nonce now_ :
  cfg_ok cf = true -> keys_ok U -> In ch U -> R U n rs m -> (Z.of_N n < mc_size cf)%Z ->
  popts_core key po = true -> mp_idem po = "" -> nonce_ok nonce = true ->
  step_goal U n cf rs m (MPublish ch key po nonce now_).
Proof.
  intros Hcf HK Hin HR Hn Hpo Hidem Hno.
  destruct (cfg_ok_fields cf Hcf) as (size & sttl & -> & Hsize & Hsttl). cbn [mc_size] in Hn.
  pose proof (R_clear _ _ _ _ HR) as HR0. set (rs0 := clear_outbox rs) in *.
  destruct (pre_state U n rs0 m ch nonce HR0 Hin Hno) as (v & g & Hviews & Hmeta & Est & Hsmc & Estr & Hg & Hgi & Hvr & Hinv).
  set (c0 := c0_of m ch nonce) in *.
  pose proof Hinv as (Hep & Htop & Hcontig & Hents & Hvbd).
  pose proof (contigT_length _ _ _ Hcontig) as Hlen.
  assert (Hglen : List.length g = List.length (ch_items c0)) by (rewrite <- Hg; rewrite map_length; reflexivity).
  pose proof Hpo as Hpo'. unfold popts_core in Hpo'.
  apply andb_true_iff in Hpo' as [Hpo' Hkeyopts]. apply andb_true_iff in Hpo' as [Hver Hsc].
  apply N.ltb_lt in Hver. apply Z.leb_le in Hsc.
  destruct (hub_add_gen (mkMC 3 0 size sttl 0 false) m ch key po nonce eq_refl) as (m1 & Hch1 & Hid1 & Hnw1 & Hadd).
  { fold c0. cbn [mc_size]. lia. }
  fold c0 in Hch1, Hadd.
  assert (Htb : (ch_top c0 + 1 < BOUND)%N) by (unfold C18Stream.BOUND; lia).
  assert (Htb64 : (ch_top c0 < 18446744073709551616)%N) by (unfold C18Stream.BOUND in Htb; lia).
  assert (Hszb : (Z.to_N size < 9223372036854775808)%N) by lia.
  pose proof (stream_cond_of v _ g _ _ Estr Hg Hcontig) as Hscond.
  pose proof (wipe_cond_of v _ Hsmc) as Hwc.
  unfold step_goal. unfold rm_step. fold rs0. unfold rm_publish.
  cbn [is_ephemeral mc_mode N.eqb Pos.eqb andb]. cbv iota.
  unfold publish_keys, publish_args. cbn [is_ephemeral has_stream mc_mode mc_keyttl mc_size mc_sttl mc_mttl mc_ordered N.eqb Pos.eqb].
  rewrite Hidem. cbn [String.eqb andb negb Z.ltb Z.compare orb]. unfold idem_expire. cbn [String.eqb].
  change (millis 0) with "0". rewrite (zdec_nonneg size) by lia.
  cbn [ms_add map_shallow].
  cbn [mm_step]. unfold mm_publish. cbn [is_ephemeral mc_mode N.eqb Pos.eqb andb]. rewrite Hidem. cbn [String.eqb].
  destruct key as [|kc key].
  - (* unkeyed *)
    cbn [String.eqb] in Hkeyopts. apply andb_true_iff in Hkeyopts as [Hkeyopts Hexp]. apply andb_true_iff in Hkeyopts as [Hv0 Hmode].
    apply String.eqb_eq in Hmode. apply N.eqb_eq in Hv0.
    destruct (mp_exp po) eqn:Eexp; [discriminate|]. rewrite Hmode, Hv0. cbn [N.ltb N.compare]. unfold utoa.
    cbn [String.eqb negb andb] in Hadd |- *. destruct Hadd as (m' & Hadd & Hch & Hid' & Hnw').
    rewrite core_unkeyed_eq.
    destruct (core_unkeyed_spec rs0 ch (pb "" (mp_data po) false (mp_score po)) (Z.to_N size) sttl nonce now_ v
                (ch_epoch c0) (ch_top c0) (map (genc (ch_epoch c0)) g) Hviews Hmeta Hscond Htb Hszb Hsttl)
      as (st' & mh' & Hrun & Hv' & Hh' & Hfr).
    rewrite Hrun. rewrite parse_add_ok by (unfold C18Stream.BOUND in Htb; lia).
    rewrite Hadd. unfold touch_exp, idem_save. cbn [mc_keyttl Z.ltb Z.compare andb String.eqb].
    eexists. exists m'. eexists. split; [reflexivity|]. split; [reflexivity|].
    eapply (R_update U n (n + 1) rs0 m _ m' ch _ HK Hin HR0); [lia | | exact Hch | | | exact Hid' | exact Hnw'].
    + eapply frame_trans; [exact Hfr | apply frame_clear].
    + apply (chan_rel_frame st'); [intros; apply getk_clear_outbox|].
      unfold state_after. cbn [String.eqb].
      apply (chan_rel_after st' ch (ch_epoch c0) (ch_top c0) g mh' (rv_state v) (rv_smeta v) (ch_items c0) (ch_state c0)
               ((ch_top c0 + 1)%N, "", mp_data po, false) (mp_score po) (Z.of_N (Z.to_N size)));
        try assumption; try reflexivity. lia.
    + intros c' E. injection E as <-. unfold chan_inv. cbn [ch_epoch ch_top ch_items ch_state].
      split; [assumption|]. split; [lia|]. split; [apply contigT_snoc; [assumption | reflexivity]|].
      unfold state_after. cbn [String.eqb]. split; assumption.
  - (* keyed *)
    cbn [String.eqb] in Hkeyopts.
    assert (Hexp : exp_ok (mp_exp po)).
    { unfold exp_okb in Hkeyopts. unfold exp_ok. destruct (mp_exp po) as [[eo ee]|]; [|exact I].
      apply andb_true_iff in Hkeyopts as [A B]. apply negb_true_iff in A. apply String.eqb_neq in A. apply N.ltb_lt in B. split; assumption. }
    cbn [String.eqb negb andb] in Hadd |- *.
    change (match mp_exp po with Some (eo, _) => utoa eo | None => "" end) with (exp_off (mp_exp po)).
    change (match mp_exp po with Some (_, ee) => ee | None => "" end) with (exp_epoch (mp_exp po)).
    change (if (0 <? mp_ver po)%N then utoa (mp_ver po) else "0") with (vstr (mp_ver po)).
    rewrite andb_true_r.
    change (if (0 <? mp_ver po)%N then "v:" ++ String kc key else "") with (vfld (mp_ver po) (String kc key)).
    change (if (0 <? mp_ver po)%N then "ve:" ++ String kc key else "") with (vefld (mp_ver po) (String kc key)).
    unfold utoa at 1. rewrite core_keyed3_eq.
    pose proof (core_keyed3_spec rs0 ch kc key (pb (String kc key) (mp_data po) false (mp_score po)) (Z.to_N size) sttl nonce now_
                  (mp_delta po) v (ch_epoch c0) (ch_top c0) (map (genc (ch_epoch c0)) g) (ch_state c0) (mp_mode po) (mp_exp po)
                  (mp_ver po) (mp_vep po)
                  Hviews Hmeta Hscond Hwc Est Hents Hvr Hvbd Hver Htb Hszb Hsttl Hexp) as Hspec.
    cbv zeta in Hspec.
    destruct (ver_dec (mp_ver po) (mp_vep po) (sfind (String kc key) (ch_state c0))) eqn:Evd.
    { (* suppressed by the version *)
      destruct Hspec as (st1 & h1 & Hrun & Vm1 & Hh1 & F1).
      rewrite Hrun, Hadd. rewrite parse_add_supp3 by (first [exact Htb64 | left; reflexivity]).
      unfold touch_exp. cbn [mc_keyttl Z.ltb Z.compare andb].
      eexists. exists m1. eexists. split; [reflexivity|]. split; [reflexivity|].
      apply (R_after_suppress U n rs0 m st1 m1 ch nonce h1 v g); assumption. }
    destruct (km_decision (mp_mode po) (is_some (sfind (String kc key) (ch_state c0)))) as [r|] eqn:Ekm.
    { (* suppressed by the key mode *)
      destruct Hspec as (st1 & h1 & Hrun & Vm1 & Hh1 & F1).
      rewrite Hrun, Hadd. rewrite parse_add_supp3 by (first [exact Htb64 | right; eapply km_decision_reason; eassumption]).
      unfold touch_exp. cbn [mc_keyttl Z.ltb Z.compare andb].
      eexists. exists m1. eexists. split; [reflexivity|]. split; [reflexivity|].
      apply (R_after_suppress U n rs0 m st1 m1 ch nonce h1 v g); assumption. }
    destruct (cas_dec (ch_epoch c0) (mp_exp po) (sfind (String kc key) (ch_state c0))) as [cp|] eqn:Ecas.
    { (* position mismatch *)
      destruct Hspec as (st1 & h1 & Hrun & Vm1 & Hh1 & F1).
      rewrite Hrun, Hadd.
      rewrite (parse_add_mismatch (ch_top c0) (ch_epoch c0) (String kc key) (sfind (String kc key) (ch_state c0)) Htb64 Hep).
      2:{ destruct (sfind (String kc key) (ch_state c0)) as [e|] eqn:Ek; [|exact I]. apply (Hents (String kc key, e)). apply in_sfind. exact Ek. }
      rewrite <- (cas_dec_cp _ _ _ _ Ecas).
      unfold touch_exp. cbn [mc_keyttl Z.ltb Z.compare andb].
      eexists. exists m1. eexists. split; [reflexivity|]. split; [reflexivity|].
      apply (R_after_suppress U n rs0 m st1 m1 ch nonce h1 v g); assumption. }
    (* accepted *)
    destruct Hspec as (st' & mh' & Hrun & Hv' & Hh' & Hfr).
    destruct Hadd as (m' & Hadd & Hch & Hid' & Hnw').
    rewrite Hrun, Hadd. rewrite parse_add_ok by (unfold C18Stream.BOUND in Htb; lia).
    unfold touch_exp, idem_save. cbn [mc_keyttl Z.ltb Z.compare andb String.eqb].
    eexists. exists m'. eexists. split; [reflexivity|]. split; [reflexivity|].
    set (cur := sfind (String kc key) (ch_state c0)) in *.
    set (e' := mkME (ch_top c0 + 1) (mp_data po) (mp_score po) (ver_after (mp_ver po) cur) (vep_after (mp_ver po) (mp_vep po) cur)).
    eapply (R_update U n (n + 1) rs0 m _ m' ch _ HK Hin HR0); [lia | | exact Hch | | | exact Hid' | exact Hnw'].
    + eapply frame_trans; [exact Hfr | apply frame_clear].
    + apply (chan_rel_frame st'); [intros; apply getk_clear_outbox|].
      unfold state_after. cbn [String.eqb].
      apply (chan_rel_after st' ch (ch_epoch c0) (ch_top c0) g mh'
               (Some (sput (String kc key) (state_value (Z.of_N (ch_top c0 + 1)) (ch_epoch c0) (pb (String kc key) (mp_data po) false (mp_score po)))
                           (hash_or_empty (rv_state v))))
               (Some (smeta_after_state (round53 (Z.of_N now_)) (ch_epoch c0)
                        (smeta_after_ver (mp_ver po) (mp_vep po) (String kc key) (hash_or_empty (rv_smeta v)))))
               (ch_items c0) (sput (String kc key) e' (ch_state c0))
               ((ch_top c0 + 1)%N, String kc key, mp_data po, false) (mp_score po) (Z.of_N (Z.to_N size)));
        try assumption; try reflexivity; try lia.
      * rewrite state_view_some by apply sput_nonempty. rewrite Est, state_view_hash.
        rewrite state_value_small by (unfold C18Stream.BOUND in Htb; exact Htb).
        rewrite <- sput_enc_s. reflexivity.
      * right. eexists. split; [reflexivity | apply sfind_epoch_after_state].
      * cbn [hash_or_empty]. unfold e', cur. apply ver_rel_publish. exact Hvr.
    + intros c' E. injection E as <-. unfold chan_inv. cbn [ch_epoch ch_top ch_items ch_state].
      split; [assumption|]. split; [lia|]. split; [apply contigT_snoc; [assumption | reflexivity]|].
      unfold state_after. cbn [String.eqb].
      split; intros kv Hkv; apply in_sput in Hkv as [->|Hkv]; try (first [apply Hents | apply Hvbd]; assumption).
      * cbn [snd]. unfold entry_ok, e'. cbn [me_off me_score]. unfold C18Stream.BOUND in Htb. split; [exact Htb | assumption].
      * cbn [snd]. unfold e'. cbn [me_ver]. unfold ver_after. destruct (mp_ver po =? 0)%N; [|exact Hver].
        destruct cur as [e|] eqn:Ek; [|lia]. apply (Hvbd (String kc key, e)). apply in_sfind. exact Ek.
Qed.

Lemma res_view_frame rs rs' rk o : (forall k, getk rs' k = getk rs k) -> res_view rs rk o -> res_view rs' rk o.
Proof. intros F. unfold res_view. rewrite F. auto. Qed.

Lemma R_update_idem U n n' rs m rs' m' c k oc' off ep exp :
  keys_ok U -> res_ok P -> In c U -> In (c, k) P -> R U n rs m -> (n <= n')%N ->
  frame (k_result c k :: chan_keys c) rs rs' ->
  (forall ch, sfind ch (mm_chans m') = if String.eqb ch c then oc' else sfind ch (mm_chans m)) ->
  chan_rel rs' c oc' -> (forall c', oc' = Some c' -> chan_inv n' c') ->
  mm_idem m' = sput (idem_key c k) (off, ep, exp) (mm_idem m) -> mm_now m' = mm_now m ->
  (0 < exp)%N -> (off < BOUND)%N -> res_view rs' (k_result c k) (Some (off, ep)) ->
  R U n' rs' m'.
Proof.
  intros HK HP Hc HcP HR Hn [F _] Hch Hrel Hinv Hid Hnw Hexp Hoff Hres.
  assert (Fc : forall ch key, In key (chan_keys ch) -> ch <> c -> In ch U -> getk rs' key = getk rs key).
  { intros ch key Hk Hne Hin. apply F. intros [X|X].
    - rewrite <- X in Hk. exact (k_result_not_chan _ _ _ Hk).
    - exact (chan_keys_disjoint U ch c HK Hin Hc Hne key Hk X). }
  constructor.
  - intros ch Hin. rewrite Hch. destruct (String.eqb ch c) eqn:E.
    + apply String.eqb_eq in E. subst. exact Hrel.
    + apply String.eqb_neq in E. apply (chan_rel_frame rs); [|apply (R_chan _ _ _ _ HR); assumption].
      intros key Hk. apply (Fc ch); assumption.
  - intros ch c'. rewrite Hch. destruct (String.eqb ch c) eqn:E.
    + apply Hinv.
    + intros H. apply (chan_inv_mono n); [assumption|]. apply (R_inv _ _ _ _ HR ch). assumption.
  - rewrite F; [apply (R_cleanup _ _ _ _ HR)|]. intros [X|X]; [symmetry in X; exact (k_result_cleanup _ _ X) | exact (k_cleanup_not_chan _ X)].
  - rewrite Hnw. apply (R_now _ _ _ _ HR).
  - intros ch' k' Hk'. unfold cache_rel. rewrite Hid.
    destruct (String.eqb (idem_key ch' k') (idem_key c k)) eqn:E.
    + apply String.eqb_eq in E. pose proof (P_idem _ HP (ch', k') (c, k) Hk' HcP E) as X. injection X as -> ->.
      rewrite sfind_sput_same. split; [assumption|]. split; assumption.
    + apply String.eqb_neq in E. rewrite sfind_sput_other by exact E.
      assert (Hrk : k_result ch' k' <> k_result c k).
      { intros X. apply (P_res _ HP (ch', k') (c, k) Hk' HcP) in X. injection X as -> ->. apply E. reflexivity. }
      pose proof (R_cache _ _ _ _ HR ch' k' Hk') as Hc'. unfold cache_rel in Hc'.
      assert (Fk : getk rs' (k_result ch' k') = getk rs (k_result ch' k')).
      { apply F. intros [X|X]; [symmetry in X; contradiction | exact (k_result_not_chan _ _ _ X)]. }
      destruct (sfind (idem_key ch' k') (mm_idem m)) as [[[o e] x]|]; [|rewrite Fk; exact Hc'].
      destruct Hc' as (A & B & C). split; [assumption|]. split; [assumption|]. unfold res_view in *. rewrite Fk. exact C.
Qed.

Lemma step_publish_idem U n cf rs m ch key po nonce now_ :
  cfg_ok cf = true -> keys_ok U -> In ch U -> R U n rs m -> (Z.of_N n < mc_size cf)%Z ->
  popts_core key po = true -> mp_idem po <> "" -> (0 <= mp_idemttl po < 2147483648)%Z ->
  res_ok P -> In (ch, mp_idem po) P -> nonce_ok nonce = true ->
  step_goal U n cf rs m (MPublish ch key po nonce now_).
Proof.
  intros Hcf HK Hin HR Hn Hpo Hidne Httl HPok HinP Hno.
  assert (Eid : String.eqb (mp_idem po) "" = false) by (apply String.eqb_neq; exact Hidne).
  set (rz := if (0 <? mp_idemttl po)%Z then mp_idemttl po else default_idem_ms).
  assert (Hrz : (0 < rz < 2147483648)%Z) by (unfold rz, default_idem_ms; destruct (0 <? mp_idemttl po)%Z eqn:E; [apply Z.ltb_lt in E|]; lia).
  assert (Erexp : (if (0 <? mp_idemttl po)%Z then millis (mp_idemttl po) else millis default_idem_ms) = millis rz)
    by (unfold rz; destruct (0 <? mp_idemttl po)%Z; reflexivity).
  destruct (cfg_ok_fields cf Hcf) as (size & sttl & -> & Hsize & Hsttl). cbn [mc_size] in Hn.
  pose proof (R_clear _ _ _ _ HR) as HR0. set (rs0 := clear_outbox rs) in *.
  destruct (pre_state U n rs0 m ch nonce HR0 Hin Hno) as (v & g & Hviews & Hmeta & Est & Hsmc & Estr & Hg & Hgi & Hvr & Hinv).
  set (c0 := c0_of m ch nonce) in *.
  pose proof Hinv as (Hep & Htop & Hcontig & Hents & Hvbd).
  pose proof (contigT_length _ _ _ Hcontig) as Hlen.
  assert (Hglen : List.length g = List.length (ch_items c0)) by (rewrite <- Hg; rewrite map_length; reflexivity).
  pose proof Hpo as Hpo'. unfold popts_core in Hpo'.
  apply andb_true_iff in Hpo' as [Hpo' Hkeyopts]. apply andb_true_iff in Hpo' as [Hver Hsc].
  apply N.ltb_lt in Hver. apply Z.leb_le in Hsc.
  destruct (hub_add_gen (mkMC 3 0 size sttl 0 false) m ch key po nonce eq_refl) as (m1 & Hch1 & Hid1 & Hnw1 & Hadd).
  { fold c0. cbn [mc_size]. lia. }
  fold c0 in Hch1, Hadd.
  assert (Htb : (ch_top c0 + 1 < BOUND)%N) by (unfold C18Stream.BOUND; lia).
  assert (Htb64 : (ch_top c0 < 18446744073709551616)%N) by (unfold C18Stream.BOUND in Htb; lia).
  assert (Hszb : (Z.to_N size < 9223372036854775808)%N) by lia.
  pose proof (stream_cond_of v _ g _ _ Estr Hg Hcontig) as Hscond.
  pose proof (wipe_cond_of v _ Hsmc) as Hwc.
  pose proof (R_cache _ _ _ _ HR0 ch (mp_idem po) HinP) as Hcache. pose proof (R_now _ _ _ _ HR0) as Hnow0.
  unfold step_goal. unfold rm_step. fold rs0. unfold rm_publish.
  cbn [is_ephemeral mc_mode N.eqb Pos.eqb andb]. cbv iota.
  unfold publish_keys, publish_args. cbn [is_ephemeral has_stream mc_mode mc_keyttl mc_size mc_sttl mc_mttl mc_ordered N.eqb Pos.eqb].
  rewrite Eid. cbn [andb negb Z.ltb Z.compare orb]. unfold idem_expire. rewrite Eid, Erexp.
  change (millis 0) with "0". rewrite (zdec_nonneg size) by lia.
  cbn [ms_add map_shallow].
  cbn [mm_step]. unfold mm_publish. cbn [is_ephemeral mc_mode N.eqb Pos.eqb andb]. rewrite Eid. unfold idem_get. rewrite Hnow0.
  unfold cache_rel in Hcache.
  destruct (sfind (idem_key ch (mp_idem po)) (mm_idem m)) as [[[coff cep] cexp]|] eqn:Ecache.
  { (* cached result *)
    destruct Hcache as (Hexp0 & Hcoff & Hcres).
    replace (cexp <=? 0)%N with false by (symmetry; apply N.leb_gt; exact Hexp0).
    assert (Hic : idem_cond (k_result ch (mp_idem po)) (millis rz) = true).
    { unfold idem_cond. rewrite millis_pos by lia. rewrite dec_eqb_empty. reflexivity. }
    assert (Hrun : forall K A, (exists rest, sh_map_add K A = (dom now <- num_of (dec now_) ;;
                                   dom hit <- idem_check (k_result ch (mp_idem po)) (millis rz) ;;
                                   match hit with
                                   | Some (o, ep0) => finish (RArr [o; RBulk ep0; RBulk "idempotency"])
                                   | None => rest now
                                   end)) ->
               runM (sh_map_add K A) rs0 = (rs0, RArr [RBulk (dec coff); RBulk cep; RBulk "idempotency"])).
    { intros K A [rest ->]. apply (idem_hit_run (ret RNil)); [exact Hic | exact Hcres | eexists; apply num_of_dec_any]. }
    rewrite Hrun.
    2:{ unfold utoa. destruct key as [|kc key].
        - cbn [String.eqb] in Hkeyopts. apply andb_true_iff in Hkeyopts as [Hko HexpN]. apply andb_true_iff in Hko as [Hv0 Hmode0].
          apply String.eqb_eq in Hmode0. apply N.eqb_eq in Hv0. destruct (mp_exp po); [discriminate|]. rewrite Hmode0, Hv0.
          cbn [String.eqb negb andb N.ltb N.compare]. eexists. rewrite core_unkeyed_i_eq. reflexivity.
        - cbn [String.eqb negb andb]. eexists. rewrite core_keyed3_i_eq. reflexivity. }
    eexists. eexists. eexists. split; [reflexivity|]. split.
    - f_equal. unfold parse_add_result. cbn [as_arr List.length Nat.ltb Nat.leb nth as_u64 to_str].
      unfold C18Stream.BOUND in Hcoff. rewrite parse_u64_map_dec by lia. reflexivity.
    - apply R_clear. apply (R_mono U n); [lia | exact HR0]. }
  assert (Hres : res_view rs0 (k_result ch (mp_idem po)) None) by exact Hcache.
  destruct key as [|kc key].
  - (* unkeyed *)
    cbn [String.eqb] in Hkeyopts. apply andb_true_iff in Hkeyopts as [Hkeyopts Hexp]. apply andb_true_iff in Hkeyopts as [Hv0 Hmode].
    apply String.eqb_eq in Hmode. apply N.eqb_eq in Hv0.
    destruct (mp_exp po) eqn:Eexp; [discriminate|]. rewrite Hmode, Hv0. cbn [N.ltb N.compare]. unfold utoa.
    cbn [String.eqb negb andb] in Hadd |- *. destruct Hadd as (m' & Hadd & Hch & Hid' & Hnw').
    rewrite core_unkeyed_i_eq.
    destruct (core_unkeyed_i_spec rs0 ch (pb "" (mp_data po) false (mp_score po)) (Z.to_N size) sttl nonce now_ v
                (ch_epoch c0) (ch_top c0) (map (genc (ch_epoch c0)) g) (k_result ch (mp_idem po)) rz
                Hviews Hmeta Hscond Htb Hszb Hsttl Hres (k_result_not_chan _ _ _) (k_result_ne _ _) Hrz)
      as (st' & mh' & Hrun & Hv' & Hh' & Hres' & Hfr).
    rewrite Hrun. rewrite parse_add_ok by (unfold C18Stream.BOUND in Htb; lia).
    rewrite Hadd. unfold touch_exp, idem_save. cbn [mc_keyttl Z.ltb Z.compare andb]. rewrite Eid.
    eexists. eexists. eexists. split; [reflexivity|]. split; [reflexivity|].
    eapply (R_update_idem U n (n + 1) rs0 m _ _ ch (mp_idem po) _ (ch_top c0 + 1) (ch_epoch c0) _ HK HPok Hin HinP HR0);
      [lia | | exact Hch | | | cbn [mm_idem fst snd]; rewrite Hid'; reflexivity | cbn [mm_now]; exact Hnw'
       | rewrite Hnw', Hnow0; destruct (Z.eqb_spec (mp_idemttl po) 0); unfold default_idem_ms; lia | exact Htb
       | apply (res_view_frame st'); [intros; apply getk_clear_outbox | exact Hres']].
    + eapply frame_trans; [exact Hfr | apply frame_clear].
    + apply (chan_rel_frame st'); [intros; apply getk_clear_outbox|].
      unfold state_after. cbn [String.eqb].
      apply (chan_rel_after st' ch (ch_epoch c0) (ch_top c0) g mh' (rv_state v) (rv_smeta v) (ch_items c0) (ch_state c0)
               ((ch_top c0 + 1)%N, "", mp_data po, false) (mp_score po) (Z.of_N (Z.to_N size)));
        try assumption; try reflexivity. lia.
    + intros c' E. injection E as <-. unfold chan_inv. cbn [ch_epoch ch_top ch_items ch_state].
      split; [assumption|]. split; [lia|]. split; [apply contigT_snoc; [assumption | reflexivity]|].
      unfold state_after. cbn [String.eqb]. split; assumption.
  - (* keyed *)
    cbn [String.eqb] in Hkeyopts.
    assert (Hexp : exp_ok (mp_exp po)).
    { unfold exp_okb in Hkeyopts. unfold exp_ok. destruct (mp_exp po) as [[eo ee]|]; [|exact I].
      apply andb_true_iff in Hkeyopts as [A B]. apply negb_true_iff in A. apply String.eqb_neq in A. apply N.ltb_lt in B. split; assumption. }
    cbn [String.eqb negb andb] in Hadd |- *.
    change (match mp_exp po with Some (eo, _) => utoa eo | None => "" end) with (exp_off (mp_exp po)).
    change (match mp_exp po with Some (_, ee) => ee | None => "" end) with (exp_epoch (mp_exp po)).
    change (if (0 <? mp_ver po)%N then utoa (mp_ver po) else "0") with (vstr (mp_ver po)).
    rewrite andb_true_r.
    change (if (0 <? mp_ver po)%N then "v:" ++ String kc key else "") with (vfld (mp_ver po) (String kc key)).
    change (if (0 <? mp_ver po)%N then "ve:" ++ String kc key else "") with (vefld (mp_ver po) (String kc key)).
    unfold utoa at 1. rewrite core_keyed3_i_eq.
    pose proof (core_keyed3_i_spec rs0 ch kc key (pb (String kc key) (mp_data po) false (mp_score po)) (Z.to_N size) sttl nonce now_
                  (mp_delta po) v (ch_epoch c0) (ch_top c0) (map (genc (ch_epoch c0)) g) (ch_state c0) (mp_mode po) (mp_exp po)
                  (mp_ver po) (mp_vep po) (k_result ch (mp_idem po)) rz
                  Hviews Hmeta Hscond Hwc Est Hents Hvr Hvbd Hver Htb Hszb Hsttl Hexp Hres (k_result_not_chan _ _ _) (k_result_ne _ _) Hrz) as Hspec.
    cbv zeta in Hspec.
    destruct (ver_dec (mp_ver po) (mp_vep po) (sfind (String kc key) (ch_state c0))) eqn:Evd.
    { (* suppressed by the version *)
      destruct Hspec as (st1 & h1 & Hrun & Vm1 & Hh1 & F1).
      rewrite Hrun, Hadd. rewrite parse_add_supp3 by (first [exact Htb64 | left; reflexivity]).
      unfold touch_exp. cbn [mc_keyttl Z.ltb Z.compare andb].
      eexists. exists m1. eexists. split; [reflexivity|]. split; [reflexivity|].
      apply (R_after_suppress U n rs0 m st1 m1 ch nonce h1 v g); assumption. }
    destruct (km_decision (mp_mode po) (is_some (sfind (String kc key) (ch_state c0)))) as [r|] eqn:Ekm.
    { (* suppressed by the key mode *)
      destruct Hspec as (st1 & h1 & Hrun & Vm1 & Hh1 & F1).
      rewrite Hrun, Hadd. rewrite parse_add_supp3 by (first [exact Htb64 | right; eapply km_decision_reason; eassumption]).
      unfold touch_exp. cbn [mc_keyttl Z.ltb Z.compare andb].
      eexists. exists m1. eexists. split; [reflexivity|]. split; [reflexivity|].
      apply (R_after_suppress U n rs0 m st1 m1 ch nonce h1 v g); assumption. }
    destruct (cas_dec (ch_epoch c0) (mp_exp po) (sfind (String kc key) (ch_state c0))) as [cp|] eqn:Ecas.
    { (* position mismatch *)
      destruct Hspec as (st1 & h1 & Hrun & Vm1 & Hh1 & F1).
      rewrite Hrun, Hadd.
      rewrite (parse_add_mismatch (ch_top c0) (ch_epoch c0) (String kc key) (sfind (String kc key) (ch_state c0)) Htb64 Hep).
      2:{ destruct (sfind (String kc key) (ch_state c0)) as [e|] eqn:Ek; [|exact I]. apply (Hents (String kc key, e)). apply in_sfind. exact Ek. }
      rewrite <- (cas_dec_cp _ _ _ _ Ecas).
      unfold touch_exp. cbn [mc_keyttl Z.ltb Z.compare andb].
      eexists. exists m1. eexists. split; [reflexivity|]. split; [reflexivity|].
      apply (R_after_suppress U n rs0 m st1 m1 ch nonce h1 v g); assumption. }
    (* accepted *)
    destruct Hspec as (st' & mh' & Hrun & Hv' & Hh' & Hres' & Hfr).
    destruct Hadd as (m' & Hadd & Hch & Hid' & Hnw').
    rewrite Hrun, Hadd. rewrite parse_add_ok by (unfold C18Stream.BOUND in Htb; lia).
    unfold touch_exp, idem_save. cbn [mc_keyttl Z.ltb Z.compare andb]. rewrite Eid.
    eexists. eexists. eexists. split; [reflexivity|]. split; [reflexivity|].
    set (cur := sfind (String kc key) (ch_state c0)) in *.
    set (e' := mkME (ch_top c0 + 1) (mp_data po) (mp_score po) (ver_after (mp_ver po) cur) (vep_after (mp_ver po) (mp_vep po) cur)).
    eapply (R_update_idem U n (n + 1) rs0 m _ _ ch (mp_idem po) _ (ch_top c0 + 1) (ch_epoch c0) _ HK HPok Hin HinP HR0);
      [lia | | exact Hch | | | cbn [mm_idem fst snd]; rewrite Hid'; reflexivity | cbn [mm_now]; exact Hnw'
       | rewrite Hnw', Hnow0; destruct (Z.eqb_spec (mp_idemttl po) 0); unfold default_idem_ms; lia | exact Htb
       | apply (res_view_frame st'); [intros; apply getk_clear_outbox | exact Hres']].
    + eapply frame_trans; [exact Hfr | apply frame_clear].
    + apply (chan_rel_frame st'); [intros; apply getk_clear_outbox|].
      unfold state_after. cbn [String.eqb].
      apply (chan_rel_after st' ch (ch_epoch c0) (ch_top c0) g mh'
               (Some (sput (String kc key) (state_value (Z.of_N (ch_top c0 + 1)) (ch_epoch c0) (pb (String kc key) (mp_data po) false (mp_score po)))
                           (hash_or_empty (rv_state v))))
               (Some (smeta_after_state (round53 (Z.of_N now_)) (ch_epoch c0)
                        (smeta_after_ver (mp_ver po) (mp_vep po) (String kc key) (hash_or_empty (rv_smeta v)))))
               (ch_items c0) (sput (String kc key) e' (ch_state c0))
               ((ch_top c0 + 1)%N, String kc key, mp_data po, false) (mp_score po) (Z.of_N (Z.to_N size)));
        try assumption; try reflexivity; try lia.
      * rewrite state_view_some by apply sput_nonempty. rewrite Est, state_view_hash.
        rewrite state_value_small by (unfold C18Stream.BOUND in Htb; exact Htb).
        rewrite <- sput_enc_s. reflexivity.
      * right. eexists. split; [reflexivity | apply sfind_epoch_after_state].
      * cbn [hash_or_empty]. unfold e', cur. apply ver_rel_publish. exact Hvr.
    + intros c' E. injection E as <-. unfold chan_inv. cbn [ch_epoch ch_top ch_items ch_state].
      split; [assumption|]. split; [lia|]. split; [apply contigT_snoc; [assumption | reflexivity]|].
      unfold state_after. cbn [String.eqb].
      split; intros kv Hkv; apply in_sput in Hkv as [->|Hkv]; try (first [apply Hents | apply Hvbd]; assumption).
      * cbn [snd]. unfold entry_ok, e'. cbn [me_off me_score]. unfold C18Stream.BOUND in Htb. split; [exact Htb | assumption].
      * cbn [snd]. unfold e'. cbn [me_ver]. unfold ver_after. destruct (mp_ver po =? 0)%N; [|exact Hver].
        destruct cur as [e|] eqn:Ek; [|lia]. apply (Hvbd (String kc key, e)). apply in_sfind. exact Ek.
Qed.

Lemma in_sdel {A} k (l : list (string * A)) kv : In kv (sdel k l) -> In kv l.
Proof.
  induction l as [|[k' v'] l IH]; cbn [sdel]; [auto|].
  destruct (String.eqb k k'); cbn [In]; [intros H; right; apply IH; assumption|].
  intros [<-|H]; [left; reflexivity | right; apply IH; assumption].
Qed.


Lemma step_remove U n cf rs m ch key ro nonce now_ c :
  cfg_ok cf = true -> keys_ok U -> In ch U -> R U n rs m -> (Z.of_N n < mc_size cf)%Z ->
  exp_okb (mr_exp ro) = true -> mr_idem ro = "" -> key <> "" -> sfind ch (mm_chans m) = Some c ->
  step_goal U n cf rs m (MRemove ch key ro nonce now_).
Proof.
  intros Hcf HK Hin HR Hn Hexpb Hidem Hkey Ec.
  destruct (cfg_ok_fields cf Hcf) as (size & sttl & -> & Hsize & Hsttl). cbn [mc_size] in Hn.
  pose proof (R_clear _ _ _ _ HR) as HR0. set (rs0 := clear_outbox rs) in *.
  pose proof (R_chan _ _ _ _ HR0 ch Hin) as Hrel. rewrite Ec in Hrel.
  destruct Hrel as (h & g & smh & Vm & Hh & Hg & Hgi & Vst & Vs & Vsm & Hsmc & Ve & Hvr).
  destruct (R_inv _ _ _ _ HR0 ch c Ec) as (Hep & Htop & Hcontig & Hents & Hvbd).
  pose proof (contigT_length _ _ _ Hcontig) as Hlen.
  assert (Hglen : List.length g = List.length (ch_items c)) by (rewrite <- Hg; rewrite map_length; reflexivity).
  set (v := mkRV (Some h) (state_view (ch_epoch c) (ch_state c)) smh (strm_view (ch_epoch c) g (ch_top c))).
  assert (Hviews : views rs0 ch v) by (unfold views, v; cbn [rv_meta rv_state rv_smeta rv_stream]; tauto).
  assert (Hexp : exp_ok (mr_exp ro)).
  { unfold exp_okb in Hexpb. unfold exp_ok. destruct (mr_exp ro) as [[eo ee]|]; [|exact I].
    apply andb_true_iff in Hexpb as [A B]. apply negb_true_iff in A. apply String.eqb_neq in A. apply N.ltb_lt in B. split; assumption. }
  assert (Htb : (ch_top c + 1 < BOUND)%N) by (unfold C18Stream.BOUND; lia).
  assert (Hszb : (Z.to_N size < 9223372036854775808)%N) by lia.
  destruct key as [|kc key]; [congruence|].
  unfold step_goal. unfold rm_step. fold rs0. unfold rm_remove.
  cbn [is_ephemeral mc_mode N.eqb Pos.eqb andb]. cbv iota.
  unfold remove_keys, remove_args. cbn [is_ephemeral has_stream mc_mode mc_keyttl mc_size mc_sttl mc_mttl mc_ordered N.eqb Pos.eqb orb].
  rewrite Hidem. cbn [String.eqb]. unfold idem_expire. cbn [String.eqb].
  change (millis 0) with "0". rewrite (zdec_nonneg size) by lia.
  change (match mr_exp ro with Some (eo, _) => utoa eo | None => "" end) with (exp_off (mr_exp ro)).
  change (match mr_exp ro with Some (_, ee) => ee | None => "" end) with (exp_epoch (mr_exp ro)).
  unfold utoa.
  cbn [ms_add map_shallow]. rewrite core_remove2_eq.
  cbn [mm_step]. unfold mm_remove. cbn [is_ephemeral mc_mode N.eqb Pos.eqb andb]. rewrite Hidem. cbn [String.eqb].
  unfold hub_remove. rewrite Ec. cbv zeta. cbn [chan_pos fst snd].
  replace (cas_check (ch_epoch c) (mr_exp ro) (sfind (String kc key) (ch_state c)))
    with (cas_dec (ch_epoch c) (mr_exp ro) (sfind (String kc key) (ch_state c)))
    by (unfold cas_dec; destruct (mr_exp ro) as [[? ?]|]; reflexivity).
  assert (Hwc0 : wipe_cond v (ch_epoch c)) by (apply wipe_cond_of; exact Hsmc).
  assert (Htop' : (ch_top c < BOUND)%N) by (unfold C18Stream.BOUND in *; lia).
  assert (Hcas : cas_block ch (String kc key) (exp_off (mr_exp ro)) (exp_epoch (mr_exp ro)) (ch_epoch c) rs0 =
                 match cas_dec (ch_epoch c) (mr_exp ro) (sfind (String kc key) (ch_state c)) with
                 | Some _ => (rs0, inr (RArr [RInt (Z.of_N (ch_top c)); RBulk (ch_epoch c); RBulk "position_mismatch";
                                            RBulk (cur_val (ch_epoch c) (String kc key) (sfind (String kc key) (ch_state c)))]))
                 | None => (rs0, inl tt)
                 end).
  { destruct (mr_exp ro) as [[eo ee]|]; [|reflexivity]. destruct Hexp as [He1 He2]. cbn [exp_off exp_epoch cas_dec]. unfold utoa.
    apply (cas_block_spec rs0 ch kc key eo ee (ch_epoch c) (ch_state c) h (ch_top c)); assumption. }
  destruct (cas_dec (ch_epoch c) (mr_exp ro) (sfind (String kc key) (ch_state c))) as [cp|] eqn:Ecas.
  { (* position mismatch: nothing changes *)
    rewrite (core_remove2_fail rs0 ch (String kc key) _ _ _ nonce now_ _ _ v h (ch_epoch c) (ch_top c) _ Hviews eq_refl Hh Hwc0 Hcas).
    rewrite (parse_add_mismatch (ch_top c) (ch_epoch c) (String kc key) (sfind (String kc key) (ch_state c)));
      [| unfold C18Stream.BOUND in Htop'; lia | assumption
       | destruct (sfind (String kc key) (ch_state c)) as [e|] eqn:Ek; [apply (Hents (String kc key, e)); apply in_sfind; exact Ek | exact I]].
    rewrite <- (cas_dec_cp _ _ _ _ Ecas).
    eexists. eexists. eexists. split; [reflexivity|]. split; [reflexivity|].
    apply R_clear. apply (R_mono U n); [lia | exact HR0]. }
  rewrite (core_remove2_pass rs0 ch (String kc key) _ _ _ nonce now_ _ _ v h (ch_epoch c) (ch_top c) Hviews eq_refl Hh Hwc0 Hcas).
  assert (Hf : sfind (String kc key) (hash_or_empty (rv_state v))
               = match sfind (String kc key) (ch_state c) with Some e => Some (snd (enc_s (ch_epoch c) (String kc key, e))) | None => None end).
  { unfold v. cbn [rv_state]. rewrite state_view_hash. apply sfind_enc_s. }
  destruct (sfind (String kc key) (ch_state c)) as [e|] eqn:Ek.
  - (* the key is there *)
    assert (Hne : ch_state c <> []) by (intros X; rewrite X in Ek; discriminate).
    assert (Hsm : exists hs, smh = Some hs /\ sfind "epoch" hs = Some (ch_epoch c)).
    { destruct Hsmc as [[_ X]|X]; [|exact X]. rewrite state_view_hash in X. destruct (ch_state c); [congruence | discriminate]. }
    destruct Hsm as (hs & -> & Heps).
    assert (Hscond : stream_cond v (ch_top c) (map (genc (ch_epoch c)) g)) by (apply (stream_cond_of v _ g _ (ch_items c)); [reflexivity | assumption | assumption]).
    destruct (core_remove_present2 rs0 ch (String kc key) (pb (String kc key) "" true 0) (Z.to_N size) sttl nonce now_ v h
                (map (enc_s (ch_epoch c)) (ch_state c)) hs (ch_epoch c) (ch_top c) (map (genc (ch_epoch c)) g)
                Hviews eq_refl Hh) as (st' & mh' & Hrun & Hv' & Hh' & Hfr);
      [unfold v; cbn [rv_state]; apply state_view_some; assumption
      | rewrite sfind_enc_s, Ek; discriminate | reflexivity | assumption | assumption | assumption | assumption | assumption |].
    rewrite Hrun. rewrite parse_add_ok by (unfold C18Stream.BOUND in Htb; lia).
    unfold stream_add. cbv beta iota zeta. cbn [ch_items ch_top ch_epoch ch_state fst snd has_stream mc_mode N.eqb Pos.eqb orb mc_size].
    rewrite skipn_fit by (rewrite app_length; cbn [List.length]; lia).
    unfold idem_save. cbn [String.eqb].
    eexists. eexists. eexists. split; [reflexivity|]. split; [reflexivity|].
    eapply (R_update U n (n + 1) rs0 m _ _ ch _ HK Hin HR0); [lia | | intros ch'; apply sfind_set_chan | | | reflexivity | reflexivity].
    + eapply frame_trans; [exact Hfr | apply frame_clear].
    + apply (chan_rel_frame st'); [intros; apply getk_clear_outbox|].
      apply (chan_rel_after st' ch (ch_epoch c) (ch_top c) g mh'
               (match sdel (String kc key) (map (enc_s (ch_epoch c)) (ch_state c)) with [] => None | h' => Some h' end)
               (Some (smeta_after_leave (String kc key) hs)) (ch_items c) (sdel (String kc key) (ch_state c))
               ((ch_top c + 1)%N, String kc key, "", true) 0%Z (Z.of_N (Z.to_N size)));
        try assumption; try reflexivity; try lia.
      * rewrite sdel_enc_s. destruct (sdel (String kc key) (ch_state c)); reflexivity.
      * right. eexists. split; [reflexivity|]. unfold smeta_after_leave. rewrite !sfind_sdel_other by (cbn [append]; discriminate). assumption.
      * unfold gent. rewrite Z2N.id by lia. lia.
      * cbn [hash_or_empty]. apply ver_rel_remove. exact Hvr.
    + intros c' E. injection E as <-. unfold chan_inv. cbn [ch_epoch ch_top ch_items ch_state].
      split; [assumption|]. split; [lia|]. split; [apply contigT_snoc; [assumption | reflexivity]|].
      split; intros kv Hkv; [apply Hents | apply Hvbd]; eapply in_sdel; eassumption.
  - (* the key is not there *)
    assert (Hwc : wipe_cond v (ch_epoch c)) by (apply wipe_cond_of; exact Hsmc).
    rewrite (core_remove_absent rs0 ch (String kc key) _ _ _ nonce now_ v h (ch_epoch c) (ch_top c) Hviews eq_refl Hh Hwc Hf)
      by (unfold C18Stream.BOUND in *; lia).
    eexists. eexists. eexists. split; [reflexivity|]. split.
    + cbn [chan_pos fst snd]. f_equal.
      unfold parse_add_result. cbn [as_arr List.length Nat.ltb Nat.leb nth as_u64 to_str].
      unfold C18Stream.BOUND in Htb. rewrite Z.mod_small by lia. rewrite N2Z.id. reflexivity.
    + apply R_clear. apply (R_mono U n); [lia | exact HR0].
Qed.

Lemma step_remove_idem U n cf rs m ch key ro nonce now_ c :
  cfg_ok cf = true -> keys_ok U -> In ch U -> R U n rs m -> (Z.of_N n < mc_size cf)%Z ->
  exp_okb (mr_exp ro) = true -> mr_idem ro <> "" -> (0 <= mr_idemttl ro < 2147483648)%Z ->
  res_ok P -> In (ch, mr_idem ro) P -> key <> "" -> sfind ch (mm_chans m) = Some c ->
  step_goal U n cf rs m (MRemove ch key ro nonce now_).
Proof.
  intros Hcf HK Hin HR Hn Hexpb Hidne Httl HPok HinP Hkey Ec.
  assert (Eid : String.eqb (mr_idem ro) "" = false) by (apply String.eqb_neq; exact Hidne).
  set (rz := if (0 <? mr_idemttl ro)%Z then mr_idemttl ro else default_idem_ms).
  assert (Hrz : (0 < rz < 2147483648)%Z) by (unfold rz, default_idem_ms; destruct (0 <? mr_idemttl ro)%Z eqn:E; [apply Z.ltb_lt in E|]; lia).
  assert (Erexp : (if (0 <? mr_idemttl ro)%Z then millis (mr_idemttl ro) else millis default_idem_ms) = millis rz)
    by (unfold rz; destruct (0 <? mr_idemttl ro)%Z; reflexivity).
  destruct (cfg_ok_fields cf Hcf) as (size & sttl & -> & Hsize & Hsttl). cbn [mc_size] in Hn.
  pose proof (R_clear _ _ _ _ HR) as HR0. set (rs0 := clear_outbox rs) in *.
  pose proof (R_chan _ _ _ _ HR0 ch Hin) as Hrel. rewrite Ec in Hrel.
  destruct Hrel as (h & g & smh & Vm & Hh & Hg & Hgi & Vst & Vs & Vsm & Hsmc & Ve & Hvr).
  destruct (R_inv _ _ _ _ HR0 ch c Ec) as (Hep & Htop & Hcontig & Hents & Hvbd).
  pose proof (contigT_length _ _ _ Hcontig) as Hlen.
  assert (Hglen : List.length g = List.length (ch_items c)) by (rewrite <- Hg; rewrite map_length; reflexivity).
  set (v := mkRV (Some h) (state_view (ch_epoch c) (ch_state c)) smh (strm_view (ch_epoch c) g (ch_top c))).
  assert (Hviews : views rs0 ch v) by (unfold views, v; cbn [rv_meta rv_state rv_smeta rv_stream]; tauto).
  assert (Hexp : exp_ok (mr_exp ro)).
  { unfold exp_okb in Hexpb. unfold exp_ok. destruct (mr_exp ro) as [[eo ee]|]; [|exact I].
    apply andb_true_iff in Hexpb as [A B]. apply negb_true_iff in A. apply String.eqb_neq in A. apply N.ltb_lt in B. split; assumption. }
  assert (Htb : (ch_top c + 1 < BOUND)%N) by (unfold C18Stream.BOUND; lia).
  assert (Hszb : (Z.to_N size < 9223372036854775808)%N) by lia.
  destruct key as [|kc key]; [congruence|].
  unfold step_goal. unfold rm_step. fold rs0. unfold rm_remove.
  cbn [is_ephemeral mc_mode N.eqb Pos.eqb andb]. cbv iota.
  unfold remove_keys, remove_args. cbn [is_ephemeral has_stream mc_mode mc_keyttl mc_size mc_sttl mc_mttl mc_ordered N.eqb Pos.eqb orb].
  rewrite Eid. unfold idem_expire. rewrite Eid, Erexp.
  change (millis 0) with "0". rewrite (zdec_nonneg size) by lia.
  change (match mr_exp ro with Some (eo, _) => utoa eo | None => "" end) with (exp_off (mr_exp ro)).
  change (match mr_exp ro with Some (_, ee) => ee | None => "" end) with (exp_epoch (mr_exp ro)).
  unfold utoa.
  cbn [ms_add map_shallow]. rewrite core_remove2_i_eq.
  pose proof (R_cache _ _ _ _ HR0 ch (mr_idem ro) HinP) as Hcache. pose proof (R_now _ _ _ _ HR0) as Hnow0.
  cbn [mm_step]. unfold mm_remove. cbn [is_ephemeral mc_mode N.eqb Pos.eqb andb]. rewrite Eid. unfold idem_get. rewrite Hnow0.
  unfold cache_rel in Hcache.
  destruct (sfind (idem_key ch (mr_idem ro)) (mm_idem m)) as [[[coff cep] cexp]|] eqn:Ecache.
  { (* cached result *)
    destruct Hcache as (Hexp0 & Hcoff & Hcres).
    replace (cexp <=? 0)%N with false by (symmetry; apply N.leb_gt; exact Hexp0).
    assert (Hic : idem_cond (k_result ch (mr_idem ro)) (millis rz) = true).
    { unfold idem_cond. rewrite millis_pos by lia. rewrite dec_eqb_empty. reflexivity. }
    unfold core_remove2_i.
    rewrite (idem_hit_run (ret RNil) rs0 _ _ _ coff cep _ Hic Hcres) by (eexists; apply num_of_dec_any).
    eexists. eexists. eexists. split; [reflexivity|]. split.
    - f_equal. unfold parse_add_result. cbn [as_arr List.length Nat.ltb Nat.leb nth as_u64 to_str].
      unfold C18Stream.BOUND in Hcoff. rewrite parse_u64_map_dec by lia. reflexivity.
    - apply R_clear. apply (R_mono U n); [lia | exact HR0]. }
  assert (Hres : res_view rs0 (k_result ch (mr_idem ro)) None) by exact Hcache.
  unfold hub_remove. rewrite Ec. cbv zeta. cbn [chan_pos fst snd].
  replace (cas_check (ch_epoch c) (mr_exp ro) (sfind (String kc key) (ch_state c)))
    with (cas_dec (ch_epoch c) (mr_exp ro) (sfind (String kc key) (ch_state c)))
    by (unfold cas_dec; destruct (mr_exp ro) as [[? ?]|]; reflexivity).
  assert (Hwc0 : wipe_cond v (ch_epoch c)) by (apply wipe_cond_of; exact Hsmc).
  assert (Htop' : (ch_top c < BOUND)%N) by (unfold C18Stream.BOUND in *; lia).
  assert (Hcas : cas_block ch (String kc key) (exp_off (mr_exp ro)) (exp_epoch (mr_exp ro)) (ch_epoch c) rs0 =
                 match cas_dec (ch_epoch c) (mr_exp ro) (sfind (String kc key) (ch_state c)) with
                 | Some _ => (rs0, inr (RArr [RInt (Z.of_N (ch_top c)); RBulk (ch_epoch c); RBulk "position_mismatch";
                                            RBulk (cur_val (ch_epoch c) (String kc key) (sfind (String kc key) (ch_state c)))]))
                 | None => (rs0, inl tt)
                 end).
  { destruct (mr_exp ro) as [[eo ee]|]; [|reflexivity]. destruct Hexp as [He1 He2]. cbn [exp_off exp_epoch cas_dec]. unfold utoa.
    apply (cas_block_spec rs0 ch kc key eo ee (ch_epoch c) (ch_state c) h (ch_top c)); assumption. }
  destruct (cas_dec (ch_epoch c) (mr_exp ro) (sfind (String kc key) (ch_state c))) as [cp|] eqn:Ecas.
  { (* position mismatch: nothing changes *)
    rewrite (core_remove2_i_fail rs0 ch (String kc key) _ _ _ nonce now_ _ _ v h (ch_epoch c) (ch_top c) _ _ _ Hviews eq_refl Hh Hwc0 Hres Hcas).
    rewrite (parse_add_mismatch (ch_top c) (ch_epoch c) (String kc key) (sfind (String kc key) (ch_state c)));
      [| unfold C18Stream.BOUND in Htop'; lia | assumption
       | destruct (sfind (String kc key) (ch_state c)) as [e|] eqn:Ek; [apply (Hents (String kc key, e)); apply in_sfind; exact Ek | exact I]].
    rewrite <- (cas_dec_cp _ _ _ _ Ecas).
    eexists. eexists. eexists. split; [reflexivity|]. split; [reflexivity|].
    apply R_clear. apply (R_mono U n); [lia | exact HR0]. }
  assert (Hf : sfind (String kc key) (hash_or_empty (rv_state v))
               = match sfind (String kc key) (ch_state c) with Some e => Some (snd (enc_s (ch_epoch c) (String kc key, e))) | None => None end).
  { unfold v. cbn [rv_state]. rewrite state_view_hash. apply sfind_enc_s. }
  destruct (sfind (String kc key) (ch_state c)) as [e|] eqn:Ek.
  - (* the key is there *)
    assert (Hne : ch_state c <> []) by (intros X; rewrite X in Ek; discriminate).
    assert (Hsm : exists hs, smh = Some hs /\ sfind "epoch" hs = Some (ch_epoch c)).
    { destruct Hsmc as [[_ X]|X]; [|exact X]. rewrite state_view_hash in X. destruct (ch_state c); [congruence | discriminate]. }
    destruct Hsm as (hs & -> & Heps).
    assert (Hscond : stream_cond v (ch_top c) (map (genc (ch_epoch c)) g)) by (apply (stream_cond_of v _ g _ (ch_items c)); [reflexivity | assumption | assumption]).
    destruct (core_remove2_i_present rs0 ch (String kc key) (pb (String kc key) "" true 0) (Z.to_N size) sttl nonce now_ v h
                (map (enc_s (ch_epoch c)) (ch_state c)) hs (ch_epoch c) (ch_top c) (map (genc (ch_epoch c)) g)
                (exp_off (mr_exp ro)) (exp_epoch (mr_exp ro)) (k_result ch (mr_idem ro)) rz
                Hviews eq_refl Hh) as (st' & mh' & Hrun & Hv' & Hh' & Hres' & Hfr);
      [unfold v; cbn [rv_state]; apply state_view_some; assumption
      | rewrite sfind_enc_s, Ek; discriminate | reflexivity | assumption | assumption | assumption | assumption | assumption
      | exact Hcas | exact Hres | apply k_result_not_chan | apply k_result_ne | exact Hrz |].
    rewrite Hrun. rewrite parse_add_ok by (unfold C18Stream.BOUND in Htb; lia).
    unfold stream_add. cbv beta iota zeta. cbn [ch_items ch_top ch_epoch ch_state fst snd has_stream mc_mode N.eqb Pos.eqb orb mc_size].
    rewrite skipn_fit by (rewrite app_length; cbn [List.length]; lia).
    unfold idem_save. rewrite Eid.
    eexists. eexists. eexists. split; [reflexivity|]. split; [reflexivity|].
    eapply (R_update_idem U n (n + 1) rs0 m _ _ ch (mr_idem ro) _ (ch_top c + 1) (ch_epoch c) _ HK HPok Hin HinP HR0);
      [lia | | intros ch'; apply sfind_set_chan | | | reflexivity | reflexivity
       | cbn [mm_now del_exp set_chan]; rewrite Hnow0; destruct (Z.eqb_spec (mr_idemttl ro) 0); unfold default_idem_ms; lia | exact Htb
       | apply (res_view_frame st'); [intros; apply getk_clear_outbox | exact Hres']].
    + eapply frame_trans; [exact Hfr | apply frame_clear].
    + apply (chan_rel_frame st'); [intros; apply getk_clear_outbox|].
      apply (chan_rel_after st' ch (ch_epoch c) (ch_top c) g mh'
               (match sdel (String kc key) (map (enc_s (ch_epoch c)) (ch_state c)) with [] => None | h' => Some h' end)
               (Some (smeta_after_leave (String kc key) hs)) (ch_items c) (sdel (String kc key) (ch_state c))
               ((ch_top c + 1)%N, String kc key, "", true) 0%Z (Z.of_N (Z.to_N size)));
        try assumption; try reflexivity; try lia.
      * rewrite sdel_enc_s. destruct (sdel (String kc key) (ch_state c)); reflexivity.
      * right. eexists. split; [reflexivity|]. unfold smeta_after_leave. rewrite !sfind_sdel_other by (cbn [append]; discriminate). assumption.
      * unfold gent. rewrite Z2N.id by lia. lia.
      * cbn [hash_or_empty]. apply ver_rel_remove. exact Hvr.
    + intros c' E. injection E as <-. unfold chan_inv. cbn [ch_epoch ch_top ch_items ch_state].
      split; [assumption|]. split; [lia|]. split; [apply contigT_snoc; [assumption | reflexivity]|].
      split; intros kv Hkv; [apply Hents | apply Hvbd]; eapply in_sdel; eassumption.
  - (* the key is not there *)
    assert (Hwc : wipe_cond v (ch_epoch c)) by (apply wipe_cond_of; exact Hsmc).
    rewrite (core_remove2_i_absent rs0 ch (String kc key) _ _ _ nonce now_ _ _ v h (ch_epoch c) (ch_top c) _ _ Hviews eq_refl Hh Hwc Hres Hcas Hf)
      by (unfold C18Stream.BOUND in *; lia).
    eexists. eexists. eexists. split; [reflexivity|]. split.
    + cbn [chan_pos fst snd]. f_equal.
      unfold parse_add_result. cbn [as_arr List.length Nat.ltb Nat.leb nth as_u64 to_str].
      unfold C18Stream.BOUND in Htb. rewrite Z.mod_small by lia. rewrite N2Z.id. reflexivity.
    + apply R_clear. apply (R_mono U n); [lia | exact HR0].
Qed.

(* ================= reads ================= *)
Lemma since_okb_sound top since reverse : since_okb top since reverse = true -> since_ok top since reverse.
Proof.
  unfold since_okb, since_ok. destruct since as [[so se]|]; [|auto]. destruct reverse.
  - intros H. apply andb_true_iff in H as [H1 H2]. apply N.leb_le in H1, H2. lia.
  - intros H. apply N.ltb_lt in H. exact H.
Qed.

Lemma chan_rel_new rs' ch nonce :
  hview rs' (k_meta ch) (Some [("e", nonce)]) -> getk rs' (k_stream ch) = None -> getk rs' (k_state ch) = None ->
  getk rs' (k_smeta ch) = None -> getk rs' (k_expire ch) = None ->
  chan_rel rs' ch (Some (new_chan nonce)).
Proof.
  intros Hm Hs Ht Hsm He. cbn [chan_rel new_chan ch_epoch ch_top ch_items ch_state].
  exists [("e", nonce)], [], None. split; [assumption|]. split; [apply C18StreamP.hash_ok_new|].
  split; [reflexivity|]. split; [intros x []|]. split; [exact Hs|]. split; [exact Ht|]. split; [exact Hsm|].
  split; [left; split; reflexivity|]. split; [assumption | intros key; reflexivity].
Qed.

Lemma chan_inv_new n nonce : nonce_ok nonce = true -> chan_inv n (new_chan nonce).
Proof.
  intros Hn. unfold chan_inv, new_chan. cbn [ch_epoch ch_top ch_items ch_state].
  split; [unfold nonce_ok in Hn; apply negb_true_iff in Hn; exact Hn|]. split; [apply N.le_0_l|].
  split; [apply contigT_nil; reflexivity|]. split; intros kv [].
Qed.

Lemma none_keys rs ch : chan_rel rs ch None ->
  getk rs (k_stream ch) = None /\ getk rs (k_meta ch) = None /\ getk rs (k_state ch) = None /\
  getk rs (k_expire ch) = None /\ getk rs (k_smeta ch) = None.
Proof.
  cbn [chan_rel]. unfold chan_keys. intros H.
  repeat split; apply H; cbn [In]; auto 10.
Qed.

Lemma step_read_stream U n cf rs m ch since limit reverse nonce :
  cfg_ok cf = true -> keys_ok U -> In ch U -> R U n rs m -> (Z.of_N n < mc_size cf)%Z ->
  nonce_ok nonce = true -> (limit < 2147483648)%Z ->
  match sfind ch (mm_chans m) with
  | Some c => since_okb (ch_top c) since reverse = true
  | None => since = None
  end ->
  step_goal U n cf rs m (MReadStream ch since limit reverse nonce nonce).
Proof.
  intros Hcf HK Hin HR Hn Hno Hlim Hdom.
  destruct (cfg_ok_fields cf Hcf) as (size & sttl & -> & Hsize & Hsttl). cbn [mc_size] in Hn.
  pose proof (R_clear _ _ _ _ HR) as HR0. set (rs0 := clear_outbox rs) in *.
  pose proof (R_chan _ _ _ _ HR0 ch Hin) as Hrel.
  unfold step_goal. unfold rm_step. fold rs0. cbn [mm_step].
  destruct (sfind ch (mm_chans m)) as [c|] eqn:Ec.
  - destruct Hrel as (h & g & smh & Vm & Hh & Hg & Hgi & Vst & Vs & Vsm & Hsmc & Ve & Hvr).
    destruct (R_inv _ _ _ _ HR0 ch c Ec) as (Hep & Htop & Hcontig & Hents & Hvbd).
    apply since_okb_sound in Hdom.
    rewrite (rm_read_stream_some (mkMC 3 0 size sttl 0 false) rs0 ch h (ch_epoch c) (ch_top c) g since limit reverse nonce eq_refl Vm Hh Vst Hgi)
      by (unfold C18Stream.BOUND; first [lia | assumption]).
    rewrite (mm_read_stream_some m ch c since limit reverse nonce Ec Hcontig Hdom).
    change (@map gent tpub fst g) with (@map (tpub * Z) tpub fst g). rewrite Hg.
    eexists. eexists. eexists. split; [reflexivity|]. split; [reflexivity|].
    apply R_clear. apply (R_mono U n); [lia | exact HR0].
  - subst since. destruct (none_keys _ _ Hrel) as (Ks & Km & Kt & Ke & Ksm).
    rewrite (rm_read_stream_none (mkMC 3 0 size sttl 0 false) rs0 ch limit reverse nonce eq_refl Km Hlim).
    unfold mm_read_stream. rewrite Ec.
    eexists. eexists. eexists. split; [reflexivity|]. split; [reflexivity|].
    set (rs1 := setval rs0 (k_meta ch) (VHash [("e", nonce)])).
    assert (F1 : frame [k_meta ch] rs0 rs1) by apply frame_setval.
    assert (F2 : frame [k_stream ch] rs1 (delk rs1 (k_stream ch))) by apply frame_delk.
    assert (F : frame (chan_keys ch) rs0 (clear_outbox (delk rs1 (k_stream ch)))).
    { eapply frame_trans; [eapply frame_weaken; [|exact F1]; ck|].
      eapply frame_trans; [eapply frame_weaken; [|exact F2]; ck | apply frame_clear]. }
    eapply (R_update U n (n + 1) rs0 m _ _ ch _ HK Hin HR0); [lia | exact F | intros ch'; apply sfind_set_chan | | | reflexivity | reflexivity].
    + apply (chan_rel_frame (delk rs1 (k_stream ch))); [intros; apply getk_clear_outbox|].
      apply chan_rel_new.
      * apply (hview_frame _ _ _ _ _ F2); [notin | apply hview_setval].
      * apply getk_delk_same.
      * destruct F2 as [F2 _]. destruct F1 as [F1 _]. rewrite F2 by notin. rewrite F1 by notin. exact Kt.
      * destruct F2 as [F2 _]. destruct F1 as [F1 _]. rewrite F2 by notin. rewrite F1 by notin. exact Ksm.
      * destruct F2 as [F2 _]. destruct F1 as [F1 _]. rewrite F2 by notin. rewrite F1 by notin. exact Ke.
    + intros c' E. injection E as <-. apply chan_inv_new. assumption.
Qed.

Lemma step_read_state U n cf rs m ch rev_ limit key asc nonce :
  cfg_ok cf = true -> keys_ok U -> In ch U -> R U n rs m -> (Z.of_N n < mc_size cf)%Z ->
  nonce_ok nonce = true -> (limit < 2147483648)%Z ->
  match sfind ch (mm_chans m) with
  | Some c => (negb (String.eqb key "") || negb (limit =? 0)%Z || negb (rev_bad rev_ (ch_epoch c)))%bool = true
  | None => key = "" /\ rev_ = None
  end ->
  step_goal U n cf rs m (MReadState ch rev_ limit key asc nonce nonce).
Proof.
  intros Hcf HK Hin HR Hn Hno Hlim Hdom.
  destruct (cfg_ok_fields cf Hcf) as (size & sttl & -> & Hsize & Hsttl). cbn [mc_size] in Hn.
  set (cf := mkMC 3 0 size sttl 0 false).
  pose proof (R_clear _ _ _ _ HR) as HR0. set (rs0 := clear_outbox rs) in *.
  pose proof (R_chan _ _ _ _ HR0 ch Hin) as Hrel.
  unfold step_goal. unfold rm_step. fold rs0. cbn [mm_step mc_ordered cf andb]. unfold rm_read_state.
  destruct (sfind ch (mm_chans m)) as [c|] eqn:Ec.
  - destruct Hrel as (h & g & smh & Vm & Hh & Hg & Hgi & Vst & Vs & Vsm & Hsmc & Ve & Hvr).
    destruct (R_inv _ _ _ _ HR0 ch c Ec) as (Hep & Htop & Hcontig & Hents & Hvbd).
    assert (Htb : (ch_top c < BOUND)%N) by (unfold C18Stream.BOUND; lia).
    rewrite (mm_read_state_some m ch c rev_ limit key nonce Ec).
    destruct (negb (String.eqb key "")) eqn:Ek.
    + (* single key *)
      rewrite (rm_read_single_some cf rs0 ch key rev_ h (ch_epoch c) (ch_top c) (ch_state c) eq_refl Vm Hh Htb Vs Hep Hents).
      eexists. eexists. eexists. split; [reflexivity|]. split; [reflexivity|].
      apply R_clear. apply (R_mono U n); [lia | exact HR0].
    + destruct (limit =? 0)%Z eqn:El.
      * (* position only *)
        cbn [negb orb] in Hdom. apply negb_true_iff in Hdom. rewrite Hdom.
        rewrite (rm_read_stream_some cf rs0 ch h (ch_epoch c) (ch_top c) g None 0 false nonce eq_refl Vm Hh Vst Hgi Htb I)
          by lia.
        cbn [unrec_of]. unfold sel_pubs. cbn [Z.eqb].
        eexists. eexists. eexists. split; [reflexivity|]. split; [reflexivity|].
        apply R_clear. apply (R_mono U n); [lia | exact HR0].
      * (* whole state *)
        cbn [mc_ordered cf].
        rewrite (read_pages_some cf rs0 ch rev_ limit nonce h (ch_epoch c) (ch_top c) (ch_state c) smh
                   eq_refl eq_refl Vm Hh Htb Vs Vsm Hsmc Hep Hents Hlim).
        eexists. eexists. eexists. split; [reflexivity|]. split; [reflexivity|].
        apply R_clear. apply (R_mono U n); [lia | exact HR0].
  - destruct Hdom as [-> ->]. destruct (none_keys _ _ Hrel) as (Ks & Km & Kt & Ke & Ksm).
    cbn [String.eqb negb]. unfold mm_read_state. rewrite Ec.
    destruct (limit =? 0)%Z eqn:El.
    + rewrite (rm_read_stream_none cf rs0 ch 0 false nonce eq_refl Km) by lia.
      eexists. eexists. eexists. split; [reflexivity|]. split; [reflexivity|].
      set (rs1 := setval rs0 (k_meta ch) (VHash [("e", nonce)])).
      assert (F1 : frame [k_meta ch] rs0 rs1) by apply frame_setval.
      assert (F2 : frame [k_stream ch] rs1 (delk rs1 (k_stream ch))) by apply frame_delk.
      assert (F : frame (chan_keys ch) rs0 (clear_outbox (delk rs1 (k_stream ch)))).
      { eapply frame_trans; [eapply frame_weaken; [|exact F1]; ck|].
        eapply frame_trans; [eapply frame_weaken; [|exact F2]; ck | apply frame_clear]. }
      eapply (R_update U n (n + 1) rs0 m _ _ ch _ HK Hin HR0); [lia | exact F | intros ch'; apply sfind_set_chan | | | reflexivity | reflexivity].
      * apply (chan_rel_frame (delk rs1 (k_stream ch))); [intros; apply getk_clear_outbox|].
        apply chan_rel_new.
        -- apply (hview_frame _ _ _ _ _ F2); [notin | apply hview_setval].
        -- apply getk_delk_same.
        -- destruct F2 as [F2 _]. destruct F1 as [F1 _]. rewrite F2 by notin. rewrite F1 by notin. exact Kt.
        -- destruct F2 as [F2 _]. destruct F1 as [F1 _]. rewrite F2 by notin. rewrite F1 by notin. exact Ksm.
        -- destruct F2 as [F2 _]. destruct F1 as [F1 _]. rewrite F2 by notin. rewrite F1 by notin. exact Ke.
      * intros c' E. injection E as <-. apply chan_inv_new. assumption.
    + cbn [mc_ordered cf].
      rewrite (read_pages_none cf rs0 ch limit nonce eq_refl eq_refl Km Ksm Hlim).
      eexists. eexists. eexists. split; [reflexivity|]. split; [reflexivity|].
      set (rs1 := setval rs0 (k_meta ch) (VHash [("e", nonce)])).
      assert (F1 : frame [k_meta ch] rs0 rs1) by apply frame_setval.
      assert (F : frame (chan_keys ch) rs0 (clear_outbox rs1)).
      { eapply frame_trans; [eapply frame_weaken; [|exact F1]; ck | apply frame_clear]. }
      eapply (R_update U n (n + 1) rs0 m _ _ ch _ HK Hin HR0); [lia | exact F | intros ch'; apply sfind_set_chan | | | reflexivity | reflexivity].
      * apply (chan_rel_frame rs1); [intros; apply getk_clear_outbox|].
        destruct F1 as [F1 _].
        apply chan_rel_new; [apply hview_setval | | | |]; rewrite F1 by notin; assumption.
      * intros c' E. injection E as <-. apply chan_inv_new. assumption.
Qed.

(* ================= Clear ================= *)
Lemma del_keys_spec ks : forall st n, exists n', del_keys st ks n = (fold_left delk ks st, n').
Proof.
  induction ks as [|k ks IH]; intros st n; [eexists; reflexivity|]. cbn [del_keys fold_left].
  destruct (getk st k); apply IH.
Qed.

Lemma getk_fold_delk ks : forall st k, getk (fold_left delk ks st) k = if existsb (String.eqb k) ks then None else getk st k.
Proof.
  induction ks as [|k0 ks IH]; intros st k; [reflexivity|]. cbn [fold_left existsb]. rewrite IH.
  destruct (existsb (String.eqb k) ks); [rewrite orb_true_r; reflexivity|]. rewrite orb_false_r.
  destruct (String.eqb k k0) eqn:E.
  - apply String.eqb_eq in E. subst. apply getk_delk_same.
  - apply String.eqb_neq in E. apply getk_delk_other. assumption.
Qed.

Lemma sfind_sdel_chan {A} k k' (l : list (string * A)) :
  sfind k' (sdel k l) = if String.eqb k' k then None else sfind k' l.
Proof.
  destruct (String.eqb k' k) eqn:E.
  - apply String.eqb_eq in E. subst. apply sfind_sdel_same.
  - apply String.eqb_neq in E. apply sfind_sdel_other. assumption.
Qed.

Lemma step_clear U n cf rs m ch :
  cfg_ok cf = true -> keys_ok U -> In ch U -> R U n rs m -> P = [] -> step_goal U n cf rs m (MClear ch).
Proof.
  intros Hcf HK Hin HR HP.
  pose proof (R_clear _ _ _ _ HR) as HR0. set (rs0 := clear_outbox rs) in *.
  unfold step_goal. unfold rm_step. fold rs0. unfold rm_clear.
  set (ks := [k_stream ch; k_meta ch; k_state ch; k_order ch; k_expire ch; k_smeta ch]).
  change (redis_call rs0 ("del" :: ks)) with (cmd_del rs0 ks). unfold cmd_del. cbn [ks].
  destruct (del_keys_spec ks rs0 0) as [n' Hd]. fold ks. rewrite Hd.
  set (rs1 := fold_left delk ks rs0).
  assert (Hg1 : forall k, getk rs1 k = if existsb (String.eqb k) ks then None else getk rs0 k) by (intros k; apply getk_fold_delk).
  assert (Hc1 : getk rs1 k_cleanup = None).
  { rewrite Hg1. replace (existsb (String.eqb k_cleanup) ks) with false by reflexivity. apply (R_cleanup _ _ _ _ HR0). }
  rewrite (zrem1_none _ _ _ Hc1).
  cbn [mm_step].
  eexists. eexists. eexists. split; [reflexivity|]. split; [reflexivity|].
  assert (Hin6 : forall k, In k ks -> existsb (String.eqb k) ks = true).
  { intros k Hk. apply existsb_exists. exists k. split; [assumption | apply String.eqb_refl]. }
  assert (Hout : forall k, ~ In k ks -> getk rs1 k = getk rs0 k).
  { intros k Hk. rewrite Hg1. destruct (existsb (String.eqb k) ks) eqn:E; [|reflexivity].
    apply existsb_exists in E as (x & Hx & Ex). apply String.eqb_eq in Ex. subst. contradiction. }
  constructor.
  - intros ch' Hin'. unfold mm_clear. cbn [mm_chans]. rewrite sfind_sdel_chan.
    apply (chan_rel_frame rs1); [intros; apply getk_clear_outbox|].
    destruct (String.eqb ch' ch) eqn:E.
    + apply String.eqb_eq in E. subst ch'. cbn [chan_rel]. intros k Hk. rewrite Hg1. rewrite Hin6; [reflexivity|].
      unfold chan_keys in Hk. unfold ks. cbn [In] in *. tauto.
    + apply String.eqb_neq in E. apply (chan_rel_frame rs0); [|apply (R_chan _ _ _ _ HR0); assumption].
      intros k Hk. apply Hout. unfold ks. cbn [In]. intros Hk'.
      assert (Hk6 : In k (chan_keys ch) \/ k = k_order ch) by (unfold chan_keys; cbn [In]; destruct Hk' as [X|[X|[X|[X|[X|[X|[]]]]]]]; auto 10).
      destruct Hk6 as [Hk6 | ->].
      * exact (chan_keys_disjoint U ch' ch HK Hin' Hin E k Hk Hk6).
      * exact (k_order_not_chan U ch ch' HK Hin Hin' Hk).
  - intros ch' c'. unfold mm_clear. cbn [mm_chans]. rewrite sfind_sdel_chan. destruct (String.eqb ch' ch); [discriminate|].
    intros H. apply (chan_inv_mono n); [lia|]. apply (R_inv _ _ _ _ HR0 ch' c' H).
  - rewrite getk_clear_outbox. exact Hc1.
  - apply (R_now _ _ _ _ HR0).
  - intros ch' k Hk. rewrite HP in Hk. destruct Hk.
Qed.

(* ================= the whole run ================= *)
Lemma step_ok U n cf ai rs m o :
  cfg_ok cf = true -> keys_ok U -> res_ok P -> (ai = false -> P = []) ->
  (forall ch, In ch (op_chan o) -> In ch U) -> (forall p, In p (op_idem o) -> In p P) -> R U n rs m ->
  (Z.of_N n < mc_size cf)%Z -> op_ok ai m o = true -> step_goal U n cf rs m o.
Proof.
  intros Hcf HK HPok Hai Hin HinP HR Hn Hok. destruct o as [ch key po nonce now_|ch key ro nonce now_|ch rev_ limit key asc nr nm|ch since limit reverse nr nm|ch|ms|cnow cnode|sch];
    cbn [op_ok] in Hok; try discriminate Hok.
  - apply andb_true_iff in Hok as [H1 H2]. unfold popts_ok in H1. apply andb_true_iff in H1 as [Hi Hc].
    assert (HinU : In ch U) by (apply Hin; left; reflexivity).
    destruct (String.eqb (mp_idem po) "") eqn:Eid.
    + apply String.eqb_eq in Eid. apply step_publish_plain; assumption.
    + unfold idem_okb in Hi. rewrite Eid in Hi. cbn [orb] in Hi.
      apply andb_true_iff in Hi as [Hi Hu]. apply andb_true_iff in Hi as [_ Hl]. apply Z.leb_le in Hl. apply Z.ltb_lt in Hu.
      apply String.eqb_neq in Eid.
      apply step_publish_idem; try assumption; [lia|].
      apply HinP. cbn [op_idem]. apply String.eqb_neq in Eid. rewrite Eid. left. reflexivity.
  - apply andb_true_iff in Hok as [H1 H3]. apply andb_true_iff in H1 as [H1 H2].
    destruct (sfind ch (mm_chans m)) as [c|] eqn:Ec; [|discriminate].
    assert (HinU : In ch U) by (apply Hin; left; reflexivity).
    assert (Hkey : key <> "") by (apply negb_true_iff in H2; apply String.eqb_neq; exact H2).
    unfold ropts_ok in H1. apply andb_true_iff in H1 as [Hi He].
    destruct (String.eqb (mr_idem ro) "") eqn:Eid.
    + apply String.eqb_eq in Eid. apply (step_remove U n cf rs m ch key ro nonce now_ c); assumption.
    + unfold idem_okb in Hi. rewrite Eid in Hi. cbn [orb] in Hi.
      apply andb_true_iff in Hi as [Hi Hu]. apply andb_true_iff in Hi as [_ Hl]. apply Z.leb_le in Hl. apply Z.ltb_lt in Hu.
      apply (step_remove_idem U n cf rs m ch key ro nonce now_ c); try assumption.
      * apply String.eqb_neq. exact Eid.
      * lia.
      * apply HinP. cbn [op_idem]. rewrite Eid. left. reflexivity.
  - apply andb_true_iff in Hok as [H1 H4]. apply andb_true_iff in H1 as [H1 H3]. apply andb_true_iff in H1 as [H1 H2].
    apply String.eqb_eq in H1. subst nm. apply Z.ltb_lt in H3.
    apply step_read_state; try assumption.
    + apply Hin. left. reflexivity.
    + destruct (sfind ch (mm_chans m)) as [c|]; [exact H4|].
      apply andb_true_iff in H4 as [A B]. apply String.eqb_eq in A. destruct rev_; [discriminate|]. split; [assumption | reflexivity].
  - apply andb_true_iff in Hok as [H1 H4]. apply andb_true_iff in H1 as [H1 H3]. apply andb_true_iff in H1 as [H1 H2].
    apply String.eqb_eq in H1. subst nm. apply Z.ltb_lt in H3.
    apply step_read_stream; try assumption.
    + apply Hin. left. reflexivity.
    + destruct (sfind ch (mm_chans m)) as [c|]; [exact H4|]. destruct since; [discriminate | reflexivity].
  - apply step_clear; try assumption; [apply Hin; left; reflexivity|]. apply Hai. apply negb_true_iff in Hok. exact Hok.
Qed.

Lemma run_agree U cf ai : cfg_ok cf = true -> keys_ok U -> res_ok P -> (ai = false -> P = []) -> forall ops n rs m,
  (forall ch, In ch (chans ops) -> In ch U) -> (forall p, In p (idems ops) -> In p P) -> R U n rs m ->
  (Z.of_N n + Z.of_nat (List.length ops) <= mc_size cf)%Z -> run_ok cf ai m ops = true ->
  rm_run map_shallow cf rs ops = mm_run cf m ops.
Proof.
  intros Hcf HK HPok Hai. induction ops as [|o ops IH]; intros n rs m Hin HinP HR Hn Hok; [reflexivity|].
  cbn [run_ok] in Hok. apply andb_true_iff in Hok as [Ho Hrest].
  cbn [List.length] in Hn.
  destruct (step_ok U n cf ai rs m o Hcf HK HPok Hai) as (rs' & m' & res & Hr & Hm & HR'); try assumption.
  - intros ch Hc. apply Hin. unfold chans. cbn [flat_map]. apply in_or_app. left. assumption.
  - intros p Hp. apply HinP. unfold idems. cbn [flat_map]. apply in_or_app. left. assumption.
  - lia.
  - cbn [rm_run mm_run]. rewrite Hr, Hm. f_equal. rewrite Hm in Hrest. cbn [fst] in Hrest.
    apply (IH (n + 1)%N); try assumption.
    + intros ch Hc. apply Hin. unfold chans. cbn [flat_map]. apply in_or_app. right. assumption.
    + intros p Hp. apply HinP. unfold idems. cbn [flat_map]. apply in_or_app. right. assumption.
    + lia.
Qed.

Lemma R_init U : R U 0 rinit mm_init.
Proof.
  constructor.
  - intros ch _. cbn [mm_init mm_chans sfind chan_rel]. intros k _. reflexivity.
  - intros ch c H. discriminate H.
  - reflexivity.
  - reflexivity.
  - intros ch k _. reflexivity.
Qed.

End WithPairs.

Lemma run_ok_no_idems cf ops : forall m, run_ok cf false m ops = true -> idems ops = [].
Proof.
  induction ops as [|o ops IH]; intros m H; [reflexivity|]. cbn [run_ok] in H. apply andb_true_iff in H as [Ho Hr].
  unfold idems. cbn [flat_map]. fold (idems ops). rewrite (IH _ Hr), app_nil_r.
  destruct o; try reflexivity; cbn [op_ok] in Ho.
  - apply andb_true_iff in Ho as [Ho _]. unfold popts_ok in Ho.
    apply andb_true_iff in Ho as [Ho _]. unfold idem_okb in Ho. cbn [andb] in Ho. rewrite orb_false_r in Ho.
    cbn [op_idem]. rewrite Ho. reflexivity.
  - apply andb_true_iff in Ho as [Ho _]. apply andb_true_iff in Ho as [Ho _]. unfold ropts_ok in Ho.
    apply andb_true_iff in Ho as [Ho _]. unfold idem_okb in Ho. cbn [andb] in Ho. rewrite orb_false_r in Ho.
    cbn [op_idem]. rewrite Ho. reflexivity.
Qed.

(* [ai = true]: Publish may carry idempotency keys and the run contains no Clear; [ai = false]: Clear is allowed and no
   operation carries an idempotency key (a result cached before a Clear survives it on Redis only: finding
   map-clear-idempotency) *)
Theorem agree_core cf ops ai :
  cfg_ok cf = true -> keys_okb (chans ops) = true -> res_okb (idems ops) = true ->
  (Z.of_nat (List.length ops) <= mc_size cf)%Z ->
  run_ok cf ai mm_init ops = true ->
  rm_run map_shallow cf rinit ops = mem_map_run cf ops.
Proof.
  intros Hcf HK HP Hlen Hok. unfold mem_map_run.
  assert (Hai : ai = false -> idems ops = []) by (intros ->; eapply run_ok_no_idems; eassumption).
  apply (run_agree (idems ops) (chans ops) cf ai Hcf (keys_okb_sound _ HK) (res_okb_sound _ HP) Hai ops 0%N); [auto | auto | apply R_init | lia | assumption].
Qed.
