(* What the Redis model answers for the command forms the stream-broker scripts
   send, as conditional equations over [getk] (used for symbolic execution of
   the shallow scripts in the C18 simulation proofs). *)
From Coq Require Import List NArith ZArith Bool String Ascii Lia.
From Cfg Require Import Model.RStr Model.LuaNum Model.Redis Model.RedisScripts Proofs.C18Lib.
Import ListNotations.
Open Scope string_scope.

(* ---------- typed views ---------- *)
Lemma get_hash_some st k h x : getk st k = Some (mkKey (VHash h) x) -> get_hash st k = Some (Some h).
Proof. unfold get_hash. intros ->. reflexivity. Qed.
Lemma get_hash_none st k : getk st k = None -> get_hash st k = Some None.
Proof. unfold get_hash. intros ->. reflexivity. Qed.
Lemma get_stream_some st k es l x : getk st k = Some (mkKey (VStream es l) x) -> get_stream st k = Some (Some (es, l)).
Proof. unfold get_stream. intros ->. reflexivity. Qed.
Lemma get_stream_none st k : getk st k = None -> get_stream st k = Some None.
Proof. unfold get_stream. intros ->. reflexivity. Qed.
Lemma get_list_some st k l x : getk st k = Some (mkKey (VList l) x) -> get_list st k = Some (Some l).
Proof. unfold get_list. intros ->. reflexivity. Qed.
Lemma get_list_none st k : getk st k = None -> get_list st k = Some None.
Proof. unfold get_list. intros ->. reflexivity. Qed.

(* ---------- hashes ---------- *)
Lemma hget_some st k f h x :
  getk st k = Some (mkKey (VHash h) x) -> redis_call st ["hget"; k; f] = (st, bulk_opt (sfind f h)).
Proof. intros H. change (redis_call st ["hget"; k; f]) with (cmd_hget st [k; f]). unfold cmd_hget. rewrite (get_hash_some _ _ _ _ H). reflexivity. Qed.
Lemma hget_none st k f : getk st k = None -> redis_call st ["hget"; k; f] = (st, RNil).
Proof. intros H. change (redis_call st ["hget"; k; f]) with (cmd_hget st [k; f]). unfold cmd_hget. rewrite (get_hash_none _ _ H). reflexivity. Qed.

Definition new1 {A} (o : option A) : Z := match o with Some _ => 0%Z | None => 1%Z end.

Lemma hset1_some st k f v h x :
  getk st k = Some (mkKey (VHash h) x) ->
  redis_call st ["hset"; k; f; v] = (setval st k (VHash (sput f v h)), RInt (new1 (sfind f h))).
Proof.
  intros H. change (redis_call st ["hset"; k; f; v]) with (cmd_hset st [k; f; v]). unfold cmd_hset.
  rewrite (get_hash_some _ _ _ _ H). cbn. destruct (sfind f h); reflexivity.
Qed.
Lemma hset1_none st k f v :
  getk st k = None -> redis_call st ["hset"; k; f; v] = (setval st k (VHash [(f, v)]), RInt 1).
Proof.
  intros H. change (redis_call st ["hset"; k; f; v]) with (cmd_hset st [k; f; v]). unfold cmd_hset.
  rewrite (get_hash_none _ _ H). reflexivity.
Qed.
Lemma hset2_some st k f1 v1 f2 v2 h x :
  getk st k = Some (mkKey (VHash h) x) ->
  exists n, redis_call st ["hset"; k; f1; v1; f2; v2] = (setval st k (VHash (sput f2 v2 (sput f1 v1 h))), RInt n).
Proof.
  intros H. change (redis_call st ["hset"; k; f1; v1; f2; v2]) with (cmd_hset st [k; f1; v1; f2; v2]). unfold cmd_hset.
  rewrite (get_hash_some _ _ _ _ H). cbn. eexists. reflexivity.
Qed.
Lemma hset2_none st k f1 v1 f2 v2 :
  getk st k = None ->
  exists n, redis_call st ["hset"; k; f1; v1; f2; v2] = (setval st k (VHash (sput f2 v2 [(f1, v1)])), RInt n).
Proof.
  intros H. change (redis_call st ["hset"; k; f1; v1; f2; v2]) with (cmd_hset st [k; f1; v1; f2; v2]). unfold cmd_hset.
  rewrite (get_hash_none _ _ H). cbn. eexists. reflexivity.
Qed.

Lemma hmget2_some st k f1 f2 h x :
  getk st k = Some (mkKey (VHash h) x) ->
  redis_call st ["hmget"; k; f1; f2] = (st, RArr [bulk_opt (sfind f1 h); bulk_opt (sfind f2 h)]).
Proof. intros H. change (redis_call st ["hmget"; k; f1; f2]) with (cmd_hmget st [k; f1; f2]). unfold cmd_hmget. rewrite (get_hash_some _ _ _ _ H). reflexivity. Qed.
Lemma hmget2_none st k f1 f2 :
  getk st k = None -> redis_call st ["hmget"; k; f1; f2] = (st, RArr [RNil; RNil]).
Proof. intros H. change (redis_call st ["hmget"; k; f1; f2]) with (cmd_hmget st [k; f1; f2]). unfold cmd_hmget. rewrite (get_hash_none _ _ H). reflexivity. Qed.
Lemma hmget3_some st k f1 f2 f3 h x :
  getk st k = Some (mkKey (VHash h) x) ->
  redis_call st ["hmget"; k; f1; f2; f3] = (st, RArr [bulk_opt (sfind f1 h); bulk_opt (sfind f2 h); bulk_opt (sfind f3 h)]).
Proof. intros H. change (redis_call st ["hmget"; k; f1; f2; f3]) with (cmd_hmget st [k; f1; f2; f3]). unfold cmd_hmget. rewrite (get_hash_some _ _ _ _ H). reflexivity. Qed.

Lemma parse_ll_1 : parse_ll "1" = Some 1%Z. Proof. reflexivity. Qed.

Lemma hincrby1_absent st k f h x :
  getk st k = Some (mkKey (VHash h) x) -> sfind f h = None ->
  redis_call st ["hincrby"; k; f; "1"] = (setval st k (VHash (sput f "1" h)), RInt 1).
Proof.
  intros H Hf. change (redis_call st ["hincrby"; k; f; "1"]) with (cmd_hincrby st [k; f; "1"]). unfold cmd_hincrby.
  rewrite parse_ll_1, (get_hash_some _ _ _ _ H), Hf. reflexivity.
Qed.
Lemma hincrby1_present st k f h x n :
  getk st k = Some (mkKey (VHash h) x) -> sfind f h = Some (dec n) -> (n + 1 < 9223372036854775808)%N ->
  redis_call st ["hincrby"; k; f; "1"] = (setval st k (VHash (sput f (dec (n + 1)) h)), RInt (Z.of_N (n + 1))).
Proof.
  intros H Hf Hn. change (redis_call st ["hincrby"; k; f; "1"]) with (cmd_hincrby st [k; f; "1"]). unfold cmd_hincrby.
  rewrite parse_ll_1, (get_hash_some _ _ _ _ H), Hf, parse_ll_dec by lia.
  replace (Z.of_N n + 1)%Z with (Z.of_N (n + 1)) by lia.
  unfold int64_ok.
  replace (-9223372036854775808 <=? Z.of_N (n + 1))%Z with true by (symmetry; apply Z.leb_le; lia).
  replace (Z.of_N (n + 1) <=? 9223372036854775807)%Z with true by (symmetry; apply Z.leb_le; lia).
  cbn [andb]. rewrite zdec_of_N. reflexivity.
Qed.

(* ---------- generic ---------- *)
Lemma expire_some st k secs s rk :
  getk st k = Some rk -> parse_ll secs = Some s -> (0 < s)%Z ->
  redis_call st ["expire"; k; secs] = (putk st k (mkKey (k_val rk) (Some (now st + Z.to_N s * 1000)%N)), RInt 1).
Proof.
  intros H Hp Hs. change (redis_call st ["expire"; k; secs]) with (cmd_expire st [k; secs]). unfold cmd_expire.
  rewrite Hp, H. replace (s <=? 0)%Z with false by (symmetry; apply Z.leb_gt; lia). reflexivity.
Qed.
Lemma expire_none st k secs s :
  getk st k = None -> parse_ll secs = Some s -> redis_call st ["expire"; k; secs] = (st, RInt 0).
Proof.
  intros H Hp. change (redis_call st ["expire"; k; secs]) with (cmd_expire st [k; secs]). unfold cmd_expire.
  rewrite Hp, H. reflexivity.
Qed.

Lemma del1 st k : exists n, redis_call st ["del"; k] = (delk st k, RInt n).
Proof.
  change (redis_call st ["del"; k]) with (cmd_del st [k]). unfold cmd_del, del_keys.
  destruct (getk st k); eexists; reflexivity.
Qed.

Lemma publish_call st ch msg :
  redis_call st ["publish"; ch; msg] = (mkR (store st) (now st) (outbox st ++ [(ch, msg)]), RInt 0).
Proof. reflexivity. Qed.

Lemma getk_publish st ch msg k : getk (mkR (store st) (now st) (outbox st ++ [(ch, msg)])) k = getk st k.
Proof. reflexivity. Qed.

(* ---------- streams ---------- *)
Lemma dec_neq_lit n (s : string) :
  match s with String c _ => is_digit c = false | EmptyString => True end -> String.eqb (dec n) s = false.
Proof.
  intros H. apply String.eqb_neq. intros E.
  destruct (dec_first_digit n) as (c & r & Ed & Hc). rewrite Ed in E.
  destruct s as [|c' s']; [discriminate|]. injection E as -> _. congruence.
Qed.

Lemma is_prefix_dec_false n (p : string) :
  match p with String c _ => is_digit c = false | EmptyString => False end -> is_prefix p (dec n) = false.
Proof.
  intros H. destruct (dec_first_digit n) as (c & r & Ed & Hc). rewrite Ed.
  destruct p as [|c' p']; [destruct H|]. cbn.
  destruct (Ascii.eqb c' c) eqn:E; [|reflexivity]. apply Ascii.eqb_eq in E. subst. congruence.
Qed.

Lemma parse_u64_dec n : (n <= u64max)%N -> parse_u64 (dec n) = Some n.
Proof. intros H. unfold parse_u64. rewrite parse_dec_dec. apply N.leb_le in H. rewrite H. reflexivity. Qed.

Lemma parse_sid_dec n d : (n <= u64max)%N -> parse_sid (dec n) d = Some (n, d).
Proof.
  intros H. unfold parse_sid. rewrite sindex_char_none by (apply dec_no_char; reflexivity).
  rewrite parse_u64_dec by assumption. reflexivity.
Qed.

Lemma parse_bound_dec n d : (n <= u64max)%N -> parse_bound (dec n) d = Some (Some (n, d)).
Proof.
  intros H. unfold parse_bound.
  rewrite (dec_neq_lit n "-"), (dec_neq_lit n "+") by reflexivity.
  rewrite (is_prefix_dec_false n "(") by reflexivity.
  rewrite parse_sid_dec by assumption. reflexivity.
Qed.

Definition xadd_result (es : list sentry) (n : Z) (top : N) (msg : string) : rval :=
  VStream (trim_maxlen (es ++ [mkEntry (top, 0%N) ["d"; msg]]) n) (top, 0%N).

Lemma xadd_call st k n top msg :
  (n < 9223372036854775808)%N -> (0 < top <= u64max)%N ->
  redis_call st ["xadd"; k; "MAXLEN"; dec n; dec top; "d"; msg] =
    match get_stream st k with
    | None => (st, wrongtype)
    | Some os =>
        let '(es, last) := match os with Some x => x | None => ([], (0, 0)%N) end in
        if sid_le (top, 0%N) last
        then (st, RErr "ERR The ID specified in XADD is equal or smaller than the target stream top item")
        else (setval st k (xadd_result es (Z.of_N n) top msg), RBulk (sid_str (top, 0%N)))
    end.
Proof.
  intros Hn Ht.
  change (redis_call st ["xadd"; k; "MAXLEN"; dec n; dec top; "d"; msg]) with (cmd_xadd st [k; "MAXLEN"; dec n; dec top; "d"; msg]).
  unfold cmd_xadd.
  change (String.eqb (lower "MAXLEN") "maxlen") with true. cbn iota.
  rewrite (dec_neq_lit n "="), (dec_neq_lit n "~") by reflexivity. cbn [orb].
  rewrite parse_ll_dec by assumption.
  replace (Z.of_N n <? 0)%Z with false by (symmetry; apply Z.ltb_ge; lia).
  cbn [List.length Nat.eqb Nat.odd Nat.even orb negb].
  rewrite (dec_neq_lit top "*") by reflexivity.
  rewrite (dec_no_char "*"%char top) by reflexivity.
  rewrite parse_sid_dec by lia.
  destruct (get_stream st k) as [[[es' last']|]|]; [| |reflexivity].
  - cbn [fst snd]. replace ((top =? 0)%N) with false by (symmetry; apply N.eqb_neq; lia). cbn [andb].
    destruct (sid_le (top, 0%N) last'); reflexivity.
  - cbn [fst snd]. replace ((top =? 0)%N) with false by (symmetry; apply N.eqb_neq; lia). cbn [andb].
    destruct (sid_le (top, 0%N) (0, 0)%N); reflexivity.
Qed.

Definition xrange_sel (rev_ : bool) (lo hi : sid) (cnt : option Z) (es : list sentry) : list sentry :=
  let sel := filter (fun e => sid_le lo (e_id e) && sid_le (e_id e) hi) es in
  limit_list cnt (if rev_ then rev sel else sel).

Lemma xrange_gen (rev_ : bool) st k (a b : string) rest lo hi cnt :
  parse_bound (if rev_ then b else a) 0 = Some (Some lo) ->
  parse_bound (if rev_ then a else b) u64max = Some (Some hi) ->
  parse_count rest = Some (Some cnt) ->
  cmd_xrange_gen rev_ st (k :: a :: b :: rest) =
    match get_stream st k with
    | None => (st, wrongtype)
    | Some None => (st, RArr [])
    | Some (Some (es, _)) => (st, RArr (map entry_reply (xrange_sel rev_ lo hi cnt es)))
    end.
Proof.
  intros Hlo Hhi Hc. unfold cmd_xrange_gen.
  destruct rev_; rewrite Hlo, Hhi, Hc; destruct (get_stream st k) as [[[es l]|]|]; reflexivity.
Qed.

Lemma xrange_call st k a b rest : redis_call st ("xrange" :: k :: a :: b :: rest) = cmd_xrange_gen false st (k :: a :: b :: rest).
Proof. reflexivity. Qed.
Lemma xrevrange_call st k a b rest : redis_call st ("xrevrange" :: k :: a :: b :: rest) = cmd_xrange_gen true st (k :: a :: b :: rest).
Proof. reflexivity. Qed.

Lemma parse_bound_plus d : parse_bound "+" d = Some (Some (u64max, u64max)). Proof. reflexivity. Qed.
Lemma parse_bound_minus d : parse_bound "-" d = Some (Some (0, 0)%N). Proof. reflexivity. Qed.
Lemma parse_count_nil : parse_count [] = Some (Some None). Proof. reflexivity. Qed.
Lemma parse_count_dec n : (n < 9223372036854775808)%N -> parse_count ["COUNT"; dec n] = Some (Some (Some (Z.of_N n))).
Proof. intros H. unfold parse_count. change (String.eqb (lower "COUNT") "count") with true. cbn iota. rewrite parse_ll_dec by assumption. reflexivity. Qed.

(* ---------- the script monad ---------- *)
Lemma bind_rc {B} args (f : reply -> M B) st :
  bindM (rc args) f st =
    let '(st', r) := redis_call st args in
    match r with RErr m => (st', inr (RErr m)) | _ => f r st' end.
Proof. unfold bindM, rc. destruct (redis_call st args) as [st' r]. destruct r; reflexivity. Qed.

Lemma bind_ret {A B} (a : A) (f : A -> M B) st : bindM (ret a) f st = f a st.
Proof. reflexivity. Qed.
Lemma bind_finish {A B} r (f : A -> M B) st : bindM (finish r) f st = (st, inr r).
Proof. reflexivity. Qed.
Lemma bind_assoc {A B C} (m : M A) (f : A -> M B) (g : B -> M C) st :
  bindM (bindM m f) g st = bindM m (fun a => bindM (f a) g) st.
Proof. unfold bindM. destruct (m st) as [st' [a|r]]; reflexivity. Qed.

(* ---------- lists ---------- *)
Lemma lpush1_call st k v :
  redis_call st ["lpush"; k; v] =
    match get_list st k with
    | None => (st, wrongtype)
    | Some ol => let l := v :: match ol with Some l => l | None => [] end in
                 (setval st k (VList l), RInt (Z.of_nat (List.length l)))
    end.
Proof. reflexivity. Qed.

Lemma lindex0_call st k :
  redis_call st ["lindex"; k; "0"] =
    match get_list st k with
    | None => (st, wrongtype)
    | Some None => (st, RNil)
    | Some (Some l) => (st, bulk_opt (nth_error l 0))
    end.
Proof.
  change (redis_call st ["lindex"; k; "0"]) with (cmd_lindex st [k; "0"]). unfold cmd_lindex.
  change (parse_ll "0") with (Some 0%Z). destruct (get_list st k) as [[l|]|]; reflexivity.
Qed.

Lemma firstn_slice0 {A} (l : list A) c : slice l 0 c = firstn (Z.to_nat c) l.
Proof. reflexivity. Qed.

Lemma ltrim_keep st k l x n :
  getk st k = Some (mkKey (VList l) x) -> l <> [] -> (n < 9223372036854775808)%N ->
  redis_call st ["ltrim"; k; "0"; dec n] = (setval st k (VList (firstn (S (N.to_nat n)) l)), RStatus "OK").
Proof.
  intros Hk Hne Hn. change (redis_call st ["ltrim"; k; "0"; dec n]) with (cmd_ltrim st [k; "0"; dec n]).
  unfold cmd_ltrim. change (parse_ll "0") with (Some 0%Z). rewrite parse_ll_dec by assumption.
  rewrite (get_list_some _ _ _ _ Hk). unfold norm_range. cbn [Z.ltb Z.compare].
  assert (Hlen : (0 < Z.of_nat (List.length l))%Z) by (destruct l; [congruence|cbn [List.length]; lia]).
  replace (Z.of_N n <? 0)%Z with false by (symmetry; apply Z.ltb_ge; lia).
  replace (Z.of_N n <? 0)%Z with false by (symmetry; apply Z.ltb_ge; lia).
  replace (Z.of_nat (List.length l) <=? 0)%Z with false by (symmetry; apply Z.leb_gt; lia).
  rewrite orb_false_r. cbn [orb].
  destruct (Z.of_nat (List.length l) <=? Z.of_N n)%Z eqn:E.
  - apply Z.leb_le in E. rewrite firstn_slice0.
    replace (Z.to_nat (Z.of_nat (List.length l) - 1 - 0 + 1)) with (List.length l) by lia.
    rewrite firstn_all. rewrite firstn_all2 by lia.
    destruct l; [congruence|reflexivity].
  - apply Z.leb_gt in E. rewrite firstn_slice0.
    replace (Z.to_nat (Z.of_N n - 0 + 1)) with (S (N.to_nat n)) by lia.
    destruct l as [|a l]; [congruence|]. reflexivity.
Qed.

Lemma lrange_all st k l x :
  getk st k = Some (mkKey (VList l) x) -> redis_call st ["lrange"; k; "0"; "-1"] = (st, RArr (map RBulk l)).
Proof.
  intros Hk. change (redis_call st ["lrange"; k; "0"; "-1"]) with (cmd_lrange st [k; "0"; "-1"]).
  unfold cmd_lrange. change (parse_ll "0") with (Some 0%Z). change (parse_ll "-1") with (Some (-1)%Z).
  rewrite (get_list_some _ _ _ _ Hk). unfold norm_range. cbn [Z.ltb Z.compare].
  destruct l as [|a l]; [reflexivity|].
  replace (Z.of_nat (List.length (a :: l)) + -1 <? 0)%Z with false by (symmetry; apply Z.ltb_ge; cbn [List.length]; lia).
  replace (Z.of_nat (List.length (a :: l)) <=? 0)%Z with false by (symmetry; apply Z.leb_gt; cbn [List.length]; lia).
  cbn [orb]. replace (Z.of_nat (List.length (a :: l)) <=? Z.of_nat (List.length (a :: l)) + -1)%Z with false
    by (symmetry; apply Z.leb_gt; lia).
  rewrite firstn_slice0. replace (Z.to_nat (Z.of_nat (List.length (a :: l)) + -1 - 0 + 1)) with (List.length (a :: l)) by lia.
  rewrite firstn_all. reflexivity.
Qed.

Lemma lrange_none st k : getk st k = None -> redis_call st ["lrange"; k; "0"; "-1"] = (st, RArr []).
Proof.
  intros Hk. change (redis_call st ["lrange"; k; "0"; "-1"]) with (cmd_lrange st [k; "0"; "-1"]).
  unfold cmd_lrange. change (parse_ll "0") with (Some 0%Z). change (parse_ll "-1") with (Some (-1)%Z).
  rewrite (get_list_none _ _ Hk). reflexivity.
Qed.
