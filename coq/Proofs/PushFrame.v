(* Proofs for C33 over Model/PushFrame.v:
   - [extract true] (the parser after fixes/C33-parse-bounds.patch) never panics;
   - the parser before the fix does (three witnesses);
   - every builder round-trips through the parser. *)
From Coq Require Import List NArith ZArith Bool Lia ZifyBool.
From Cfg Require Import Model.Decimal Model.PushFrame Gen.C33Lua Proofs.Decimal.
Import ListNotations.
Open Scope N_scope.

(* ---------- slicing ---------- *)

Lemma sl_from_spec : forall s n,
  match sl_from s n with
  | None => (n < 0 \/ zlen s < n)%Z
  | Some t => (0 <= n <= zlen s)%Z /\ t = skipn (Z.to_nat n) s /\ zlen t = (zlen s - n)%Z
  end.
Proof.
  intros s n. unfold sl_from, zlen.
  destruct ((n <? 0)%Z || (Z.of_nat (length s) <? n)%Z) eqn:E.
  - lia.
  - split; [lia|]. split; [reflexivity|]. rewrite skipn_length. lia.
Qed.

Lemma sl_to_spec : forall s n,
  match sl_to s n with
  | None => (n < 0 \/ zlen s < n)%Z
  | Some t => (0 <= n <= zlen s)%Z /\ t = firstn (Z.to_nat n) s /\ zlen t = n
  end.
Proof.
  intros s n. unfold sl_to, zlen.
  destruct ((n <? 0)%Z || (Z.of_nat (length s) <? n)%Z) eqn:E.
  - lia.
  - split; [lia|]. split; [reflexivity|]. rewrite firstn_length. lia.
Qed.

Lemma firstn_app_exact : forall (p t : bytes), firstn (length p) (p ++ t) = p.
Proof. induction p; intros; cbn; [reflexivity | now rewrite IHp]. Qed.
Lemma skipn_app_exact : forall (p t : bytes), skipn (length p) (p ++ t) = t.
Proof. induction p; intros; cbn; [reflexivity | now rewrite IHp]. Qed.

Lemma sl_to_app : forall a b, sl_to (a ++ b) (zlen a) = Some a.
Proof.
  intros a b. unfold sl_to, zlen. rewrite app_length.
  replace ((Z.of_nat (length a) <? 0)%Z || (Z.of_nat (length a + length b) <? Z.of_nat (length a))%Z)
    with false by lia.
  rewrite Nat2Z.id. now rewrite firstn_app_exact.
Qed.

Lemma sl_from_app : forall a b, sl_from (a ++ b) (zlen a) = Some b.
Proof.
  intros a b. unfold sl_from, zlen. rewrite app_length.
  replace ((Z.of_nat (length a) <? 0)%Z || (Z.of_nat (length a + length b) <? Z.of_nat (length a))%Z)
    with false by lia.
  rewrite Nat2Z.id. now rewrite skipn_app_exact.
Qed.

Lemma sl_from_app1 : forall a c b, sl_from (a ++ c :: b) (zlen a + 1) = Some b.
Proof.
  intros a c b. replace (a ++ c :: b) with ((a ++ [c]) ++ b) by now rewrite <- app_assoc.
  replace (zlen a + 1)%Z with (zlen (a ++ [c])); [apply sl_from_app|].
  unfold zlen. rewrite app_length. cbn [length]. lia.
Qed.

(* ---------- searching ---------- *)

Definition free_of (c : N) (s : bytes) : bool := forallb (fun x => negb (x =? c)) s.

Lemma index_byte_bound : forall c s k, index_byte c s = Some k -> (k < length s)%nat.
Proof.
  intros c. induction s as [|x s IH]; intros k H; cbn [index_byte] in H; [discriminate|].
  destruct (x =? c).
  - inversion H; subst. cbn. lia.
  - destruct (index_byte c s) as [j|]; [|discriminate]. inversion H; subst.
    cbn [length]. specialize (IH j eq_refl). lia.
Qed.

Lemma index_byte_app : forall c a b,
  free_of c a = true -> index_byte c (a ++ c :: b) = Some (length a).
Proof.
  intros c. induction a as [|x a IH]; intros b H; cbn [app index_byte length].
  - now rewrite N.eqb_refl.
  - cbn [free_of forallb] in H. apply andb_true_iff in H. destruct H as [H1 H2].
    apply negb_true_iff in H1. rewrite H1. rewrite (IH b H2). reflexivity.
Qed.

Lemma index_sep_bound : forall s n, index_sep s = Some n -> (n + 2 <= length s)%nat.
Proof.
  induction s as [|x s IH]; intros n H; cbn [index_sep] in H; [discriminate|].
  destruct ((x =? 95) && match s with y :: _ => y =? 95 | [] => false end) eqn:E.
  - inversion H; subst. destruct s; [rewrite andb_false_r in E; discriminate|]. cbn. lia.
  - destruct (index_sep s) as [j|]; [|discriminate]. inversion H; subst.
    cbn [length]. specialize (IH j eq_refl). lia.
Qed.

(* a header after which the first "__" of [h ++ "__" ++ rest] is the appended one:
   no '_' in [h] is followed by another '_' or by the end of [h] *)
Fixpoint hdr_ok (h : bytes) : bool :=
  match h with
  | [] => true
  | c :: t => if c =? 95
              then match t with [] => false | d :: _ => negb (d =? 95) && hdr_ok t end
              else hdr_ok t
  end.

Lemma index_sep_hdr : forall h r, hdr_ok h = true ->
  index_sep (h ++ 95 :: 95 :: r) = Some (length h).
Proof.
  induction h as [|c t IH]; intros r H.
  - reflexivity.
  - cbn [hdr_ok] in H. cbn [app index_sep length].
    destruct (c =? 95) eqn:E.
    + destruct t as [|d t']; [discriminate|].
      apply andb_true_iff in H. destruct H as [H1 H2]. apply negb_true_iff in H1.
      cbn [app]. rewrite H1. cbn [andb]. change (d :: t' ++ 95 :: 95 :: r) with ((d :: t') ++ 95 :: 95 :: r).
      rewrite (IH r H2). reflexivity.
    + cbn [andb]. rewrite (IH r H). reflexivity.
Qed.

Lemma hdr_ok_app_free : forall a b, free_of 95 a = true -> hdr_ok (a ++ b) = hdr_ok b.
Proof.
  induction a as [|c a IH]; intros b H; [reflexivity|].
  cbn [free_of forallb] in H. apply andb_true_iff in H. destruct H as [H1 H2].
  apply negb_true_iff in H1. cbn [app hdr_ok]. rewrite H1. now apply IH.
Qed.

(* the converse: a bad header moves the first "__" to the left *)
Lemma index_sep_hdr_bad : forall h r, hdr_ok h = false ->
  exists n, index_sep (h ++ 95 :: 95 :: r) = Some n /\ (n < length h)%nat.
Proof.
  induction h as [|c t IH]; intros r H; [discriminate|].
  cbn [hdr_ok] in H. cbn [app index_sep length].
  destruct (c =? 95) eqn:E.
  - destruct t as [|d t'].
    + cbn [app]. exists O. split; [reflexivity|lia].
    + cbn [app]. destruct (d =? 95) eqn:D.
      * exists O. split; [reflexivity|lia].
      * cbn [negb andb] in H. cbn [andb].
        destruct (IH r H) as (n & Hn & Hl). cbn [app] in Hn. rewrite Hn.
        exists (S n). split; [reflexivity|]. cbn [length] in *. lia.
  - cbn [andb]. destruct (IH r H) as (n & Hn & Hl). rewrite Hn.
    exists (S n). split; [reflexivity|]. lia.
Qed.

(* ---------- decimal rendering ---------- *)

Lemma all_digits_free : forall c s, is_digit c = false -> all_digits s = true -> free_of c s = true.
Proof.
  intros c. unfold free_of. induction s as [|x s IH]; intros Hc H; [reflexivity|].
  cbn [all_digits forallb] in H. apply andb_true_iff in H. destruct H as [H1 H2].
  cbn [forallb]. rewrite (IH Hc H2), andb_true_r.
  apply negb_true_iff. apply N.eqb_neq. intros ->. congruence.
Qed.

Lemma dec_fuel_spec : forall fuel n acc,
  n < 10 ^ N.of_nat fuel -> (fuel > 0)%nat -> all_digits acc = true ->
  all_digits (dec_fuel fuel n acc) = true /\
  dec_fuel fuel n acc <> [] /\
  digits_val (dec_fuel fuel n acc) = n * pow10 (length acc) + digits_val acc.
Proof.
  induction fuel as [|k IH]; intros n acc Hn Hf Hacc; [lia|].
  cbn [dec_fuel].
  assert (Hd : is_digit (48 + n mod 10) = true).
  { unfold is_digit. pose proof (N.mod_lt n 10 ltac:(discriminate)) as Hm.
    generalize dependent (n mod 10). intros m Hm.
    apply andb_true_iff. split; apply N.leb_le; lia. }
  assert (Hacc' : all_digits ((48 + n mod 10) :: acc) = true).
  { cbn [all_digits forallb]. now rewrite Hd. }
  assert (Hval : digits_val ((48 + n mod 10) :: acc) = (n mod 10) * pow10 (length acc) + digits_val acc).
  { change ((48 + n mod 10) :: acc) with ([48 + n mod 10] ++ acc).
    rewrite digits_val_app. unfold digits_val at 1. cbn [digits_acc]. f_equal. f_equal.
    generalize (n mod 10). intros m. lia. }
  destruct (n <? 10) eqn:E.
  - split; [exact Hacc'|]. split; [discriminate|].
    rewrite Hval. rewrite N.mod_small by lia. reflexivity.
  - assert (Hk : (k > 0)%nat).
    { destruct k; [|lia]. cbn in Hn. lia. }
    assert (Hn' : n / 10 < 10 ^ N.of_nat k).
    { apply N.div_lt_upper_bound; [lia|].
      rewrite Nat2N.inj_succ, N.pow_succ_r in Hn by lia. lia. }
    destruct (IH (n / 10) _ Hn' Hk Hacc') as (A & B & C).
    split; [exact A|]. split; [exact B|].
    rewrite C, Hval. cbn [length]. unfold pow10.
    rewrite Nat2N.inj_succ, N.pow_succ_r by lia.
    pose proof (N.div_mod n 10 ltac:(discriminate)) as DM.
    set (P := 10 ^ N.of_nat (length acc)). set (D := digits_val acc).
    set (q := n / 10) in *. set (m := n mod 10) in *.
    rewrite DM. ring.
Qed.

Lemma dec_spec : forall n, n < 10 ^ 40 ->
  all_digits (dec n) = true /\ dec n <> [] /\ digits_val (dec n) = n.
Proof.
  intros n Hn. unfold dec.
  destruct (dec_fuel_spec 40 n [] Hn ltac:(lia) eq_refl) as (A & B & C).
  split; [exact A|]. split; [exact B|]. rewrite C. cbn [length]. unfold pow10, digits_val. cbn. lia.
Qed.

Lemma digits_acc_ge : forall s x, x <= digits_acc s x.
Proof.
  intros s x. rewrite digits_acc_lin. pose proof (pow10_pos (length s)). nia.
Qed.

Lemma parse_uint_loop_digits : forall s n,
  all_digits s = true -> digits_acc s n < U64 ->
  parse_uint_loop s n = (digits_acc s n, true).
Proof.
  induction s as [|c s IH]; intros n Hd Hv; cbn [parse_uint_loop digits_acc] in *; [reflexivity|].
  cbn [all_digits forallb] in Hd. apply andb_true_iff in Hd. destruct Hd as [Hc Hs].
  rewrite Hc. pose proof (digits_acc_ge s (n * 10 + (c - 48))) as G.
  replace (U64 <=? n * 10 + (c - 48)) with false by lia.
  now apply IH.
Qed.

Lemma parse_uint_dec : forall n, n < U64 -> parse_uint (dec n) = (n, true).
Proof.
  intros n Hn. assert (H40 : n < 10 ^ 40) by (unfold U64 in Hn; lia).
  destruct (dec_spec n H40) as (A & B & C).
  unfold parse_uint. destruct (dec n) as [|c t] eqn:E; [congruence|].
  rewrite parse_uint_loop_digits; fold (digits_val (c :: t)); rewrite ?C; auto.
Qed.

Lemma atoi_dec : forall n, (Z.of_N n < 2 ^ 63)%Z -> atoi (dec n) = Some (Z.of_N n).
Proof.
  intros n Hn. assert (H40 : n < 10 ^ 40) by lia.
  destruct (dec_spec n H40) as (A & B & C).
  unfold atoi. destruct (dec n) as [|c t] eqn:E; [congruence|].
  assert (Hc : is_digit c = true) by (eapply all_digits_head; eauto).
  destruct (is_digit_not_sign _ Hc) as [H45 H43]. rewrite H43, H45.
  rewrite A, C. replace (Z.of_N n <? 2 ^ 63)%Z with true by lia. reflexivity.
Qed.

Lemma dec_free : forall c n, n < 10 ^ 40 -> is_digit c = false -> free_of c (dec n) = true.
Proof. intros c n Hn Hc. apply all_digits_free; [exact Hc|]. now destruct (dec_spec n Hn). Qed.

Lemma has_pfx_app : forall p t, has_pfx (p ++ t) p = true.
Proof.
  induction p as [|x p IH]; intros t; [now destruct t|].
  cbn [app has_pfx]. now rewrite N.eqb_refl, IH.
Qed.

(* ---------- totality of the fixed parser ---------- *)

Lemma has_pfx_len : forall p s, has_pfx s p = true -> (length p <= length s)%nat.
Proof.
  induction p as [|x p IH]; intros s H; [cbn; lia|].
  destruct s as [|y s]; cbn [has_pfx] in H; [discriminate|].
  apply andb_true_iff in H. destruct H as [_ H]. apply IH in H. cbn [length]. lia.
Qed.

Tactic Notation "slice_step" "as" ident(x) :=
  match goal with
  | |- (match sl_from ?s ?n with _ => _ end) <> _ =>
      let H := fresh "Hs" in
      pose proof (sl_from_spec s n) as H; destruct (sl_from s n) as [x|]
  | |- (match sl_to ?s ?n with _ => _ end) <> _ =>
      let H := fresh "Hs" in
      pose proof (sl_to_spec s n) as H; destruct (sl_to s n) as [x|]
  end.

Ltac zl := unfold zlen in *; lia.

Lemma parse_delta_total : forall input, parse_delta true input <> DPanic.
Proof.
  intros input0. unfold parse_delta.
  destruct (has_pfx input0 d1_prefix) eqn:Hp; cbn [negb]; [|discriminate].
  assert (L0 : (3 <= zlen input0)%Z).
  { apply has_pfx_len in Hp. unfold zlen. cbn [d1_prefix length] in Hp. lia. }
  slice_step as in1; [|lia].
  destruct (index_byte 58 in1) as [i1|] eqn:I1; [|discriminate].
  apply index_byte_bound in I1.
  slice_step as offs; [|zl].
  destruct (parse_uint offs) as [off [|]]; cbv beta iota; [|discriminate].
  slice_step as in2; [|zl].
  destruct (index_byte 58 in2) as [i2|] eqn:I2; [|discriminate].
  apply index_byte_bound in I2.
  slice_step as epoch; [|zl].
  slice_step as in3; [|zl].
  destruct (index_byte 58 in3) as [i3|] eqn:I3; [|discriminate].
  apply index_byte_bound in I3.
  slice_step as pls; [|zl].
  destruct (atoi pls) as [plen|]; [|discriminate].
  slice_step as in4; [|zl].
  destruct ((plen <? 0)%Z || (zlen in4 <=? plen)%Z) eqn:G1; [discriminate|].
  slice_step as prev; [|zl].
  slice_step as in5; [|zl].
  destruct (index_byte 58 in5) as [i4|] eqn:I4; [|discriminate].
  apply index_byte_bound in I4.
  slice_step as ls; [|zl].
  destruct (atoi ls) as [len|]; [|discriminate].
  slice_step as in6; [|zl].
  destruct ((len <? 0)%Z || (zlen in6 <? len)%Z) eqn:G2; [discriminate|].
  slice_step as payload; [discriminate|zl].
Qed.

Lemma p_header_total : forall header rest, p_header true header rest <> Panic.
Proof.
  intros header rest. unfold p_header, fail_with. cbn [andb].
  destruct (length header <? 3)%nat eqn:L3; [discriminate|].
  apply Nat.ltb_ge in L3.
  slice_step as sh; [|zl].
  destruct (index_byte 58 sh) as [[|k]|] eqn:K; try discriminate.
  apply index_byte_bound in K.
  slice_step as offs; [|zl].
  slice_step as epoch; [|zl].
  destruct (parse_uint offs); cbv beta iota. discriminate.
Qed.

Theorem extract_total : forall data, extract true data <> Panic.
Proof.
  intros data. unfold extract, fail_with.
  destruct (has_pfx data meta_sep) eqn:Hp; cbn [negb]; [|discriminate].
  assert (L0 : (2 <= zlen data)%Z).
  { apply has_pfx_len in Hp. unfold zlen. cbn [meta_sep length] in Hp. lia. }
  slice_step as content0; [|lia].
  destruct content0 as [|ct content']; [discriminate|].
  set (content := ct :: content') in *.
  destruct ((ct =? 106) || (ct =? 108)).
  { destruct (index_sep content) as [[|n]|] eqn:I; try discriminate.
    apply index_sep_bound in I.
    slice_step as rest; [discriminate|zl]. }
  destruct (ct =? 112).
  { destruct (index_sep content) as [[|n]|] eqn:I; try discriminate.
    apply index_sep_bound in I.
    slice_step as header; [|zl].
    slice_step as rest; [|zl].
    apply p_header_total. }
  destruct (ct =? 100); [|discriminate].
  pose proof (parse_delta_total content).
  destruct (parse_delta true content); congruence.
Qed.

(* ---------- the parser before the fix panics ---------- *)

Lemma extract_unfixed_panics :
  extract false [95;95;112;95;95;120] = Panic /\                                   (* "__p__x" *)
  extract false [95;95;100;49;58;49;58;101;58;51;58;97;98;99] = Panic /\           (* "__d1:1:e:3:abc" *)
  extract false [95;95;100;49;58;49;58;101;58;45;49;58;97;98;99;58;49;58;120] = Panic.   (* "__d1:1:e:-1:abc:1:x" *)
Proof. vm_compute. auto. Qed.

(* ---------- round trips ---------- *)

Definition colon_free (s : bytes) : bool := free_of 58 s.

(* what the Lua templates evaluate to *)
Definition frame_p (off : N) (epoch payload : bytes) : bytes :=
  95 :: 95 :: 112 :: 49 :: 58 :: (dec off ++ 58 :: (epoch ++ 95 :: 95 :: payload)).

Definition frame_d (off : N) (epoch prev payload : bytes) : bytes :=
  95 :: 95 :: 100 :: 49 :: 58 ::
    (dec off ++ 58 :: (epoch ++ 58 ::
      (dec (N.of_nat (length prev)) ++ 58 :: (prev ++ 58 ::
        (dec (N.of_nat (length payload)) ++ 58 :: payload))))).

Lemma size_le_53 : forall n, n < 2 ^ 53 -> (N.size n <=? 53) = true.
Proof.
  intros n H. apply N.leb_le. destruct (N.le_gt_cases (N.size n) 53) as [L|G]; [exact L|exfalso].
  assert (L54 : 54 <= N.size n) by lia.
  pose proof (N.pow_le_mono_r 2 54 (N.size n) ltac:(discriminate) L54) as P.
  pose proof (N.size_le n) as S. rewrite N.succ_double_spec in S.
  change (2 ^ 54) with 18014398509481984 in P. change (2 ^ 53) with 9007199254740992 in H. lia.
Qed.

Lemma round53_small : forall n, n < 2 ^ 53 -> round53 n = n.
Proof. intros n H. unfold round53. now rewrite (size_le_53 n H). Qed.

Lemma round53_large : forall n, LUA_PLAIN <= n -> LUA_PLAIN <= round53 n.
Proof.
  intros n H. unfold round53.
  destruct (N.size n <=? 53) eqn:E; [exact H|].
  apply N.leb_gt in E.
  set (sh := N.size n - 53). assert (Hb : N.size n = sh + 53) by (unfold sh; lia).
  assert (Hsh : 1 <= sh) by lia.
  rewrite N.shiftr_div_pow2, !N.shiftl_mul_pow2.
  set (P := 2 ^ sh).
  assert (HP : 2 <= P).
  { unfold P. change 2 with (2 ^ 1) at 1. apply N.pow_le_mono_r; [discriminate|exact Hsh]. }
  pose proof (N.size_le n) as S. rewrite N.succ_double_spec, Hb, N.pow_add_r in S. fold P in S.
  change (2 ^ 53) with 9007199254740992 in S.
  assert (Hq : 4503599627370496 <= n / P).
  { apply N.div_le_lower_bound; lia. }
  set (q := n / P) in *.
  assert (Hq' : q <= (if 1 * 2 ^ (sh - 1) <? n - q * P then q + 1
                      else if (n - q * P =? 1 * 2 ^ (sh - 1)) && N.odd q then q + 1 else q)).
  { destruct (_ <? _); [lia|]. destruct (_ && _); lia. }
  set (q' := if 1 * 2 ^ (sh - 1) <? n - q * P then q + 1
             else if (n - q * P =? 1 * 2 ^ (sh - 1)) && N.odd q then q + 1 else q) in *.
  unfold LUA_PLAIN. change (10 ^ 14) with 100000000000000. nia.
Qed.

Lemma lua_num_small : forall n, n < LUA_PLAIN -> lua_num n = Some (dec n).
Proof.
  intros n H. unfold lua_num, lua_fmt.
  assert (H53 : n < 2 ^ 53).
  { unfold LUA_PLAIN in H. change (10 ^ 14) with 100000000000000 in H.
    change (2 ^ 53) with 9007199254740992. lia. }
  rewrite (round53_small n H53). now replace (n <? LUA_PLAIN) with true by lia.
Qed.

Lemma eval_plain : forall tpl off epoch prev payload,
  tpl = lua_stream_plain \/ tpl = lua_list_plain ->
  off < LUA_PLAIN ->
  eval_tpl (mkEnv off epoch prev payload) tpl = Some (frame_p off epoch payload).
Proof.
  intros tpl off epoch prev payload [-> | ->] Ho;
    cbn [eval_tpl lua_stream_plain lua_list_plain eval_tok e_off e_epoch e_payload];
    rewrite (lua_num_small off Ho); cbn [app]; unfold frame_p;
    rewrite ?app_nil_r, <- ?app_assoc; reflexivity.
Qed.

Lemma eval_delta : forall tpl off epoch prev payload,
  tpl = lua_stream_delta \/ tpl = lua_list_delta ->
  off < LUA_PLAIN -> N.of_nat (length prev) < LUA_PLAIN -> N.of_nat (length payload) < LUA_PLAIN ->
  eval_tpl (mkEnv off epoch prev payload) tpl = Some (frame_d off epoch prev payload).
Proof.
  intros tpl off epoch prev payload [-> | ->] Ho Hp Hl;
    cbn [eval_tpl lua_stream_delta lua_list_delta eval_tok e_off e_epoch e_payload e_prev];
    rewrite (lua_num_small off Ho), (lua_num_small _ Hp), (lua_num_small _ Hl); cbn [app]; unfold frame_d;
    rewrite ?app_nil_r, <- ?app_assoc; cbn [app]; reflexivity.
Qed.

Lemma zlen_nat : forall s, zlen s = Z.of_nat (length s).
Proof. reflexivity. Qed.

Lemma p_header_frame : forall fixed off epoch rest,
  off < U64 ->
  p_header fixed (112 :: 49 :: 58 :: (dec off ++ 58 :: epoch)) rest =
  Ret (mkPush rest PPub off epoch false [] true).
Proof.
  intros fixed off epoch rest Ho.
  assert (H40 : off < 10 ^ 40) by (unfold U64 in Ho; lia).
  destruct (dec_spec off H40) as (DA & DB & DC).
  pose proof (dec_free 58 off H40 eq_refl) as F58.
  unfold p_header.
  remember (dec off ++ 58 :: epoch) as sh eqn:Hsh.
  replace (length ((112 :: 49 :: 58 :: sh)%N) <? 3)%nat with false by reflexivity.
  rewrite andb_false_r.
  assert (E1 : sl_from (112 :: 49 :: 58 :: sh) 3 = Some sh) by exact (sl_from_app [112; 49; 58] sh).
  rewrite E1.
  assert (E2 : index_byte 58 sh = Some (length (dec off))).
  { subst sh. now apply index_byte_app. }
  rewrite E2.
  destruct (length (dec off)) as [|k] eqn:EL.
  { destruct (dec off); [congruence|discriminate]. }
  assert (E3 : sl_to sh (Z.of_nat (S k)) = Some (dec off)).
  { subst sh. rewrite <- EL. apply sl_to_app. }
  assert (E4 : sl_from sh (Z.of_nat (S k) + 1) = Some epoch).
  { subst sh. rewrite <- EL. apply sl_from_app1. }
  rewrite E3, E4, (parse_uint_dec off Ho). reflexivity.
Qed.

(* the 'p' branch of extract on a frame whose header is well separated *)
Lemma extract_p_frame : forall fixed h payload,
  hdr_ok (112 :: h) = true ->
  extract fixed (95 :: 95 :: 112 :: (h ++ 95 :: 95 :: payload)) =
  p_header fixed (112 :: h) payload.
Proof.
  intros fixed h payload Hh.
  remember (112 :: (h ++ 95 :: 95 :: payload)) as content eqn:Hc.
  unfold extract.
  replace (has_pfx (95 :: 95 :: content) meta_sep) with true
    by (symmetry; exact (has_pfx_app [95; 95] content)).
  cbn [negb].
  assert (E1 : sl_from (95 :: 95 :: content) 2 = Some content) by exact (sl_from_app [95; 95] content).
  rewrite E1.
  assert (E2 : index_sep content = Some (S (length h))).
  { subst content. exact (index_sep_hdr (112 :: h) payload Hh). }
  assert (E3 : sl_to content (Z.of_nat (S (length h))) = Some (112 :: h)).
  { subst content. exact (sl_to_app (112 :: h) (95 :: 95 :: payload)). }
  assert (E4 : sl_from (95 :: 95 :: content) (2 + Z.of_nat (S (length h)) + 2) = Some payload).
  { subst content.
    replace (2 + Z.of_nat (S (length h)) + 2)%Z with (zlen ((95 :: 95 :: 112 :: h) ++ [95; 95])).
    2:{ unfold zlen. rewrite app_length. cbn [length]. lia. }
    replace (95 :: 95 :: 112 :: h ++ 95 :: 95 :: payload)
      with (((95 :: 95 :: 112 :: h) ++ [95; 95]) ++ payload).
    2:{ rewrite <- app_assoc. reflexivity. }
    apply sl_from_app. }
  rewrite Hc at 1. cbv beta iota.
  replace ((112 =? 106) || (112 =? 108)) with false by reflexivity.
  replace (112 =? 112) with true by reflexivity.
  rewrite E2, E3, E4. reflexivity.
Qed.

Lemma frame_p_shape : forall off epoch payload,
  frame_p off epoch payload =
  95 :: 95 :: 112 :: ((49 :: 58 :: (dec off ++ 58 :: epoch)) ++ 95 :: 95 :: payload).
Proof. intros. unfold frame_p. cbn [app]. now rewrite <- app_assoc. Qed.

Lemma header_hdr_ok : forall off epoch, off < 10 ^ 40 ->
  hdr_ok (112 :: 49 :: 58 :: (dec off ++ 58 :: epoch)) = hdr_ok epoch.
Proof.
  intros off epoch H40. pose proof (dec_free 95 off H40 eq_refl) as F95.
  change (112 :: 49 :: 58 :: (dec off ++ 58 :: epoch))
    with ([112; 49; 58] ++ (dec off ++ ([58] ++ epoch))).
  rewrite hdr_ok_app_free by reflexivity. rewrite hdr_ok_app_free by exact F95.
  now rewrite hdr_ok_app_free by reflexivity.
Qed.

Lemma roundtrip_p : forall fixed off epoch payload,
  off < U64 -> hdr_ok epoch = true ->
  extract fixed (frame_p off epoch payload) =
  Ret (mkPush payload PPub off epoch false [] true).
Proof.
  intros fixed off epoch payload Ho He.
  assert (H40 : off < 10 ^ 40) by (unfold U64 in Ho; lia).
  rewrite frame_p_shape. rewrite extract_p_frame.
  - now apply p_header_frame.
  - rewrite header_hdr_ok by exact H40. exact He.
Qed.

(* necessity: with an epoch that is not [hdr_ok] the first "__" comes too early and
   the returned data is longer than the payload *)
Lemma roundtrip_p_needs_hdr_ok : forall fixed off epoch payload,
  off < U64 -> hdr_ok epoch = false ->
  extract fixed (frame_p off epoch payload) <>
  Ret (mkPush payload PPub off epoch false [] true).
Proof.
  intros fixed off epoch payload Ho He.
  assert (H40 : off < 10 ^ 40) by (unfold U64 in Ho; lia).
  rewrite frame_p_shape.
  remember (49 :: 58 :: (dec off ++ 58 :: epoch)) as h eqn:Hh.
  assert (Hhdr : hdr_ok (112 :: h) = false).
  { subst h. rewrite header_hdr_ok by exact H40. exact He. }
  destruct (index_sep_hdr_bad (112 :: h) payload Hhdr) as (n & Hn & Hl).
  remember (112 :: (h ++ 95 :: 95 :: payload)) as content eqn:Hc.
  change ((112 :: h) ++ 95 :: 95 :: payload) with (112 :: (h ++ 95 :: 95 :: payload)) in Hn.
  rewrite <- Hc in Hn.
  unfold extract.
  replace (has_pfx (95 :: 95 :: content) meta_sep) with true
    by (symmetry; exact (has_pfx_app [95; 95] content)).
  cbn [negb].
  assert (E1 : sl_from (95 :: 95 :: content) 2 = Some content) by exact (sl_from_app [95; 95] content).
  rewrite E1. rewrite Hc at 1. cbv beta iota.
  replace ((112 =? 106) || (112 =? 108)) with false by reflexivity.
  replace (112 =? 112) with true by reflexivity.
  rewrite Hn.
  destruct n as [|n]; [unfold fail_with; intros H; inversion H|].
  destruct (sl_to content (Z.of_nat (S n))) as [hd|]; [|discriminate].
  pose proof (sl_from_spec (95 :: 95 :: content) (2 + Z.of_nat (S n) + 2)) as S2.
  destruct (sl_from (95 :: 95 :: content) (2 + Z.of_nat (S n) + 2)) as [rest|]; [|discriminate].
  assert (Hne : rest <> payload).
  { intros ->. destruct S2 as (_ & _ & S2). subst content. unfold zlen in S2.
    cbn [length] in S2, Hl. rewrite app_length in S2. cbn [length] in S2. lia. }
  unfold p_header, fail_with.
  destruct (fixed && (length hd <? 3)%nat); [intros H; inversion H; congruence|].
  destruct (sl_from hd 3) as [sh'|]; [|discriminate].
  destruct (index_byte 58 sh') as [[|k]|]; try (intros H; inversion H; congruence).
  destruct (sl_to sh' (Z.of_nat (S k))); [|discriminate].
  destruct (sl_from sh' (Z.of_nat (S k) + 1)); [|discriminate].
  destruct (parse_uint b); cbv beta iota. intros H; inversion H; congruence.
Qed.

Lemma guard1_false : forall (fixed : bool) (prev r : bytes),
  (if fixed then (zlen prev <? 0)%Z || (zlen (prev ++ 58%N :: r) <=? zlen prev)%Z
   else (zlen (prev ++ 58%N :: r) <? zlen prev)%Z) = false.
Proof. intros. unfold zlen. rewrite app_length. cbn [length]. destruct fixed; lia. Qed.

Lemma guard2_false : forall (fixed : bool) (payload tail : bytes),
  (if fixed then (zlen payload <? 0)%Z || (zlen (payload ++ tail) <? zlen payload)%Z
   else (zlen (payload ++ tail) <? zlen payload)%Z) = false.
Proof. intros. unfold zlen. rewrite app_length. destruct fixed; lia. Qed.

Lemma parse_delta_frame : forall fixed off epoch prev payload tail,
  off < U64 -> colon_free epoch = true ->
  (Z.of_nat (length prev) < 2 ^ 63)%Z -> (Z.of_nat (length payload) < 2 ^ 63)%Z ->
  parse_delta fixed
    (100 :: 49 :: 58 ::
      (dec off ++ 58 :: (epoch ++ 58 ::
        (dec (N.of_nat (length prev)) ++ 58 :: (prev ++ 58 ::
          (dec (N.of_nat (length payload)) ++ 58 :: (payload ++ tail)))))))
  = DOk off epoch prev payload.
Proof.
  intros fixed off epoch prev payload tail Ho He Hp Hl.
  set (np := N.of_nat (length prev)). set (nl := N.of_nat (length payload)).
  assert (H40 : off < 10 ^ 40) by (unfold U64 in Ho; lia).
  assert (H40p : np < 10 ^ 40) by lia. assert (H40l : nl < 10 ^ 40) by lia.
  pose proof (dec_free 58 off H40 eq_refl) as F1.
  pose proof (dec_free 58 np H40p eq_refl) as F2.
  pose proof (dec_free 58 nl H40l eq_refl) as F3.
  unfold parse_delta.
  match goal with |- context [has_pfx (100 :: 49 :: 58 :: ?r) d1_prefix] =>
    replace (has_pfx (100 :: 49 :: 58 :: r) d1_prefix) with true
      by (symmetry; exact (has_pfx_app [100; 49; 58] r)) end.
  cbn [negb].
  match goal with |- context [sl_from (100 :: 49 :: 58 :: ?r) 3] =>
    change (100 :: 49 :: 58 :: r) with ([100; 49; 58] ++ r); change 3%Z with (zlen [100; 49; 58]) end.
  rewrite sl_from_app.
  rewrite (index_byte_app 58 _ _ F1). rewrite <- zlen_nat, sl_to_app, (parse_uint_dec off Ho), sl_from_app1.
  rewrite (index_byte_app 58 _ _ He). rewrite <- zlen_nat, sl_to_app, sl_from_app1.
  rewrite (index_byte_app 58 _ _ F2). rewrite <- zlen_nat, sl_to_app, sl_from_app1.
  rewrite (atoi_dec np) by (unfold np; lia).
  replace (Z.of_N np) with (zlen prev) by (unfold np, zlen; lia).
  rewrite guard1_false.
  rewrite sl_to_app, sl_from_app1.
  rewrite (index_byte_app 58 _ _ F3). rewrite <- zlen_nat, sl_to_app, sl_from_app1.
  rewrite (atoi_dec nl) by (unfold nl; lia).
  replace (Z.of_N nl) with (zlen payload) by (unfold nl, zlen; lia).
  rewrite guard2_false.
  rewrite sl_to_app. reflexivity.
Qed.

Lemma roundtrip_d : forall fixed off epoch prev payload,
  off < U64 -> colon_free epoch = true ->
  (Z.of_nat (length prev) < 2 ^ 63)%Z -> (Z.of_nat (length payload) < 2 ^ 63)%Z ->
  extract fixed (frame_d off epoch prev payload) =
  Ret (mkPush payload PPub off epoch true prev true).
Proof.
  intros fixed off epoch prev payload Ho He Hp Hl.
  pose proof (parse_delta_frame fixed off epoch prev payload [] Ho He Hp Hl) as PD.
  rewrite app_nil_r in PD.
  unfold extract, frame_d. cbn [has_pfx meta_sep N.eqb Pos.eqb andb negb].
  match goal with |- context [sl_from (95 :: 95 :: ?r) 2] =>
    change (95 :: 95 :: r) with ([95; 95] ++ r); change 2%Z with (zlen [95; 95]) end.
  rewrite sl_from_app. cbn [N.eqb Pos.eqb orb]. rewrite PD. reflexivity.
Qed.

Lemma roundtrip_join : forall fixed payload,
  extract fixed (build_join payload) = Ret (mkPush payload PJoin 0 [] false [] true).
Proof.
  intros fixed payload. unfold extract, build_join, join_prefix.
  cbn [app has_pfx meta_sep N.eqb Pos.eqb andb negb].
  change (95 :: 95 :: 106 :: 95 :: 95 :: payload) with ([95; 95] ++ 106 :: 95 :: 95 :: payload) at 1.
  change 2%Z with (zlen [95; 95]) at 1. rewrite sl_from_app.
  cbn [N.eqb Pos.eqb orb index_sep andb option_map].
  change (95 :: 95 :: 106 :: 95 :: 95 :: payload) with ([95; 95; 106; 95; 95] ++ payload).
  change (2 + Z.of_nat 1 + 2)%Z with (zlen [95; 95; 106; 95; 95]). now rewrite sl_from_app.
Qed.

Lemma roundtrip_leave : forall fixed payload,
  extract fixed (build_leave payload) = Ret (mkPush payload PLeave 0 [] false [] true).
Proof.
  intros fixed payload. unfold extract, build_leave, leave_prefix.
  cbn [app has_pfx meta_sep N.eqb Pos.eqb andb negb].
  change (95 :: 95 :: 108 :: 95 :: 95 :: payload) with ([95; 95] ++ 108 :: 95 :: 95 :: payload) at 1.
  change 2%Z with (zlen [95; 95]) at 1. rewrite sl_from_app.
  cbn [N.eqb Pos.eqb orb index_sep andb option_map].
  change (95 :: 95 :: 108 :: 95 :: 95 :: payload) with ([95; 95; 108; 95; 95] ++ payload).
  change (2 + Z.of_nat 1 + 2)%Z with (zlen [95; 95; 108; 95; 95]). now rewrite sl_from_app.
Qed.

Lemma roundtrip_plain : forall fixed payload,
  has_pfx payload meta_sep = false ->
  extract fixed (build_plain payload) = Ret (mkPush payload PPub 0 [] false [] true).
Proof. intros fixed payload H. unfold extract, build_plain. now rewrite H. Qed.

(* a protobuf message never starts with '_' (0x5F would be a tag of wire type 7) *)
Lemma plain_protobuf : forall b rest, b mod 8 <= 5 -> has_pfx (b :: rest) meta_sep = false.
Proof.
  intros b rest H. cbn [has_pfx meta_sep]. destruct (95 =? b) eqn:E; [|reflexivity].
  apply N.eqb_eq in E. subst b. cbn in H. lia.
Qed.

(* ---------- epochs produced by internal/epoch.Generate ---------- *)

Definition in_letters (c : N) : bool := existsb (N.eqb c) epoch_letters.

Lemma letters_clean : forallb (fun c => negb (c =? 58) && negb (c =? 95)) epoch_letters = true.
Proof. vm_compute. reflexivity. Qed.

Lemma in_letters_clean : forall c, in_letters c = true -> (c =? 58) = false /\ (c =? 95) = false.
Proof.
  intros c H. unfold in_letters in H. apply existsb_exists in H. destruct H as (x & Hin & Hx).
  apply N.eqb_eq in Hx. subst x.
  pose proof (proj1 (forallb_forall _ _) letters_clean c Hin) as H.
  apply andb_true_iff in H. destruct H as [H1 H2].
  now rewrite negb_true_iff in H1, H2.
Qed.

Lemma free_hdr_ok : forall s, free_of 95 s = true -> hdr_ok s = true.
Proof. intros s H. rewrite <- (app_nil_r s). now rewrite hdr_ok_app_free. Qed.

Lemma generated_epoch_ok : forall e,
  forallb in_letters e = true -> hdr_ok e = true /\ colon_free e = true.
Proof.
  intros e H. assert (free_of 95 e = true /\ free_of 58 e = true) as [A B].
  { induction e as [|c e IH]; [split; reflexivity|].
    cbn [forallb] in H. apply andb_true_iff in H. destruct H as [H1 H2].
    destruct (in_letters_clean c H1) as [C1 C2]. destruct (IH H2) as [I1 I2].
    split; cbn [free_of forallb]; [rewrite C2 | rewrite C1]; cbn [negb andb]; assumption. }
  split; [now apply free_hdr_ok | exact B].
Qed.

(* ---------- statements over the generated templates ---------- *)

Lemma lua_plain_roundtrip : forall tpl off epoch prev payload,
  tpl = lua_stream_plain \/ tpl = lua_list_plain ->
  off < LUA_PLAIN -> hdr_ok epoch = true ->
  exists b, eval_tpl (mkEnv off epoch prev payload) tpl = Some b /\
            extract true b = Ret (mkPush payload PPub off epoch false [] true).
Proof.
  intros tpl off epoch prev payload Ht Ho He. exists (frame_p off epoch payload).
  split; [now apply eval_plain|]. apply roundtrip_p; [unfold LUA_PLAIN, U64 in *; lia | exact He].
Qed.

Lemma lua_delta_roundtrip : forall tpl off epoch prev payload,
  tpl = lua_stream_delta \/ tpl = lua_list_delta ->
  off < LUA_PLAIN -> N.of_nat (length prev) < LUA_PLAIN -> N.of_nat (length payload) < LUA_PLAIN ->
  colon_free epoch = true ->
  exists b, eval_tpl (mkEnv off epoch prev payload) tpl = Some b /\
            extract true b = Ret (mkPush payload PPub off epoch true prev true).
Proof.
  intros tpl off epoch prev payload Ht Ho Hp Hl He. exists (frame_d off epoch prev payload).
  split; [now apply eval_delta|].
  apply roundtrip_d; try exact He; unfold LUA_PLAIN, U64 in *; lia.
Qed.

Lemma go_prefixes : go_join_prefix = join_prefix /\ go_leave_prefix = leave_prefix /\
                    go_meta_sep = meta_sep /\ go_content_sep = [58].
Proof. repeat split; reflexivity. Qed.

Lemma lua_templates : forall off epoch prev payload,
  off < LUA_PLAIN -> N.of_nat (length prev) < LUA_PLAIN -> N.of_nat (length payload) < LUA_PLAIN ->
  eval_tpl (mkEnv off epoch prev payload) lua_stream_plain = Some (frame_p off epoch payload) /\
  eval_tpl (mkEnv off epoch prev payload) lua_list_plain = Some (frame_p off epoch payload) /\
  eval_tpl (mkEnv off epoch prev payload) lua_stream_delta = Some (frame_d off epoch prev payload) /\
  eval_tpl (mkEnv off epoch prev payload) lua_list_delta = Some (frame_d off epoch prev payload).
Proof.
  intros off epoch prev payload Ho Hp Hl.
  split; [apply eval_plain; auto|]. split; [apply eval_plain; auto|].
  split; apply eval_delta; auto.
Qed.

(* ---------- offsets that Lua prints in exponent form (>= 10^14) ---------- *)

Lemma dec_fuel_digits : forall fuel n acc,
  all_digits acc = true -> all_digits (dec_fuel fuel n acc) = true.
Proof.
  induction fuel as [|k IH]; intros n acc H; cbn [dec_fuel]; [exact H|].
  assert (Hacc : all_digits ((48 + n mod 10) :: acc) = true).
  { cbn [all_digits forallb]. fold (all_digits acc). rewrite H, andb_true_r.
    unfold is_digit. pose proof (N.mod_lt n 10 ltac:(discriminate)) as Hm.
    generalize dependent (n mod 10). intros m Hm.
    apply andb_true_iff. split; apply N.leb_le; lia. }
  destruct (n <? 10); [exact Hacc | now apply IH].
Qed.

Lemma dec_fuel_nonempty : forall fuel n acc, (fuel > 0)%nat -> dec_fuel fuel n acc <> [].
Proof.
  induction fuel as [|k IH]; intros n acc H; [lia|]. cbn [dec_fuel].
  destruct (n <? 10); [discriminate|].
  destruct k; [cbn; discriminate|]. apply IH. lia.
Qed.

Lemma dec_digits : forall n, all_digits (dec n) = true.
Proof. intros. now apply dec_fuel_digits. Qed.
Lemma dec_nonempty : forall n, dec n <> [].
Proof. intros. apply dec_fuel_nonempty. lia. Qed.

(* the characters "%.14g" can produce for a non-negative integer *)
Definition fmt_char (c : N) : bool := is_digit c || (c =? 46) || (c =? 101) || (c =? 43).

Lemma digits_fmt : forall s, all_digits s = true -> forallb fmt_char s = true.
Proof.
  induction s as [|c s IH]; intros H; [reflexivity|].
  cbn [all_digits forallb] in *. apply andb_true_iff in H. destruct H as [H1 H2].
  unfold fmt_char at 1. rewrite H1. cbn [orb]. now apply IH.
Qed.

Lemma In_drop_zeros : forall s x, In x (drop_zeros s) -> In x s.
Proof.
  induction s as [|c s IH]; intros x H; [exact H|]. cbn [drop_zeros] in H.
  destruct (c =? 48); [right; now apply IH | exact H].
Qed.

Lemma In_strip : forall s x, In x (strip_trailing_zeros s) -> In x s.
Proof.
  intros s x H. unfold strip_trailing_zeros in H. apply in_rev in H.
  apply In_drop_zeros in H. now apply in_rev.
Qed.

Lemma lua_fmt_chars : forall n, forallb fmt_char (lua_fmt n) = true.
Proof.
  intros n0. unfold lua_fmt. set (n := round53 n0).
  destruct (n <? LUA_PLAIN); [apply digits_fmt, dec_digits|].
  set (d := length (dec n)). set (p := pow10 (d - 14)).
  set (m0 := if (p / 2 <? n mod p) || ((n mod p =? p / 2) && N.odd (n / p)) then n / p + 1 else n / p).
  destruct (if m0 =? 10 ^ 14 then (10 ^ 13, d) else (m0, (d - 1)%nat)) as [m e].
  pose proof (dec_digits m) as Dm.
  destruct (dec m) as [|d0 ds]; [reflexivity|].
  cbn [all_digits forallb] in Dm. apply andb_true_iff in Dm. destruct Dm as [D0 Ds].
  cbn [forallb]. unfold fmt_char at 1. rewrite D0. cbn [orb andb].
  rewrite !forallb_app. apply andb_true_iff. split; [|apply andb_true_iff; split].
  - assert (F : forallb fmt_char (strip_trailing_zeros ds) = true).
    { apply forallb_forall. intros x Hx. apply In_strip in Hx.
      pose proof (proj1 (forallb_forall _ _) Ds x Hx) as Hd. unfold fmt_char. now rewrite Hd. }
    destruct (strip_trailing_zeros ds) as [|y fr]; [reflexivity|].
    change (forallb fmt_char (46 :: y :: fr)) with (fmt_char 46 && forallb fmt_char (y :: fr)).
    now rewrite F.
  - reflexivity.
  - unfold dec2. destruct (Nat.ltb e 10).
    + cbn [forallb]. rewrite (digits_fmt _ (dec_digits _)). reflexivity.
    + apply digits_fmt, dec_digits.
Qed.

Lemma lua_fmt_large_e : forall n, LUA_PLAIN <= n -> In 101 (lua_fmt n).
Proof.
  intros n0 H. unfold lua_fmt. pose proof (round53_large n0 H) as HL. set (n := round53 n0) in *.
  replace (n <? LUA_PLAIN) with false by lia.
  set (d := length (dec n)). set (p := pow10 (d - 14)).
  set (m0 := if (p / 2 <? n mod p) || ((n mod p =? p / 2) && N.odd (n / p)) then n / p + 1 else n / p).
  destruct (if m0 =? 10 ^ 14 then (10 ^ 13, d) else (m0, (d - 1)%nat)) as [m e].
  pose proof (dec_nonempty m) as Nm.
  destruct (dec m) as [|d0 ds]; [congruence|].
  right. apply in_or_app. right. left. reflexivity.
Qed.

Lemma lua_fmt_nonempty : forall n, lua_fmt n <> [].
Proof.
  intros n0. unfold lua_fmt. set (n := round53 n0).
  destruct (n <? LUA_PLAIN); [apply dec_nonempty|].
  set (d := length (dec n)). set (p := pow10 (d - 14)).
  set (m0 := if (p / 2 <? n mod p) || ((n mod p =? p / 2) && N.odd (n / p)) then n / p + 1 else n / p).
  destruct (if m0 =? 10 ^ 14 then (10 ^ 13, d) else (m0, (d - 1)%nat)) as [m e].
  pose proof (dec_nonempty m) as Nm.
  destruct (dec m) as [|d0 ds]; [congruence|discriminate].
Qed.

Lemma fmt_free : forall s, forallb fmt_char s = true -> free_of 58 s = true /\ free_of 95 s = true.
Proof.
  induction s as [|c s IH]; intros H; [split; reflexivity|].
  cbn [forallb] in H. apply andb_true_iff in H. destruct H as [H1 H2].
  destruct (IH H2) as [A B]. unfold free_of in *. cbn [forallb]. rewrite A, B, !andb_true_r.
  unfold fmt_char, is_digit in H1.
  split; apply negb_true_iff; apply N.eqb_neq; intros ->; cbn in H1; discriminate.
Qed.

Lemma parse_uint_loop_nondigit : forall c s n,
  In c s -> is_digit c = false -> snd (parse_uint_loop s n) = false.
Proof.
  intros c. induction s as [|x s IH]; intros n Hin Hc; [destruct Hin|].
  cbn [parse_uint_loop]. destruct (is_digit x) eqn:Dx; [|reflexivity].
  destruct (U64 <=? n * 10 + (x - 48)); [reflexivity|].
  destruct Hin as [->|Hin]; [congruence|]. now apply IH.
Qed.

Lemma parse_uint_nondigit : forall c s, In c s -> is_digit c = false -> snd (parse_uint s) = false.
Proof.
  intros c s Hin Hc. unfold parse_uint. destruct s as [|x t]; [reflexivity|].
  eapply parse_uint_loop_nondigit; eauto.
Qed.

(* the 'p' header for an arbitrary offset string *)
Lemma p_header_offs : forall fixed offs epoch rest,
  offs <> [] -> free_of 58 offs = true ->
  p_header fixed (112 :: 49 :: 58 :: (offs ++ 58 :: epoch)) rest =
  Ret (mkPush rest PPub (fst (parse_uint offs)) epoch false [] (snd (parse_uint offs))).
Proof.
  intros fixed offs epoch rest Hne F58.
  unfold p_header.
  remember (offs ++ 58 :: epoch) as sh eqn:Hsh.
  replace (length ((112 :: 49 :: 58 :: sh)%N) <? 3)%nat with false by reflexivity.
  rewrite andb_false_r.
  assert (E1 : sl_from (112 :: 49 :: 58 :: sh) 3 = Some sh) by exact (sl_from_app [112; 49; 58] sh).
  rewrite E1.
  assert (E2 : index_byte 58 sh = Some (length offs)).
  { subst sh. now apply index_byte_app. }
  rewrite E2.
  destruct (length offs) as [|k] eqn:EL.
  { destruct offs; [congruence|discriminate]. }
  assert (E3 : sl_to sh (Z.of_nat (S k)) = Some offs).
  { subst sh. rewrite <- EL. apply sl_to_app. }
  assert (E4 : sl_from sh (Z.of_nat (S k) + 1) = Some epoch).
  { subst sh. rewrite <- EL. apply sl_from_app1. }
  rewrite E3, E4. destruct (parse_uint offs). reflexivity.
Qed.

Definition frame_p_s (offs epoch payload : bytes) : bytes :=
  95 :: 95 :: 112 :: 49 :: 58 :: (offs ++ 58 :: (epoch ++ 95 :: 95 :: payload)).
Definition frame_d_s (offs epoch prev payload : bytes) : bytes :=
  95 :: 95 :: 100 :: 49 :: 58 ::
    (offs ++ 58 :: (epoch ++ 58 ::
      (dec (N.of_nat (length prev)) ++ 58 :: (prev ++ 58 ::
        (dec (N.of_nat (length payload)) ++ 58 :: payload))))).

Lemma eval_plain_s : forall tpl off epoch prev payload,
  tpl = lua_stream_plain \/ tpl = lua_list_plain ->
  eval_tpl (mkEnv off epoch prev payload) tpl = Some (frame_p_s (lua_fmt off) epoch payload).
Proof.
  intros tpl off epoch prev payload [-> | ->];
    cbn [eval_tpl lua_stream_plain lua_list_plain eval_tok e_off e_epoch e_payload lua_num];
    cbn [app]; unfold frame_p_s; rewrite ?app_nil_r, <- ?app_assoc; reflexivity.
Qed.

Lemma eval_delta_s : forall tpl off epoch prev payload,
  tpl = lua_stream_delta \/ tpl = lua_list_delta ->
  N.of_nat (length prev) < LUA_PLAIN -> N.of_nat (length payload) < LUA_PLAIN ->
  eval_tpl (mkEnv off epoch prev payload) tpl = Some (frame_d_s (lua_fmt off) epoch prev payload).
Proof.
  intros tpl off epoch prev payload [-> | ->] Hp Hl;
    cbn [eval_tpl lua_stream_delta lua_list_delta eval_tok e_off e_epoch e_payload e_prev];
    rewrite (lua_num_small _ Hp), (lua_num_small _ Hl); cbn [lua_num app]; unfold frame_d_s;
    rewrite ?app_nil_r, <- ?app_assoc; cbn [app]; reflexivity.
Qed.

Lemma extract_frame_p_s : forall fixed offs epoch payload,
  offs <> [] -> free_of 58 offs = true -> free_of 95 offs = true -> hdr_ok epoch = true ->
  extract fixed (frame_p_s offs epoch payload) =
  Ret (mkPush payload PPub (fst (parse_uint offs)) epoch false [] (snd (parse_uint offs))).
Proof.
  intros fixed offs epoch payload Hne F58 F95 He.
  assert (Sh : frame_p_s offs epoch payload =
               95 :: 95 :: 112 :: ((49 :: 58 :: (offs ++ 58 :: epoch)) ++ 95 :: 95 :: payload)).
  { unfold frame_p_s. cbn [app]. now rewrite <- app_assoc. }
  rewrite Sh, extract_p_frame.
  - now apply p_header_offs.
  - change (112 :: 49 :: 58 :: (offs ++ 58 :: epoch)) with ([112; 49; 58] ++ (offs ++ ([58] ++ epoch))).
    rewrite hdr_ok_app_free by reflexivity. rewrite hdr_ok_app_free by exact F95.
    now rewrite hdr_ok_app_free by reflexivity.
Qed.

Lemma parse_delta_bad_offset : forall fixed offs rest,
  free_of 58 offs = true -> snd (parse_uint offs) = false ->
  parse_delta fixed (100 :: 49 :: 58 :: (offs ++ 58 :: rest)) = DErr.
Proof.
  intros fixed offs rest F Hbad. unfold parse_delta.
  replace (has_pfx (100 :: 49 :: 58 :: (offs ++ 58 :: rest)) d1_prefix) with true
    by (symmetry; exact (has_pfx_app [100; 49; 58] (offs ++ 58 :: rest))).
  cbn [negb].
  assert (E1 : sl_from (100 :: 49 :: 58 :: (offs ++ 58 :: rest)) 3 = Some (offs ++ 58 :: rest))
    by exact (sl_from_app [100; 49; 58] (offs ++ 58 :: rest)).
  rewrite E1, (index_byte_app 58 offs rest F), <- zlen_nat, sl_to_app.
  destruct (parse_uint offs) as [v ok]. cbn [snd] in Hbad. now subst ok.
Qed.

Lemma extract_frame_d_bad_offset : forall fixed offs epoch prev payload,
  free_of 58 offs = true -> snd (parse_uint offs) = false ->
  extract fixed (frame_d_s offs epoch prev payload) = fail_with [].
Proof.
  intros fixed offs epoch prev payload F Hbad. unfold extract, frame_d_s.
  match goal with |- context [has_pfx (95 :: 95 :: ?r) meta_sep] =>
    replace (has_pfx (95 :: 95 :: r) meta_sep) with true by (symmetry; exact (has_pfx_app [95; 95] r));
    assert (E1 : sl_from (95 :: 95 :: r) 2 = Some r) by exact (sl_from_app [95; 95] r) end.
  cbn [negb]. rewrite E1. cbv beta iota.
  replace ((100 =? 106) || (100 =? 108)) with false by reflexivity.
  replace (100 =? 112) with false by reflexivity. replace (100 =? 100) with true by reflexivity.
  now rewrite parse_delta_bad_offset.
Qed.

(* From offset 10^14 on the Lua builders print the offset in exponent form and the
   receiving node rejects the message: the publication is not delivered by PUB/SUB.
   (Unreachable in practice: 10^14 publications into one channel epoch.) *)
Theorem lua_large_offset_rejected : forall off epoch prev payload,
  LUA_PLAIN <= off ->
  N.of_nat (length prev) < LUA_PLAIN -> N.of_nat (length payload) < LUA_PLAIN ->
  hdr_ok epoch = true ->
  (forall tpl, tpl = lua_stream_plain \/ tpl = lua_list_plain ->
     exists b r, eval_tpl (mkEnv off epoch prev payload) tpl = Some b /\
                 extract true b = Ret r /\ p_ok r = false) /\
  (forall tpl, tpl = lua_stream_delta \/ tpl = lua_list_delta ->
     exists b r, eval_tpl (mkEnv off epoch prev payload) tpl = Some b /\
                 extract true b = Ret r /\ p_ok r = false).
Proof.
  intros off epoch prev payload Ho Hp Hl He.
  pose proof (lua_fmt_chars off) as Hc. destruct (fmt_free _ Hc) as [F58 F95].
  pose proof (lua_fmt_large_e off Ho) as Hin.
  pose proof (parse_uint_nondigit 101 _ Hin eq_refl) as Hbad.
  split; intros tpl Ht.
  - eexists _, _. split; [now apply eval_plain_s|]. split.
    + apply extract_frame_p_s; auto. apply lua_fmt_nonempty.
    + exact Hbad.
  - eexists _, _. split; [now apply eval_delta_s|]. split.
    + now apply extract_frame_d_bad_offset.
    + reflexivity.
Qed.
