(* C08 / C07: how an established subscription ends.  Per subscription generation g the events
   commit, delete (ghost), leave and unsubscribe callback form one of the words
     []  |  [commit]  |  [commit; delete]  |  [commit; delete; leave?]  |  [commit; delete; leave?; unsub]
   determined by the generation's ghost state and the pc of the thread tearing it down.
   Preserved by every non-timeout action of a state satisfying Inv and PInv. *)
From Coq Require Import List NArith ZArith Bool Lia.
From Cfg Require Import Model.SubLifecycle Proofs.SubLifecycleLib Proofs.SubRoute Proofs.SubRouteStep Proofs.SubPresInv.
Import ListNotations.
Open Scope N_scope.

Definition about (g : gen) (e : ev) : bool :=
  match e with
  | EvCommit _ _ g' _ | EvDelete _ g' | EvLeave _ g' | EvUnsubCb _ g' | EvUnsubSkipped _ g' => g' =? g
  | _ => false
  end.
Definition proj (g : gen) (tr : list ev) : list ev := filter (about g) tr.

Definition lv (c : ch) (g : gen) (jl : bool) : list ev := if jl then [EvLeave c g] else [].

Definition u_phase (u : urec) (c : ch) (g : gen) (w : list ev) : Prop :=
  exists t0, c_sub (u_ctx u) = true /\
    w = [EvCommit t0 c g (o_jl (c_opts (u_ctx u))); EvDelete c g] ++
        (match u_pc u with UPres | ULeave => [] | _ => lv c g (o_jl (c_opts (u_ctx u))) end).

Definition tear_word (o : option thread) (c : ch) (g : gen) (w : list ev) : Prop :=
  match o with
  | Some (TAtt _) => w = []
  | Some (TUns u) => u_phase u c g w
  | Some (TCls k) => match k_cur k with Some u => u_phase u c g w | None => False end
  | _ => False
  end.

Definition full_word (g : gen) (w : list ev) : Prop :=
  exists t0 c jl e, (e = EvUnsubCb c g \/ e = EvUnsubSkipped c g) /\
    w = [EvCommit t0 c g jl; EvDelete c g] ++ lv c g jl ++ [e].

Definition gen_ok (s : st) (g : gen) : Prop :=
  match gst s g with
  | GNone | GRes _ _ => proj g (trace s) = []
  | GLive c => exists t0 jl, proj g (trace s) = [EvCommit t0 c g jl] /\
                 forall x, lookup c (chans s) = Some x -> c_gen x = g -> o_jl (c_opts x) = jl
  | GTear t c => tear_word (thr s t) c g (proj g (trace s))
  | GDead => proj g (trace s) = [] \/ full_word g (proj g (trace s))
  end.
Definition EInv (s : st) : Prop := forall g, gen_ok s g.

Lemma EInv_init : EInv init.
Proof. intros g. unfold gen_ok. cbn. reflexivity. Qed.

Lemma proj_app g l e : proj g (l ++ [e]) = proj g l ++ (if about g e then [e] else []).
Proof. unfold proj. rewrite filter_app. cbn. destruct (about g e); reflexivity. Qed.
Lemma proj_app_none g l es : (forall e, In e es -> about g e = false) -> proj g (l ++ es) = proj g l.
Proof.
  intros H. unfold proj. rewrite filter_app.
  assert (E : filter (about g) es = []).
  { induction es as [|a r IH]; cbn; auto. rewrite (H a (or_introl eq_refl)). apply IH. intros e I. apply H. right. auto. }
  rewrite E. apply app_nil_r.
Qed.

(* a generation that the action does not concern *)
Lemma gen_ok_frame s s' t o' g :
  gen_ok s g -> gst s' g = gst s g -> proj g (trace s') = proj g (trace s) ->
  (forall t0, t0 <> t -> thr s t0 <> None -> thr s' t0 = thr s t0) -> thr s' t = o' ->
  (forall c x, lookup c (chans s') = Some x -> c_gen x = g -> lookup c (chans s) = Some x) ->
  (forall c, gst s g = GTear t c -> tear_word o' c g (proj g (trace s))) ->
  (forall t0 c, gst s g = GTear t0 c -> thr s t0 <> None) ->
  gen_ok s' g.
Proof.
  unfold gen_ok. intros OK EG EP OTH THT CH TW NN. rewrite EG, EP.
  destruct (gst s g) as [|t0 c|c|t0 c|] eqn:E; auto.
  - destruct OK as (t1 & jl & P & X). exists t1, jl. split; auto.
  - destruct (N.eqb_spec t0 t).
    + subst t0. rewrite THT. auto.
    + rewrite OTH; eauto.
Qed.

Lemma tearing_some o g c : tearing o g c -> o <> None.
Proof. destruct o; [discriminate|]. cbn. tauto. Qed.

Definition thr_upd (s s' : st) (t : tid) (o' : option thread) : Prop :=
  thr s' = upd (thr s) t o' \/
  exists nt x, thr s' = upd (upd (thr s) nt (Some x)) t o' /\ thr s nt = None.

Lemma thr_upd_other s s' t o' : thr_upd s s' t o' ->
  (forall t0, t0 <> t -> thr s t0 <> None -> thr s' t0 = thr s t0) /\ thr s' t = o'.
Proof.
  intros [-> |(nt & x & -> & FR)]; split; try apply upd_same; intros t0 NE NN; rewrite upd_other; auto.
  rewrite upd_other; auto. congruence.
Qed.

(* an action that concerns at most the generation g0 *)
Lemma E_step s s' t o' g0 :
  EInv s -> Inv s -> thr_upd s s' t o' ->
  (forall g, g <> g0 -> gst s' g = gst s g /\ proj g (trace s') = proj g (trace s)) ->
  (forall g c x, g <> g0 -> lookup c (chans s') = Some x -> c_gen x = g -> lookup c (chans s) = Some x) ->
  (forall g c, g <> g0 -> gst s g = GTear t c -> tear_word o' c g (proj g (trace s))) ->
  gen_ok s' g0 -> EInv s'.
Proof.
  intros EI I TU OTHG CH TW OK0 g.
  destruct (N.eqb_spec g g0); [subst; auto|].
  destruct (thr_upd_other _ _ _ _ TU) as [OTH THT]. destruct (OTHG g n) as [EG EP].
  eapply gen_ok_frame; eauto.
  intros t0 c E. eapply tearing_some. eapply (i_tear _ _ _ _ _ _ _ _ I); eauto.
Qed.

(* an action that concerns no generation *)
Lemma E_plain s s' t o' es :
  EInv s -> Inv s -> thr_upd s s' t o' ->
  gst s' = gst s -> chans s' = chans s -> trace s' = trace s ++ es ->
  (forall g e, In e es -> about g e = false) ->
  ((forall g c, ~ tearing (thr s t) g c) \/ (forall c g w, tear_word (thr s t) c g w -> tear_word o' c g w)) ->
  EInv s'.
Proof.
  intros EI I TU EG EC TR NA TW g.
  destruct (thr_upd_other _ _ _ _ TU) as [OTH THT].
  eapply gen_ok_frame; eauto.
  - rewrite EG. auto.
  - rewrite TR. apply proj_app_none. auto.
  - intros c x. rewrite EC. auto.
  - intros c E. pose proof (i_tear _ _ _ _ _ _ _ _ I _ _ _ E) as T. destruct TW as [N|K]; [destruct (N _ _ T)|].
    apply K. pose proof (EI g) as OK. unfold gen_ok in OK. rewrite E in OK. auto.
  - intros t0 c E. eapply tearing_some. eapply (i_tear _ _ _ _ _ _ _ _ I); eauto.
Qed.

Ltac coree :=
  unfold spawn_int, submit_job, thr_set, thr_del, log, set_gst1 in *;
  cbn [thr gst chans trace next_int next_ext
       set_status set_authed set_closing set_chans set_genctr set_gclosed set_cmu set_pmu set_pinfl
       set_kstarted set_slock set_hub set_others set_reg set_pres set_bsub set_jobs set_gconn set_gsub
       set_trace set_thr set_next_ext set_next_int set_panicked set_wclosed set_hreg set_shut set_gst] in *.

Lemma cge g s : thr (close_gate g s) = thr s /\ trace (close_gate g s) = trace s /\
  gst (close_gate g s) = gst s /\ chans (close_gate g s) = chans s /\ next_int (close_gate g s) = next_int s.
Proof. unfold close_gate. destruct (gclosed s g); cbn; auto. Qed.
Lemma cge1 g s : thr (close_gate g s) = thr s. Proof. apply cge. Qed.
Lemma cge2 g s : trace (close_gate g s) = trace s. Proof. apply cge. Qed.
Lemma cge3 g s : gst (close_gate g s) = gst s. Proof. apply cge. Qed.
Lemma cge4 g s : chans (close_gate g s) = chans s. Proof. apply cge. Qed.
Lemma cge5 g s : next_int (close_gate g s) = next_int s. Proof. apply cge. Qed.
Lemma cce1 c s : thr (close_cap c s) = thr s. Proof. destruct c; cbn; auto. apply cge1. Qed.
Lemma cce2 c s : trace (close_cap c s) = trace s. Proof. destruct c; cbn; auto. apply cge2. Qed.
Lemma cce3 c s : gst (close_cap c s) = gst s. Proof. destruct c; cbn; auto. apply cge3. Qed.
Lemma cce4 c s : chans (close_cap c s) = chans s. Proof. destruct c; cbn; auto. apply cge4. Qed.
Lemma cce5 c s : next_int (close_cap c s) = next_int s. Proof. destruct c; cbn; auto. apply cge5. Qed.
Lemma hre c g s : thr (hubrem c g s) = thr s /\ trace (hubrem c g s) = trace s /\
  gst (hubrem c g s) = gst s /\ chans (hubrem c g s) = chans s /\ next_int (hubrem c g s) = next_int s.
Proof. unfold hubrem. destruct (hub s c); [destruct (_ =? g); [destruct (others s c =? 0)|]|]; cbn; auto. Qed.
Lemma hre1 c g s : thr (hubrem c g s) = thr s. Proof. apply hre. Qed.
Lemma hre2 c g s : trace (hubrem c g s) = trace s. Proof. apply hre. Qed.
Lemma hre3 c g s : gst (hubrem c g s) = gst s. Proof. apply hre. Qed.
Lemma hre4 c g s : chans (hubrem c g s) = chans s. Proof. apply hre. Qed.
Lemma hre5 c g s : next_int (hubrem c g s) = next_int s. Proof. apply hre. Qed.
Ltac erw := rewrite ?cge1, ?cge2, ?cge3, ?cge4, ?cge5, ?cce1, ?cce2, ?cce3, ?cce4, ?cce5,
                    ?hre1, ?hre2, ?hre3, ?hre4, ?hre5.

Ltac thr_upd_tac FR :=
  first [ left; coree; erw; reflexivity
        | right; eexists; eexists; split; [coree; erw; reflexivity|exact FR] ].

Ltac eplain EI I FR TW :=
  eapply E_plain;
  [ exact EI | exact I | thr_upd_tac FR
  | coree; erw; reflexivity
  | coree; erw; reflexivity
  | coree; erw; first [reflexivity | symmetry; apply app_nil_r]
  | let g := fresh in let e := fresh in let X := fresh in
    intros g e X; cbn in X; first [contradiction | destruct X as [<-|[]]; reflexivity]
  | TW ].

(* attempt: the special actions concern the attempt's own generation g0 *)
Lemma E_att s s' t a o' g0 :
  EInv s -> Inv s -> thr s t = Some (TAtt a) -> thr_upd s s' t o' ->
  match o' with
  | Some (TAtt _) => True
  | None => forall g c, tearing (Some (TAtt a)) g c -> g = g0
  | _ => False
  end ->
  (forall g, g <> g0 -> gst s' g = gst s g /\ proj g (trace s') = proj g (trace s)) ->
  (forall g c x, g <> g0 -> lookup c (chans s') = Some x -> c_gen x = g -> lookup c (chans s) = Some x) ->
  gen_ok s' g0 -> EInv s'.
Proof.
  intros EI I ET TU O OTHG CH OK0.
  eapply E_step; eauto.
  intros g c NE E. pose proof (i_tear _ _ _ _ _ _ _ _ I _ _ _ E) as T. rewrite ET in T.
  pose proof (EI g) as OK. unfold gen_ok in OK. rewrite E, ET in OK. cbn in OK.
  destruct o' as [[a'| | | | |]|]; try contradiction; cbn; auto.
  exfalso. apply NE. eapply O; eauto.
Qed.

Lemma gst_fresh s : Inv s -> gst s (genctr s + 1) = GNone.
Proof.
  intros I. destruct (gst s (genctr s + 1)) eqn:E; auto;
    assert (X : gst s (genctr s + 1) <> GNone) by congruence;
    apply (i_bound _ _ _ _ _ _ _ _ I) in X; lia.
Qed.

Lemma upd_gst_other (f : gen -> gstate) g0 v g : g <> g0 -> upd f g0 v g = f g.
Proof. apply upd_other. Qed.

Ltac att_cases H :=
  repeat match type of H with
    | (if ?c then _ else _) = _ => destruct c eqn:?
    | match ?o with Some _ => _ | None => _ end = _ => destruct o eqn:?
    | match ?k with Cli => _ | Srv => _ end = _ => destruct k eqn:?
    end; try discriminate; inv H; cbv zeta;
  repeat (match goal with |- context [if ?x then _ else _] => destruct x eqn:? end);
  repeat (match goal with |- context [match hub ?s0 ?c with Some _ => _ | None => _ end] => destruct (hub s0 c) eqn:? end);
  repeat (match goal with |- context [if ?x then _ else _] => destruct x eqn:? end).

Ltac att_tw ET EPC :=
  first [ right; let c := fresh in let g := fresh in let w := fresh in
          intros c g w; rewrite ET; cbn; solve [auto]
        | left; let c := fresh in let g := fresh in
          intros g c; rewrite ET; cbn; rewrite EPC; tauto ].

Lemma att_step_E s t a b s' :
  Inv s -> EInv s -> thr s t = Some (TAtt a) -> att_step s t a b = Some s' -> EInv s'.
Proof.
  intros I EI ET H. unfold att_step in H.
  assert (FR : thr s (2 * next_int s + 1) = None) by (eapply fresh_int; eauto).
  pose proof (i_thr _ _ _ _ _ _ _ _ I t) as TO. rewrite ET in TO. cbn in TO.
  destruct (a_pc a) eqn:EPC.
  - (* PReserve *)
    destruct (is_srv (a_kind a) && is_closed (status s)) eqn:?; [inv H; eplain EI I FR ltac:(att_tw ET EPC)|].
    destruct (lookup (a_ch a) (chans s)) eqn:EL; [inv H; eplain EI I FR ltac:(att_tw ET EPC)|].
    pose proof (gst_fresh _ I) as GF. pose proof (EI (genctr s + 1)) as OK0. unfold gen_ok in OK0. rewrite GF in OK0.
    destruct (a_kind a) eqn:EK; inv H;
    (eapply E_att with (t := t) (g0 := genctr s + 1);
      [ exact EI | exact I | exact ET | thr_upd_tac FR | exact Logic.I
      | intros g NE; coree; split; [apply upd_other; auto|rewrite ?proj_app; cbn; rewrite ?app_nil_r; reflexivity]
      | intros g c x NE L G; coree; rewrite lookup_insert in L; destruct (N.eqb_spec c (a_ch a)); [inv L; cbn in NE; congruence|auto]
      | unfold gen_ok; coree; rewrite upd_same; rewrite ?proj_app; cbn; rewrite ?app_nil_r; exact OK0 ]).
  - att_cases H; eplain EI I FR ltac:(att_tw ET EPC).
  - att_cases H; eplain EI I FR ltac:(att_tw ET EPC).
  - att_cases H; eplain EI I FR ltac:(att_tw ET EPC).
  - att_cases H; eplain EI I FR ltac:(att_tw ET EPC).
  - att_cases H; eplain EI I FR ltac:(att_tw ET EPC).
  - att_cases H; eplain EI I FR ltac:(att_tw ET EPC).
  - att_cases H; eplain EI I FR ltac:(att_tw ET EPC).
  - (* PCommit *)
    destruct (lookup (a_ch a) (chans s)) as [r|] eqn:EL; [destruct (c_gen r =? a_use a) eqn:EG|];
      [|inv H; eplain EI I FR ltac:(att_tw ET EPC)|inv H; eplain EI I FR ltac:(att_tw ET EPC)].
    destruct (i_res _ _ _ _ _ _ _ _ I _ _ _ TO) as (_ & _ & HR). rewrite ET in HR. unfold holds_resv, att_resv in HR. rewrite EPC in HR.
    destruct HR as (_ & _ & UO). rewrite <- UO in TO.
    pose proof (EI (a_use a)) as OK0. unfold gen_ok in OK0. rewrite TO in OK0.
    destruct (is_closed (status s)); inv H.
    + eapply E_att with (t := t) (g0 := a_use a);
      [ exact EI | exact I | exact ET | thr_upd_tac FR | exact Logic.I
      | intros g NE; coree; split; [apply upd_other; auto|reflexivity]
      | intros g c x NE L G; coree; rewrite lookup_remove in L; destruct (N.eqb_spec c (a_ch a)); [discriminate|auto]
      | unfold gen_ok; coree; rewrite !upd_same; cbn; exact OK0 ].
    + eapply E_att with (t := t) (g0 := a_use a);
      [ exact EI | exact I | exact ET | thr_upd_tac FR | exact Logic.I
      | intros g NE; coree; split; [apply upd_other; auto|];
        rewrite proj_app; cbn; destruct (N.eqb_spec (a_use a) g); [congruence|apply app_nil_r]
      | intros g c x NE L G; coree; rewrite lookup_insert in L; destruct (N.eqb_spec c (a_ch a)); [inv L; cbn in NE; congruence|auto]
      | ].
      unfold gen_ok. coree. rewrite upd_same. exists t, (o_jl (a_opts a)). split.
      * rewrite proj_app. cbn. rewrite N.eqb_refl, OK0. reflexivity.
      * rewrite lookup_insert, N.eqb_refl. intros x X _. inv X. reflexivity.
  - att_cases H; eplain EI I FR ltac:(att_tw ET EPC).
  - att_cases H; eplain EI I FR ltac:(att_tw ET EPC).
  - att_cases H; eplain EI I FR ltac:(att_tw ET EPC).
  - att_cases H; eplain EI I FR ltac:(att_tw ET EPC).
  - (* PClosedGate *)
    destruct TO as (UO & TG & _). rewrite <- UO in TG.
    pose proof (EI (a_use a)) as OK0. unfold gen_ok in OK0. rewrite TG, ET in OK0. cbn in OK0.
    att_cases H;
    (eapply E_att with (t := t) (g0 := a_use a);
      [ exact EI | exact I | exact ET | thr_upd_tac FR
      | first [exact Logic.I | intros g c; cbn; rewrite EPC; intros (_ & X & _); auto]
      | intros g NE; coree; erw; split; [apply upd_other; auto|reflexivity]
      | intros g c x NE L G; coree; rewrite ?cce4 in L; exact L
      | unfold gen_ok; coree; erw; rewrite upd_same; left; exact OK0 ]).
  - att_cases H; eplain EI I FR ltac:(att_tw ET EPC).
  - att_cases H; eplain EI I FR ltac:(att_tw ET EPC).
  - att_cases H; eplain EI I FR ltac:(att_tw ET EPC).
  - att_cases H; eplain EI I FR ltac:(att_tw ET EPC).
  - (* PErrDelete *)
    destruct (lookup (a_ch a) (chans s)) as [r|] eqn:EL; [destruct (c_gen r =? a_own a) eqn:EG|];
      [|inv H; eplain EI I FR ltac:(att_tw ET EPC)|inv H; eplain EI I FR ltac:(att_tw ET EPC)].
    apply N.eqb_eq in EG. pose proof (errdel_entry _ _ _ _ I ET EPC EL EG) as SR.
    pose proof (i_chans _ _ _ _ _ _ _ _ I _ _ EL) as CX. rewrite SR in CX. destruct CX as (_ & _ & t1 & GR).
    rewrite EG in GR.
    pose proof (EI (a_own a)) as OK0. unfold gen_ok in OK0. rewrite GR in OK0.
    inv H.
    eapply E_att with (t := t) (g0 := a_own a);
      [ exact EI | exact I | exact ET | thr_upd_tac FR | exact Logic.I
      | intros g NE; coree; split; [apply upd_other; auto|reflexivity]
      | intros g c x NE L G; coree; rewrite lookup_remove in L; destruct (N.eqb_spec c (a_ch a)); [discriminate|auto]
      | unfold gen_ok; coree; rewrite !upd_same; cbn; exact OK0 ].
  - att_cases H; eplain EI I FR ltac:(att_tw ET EPC).
  - (* PErrGate *)
    destruct (a_owned a) eqn:EO; inv H; [|eplain EI I FR ltac:(att_tw ET EPC)].
    destruct TO as (TG & _).
    pose proof (EI (a_own a)) as OK0. unfold gen_ok in OK0. rewrite TG, ET in OK0. cbn in OK0.
    eapply E_att with (t := t) (g0 := a_own a);
      [ exact EI | exact I | exact ET | thr_upd_tac FR | exact Logic.I
      | intros g NE; coree; erw; split; [apply upd_other; auto|reflexivity]
      | intros g c x NE L G; coree; rewrite ?cce4 in L; exact L
      | unfold gen_ok; coree; erw; rewrite upd_same; left; exact OK0 ].
  - att_cases H; eplain EI I FR ltac:(att_tw ET EPC).
Qed.

(* ---- unsubscribe ---- *)
Record eemb (emb : option urec -> option thread) : Prop := {
  ee_tw : forall u c g w, tear_word (emb (Some u)) c g w <-> u_phase u c g w;
  ee_none : forall c g w, ~ tear_word (emb None) c g w
}.
Lemma eemb_uns : eemb (fun o => match o with Some u => Some (TUns u) | None => None end).
Proof. constructor; cbn; tauto. Qed.
Lemma eemb_cls prev rest : eemb (fun o => Some (TCls (mkC CLoop prev rest o))).
Proof. constructor; cbn; tauto. Qed.

Ltac u_ifs :=
  repeat match goal with H : context [if ?x then _ else _] |- _ => destruct x eqn:? end.

Lemma u_step_E emb s t u b s1 ou :
  eemb emb -> emb_ok emb -> pemb emb -> Inv s -> PInv s -> EInv s ->
  thr s t = emb (Some u) -> u_step s t u b = Some (s1, ou) ->
  forall s', gst s' = gst s1 -> chans s' = chans s1 -> trace s' = trace s1 ->
             thr s' = upd (thr s1) t (emb ou) -> EInv s'.
Proof.
  intros EE E PE I PI EI ET H s' EG EC TR TH. unfold u_step in H.
  pose proof (u_okk emb s t u E I ET) as OK. unfold u_ok in OK.
  assert (SEES : u_sees s u).
  { destruct (pe_some _ PE u) as (th & ETH & OKE & _). apply OKE. apply (p_thr _ PI t). congruence. }
  assert (NT : forall g c, tearing (thr s t) g c -> u_tear u g c).
  { intros g c T. rewrite ET in T. apply (e_tear _ E). auto. }
  assert (PLAIN : forall ou0, ou = ou0 -> gst s1 = gst s -> chans s1 = chans s -> trace s1 = trace s -> thr s1 = thr s ->
            ((forall g c, ~ u_tear u g c) \/
             (exists u', ou0 = Some u' /\ forall c g w, u_phase u c g w -> u_phase u' c g w)) -> EInv s').
  { intros ou0 -> G1 C1 T1 H1 TW. eapply E_plain with (t := t) (es := []);
      [exact EI|exact I|left; rewrite TH, H1; reflexivity|congruence|congruence|rewrite app_nil_r; congruence
      |intros g e []|].
    destruct TW as [N|(u' & -> & K)].
    - left. intros g c T. apply (N g c). auto.
    - right. intros c g w. rewrite ET. intros X. apply (ee_tw _ EE). apply K. apply (ee_tw _ EE). auto. }
  destruct (u_pc u) eqn:EPC.
  - (* UStart *)
    destruct (is_closed (status s)); inv H; (eapply PLAIN; [reflexivity..|]);
      left; intros g c (_ & _ & X); rewrite EPC in X; exact X.
  - (* USnap *)
    destruct (lookup (u_ch u) (chans s)) as [x|]; [destruct (negb (c_srv x) && negb (c_sub x) && c_gate x)|];
      inv H; (eapply PLAIN; [reflexivity..|]);
      left; intros g c (_ & _ & X); rewrite EPC in X; exact X.
  - (* UWait *)
    destruct (gclosed s (u_wg u)); [|discriminate].
    destruct (lookup (u_ch u) (chans s)) as [x|]; inv H; (eapply PLAIN; [reflexivity..|]);
      left; intros g c (_ & _ & X); rewrite EPC in X; exact X.
  - (* UDelete *)
    destruct (SEES EPC) as [B SX].
    destruct (lookup (u_ch u) (chans s)) as [x|] eqn:L; [destruct (N.eqb_spec (c_gen x) (u_tgt u)) as [EGX|NG]|];
      [|inv H; (eapply PLAIN; [reflexivity..|]); left; intros g c (_ & _ & X); rewrite EPC in X; exact X
       |inv H; (eapply PLAIN; [reflexivity..|]); left; intros g c (_ & _ & X); rewrite EPC in X; exact X].
    destruct (SX _ eq_refl EGX) as [SB CTX].
    pose proof (i_chans _ _ _ _ _ _ _ _ I _ _ L) as CX. rewrite SB in CX. destruct CX as [GL _].
    pose proof (EI (c_gen x)) as OK0. unfold gen_ok in OK0. rewrite GL in OK0.
    destruct OK0 as (t0 & jl & P0 & JL). specialize (JL x L eq_refl).
    injection H as E1 E2. subst s1 ou.
    assert (X1 : gst s' = upd (gst s) (c_gen x) (GTear t (u_ch u))) by (rewrite EG; u_ifs; coree; erw; reflexivity).
    assert (X2 : chans s' = remove (u_ch u) (chans s)) by (rewrite EC; u_ifs; coree; erw; reflexivity).
    assert (X3 : trace s' = trace s ++ [EvDelete (u_ch u) (c_gen x)]) by (rewrite TR; u_ifs; coree; erw; reflexivity).
    assert (X4 : thr s' = upd (thr s) t (emb (Some (mkU (u_ch u) UPres (u_tgt u) (u_ctx u) (c_gen x) (u_wg u)))))
      by (rewrite TH; u_ifs; coree; erw; reflexivity).
    clear EG EC TR TH.
    eapply E_step with (t := t) (g0 := c_gen x); [exact EI|exact I|left; exact X4| | | |].
    + intros g NE. rewrite X1, X3. split; [apply upd_other; auto|].
      rewrite proj_app. cbn. destruct (N.eqb_spec (c_gen x) g); [congruence|apply app_nil_r].
    + intros g c x' NE L' G'. rewrite X2, lookup_remove in L'. destruct (N.eqb_spec c (u_ch u)); [discriminate|auto].
    + intros g c NE GT. exfalso. pose proof (i_tear _ _ _ _ _ _ _ _ I _ _ _ GT) as T.
      destruct (NT _ _ T) as (_ & _ & X). rewrite EPC in X. exact X.
    + unfold gen_ok. rewrite X1, upd_same, X4, upd_same, X3. apply (ee_tw _ EE).
      exists t0. cbn. split; [rewrite CTX; auto|].
      rewrite proj_app, P0. cbn. rewrite N.eqb_refl, CTX, JL. reflexivity.
  - (* UPres *)
    inv H. u_ifs; (eapply PLAIN; [reflexivity..|]);
      right; eexists; (split; [reflexivity|]); intros c g w; unfold u_phase; cbn; rewrite EPC; auto.
  - (* ULeave *)
    pose proof (EI (u_rm u)) as OK0. unfold gen_ok in OK0. rewrite OK, ET in OK0.
    apply (ee_tw _ EE) in OK0. destruct OK0 as (t0 & SB & P0). rewrite EPC in P0.
    injection H as E1 E2. subst s1 ou.
    eapply E_step with (t := t) (g0 := u_rm u); [exact EI|exact I| | | | |].
    + left. rewrite TH. u_ifs; reflexivity.
    + intros g NE. rewrite EG, TR. u_ifs; coree; (split; [reflexivity|]); auto.
      rewrite proj_app. cbn. destruct (N.eqb_spec (u_rm u) g); [congruence|apply app_nil_r].
    + intros g c x' NE L' G'. rewrite EC in L'. u_ifs; exact L'.
    + intros g c NE GT. exfalso. pose proof (i_tear _ _ _ _ _ _ _ _ I _ _ _ GT) as T.
      destruct (NT _ _ T) as (_ & X & _). auto.
    + unfold gen_ok. rewrite EG.
      assert (G1 : gst (if c_sub (u_ctx u) && o_jl (c_opts (u_ctx u)) then log (EvLeave (u_ch u) (u_rm u)) s else s) = gst s)
        by (destruct (c_sub (u_ctx u) && o_jl (c_opts (u_ctx u))); reflexivity).
      rewrite G1, OK, TH, upd_same. apply (ee_tw _ EE). exists t0. cbn. split; auto.
      rewrite TR, SB. cbn. destruct (o_jl (c_opts (u_ctx u))); coree.
      * rewrite proj_app, P0. cbn. rewrite N.eqb_refl. reflexivity.
      * rewrite P0. reflexivity.
  - (* UHubRem *)
    destruct (slock s (u_ch u)); inv H.
    eapply PLAIN; [reflexivity|apply hre3|apply hre4|apply hre2|apply hre1|].
    right. eexists. split; [reflexivity|]. intros c g w. unfold u_phase. cbn. rewrite EPC. auto.
  - (* UHandler *)
    pose proof (EI (u_rm u)) as OK0. unfold gen_ok in OK0. rewrite OK, ET in OK0.
    apply (ee_tw _ EE) in OK0. destruct OK0 as (t0 & SB & P0). rewrite EPC in P0.
    injection H as E1 E2. subst s1 ou. rewrite SB in *.
    eapply E_step with (t := t) (g0 := u_rm u); [exact EI|exact I| | | | |].
    + left. rewrite TH. u_ifs; reflexivity.
    + intros g NE. rewrite EG, TR. u_ifs; coree; (split; [apply upd_other; auto|]);
      rewrite proj_app; cbn; (destruct (N.eqb_spec (u_rm u) g); [congruence|apply app_nil_r]).
    + intros g c x' NE L' G'. rewrite EC in L'. u_ifs; exact L'.
    + intros g c NE GT. exfalso. pose proof (i_tear _ _ _ _ _ _ _ _ I _ _ _ GT) as T.
      destruct (NT _ _ T) as (_ & X & _). auto.
    + unfold gen_ok. rewrite EG, TR. u_ifs; coree; rewrite upd_same; right;
        eexists t0, (u_ch u), (o_jl (c_opts (u_ctx u))), _;
        (split; [|rewrite proj_app, P0; cbn; rewrite N.eqb_refl; reflexivity]); auto.
Qed.


(* ---- the other threads ---- *)
Ltac no_tear ET := left; let g := fresh in let c := fresh in let X := fresh in
  intros g c X; rewrite ET in X; cbn in X;
  repeat match goal with E : _ = _ |- _ => rewrite E in X end; cbn in X;
  first [ exact X | destruct X as [X _]; discriminate X | tauto ].

Lemma cls_step_E s t k b s' :
  Inv s -> PInv s -> EInv s -> thr s t = Some (TCls k) -> cls_step s t k b = Some s' -> EInv s'.
Proof.
  intros I PI EI ET H. unfold cls_step in H.
  assert (FR : thr s (2 * next_int s + 1) = None) by (eapply fresh_int; eauto).
  destruct (k_pc k) eqn:EPC.
  8:{ destruct (k_cur k) as [u|] eqn:EC.
      - destruct (u_step s t u b) as [[s1 ou]|] eqn:EU; [|discriminate]. inv H.
        eapply (u_step_E _ s t u b s1 ou (eemb_cls (k_prev k) (k_rest k)) (emb_cls (k_prev k) (k_rest k))
                  (pemb_cls (k_prev k) (k_rest k)) I PI EI); [|exact EU|coree; reflexivity..].
        rewrite ET. f_equal. f_equal. destruct k; cbn in *. congruence.
      - destruct (k_rest k); [|destruct b]; inv H; eplain EI I FR ltac:(no_tear ET). }
  all: repeat match type of H with (if ?c then _ else _) = _ => destruct c eqn:? end;
       try discriminate; inv H;
       repeat (match goal with |- context [if ?x then _ else _] => destruct x eqn:? end);
       eplain EI I FR ltac:(no_tear ET).
Qed.

Lemma tck_step_E s t k b s' :
  Inv s -> EInv s -> thr s t = Some (TTck k) -> tck_step s t k b = Some s' -> EInv s'.
Proof.
  intros I EI ET H. unfold tck_step in H.
  assert (FR : thr s (2 * next_int s + 1) = None) by (eapply fresh_int; eauto).
  destruct b.
  all: destruct (t_pc k) eqn:EPC;
    repeat match type of H with
    | (if ?c then _ else _) = _ => destruct c eqn:?
    | match ?l with [] => _ | _ :: _ => _ end = _ => destruct l
    | match ?o with Some _ => _ | None => _ end = _ => destruct o
    end; try discriminate; inv H;
    repeat (match goal with |- context [if ?x then _ else _] => destruct x eqn:? end);
    eplain EI I FR ltac:(no_tear ET).
Qed.

Lemma con_step_E s t pc b s' :
  Inv s -> EInv s -> thr s t = Some (TCon pc) -> con_step s t pc b = Some s' -> EInv s'.
Proof.
  intros I EI ET H. unfold con_step in H.
  assert (FR : thr s (2 * next_int s + 1) = None) by (eapply fresh_int; eauto).
  destruct pc;
    repeat match type of H with (if ?c then _ else _) = _ => destruct c eqn:? end;
    try discriminate; inv H;
    repeat (match goal with |- context [if ?x then _ else _] => destruct x eqn:? end);
    eplain EI I FR ltac:(no_tear ET).
Qed.

Lemma job_step_E s t c b s' :
  Inv s -> EInv s -> thr s t = Some (TJob c) -> job_step s t c b = Some s' -> EInv s'.
Proof.
  intros I EI ET H. unfold job_step in H.
  assert (FR : thr s (2 * next_int s + 1) = None) by (eapply fresh_int; eauto).
  destruct b; inv H; eplain EI I FR ltac:(no_tear ET).
Qed.

Lemma step_thread_E s t b s' : Inv s -> PInv s -> EInv s -> step_thread s t b = Some s' -> EInv s'.
Proof.
  intros I PI EI H. unfold step_thread in H. destruct (thr s t) as [[a|u|k|k|pc|c]|] eqn:ET; try discriminate.
  - eapply att_step_E; eauto.
  - destruct (u_step s t u b) as [[s1 [u'|]]|] eqn:EU; inv H;
      (eapply (u_step_E _ s t u b _ _ eemb_uns emb_uns pemb_uns I PI EI ET EU); coree; reflexivity).
  - eapply cls_step_E; eauto.
  - eapply tck_step_E; eauto.
  - eapply con_step_E; eauto.
  - eapply job_step_E; eauto.
Qed.

Lemma E_frame s s' :
  EInv s -> Inv s -> gst s' = gst s -> chans s' = chans s -> trace s' = trace s ->
  (forall t0, thr s t0 <> None -> thr s' t0 = thr s t0) -> EInv s'.
Proof.
  intros EI I EG EC TR OTH g. pose proof (EI g) as OK. unfold gen_ok in *. rewrite EG, EC, TR.
  destruct (gst s g) as [|t0 c|c|t0 c|] eqn:E; auto.
  rewrite OTH; auto. eapply tearing_some. eapply (i_tear _ _ _ _ _ _ _ _ I); eauto.
Qed.

Lemma astep_E s l s' : Inv s -> PInv s -> EInv s -> is_timeout l = false -> astep s l = Some s' -> EInv s'.
Proof.
  intros I PI EI NT H.
  assert (FR : thr s (2 * next_int s + 1) = None) by (eapply fresh_int; eauto).
  assert (FRE : thr s (2 * next_ext s) = None) by (eapply fresh_ext; eauto).
  destruct l; cbn [astep is_timeout] in *; try discriminate.
  - unfold spawn in H.
    destruct o;
      repeat match type of H with (if ?c then _ else _) = _ => destruct c eqn:? end;
      try discriminate; inv H;
      repeat (match goal with |- context [if ?x then _ else _] => destruct x eqn:? end);
      (eapply E_frame; [exact EI|exact I|coree; reflexivity|coree; reflexivity|coree; reflexivity|]);
      intros t0 NN; coree; try reflexivity; rewrite upd_other; auto; intros ->; first [apply NN; exact FRE|apply NN; exact FR].
  - eapply step_thread_E; eauto.
  - unfold job_start in H. destruct (mem c (jobs s) && negb (slock s c)); [|discriminate].
    destruct (subscribers s c); inv H;
      (eapply E_frame; [exact EI|exact I|coree; reflexivity|coree; reflexivity|coree; reflexivity|]);
      intros t0 NN; coree; try reflexivity; rewrite upd_other; auto; intros ->; first [apply NN; exact FRE|apply NN; exact FR].
  - unfold other_add in H. destruct (slock s c); [discriminate|].
    destruct (subscribers s c); [|destruct b]; inv H;
      (eapply E_frame; [exact EI|exact I|coree; reflexivity|coree; reflexivity|coree; reflexivity|]);
      intros t0 NN; coree; reflexivity.
  - unfold other_rem in H. destruct (slock s c || (others s c =? 0)); [discriminate|].
    destruct ((others s c =? 1) && match hub s c with None => true | Some _ => false end); inv H;
      (eapply E_frame; [exact EI|exact I|coree; reflexivity|coree; reflexivity|coree; reflexivity|]);
      intros t0 NN; coree; reflexivity.
Qed.

Theorem exec_E l : forall s s', Inv s -> PInv s -> EInv s -> no_timeout l = true -> exec l s = Some s' -> EInv s'.
Proof.
  induction l as [|x l IH]; intros s s' I PI EI NT H; cbn in *.
  - inv H. auto.
  - apply andb_true_iff in NT. destruct NT as [NX NT]. apply negb_true_iff in NX.
    destruct (astep s x) as [s1|] eqn:E; [|discriminate].
    eapply IH; [eapply astep_inv; eauto|eapply astep_P; eauto|eapply astep_E; eauto|auto|eauto].
Qed.

Lemma EInv_reach sched s : no_timeout sched = true -> exec sched init = Some s -> EInv s /\ Inv s.
Proof.
  intros NT E. split; [eapply exec_E; eauto; [apply Inv_init|apply PInv_init|apply EInv_init]|].
  eapply exec_inv; eauto. apply Inv_init.
Qed.

(* ---- consequences ---- *)
Inductive word (g : gen) : list ev -> Prop :=
| w_none : word g []
| w_live t0 c jl : word g [EvCommit t0 c g jl]
| w_deleted t0 c jl : word g [EvCommit t0 c g jl; EvDelete c g]
| w_left t0 c jl : word g ([EvCommit t0 c g jl; EvDelete c g] ++ lv c g jl)
| w_done t0 c jl e : e = EvUnsubCb c g \/ e = EvUnsubSkipped c g ->
    word g ([EvCommit t0 c g jl; EvDelete c g] ++ lv c g jl ++ [e]).

(* every generation's commit / delete / leave / unsubscribe events form a prefix of
   commit . delete . leave? . unsubscribe, leave present iff the subscription has join/leave *)
Theorem ends_word sched s g :
  no_timeout sched = true -> exec sched init = Some s -> word g (proj g (trace s)).
Proof.
  intros NT E. destruct (EInv_reach _ _ NT E) as [EI I]. pose proof (EI g) as OK. unfold gen_ok in OK.
  destruct (gst s g) as [|t0 c|c|t0 c|] eqn:EG.
  - rewrite OK. constructor.
  - rewrite OK. constructor.
  - destruct OK as (t1 & jl & -> & _). constructor.
  - assert (UP : forall u, u_phase u c g (proj g (trace s)) -> word g (proj g (trace s))).
    { intros u (t1 & SB & ->). destruct (u_pc u); constructor. }
    destruct (thr s t0) as [[a|u|k| | |]|]; cbn in OK; try contradiction.
    + rewrite OK. constructor.
    + eauto.
    + destruct (k_cur k); [eauto|contradiction].
  - destruct OK as [-> |(t1 & c & jl & e & EE & ->)]; constructor; auto.
Qed.

(* at rest a generation was never established, is still established, or has ended with the
   complete word: exactly one unsubscribe occasion, exactly one leave iff join/leave is on *)
Theorem ends_settled sched s g :
  no_timeout sched = true -> exec sched init = Some s -> settled s ->
  proj g (trace s) = [] \/
  (exists t0 c jl x, proj g (trace s) = [EvCommit t0 c g jl] /\
                     lookup c (chans s) = Some x /\ c_gen x = g /\ c_sub x = true /\ o_jl (c_opts x) = jl) \/
  full_word g (proj g (trace s)).
Proof.
  intros NT E ST. destruct (EInv_reach _ _ NT E) as [EI I]. pose proof (EI g) as OK. unfold gen_ok in OK.
  destruct (gst s g) as [|t0 c|c|t0 c|] eqn:EG; auto.
  - right. left. destruct OK as (t1 & jl & P & JL).
    destruct (i_live _ _ _ _ _ _ _ _ I _ _ EG) as (x & L & G & S). exists t1, c, jl, x. repeat split; auto.
  - rewrite (ST t0) in OK. destruct OK.
  - destruct OK; auto.
Qed.

Definition is_unsub_of (g : gen) (e : ev) : bool :=
  match e with EvUnsubCb _ g' | EvUnsubSkipped _ g' => g' =? g | _ => false end.
Definition is_leave_of (g : gen) (e : ev) : bool :=
  match e with EvLeave _ g' => g' =? g | _ => false end.

Lemma filter_sub {A} (f h : A -> bool) l :
  (forall e, f e = true -> h e = true) -> filter f (filter h l) = filter f l.
Proof.
  intros S. induction l as [|a l IH]; cbn; auto. destruct (h a) eqn:Ha; cbn.
  - rewrite IH. reflexivity.
  - destruct (f a) eqn:Fa; auto. rewrite (S a Fa) in Ha. discriminate.
Qed.

Lemma unsub_sub g e : is_unsub_of g e = true -> about g e = true.
Proof. destruct e; cbn; auto; discriminate. Qed.
Lemma leave_sub g e : is_leave_of g e = true -> about g e = true.
Proof. destruct e; cbn; auto; discriminate. Qed.

(* at any time: at most one unsubscribe occasion and at most one leave per generation *)
Theorem unsub_at_most_once sched s g :
  no_timeout sched = true -> exec sched init = Some s ->
  (length (filter (is_unsub_of g) (trace s)) <= 1)%nat /\ (length (filter (is_leave_of g) (trace s)) <= 1)%nat.
Proof.
  intros NT E. pose proof (ends_word _ _ g NT E) as W.
  rewrite <- (filter_sub (is_unsub_of g) (about g)) by apply unsub_sub.
  rewrite <- (filter_sub (is_leave_of g) (about g) (trace s)) by apply leave_sub.
  fold (proj g (trace s)).
  destruct W as [|t0 c jl|t0 c jl|t0 c jl|t0 c jl e [-> | ->]]; try destruct jl; cbn; rewrite ?N.eqb_refl; cbn; lia.
Qed.

(* the unsubscribe callback and the leave occur only for a generation that was committed and
   then deleted, in this order; the leave only with join/leave enabled *)
Lemma proj_split g a e b : about g e = true -> proj g (a ++ e :: b) = proj g a ++ e :: proj g b.
Proof. intros A. unfold proj. rewrite filter_app. cbn. rewrite A. reflexivity. Qed.

Lemma in_proj g e l : In e (proj g l) -> In e l.
Proof. intros H. apply filter_In in H. tauto. Qed.

Lemma split_unique {A} (x : A) p q : ~ In x p -> ~ In x q ->
  forall l1 l2, l1 ++ x :: l2 = p ++ x :: q -> l1 = p /\ l2 = q.
Proof.
  intros NP NQ. induction p as [|y p IH]; intros l1 l2 E.
  - destruct l1 as [|z l1]; cbn in E; inv E; auto. exfalso. apply NQ. apply in_or_app. right. left. auto.
  - destruct l1 as [|z l1]; cbn in E; inv E.
    + exfalso. apply NP. left. auto.
    + destruct (IH (fun H => NP (or_intror H)) l1 l2 H1). subst. auto.
Qed.

Theorem leave_after_delete sched s c g a b :
  no_timeout sched = true -> exec sched init = Some s ->
  trace s = a ++ EvLeave c g :: b ->
  (exists t0, In (EvCommit t0 c g true) a) /\ In (EvDelete c g) a /\
  ~ In (EvLeave c g) a /\ ~ In (EvLeave c g) b.
Proof.
  intros NT E TR. pose proof (ends_word _ _ g NT E) as W. rewrite TR in W.
  rewrite proj_split in W by (cbn; apply N.eqb_refl).
  assert (NI : forall l, ~ In (EvLeave c g) (proj g l) -> ~ In (EvLeave c g) l).
  { intros l H X. apply H. apply filter_In. split; auto. cbn. apply N.eqb_refl. }
  remember (proj g a ++ EvLeave c g :: proj g b) as w eqn:EW.
  assert (IW : In (EvLeave c g) w) by (rewrite EW; apply in_or_app; right; left; auto).
  assert (FIN : forall t0 tl, ~ In (EvLeave c g) tl ->
            w = [EvCommit t0 c g true; EvDelete c g] ++ EvLeave c g :: tl ->
            (exists t0, In (EvCommit t0 c g true) a) /\ In (EvDelete c g) a /\
            ~ In (EvLeave c g) a /\ ~ In (EvLeave c g) b).
  { intros t0 tl NTL EQ. rewrite EW in EQ.
    apply split_unique in EQ; auto; [|cbn; intuition discriminate]. destruct EQ as [PA PB].
    split; [exists t0; apply (in_proj g); rewrite PA; left; auto|].
    split; [apply (in_proj g); rewrite PA; right; left; auto|].
    split; apply NI; rewrite ?PA, ?PB; auto. cbn. intuition discriminate. }
  destruct W as [|t0 c0 jl|t0 c0 jl|t0 c0 jl|t0 c0 jl e EE]; try destruct jl; cbn in IW;
    try (exfalso; intuition discriminate).
  - destruct IW as [X|[X|[X|[]]]]; try discriminate. inv X. eapply (FIN t0 []); auto.
  - destruct IW as [X|[X|[X|[X|[]]]]]; try discriminate.
    + inv X. eapply (FIN t0 [e]); auto. cbn. destruct EE as [-> | ->]; intuition discriminate.
    + exfalso. destruct EE as [-> | ->]; discriminate.
  - destruct EE as [-> | ->]; intuition discriminate.
Qed.

(* the unsubscribe occasion (callback, or skipped because OnConnect has not registered the
   handler yet) comes after the commit, the delete and - with join/leave - the leave, and is unique *)
Theorem unsub_after_delete sched s c g e a b :
  no_timeout sched = true -> exec sched init = Some s ->
  e = EvUnsubCb c g \/ e = EvUnsubSkipped c g ->
  trace s = a ++ e :: b ->
  exists t0 jl, In (EvCommit t0 c g jl) a /\ In (EvDelete c g) a /\
                (jl = true -> In (EvLeave c g) a) /\
                (forall e', is_unsub_of g e' = true -> ~ In e' a /\ ~ In e' b).
Proof.
  intros NT E EE TR. pose proof (ends_word _ _ g NT E) as W. rewrite TR in W.
  assert (AE : about g e = true) by (destruct EE as [-> | ->]; cbn; apply N.eqb_refl).
  rewrite proj_split in W by exact AE.
  remember (proj g a ++ e :: proj g b) as w eqn:EW.
  assert (IW : In e w) by (rewrite EW; apply in_or_app; right; left; auto).
  assert (NI : forall e' l, is_unsub_of g e' = true -> ~ In e' (proj g l) -> ~ In e' l).
  { intros e' l U H X. apply H. apply filter_In. split; auto. apply unsub_sub. auto. }
  destruct W as [|t0 c0 jl|t0 c0 jl|t0 c0 jl|t0 c0 jl e0 EE0];
    try (exfalso; destruct EE as [-> | ->]; try destruct jl; cbn in IW; intuition discriminate).
  assert (e = e0 /\ c0 = c).
  { destruct EE as [-> | ->]; destruct EE0 as [-> | ->]; destruct jl; cbn in IW; intuition (try discriminate);
      match goal with H : _ = _ |- _ => inv H; auto end. }
  destruct H as [<- ->].
  assert (NP : ~ In e ([EvCommit t0 c g jl; EvDelete c g] ++ lv c g jl))
    by (destruct EE as [-> | ->]; destruct jl; cbn; intuition discriminate).
  rewrite app_assoc in EW. symmetry in EW. apply split_unique in EW; auto. destruct EW as [PA PB].
  exists t0, jl.
  split; [apply (in_proj g); rewrite PA; left; auto|].
  split; [apply (in_proj g); rewrite PA; right; left; auto|].
  split; [intros ->; apply (in_proj g); rewrite PA; cbn; auto|].
  intros e' U. split; apply NI; auto; rewrite ?PA, ?PB; auto.
  destruct e'; try discriminate; destruct jl; cbn; intuition discriminate.
Qed.

(* what an established subscription that is no longer in c.channels left behind, at rest *)
Theorem ended_subscription_word sched s t0 c g jl :
  no_timeout sched = true -> exec sched init = Some s -> settled s ->
  In (EvCommit t0 c g jl) (trace s) ->
  (forall x, lookup c (chans s) = Some x -> c_gen x <> g) ->
  exists e, (e = EvUnsubCb c g \/ e = EvUnsubSkipped c g) /\
            proj g (trace s) = [EvCommit t0 c g jl; EvDelete c g] ++ lv c g jl ++ [e].
Proof.
  intros NT E ST IC GONE.
  assert (IP : In (EvCommit t0 c g jl) (proj g (trace s))) by (apply filter_In; split; auto; cbn; apply N.eqb_refl).
  destruct (ends_settled _ _ g NT E ST) as [P|[(t1 & c1 & jl1 & x & P & L & G & _)|(t1 & c1 & jl1 & e & EE & P)]];
    rewrite P in IP.
  - destruct IP.
  - destruct IP as [X|[]]. inv X. exfalso. eapply GONE; eauto.
  - assert (X : EvCommit t1 c1 g jl1 = EvCommit t0 c g jl).
    { destruct jl1; cbn in IP; destruct EE as [-> | ->]; intuition discriminate. }
    inv X. exists e. auto.
Qed.

(* no commit for a generation (failed or rolled-back attempt): no delete, leave or unsubscribe *)
Theorem never_committed_nothing sched s g :
  no_timeout sched = true -> exec sched init = Some s ->
  (forall t0 c jl, ~ In (EvCommit t0 c g jl) (trace s)) -> proj g (trace s) = [].
Proof.
  intros NT E NC. pose proof (ends_word _ _ g NT E) as W.
  remember (proj g (trace s)) as w eqn:EW.
  destruct W as [|t0 c jl|t0 c jl|t0 c jl|t0 c jl e EE]; auto; exfalso;
    apply (NC t0 c jl); apply (in_proj g); rewrite <- EW; left; auto.
Qed.

(* C07: with the window between commit and PublishJoin excluded (the delete of generation g does
   not precede its join), the leave comes after the join *)
Theorem leave_after_join sched s t c g a b :
  no_timeout sched = true -> exec sched init = Some s ->
  (forall a1 a2, trace s = a1 ++ EvDelete c g :: a2 -> In (EvJoin t c g) a1) ->
  trace s = a ++ EvLeave c g :: b -> In (EvJoin t c g) a.
Proof.
  intros NT E JW TR. destruct (leave_after_delete _ _ _ _ _ _ NT E TR) as (_ & ID & _).
  apply in_split in ID. destruct ID as (a1 & a3 & ->).
  apply in_or_app. left. apply (JW a1 (a3 ++ EvLeave c g :: b)).
  rewrite TR, <- app_assoc. reflexivity.
Qed.
