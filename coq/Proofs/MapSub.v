(* C22 proofs: stream read soundness, knowledge invariant of the protocol client,
   convergence. *)
From Coq Require Import List Arith Bool NArith Lia.
From Cfg Require Import Model.Merge Model.MergeSpec Proofs.Merge Model.MapSub Proofs.MapSubLib.
Import ListNotations.
Close Scope N_scope.
Open Scope nat_scope.

(* ------------------------------------------------------------ stream read *)
Lemma window_changes : forall b from, WF b -> b_lo b <= from -> 1 <= from ->
  window b from = changes b (from - 1) (top b).
Proof.
  intros b from [W1 W2] H1 H2. unfold window, changes.
  rewrite Nat.max_l by lia.
  replace (S (from - 1)) with from by lia.
  replace (S (top b) - from) with (top b - (from - 1)) by lia.
  f_equal. symmetry. apply firstn_all2. rewrite skipn_length. unfold top. lia.
Qed.

Definition known (since : nat) (ep : option nat) : bool :=
  Nat.ltb 0 since || match ep with Some _ => true | None => false end.

Lemma In_firstn' : forall (A : Type) n (l : list A) x, In x (firstn n l) -> In x l.
Proof.
  intros A n. induction n as [|n IH]; intros l x H; [destruct H|].
  destruct l; [destruct H|]. destruct H; [left; auto|right; apply IH; auto].
Qed.

Lemma broker_read_spec : forall b since ep limit ps t e,
  broker_read_stream b since ep limit = SOk ps t e ->
  t = top b /\ e = b_epoch b /\ (forall x, ep = Some x -> x = b_epoch b) /\
  ps = (if Nat.eqb (top b) since then []
        else if Nat.ltb (top b) (S since) then []
        else firstn limit (window b (if Nat.leb (b_lo b) (S since) then S since else b_lo b))).
Proof.
  intros b since ep limit ps t e H. unfold broker_read_stream in H.
  destruct ep as [x|].
  - destruct (Nat.eqb x (b_epoch b)) eqn:Ex; [|discriminate]. apply Nat.eqb_eq in Ex.
    destruct (Nat.eqb (top b) since); [inversion H; subst; repeat split; auto; intros y Hy; inversion Hy; auto|].
    destruct (Nat.ltb (top b) (S since)); inversion H; subst; repeat split; auto; intros y Hy; inversion Hy; auto.
  - destruct (Nat.eqb (top b) since); [inversion H; subst; repeat split; auto; intros y Hy; discriminate|].
    destruct (Nat.ltb (top b) (S since)); inversion H; subst; repeat split; auto; intros y Hy; discriminate.
Qed.

Lemma changes_first : forall b p q o c rest, p < q -> q <= top b ->
  changes b p q = (o, c) :: rest -> o = S p.
Proof.
  intros b p q o c rest H1 H2 H. unfold changes in H.
  destruct (q - p) as [|n] eqn:En; [lia|]. cbn [seq] in H.
  destruct (firstn (S n) (skipn p (b_log b))); cbn in H; [discriminate|]. inversion H; reflexivity.
Qed.

Lemma firstn_head : forall (A : Type) n (l : list A) x rest, firstn n l = x :: rest -> exists t, l = x :: t.
Proof. intros A n l x rest H. destruct n; [discriminate|]. destruct l; [discriminate|]. inversion H; subst. eauto. Qed.

(* with the proposed detection an accepted read is the exact continuation *)
Lemma node_read_fixed : forall b since ep limit pubs t e,
  WF b -> since <= top b -> 1 <= limit -> known since ep = true ->
  node_read_stream true b since ep limit = SOk pubs t e ->
  t = top b /\ e = b_epoch b /\ pubs = firstn limit (changes b since (top b)) /\
  (forall x, ep = Some x -> x = b_epoch b).
Proof.
  intros b since ep limit pubs t e WFb Hs Hl Hk H.
  unfold node_read_stream in H.
  destruct (broker_read_stream b since ep limit) as [|ps t0 e0] eqn:Eb; [discriminate|].
  destruct (broker_read_spec _ _ _ _ _ _ _ Eb) as [Ht [He [Hx Hps]]]. subst t0 e0.
  unfold known in Hk. rewrite Hk in H. cbn [andb] in H.
  destruct (Nat.eqb (top b) since) eqn:E1.
  - apply Nat.eqb_eq in E1. subst ps.
    destruct (Nat.ltb since (top b)) eqn:E4; [apply Nat.ltb_lt in E4; lia|].
    cbn [orb] in H. inversion H; subst pubs t e.
    rewrite E1, changes_nil. destruct limit; auto.
  - apply Nat.eqb_neq in E1.
    destruct (Nat.ltb (top b) (S since)) eqn:E2; [apply Nat.ltb_lt in E2; lia|].
    destruct (Nat.leb (b_lo b) (S since)) eqn:E3.
    + apply Nat.leb_le in E3.
      rewrite window_changes in Hps by (auto; lia). replace (S since - 1) with since in Hps by lia.
      destruct ps as [|[o c] rest].
      * exfalso. assert (Hlen : length (changes b since (top b)) = top b - since) by (apply changes_length; lia).
        destruct (changes b since (top b)); [cbn in Hlen; lia|]. destruct limit; [lia|discriminate].
      * symmetry in Hps. destruct (firstn_head _ _ _ _ _ Hps) as [tl Htl].
        assert (Ho : o = S since) by (eapply changes_first; [| |exact Htl]; lia).
        subst o. rewrite Nat.ltb_irrefl in H. cbn [orb] in H. inversion H; subst pubs t e. auto.
    + apply Nat.leb_gt in E3. exfalso. destruct WFb as [W1 W2].
      rewrite window_changes in Hps by (unfold WF; auto; lia).
      destruct ps as [|[o c] rest].
      * rewrite (proj2 (Nat.ltb_lt since (top b))) in H by lia. cbn [orb] in H. discriminate.
      * assert (Hin : In (o, c) (changes b (b_lo b - 1) (top b))).
        { apply (In_firstn' _ limit). rewrite <- Hps. left; reflexivity. }
        destruct (changes_In _ _ _ _ _ Hin) as [A _].
        rewrite (proj2 (Nat.ltb_lt (S since) o)) in H by lia. cbn [orb] in H. discriminate.
Qed.

(* ------------------------------------------------------------ live transition *)
From Cfg Require Import Proofs.MapSubMerge.

Section Protocol.
  Variable K : nat.
  Variable vis : key -> bool.
  Variable tlimit : nat.

  Notation transition := (transition true vis tlimit).
  Notation vis_pubs := (vis_pubs vis).

  Lemma to_mpub_mk : forall p, to_mpub p = mk (fst p).
  Proof. reflexivity. Qed.

  Lemma lookup_unique : forall (all : list (nat * change)) b o,
    (forall o' c, In (o', c) all -> c = chg b o') ->
    (exists c, In (o, c) all) ->
    firstn 1 (lookup_pub all (N.of_nat o)) = [(o, chg b o)].
  Proof.
    intros all b o Hall [c Hin]. unfold lookup_pub.
    induction all as [|[o' c'] t IH]; [destruct Hin|].
    cbn [filter fst]. destruct (N.eqb (N.of_nat o') (N.of_nat o)) eqn:E.
    - apply N.eqb_eq in E. apply Nat2N.inj in E. subst o'. cbn.
      rewrite (Hall o c' (or_introl eq_refl)). reflexivity.
    - destruct Hin as [Hin|Hin].
      + inversion Hin; subst. rewrite N.eqb_refl in E. discriminate.
      + apply IH; auto. intros o'' c'' H. apply (Hall o'' c''). right; auto.
  Qed.

  Lemma transition_spec : forall b since x isrec rf entries g1 g2 b' s' l' rep,
    WF b -> (x = b_epoch b -> since <= top b) ->
    transition b since (Some x) isrec rf entries g1 g2 = (b', s', l', rep) ->
    b' = apply_ws (apply_ws b g1) g2 /\ s' = s_none /\
    ((exists er, rep = PErr er /\ l_sub l' = false) \/
     (exists pubs latest, rep = PLive entries pubs latest x rf /\ (exists l0, pubs = vis_pubs l0) /\
        l' = mkL true latest x /\
        x = b_epoch (apply_ws b g1) /\
        (b_epoch b' = b_epoch b -> latest = top b' /\ pubs = vis_pubs (changes b' since (top b'))))).
  Proof.
    intros b since x isrec rf entries g1 g2 b' s' l' rep WFb Hs H.
    unfold MapSub.transition in H.
    set (b1 := apply_ws b g1) in *. set (b2 := apply_ws b1 g2) in *.
    destruct (node_read_stream true b1 since (Some x) (S tlimit)) as [|pubs t e] eqn:Er.
    { inversion H; subst. split; auto. split; auto. left. eexists; split; reflexivity. }
    (* epoch relation between b and b1 *)
    destruct (Nat.eq_dec (b_epoch b1) (b_epoch b)) as [Ee1|Ne1].
    2:{ (* a clear inside g1: the read either failed or the epoch check rejects; if accepted, x = epoch of b1 *)
        assert (Hx : x = e /\ e = b_epoch b1).
        { unfold node_read_stream in Er.
          destruct (broker_read_stream b1 since (Some x) (S tlimit)) as [|ps t0 e0] eqn:Eb; [discriminate|].
          destruct (broker_read_spec _ _ _ _ _ _ _ Eb) as [_ [He [Hx _]]].
          cbn [orb andb] in Er.
          destruct ((Nat.ltb 0 since || true) && _) in Er; [discriminate|]. inversion Er; subst.
          split; [apply Hx; reflexivity|reflexivity]. }
        destruct Hx as [Hx He].
        assert (Hxb : x = b_epoch b1) by congruence.
        assert (Hex : e = x) by congruence. clear Hx He. subst e.
        cbn [orb andb] in H. rewrite orb_true_r in H.
        rewrite Nat.eqb_refl in H. cbn [negb andb] in H.
        destruct (Nat.ltb tlimit (length pubs)).
        { inversion H; subst. split; auto. split; auto. left. eexists; split; reflexivity. }
        destruct (merge (map to_mpub pubs) (map to_mpub (buffered_of b g1 g2))) as [[out maxo] ok].
        destruct ok; cbn [negb] in H.
        - inversion H; subst b' s' l' rep. split; auto. split; auto. right. do 2 eexists. split; [reflexivity|]. split; [eexists; reflexivity|].
          split; [reflexivity|]. split; [exact Hxb|].
          intros Hb. exfalso. pose proof (apply_ws_epoch_mono g1 b) as M1. pose proof (apply_ws_epoch_mono g2 b1) as M2.
          fold b1 in M1. fold b2 in M2, Hb. lia.
        - inversion H; subst. split; auto. split; auto. left. eexists; split; reflexivity. }
    pose proof (apply_ws_ext g1 b Ee1) as X1. fold b1 in X1.
    pose proof (WF_apply_ws g1 b WFb) as WF1. fold b1 in WF1.
    pose proof (ext_top _ _ X1) as T1.
    assert (Hxe : x = b_epoch b1).
    { unfold node_read_stream in Er.
      destruct (broker_read_stream b1 since (Some x) (S tlimit)) as [|ps t0 e0] eqn:Eb; [discriminate|].
      destruct (broker_read_spec _ _ _ _ _ _ _ Eb) as [_ [_ [Hx0 _]]]. apply Hx0; reflexivity. }
    assert (Hs' : since <= top b) by (apply Hs; congruence). clear Hs. rename Hs' into Hs.
    destruct (node_read_fixed b1 since (Some x) (S tlimit) pubs t e WF1 ltac:(lia) ltac:(lia)
                ltac:(unfold known; apply orb_true_r) Er) as [Ht [He [Hp Hx]]].
    specialize (Hx x eq_refl). subst t e.
    cbn [orb andb] in H. rewrite orb_true_r in H. rewrite Hx, Nat.eqb_refl in H. cbn [negb andb] in H.
    destruct (Nat.ltb tlimit (length pubs)) eqn:El.
    { inversion H; subst. split; auto. split; auto. left. eexists; split; reflexivity. }
    apply Nat.ltb_ge in El.
    (* the read was not truncated *)
    assert (Hfull : pubs = changes b1 since (top b1)).
    { rewrite Hp. apply firstn_all2. rewrite Hp in El. rewrite firstn_length in El.
      rewrite changes_length in * by lia. lia. }
    destruct (Nat.eq_dec (b_epoch b2) (b_epoch b1)) as [Ee2|Ne2].
    2:{ (* clear inside g2: nothing to claim about the new epoch *)
        destruct (merge (map to_mpub pubs) (map to_mpub (buffered_of b g1 g2))) as [[out maxo] ok].
        destruct ok; cbn [negb] in H.
        - inversion H; subst. split; auto. split; auto. right. do 2 eexists. split; [reflexivity|]. split; [eexists; reflexivity|].
          split; [reflexivity|]. split; [reflexivity|]. intros Hb. exfalso. fold b2 in Hb. congruence.
        - inversion H; subst. split; auto. split; auto. left. eexists; split; reflexivity. }
    pose proof (apply_ws_ext g2 b1 Ee2) as X2. fold b2 in X2.
    pose proof (ext_top _ _ X2) as T2.
    assert (Hbuf : buffered_of b g1 g2 = changes b2 (top b) (top b2)).
    { unfold buffered_of. fold b1. fold b2. rewrite Ee2, Ee1, !Nat.eqb_refl. cbn [andb].
      rewrite (pubs_between_changes _ _ X1), (pubs_between_changes _ _ X2).
      rewrite <- (ext_changes b1 b2 (top b) (top b1) X2) by lia. symmetry. apply changes_split; lia. }
    assert (Hpubs : pubs = changes b2 since (top b1)).
    { rewrite Hfull. symmetry. apply ext_changes; auto; lia. }
    rewrite Hbuf in H.
    assert (Hm : merge (map to_mpub pubs) (map to_mpub (changes b2 (top b) (top b2))) =
                 (map mk (seq (S since) ((top b2) - since)), N.of_nat (if Nat.ltb since (top b2) then (top b2) else 0), true)).
    { apply merge_contig; [lia| |].
      - intros p Hp'. rewrite <- map_app in Hp'. apply in_map_iff in Hp'. destruct Hp' as [[o c] [<- Hin]].
        exists o. split; [|reflexivity]. rewrite Hpubs in Hin. apply in_app_or in Hin.
        destruct Hin as [Hin|Hin]; destruct (changes_In _ _ _ _ _ Hin); lia.
      - intros o Ho. rewrite <- map_app. apply in_map_iff.
        exists (o, chg b2 o). split; [reflexivity|]. apply in_or_app.
        destruct (le_lt_dec o (top b1)); [left; rewrite Hpubs|right]; apply changes_cover; lia. }
    rewrite Hm in H. cbn [negb] in H. rewrite <- Hx in H. inversion H; subst b' s' l' rep; clear H.
    split; auto. split; auto. right. do 2 eexists. split; [reflexivity|]. split; [eexists; reflexivity|]. split; [reflexivity|].
    split; [exact Hx|]. intros _.
    assert (Hlatest : Nat.max (top b1) (Nat.max (N.to_nat (N.of_nat (if Nat.ltb since (top b2) then (top b2) else 0)))
                        match rev (map mk (seq (S since) ((top b2) - since))) with
                        | p :: _ => N.to_nat (p_off p) | [] => 0 end) = (top b2)).
    { rewrite Nat2N.id.
      assert (A : match rev (map mk (seq (S since) ((top b2) - since))) with p :: _ => N.to_nat (p_off p) | [] => 0 end <= (top b2)).
      { destruct (rev (map mk (seq (S since) ((top b2) - since)))) as [|p r] eqn:Erev; [lia|].
        assert (In p (map mk (seq (S since) ((top b2) - since)))) by (apply in_rev; rewrite Erev; left; auto).
        apply in_map_iff in H. destruct H as [o [<- Ho]]. apply in_seq in Ho. cbn. rewrite Nat2N.id. lia. }
      destruct (Nat.ltb since (top b2)) eqn:E; [apply Nat.ltb_lt in E|apply Nat.ltb_ge in E]; lia. }
    split; [exact Hlatest|].
    f_equal.
    (* the merged list is the range of changes *)
    rewrite flat_map_concat_map, map_map.
    rewrite (changes_map b2 since (top b2)) by lia.
    assert (G : forall l, (forall o, In o l -> since < o <= (top b2)) ->
              concat (map (fun o => firstn 1 (lookup_pub (pubs ++ changes b2 (top b) (top b2)) (p_off (mk o)))) l)
              = map (fun o => (o, chg b2 o)) l).
    { induction l as [|o l' IH]; intros Hl; [reflexivity|]. cbn [map concat].
      rewrite IH by (intros o' Ho'; apply Hl; right; auto). cbn [mk p_off].
      rewrite (lookup_unique _ b2 o); [reflexivity| |].
      - intros o' c Hin. rewrite Hpubs in Hin. apply in_app_or in Hin.
        destruct Hin as [Hin|Hin]; eapply changes_In_chg; eauto.
      - exists (chg b2 o). specialize (Hl o (or_introl eq_refl)). apply in_or_app.
        destruct (le_lt_dec o (top b1)); [left; rewrite Hpubs|right]; apply changes_cover; lia. }
    apply G. intros o Ho. apply in_seq in Ho. lia.
  Qed.

  (* ---------------------------------------------------------- client knowledge *)
  Definition pending (b : broker) (p : nat) (k : key) : Prop :=
    exists o, p < o <= top b /\ ck (chg b o) = k.

  Definition Pend (b : broker) (m : key -> option val) (p : nat) : Prop :=
    forall k, (vis k = false -> m k = None) /\
              (vis k = true -> m k = vof (state_at b p) k \/ pending b p k).

  Definition Sync (b : broker) (m : key -> option val) (q : nat) : Prop :=
    forall k, m k = if vis k then vof (state_at b q) k else None.

  Definition Invis (b : broker) (p q : nat) : Prop :=
    forall o, p < o <= q -> vis (ck (chg b o)) = false.

  Lemma nth_chg : forall b o, 1 <= o <= top b -> nth_error (b_log b) (o - 1) = Some (chg b o).
  Proof. intros b o H. unfold chg. apply nth_error_nth'. unfold top in H. lia. Qed.

  Lemma apply_pubs_app : forall m l1 l2, apply_pubs m (l1 ++ l2) = apply_pubs (apply_pubs m l1) l2.
  Proof. intros; unfold apply_pubs; apply fold_left_app. Qed.

  Lemma vis_pubs_app : forall l1 l2, vis_pubs (l1 ++ l2) = vis_pubs l1 ++ vis_pubs l2.
  Proof. intros; unfold MapSub.vis_pubs; apply filter_app. Qed.

  Lemma pend_step : forall b m q, q < top b -> Pend b m q ->
    Pend b (apply_pubs m (vis_pubs [(S q, chg b (S q))])) (S q).
  Proof.
    intros b m q Hq HP k. destruct (HP k) as [HI HV].
    pose proof (nth_chg b (S q) ltac:(lia)) as Hn. replace (S q - 1) with q in Hn by lia.
    pose proof (state_at_S b q _ Hn k) as HS.
    cbn [MapSub.vis_pubs filter snd].
    destruct (vis (ck (chg b (S q)))) eqn:Ev; cbn [apply_pubs fold_left snd].
    - unfold cset. destruct (Nat.eqb k (ck (chg b (S q)))) eqn:Ek.
      + apply Nat.eqb_eq in Ek. subst k. split; [congruence|]. intros _. left.
        unfold vof. rewrite HS. unfold upd. rewrite Nat.eqb_refl. destruct (cv (chg b (S q))); reflexivity.
      + split; [exact HI|]. intros Hv. destruct (HV Hv) as [A|[o [Ho Hk]]].
        * left. rewrite A. unfold vof. rewrite HS. unfold upd. rewrite Ek. reflexivity.
        * right. exists o. split; [|exact Hk]. destruct (Nat.eq_dec o (S q)); [|lia].
          subst o. apply Nat.eqb_neq in Ek. congruence.
    - split; [exact HI|]. intros Hv. destruct (Nat.eqb k (ck (chg b (S q)))) eqn:Ek.
      + apply Nat.eqb_eq in Ek. congruence.
      + destruct (HV Hv) as [A|[o [Ho Hk]]].
        * left. rewrite A. unfold vof. rewrite HS. unfold upd. rewrite Ek. reflexivity.
        * right. exists o. split; [|exact Hk]. destruct (Nat.eq_dec o (S q)); [|lia].
          subst o. apply Nat.eqb_neq in Ek. congruence.
  Qed.

  Lemma pend_apply : forall b m n p, p + n <= top b -> Pend b m p ->
    Pend b (apply_pubs m (vis_pubs (changes b p (p + n)))) (p + n).
  Proof.
    intros b m n. induction n as [|n IH]; intros p H HP.
    - rewrite Nat.add_0_r, changes_nil. exact HP.
    - rewrite (changes_split b p (p + n) (p + S n)) by lia.
      rewrite vis_pubs_app, apply_pubs_app.
      replace (p + S n) with (S (p + n)) by lia.
      rewrite (changes_map b (p + n) (S (p + n))) by lia.
      replace (S (p + n) - (p + n)) with 1 by lia. cbn [seq map].
      apply pend_step; [lia|]. apply IH; [lia|exact HP].
  Qed.

  Lemma pend_apply' : forall b m p q, p <= q -> q <= top b -> Pend b m p ->
    Pend b (apply_pubs m (vis_pubs (changes b p q))) q.
  Proof. intros b m p q H1 H2 HP. replace q with (p + (q - p)) by lia. apply pend_apply; [lia|exact HP]. Qed.

  Lemma pend_top : forall b m, Pend b m (top b) -> Sync b m (top b).
  Proof.
    intros b m HP k. destruct (HP k) as [HI HV]. destruct (vis k) eqn:Ev; [|auto].
    destruct (HV eq_refl) as [A|[o [Ho _]]]; [exact A|lia].
  Qed.

  Lemma pend_ext : forall b b' m p, same_epoch_ext b b' -> p <= top b -> Pend b m p -> Pend b' m p.
  Proof.
    intros b b' m p E Hp HP k. destruct (HP k) as [HI HV]. split; [exact HI|].
    intros Hv. destruct (HV Hv) as [A|[o [Ho Hk]]].
    - left. rewrite A. unfold vof. rewrite (ext_state_at _ _ _ E Hp). reflexivity.
    - right. exists o. pose proof (ext_top _ _ E). split; [lia|]. rewrite (ext_chg _ _ _ E); [exact Hk|lia].
  Qed.

  Lemma smap_val_dec : forall (a b : option (nat * val)), {a = b} + {a <> b}.
  Proof. decide equality. destruct a0, p. decide equality; [apply N.eq_dec|apply Nat.eq_dec]. Qed.

  Lemma sync_pend : forall b m p q, p <= q -> q <= top b -> Sync b m q -> Invis b p q -> Pend b m p.
  Proof.
    intros b m p q H1 H2 HS HI k. specialize (HS k). split.
    - intros Hv. rewrite Hv in HS. exact HS.
    - intros Hv. rewrite Hv in HS. left. rewrite HS.
      destruct (smap_val_dec (state_at b p k) (state_at b q k)) as [E|N]; [unfold vof; rewrite E; reflexivity|].
      exfalso. destruct (state_at_diff b q p k H1 H2 N) as [o [c [Ho [Hn Hk]]]].
      pose proof (HI o Ho) as Hinv. rewrite (nth_chg b o ltac:(lia)) in Hn. inversion Hn; subst c.
      rewrite Hk in Hinv. congruence.
  Qed.

  Lemma sync_ext : forall b b' m q, same_epoch_ext b b' -> q <= top b -> Sync b m q -> Sync b' m q.
  Proof.
    intros b b' m q E Hq HS k. rewrite (HS k). unfold vof. rewrite (ext_state_at _ _ _ E Hq). reflexivity.
  Qed.

End Protocol.
