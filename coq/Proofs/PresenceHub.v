(* presenceHub: for ANY sequence of add/remove calls the stored presence is the
   history's presence set, and getStats counts exactly its distinct clients and users. *)
From Coq Require Import List NArith Bool Lia Permutation.
From Cfg Require Import Model.PresenceHub.
Import ListNotations.
Open Scope N_scope.

(* ---- specification from the property text: the presence SET determined by the history ---- *)
Definition psem (f : N -> N -> option N) (o : pop) : N -> N -> option N :=
  fun c uid =>
    match o with
    | PAdd c' uid' user => if (c =? c') && (uid =? uid') then Some user else f c uid
    | PRemove c' uid' => if (c =? c') && (uid =? uid') then None else f c uid
    end.
(* present ops c uid = Some user  iff  the last call about (c, uid) was an add carrying [user] *)
Definition present (ops : list pop) : N -> N -> option N := fold_left psem ops (fun _ _ => None).

(* ---- pmap lemmas ---- *)
Lemma plookup_premove {V} k k' (m : pmap V) :
  plookup k (premove k' m) = if k =? k' then None else plookup k m.
Proof.
  induction m as [|[a v] m IH]; cbn.
  - destruct (k =? k'); reflexivity.
  - destruct (N.eqb_spec k' a); subst.
    + rewrite IH. destruct (N.eqb_spec k a); reflexivity.
    + cbn. rewrite IH. destruct (N.eqb_spec k a); subst; auto.
      destruct (N.eqb_spec a k'); [congruence|reflexivity].
Qed.
Lemma plookup_pset {V} k k' (v : V) m :
  plookup k (pset k' v m) = if k =? k' then Some v else plookup k m.
Proof. unfold pset. cbn. rewrite plookup_premove. destruct (k =? k'); reflexivity. Qed.

Lemma in_premove {V} k x (m : pmap V) : In x (map fst (premove k m)) <-> In x (map fst m) /\ x <> k.
Proof.
  induction m as [|[a v] m IH]; cbn; [tauto|].
  destruct (N.eqb_spec k a); subst; cbn; rewrite IH; intuition congruence.
Qed.
Lemma nodup_premove {V} k (m : pmap V) : NoDup (map fst m) -> NoDup (map fst (premove k m)).
Proof.
  induction m as [|[a v] m IH]; cbn; auto. intros H. inversion H; subst.
  destruct (N.eqb_spec k a); subst; auto. cbn. constructor; auto.
  rewrite in_premove. tauto.
Qed.
Lemma nodup_pset {V} k (v : V) m : NoDup (map fst m) -> NoDup (map fst (pset k v m)).
Proof.
  intros H. unfold pset. cbn. constructor; [rewrite in_premove; tauto|apply nodup_premove; auto].
Qed.
Lemma in_keys_plookup {V} k (m : pmap V) : In k (map fst m) <-> plookup k m <> None.
Proof.
  induction m as [|[a v] m IH]; cbn; [split; [tauto|congruence]|].
  destruct (N.eqb_spec k a); subst; [split; [congruence|auto]|].
  rewrite <- IH. intuition congruence.
Qed.
Lemma in_vals_plookup u (m : pmap N) :
  NoDup (map fst m) -> (In u (map snd m) <-> exists k, plookup k m = Some u).
Proof.
  induction m as [|[a v] m IH]; cbn; intros H.
  - split; [tauto|intros [? ?]; discriminate].
  - inversion H; subst. rewrite IH; auto. split.
    + intros [->|(k0 & E)].
      * exists a. rewrite N.eqb_refl. reflexivity.
      * exists k0. destruct (N.eqb_spec k0 a); subst; auto.
        exfalso. apply H2. apply in_keys_plookup. congruence.
    + intros (k0 & E). destruct (N.eqb_spec k0 a); subst; [inversion E; auto|right; eauto].
Qed.

(* ---- the hub is a faithful store of the history's presence set ---- *)
Definition WF (h : phub) : Prop :=
  NoDup (map fst h) /\ forall c m, plookup c h = Some m -> NoDup (map fst m) /\ m <> [].
Definition Rep (h : phub) (f : N -> N -> option N) : Prop :=
  WF h /\ forall c uid, plookup uid (pget h c) = f c uid.

Lemma rep_step h f o : Rep h f -> Rep (papply h o) (psem f o).
Proof.
  intros [[ND WFm] R]. destruct o as [c uid user|c uid]; cbn.
  - (* add *)
    unfold padd. destruct (plookup c h) as [inner|] eqn:EL.
    + destruct (WFm _ _ EL) as [NDi _]. split; [split|].
      * apply nodup_pset; auto.
      * intros c0 m. rewrite plookup_pset. destruct (N.eqb_spec c0 c); subst; [|apply WFm].
        intros [= <-]. split; [apply nodup_pset; auto|discriminate].
      * intros c0 u0. unfold psem, pget. rewrite plookup_pset.
        destruct (N.eqb_spec c0 c); subst; cbn [andb].
        -- rewrite plookup_pset. destruct (u0 =? uid); auto.
           specialize (R c u0). unfold pget in R. rewrite EL in R. auto.
        -- apply R.
    + split; [split|].
      * apply nodup_pset; auto.
      * intros c0 m. rewrite plookup_pset. destruct (N.eqb_spec c0 c); subst; [|apply WFm].
        intros [= <-]. split; [apply nodup_pset; constructor|discriminate].
      * intros c0 u0. unfold psem, pget. rewrite plookup_pset.
        destruct (N.eqb_spec c0 c); subst; cbn [andb].
        -- rewrite plookup_pset. destruct (u0 =? uid); auto.
           specialize (R c u0). unfold pget in R. rewrite EL in R. auto.
        -- apply R.
  - (* remove *)
    unfold prem. destruct (plookup c h) as [inner|] eqn:EL.
    + destruct (WFm _ _ EL) as [NDi NEi].
      destruct (plookup uid inner) eqn:EU.
      * destruct (premove uid inner) as [|p r] eqn:EP.
        -- split; [split|].
           ++ apply nodup_premove; auto.
           ++ intros c0 m. rewrite plookup_premove. destruct (N.eqb_spec c0 c); [discriminate|apply WFm].
           ++ intros c0 u0. unfold psem, pget. rewrite plookup_premove.
              destruct (N.eqb_spec c0 c); subst; cbn [andb].
              ** destruct (N.eqb_spec u0 uid); subst; auto. cbn.
                 specialize (R c u0). unfold pget in R. rewrite EL in R. rewrite <- R.
                 pose proof (plookup_premove u0 uid inner) as P. rewrite EP in P. cbn in P.
                 destruct (N.eqb_spec u0 uid); [congruence|auto].
              ** apply R.
        -- split; [split|].
           ++ apply nodup_pset; auto.
           ++ intros c0 m. rewrite plookup_pset. destruct (N.eqb_spec c0 c); subst; [|apply WFm].
              intros [= <-]. split; [rewrite <- EP; apply nodup_premove; auto|discriminate].
           ++ intros c0 u0. unfold psem, pget. rewrite plookup_pset.
              destruct (N.eqb_spec c0 c); subst; cbn [andb].
              ** rewrite <- EP, plookup_premove. destruct (u0 =? uid); auto.
                 specialize (R c u0). unfold pget in R. rewrite EL in R. auto.
              ** apply R.
      * (* uid absent: nothing changes *)
        split; [split; auto|]. intros c0 u0. unfold psem.
        destruct (N.eqb_spec c0 c); subst; cbn [andb]; [|apply R].
        destruct (N.eqb_spec u0 uid); subst; [|apply R].
        unfold pget. rewrite EL. auto.
    + split; [split; auto|]. intros c0 u0. unfold psem.
      destruct (N.eqb_spec c0 c); subst; cbn [andb]; [|apply R].
      destruct (N.eqb_spec u0 uid); subst; [|apply R].
      unfold pget. rewrite EL. reflexivity.
Qed.

Lemma rep_run_from ops : forall h f, Rep h f -> Rep (fold_left papply ops h) (fold_left psem ops f).
Proof. induction ops as [|o ops IH]; cbn; intros; auto. apply IH. apply rep_step; auto. Qed.

Lemma rep_run ops : Rep (prun ops) (present ops).
Proof.
  apply rep_run_from. split; [split; [constructor|intros c m; cbn; discriminate]|reflexivity].
Qed.

(* contents: Node.Presence(ch) holds uid (with its user) iff the history says so *)
Theorem pget_spec ops c uid : plookup uid (pget (prun ops) c) = present ops c uid.
Proof. apply (rep_run ops). Qed.

(* ---- counting ---- *)
Fixpoint dedup (l seen : list N) : list N :=
  match l with
  | [] => []
  | x :: l' => if memN x seen then dedup l' seen else x :: dedup l' (x :: seen)
  end.
Lemma memN_In x l : memN x l = true <-> In x l.
Proof.
  induction l as [|y l IH]; cbn; [split; [discriminate|tauto]|].
  rewrite orb_true_iff, IH. destruct (N.eqb_spec x y); subst; intuition congruence.
Qed.
Lemma dedup_in l : forall seen x, In x (dedup l seen) <-> In x l /\ ~ In x seen.
Proof.
  induction l as [|y l IH]; cbn; intros seen x; [tauto|].
  destruct (memN y seen) eqn:E.
  - apply memN_In in E. rewrite IH. intuition (subst; tauto).
  - assert (NI : ~ In y seen) by (rewrite <- memN_In; congruence).
    cbn. rewrite IH. cbn. split.
    + intros [E1|[A B]]; [subst; tauto|tauto].
    + intros [[E1|A] B]; [left; auto|]. destruct (N.eq_dec y x); [left; auto|right; tauto].
Qed.
Lemma dedup_nodup l : forall seen, NoDup (dedup l seen).
Proof.
  induction l as [|y l IH]; cbn; intros seen; [constructor|].
  destruct (memN y seen); auto. constructor; auto. rewrite dedup_in. cbn. tauto.
Qed.
Lemma count_users_dedup m : forall seen, count_users m seen = N.of_nat (length (dedup (map snd m) seen)).
Proof.
  induction m as [|[k u] m IH]; intros seen; [reflexivity|].
  cbn [count_users map snd dedup]. destruct (memN u seen); auto. rewrite IH. cbn [length]. lia.
Qed.

Lemma nodup_same_length (a b : list N) :
  NoDup a -> NoDup b -> (forall x, In x a <-> In x b) -> length a = length b.
Proof. intros. apply Permutation_length. apply NoDup_Permutation; auto. Qed.

(* statistics: exactly the distinct clients and the distinct users of the presence set,
   whatever duplicate-free enumerations [lc], [lu] of them one takes *)
Theorem pstats_spec ops c lc lu :
  NoDup lc -> (forall uid, In uid lc <-> present ops c uid <> None) ->
  NoDup lu -> (forall u, In u lu <-> exists uid, present ops c uid = Some u) ->
  pstats (prun ops) c = (N.of_nat (length lc), N.of_nat (length lu)).
Proof.
  intros NC HC NU HU. destruct (rep_run ops) as [[ND WFm] R].
  unfold pstats. destruct (plookup c (prun ops)) as [m|] eqn:EL.
  - destruct (WFm _ _ EL) as [NDm _].
    assert (RM : forall uid, plookup uid m = present ops c uid).
    { intros uid. rewrite <- R. unfold pget. rewrite EL. reflexivity. }
    f_equal.
    + f_equal. rewrite <- (map_length fst m). apply nodup_same_length; auto.
      intros x. rewrite in_keys_plookup, RM, HC. tauto.
    + rewrite count_users_dedup. f_equal. apply nodup_same_length; auto; [apply dedup_nodup|].
      intros u. rewrite dedup_in, in_vals_plookup, HU; auto. cbn.
      split; [intros [(k & E) _]; exists k; rewrite <- RM; auto
             |intros (k & E); split; [exists k; rewrite RM; auto|tauto]].
  - assert (RM : forall uid, present ops c uid = None).
    { intros uid. rewrite <- R. unfold pget. rewrite EL. reflexivity. }
    assert (lc = []).
    { destruct lc as [|x lc]; auto. exfalso. apply (HC x); [left; auto|apply RM]. }
    assert (lu = []).
    { destruct lu as [|x lu]; auto. exfalso. destruct (proj1 (HU x)) as (k & E); [left; auto|].
      rewrite RM in E. discriminate. }
    subst. reflexivity.
Qed.
