(* Proved ties between shallow scripts and the interpreted ASTs of the real Lua files. *)
From Coq Require Import List NArith ZArith Bool String Ascii Lia.
From Cfg Require Import Model.RStr Model.LuaNum Model.LuaAst Model.Redis Model.Lua Model.RedisScripts Gen.LuaScripts
                        Proofs.C18Lib Proofs.C18Redis.
Import ListNotations.
Open Scope string_scope.

Opaque redis_call.

Ltac istep :=
  cbv beta iota zeta delta
    [eval_script run_script default_fuel exec eval bind bind_locals lookup assign restore lua_index call_builtin redis_args
     has_nil truthy binop_strict num_cmp str_cmp reply_to_lua lua_to_reply type_name arith_operand concat_operand
     List.length skipn Nat.sub tl rev app map fst snd nth hd
     String.eqb Ascii.eqb Bool.eqb
     Z.leb Z.ltb Z.eqb Z.compare Z.sub Z.add Z.opp Z.to_nat Z.of_nat Z.pos_sub Z.succ_double Z.pred_double Z.double
     Pos.compare Pos.compare_cont Pos.to_nat Pos.iter_op Pos.succ Pos.add Pos.pred_double Pos.eqb Nat.add Pos.of_succ_nat
     Init.Nat.add CompOpp].

Goal forall rk payload channel pubcmd rexp st,
  eval_script broker_publish_idempotent [rk] [payload; channel; pubcmd; rexp] st
  = runM (sh_publish_idempotent [rk] [payload; channel; pubcmd; rexp]) st.
Proof.
  intros. unfold broker_publish_idempotent.
  change (round53 1) with 1%Z. 
  Time istep.
  Show.
Abort.
