(* Proved ties between shallow scripts and the interpreted ASTs of the real Lua files: for every state and
   every argument (of the shape the Go code passes), interpreting the AST generated from the .lua file
   (Gen/LuaScripts.v through Model/Lua.v) gives the same final state and reply as the shallow version the
   agreement theorems are about. *)
From Coq Require Import List NArith ZArith Bool String Ascii Lia.
From Cfg Require Import Model.RStr Model.LuaNum Model.LuaAst Model.Redis Model.Lua Model.RedisScripts Gen.LuaScripts
                        Proofs.C18Lib Proofs.C18Redis.
Import ListNotations.
Open Scope string_scope.

(* ---------- the possible replies of the commands the small scripts use ---------- *)
Lemma hmget2_shape st k f1 f2 :
  redis_call st ["hmget"; k; f1; f2] = (st, wrongtype) \/
  exists a b, redis_call st ["hmget"; k; f1; f2] = (st, RArr [bulk_opt a; bulk_opt b]).
Proof.
  change (redis_call st ["hmget"; k; f1; f2]) with (cmd_hmget st [k; f1; f2]). unfold cmd_hmget.
  destruct (get_hash st k) as [[h|]|]; [right | right | left; reflexivity].
  - exists (sfind f1 h), (sfind f2 h). reflexivity.
  - exists None, None. reflexivity.
Qed.

Lemma hset1_shape st k f v :
  redis_call st ["hset"; k; f; v] = (st, wrongtype) \/ exists st' n, redis_call st ["hset"; k; f; v] = (st', RInt n).
Proof.
  change (redis_call st ["hset"; k; f; v]) with (cmd_hset st [k; f; v]). unfold cmd_hset.
  destruct (get_hash st k) as [oh|]; [right | left; reflexivity]. cbn. eexists. eexists. reflexivity.
Qed.

Lemma expire_shape st k s :
  redis_call st ["expire"; k; s] = (st, notint) \/ exists st' n, redis_call st ["expire"; k; s] = (st', RInt n).
Proof.
  change (redis_call st ["expire"; k; s]) with (cmd_expire st [k; s]). unfold cmd_expire.
  destruct (parse_ll s) as [z|]; [right | left; reflexivity].
  destruct (getk st k); [destruct (z <=? 0)%Z|]; eexists; eexists; reflexivity.
Qed.

Lemma publish_any st pc ch msg : lower pc = "publish" ->
  redis_call st [pc; ch; msg] = (mkR (store st) (now st) (outbox st ++ [(ch, msg)]), RInt 0).
Proof. intros H. unfold redis_call. rewrite H. reflexivity. Qed.

Opaque redis_call.

Definition eval_script_f (fuel : nat) (body : block) (keys argv : list string) (st : rstate) : rstate * reply :=
  match run_script fuel body keys argv st with
  | OK r => r
  | OErr st' m => (st', RErr m)
  | OUnsup m => (st, RErr ("MODEL-UNSUPPORTED " ++ m))
  | OFuel => (st, RErr "MODEL-UNSUPPORTED out of fuel")
  end.

Ltac istep :=
  cbv beta iota zeta delta
    [eval_script_f run_script exec eval bind bind_locals lookup assign restore lua_index call_builtin redis_args
     has_nil truthy binop_strict num_cmp str_cmp reply_to_lua lua_to_reply type_name arith_operand concat_operand lua_eq
     List.length skipn firstn Nat.sub tl rev app map fst snd nth hd negb andb orb
     String.eqb Ascii.eqb Bool.eqb
     round53 round53N N.ltb N.compare Z.of_N
     Z.leb Z.ltb Z.eqb Z.compare Z.sub Z.add Z.opp Z.to_nat Z.of_nat Z.pos_sub Z.succ_double Z.pred_double Z.double
     Pos.compare Pos.compare_cont Pos.to_nat Pos.iter_op Pos.succ Pos.add Pos.pred_double Pos.eqb Nat.add Pos.of_succ_nat
     Init.Nat.add CompOpp
     runM sh_publish_idempotent cached_result bindM rc ret finish unreachable arg].

Lemma publish_idempotent_tie_fuel rk payload channel pubcmd rexp st f :
  lower pubcmd = "publish" ->
  eval_script_f (40 + f) broker_publish_idempotent [rk] [payload; channel; pubcmd; rexp] st
  = runM (sh_publish_idempotent [rk] [payload; channel; pubcmd; rexp]) st.
Proof.
  intros Hpub. unfold broker_publish_idempotent. cbn [Nat.add].
  destruct rexp as [|rc rexp]; destruct channel as [|cc channel].
  - Time istep. reflexivity.
  - Time istep. rewrite (publish_any _ _ _ _ Hpub). Time istep. reflexivity.
  - Time istep. Show.
Abort.
