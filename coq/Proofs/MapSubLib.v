(* C22 library: facts about the broker model (log, state, stream window). *)
From Coq Require Import List Arith Bool NArith Lia.
From Cfg Require Import Model.Merge Model.MapSub.
Import ListNotations.
Close Scope N_scope.
Open Scope nat_scope.

Definition vof (m : smap) (k : key) : option val := option_map snd (m k).

(* changes with offsets p+1 .. q *)
Definition changes (b : broker) (p q : nat) : list (nat * change) :=
  combine (seq (S p) (q - p)) (firstn (q - p) (skipn p (b_log b))).

Definition upd (m : smap) (o : nat) (c : change) : smap :=
  fun k => if Nat.eqb k (ck c) then match cv c with Some v => Some (o, v) | None => None end else m k.

Lemma replay_log_app : forall l1 l2 off m,
  replay_log (l1 ++ l2) off m = replay_log l2 (off + length l1) (replay_log l1 off m).
Proof.
  induction l1 as [|c t IH]; intros l2 off m; cbn.
  - rewrite Nat.add_0_r. reflexivity.
  - rewrite IH. f_equal. lia.
Qed.

Lemma replay_log_ext : forall l off m1 m2, (forall k, m1 k = m2 k) ->
  forall k, replay_log l off m1 k = replay_log l off m2 k.
Proof.
  induction l as [|c t IH]; intros off m1 m2 H k; cbn; auto.
  apply IH. intros k'. destruct (Nat.eqb k' (ck c)); auto.
Qed.

Lemma firstn_S_nth : forall (A : Type) (l : list A) p x,
  nth_error l p = Some x -> firstn (S p) l = firstn p l ++ [x].
Proof.
  intros A l. induction l as [|a t IH]; intros p x H.
  - destruct p; discriminate.
  - destruct p; cbn in *.
    + inversion H; reflexivity.
    + f_equal. apply IH. exact H.
Qed.

(* one more change *)
Lemma state_at_S : forall b p c,
  nth_error (b_log b) p = Some c ->
  forall k, state_at b (S p) k = upd (state_at b p) (S p) c k.
Proof.
  intros b p c H k. unfold state_at. rewrite (firstn_S_nth _ _ _ _ H).
  rewrite replay_log_app. cbn. unfold upd.
  assert (L : length (firstn p (b_log b)) = p).
  { apply firstn_length_le. apply Nat.lt_le_incl. apply nth_error_Some. congruence. }
  rewrite L. reflexivity.
Qed.

Lemma state_at_beyond : forall b p, top b <= p -> forall k, state_at b p k = state b k.
Proof.
  intros b p H k. unfold state, state_at, top in *. rewrite !firstn_all2 by lia. reflexivity.
Qed.

(* a key whose value differs between two offsets has a change in between *)
Lemma state_at_diff : forall b q p k, p <= q -> q <= top b ->
  state_at b p k <> state_at b q k ->
  exists o c, p < o <= q /\ nth_error (b_log b) (o - 1) = Some c /\ ck c = k.
Proof.
  intros b q. induction q as [|q IH]; intros p k Hpq Hq Hd.
  - assert (p = 0) by lia. subst. exfalso. apply Hd. reflexivity.
  - destruct (Nat.eq_dec p (S q)) as [->|Hne]; [exfalso; apply Hd; reflexivity|].
    assert (Hlt : q < top b) by lia.
    destruct (nth_error (b_log b) q) as [c|] eqn:En.
    2:{ apply nth_error_None in En. unfold top in Hlt. lia. }
    destruct (Nat.eq_dec (ck c) k) as [Ek|Ek].
    + exists (S q), c. split; [lia|]. split; [|exact Ek]. replace (S q - 1) with q by lia. exact En.
    + assert (Hs : state_at b (S q) k = state_at b q k).
      { rewrite (state_at_S _ _ _ En). unfold upd. destruct (Nat.eqb k (ck c)) eqn:E; auto.
        apply Nat.eqb_eq in E. congruence. }
      rewrite Hs in Hd. destruct (IH p k ltac:(lia) ltac:(lia) Hd) as [o [c' [A B]]].
      exists o, c'. split; [lia|exact B].
Qed.

(* entries carry the offset of the key's last change *)
Lemma state_at_entry : forall b q k o v, q <= top b ->
  state_at b q k = Some (o, v) ->
  1 <= o <= q /\ nth_error (b_log b) (o - 1) = Some (mkC k (Some v)) /\
  (forall o' c, o < o' <= q -> nth_error (b_log b) (o' - 1) = Some c -> ck c <> k).
Proof.
  intros b q. induction q as [|q IH]; intros k o v Hq H.
  - cbn in H. discriminate.
  - assert (Hlt : q < top b) by lia.
    destruct (nth_error (b_log b) q) as [c|] eqn:En.
    2:{ apply nth_error_None in En. unfold top in Hlt. lia. }
    rewrite (state_at_S _ _ _ En) in H. unfold upd in H.
    destruct (Nat.eqb k (ck c)) eqn:E.
    + apply Nat.eqb_eq in E. destruct (cv c) as [v'|] eqn:Ev; [|discriminate].
      inversion H; subst o v'. split; [lia|]. split.
      * replace (S q - 1) with q by lia. rewrite En. destruct c; cbn in *. subst. reflexivity.
      * intros o' c' Ho. lia.
    + destruct (IH k o v ltac:(lia) H) as [A [B C]]. split; [lia|]. split; [exact B|].
      intros o' c' Ho Hn. destruct (Nat.eq_dec o' (S q)) as [->|Hne].
      * replace (S q - 1) with q in Hn by lia. rewrite En in Hn. inversion Hn; subst.
        apply Nat.eqb_neq in E. congruence.
      * apply (C o' c'); [lia|exact Hn].
Qed.

(* ------------------------------------------------------------ writer ops *)
Definition same_epoch_ext (b b' : broker) : Prop :=
  b_epoch b' = b_epoch b /\ exists suf, b_log b' = b_log b ++ suf.

Lemma same_epoch_ext_refl : forall b, same_epoch_ext b b.
Proof. intros b; split; auto. exists []. rewrite app_nil_r. reflexivity. Qed.

Lemma same_epoch_ext_trans : forall a b c, same_epoch_ext a b -> same_epoch_ext b c -> same_epoch_ext a c.
Proof.
  intros a b c [E1 [s1 L1]] [E2 [s2 L2]]. split; [congruence|].
  exists (s1 ++ s2). rewrite L2, L1, app_assoc. reflexivity.
Qed.

Lemma apply_w_ext : forall b w, b_epoch (apply_w b w) = b_epoch b -> same_epoch_ext b (apply_w b w).
Proof.
  intros b w H. destruct w as [k v|k| |]; cbn in *.
  - split; auto. eexists; reflexivity.
  - destruct (state b k); cbn; [split; auto; eexists; reflexivity | apply same_epoch_ext_refl].
  - split; auto. exists []. rewrite app_nil_r. reflexivity.
  - exfalso. lia.
Qed.

Lemma apply_w_epoch_mono : forall b w, b_epoch b <= b_epoch (apply_w b w).
Proof. intros b w. destruct w as [k v|k| |]; cbn; auto. destruct (state b k); cbn; auto. Qed.

Lemma apply_ws_epoch_mono : forall ws b, b_epoch b <= b_epoch (apply_ws b ws).
Proof.
  induction ws as [|w t IH]; intros b; cbn; auto.
  etransitivity; [apply (apply_w_epoch_mono b w)|apply IH].
Qed.

Lemma apply_ws_ext : forall ws b, b_epoch (apply_ws b ws) = b_epoch b -> same_epoch_ext b (apply_ws b ws).
Proof.
  induction ws as [|w t IH]; intros b H; cbn in *; [apply same_epoch_ext_refl|].
  pose proof (apply_w_epoch_mono b w). pose proof (apply_ws_epoch_mono t (apply_w b w)).
  assert (E1 : b_epoch (apply_w b w) = b_epoch b) by (unfold apply_ws in *; lia).
  eapply same_epoch_ext_trans; [apply apply_w_ext; exact E1|]. apply IH. unfold apply_ws in *. lia.
Qed.

Lemma ext_top : forall b b', same_epoch_ext b b' -> top b <= top b'.
Proof. intros b b' [_ [s L]]. unfold top. rewrite L, app_length. lia. Qed.

Lemma ext_nth : forall b b' i c, same_epoch_ext b b' ->
  nth_error (b_log b) i = Some c -> nth_error (b_log b') i = Some c.
Proof.
  intros b b' i c [_ [s L]] H. rewrite L. rewrite nth_error_app1; auto.
  apply nth_error_Some. congruence.
Qed.

Lemma ext_state_at : forall b b' p, same_epoch_ext b b' -> p <= top b ->
  forall k, state_at b' p k = state_at b p k.
Proof.
  intros b b' p [_ [s L]] Hp k. unfold state_at. rewrite L. rewrite firstn_app.
  replace (p - length (b_log b)) with 0 by (unfold top in Hp; lia). cbn. rewrite app_nil_r. reflexivity.
Qed.

(* ------------------------------------------------------------ well-formedness *)
Definition WF (b : broker) : Prop := 1 <= b_lo b <= S (top b).

Lemma WF_apply_w : forall b w, WF b -> WF (apply_w b w).
Proof.
  intros b w [A B]. unfold WF, top in *. destruct w as [k v|k| |].
  - cbn [apply_w b_lo b_log]. unfold trim_lo. cbn [b_lo b_size]. rewrite app_length. cbn [length]. lia.
  - cbn [apply_w]. destruct (state b k).
    + cbn [b_lo b_log]. unfold trim_lo. cbn [b_lo b_size]. rewrite app_length. cbn [length]. lia.
    + lia.
  - cbn [apply_w b_lo b_log]. unfold top. lia.
  - cbn [apply_w b_lo b_log length]. lia.
Qed.

Lemma WF_apply_ws : forall ws b, WF b -> WF (apply_ws b ws).
Proof. induction ws as [|w t IH]; intros b H; cbn; auto. apply IH. apply WF_apply_w. exact H. Qed.

(* ------------------------------------------------------------ changes *)
Lemma nth_error_firstn_lt : forall (A : Type) n (l : list A) i, i < n -> nth_error (firstn n l) i = nth_error l i.
Proof.
  intros A n. induction n as [|n IH]; intros l i H; [lia|].
  destruct l as [|a t]; [destruct i; reflexivity|]. destruct i; cbn; auto. apply IH. lia.
Qed.

Lemma nth_error_skipn_add : forall (A : Type) n (l : list A) j, nth_error (skipn n l) j = nth_error l (n + j).
Proof.
  intros A n. induction n as [|n IHn]; intros l0 j; [reflexivity|].
  destruct l0; cbn; [destruct j; reflexivity|apply IHn].
Qed.

Lemma changes_nil : forall b p, changes b p p = [].
Proof. intros. unfold changes. rewrite Nat.sub_diag. reflexivity. Qed.

Lemma changes_length : forall b p q, p <= q -> q <= top b -> length (changes b p q) = q - p.
Proof.
  intros b p q H1 H2. unfold changes. rewrite combine_length, seq_length, firstn_length, skipn_length.
  unfold top in *. lia.
Qed.

Lemma changes_In : forall b p q o c, In (o, c) (changes b p q) ->
  p < o <= q /\ nth_error (b_log b) (o - 1) = Some c.
Proof.
  intros b p q o c H. unfold changes in H.
  apply In_nth_error in H. destruct H as [i Hi].
  assert (Hlen : i < length (combine (seq (S p) (q - p)) (firstn (q - p) (skipn p (b_log b)))))
    by (apply nth_error_Some; congruence).
  rewrite combine_length, seq_length in Hlen.
  assert (Hi1 : nth_error (seq (S p) (q - p)) i = Some o /\ nth_error (firstn (q - p) (skipn p (b_log b))) i = Some c).
  { clear Hlen. revert Hi. generalize (seq (S p) (q - p)) (firstn (q - p) (skipn p (b_log b))).
    induction i as [|i IH]; intros l1 l2 H; destruct l1, l2; cbn in *; try discriminate.
    - inversion H; auto.
    - apply IH; auto. }
  destruct Hi1 as [A B].
  assert (Ho : o = S p + i).
  { assert (i < q - p) by lia. rewrite nth_error_nth' with (d := 0) in A by (rewrite seq_length; lia).
    inversion A. rewrite seq_nth by lia. reflexivity. }
  split; [lia|].
  rewrite nth_error_firstn_lt in B by lia.
  rewrite nth_error_skipn_add in B. rewrite <- B. f_equal. lia.
Qed.

Definition dchange : change := mkC 0 None.
Definition chg (b : broker) (o : nat) : change := nth (o - 1) (b_log b) dchange.

Lemma combine_seq_skipn : forall (l : list change) n p, p + n <= length l ->
  combine (seq (S p) n) (firstn n (skipn p l)) = map (fun o => (o, nth (o - 1) l dchange)) (seq (S p) n).
Proof.
  intros l n. induction n as [|n IH]; intros p H; [reflexivity|].
  cbn [seq map].
  assert (Hs : skipn p l = nth p l dchange :: skipn (S p) l).
  { clear IH. revert l H. induction p as [|p IHp]; intros l H.
    - destruct l; [cbn in H; lia|reflexivity].
    - destruct l; [cbn in H; lia|]. cbn [skipn]. rewrite IHp by (cbn in H; lia). reflexivity. }
  rewrite Hs. cbn [firstn combine]. replace (S p - 1) with p by lia. f_equal.
  apply IH. lia.
Qed.

Lemma changes_map : forall b p q, p <= q -> q <= top b ->
  changes b p q = map (fun o => (o, chg b o)) (seq (S p) (q - p)).
Proof.
  intros b p q H1 H2. unfold changes, chg. apply combine_seq_skipn. unfold top in H2. lia.
Qed.

Lemma changes_cover : forall b p q o, p < o <= q -> q <= top b -> In (o, chg b o) (changes b p q).
Proof.
  intros b p q o H1 H2. rewrite changes_map by lia. apply in_map_iff. exists o. split; auto.
  apply in_seq. lia.
Qed.

Lemma changes_In_chg : forall b p q o c, In (o, c) (changes b p q) -> c = chg b o.
Proof.
  intros b p q o c H. destruct (changes_In _ _ _ _ _ H) as [A B]. unfold chg.
  symmetry. apply nth_error_nth. exact B.
Qed.

Lemma changes_split : forall b p q r, p <= q -> q <= r -> r <= top b ->
  changes b p r = changes b p q ++ changes b q r.
Proof.
  intros b p q r H1 H2 H3. rewrite !changes_map by lia.
  replace (r - p) with ((q - p) + (r - q)) by lia. rewrite seq_app, map_app.
  replace (S p + (q - p)) with (S q) by lia. reflexivity.
Qed.

Lemma ext_chg : forall b b' o, same_epoch_ext b b' -> 1 <= o <= top b -> chg b' o = chg b o.
Proof.
  intros b b' o [_ [s L]] H. unfold chg. rewrite L. apply app_nth1. unfold top in H. lia.
Qed.

Lemma ext_changes : forall b b' p q, same_epoch_ext b b' -> p <= q -> q <= top b ->
  changes b' p q = changes b p q.
Proof.
  intros b b' p q E H1 H2. pose proof (ext_top _ _ E).
  rewrite !changes_map by lia. apply map_ext_in. intros o Ho. apply in_seq in Ho.
  f_equal. apply ext_chg; auto. lia.
Qed.

Lemma pubs_between_changes : forall b b', same_epoch_ext b b' ->
  pubs_between b b' = changes b' (top b) (top b').
Proof.
  intros b b' E. pose proof (ext_top _ _ E). destruct E as [Ee _].
  unfold pubs_between. rewrite Ee, Nat.eqb_refl. unfold changes. f_equal.
  symmetry. apply firstn_all2. rewrite skipn_length. unfold top. lia.
Qed.
