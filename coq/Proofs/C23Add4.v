(* C23 core domain, extension: per-key versions (version + version epoch) in map_broker_add.lua, and the exact
   state-meta hash after a publish / remove (needed to track the "v:<key>" / "ve:<key>" fields). *)
From Coq Require Import List NArith ZArith Bool String Ascii Lia.
From Cfg Require Import Model.RStr Model.LuaNum Model.Redis Model.RedisScripts Model.MapApi23 Model.MemMap23
                        Model.RedisMapBroker Model.RedisMapScripts
                        Proofs.C18Lib Proofs.C18Redis Proofs.C23Redis Proofs.C23Lib Proofs.C23Add Proofs.C23Read Proofs.C23Add2
                        Proofs.C23Add3.
From Cfg Require Proofs.C18Stream Proofs.C18StreamP Proofs.C18StreamH.
Import ListNotations.
Open Scope string_scope.

Definition ver_cond (ch vs vf : string) : bool :=
  (negb (String.eqb vs "0") && negb (String.eqb vf "") && negb (String.eqb (k_smeta ch) ""))%bool.

Definition version_block (ch vs vf vef vep epoch : string) : M unit :=
  if ver_cond ch vs vf then
    dom pv <- rc ["hmget"; k_smeta ch; vf; vef] ;;
    match pv with
    | RArr [RBulk pvs; pve] =>
        if (String.eqb vep "" || match pve with RBulk s => String.eqb vep s | _ => false end)%bool then
          match str2number pvs, str2number vs with
          | TNum a, TNum b => if (b <=? a)%Z then suppressed (k_meta ch) epoch "version" else ret tt
          | _, _ => unreachable
          end
        else ret tt
    | RArr [RNil; _] => ret tt
    | _ => unreachable
    end
  else ret tt.

Definition incr_top_v (ch epoch vs vf vef vep : string) : M (string * Z) :=
  dom topr <- rc ["hincrby"; k_meta ch; "s"; "1"] ;;
  match topr with
  | RInt topz =>
      dom _ <- when_ (ver_cond ch vs vf) (rc ["hset"; k_smeta ch; vf; vs; vef; vep]) ;;
      ret (epoch, round53 topz)
  | _ => unreachable
  end.

Definition core_keyed3 (ch key payload size sttl nonce now_s km eo ee vs vf vef vep : string) (delta : bool) : M reply :=
  dom now <- num_of now_s ;;
  dom et <- (dom epoch <- current_epoch (k_meta ch) nonce ;;
             dom wipe <- wipe_check ch epoch ;;
             dom _ <- wipe_do ch wipe ;;
             dom _ <- version_block ch vs vf vef vep epoch ;;
             dom _ <- keymode_block ch key km epoch ;;
             dom _ <- cas_block ch key eo ee epoch ;;
             incr_top_v ch epoch vs vf vef vep) ;;
  let '(epoch, top) := et in
  dom prev <- prev_block ch key delta ;;
  dom _ <- state_block ch key epoch payload top now ;;
  dom _ <- stream_block ch epoch payload size sttl top ;;
  dom _ <- when_ true (rc ["PUBLISH"; m_channel ch; pub_msg prev top epoch payload]) ;;
  finish (RArr [RInt top; RBulk epoch; RBulk ""]).

Lemma core_keyed3_eq ch c key payload size sttl nonce now_s (delta refresh : bool) vep score km eo ee vs vf vef :
  sh_map_add [k_stream ch; k_meta ch; ""; k_state ch; ""; k_expire ch; k_smeta ch; ""]
             [String c key; payload; size; sttl; m_channel ch; "0"; nonce; "PUBLISH"; ""; if delta then "1" else "0";
              vs; vep; "0"; score; "0"; "0"; ch; km; if refresh then "1" else "0"; eo; ee; ""; ""; vf; vef; now_s]
  = core_keyed3 ch (String c key) payload size sttl nonce now_s km eo ee vs vf vef vep delta.
Proof. destruct delta; destruct refresh; reflexivity. Qed.

(* ---------- exact state-meta hashes ---------- *)
Definition smeta_after_state (now_ : Z) (epoch : string) (hs0 : list (string * string)) : list (string * string) :=
  sput "updated_at" (lua_num2str now_) (sput "epoch" epoch hs0).

Lemma state_block_spec2 st ch key epoch payload top now_ sth smh :
  hview st (k_state ch) sth -> hview st (k_smeta ch) smh ->
  exists st', state_block ch key epoch payload top now_ st = (st', inl tt) /\
    hview st' (k_state ch) (Some (sput key (state_value top epoch payload) (hash_or_empty sth))) /\
    hview st' (k_smeta ch) (Some (smeta_after_state now_ epoch (hash_or_empty smh))) /\
    frame [k_state ch; k_smeta ch] st st'.
Proof.
  intros Hs Hm. unfold state_block.
  rewrite bind_rc, (hset1_v _ _ _ _ _ Hs). cbn iota beta.
  set (st1 := setval st (k_state ch) _).
  assert (F1 : frame [k_state ch] st st1) by apply frame_setval.
  assert (Hm1 : hview st1 (k_smeta ch) smh) by (apply (hview_frame _ _ _ _ _ F1); [notin | exact Hm]).
  rewrite bind_rc, (hset1_v _ _ _ _ _ Hm1). cbn iota beta.
  set (st2 := setval st1 (k_smeta ch) _).
  rewrite bind_rc, (hset1_v st2 _ _ _ _ (hview_setval _ _ _)). cbn iota beta. cbn [hash_or_empty].
  eexists. split; [reflexivity|].
  assert (F2 : frame [k_smeta ch] st1 st2) by apply frame_setval.
  split; [|split; [apply hview_setval|]].
  - apply (hview_frame [k_smeta ch] st2); [apply frame_setval | notin |].
    apply (hview_frame _ _ _ _ _ F2); [notin | apply hview_setval].
  - eapply frame_trans; [eapply frame_weaken; [|exact F1]; inclt|].
    eapply frame_trans; [eapply frame_weaken; [|exact F2]; inclt|].
    eapply frame_weaken; [|apply frame_setval]. inclt.
Qed.

Definition smeta_after_leave (key : string) (hs : list (string * string)) : list (string * string) :=
  sdel ("ve:" ++ key) (sdel ("v:" ++ key) hs).

Lemma leave_block_spec2 st ch key h hs epoch :
  hview st (k_state ch) (Some h) -> getk st (k_expire ch) = None ->
  hview st (k_smeta ch) (Some hs) -> sfind "epoch" hs = Some epoch ->
  exists st', leave_block ch key st = (st', inl tt) /\
    hview st' (k_state ch) (match sdel key h with [] => None | h' => Some h' end) /\
    hview st' (k_smeta ch) (Some (smeta_after_leave key hs)) /\
    frame [k_state ch; k_smeta ch] st st'.
Proof.
  intros Hs He Hm Hep. unfold leave_block.
  assert (H1 : exists st1, redis_call st ["hdel"; k_state ch; key] = (st1, RInt (Z.of_nat (List.length h - List.length (sdel key h))))
               /\ hview st1 (k_state ch) (match sdel key h with [] => None | h' => Some h' end) /\ frame [k_state ch] st st1).
  { rewrite hdel1_call, (hview_get _ _ _ Hs). cbv zeta. destruct (sdel key h) as [|kv l] eqn:E.
    - eexists. split; [reflexivity|]. split; [apply getk_delk_same | apply frame_delk].
    - eexists. split; [reflexivity|]. split; [apply hview_setval | apply frame_setval]. }
  destruct H1 as (st1 & Hc1 & Hv1 & F1). rewrite bind_rc, Hc1. cbn iota beta.
  assert (He1 : getk st1 (k_expire ch) = None) by (destruct F1 as [F1 _]; rewrite F1; [exact He | notin]).
  unfold when_. rewrite bind_assoc, bind_rc, (zrem1_none _ _ _ He1). cbn iota beta. rewrite bind_ret.
  assert (Hm1 : hview st1 (k_smeta ch) (Some hs)) by (apply (hview_frame _ _ _ _ _ F1); [notin | exact Hm]).
  unfold smeta_after_leave. set (hs' := sdel ("ve:" ++ key) (sdel ("v:" ++ key) hs)).
  assert (Hep' : sfind "epoch" hs' = Some epoch).
  { unfold hs'. rewrite !sfind_sdel_other by discriminate. exact Hep. }
  rewrite bind_assoc, bind_rc, hdel2_call, (hview_get _ _ _ Hm1). cbv zeta. fold hs'.
  destruct hs' as [|kv l] eqn:E; [discriminate Hep'|].
  cbn iota beta. rewrite bind_ret. eexists. split; [reflexivity|].
  split; [apply (hview_frame [k_smeta ch] st1); [apply frame_setval | notin | exact Hv1]|].
  split; [apply hview_setval|].
  eapply frame_trans; [eapply frame_weaken; [|exact F1]; inclt|]. eapply frame_weaken; [|apply frame_setval]. inclt.
Qed.

(* ---------- the version fields of the state-meta hash vs the memory entries ---------- *)
Definition ver_rel (hs : list (string * string)) (state : list (string * mentry)) : Prop :=
  forall key,
    match sfind key state with
    | Some e => if (me_ver e =? 0)%N then sfind ("v:" ++ key) hs = None
                else sfind ("v:" ++ key) hs = Some (dec (me_ver e)) /\ sfind ("ve:" ++ key) hs = Some (me_vep e)
    | None => sfind ("v:" ++ key) hs = None
    end.

Definition ver_dec (ver : N) (vep : string) (cur : option mentry) : bool :=
  ((0 <? ver)%N && match cur with
                   | Some e => (String.eqb vep "" || String.eqb vep (me_vep e)) && (ver <=? me_ver e)%N
                   | None => false
                   end)%bool.

Definition vstr (ver : N) : string := if (0 <? ver)%N then utoa ver else "0".
Definition vfld (ver : N) (key : string) : string := if (0 <? ver)%N then "v:" ++ key else "".
Definition vefld (ver : N) (key : string) : string := if (0 <? ver)%N then "ve:" ++ key else "".

Lemma ver_cond_eq ch ver key : ver_cond ch (vstr ver) (vfld ver key) = (0 <? ver)%N.
Proof.
  unfold ver_cond, vstr, vfld. rewrite k_smeta_ne. destruct (0 <? ver)%N eqn:E; [|reflexivity].
  unfold utoa. rewrite C18StreamH.dec_eqb_0. apply N.ltb_lt in E.
  replace (ver =? 0)%N with false by (symmetry; apply N.eqb_neq; lia). reflexivity.
Qed.

Lemma version_block_spec st ch key ver vep epoch smh state h top :
  hview st (k_smeta ch) smh -> ver_rel (hash_or_empty smh) state ->
  (forall kv, In kv state -> (me_ver (snd kv) < 9007199254740992)%N) -> (ver < 9007199254740992)%N ->
  hview st (k_meta ch) (Some h) -> hash_ok h epoch top 0 "" -> (top < BOUND)%N ->
  version_block ch (vstr ver) (vfld ver key) (vefld ver key) vep epoch st =
    if ver_dec ver vep (sfind key state)
    then (st, inr (RArr [RInt (Z.of_N top); RBulk epoch; RBulk "version"]))
    else (st, inl tt).
Proof.
  intros Hsm Hvr Hvb Hver Hm Hh Ht. unfold version_block. rewrite ver_cond_eq. unfold ver_dec.
  destruct (0 <? ver)%N eqn:E; cbn [andb]; [|reflexivity]. apply N.ltb_lt in E.
  unfold vfld, vefld, vstr. replace (0 <? ver)%N with true by (symmetry; apply N.ltb_lt; exact E). unfold utoa.
  rewrite bind_rc, (hmget2_v _ _ _ _ _ Hsm). cbn iota beta.
  specialize (Hvr key). destruct (sfind key state) as [e|] eqn:Ek.
  - destruct (me_ver e =? 0)%N eqn:E0.
    + rewrite Hvr. cbn [bulk_opt]. cbn iota beta. apply N.eqb_eq in E0. rewrite E0.
      replace (ver <=? 0)%N with false by (symmetry; apply N.leb_gt; lia). rewrite andb_false_r. reflexivity.
    + destruct Hvr as [Hv1 Hv2]. rewrite Hv1, Hv2. cbn [bulk_opt]. cbn iota beta.
      pose proof (Hvb _ (in_sfind _ _ _ Ek)) as Hb. cbn [snd] in Hb.
      destruct (String.eqb vep "" || String.eqb vep (me_vep e))%bool; cbn [andb]; [|reflexivity].
      rewrite !str2number_dec, !round53_small by lia.
      replace (Z.of_N ver <=? Z.of_N (me_ver e))%Z with (ver <=? me_ver e)%N
        by (destruct (ver <=? me_ver e)%N eqn:X; symmetry; [apply N.leb_le in X; apply Z.leb_le; lia | apply N.leb_gt in X; apply Z.leb_gt; lia]).
      destruct (ver <=? me_ver e)%N; [apply (suppressed_spec _ _ _ _ _ _ Hm Hh Ht) | reflexivity].
  - rewrite Hvr. cbn [bulk_opt]. cbn iota beta. reflexivity.
Qed.

Definition smeta_after_ver (ver : N) (vep key : string) (hs0 : list (string * string)) : list (string * string) :=
  if (0 <? ver)%N then sput ("ve:" ++ key) vep (sput ("v:" ++ key) (dec ver) hs0) else hs0.

Lemma incr_top_v_spec st ch epoch h top ver vep key smh :
  hview st (k_meta ch) (Some h) -> hash_ok h epoch top 0 "" -> (top + 1 < BOUND)%N -> hview st (k_smeta ch) smh ->
  exists st' h',
    incr_top_v ch epoch (vstr ver) (vfld ver key) (vefld ver key) vep st = (st', inl (epoch, Z.of_N (top + 1))) /\
    hview st' (k_meta ch) (Some h') /\ hash_ok h' epoch (top + 1) 0 "" /\
    hview st' (k_smeta ch) (if (0 <? ver)%N then Some (smeta_after_ver ver vep key (hash_or_empty smh)) else smh) /\
    frame [k_meta ch; k_smeta ch] st st'.
Proof.
  intros [x Hv] Hh Ht Hsm. destruct (C18StreamP.hincrby_spec _ _ _ _ _ _ _ _ Hv Hh Ht) as (h' & Hc & Hh').
  unfold incr_top_v. rewrite bind_rc, Hc. cbn iota beta. rewrite ver_cond_eq.
  rewrite round53_small by (unfold C18Stream.BOUND in Ht; lia).
  set (st1 := setval st (k_meta ch) (VHash h')).
  assert (F1 : frame [k_meta ch] st st1) by apply frame_setval.
  assert (Hsm1 : hview st1 (k_smeta ch) smh) by (apply (hview_frame _ _ _ _ _ F1); [notin | exact Hsm]).
  unfold smeta_after_ver, vstr, vfld, vefld. destruct (0 <? ver)%N eqn:E.
  - unfold when_, utoa.
    assert (Hs2 : exists n, redis_call st1 ["hset"; k_smeta ch; "v:" ++ key; dec ver; "ve:" ++ key; vep]
                  = (setval st1 (k_smeta ch) (VHash (sput ("ve:" ++ key) vep (sput ("v:" ++ key) (dec ver) (hash_or_empty smh)))), RInt n)).
    { destruct smh as [hs|]; [destruct Hsm1 as [y Hy]; apply (hset2_some _ _ _ _ _ _ _ _ Hy) | apply hset2_none; exact Hsm1]. }
    destruct Hs2 as [n Hs2]. rewrite bind_assoc, bind_rc, Hs2. cbn iota beta. rewrite bind_ret.
    eexists. exists h'. split; [reflexivity|].
    split; [apply (hview_frame [k_smeta ch] st1); [apply frame_setval | notin | apply hview_setval]|].
    split; [exact Hh'|]. split; [apply hview_setval|].
    eapply frame_trans; [eapply frame_weaken; [|exact F1]; inclt | eapply frame_weaken; [|apply frame_setval]; inclt].
  - unfold when_. rewrite bind_ret. exists st1, h'. split; [reflexivity|].
    split; [apply hview_setval|]. split; [exact Hh'|]. split; [exact Hsm1|].
    eapply frame_weaken; [|exact F1]. inclt.
Qed.

Lemma core_keyed3_spec st ch c key payload size sttl nonce now_ delta v epoch top es0 state km exp ver vep :
  let K := String c key in
  views st ch v -> meta_cond v nonce epoch top -> stream_cond v top es0 -> wipe_cond v epoch ->
  rv_state v = state_view epoch state -> (forall kv, In kv state -> entry_ok (snd kv)) ->
  ver_rel (hash_or_empty (rv_smeta v)) state ->
  (forall kv, In kv state -> (me_ver (snd kv) < 9007199254740992)%N) -> (ver < 9007199254740992)%N ->
  (top + 1 < BOUND)%N -> (size < 9223372036854775808)%N -> C18Stream.small sttl = true -> exp_ok exp ->
  let run := runM (core_keyed3 ch K payload (dec size) (millis sttl) nonce (dec now_) km (exp_off exp) (exp_epoch exp)
                               (vstr ver) (vfld ver K) (vefld ver K) vep delta) st in
  let supp (r : reply) := exists st1 h1, run = (st1, r) /\ hview st1 (k_meta ch) (Some h1) /\ hash_ok h1 epoch top 0 "" /\
                                         frame [k_meta ch] st st1 in
  if ver_dec ver vep (sfind K state) then supp (RArr [RInt (Z.of_N top); RBulk epoch; RBulk "version"]) else
  match km_decision km (is_some (sfind K state)) with
  | Some r => supp (RArr [RInt (Z.of_N top); RBulk epoch; RBulk r])
  | None =>
      match cas_dec epoch exp (sfind K state) with
      | Some _ => supp (RArr [RInt (Z.of_N top); RBulk epoch; RBulk "position_mismatch"; RBulk (cur_val epoch K (sfind K state))])
      | None =>
          exists st' mh',
            run = (st', RArr [RInt (Z.of_N (top + 1)); RBulk epoch; RBulk ""]) /\
            views st' ch (mkRV (Some mh')
                               (Some (sput K (state_value (Z.of_N (top + 1)) epoch payload) (hash_or_empty (rv_state v))))
                               (Some (smeta_after_state (round53 (Z.of_N now_)) epoch
                                        (smeta_after_ver ver vep K (hash_or_empty (rv_smeta v)))))
                               (Some (trim_approx (es0 ++ [sentry_of (top + 1) epoch payload]) (Z.of_N size), ((top + 1)%N, 0%N)))) /\
            hash_ok mh' epoch (top + 1) 0 "" /\ frame (chan_keys ch) st st'
      end
  end.
Proof.
  intros K (Vm & Vs & Vsm & Vst & Ve) Hm Hsc Hw Est Hent Hvr Hvb Hver Ht Hsz Httl Hexp run supp. subst run supp. unfold K. clear K.
  assert (Htop : (top < BOUND)%N) by (unfold C18Stream.BOUND in *; lia).
  destruct (epoch_spec st ch nonce _ epoch top Vm Hm) as (st1 & h1 & Hc1 & Vm1 & Hh1 & F1).
  assert (Vs1 : hview st1 (k_state ch) (rv_state v)) by (apply (hview_frame _ _ _ _ _ F1); [notin | exact Vs]).
  assert (Vsm1 : hview st1 (k_smeta ch) (rv_smeta v)) by (apply (hview_frame _ _ _ _ _ F1); [notin | exact Vsm]).
  assert (Ecur : match sfind (String c key) (hash_or_empty (rv_state v)) with Some _ => true | None => false end
                 = is_some (sfind (String c key) state)).
  { rewrite Est, state_view_hash, sfind_enc_s. destruct (sfind (String c key) state); reflexivity. }
  assert (Vs1' : hview st1 (k_state ch) (state_view epoch state)) by (rewrite <- Est; exact Vs1).
  assert (Hcas : cas_block ch (String c key) (exp_off exp) (exp_epoch exp) epoch st1 =
                 match cas_dec epoch exp (sfind (String c key) state) with
                 | Some _ => (st1, inr (RArr [RInt (Z.of_N top); RBulk epoch; RBulk "position_mismatch";
                                            RBulk (cur_val epoch (String c key) (sfind (String c key) state))]))
                 | None => (st1, inl tt)
                 end).
  { destruct exp as [[eo ee]|]; [|reflexivity]. destruct Hexp as [He1 He2]. cbn [exp_off exp_epoch cas_dec]. unfold utoa.
    apply (cas_block_spec st1 ch c key eo ee epoch state h1 top); assumption. }
  pose proof (keymode_block_spec st1 ch c key km epoch _ h1 top Vs1 Vm1 Hh1 Htop) as Hkm. rewrite Ecur in Hkm.
  pose proof (version_block_spec st1 ch (String c key) ver vep epoch _ state h1 top Vsm1 Hvr Hvb Hver Vm1 Hh1 Htop) as Hvb1.
  assert (Hpre : forall (k : string -> M (string * Z)) (k2 : Z -> string * Z -> M reply),
            runM (dom now <- num_of (dec now_) ;;
                  dom et <- (dom epoch0 <- current_epoch (k_meta ch) nonce ;;
                             dom wipe <- wipe_check ch epoch0 ;;
                             dom _ <- wipe_do ch wipe ;; k epoch0) ;; k2 now et) st
            = match k epoch st1 with
              | (st', inl et) => runM (k2 (round53 (Z.of_N now_)) et) st'
              | (st', inr r) => (st', r)
              end).
  { intros k k2. unfold runM. unfold bindM at 1. rewrite num_of_dec_any.
    rewrite bind_assoc. unfold bindM at 1. rewrite Hc1.
    rewrite bind_assoc. unfold bindM at 1. rewrite (wipe_spec st1 ch epoch _ _ Vs1 Vsm1 Hw).
    rewrite bind_assoc. unfold bindM at 1. unfold wipe_do at 1. unfold ret at 1.
    unfold bindM at 1. destruct (k epoch st1) as [st' [et|r]]; reflexivity. }
  set (K := String c key) in *.
  assert (Hblk : (dom _ <- version_block ch (vstr ver) (vfld ver K) (vefld ver K) vep epoch ;;
                  dom _ <- keymode_block ch K km epoch ;;
                  dom _ <- cas_block ch K (exp_off exp) (exp_epoch exp) epoch ;;
                  incr_top_v ch epoch (vstr ver) (vfld ver K) (vefld ver K) vep) st1 =
                 if ver_dec ver vep (sfind K state) then (st1, inr (RArr [RInt (Z.of_N top); RBulk epoch; RBulk "version"])) else
                 match km_decision km (is_some (sfind K state)) with
                 | Some r => (st1, inr (RArr [RInt (Z.of_N top); RBulk epoch; RBulk r]))
                 | None =>
                     match cas_dec epoch exp (sfind K state) with
                     | Some _ => (st1, inr (RArr [RInt (Z.of_N top); RBulk epoch; RBulk "position_mismatch";
                                                 RBulk (cur_val epoch K (sfind K state))]))
                     | None => incr_top_v ch epoch (vstr ver) (vfld ver K) (vefld ver K) vep st1
                     end
                 end).
  { unfold bindM at 1. rewrite Hvb1. destruct (ver_dec ver vep (sfind K state)); [reflexivity|].
    unfold bindM at 1. rewrite Hkm. destruct (km_decision km (is_some (sfind K state))); [reflexivity|].
    unfold bindM at 1. rewrite Hcas. destruct (cas_dec epoch exp (sfind K state)); reflexivity. }
  unfold core_keyed3.
  rewrite (Hpre (fun e0 => dom _ <- version_block ch (vstr ver) (vfld ver K) (vefld ver K) vep e0 ;;
                           dom _ <- keymode_block ch K km e0 ;;
                           dom _ <- cas_block ch K (exp_off exp) (exp_epoch exp) e0 ;;
                           incr_top_v ch e0 (vstr ver) (vfld ver K) (vefld ver K) vep)).
  cbv beta. rewrite Hblk.
  destruct (ver_dec ver vep (sfind K state)).
  { exists st1, h1. split; [reflexivity|]. split; [assumption|]. split; assumption. }
  destruct (km_decision km (is_some (sfind K state))) as [r|].
  { exists st1, h1. split; [reflexivity|]. split; [assumption|]. split; assumption. }
  destruct (cas_dec epoch exp (sfind K state)) as [cp|].
  { exists st1, h1. split; [reflexivity|]. split; [assumption|]. split; assumption. }
  subst K.
  (* accepted *)
  destruct (incr_top_v_spec st1 ch epoch h1 top ver vep (String c key) _ Vm1 Hh1 Ht Vsm1) as (st2 & h2 & Hc2 & Vm2 & Hh2 & Vsm2 & F12).
  rewrite Hc2. cbn iota beta. unfold runM.
  assert (F2 : frame [k_meta ch; k_smeta ch] st st2).
  { eapply frame_trans; [eapply frame_weaken; [|exact F1]; inclt | exact F12]. }
  assert (Vs2 : hview st2 (k_state ch) (rv_state v)) by (apply (hview_frame _ _ _ _ _ F2); [notin | exact Vs]).
  destruct (prev_block_spec st2 ch (String c key) delta _ Vs2) as [prev Hp].
  unfold bindM at 1. rewrite Hp.
  destruct (state_block_spec2 st2 ch (String c key) epoch payload (Z.of_N (top + 1)) (round53 (Z.of_N now_)) _ _ Vs2 Vsm2)
    as (st3 & Hc3 & Vs3 & Vsm3 & F3).
  unfold bindM at 1. rewrite Hc3.
  assert (Esm : hash_or_empty (if (0 <? ver)%N then Some (smeta_after_ver ver vep (String c key) (hash_or_empty (rv_smeta v))) else rv_smeta v)
                = smeta_after_ver ver vep (String c key) (hash_or_empty (rv_smeta v))).
  { unfold smeta_after_ver. destruct (0 <? ver)%N; reflexivity. }
  rewrite Esm in Vsm3.
  assert (F03 : frame [k_meta ch; k_state ch; k_smeta ch] st st3).
  { eapply frame_trans; [eapply frame_weaken; [|exact F2]; inclt | eapply frame_weaken; [|exact F3]; inclt]. }
  assert (Vst3 : sview st3 (k_stream ch) (rv_stream v)) by (apply (sview_frame _ _ _ _ _ F03); [notin | exact Vst]).
  assert (Hsc2 : (top = 0%N /\ es0 = []) \/ ((0 < top)%N /\ rv_stream v = Some (es0, (top, 0%N)))) by exact Hsc.
  destruct (stream_block_spec st3 ch epoch payload size sttl top _ es0 Vst3 Hsc2 Ht Hsz Httl) as (st4 & Hc4 & Vst4 & F4).
  unfold bindM at 1. rewrite Hc4. unfold bindM at 1. rewrite publish_spec. unfold finish.
  eexists. exists h2. split; [reflexivity|].
  set (st5 := mkR (store st4) (now st4) _).
  assert (F35 : frame [k_stream ch] st3 st5) by (eapply frame_trans; [exact F4 | apply frame_publish]).
  assert (F05 : frame (chan_keys ch) st st5).
  { eapply frame_trans; [eapply frame_weaken; [|exact F03]; ck | eapply frame_weaken; [|exact F35]; ck]. }
  split; [|split; [exact Hh2 | exact F05]].
  unfold views. cbn [rv_meta rv_state rv_smeta rv_stream].
  split; [apply (hview_frame _ _ _ _ _ F35); [notin|]; apply (hview_frame _ _ _ _ _ F3); [notin | exact Vm2]|].
  split; [apply (hview_frame _ _ _ _ _ F35); [notin | exact Vs3]|].
  split; [apply (hview_frame _ _ _ _ _ F35); [notin | exact Vsm3]|].
  split; [exact Vst4|].
  destruct F35 as [F35 _]. destruct F03 as [F03 _]. rewrite F35 by notin. rewrite F03 by notin. exact Ve.
Qed.

Lemma core_remove_present2 st ch key payload size sttl nonce now_ v h hst hs epoch top es0 :
  views st ch v -> rv_meta v = Some h -> hash_ok h epoch top 0 "" ->
  rv_state v = Some hst -> sfind key hst <> None ->
  rv_smeta v = Some hs -> sfind "epoch" hs = Some epoch ->
  stream_cond v top es0 ->
  (top + 1 < BOUND)%N -> (size < 9223372036854775808)%N -> C18Stream.small sttl = true ->
  exists st' mh',
    runM (core_remove ch key payload (dec size) (millis sttl) nonce (dec now_)) st
      = (st', RArr [RInt (Z.of_N (top + 1)); RBulk epoch; RBulk ""]) /\
    views st' ch (mkRV (Some mh') (match sdel key hst with [] => None | h' => Some h' end) (Some (smeta_after_leave key hs))
                       (Some (trim_approx (es0 ++ [sentry_of (top + 1) epoch payload]) (Z.of_N size), ((top + 1)%N, 0%N)))) /\
    hash_ok mh' epoch (top + 1) 0 "" /\ frame (chan_keys ch) st st'.
Proof.
  intros (Vm & Vs & Vsm & Vst & Ve) Em Hh Es Hk Esm Hep Hsc Ht Hsz Httl. rewrite Em in Vm. rewrite Es in Vs. rewrite Esm in Vsm.
  unfold runM, core_remove. unfold bindM at 1. rewrite num_of_dec_any.
  pose proof Vm as [x Vmx].
  rewrite bind_assoc. unfold bindM at 1.
  rewrite (C18StreamP.cur_epoch_some _ _ _ _ _ _ Vmx (proj1 Hh)).
  rewrite bind_assoc. unfold bindM at 1.
  rewrite (wipe_spec st ch epoch _ _ Vs Vsm (or_intror (ex_intro _ hs (conj eq_refl Hep)))).
  rewrite bind_assoc. unfold bindM at 1. unfold wipe_do at 1. unfold ret at 1.
  rewrite bind_assoc. unfold bindM at 1.
  rewrite (leave_check_present st ch key epoch _ Vs Hk).
  destruct (incr_spec st ch epoch h top Vm Hh Ht) as (h2 & Hc2 & Hh2).
  unfold bindM at 1. rewrite Hc2. cbn iota beta.
  set (st2 := setval st (k_meta ch) (VHash h2)).
  assert (F2 : frame [k_meta ch] st st2) by apply frame_setval.
  assert (Vs2 : hview st2 (k_state ch) (Some hst)) by (apply (hview_frame _ _ _ _ _ F2); [notin | exact Vs]).
  assert (Vsm2 : hview st2 (k_smeta ch) (Some hs)) by (apply (hview_frame _ _ _ _ _ F2); [notin | exact Vsm]).
  assert (Ve2 : getk st2 (k_expire ch) = None) by (destruct F2 as [F2 _]; rewrite F2 by notin; exact Ve).
  destruct (leave_block_spec2 st2 ch key hst hs epoch Vs2 Ve2 Vsm2 Hep) as (st3 & Hc3 & Vs3 & Vsm3 & F3).
  unfold bindM at 1. rewrite Hc3.
  assert (F03 : frame [k_meta ch; k_state ch; k_smeta ch] st st3).
  { eapply frame_trans; [eapply frame_weaken; [|exact F2]; inclt | eapply frame_weaken; [|exact F3]; inclt]. }
  assert (Vst3 : sview st3 (k_stream ch) (rv_stream v)) by (apply (sview_frame _ _ _ _ _ F03); [notin | exact Vst]).
  assert (Hsc2 : (top = 0%N /\ es0 = []) \/ ((0 < top)%N /\ rv_stream v = Some (es0, (top, 0%N)))) by exact Hsc.
  destruct (stream_block_spec st3 ch epoch payload size sttl top _ es0 Vst3 Hsc2 Ht Hsz Httl) as (st4 & Hc4 & Vst4 & F4).
  unfold bindM at 1. rewrite Hc4. unfold bindM at 1. rewrite publish_spec. unfold finish.
  eexists. exists h2. split; [reflexivity|].
  set (st5 := mkR (store st4) (now st4) _).
  assert (F35 : frame [k_stream ch] st3 st5) by (eapply frame_trans; [exact F4 | apply frame_publish]).
  assert (F05 : frame (chan_keys ch) st st5).
  { eapply frame_trans; [eapply frame_weaken; [|exact F03]; ck | eapply frame_weaken; [|exact F35]; ck]. }
  split; [|split; [exact Hh2 | exact F05]].
  unfold views. cbn [rv_meta rv_state rv_smeta rv_stream].
  split; [apply (hview_frame _ _ _ _ _ F35); [notin|]; apply (hview_frame _ _ _ _ _ F3); [notin | apply hview_setval]|].
  split; [apply (hview_frame _ _ _ _ _ F35); [notin | exact Vs3]|].
  split; [apply (hview_frame _ _ _ _ _ F35); [notin | exact Vsm3]|].
  split; [exact Vst4|].
  destruct F35 as [F35 _]. destruct F03 as [F03 _]. rewrite F35 by notin. rewrite F03 by notin. exact Ve.
Qed.

(* ---------- the version relation is kept by accepted writes ---------- *)
Definition ver_after (ver : N) (cur : option mentry) : N :=
  if (ver =? 0)%N then match cur with Some e => me_ver e | None => 0%N end else ver.
Definition vep_after (ver : N) (vep : string) (cur : option mentry) : string :=
  if (ver =? 0)%N then match cur with Some e => me_vep e | None => vep end else vep.

Lemma vk_inj a b : "v:" ++ a = "v:" ++ b -> a = b.
Proof. intros H. cbn [append] in H. injection H as H. exact H. Qed.
Lemma vek_inj a b : "ve:" ++ a = "ve:" ++ b -> a = b.
Proof. intros H. cbn [append] in H. injection H as H. exact H. Qed.
Lemma vk_vek a b : "v:" ++ a <> "ve:" ++ b.
Proof. cbn [append]. discriminate. Qed.

Lemma sfind_after_state f now_ epoch hs :
  f <> "epoch" -> f <> "updated_at" -> sfind f (smeta_after_state now_ epoch hs) = sfind f hs.
Proof. intros H1 H2. unfold smeta_after_state. rewrite !sfind_sput_other by assumption. reflexivity. Qed.

Lemma sfind_epoch_after_state now_ epoch hs : sfind "epoch" (smeta_after_state now_ epoch hs) = Some epoch.
Proof. unfold smeta_after_state. rewrite sfind_sput_other by discriminate. apply sfind_sput_same. Qed.

Lemma ver_rel_publish hs0 state K off data score ver vep now_ epoch :
  ver_rel hs0 state ->
  ver_rel (smeta_after_state now_ epoch (smeta_after_ver ver vep K hs0))
          (sput K (mkME off data score (ver_after ver (sfind K state)) (vep_after ver vep (sfind K state))) state).
Proof.
  intros Hr key.
  rewrite !sfind_after_state by (cbn [append]; discriminate).
  unfold smeta_after_ver, ver_after, vep_after.
  destruct (String.eqb key K) eqn:Ek.
  - apply String.eqb_eq in Ek. subst key. rewrite sfind_sput_same. cbn [me_ver me_vep].
    specialize (Hr K). destruct (ver =? 0)%N eqn:E0.
    + apply N.eqb_eq in E0. subst ver. cbn [N.ltb N.compare]. destruct (sfind K state) as [e|]; [exact Hr|].
      cbn [N.eqb]. exact Hr.
    + apply N.eqb_neq in E0. replace (0 <? ver)%N with true by (symmetry; apply N.ltb_lt; lia).
      replace (ver =? 0)%N with false by (symmetry; apply N.eqb_neq; lia).
      split.
      * rewrite sfind_sput_other by apply vk_vek. apply sfind_sput_same.
      * apply sfind_sput_same.
  - apply String.eqb_neq in Ek. rewrite sfind_sput_other by assumption.
    specialize (Hr key).
    assert (E1 : sfind ("v:" ++ key) (if (0 <? ver)%N then sput ("ve:" ++ K) vep (sput ("v:" ++ K) (dec ver) hs0) else hs0)
                 = sfind ("v:" ++ key) hs0).
    { destruct (0 <? ver)%N; [|reflexivity]. rewrite sfind_sput_other by apply vk_vek.
      apply sfind_sput_other. intros X. apply vk_inj in X. contradiction. }
    assert (E2 : sfind ("ve:" ++ key) (if (0 <? ver)%N then sput ("ve:" ++ K) vep (sput ("v:" ++ K) (dec ver) hs0) else hs0)
                 = sfind ("ve:" ++ key) hs0).
    { destruct (0 <? ver)%N; [|reflexivity]. rewrite sfind_sput_other by (intros X; apply vek_inj in X; contradiction).
      apply sfind_sput_other. intros X. symmetry in X. revert X. apply vk_vek. }
    rewrite E1, E2. exact Hr.
Qed.

Lemma ver_rel_remove hs state K : ver_rel hs state -> ver_rel (smeta_after_leave K hs) (sdel K state).
Proof.
  intros Hr key. unfold smeta_after_leave.
  destruct (String.eqb key K) eqn:Ek.
  - apply String.eqb_eq in Ek. subst key. rewrite sfind_sdel_same.
    rewrite sfind_sdel_other by apply vk_vek. apply sfind_sdel_same.
  - apply String.eqb_neq in Ek. rewrite (sfind_sdel_other K key) by assumption.
    specialize (Hr key).
    assert (E1 : sfind ("v:" ++ key) (sdel ("ve:" ++ K) (sdel ("v:" ++ K) hs)) = sfind ("v:" ++ key) hs).
    { rewrite sfind_sdel_other by apply vk_vek. apply sfind_sdel_other. intros X. apply vk_inj in X. contradiction. }
    assert (E2 : sfind ("ve:" ++ key) (sdel ("ve:" ++ K) (sdel ("v:" ++ K) hs)) = sfind ("ve:" ++ key) hs).
    { rewrite sfind_sdel_other by (intros X; apply vek_inj in X; contradiction).
      apply sfind_sdel_other. intros X. symmetry in X. revert X. apply vk_vek. }
    rewrite E1, E2. exact Hr.
Qed.

Lemma ver_rel_nil hs : (forall key, sfind ("v:" ++ key) hs = None) -> ver_rel hs [].
Proof. intros H key. cbn [sfind]. apply H. Qed.
