(* C30 proofs, part D: corollaries - the Go reader model reads back what the writer model wrote;
   control frames are at most 125 bytes; the mask bit follows the direction. *)
From Coq Require Import String List NArith Bool Arith Lia ZifyN ZifyNat.
From Cfg Require Import Gen.WsConst Model.WsUtf8 Model.WsClose Model.WsFrame Model.WsRead Model.WsReadSpec Model.WsWrite Model.WsWriteSpec
     Proofs.WsLib Proofs.WsReadA Proofs.WsReadB Proofs.WsReadC Proofs.WsWriteA Proofs.WsWriteB Proofs.WsWriteC.
Import ListNotations.
Open Scope N_scope.

(* the events of a sequence of operations end the stream with EOF or with the close frame that was written *)
Lemma message_events_end : forall t d,
    end_of (message_events t d) = None \/ exists c x, end_of (message_events t d) = Some (OClosed c x).
Proof.
  intros t d. unfold message_events.
  destruct ((t =? 1) || (t =? 2)); [left; reflexivity|].
  destruct (t =? 9); [left; reflexivity|]. destruct (t =? 10); [left; reflexivity|].
  right. destruct d as [|a [|b text]]; eexists _, _; reflexivity.
Qed.

Lemma end_of_app_none : forall a b, end_of a = None -> end_of (a ++ b) = end_of b.
Proof.
  induction a as [|e a IH]; intros b H; [reflexivity|].
  destruct e as [t d|p|o]; simpl in *; [apply IH; exact H|apply IH; exact H|discriminate].
Qed.

Lemma end_of_app_some : forall a b o, end_of a = Some o -> end_of (a ++ b) = Some o.
Proof.
  induction a as [|e a IH]; intros b o H; [discriminate|].
  destruct e as [t d|p|o']; simpl in *; [apply IH; exact H|apply IH; exact H|exact H].
Qed.

Lemma close_at_end_end : forall es, end_of (close_at_end es) = match end_of es with Some o => Some o | None => Some OEof end.
Proof.
  induction es as [|e es IH]; [reflexivity|]. destruct e as [t d|p|o]; simpl; auto.
Qed.

Lemma ops_events_end : forall ops oks,
    end_of (ops_events ops oks) = None \/ exists c x, end_of (ops_events ops oks) = Some (OClosed c x).
Proof.
  induction ops as [|o ops IH]; intros oks; [left; reflexivity|].
  destruct oks as [|k oks]; [left; reflexivity|]. simpl.
  destruct k.
  - destruct (message_events_end (op_type o) (op_data o)) as [E|[c [x E]]].
    + rewrite (end_of_app_none _ _ E). apply IH.
    + right. exists c, x. apply end_of_app_some. exact E.
  - simpl. apply IH.
Qed.

(* the configuration of a reading endpoint that faces the writer *)
Definition reader_of (cfg : wcfg) (rbuf : N) (close1 : bool) : rcfg :=
  mkRcfg (negb (wc_server cfg)) false 0 0 rbuf close1 no_avail.

(* writer model composed with the READER MODEL of C29 *)
Theorem model_roundtrip : forall cfg rbuf close1 infl ops keys,
    c_maxFrameHeaderSize < wc_buf cfg -> wc_compress cfg = false -> 125 <= rbuf ->
    keys_ok keys -> Forall (op_ok is_valid_received_close_code) ops ->
    map norm_event (read_all (reader_of cfg rbuf close1) infl (fst (write_all cfg keys false ops)))
    = expected (close_at_end (ops_events ops (map is_none (snd (write_all cfg keys false ops))))).
Proof.
  intros cfg rbuf close1 infl ops keys Hcap Hnoz Hb Hk Hok.
  pose proof (roundtrip is_valid_received_close_code (infl_of infl) cfg Hcap Hnoz ops keys Hk Hok) as R.
  rewrite model_meets_strict.
  - unfold strict_go, c_of, reader_of. simpl. unfold spec_run, S0, peer in R. unfold spec_read. rewrite R. reflexivity.
  - exact Hb.
  - intros k Hk'. unfold strict_go, c_of, reader_of in Hk'. simpl in Hk'.
    unfold spec_run, S0, peer in R. unfold spec_read in Hk'. rewrite R in Hk'.
    rewrite close_at_end_end in Hk'.
    destruct (ops_events_end ops (map is_none (snd (write_all cfg keys false ops)))) as [E|[c [x E]]];
      rewrite E in Hk'; discriminate.
Qed.

(* control frames: WriteControl never puts more than 125 payload bytes on the wire, flushFrame neither *)
Theorem control_le_125 : forall cfg keys typ data wire keys',
    write_control cfg keys typ data = inl (wire, keys') -> N.of_nat (length data) <= 125.
Proof.
  intros cfg keys typ data wire keys' E. unfold write_control, c_maxControlFramePayloadSize in E.
  destruct (negb (is_control_type typ)); [discriminate|].
  destruct (N.ltb_spec 125 (N.of_nat (length data))); [discriminate|assumption].
Qed.

Theorem flush_control_le_125 : forall cfg keys w final extra r,
    is_control_type (m_type w) = true -> flush_frame cfg keys w final extra = inl r ->
    final = true /\ N.of_nat (length (m_buf w) + length extra) <= 125.
Proof.
  intros cfg keys w final extra r Hc E. unfold flush_frame, c_maxControlFramePayloadSize in E. rewrite Hc in E.
  destruct final; simpl in E; [|discriminate].
  destruct (N.ltb_spec 125 (N.of_nat (length (m_buf w) + length extra))); [discriminate|]. split; [reflexivity|assumption].
Qed.

(* the mask bit of every header written by flushFrame: set by clients, clear for servers *)
Theorem header_mask_bit : forall server b0 len, len < two63 ->
    exists b1 rest, encode_header server b0 len = b0 :: b1 :: rest /\ b_masked b1 = negb server.
Proof.
  intros server b0 len H. unfold encode_header.
  assert (Hm : forall l, l < 128 -> b_masked ((if server then 0 else c_maskBit) + l) = negb server).
  { intros l Hl. destruct (b1_bits (negb server) l Hl) as [M _]. destruct server; exact M. }
  destruct (N.leb_spec 65536 len).
  - eexists _, _. split; [reflexivity|]. apply Hm. lia.
  - destruct (N.ltb_spec 125 len).
    + eexists _, _. split; [reflexivity|]. apply Hm. lia.
    + eexists _, _. split; [reflexivity|]. apply Hm. lia.
Qed.

(* the tagged run used by the harness is the plain run when write compression is never switched off *)
Lemma write_all_t_true : forall ops cfg keys sent,
    write_all_t cfg keys sent (map (pair true) ops) = write_all cfg keys sent ops.
Proof.
  induction ops as [|o ops IH]; intros cfg keys sent; [reflexivity|].
  cbn [map write_all_t write_all].
  assert (E : mkWcfg (wc_server cfg) (wc_buf cfg) (wc_compress cfg && true) = cfg).
  { destruct cfg as [s b z]. simpl. rewrite andb_true_r. reflexivity. }
  rewrite E. destruct (write_op cfg keys sent o) as [[[wire keys'] sent'] e]. rewrite IH. reflexivity.
Qed.

(* without writers left open, the run used by the harness is the tagged run of the theorems *)
Lemma write_all_o_closed : forall ops cfg keys sent,
    write_all_o cfg keys sent None (map (fun to => XOp (fst to) (snd to)) ops) = write_all_t cfg keys sent ops.
Proof.
  induction ops as [|[z o] ops IH]; intros cfg keys sent; [reflexivity|].
  cbn [map write_all_o write_all_t fst snd].
  replace (if begins_message o && negb sent then close_open cfg keys None else ([], keys)) with (@nil N, keys)
    by (destruct (begins_message o && negb sent); reflexivity).
  replace (if begins_message o then @None mw else None) with (@None mw) by (destruct (begins_message o); reflexivity).
  destruct (write_op _ keys sent o) as [[[wire keys'] sent'] e].
  rewrite IH. destruct (write_all_t cfg keys' sent' ops) as [w es]. reflexivity.
Qed.
