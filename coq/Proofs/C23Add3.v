(* C23 core domain, extension: Remove with an ExpectedPosition (non-empty epoch). *)
From Coq Require Import List NArith ZArith Bool String Ascii Lia.
From Cfg Require Import Model.RStr Model.LuaNum Model.Redis Model.RedisScripts Model.MapApi23 Model.MemMap23
                        Model.RedisMapBroker Model.RedisMapScripts
                        Proofs.C18Lib Proofs.C18Redis Proofs.C23Redis Proofs.C23Lib Proofs.C23Add Proofs.C23Read Proofs.C23Add2.
From Cfg Require Proofs.C18Stream Proofs.C18StreamP.
Import ListNotations.
Open Scope string_scope.

Definition core_remove2 (ch key payload size sttl nonce now_s eo ee : string) : M reply :=
  dom now <- num_of now_s ;;
  dom et <- (dom epoch <- current_epoch (k_meta ch) nonce ;;
             dom wipe <- wipe_check ch epoch ;;
             dom _ <- wipe_do ch wipe ;;
             dom _ <- cas_block ch key eo ee epoch ;;
             dom _ <- leave_check ch key epoch ;;
             incr_top ch epoch) ;;
  let '(epoch, top) := et in
  dom _ <- leave_block ch key ;;
  dom _ <- stream_block ch epoch payload size sttl top ;;
  dom _ <- when_ true (rc ["PUBLISH"; m_channel ch; pub_msg None top epoch payload]) ;;
  finish (RArr [RInt top; RBulk epoch; RBulk ""]).

Lemma core_remove2_eq ch c key payload size sttl nonce now_s eo ee :
  sh_map_add [k_stream ch; k_meta ch; ""; k_state ch; ""; k_expire ch; k_smeta ch; ""]
             [String c key; payload; size; sttl; m_channel ch; "0"; nonce; "PUBLISH"; ""; "0"; "0"; ""; "1"; "0"; "0"; "0";
              ""; ""; "0"; eo; ee; ""; ""; "v:" ++ String c key; "ve:" ++ String c key; now_s]
  = core_remove2 ch (String c key) payload size sttl nonce now_s eo ee.
Proof. reflexivity. Qed.

(* on an existing channel the script prefix (epoch lookup, dead-epoch wipe check) changes nothing *)
Lemma remove_prefix st ch nonce now_ v h epoch top (k : string -> M (string * Z)) (k2 : Z -> string * Z -> M reply) :
  views st ch v -> rv_meta v = Some h -> hash_ok h epoch top 0 "" -> wipe_cond v epoch ->
  runM (dom now <- num_of (dec now_) ;;
        dom et <- (dom epoch0 <- current_epoch (k_meta ch) nonce ;;
                   dom wipe <- wipe_check ch epoch0 ;;
                   dom _ <- wipe_do ch wipe ;; k epoch0) ;; k2 now et) st
  = runM (dom et <- k epoch ;; k2 (round53 (Z.of_N now_)) et) st.
Proof.
  intros (Vm & Vs & Vsm & Vst & Ve) Em Hh Hw. rewrite Em in Vm. destruct Vm as [x Vm].
  unfold runM. unfold bindM at 1. rewrite num_of_dec_any.
  rewrite bind_assoc. unfold bindM at 1. rewrite (C18StreamP.cur_epoch_some _ _ _ _ _ _ Vm (proj1 Hh)).
  rewrite bind_assoc. unfold bindM at 1. rewrite (wipe_spec st ch epoch _ _ Vs Vsm Hw).
  rewrite bind_assoc. unfold bindM at 1. unfold wipe_do at 1. unfold ret at 1. reflexivity.
Qed.

Lemma core_remove2_pass st ch key payload size sttl nonce now_ eo ee v h epoch top :
  views st ch v -> rv_meta v = Some h -> hash_ok h epoch top 0 "" -> wipe_cond v epoch ->
  cas_block ch key eo ee epoch st = (st, inl tt) ->
  runM (core_remove2 ch key payload size sttl nonce (dec now_) eo ee) st
  = runM (core_remove ch key payload size sttl nonce (dec now_)) st.
Proof.
  intros Hv Em Hh Hw Hcas. unfold core_remove2, core_remove.
  rewrite (remove_prefix st ch nonce now_ v h epoch top
             (fun e0 => dom _ <- cas_block ch key eo ee e0 ;; dom _ <- leave_check ch key e0 ;; incr_top ch e0) _ Hv Em Hh Hw).
  rewrite (remove_prefix st ch nonce now_ v h epoch top
             (fun e0 => dom _ <- leave_check ch key e0 ;; incr_top ch e0) _ Hv Em Hh Hw).
  unfold runM. rewrite bind_assoc. unfold bindM at 1. rewrite Hcas. reflexivity.
Qed.

Lemma core_remove2_fail st ch key payload size sttl nonce now_ eo ee v h epoch top r :
  views st ch v -> rv_meta v = Some h -> hash_ok h epoch top 0 "" -> wipe_cond v epoch ->
  cas_block ch key eo ee epoch st = (st, inr r) ->
  runM (core_remove2 ch key payload size sttl nonce (dec now_) eo ee) st = (st, r).
Proof.
  intros Hv Em Hh Hw Hcas. unfold core_remove2.
  rewrite (remove_prefix st ch nonce now_ v h epoch top
             (fun e0 => dom _ <- cas_block ch key eo ee e0 ;; dom _ <- leave_check ch key e0 ;; incr_top ch e0) _ Hv Em Hh Hw).
  unfold runM. rewrite bind_assoc. unfold bindM at 1. rewrite Hcas. reflexivity.
Qed.
