(* C21 proofs: decimal cursor round trip, sort order, cursor search, pagination. *)
From Coq Require Import List NArith ZArith Bool Lia Permutation Sorting.Sorted.
From Cfg Require Import Model.MapHub Model.MapPaging Proofs.MapBase.
Import ListNotations.
Open Scope N_scope.

(* ------------------------------------------------------------- decimal *)
Definition is_digit (c : N) : Prop := 48 <= c /\ c <= 57.
Definition undigits (l : list N) : N := fold_left (fun a c => a * 10 + (c - 48)) l 0.

Lemma digits_fuel_app : forall f n acc, digits_fuel f n acc = digits_fuel f n [] ++ acc.
Proof.
  induction f as [|f IH]; intros n acc; cbn [digits_fuel]; auto.
  destruct (n / 10 =? 0); auto.
  rewrite IH. rewrite (IH (n / 10) [48 + n mod 10]). rewrite <- app_assoc. reflexivity.
Qed.

Lemma undigits_snoc : forall l c, undigits (l ++ [c]) = undigits l * 10 + (c - 48).
Proof. intros. unfold undigits. rewrite fold_left_app. reflexivity. Qed.

Lemma digits_fuel_value : forall f n, n < 2 ^ N.of_nat f -> undigits (digits_fuel f n []) = n.
Proof.
  induction f as [|f IH]; intros n H.
  - simpl in H. assert (n = 0) by lia. subst. reflexivity.
  - cbn [digits_fuel]. destruct (n / 10 =? 0) eqn:E.
    + apply N.eqb_eq in E. unfold undigits; cbn [fold_left].
      pose proof (N.div_mod n 10 ltac:(lia)) as DM. pose proof (N.mod_lt n 10 ltac:(lia)) as ML.
      set (q := n / 10) in *. set (r := n mod 10) in *. lia.
    + apply N.eqb_neq in E. rewrite digits_fuel_app, undigits_snoc.
      rewrite IH.
      * pose proof (N.div_mod n 10 ltac:(lia)) as DM. pose proof (N.mod_lt n 10 ltac:(lia)) as ML.
        set (q := n / 10) in *. set (r := n mod 10) in *. lia.
      * rewrite Nat2N.inj_succ, N.pow_succ_r' in H.
        assert (n / 10 <= n / 2) by (apply N.div_le_compat_l; lia).
        assert (n / 2 < 2 ^ N.of_nat f) by (apply N.div_lt_upper_bound; lia). lia.
Qed.

Lemma digits_fuel_digits : forall f n, Forall is_digit (digits_fuel f n []).
Proof.
  induction f as [|f IH]; intros n; cbn [digits_fuel]; [constructor|].
  assert (D : is_digit (48 + n mod 10)) by (unfold is_digit; pose proof (N.mod_lt n 10 ltac:(lia)); set (r := n mod 10) in *; lia).
  destruct (n / 10 =? 0); [constructor; [exact D|constructor]|].
  rewrite digits_fuel_app. apply Forall_app. split; auto.
Qed.

Lemma digits_fuel_nonempty : forall f n, digits_fuel (S f) n [] <> [].
Proof.
  intros. cbn [digits_fuel]. destruct (n / 10 =? 0); [discriminate|].
  rewrite digits_fuel_app. intro C. apply app_eq_nil in C as [_ C]. discriminate.
Qed.

Lemma digits_value : forall n, undigits (digits n) = n.
Proof.
  intros. unfold digits. apply digits_fuel_value.
  rewrite Nat2N.inj_succ, N2Nat.id, N.pow_succ_r'.
  destruct n as [|p]; [simpl; lia|]. pose proof (N.log2_spec (N.pos p) ltac:(lia)) as [_ H]. rewrite N.pow_succ_r' in H. exact H.
Qed.
Lemma digits_digits : forall n, Forall is_digit (digits n).
Proof. intros. apply digits_fuel_digits. Qed.
Lemma digits_nonempty : forall n, digits n <> [].
Proof. intros. apply digits_fuel_nonempty. Qed.

Lemma parse_digits_ok : forall l a, Forall is_digit l ->
  parse_digits l a = Some (fold_left (fun a c => a * 10 + (c - 48)) l a).
Proof.
  induction l as [|c l IH]; intros a F; simpl; auto.
  inversion F as [|? ? [D1 D2] F']; subst.
  assert ((48 <=? c) && (c <=? 57) = true) as ->.
  { apply andb_true_iff. split; apply N.leb_le; auto. }
  apply IH; auto.
Qed.

Lemma parse_uint_digits : forall n, parse_uint (digits n) = Some (N.min n 18446744073709551615).
Proof.
  intros. unfold parse_uint. destruct (digits n) eqn:E; [exfalso; eapply digits_nonempty; eauto|].
  rewrite <- E. rewrite parse_digits_ok by apply digits_digits.
  fold (undigits (digits n)). rewrite digits_value. reflexivity.
Qed.

Lemma digits_head : forall n, exists c l, digits n = c :: l /\ is_digit c.
Proof.
  intros. pose proof (digits_digits n) as F. destruct (digits n) as [|c l] eqn:E.
  - exfalso. eapply digits_nonempty; eauto.
  - inversion F; subst. eauto.
Qed.

Theorem parse_format_int : forall z, int64 z -> parse_int (format_int z) = z.
Proof.
  intros z [L U]. unfold format_int. destruct (z <? 0)%Z eqn:NEG.
  - apply Z.ltb_lt in NEG. cbn [parse_int]. change (45 =? 43) with false. change (45 =? 45) with true. cbv iota beta.
    rewrite parse_uint_digits.
    assert (Z.to_N (- z) <= 9223372036854775808) by lia.
    rewrite N.min_l by lia. simpl negb. cbv iota beta.
    assert (9223372036854775808 <? Z.to_N (- z) = false) as -> by (apply N.ltb_ge; lia).
    simpl. rewrite Z2N.id by lia. lia.
  - apply Z.ltb_ge in NEG. destruct (digits_head (Z.to_N z)) as (c & l & E & [D1 D2]).
    unfold parse_int. rewrite E.
    assert (c =? 43 = false) as -> by (apply N.eqb_neq; lia).
    assert (c =? 45 = false) as -> by (apply N.eqb_neq; lia).
    rewrite <- E. rewrite parse_uint_digits.
    assert (Z.to_N z < 9223372036854775808) by lia.
    rewrite N.min_l by lia. simpl negb.
    assert (9223372036854775808 <=? Z.to_N z = false) as -> by (apply N.leb_gt; lia).
    simpl. apply Z2N.id. lia.
Qed.

Lemma format_int_no_nul : forall z, Forall (fun c => c <> 0) (format_int z).
Proof.
  intros. unfold format_int.
  assert (F : forall n, Forall (fun c => c <> 0) (digits n)).
  { intro n. eapply Forall_impl; [|apply digits_digits]. intros c [D1 D2]. lia. }
  destruct (z <? 0)%Z; auto. constructor; auto. discriminate.
Qed.

Lemma split_nul_app : forall a b, Forall (fun c => c <> 0) a -> split_nul (a ++ 0 :: b) = Some (a, b).
Proof.
  induction a as [|x a IH]; intros b F; simpl; auto.
  inversion F; subst. assert (x =? 0 = false) as -> by (apply N.eqb_neq; auto).
  rewrite IH; auto.
Qed.

Lemma parse_make_cursor : forall z k, parse_ordered_cursor (make_ordered_cursor z k) = (format_int z, k).
Proof.
  intros. unfold parse_ordered_cursor, make_ordered_cursor. rewrite split_nul_app; auto. apply format_int_no_nul.
Qed.

(* --------------------------------------------------------------- the order *)
Section Order.
  Variables (ordered asc : bool) (st : list (key * entry)).
  Let less := key_less ordered asc st.

  Lemma less_irrefl : forall a, less a a = false.
  Proof.
    intro a. unfold less, key_less. destruct ordered; [|apply key_ltb_irrefl].
    rewrite Z.eqb_refl. simpl. destruct asc; apply key_ltb_irrefl.
  Qed.

  Lemma less_before : forall a b, less a b = true <-> before ordered asc st a b.
  Proof.
    intros a b. unfold less, key_less, before, key_lt. destruct ordered; [|tauto].
    destruct (score_of st a =? score_of st b)%Z eqn:E; simpl.
    - apply Z.eqb_eq in E. destruct asc; split; intro H; auto; destruct H as [H|[_ H]]; auto; lia.
    - apply Z.eqb_neq in E. destruct asc; rewrite Z.ltb_lt; split; intro H; auto; destruct H as [H|[H _]]; auto; lia.
  Qed.

  Lemma before_trans : forall a b c, before ordered asc st a b -> before ordered asc st b c -> before ordered asc st a c.
  Proof.
    intros a b c. unfold before, key_lt. destruct ordered.
    - destruct asc; intros [H1|[E1 H1]] [H2|[E2 H2]]; try (left; lia);
        right; split; try lia; eapply key_ltb_trans; eauto.
    - apply key_ltb_trans.
  Qed.

  Lemma before_total : forall a b, a = b \/ before ordered asc st a b \/ before ordered asc st b a.
  Proof.
    intros a b. unfold before, key_lt. destruct ordered; [|apply key_ltb_total].
    destruct (Z.lt_total (score_of st a) (score_of st b)) as [H|[H|H]];
      destruct asc; try (right; left; left; lia); try (right; right; left; lia);
      (destruct (key_ltb_total a b) as [->|[K|K]]; [left; reflexivity| |]);
      first [ right; left; right; split; [lia|exact K] | right; right; right; split; [lia|exact K] ].
  Qed.

  Lemma before_irrefl : forall a, ~ before ordered asc st a a.
  Proof. intros a H. apply less_before in H. rewrite less_irrefl in H. discriminate. Qed.

  Lemma before_asym : forall a b, before ordered asc st a b -> ~ before ordered asc st b a.
  Proof. intros a b H1 H2. eapply before_irrefl. eapply before_trans; eauto. Qed.

  (* "not after": a <= b *)
  Definition le (a b : key) : Prop := less b a = false.
  Lemma le_total : forall a b, le a b \/ le b a.
  Proof.
    intros a b. unfold le. destruct (less b a) eqn:E; auto. right.
    destruct (less a b) eqn:E2; auto. apply less_before in E, E2. exfalso. eapply before_asym; eauto.
  Qed.
  Lemma le_trans : forall a b c, le a b -> le b c -> le a c.
  Proof.
    unfold le. intros a b c H1 H2. destruct (less c a) eqn:E; auto.
    pose proof (proj1 (less_before c a) E) as EP. exfalso.
    destruct (before_total a b) as [EQ|[H|H]].
    - subst. congruence.
    - destruct (before_total b c) as [EQ|[H'|H']].
      + subst. congruence.
      + eapply before_irrefl. eapply before_trans; [exact EP|]. eapply before_trans; eauto.
      + apply less_before in H'. congruence.
    - apply less_before in H. congruence.
  Qed.

  (* insertion sort *)
  Lemma insert_perm : forall x l, Permutation (insert_by less x l) (x :: l).
  Proof.
    induction l as [|y l IH]; simpl; auto. destruct (less y x); auto.
    rewrite IH. apply perm_swap.
  Qed.
  Lemma sort_perm : forall l, Permutation (sort_by less l) l.
  Proof. induction l; simpl; auto. rewrite insert_perm. auto. Qed.

  Lemma insert_sorted : forall x l, StronglySorted le l -> StronglySorted le (insert_by less x l).
  Proof.
    induction l as [|y l IH]; intro S; simpl.
    - constructor; constructor.
    - inversion S as [|? ? S' F]; subst. destruct (less y x) eqn:E.
      + constructor; auto. rewrite Forall_forall in *. intros z HZ.
        apply (Permutation_in _ (insert_perm x l)) in HZ. destruct HZ as [<-|HZ]; auto.
        unfold le. destruct (less x y) eqn:E2; auto. apply less_before in E, E2. exfalso. eapply before_asym; eauto.
      + constructor; auto. constructor; auto.
        rewrite Forall_forall in *. intros z HZ. eapply le_trans; [exact E|]. auto.
  Qed.
  Lemma sort_sorted : forall l, StronglySorted le (sort_by less l).
  Proof. induction l; simpl; [constructor|]. apply insert_sorted; auto. Qed.

  Lemma sorted_strict : forall l, NoDup l -> StronglySorted le l -> StronglySorted (before ordered asc st) l.
  Proof.
    induction l as [|x l IH]; intros ND S; [constructor|].
    inversion ND; subst. inversion S as [|? ? S' F]; subst. constructor; auto.
    rewrite Forall_forall in *. intros y HY. specialize (F _ HY). unfold le in F.
    destruct (before_total x y) as [->|[H|H]]; auto; [contradiction|].
    apply less_before in H. congruence.
  Qed.
End Order.

Lemma sorted_keys_spec : forall ordered asc st, NoDup (map fst st) ->
  is_sorted_state ordered asc st (sorted_keys ordered asc st).
Proof.
  intros. unfold is_sorted_state, sorted_keys. split.
  - apply sort_perm.
  - apply sorted_strict.
    + eapply Permutation_NoDup; [apply Permutation_sym, sort_perm|]. assumption.
    + apply sort_sorted.
Qed.

(* ------------------------------------------------------------------ cursors *)
Definition cursor_of (ordered : bool) (st : list (key * entry)) (k : key) : list N :=
  if ordered then make_ordered_cursor (score_of st k) k else k.

Lemma after_cursor_of : forall ordered asc st k x, int64 (score_of st k) ->
  after_cursor ordered asc st (cursor_of ordered st k) x = key_less ordered asc st k x.
Proof.
  intros ordered asc st k x I. unfold after_cursor, cursor_of, key_less. destruct ordered; auto.
  rewrite parse_make_cursor, parse_format_int by assumption.
  rewrite (Z.eqb_sym (score_of st x)). destruct (score_of st k =? score_of st x)%Z; reflexivity.
Qed.

Lemma cursor_of_nonempty : forall ordered st k, k <> [] -> is_empty (cursor_of ordered st k) = false.
Proof.
  intros ordered st k NE. unfold cursor_of, make_ordered_cursor. destruct ordered.
  - destruct (format_int (score_of st k)); reflexivity.
  - destruct k; [contradiction|reflexivity].
Qed.

Lemma search_split : forall {A} (f : A -> bool) pre suf,
  (forall x, In x pre -> f x = false) -> (match suf with [] => True | y :: _ => f y = true end) ->
  search f (pre ++ suf) = length pre.
Proof.
  induction pre as [|x pre IH]; intros suf H1 H2; simpl.
  - destruct suf; simpl in *; auto. rewrite H2. reflexivity.
  - rewrite H1 by (left; auto). f_equal. apply IH; auto. intros; apply H1; right; auto.
Qed.

Lemma ss_app_inv : forall {A} (R : A -> A -> Prop) l1 l2, StronglySorted R (l1 ++ l2) ->
  StronglySorted R l1 /\ StronglySorted R l2 /\ forall a b, In a l1 -> In b l2 -> R a b.
Proof.
  induction l1 as [|x l1 IH]; intros l2 S; simpl in *.
  - splits; auto. constructor. intros ? ? [].
  - inversion S as [|? ? S' F]; subst. destruct (IH _ S') as (HA1 & HB1 & HC1).
    rewrite Forall_forall in F. splits; auto.
    + constructor; auto. rewrite Forall_forall. intros y HY. apply F. apply in_or_app; auto.
    + intros a b [<-|HA] HB; auto. apply F. apply in_or_app; auto.
Qed.

Lemma last_in : forall {A} (l : list A) d, l <> [] -> In (last l d) l.
Proof.
  induction l as [|x l IH]; intros d NE; [contradiction|]. destruct l as [|y l]; [left; reflexivity|].
  right. apply IH. discriminate.
Qed.

Lemma ss_last_max : forall {A} (R : A -> A -> Prop) l d x, StronglySorted R l -> In x l -> x = last l d \/ R x (last l d).
Proof.
  induction l as [|y l IH]; intros d x S HI; [contradiction|].
  inversion S as [|? ? S' F]; subst. rewrite Forall_forall in F.
  destruct l as [|z l]; [destruct HI as [<-|[]]; left; reflexivity|].
  destruct HI as [->|HI].
  - right. apply F. change (last (x :: z :: l) d) with (last (z :: l) d). apply last_in. discriminate.
  - change (last (y :: z :: l) d) with (last (z :: l) d). apply IH; auto.
Qed.

Lemma last_app_ne : forall {A} (a b : list A) d, b <> [] -> last (a ++ b) d = last b d.
Proof.
  induction a as [|x a IH]; intros b d NE; simpl; auto.
  destruct (a ++ b) eqn:E; [apply app_eq_nil in E as [_ E]; contradiction|]. rewrite <- E. apply IH; auto.
Qed.

Lemma pubs_of_app : forall st a b, pubs_of st (a ++ b) = pubs_of st a ++ pubs_of st b.
Proof. intros. unfold pubs_of. apply flat_map_app. Qed.

Lemma pubs_of_length : forall st l, (forall k, In k l -> In k (map fst st)) -> length (pubs_of st l) = length l.
Proof.
  induction l as [|k l IH]; intro H; simpl; auto.
  destruct (aget key_eqb st k) eqn:G.
  - simpl. f_equal. apply IH. intros; apply H; right; auto.
  - exfalso. apply (aget_None_notin key_eqb key_eqb_eq) in G. apply G. apply H. left; reflexivity.
Qed.

Lemma paginate_S : forall f ordered st sorted p cursor limit asc,
  paginate (S f) ordered st sorted p cursor limit asc =
  match state_page ordered st sorted p cursor limit asc with
  | StOk pubs _ cur =>
      if is_empty cur then Some [pubs]
      else match paginate f ordered st sorted p cur limit asc with
           | Some rest => Some (pubs :: rest)
           | None => None
           end
  | _ => None
  end.
Proof. reflexivity. Qed.

(* one page, in terms of the sorted key list split at the cursor *)
Section Page.
  Variables (ordered asc : bool) (st : list (key * entry)) (p : pos) (lim : nat).
  Hypothesis OK : state_ok st.
  Hypothesis LIM : (0 < lim)%nat.
  Let L := sorted_keys ordered asc st.
  Let limit := Z.of_nat lim.

  Lemma L_sorted : StronglySorted (before ordered asc st) L.
  Proof. destruct OK as (ND & _). apply (sorted_keys_spec ordered asc st ND). Qed.
  Lemma L_perm : Permutation L (map fst st).
  Proof. destruct OK as (ND & _). apply (sorted_keys_spec ordered asc st ND). Qed.
  Lemma L_key : forall k, In k L -> In k (map fst st).
  Proof. intros. eapply Permutation_in; [apply L_perm|]. auto. Qed.
  Lemma L_int64 : forall k, In k L -> int64 (score_of st k).
  Proof.
    intros k H. apply L_key in H. destruct OK as (ND & NE & SC). apply in_map_iff in H as ([k' e] & E & HI). simpl in E; subst.
    unfold score_of. rewrite (In_aget_nodup key_eqb key_eqb_eq _ _ _ ND HI). eapply SC; eauto.
  Qed.

  Definition cursor_ok (pre : list key) (c : list N) : Prop :=
    (pre = [] /\ c = []) \/ (pre <> [] /\ c = cursor_of ordered st (last pre [])).

  Lemma page_at : forall pre suf c, L = pre ++ suf -> suf <> [] -> cursor_ok pre c ->
    state_page ordered st L p c limit asc =
    StOk (pubs_of st (firstn lim suf)) p
         (if Nat.ltb lim (length suf) then cursor_of ordered st (last (firstn lim suf) []) else []).
  Proof.
    intros pre suf c EL NS CO. unfold state_page.
    assert (TL : length L = (length pre + length suf)%nat) by (rewrite EL, app_length; reflexivity).
    assert (SL : (0 < length suf)%nat) by (destruct suf; [contradiction|simpl; lia]).
    assert (Nat.eqb (length L) 0 = false) as -> by (apply Nat.eqb_neq; lia).
    assert (START : (if is_empty c then O else search (after_cursor ordered asc st c) L) = length pre).
    { destruct CO as [[-> ->]|[NP ->]]; [reflexivity|].
      assert (KIN : In (last pre []) L) by (rewrite EL; apply in_or_app; left; apply last_in; auto).
      rewrite cursor_of_nonempty.
      2:{ destruct OK as (_ & NE & _). apply NE. apply L_key. exact KIN. }
      rewrite EL. pose proof L_sorted as S. rewrite EL in S. destruct (ss_app_inv _ _ _ S) as (S1 & S2 & S12).
      apply search_split.
      - intros x HX. rewrite after_cursor_of by (apply L_int64; exact KIN).
        destruct (ss_last_max _ _ [] x S1 HX) as [->|B].
        + apply less_irrefl.
        + destruct (key_less ordered asc st (last pre []) x) eqn:E; auto.
          apply less_before in E. exfalso. eapply before_asym; eauto.
      - destruct suf as [|y suf']; auto. rewrite after_cursor_of by (apply L_int64; exact KIN).
        apply less_before. apply S12; [apply last_in; auto | left; reflexivity]. }
    rewrite START.
    assert (Nat.leb (length L) (length pre) = false) as -> by (apply Nat.leb_gt; lia).
    unfold limit. assert ((0 <? Z.of_nat lim)%Z = true) as -> by (apply Z.ltb_lt; lia).
    rewrite Nat2Z.id.
    assert (SK : skipn (length pre) L = suf).
    { rewrite EL, skipn_app, skipn_all, Nat.sub_diag. reflexivity. }
    rewrite SK.
    assert (PG : firstn (Nat.min (length pre + lim) (length L) - length pre) suf = firstn lim suf).
    { destruct (Nat.le_gt_cases lim (length suf)).
      - f_equal. lia.
      - rewrite !firstn_all2 by lia. reflexivity. }
    rewrite PG. f_equal.
    destruct (Nat.ltb lim (length suf)) eqn:LT.
    - apply Nat.ltb_lt in LT. assert (Nat.ltb (Nat.min (length pre + lim) (length L)) (length L) = true) as -> by (apply Nat.ltb_lt; lia).
      unfold cursor_of. destruct ordered; reflexivity.
    - apply Nat.ltb_ge in LT. assert (Nat.ltb (Nat.min (length pre + lim) (length L)) (length L) = false) as -> by (apply Nat.ltb_ge; lia).
      reflexivity.
  Qed.

  Lemma firstn_nonempty_last : forall (l : list key) n, (0 < n)%nat -> l <> [] -> firstn n l <> [].
  Proof. intros l n H NE. destruct l; [contradiction|]. destruct n; [lia|]. discriminate. Qed.

  (* number of pages for n remaining keys *)
  Fixpoint npages (fuel n : nat) : nat :=
    match fuel with O => 1%nat | S f => if Nat.leb n lim then 1%nat else S (npages f (n - lim)) end.

  Lemma paginate_from : forall fuel pre suf c,
    L = pre ++ suf -> suf <> [] -> cursor_ok pre c -> (length suf <= fuel)%nat ->
    exists pages,
      paginate (S fuel) ordered st L p c limit asc = Some pages /\
      concat pages = pubs_of st suf /\
      (forall pg, In pg (removelast pages) -> length pg = lim) /\
      (forall pg, In pg pages -> pg <> []) /\
      length pages = npages fuel (length suf).
  Proof.
    induction fuel as [|f IH]; intros pre suf c EL NS CO FU.
    { destruct suf; [contradiction|simpl in FU; lia]. }
    assert (KS : forall k, In k suf -> In k (map fst st)).
    { intros k HK. apply L_key. rewrite EL. apply in_or_app; auto. }
    rewrite paginate_S. rewrite (page_at pre suf c EL NS CO).
    destruct (Nat.ltb lim (length suf)) eqn:LT.
    - apply Nat.ltb_lt in LT.
      set (pg := firstn lim suf). set (suf' := skipn lim suf).
      assert (ES : suf = pg ++ suf') by (symmetry; apply firstn_skipn).
      assert (PN : pg <> []) by (apply firstn_nonempty_last; auto).
      assert (LP : length pg = lim) by (unfold pg; rewrite firstn_length; lia).
      assert (NS' : suf' <> []).
      { intro C. assert (length suf = length pg + length suf')%nat by (rewrite ES at 1; apply app_length). rewrite C in H. simpl in H. lia. }
      rewrite cursor_of_nonempty.
      2:{ destruct OK as (_ & NE & _). apply NE. apply KS. rewrite ES. apply in_or_app. left. apply last_in; auto. }
      destruct (IH (pre ++ pg) suf' (cursor_of ordered st (last pg []))) as (pages & PA & CC & PL & PNE & NP).
      + rewrite <- app_assoc, <- ES. exact EL.
      + exact NS'.
      + right. split; [destruct pre; discriminate || (intro C; apply app_eq_nil in C as [_ C]; contradiction)|].
        rewrite last_app_ne; auto.
      + assert (length suf = length pg + length suf')%nat by (rewrite ES at 1; apply app_length). lia.
      + rewrite PA. eexists. split; [reflexivity|]. splits.
        * simpl. rewrite CC, <- pubs_of_app, <- ES. reflexivity.
        * intros x HX. cbn [removelast] in HX. destruct pages as [|y ys]; [discriminate PA || (simpl in HX; contradiction)|].
          destruct HX as [<-|HX]; auto.
          rewrite pubs_of_length; auto. intros k HK. apply KS. rewrite ES. apply in_or_app; auto.
        * intros x [<-|HX]; auto. intro C. apply (f_equal (@length pub)) in C. rewrite pubs_of_length in C.
          -- simpl in C. lia.
          -- intros k HK. apply KS. rewrite ES. apply in_or_app; auto.
        * simpl. rewrite NP. assert (Nat.leb (length suf) lim = false) as -> by (apply Nat.leb_gt; lia).
          f_equal. f_equal. unfold suf'. rewrite skipn_length. reflexivity.
    - apply Nat.ltb_ge in LT. simpl. eexists. split; [reflexivity|]. rewrite firstn_all2 by lia. splits.
      + simpl. apply app_nil_r.
      + intros x [].
      + intros x [<-|[]]. intro C. apply (f_equal (@length pub)) in C. rewrite pubs_of_length in C; auto.
        destruct suf; [contradiction|discriminate].
      + simpl. assert (Nat.leb (length suf) lim = true) as -> by (apply Nat.leb_le; lia). reflexivity.
  Qed.
End Page.

(* ------------------------------------------------------------ main theorems *)
Lemma npages_ceil : forall lim, (0 < lim)%nat -> forall fuel n, (n <= fuel)%nat -> (0 < n)%nat ->
  npages lim fuel n = ((n + lim - 1) / lim)%nat.
Proof.
  intros lim LP. induction fuel as [|f IH]; intros n H1 H2; [lia|]. simpl.
  destruct (Nat.leb n lim) eqn:E.
  - apply Nat.leb_le in E. apply Nat.div_unique with (r := (n - 1)%nat); lia.
  - apply Nat.leb_gt in E. rewrite IH by lia.
    replace (n + lim - 1)%nat with ((n - lim + lim - 1) + 1 * lim)%nat by lia.
    rewrite Nat.div_add by lia. lia.
Qed.

Theorem pages_spec : forall ordered asc st p lim,
  state_ok st -> (0 < lim)%nat ->
  exists pages,
    pages_of ordered st p (Z.of_nat lim) asc = Some pages /\
    concat pages = pubs_of st (sorted_keys ordered asc st) /\
    (forall pg, In pg (removelast pages) -> length pg = lim) /\
    (st <> [] -> forall pg, In pg pages -> pg <> []) /\
    length pages = (if Nat.eqb (length st) 0 then 1 else (length st + lim - 1) / lim)%nat.
Proof.
  intros ordered asc st p lim OK LP. unfold pages_of.
  destruct st as [|x st'] eqn:EST.
  - simpl. exists [[]]. splits; auto. intros pg []. 
  - rewrite <- EST in *.
    assert (LL : length (sorted_keys ordered asc st) = length st).
    { rewrite (Permutation_length (L_perm ordered asc st OK)). apply map_length. }
    assert (NS : sorted_keys ordered asc st <> []).
    { intro C. rewrite C in LL. rewrite EST in LL. discriminate. }
    destruct (paginate_from ordered asc st p lim OK LP (length st) [] (sorted_keys ordered asc st) [])
      as (pages & PA & CC & PL & PNE & NP); auto.
    + left; auto.
    + lia.
    + exists pages. splits; auto.
      rewrite NP, LL. rewrite npages_ceil; auto; [|rewrite EST; simpl; lia].
      assert (Nat.eqb (length st) 0 = false) as -> by (rewrite EST; reflexivity). reflexivity.
Qed.

(* a negative Limit (-1 = no limit) returns everything in one page *)
Theorem pages_all : forall ordered asc st p limit, (limit < 0)%Z ->
  pages_of ordered st p limit asc = Some [pubs_of st (sorted_keys ordered asc st)].
Proof.
  intros. unfold pages_of. rewrite paginate_S. unfold state_page.
  destruct (Nat.eqb (length (sorted_keys ordered asc st)) 0) eqn:E.
  - apply Nat.eqb_eq in E. destruct (sorted_keys ordered asc st); [reflexivity|discriminate].
  - simpl. apply Nat.eqb_neq in E.
    assert (Nat.leb (length (sorted_keys ordered asc st)) 0 = false) as -> by (apply Nat.leb_gt; lia).
    assert ((0 <? limit)%Z = false) as -> by (apply Z.ltb_ge; lia). reflexivity.
Qed.

Definition keys_match (st : list (key * entry)) : Prop := forall k e, In (k, e) st -> p_key (e_pub e) = k.

Lemma pubs_of_keys : forall st l, NoDup (map fst st) -> keys_match st ->
  (forall k, In k l -> In k (map fst st)) -> map p_key (pubs_of st l) = l.
Proof.
  intros st l ND KM. induction l as [|k l IH]; intro H; simpl; auto.
  destruct (aget key_eqb st k) eqn:G.
  - simpl. rewrite IH by (intros; apply H; right; auto). f_equal.
    apply KM. apply (aget_In key_eqb key_eqb_eq). exact G.
  - exfalso. apply (aget_None_notin key_eqb key_eqb_eq) in G. apply G. apply H. left; reflexivity.
Qed.

(* every key exactly once, in the channel's sort order *)
Theorem pages_keys_once : forall ordered asc st p lim pages,
  state_ok st -> keys_match st -> (0 < lim)%nat ->
  pages_of ordered st p (Z.of_nat lim) asc = Some pages ->
  is_sorted_state ordered asc st (map p_key (concat pages)) /\ NoDup (map p_key (concat pages)).
Proof.
  intros ordered asc st p lim pages OK KM LP H.
  destruct (pages_spec ordered asc st p lim OK LP) as (pages' & PA & CC & _).
  rewrite PA in H. inversion H; subst pages'. rewrite CC.
  pose proof OK as (ND & _).
  rewrite pubs_of_keys; auto.
  - split; [apply sorted_keys_spec; auto|].
    eapply Permutation_NoDup; [apply Permutation_sym, (L_perm ordered asc st OK)|]. exact ND.
  - apply L_key. exact OK.
Qed.

(* single-key read: exactly the stored entry *)
Theorem single_key_read : forall c cursor limit k asc, k <> [] ->
  get_state_chan c None cursor limit k asc =
  (c, StOk (match aget key_eqb (c_state c) k with Some e => [e_pub e] | None => [] end) (chan_pos c) []).
Proof.
  intros. unfold get_state_chan, state_pre. destruct k; [contradiction|]. simpl.
  destruct (aget key_eqb (c_state c) (n :: k)); reflexivity.
Qed.

(* reads through the sortedKeys cache are reads of the freshly sorted list,
   and leave the cache valid: paginating while the state does not change
   follows [pages_of] *)
From Cfg Require Import Model.MapSpec Proofs.MapRefine.

Theorem cached_read_is_page : forall c cursor limit asc,
  cache_ok c -> limit <> 0%Z ->
  get_state_chan c None cursor limit [] asc =
    (refresh_cache c asc,
     state_page (c_ordered c) (c_state c) (sorted_keys (c_ordered c) asc (c_state c)) (chan_pos c) cursor limit asc) /\
  cache_ok (refresh_cache c asc) /\
  c_state (refresh_cache c asc) = c_state c /\ c_ordered (refresh_cache c asc) = c_ordered c /\
  c_stream (refresh_cache c asc) = c_stream c.
Proof.
  intros c cursor limit asc CK NZ. unfold get_state_chan, state_pre. simpl.
  assert ((limit =? 0)%Z = false) as -> by (apply Z.eqb_neq; auto).
  rewrite refresh_cache_sorted by assumption. splits; auto.
  all: unfold refresh_cache; match goal with |- context [if ?b then _ else _] => destruct b end; simpl; auto.
  unfold cache_ok; simpl. reflexivity.
Qed.
