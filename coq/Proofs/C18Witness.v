(* Concrete operation sequences on which the two broker MODELS (Redis side:
   shallow scripts + Go glue; memory side: MemBroker18 with the version fix)
   give different observables.  Each is decided by computation.  Those marked
   (*GO*) are replayed against the real code by the C18 driver (probe cases);
   the time-dependent ones cannot be (the memory broker reads the wall clock). *)
From Coq Require Import List NArith ZArith Bool String.
From Cfg Require Import Model.RStr Model.Redis Model.RedisScripts Model.BrokerApi18
                        Model.RedisBroker Model.MemBroker18.
Import ListNotations.
Open Scope string_scope.

Definition cfgS := mkCfg false 7200.
Definition cfgL := mkCfg true 7200.
Definition hp := mkPO 5 3600 0 "" 0 false 0 "".                 (* history on, nothing else *)
Definition hpv (v : N) := mkPO 5 3600 0 "" 0 false v "".        (* versioned *)
Definition hpd := mkPO 5 3600 0 "" 0 true 0 "".                 (* delta *)
Definition hpk (k : string) := mkPO 5 3600 0 k 0 false 0 "".    (* idempotency key *)
Definition nohist_k (k : string) := mkPO 0 0 0 k 0 false 0 "".
Definition hist_all (ch nonce : string) := OpHistory ch (mkHF None (-1) false) 0 nonce.

Ltac differ := let H := fresh "H" in intro H; vm_compute in H; discriminate H.

(* GO: versions >= 2^53 are compared as doubles by tonumber() in Lua *)
Definition w_version_2p53 :=
  [OpPublish "a" "x1" (hpv 9007199254740992) "N0"; OpPublish "a" "x2" (hpv 9007199254740993) "N1"].
Lemma version_2p53_differs : redis_run cfgS w_version_2p53 <> mem_run cfgS w_version_2p53.
Proof. differ. Qed.

(* GO: versions >= 2^63 are sent as negative decimals by strconv.Itoa(int(version)) *)
Definition w_version_2p63 :=
  [OpPublish "a" "x1" (hpv 5) "N0"; OpPublish "a" "x2" (hpv 9223372036854775808) "N1"].
Lemma version_2p63_differs : redis_run cfgS w_version_2p63 <> mem_run cfgS w_version_2p63.
Proof. differ. Qed.

(* GO (finding nohist-idem): idempotent publish without history: Redis never reports Suppressed *)
Definition w_nohist_idem :=
  [OpPublish "a" "x1" (nohist_k "k") "N0"; OpPublish "a" "x2" (nohist_k "k") "N1"].
Lemma nohist_idem_differs : redis_run cfgS w_nohist_idem <> mem_run cfgS w_nohist_idem.
Proof. differ. Qed.

(* GO (finding idem-cross-mode): same idempotency key first without then with history:
   Redis returns "wrong Redis reply offset" *)
Definition w_idem_cross :=
  [OpPublish "a" "x1" (nohist_k "k") "N0"; OpPublish "a" "x2" (hpk "k") "N1"].
Lemma idem_cross_differs : redis_run cfgS w_idem_cross <> mem_run cfgS w_idem_cross.
Proof. differ. Qed.

(* GO: reverse history since a position beyond the top: Redis returns the whole stream *)
Definition w_reverse_beyond :=
  [OpPublish "a" "x1" hp "N0"; OpPublish "a" "x2" hp "N1";
   OpHistory "a" (mkHF (Some (9%N, "N0")) (-1) true) 0 "N2"].
Lemma reverse_beyond_differs : redis_run cfgS w_reverse_beyond <> mem_run cfgS w_reverse_beyond.
Proof. differ. Qed.
Definition w_reverse_zero :=
  [OpPublish "a" "x1" hp "N0"; OpHistory "a" (mkHF (Some (0%N, "N0")) (-1) true) 0 "N1"].
Lemma reverse_zero_differs : redis_run cfgS w_reverse_zero <> mem_run cfgS w_reverse_zero.
Proof. differ. Qed.

(* GO: channel "meta.x" stores its stream under the key of channel "x"'s meta hash *)
Definition w_key_collision :=
  [OpPublish "x" "x1" hp "N0"; OpPublish "meta.x" "y1" hp "N1"; hist_all "x" "N2"; OpPublish "x" "x2" hp "N3"].
Lemma key_collision_differs : redis_run cfgS w_key_collision <> mem_run cfgS w_key_collision.
Proof. differ. Qed.
Lemma key_collision_keys : stream_key "meta.x" = meta_key false "x".
Proof. reflexivity. Qed.

(* the empty channel name: Redis side drops the delivery ("unsupported channel") *)
Definition w_empty_channel := [OpPublish "" "x1" hp "N0"].
Lemma empty_channel_differs : redis_run cfgS w_empty_channel <> mem_run cfgS w_empty_channel.
Proof. differ. Qed.

(* ---- list storage ---- *)
(* GO: broker_history_add_list.lua ignores version / version_epoch *)
Definition w_list_version := [OpPublish "a" "x1" (hpv 5) "N0"; OpPublish "a" "x2" (hpv 3) "N1"].
Lemma list_version_differs : redis_run cfgL w_list_version <> mem_run cfgL w_list_version.
Proof. differ. Qed.
(* GO (finding list-delta): with lists the delta push carries the PREFIXED previous list element,
   which does not unmarshal: the second delta publication is never delivered *)
Definition w_list_delta := [OpPublish "a" "x1" hpd "N0"; OpPublish "a" "x2" hpd "N1"].
Lemma list_delta_differs : redis_run cfgL w_list_delta <> mem_run cfgL w_list_delta.
Proof. differ. Qed.
Lemma list_delta_second_not_delivered : snd (nth 1 (redis_run cfgL w_list_delta) (ResErr, [])) = [].
Proof. vm_compute. reflexivity. Qed.
(* GO: reverse iteration is not implemented for lists (documented in RedisBrokerConfig.UseLists) *)
Definition w_list_reverse :=
  [OpPublish "a" "x1" hp "N0"; OpPublish "a" "x2" hp "N1"; OpHistory "a" (mkHF None (-1) true) 0 "N2"].
Lemma list_reverse_differs : redis_run cfgL w_list_reverse <> mem_run cfgL w_list_reverse.
Proof. differ. Qed.
(* GO: since.Offset = MaxUint64: memory wraps since+1 to 0, historyList compares first *)
Definition w_list_since_max :=
  [OpPublish "a" "x1" hp "N0"; OpHistory "a" (mkHF (Some (18446744073709551615%N, "N0")) (-1) false) 0 "N1"].
Lemma list_since_max_differs : redis_run cfgL w_list_since_max <> mem_run cfgL w_list_since_max.
Proof. differ. Qed.

(* ---- time dependent (models only) ---- *)
(* a version-suppressed publish used to refresh the history TTL in the memory broker only (fixed in
   /repo by 9899a62b: the version check now precedes the TTL bookkeeping; with it this sequence agrees) *)
Definition hpv60 (v : N) (d : bool) := mkPO 5 60 0 "" 0 d v "".
Definition cfg100 := mkCfg false 100.
Definition w_suppressed_ttl :=
  [OpPublish "a" "x1" (hpv60 5 false) "N0"; OpTick 50000; OpPublish "a" "x2" (hpv60 3 false) "N1"; OpTick 20000; hist_all "a" "N2"].
Lemma suppressed_ttl_agrees_fixed : redis_run cfg100 w_suppressed_ttl = mem_run cfg100 w_suppressed_ttl.
Proof. vm_compute. reflexivity. Qed.
(* residue: with UseDelta the previous-publication lookup (getLocked) still runs first and refreshes
   the META TTL in the memory broker, the Redis script returns before any EXPIRE *)
Definition w_suppressed_delta_ttl :=
  [OpPublish "a" "x1" (hpv60 5 false) "N0"; OpTick 90000; OpPublish "a" "x2" (hpv60 3 true) "N1"; OpTick 60000; hist_all "a" "N2"].
Lemma suppressed_delta_ttl_differs : redis_run cfg100 w_suppressed_delta_ttl <> mem_run cfg100 w_suppressed_delta_ttl.
Proof. differ. Qed.
(* meta TTL shorter than history TTL: Redis keeps serving the old entries under a new epoch *)
Definition cfgM := mkCfg false 10.
Definition w_meta_shorter := [OpPublish "a" "x1" hp "N0"; OpTick 20000; hist_all "a" "N1"].
Lemma meta_shorter_differs : redis_run cfgM w_meta_shorter <> mem_run cfgM w_meta_shorter.
Proof. differ. Qed.

(* ---- and sequences on which they agree (non-vacuity of the agreement theorems) ---- *)
Definition w_agree_stream :=
  [hist_all "a" "N0"; OpPublish "a" "x1" hp "N1"; OpPublish "a" "x2" hpd "N2";
   OpPublish "a" "x3" (hpk "k") "N3"; OpPublish "a" "x4" (hpk "k") "N4";
   OpPublish "a" "x5" (hpv 7) "N5"; OpPublish "a" "x6" (hpv 5) "N6"; OpPublish "a" "x7" hp "N7";
   OpPublish "a" "x8" (hpv 6) "N8";
   hist_all "a" "N9"; OpHistory "a" (mkHF None 2 true) 0 "N10";
   OpHistory "a" (mkHF (Some (3%N, "N0")) (-1) false) 0 "N11";
   OpHistory "a" (mkHF (Some (4%N, "N0")) 2 true) 0 "N12";
   OpRemove "a"; hist_all "a" "N13"; OpPublish "b" "y1" (mkPO 0 0 0 "" 0 true 0 "") "N14";
   OpPublish "a" "x9" hp "N15"; hist_all "a" "N16"].
Lemma agree_stream_example : redis_run cfgS w_agree_stream = mem_run cfgS w_agree_stream.
Proof. vm_compute. reflexivity. Qed.
Definition w_agree_list :=
  [hist_all "a" "N0"; OpPublish "a" "x1" hp "N1"; OpPublish "a" "x2" hp "N2";
   OpPublish "a" "x3" (hpk "k") "N3"; OpPublish "a" "x4" (hpk "k") "N4";
   OpPublish "a" "x5" (mkPO 2 3600 0 "" 0 false 0 "") "N5";
   hist_all "a" "N6"; OpHistory "a" (mkHF None 1 false) 0 "N7";
   OpHistory "a" (mkHF (Some (3%N, "N0")) (-1) false) 0 "N8";
   OpHistory "a" (mkHF (Some (1%N, "N0")) 5 false) 0 "N9";
   OpRemove "a"; hist_all "a" "N10"; OpPublish "a" "x6" hp "N11"; hist_all "a" "N12"].
Lemma agree_list_example : redis_run cfgL w_agree_list = mem_run cfgL w_agree_list.
Proof. vm_compute. reflexivity. Qed.
(* with time passing, inside the TTL discipline (meta TTL >= history TTL) *)
Definition w_agree_ticks :=
  [OpPublish "a" "x1" (mkPO 5 60 0 "k" 100 false 0 "") "N0"; OpTick 61000; hist_all "a" "N1";
   OpPublish "a" "x2" (mkPO 5 60 0 "k" 100 false 0 "") "N2"; OpTick 40000;
   OpPublish "a" "x3" (mkPO 5 60 0 "k" 100 false 0 "") "N3"; hist_all "a" "N4"; OpTick 8000000; hist_all "a" "N5"].
Lemma agree_ticks_example : redis_run cfgS w_agree_ticks = mem_run cfgS w_agree_ticks.
Proof. vm_compute. reflexivity. Qed.
