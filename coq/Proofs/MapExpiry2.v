(* Expiry tracking invariant, part 2: Phase 2 and every step preserve it. *)
From Coq Require Import List NArith ZArith Bool Lia Permutation Sorting.Sorted.
From Cfg Require Import Model.MapHub Proofs.MapBase Proofs.MapExpiry.
Import ListNotations.
Open Scope N_scope.

Lemma upd_set_chan_aset : forall h ch c c' k e,
  get_chan h ch = Some c -> c_state c' = aset key_eqb (c_state c) k e ->
  upd h (set_chan h ch c') ch k (Some e).
Proof.
  intros h ch c c' k e G ST i' k'. rewrite entry_at_set_chan. unfold ck_eqb; simpl.
  destruct (i' =? ch) eqn:E; simpl; auto.
  apply N.eqb_eq in E; subst i'. rewrite ST. unfold entry_at. rewrite G.
  destruct (key_eqb k' k) eqn:EK.
  - apply key_eqb_eq in EK; subst. apply (aget_aset_same key_eqb key_eqb_eq).
  - apply key_eqb_neq in EK. apply (aget_aset_other key_eqb key_eqb_eq); auto.
Qed.

Lemma upd_set_chan_adel : forall h ch c c' k,
  get_chan h ch = Some c -> c_state c' = adel key_eqb (c_state c) k ->
  upd h (set_chan h ch c') ch k None.
Proof.
  intros h ch c c' k G ST i' k'. rewrite entry_at_set_chan. unfold ck_eqb; simpl.
  destruct (i' =? ch) eqn:E; simpl; auto.
  apply N.eqb_eq in E; subst i'. rewrite ST. unfold entry_at. rewrite G.
  destruct (key_eqb k' k) eqn:EK.
  - apply key_eqb_eq in EK; subst. apply (aget_adel_same key_eqb).
  - apply key_eqb_neq in EK. apply (aget_adel_other key_eqb key_eqb_eq); auto.
Qed.

Lemma same_entries_set_chan : forall h ch c c',
  get_chan h ch = Some c -> c_state c' = c_state c -> same_entries h (set_chan h ch c').
Proof.
  intros h ch c c' G ST i k. rewrite entry_at_set_chan.
  destruct (i =? ch) eqn:E; auto. apply N.eqb_eq in E; subst. unfold entry_at. rewrite G, ST. reflexivity.
Qed.

Lemma same_entries_new_chan : forall h ch c',
  get_chan h ch = None -> c_state c' = [] -> same_entries h (set_chan h ch c').
Proof.
  intros h ch c' G ST i k. rewrite entry_at_set_chan.
  destruct (i =? ch) eqn:E; auto. apply N.eqb_eq in E; subst. unfold entry_at. rewrite G, ST. reflexivity.
Qed.

(* ------------------------------------------------------------------ Phase 2 *)
Lemma phase2_Inv : forall h h', Inv h -> phase2 h = Some h' -> Inv h'.
Proof.
  intros h h' (T & NX & QO & KO & (PO1 & PO2)) H. unfold phase2 in H.
  destruct (h_pend h) as [|ev rest] eqn:PE; [discriminate|]. inversion H; subst h'; clear H.
  set (h0 := set_pend h rest (h_pnow h)).
  assert (EV : 0 < ev_exp ev /\ ev_exp ev <= h_pnow h /\ ev_key ev <> []) by (apply PO1; left; reflexivity).
  assert (PR : forall ev', In ev' rest -> 0 < ev_exp ev' /\ ev_exp ev' <= h_pnow h /\ ev_key ev' <> []) by (intros; apply PO1; right; auto).
  (* witnesses other than [ev] survive *)
  assert (W : forall i k e, entry_at h i k = Some e -> 0 < e_exp e ->
            ((i, k), e_exp e) <> ev_item ev ->
            aget ck_eqb (h_kexp h) (i, k) = Some (e_exp e) /\
            (In ((i, k), e_exp e) (h_queue h) \/ In ((i, k), e_exp e) (map ev_item rest))).
  { intros i k e HE DP NE. destruct (T _ _ _ HE DP) as (A & [B|B]); split; auto.
    rewrite PE in B. simpl in B. destruct B as [B|B]; auto. congruence. }
  assert (NOOP : (forall e, entry_at h (ev_ch ev) (ev_key ev) = Some e -> e_exp e <> ev_exp ev) -> Inv h0).
  { intro NW. unfold Inv, tracked, next_ok, pend_ok; simpl. splits; auto.
    intros i k e HE DP. apply W; auto. intro C. unfold ev_item in C. inversion C; subst. eapply NW; eauto. }
  unfold phase2_one. fold h0.
  destruct (get_chan h0 (ev_ch ev)) as [c|] eqn:GC.
  2:{ apply NOOP. intros e HE. unfold entry_at in HE. change (get_chan h (ev_ch ev)) with (get_chan h0 (ev_ch ev)) in HE.
      rewrite GC in HE. discriminate. }
  destruct (aget key_eqb (c_state c) (ev_key ev)) as [e|] eqn:GE.
  2:{ apply NOOP. intros e HE. unfold entry_at in HE. change (get_chan h (ev_ch ev)) with (get_chan h0 (ev_ch ev)) in HE.
      rewrite GC, GE in HE. discriminate. }
  assert (ENT : entry_at h (ev_ch ev) (ev_key ev) = Some e).
  { unfold entry_at. change (get_chan h (ev_ch ev)) with (get_chan h0 (ev_ch ev)). rewrite GC. exact GE. }
  destruct (e_exp e =? ev_exp ev) eqn:EE.
  - (* removal *)
    apply N.eqb_eq in EE.
    set (c1 := set_state c (adel key_eqb (c_state c) (ev_key ev))).
    assert (FINAL : forall c2 b, c_state c2 = c_state c1 ->
              Inv (add_bcast (set_chan (set_kexp h0 (adel ck_eqb (h_kexp h0) (ev_ch ev, ev_key ev))) (ev_ch ev) c2) b)).
    { intros c2 b ST.
      assert (U : upd h0 (set_chan (set_kexp h0 (adel ck_eqb (h_kexp h0) (ev_ch ev, ev_key ev))) (ev_ch ev) c2) (ev_ch ev) (ev_key ev) None).
      { apply (upd_set_chan_adel (set_kexp h0 (adel ck_eqb (h_kexp h0) (ev_ch ev, ev_key ev))) (ev_ch ev) c c2); auto. }
      unfold Inv, tracked, next_ok, pend_ok; simpl. splits; auto.
      + intros i k e' HE DP. change (entry_at (set_chan (set_kexp h0 (adel ck_eqb (h_kexp h0) (ev_ch ev, ev_key ev))) (ev_ch ev) c2) i k = Some e') in HE.
        rewrite U in HE. destruct (ck_eqb (i, k) (ev_ch ev, ev_key ev)) eqn:E; [discriminate|].
        assert (NK : (i, k) <> (ev_ch ev, ev_key ev)) by (intro C; rewrite C, ck_eqb_refl in E; discriminate).
        rewrite (aget_adel_other ck_eqb ck_eqb_eq); auto.
        apply W; auto. intro C. unfold ev_item in C. inversion C. congruence.
      + intros it HI. apply (adel_In ck_eqb ck_eqb_eq) in HI as [HI _]. auto. }
    destruct (0 <? ev_size ev).
    + destruct (stream_add (c_stream c1) (fun off => mkPub (ev_key ev) off 0 (ev_tags ev) true 0%Z) (ev_size ev)) as [s' off] eqn:SA.
      apply FINAL. reflexivity.
    + apply FINAL. reflexivity.
  - apply N.eqb_neq in EE.
    destruct (h_pnow h0 <? e_exp e) eqn:PN.
    + (* refreshed in between: re-queue *)
      apply N.ltb_lt in PN. change (h_pnow h0) with (h_pnow h) in PN.
      unfold Inv, tracked, next_ok, pend_ok; simpl. splits; auto.
      * intros i k e' HE DP. change (entry_at h i k = Some e') in HE.
        destruct (ck_eqb (i, k) (ev_ch ev, ev_key ev)) eqn:E.
        -- apply ck_eqb_eq in E. inversion E; subst. rewrite ENT in HE. inversion HE; subst.
           rewrite (aget_aset_same ck_eqb ck_eqb_eq). split; auto.
        -- assert (NK : (i, k) <> (ev_ch ev, ev_key ev)) by (intro C; rewrite C, ck_eqb_refl in E; discriminate).
           rewrite (aget_aset_other ck_eqb ck_eqb_eq); auto.
           destruct (W i k e') as (A & [B|B]); auto.
           { intro C. unfold ev_item in C. inversion C. congruence. }
      * intros it [<-|HI]; simpl.
        -- destruct (h_next h =? 0) eqn:Z; simpl; [lia|].
           apply N.eqb_neq in Z. destruct (e_exp e <? h_next h) eqn:L; [lia|]. apply N.ltb_ge in L. lia.
        -- destruct (NX _ HI) as (A & B).
           destruct (h_next h =? 0) eqn:Z; simpl; [apply N.eqb_eq in Z; contradiction|].
           destruct (e_exp e <? h_next h) eqn:L; [apply N.ltb_lt in L; lia|]. auto.
      * intros it [<-|HI]; simpl; auto. split; [lia|]. apply EV.
      * intros it HI. apply aset_In_weak in HI as [->|HI]; simpl; auto. split; [lia|]. apply EV.
    + apply NOOP. intros e0 HE. rewrite ENT in HE. inversion HE; subst. exact EE.
Qed.

(* ------------------------------------------------- Inv is preserved by steps *)
Lemma same_exp_refl : forall h, same_exp h h. Proof. unfold same_exp; auto. Qed.
Lemma same_sweep_refl : forall h, same_sweep h h. Proof. unfold same_sweep; auto. Qed.
Lemma same_entries_refl : forall h, same_entries h h. Proof. unfold same_entries; auto. Qed.

Ltac frame_tac := try (unfold same_exp; simpl; tauto); try (unfold same_sweep; simpl; tauto).

Lemma ensure_frame : forall cf h ch h1 c,
  add_ensure cf h ch = (h1, c) ->
  same_entries h h1 /\ same_exp h h1 /\ same_sweep h h1 /\ get_chan h1 ch = Some c.
Proof.
  intros cf h ch h1 c H. unfold add_ensure in H.
  destruct (get_chan h ch) as [c0|] eqn:G.
  - destruct (cf_ordered cf && negb (c_ordered c0)); inversion H; subst; clear H.
    + splits; frame_tac.
      * eapply same_entries_set_chan; eauto.
      * unfold get_chan, set_chan, set_chans; simpl. apply (aget_aset_same N.eqb N_eqb_eq').
    + splits; frame_tac; auto using same_entries_refl.
  - inversion H; subst; clear H. splits; frame_tac.
    + intros i k. change (entry_at (set_chan h ch (new_chan (h_nep h) (cf_ordered cf))) i k = entry_at h i k).
      apply same_entries_new_chan; auto.
    + unfold get_chan, set_nep, set_chan, set_chans; simpl. apply (aget_aset_same N.eqb N_eqb_eq').
Qed.

Lemma Inv_set_chan_same : forall h ch c c',
  Inv h -> get_chan h ch = Some c -> c_state c' = c_state c -> Inv (set_chan h ch c').
Proof.
  intros. eapply Inv_frame; eauto; frame_tac. eapply same_entries_set_chan; eauto.
Qed.
Lemma Inv_set_chan_new : forall h ch c',
  Inv h -> get_chan h ch = None -> c_state c' = [] -> Inv (set_chan h ch c').
Proof.
  intros. eapply Inv_frame; eauto; frame_tac. eapply same_entries_new_chan; eauto.
Qed.

Lemma Inv_track_set : forall h ch c c' k e,
  Inv h -> get_chan h ch = Some c -> c_state c' = aset key_eqb (c_state c) k e ->
  k <> [] -> 0 < e_exp e -> Inv (track (set_chan h ch c') (ch, k) (e_exp e)).
Proof.
  intros h ch c c' k e IV G ST KN DP.
  eapply (Inv_set_tracked h _ ch k e); eauto; try reflexivity.
  - intros i' k'. change (entry_at (set_chan h ch c') i' k' = if ck_eqb (i', k') (ch, k) then Some e else entry_at h i' k').
    apply (upd_set_chan_aset h ch c c'); auto.
  - unfold same_sweep; auto.
Qed.

Lemma Inv_untracked_chan : forall h ch c c' k e,
  Inv h -> get_chan h ch = Some c -> c_state c' = aset key_eqb (c_state c) k e -> e_exp e = 0 ->
  Inv (set_chan h ch c').
Proof.
  intros h ch c c' k e IV G ST Z.
  apply (Inv_set_untracked h _ ch k e); auto; frame_tac.
  apply (upd_set_chan_aset h ch c); auto.
Qed.

Lemma Inv_set_ret : forall h r, Inv h -> Inv (set_ret h r).
Proof. intros. eapply Inv_frame; eauto; frame_tac. intros ? ?; reflexivity. Qed.
Lemma Inv_touch_stream : forall h ch t, Inv h -> Inv (touch_stream h ch t).
Proof. intros. unfold touch_stream. apply Inv_set_ret. assumption. Qed.
Lemma Inv_touch_meta : forall h ch t, Inv h -> Inv (touch_meta h ch t).
Proof. intros. unfold touch_meta. destruct (0 <? t); auto. Qed.
Lemma Inv_ret_touch : forall cf h ch, Inv h -> Inv (ret_touch cf h ch).
Proof. intros. unfold ret_touch. destruct (has_stream (cf_mode cf)); auto. apply Inv_touch_meta, Inv_touch_stream. assumption. Qed.

Lemma add_Inv : forall cf h ch k o h' p pp r tp,
  Inv h -> add cf h ch k o = (h', p, pp, r, tp) -> Inv h'.
Proof.
  intros cf h ch k o h' p pp r tp IV H. unfold add in H.
  destruct (add_ensure cf h ch) as [h1 c] eqn:EN.
  destruct (ensure_frame _ _ _ _ _ EN) as (SE & SX & SS & G1).
  assert (IV1 : Inv h1) by (eapply Inv_frame; eauto).
  destruct (add_stale cf k o (aget key_eqb (c_state c) k)); [inversion H; subst; auto|].
  unfold add_keymode in H.
  destruct (is_empty k) eqn:EK.
  - (* empty key: no state entry *)
    unfold add_commit in H. rewrite EK in H.
    destruct (has_stream (cf_mode cf)).
    + destruct (stream_add (c_stream c) (fun off => mkPub k off (po_data o) (po_tags o) false (po_score o)) (cf_size cf)) as [s' off].
      inversion H; subst. apply Inv_ret_touch. apply (Inv_set_chan_same h1 ch c); auto.
    + inversion H; subst. apply Inv_ret_touch. apply (Inv_set_chan_same h1 ch c); auto.
  - assert (KN : k <> []) by (intro C; subst; discriminate).
    destruct (match po_mode o, aget key_eqb (c_state c) k with
              | KIfNew, Some e =>
                  if po_refresh o && (0 <? cf_keyttl cf)
                  then Some (touch_meta (track (set_chan h1 ch (set_entry_nodirty c (aset key_eqb (c_state c) k
                          (mkEntry (e_pub e) (h_now h1 + cf_keyttl cf) (e_ver e) (e_vep e))))) (ch, k) (h_now h1 + cf_keyttl cf)) ch (cf_mttl cf), RKeyExists)
                  else Some (h1, RKeyExists)
              | KIfExists, None => Some (h1, RKeyNotFound)
              | _, _ => None
              end) as [[h2 r2]|] eqn:KM.
    + inversion H; subst; clear H.
      destruct (po_mode o); try discriminate; destruct (aget key_eqb (c_state c) k) as [e|]; try discriminate.
      * destruct (po_refresh o && (0 <? cf_keyttl cf)) eqn:RF; inversion KM; subst; auto.
        apply andb_true_iff in RF as [_ TT]. apply N.ltb_lt in TT. apply Inv_touch_meta.
        apply (Inv_track_set h1 ch c _ k (mkEntry (e_pub e) (h_now h1 + cf_keyttl cf) (e_ver e) (e_vep e))); auto.
        simpl. lia.
      * inversion KM; subst; auto.
    + destruct (cas_check (snd (chan_pos c)) (po_exp o) (aget key_eqb (c_state c) k)); [inversion H; subst; auto|].
      unfold add_commit in H. rewrite EK in H.
      set (mk := fun off => mkPub k off (po_data o) (po_tags o) false (po_score o)) in *.
      destruct (if has_stream (cf_mode cf)
                then let '(s', off) := stream_add (c_stream c) mk (cf_size cf) in (set_stream c s', (off, s_epoch s'))
                else (c, chan_pos c)) as [c1 p1] eqn:SC.
      assert (ST1 : c_state c1 = c_state c).
      { destruct (has_stream (cf_mode cf)); [destruct (stream_add (c_stream c) mk (cf_size cf))|]; inversion SC; reflexivity. }
      destruct (if po_ver o =? 0 then match aget key_eqb (c_state c) k with Some e => (e_ver e, e_vep e) | None => (0, po_vep o) end
                else (po_ver o, po_vep o)) as [ver vep].
      destruct (0 <? cf_keyttl cf) eqn:TT; inversion H; subst; clear H.
      * apply N.ltb_lt in TT. apply Inv_ret_touch.
        apply (Inv_track_set h1 ch c _ k (mkEntry (mk (if has_stream (cf_mode cf) || negb false then fst p else 0)) (h_now h1 + cf_keyttl cf) ver vep)); auto.
        -- simpl. rewrite ST1. reflexivity.
        -- simpl. lia.
      * apply Inv_ret_touch. apply (Inv_untracked_chan h1 ch c _ k (mkEntry (mk (if has_stream (cf_mode cf) || negb false then fst p else 0)) 0 ver vep)); auto.
        simpl. rewrite ST1. reflexivity.
Qed.

Lemma Inv_idem_save : forall h ch ik p t, Inv h -> Inv (idem_save h ch ik p t).
Proof. intros. eapply Inv_frame; eauto; frame_tac. intros ? ?; reflexivity. Qed.
Lemma Inv_add_bcast : forall h b, Inv h -> Inv (add_bcast h b).
Proof. intros. eapply Inv_frame; eauto; frame_tac. intros ? ?; reflexivity. Qed.

Lemma publish_Inv : forall cfgs h ch k o h' u, Inv h -> publish cfgs h ch k o = (h', u) -> Inv h'.
Proof.
  intros cfgs h ch k o h' u IV H. unfold publish in H.
  destruct (cfg_of cfgs ch) as [cf|e]; [|inversion H; subst; auto].
  destruct (is_ephemeral (cf_mode cf) && match po_exp o with Some _ => true | None => false end); [inversion H; subst; auto|].
  destruct (is_ephemeral (cf_mode cf) && (0 <? po_ver o)); [inversion H; subst; auto|].
  destruct (if po_idem o =? 0 then None else idem_get h ch (po_idem o)); [inversion H; subst; auto|].
  destruct (add cf h ch k o) as [[[[h1 p] pp] r] tp] eqn:AD.
  pose proof (add_Inv _ _ _ _ _ _ _ _ _ _ IV AD) as IV1.
  destruct r; try (inversion H; subst; auto; fail).
  destruct tp; inversion H; subst; auto.
  apply Inv_add_bcast. destruct (po_idem o =? 0); auto using Inv_idem_save.
Qed.

Lemma hremove_Inv : forall cf h ch k o h' p pp r, Inv h -> hremove cf h ch k o = (h', p, pp, r) -> Inv h'.
Proof.
  intros cf h ch k o h' p pp r IV H. unfold hremove in H.
  destruct (get_chan h ch) as [c|] eqn:G; [|destruct (ro_exp o); inversion H; subst; auto].
  destruct (cas_check (snd (chan_pos c)) (ro_exp o) (aget key_eqb (c_state c) k)); [inversion H; subst; auto|].
  destruct (aget key_eqb (c_state c) k) as [e|] eqn:GE; [|inversion H; subst; auto].
  set (h1 := set_exp h (adel ck_eqb (h_kexp h) (ch, k)) (h_queue h) (h_next h)) in *.
  assert (FIN : forall c2, c_state c2 = adel key_eqb (c_state c) k -> Inv (set_chan h1 ch c2)).
  { intros c2 ST. apply (Inv_removed h _ ch k); auto; frame_tac.
    apply (upd_set_chan_adel h1 ch c c2); auto. }
  destruct (has_stream (cf_mode cf)).
  - destruct (stream_add (c_stream (set_state c (adel key_eqb (c_state c) k)))
                (fun off => mkPub k off 0 (match ro_tags o with Some t => Some t | None => p_tags (e_pub e) end) true 0%Z) (cf_size cf)) as [s' off].
    inversion H; subst. apply Inv_ret_touch. apply FIN. reflexivity.
  - inversion H; subst. apply FIN. reflexivity.
Qed.

Lemma remove_Inv : forall cfgs h ch k o h' u, Inv h -> remove cfgs h ch k o = (h', u) -> Inv h'.
Proof.
  intros cfgs h ch k o h' u IV H. unfold remove in H.
  destruct (cfg_of cfgs ch) as [cf|e]; [|inversion H; subst; auto].
  destruct (is_ephemeral (cf_mode cf) && match ro_exp o with Some _ => true | None => false end); [inversion H; subst; auto|].
  destruct (if ro_idem o =? 0 then None else idem_get h ch (ro_idem o)); [inversion H; subst; auto|].
  destruct (hremove cf h ch k o) as [[[h1 p] pp] r] eqn:RM.
  pose proof (hremove_Inv _ _ _ _ _ _ _ _ _ IV RM) as IV1.
  destruct r; try (inversion H; subst; auto; fail).
  destruct pp; inversion H; subst; auto.
  apply Inv_add_bcast. destruct (ro_idem o =? 0); auto using Inv_idem_save.
Qed.

Lemma fold_adel_other : forall (st : list (key * entry)) ch (m : list (ck * N)) i k, i <> ch ->
  aget ck_eqb (fold_left (fun m kv => adel ck_eqb m (ch, fst kv)) st m) (i, k) = aget ck_eqb m (i, k).
Proof.
  induction st as [|[k0 e0] st IH]; intros ch m i k NE; simpl; auto.
  rewrite IH; auto. apply (aget_adel_other ck_eqb ck_eqb_eq). congruence.
Qed.
Lemma fold_adel_In : forall (st : list (key * entry)) ch (m : list (ck * N)) x,
  In x (fold_left (fun m kv => adel ck_eqb m (ch, fst kv)) st m) -> In x m.
Proof.
  induction st as [|[k0 e0] st IH]; intros ch m x H; simpl in *; auto.
  apply IH in H. apply (adel_In ck_eqb ck_eqb_eq) in H as [H _]. auto.
Qed.

Lemma clear_Inv : forall h ch, Inv h -> Inv (clear h ch).
Proof.
  intros h ch IV. unfold clear.
  assert (ID : forall hx, Inv hx -> Inv (set_idem hx (adel N.eqb (h_idem hx) ch))).
  { intros. eapply Inv_frame; eauto; frame_tac. intros ? ?; reflexivity. }
  apply ID. destruct (get_chan h ch) as [c|] eqn:G; auto.
  destruct IV as (T & NX & QO & KO & (PO1 & PO2)).
  unfold Inv, tracked, next_ok, pend_ok; simpl. splits; auto.
  - intros i k e HE DP. unfold entry_at, get_chan in HE; simpl in HE.
    destruct (N.eq_dec i ch) as [->|NE].
    + rewrite (aget_adel_same N.eqb) in HE. discriminate.
    + rewrite (aget_adel_other N.eqb N_eqb_eq') in HE; auto.
      rewrite fold_adel_other; auto.
  - intros it HI. apply fold_adel_In in HI. auto.
Qed.

Lemma read_stream_Inv : forall cfgs h ch since lim rv h' r, Inv h -> read_stream cfgs h ch since lim rv = (h', r) -> Inv h'.
Proof.
  intros cfgs h ch since lim rv h' r IV H. unfold read_stream in H.
  set (h0 := touch_meta h ch (mttl_of cfgs ch)) in *.
  assert (IV0 : Inv h0) by (apply Inv_touch_meta; exact IV).
  clearbody h0. clear h IV. rename h0 into h. rename IV0 into IV.
  destruct (get_chan h ch) as [c|] eqn:G.
  - destruct since as [[so se]|].
    + destruct (negb (se =? 0) && negb (se =? s_epoch (c_stream c))); [inversion H; subst; auto|].
      destruct (negb rv && (s_top (c_stream c) =? so)); inversion H; subst; auto.
    + destruct (lim =? 0)%Z; inversion H; subst; auto.
  - unfold create_chan in H. inversion H; subst.
    assert (Inv (set_chan h ch (new_chan (h_nep h) false))) by (apply Inv_set_chan_new; auto).
    eapply Inv_frame; eauto; frame_tac. intros ? ?; reflexivity.
Qed.

Lemma refresh_cache_state : forall c asc, c_state (refresh_cache c asc) = c_state c.
Proof. intros. unfold refresh_cache. match goal with |- context [if ?b then _ else _] => destruct b end; reflexivity. Qed.

Lemma read_state_Inv : forall cfgs h ch rev cur lim k asc h' r,
  Inv h -> read_state cfgs h ch rev cur lim k asc = (h', r) -> Inv h'.
Proof.
  intros cfgs h ch rev cur lim k asc h' r IV H. unfold read_state in H.
  destruct (cfg_of cfgs ch) as [cf|ee]; [|inversion H; subst; auto].
  set (h0 := touch_meta h ch (cf_mttl cf)) in *.
  assert (IV0 : Inv h0) by (apply Inv_touch_meta; exact IV).
  clearbody h0. clear h IV. rename h0 into h. rename IV0 into IV.
  destruct (get_chan h ch) as [c|] eqn:G.
  - destruct (get_state_chan c rev cur lim k asc) as [c1 r1] eqn:GS. inversion H; subst.
    apply (Inv_set_chan_same h ch c); auto.
    unfold get_state_chan in GS. destruct (state_pre (c_state c) (chan_pos c) rev lim k); inversion GS; subst; auto.
    apply refresh_cache_state.
  - unfold create_chan in H.
    assert (Inv (set_nep (set_chan h ch (new_chan (h_nep h) false)) (h_nep h + 1))).
    { assert (Inv (set_chan h ch (new_chan (h_nep h) false))) by (apply Inv_set_chan_new; auto).
      eapply Inv_frame; eauto; frame_tac. intros ? ?; reflexivity. }
    destruct rev as [[ro re]|]; [destruct (negb (re =? 0))|]; inversion H; subst; auto.
Qed.

Lemma advance_Inv : forall h n, Inv h -> Inv (set_now h (h_now h + n)).
Proof.
  intros h n (T & NX & QO & KO & (PO1 & PO2)). unfold Inv, tracked, next_ok, pend_ok; simpl. splits; auto. lia.
Qed.

Lemma phase2_all_Inv : forall fuel h, Inv h -> Inv (phase2_all fuel h).
Proof.
  induction fuel; intros h IV; simpl; auto.
  destruct (phase2 h) eqn:P; auto. apply IHfuel. eapply phase2_Inv; eauto.
Qed.

Lemma clear_stream_Inv : forall h ch, Inv h -> Inv (clear_stream h ch).
Proof.
  intros h ch IV. unfold clear_stream. destruct (get_chan h ch) as [c|] eqn:G; auto.
  apply (Inv_set_chan_same h ch c); auto.
Qed.
Lemma fold_clear_stream_Inv : forall l h, Inv h -> Inv (fold_left clear_stream l h).
Proof. induction l; intros h IV; simpl; auto. apply IHl. apply clear_stream_Inv. assumption. Qed.

Lemma expire_streams_Inv : forall h h' ok, Inv h -> expire_streams h = (h', ok) -> Inv h'.
Proof.
  intros h h' ok IV H. unfold expire_streams in H.
  destruct ((r_snext (h_ret h) =? 0) || (h_now h <? r_snext (h_ret h))); [inversion H; subst; auto|].
  destruct (ttl_loop _ _ _ _ _) as [[[[m q] fired] next] ok1]. inversion H; subst.
  apply fold_clear_stream_Inv. apply Inv_set_ret. assumption.
Qed.

Lemma fold_adel_get : forall (l : list N) (cs : list (N * mchan)) i,
  aget N.eqb (fold_left (fun cs ch => adel N.eqb cs ch) l cs) i = None \/
  aget N.eqb (fold_left (fun cs ch => adel N.eqb cs ch) l cs) i = aget N.eqb cs i.
Proof.
  induction l as [|x l IH]; intros cs i; simpl; auto.
  destruct (IH (adel N.eqb cs x) i) as [A|A]; auto. rewrite A.
  destruct (N.eq_dec i x) as [->|NE].
  - left. apply (aget_adel_same N.eqb).
  - right. apply (aget_adel_other N.eqb N_eqb_eq'). auto.
Qed.

Lemma remove_channels_Inv : forall h h' ok, Inv h -> remove_channels h = (h', ok) -> Inv h'.
Proof.
  intros h h' ok IV H. unfold remove_channels in H.
  destruct ((r_rnext (h_ret h) =? 0) || (h_now h <? r_rnext (h_ret h))); [inversion H; subst; auto|].
  destruct (ttl_loop _ _ _ _ _) as [[[[m q] fired] next] ok1]. inversion H; subst; clear H.
  destruct IV as (T & NX & QO & KO & (PO1 & PO2)).
  unfold Inv, tracked, next_ok, pend_ok; simpl. splits; auto.
  intros i k e HE DP. apply T; auto. unfold entry_at, get_chan in *. simpl in HE.
  destruct (fold_adel_get fired (h_chans h) i) as [A|A]; rewrite A in HE; [discriminate|exact HE].
Qed.

Theorem step_Inv : forall cfgs h o h' r, Inv h -> step cfgs h o = (h', r) -> Inv h'.
Proof.
  intros cfgs h o h' r IV H. destruct o; simpl in H.
  - destruct (publish cfgs h ch k o) eqn:E. inversion H; subst. eapply publish_Inv; eauto.
  - destruct (remove cfgs h ch k o) eqn:E. inversion H; subst. eapply remove_Inv; eauto.
  - inversion H; subst. apply clear_Inv; auto.
  - destruct (read_state cfgs h ch rev cursor limit k asc) eqn:E. inversion H; subst. eapply read_state_Inv; eauto.
  - destruct (read_stream cfgs h ch since limit reverse) eqn:E. inversion H; subst. eapply read_stream_Inv; eauto.
  - inversion H; subst. apply advance_Inv; auto.
  - destruct (h_pend h) eqn:PE; [|inversion H; subst; auto].
    destruct (phase1 cfgs h) as [h1 ok] eqn:P1. inversion H; subst.
    destruct (phase1_spec _ _ _ _ IV PE P1) as (_ & IV1 & _). exact IV1.
  - destruct (phase2 h) eqn:P2; inversion H; subst; auto. eapply phase2_Inv; eauto.
  - destruct (h_pend h) eqn:PE; [|inversion H; subst; auto].
    destruct (phase1 cfgs h) as [h1 ok] eqn:P1. inversion H; subst.
    destruct (phase1_spec _ _ _ _ IV PE P1) as (_ & IV1 & _). apply phase2_all_Inv. exact IV1.
  - destruct (expire_streams h) as [h1 ok] eqn:E. inversion H; subst. eapply expire_streams_Inv; eauto.
  - destruct (remove_channels h) as [h1 ok] eqn:E. inversion H; subst. eapply remove_channels_Inv; eauto.
Qed.
