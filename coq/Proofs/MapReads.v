(* C20 refinement: the reference map's independent read specifications
   (filter over the log window; sort + filter after the cursor) agree with the
   model's index-based stream read and cursor-search state read. *)
From Coq Require Import List NArith ZArith Bool Lia Permutation Sorting.Sorted.
From Cfg Require Import Model.MapHub Model.MapSpec Model.MapPaging Proofs.MapBase Proofs.MapRefine Proofs.MapRefine2 Proofs.MapPaging.
Import ListNotations.
Open Scope N_scope.

(* ------------------------------------------------------- log offsets 1..n *)
Fixpoint offs_from (a : N) (l : list pub) : Prop :=
  match l with
  | [] => True
  | p :: l' => p_off p = a + 1 /\ offs_from (a + 1) l'
  end.

Lemma offs_from_app : forall l a p, offs_from a l -> p_off p = a + N.of_nat (length l) + 1 -> offs_from a (l ++ [p]).
Proof.
  induction l as [|x l IH]; intros a p H E; simpl in *.
  - split; auto. rewrite E. lia.
  - destruct H as (H1 & H2). split; auto. apply IH; auto. rewrite E. lia.
Qed.

Lemma offs_from_skipn : forall k l a, offs_from a l -> offs_from (a + N.of_nat (Nat.min k (length l))) (skipn k l).
Proof.
  induction k as [|k IH]; intros l a H.
  - simpl. replace (a + 0) with a by lia. exact H.
  - destruct l as [|x l].
    + simpl. exact I.
    + destruct H as (_ & H2). specialize (IH l (a + 1) H2).
      assert (E : a + N.of_nat (Nat.min (S k) (length (x :: l))) = a + 1 + N.of_nat (Nat.min k (length l))) by (simpl length; rewrite <- Nat.succ_min_distr; lia).
      rewrite E. exact IH.
Qed.

Lemma offs_ge : forall l a p, offs_from a l -> In p l -> a < p_off p /\ p_off p <= a + N.of_nat (length l).
Proof.
  induction l as [|x l IH]; intros a p H HI; [contradiction|]. simpl in *. destruct H as (H1 & H2).
  destruct HI as [<-|HI]; [lia|]. destruct (IH _ _ H2 HI). lia.
Qed.

Lemma filter_all : forall {A} (f : A -> bool) l, (forall x, In x l -> f x = true) -> filter f l = l.
Proof. induction l; intro H; simpl; auto. rewrite H by (left; auto). f_equal. apply IHl. intros; apply H; right; auto. Qed.
Lemma filter_none : forall {A} (f : A -> bool) l, (forall x, In x l -> f x = false) -> filter f l = [].
Proof. induction l; intro H; simpl; auto. rewrite H by (left; auto). apply IHl. intros; apply H; right; auto. Qed.

Lemma from_off_found : forall l a o, offs_from a l -> a < o -> o <= a + N.of_nat (length l) ->
  from_off o l = Some (filter (fun p => o <=? p_off p) l).
Proof.
  induction l as [|x l IH]; intros a o H L U; simpl in *; [lia|]. destruct H as (H1 & H2).
  destruct (p_off x =? o) eqn:E.
  - apply N.eqb_eq in E. f_equal. assert (o <=? p_off x = true) as -> by (apply N.leb_le; lia). f_equal.
    symmetry. apply filter_all. intros y HY. destruct (offs_ge _ _ _ H2 HY). apply N.leb_le. lia.
  - apply N.eqb_neq in E. assert (o <=? p_off x = false) as -> by (apply N.leb_gt; lia).
    apply (IH (a + 1)); auto; lia.
Qed.
Lemma from_off_notfound : forall l a o, offs_from a l -> (o <= a \/ a + N.of_nat (length l) < o) -> from_off o l = None.
Proof.
  induction l as [|x l IH]; intros a o H C; simpl in *; auto. destruct H as (H1 & H2).
  assert (p_off x =? o = false) as -> by (apply N.eqb_neq; lia). apply (IH (a + 1)); auto. lia.
Qed.
Lemma upto_off_found : forall l a o, offs_from a l -> a < o -> o <= a + N.of_nat (length l) ->
  upto_off o l = Some (filter (fun p => p_off p <=? o) l).
Proof.
  induction l as [|x l IH]; intros a o H L U; simpl in *; [lia|]. destruct H as (H1 & H2).
  destruct (p_off x =? o) eqn:E.
  - apply N.eqb_eq in E. assert (p_off x <=? o = true) as -> by (apply N.leb_le; lia). f_equal. f_equal.
    symmetry. apply filter_none. intros y HY. destruct (offs_ge _ _ _ H2 HY). apply N.leb_gt. lia.
  - apply N.eqb_neq in E. assert (p_off x <=? o = true) as -> by (apply N.leb_le; lia).
    rewrite (IH (a + 1) o); auto; lia.
Qed.
Lemma upto_off_notfound : forall l a o, offs_from a l -> (o <= a \/ a + N.of_nat (length l) < o) -> upto_off o l = None.
Proof.
  induction l as [|x l IH]; intros a o H C; simpl in *; auto. destruct H as (H1 & H2).
  assert (p_off x =? o = false) as -> by (apply N.eqb_neq; lia). rewrite (IH (a + 1)); auto. lia.
Qed.

Lemma take_limit_spec : forall {A} limit (l : list A), take_limit limit l = spec_take limit l.
Proof.
  intros. unfold take_limit, spec_take. destruct (limit =? 0)%Z eqn:E.
  - apply Z.eqb_eq in E. subst. reflexivity.
  - reflexivity.
Qed.

Lemma filter_ext_in : forall {A} (f g : A -> bool) l, (forall x, In x l -> f x = g x) -> filter f l = filter g l.
Proof. induction l; intro H; simpl; auto. rewrite H by (left; auto). rewrite IHl; auto. intros; apply H; right; auto. Qed.

(* the index-based Stream.Get over the window = the filter specification *)
Lemma stream_get_spec : forall w a top ep so limit reverse,
  offs_from a w -> top = a + N.of_nat (length w) ->
  (if negb reverse && (top =? so) then []
   else stream_get (mkStream top ep w) (if reverse then so - 1 else so + 1) true limit reverse) =
  spec_stream_read w top (Some so) limit reverse.
Proof.
  intros w a top ep so limit reverse OF ET. unfold spec_stream_read, stream_get. simpl.
  destruct reverse; simpl.
  - destruct (so - 1 <=? top) eqn:G.
    + apply N.leb_le in G. assert (top + 1 <=? so - 1 = false) as -> by (apply N.leb_gt; lia).
      rewrite take_limit_spec. f_equal.
      destruct (N.lt_ge_cases a (so - 1)) as [L|L].
      * rewrite (upto_off_found w a (so - 1)) by (auto; lia). f_equal.
        apply filter_ext_in. intros x HX. destruct (p_off x <=? so - 1) eqn:E1; destruct (p_off x <? so) eqn:E2; auto;
          [apply N.leb_le in E1; apply N.ltb_ge in E2 | apply N.leb_gt in E1; apply N.ltb_lt in E2]; lia.
      * rewrite (upto_off_notfound w a (so - 1)) by (auto; lia).
        rewrite filter_none; auto. intros x HX. destruct (offs_ge _ _ _ OF HX). apply N.ltb_ge. lia.
    + apply N.leb_gt in G. assert (top + 1 <=? so - 1 = true) as -> by (apply N.leb_le; lia). reflexivity.
  - destruct (top =? so) eqn:TS.
    + apply N.eqb_eq in TS. rewrite filter_none.
      * unfold spec_take. destruct (limit <? 0)%Z; [reflexivity | symmetry; apply firstn_nil].
      * intros x HX. destruct (offs_ge _ _ _ OF HX). apply N.ltb_ge. lia.
    + apply N.eqb_neq in TS. destruct (top + 1 <=? so + 1) eqn:G.
      * apply N.leb_le in G. rewrite filter_none.
        -- unfold spec_take. destruct (limit <? 0)%Z; [reflexivity | symmetry; apply firstn_nil].
        -- intros x HX. destruct (offs_ge _ _ _ OF HX). apply N.ltb_ge. lia.
      * apply N.leb_gt in G. rewrite take_limit_spec. f_equal.
        destruct (N.lt_ge_cases a (so + 1)) as [L|L].
        -- rewrite (from_off_found w a (so + 1)) by (auto; lia).
           apply filter_ext_in. intros x HX. destruct (so + 1 <=? p_off x) eqn:E1; destruct (so <? p_off x) eqn:E2; auto;
             [apply N.leb_le in E1; apply N.ltb_ge in E2 | apply N.leb_gt in E1; apply N.ltb_lt in E2]; lia.
        -- rewrite (from_off_notfound w a (so + 1)) by (auto; lia).
           symmetry. apply filter_all. intros x HX. destruct (offs_ge _ _ _ OF HX). apply N.ltb_lt. lia.
Qed.

Lemma stream_get_spec_none : forall w top ep limit reverse,
  (if (limit =? 0)%Z then [] else stream_get (mkStream top ep w) 0 false limit reverse) =
  spec_stream_read w top None limit reverse.
Proof.
  intros. unfold spec_stream_read, stream_get. simpl. rewrite take_limit_spec.
  destruct (limit =? 0)%Z eqn:E; auto. apply Z.eqb_eq in E. subst. reflexivity.
Qed.

Lemma window_offs : forall size log, offs_from 0 log ->
  exists a, offs_from a (window size log) /\ N.of_nat (length log) = a + N.of_nat (length (window size log)).
Proof.
  intros size log H. unfold window. set (k := (length log - N.to_nat size)%nat).
  exists (N.of_nat (Nat.min k (length log))). split.
  - apply (offs_from_skipn k log 0 H).
  - rewrite skipn_length. lia.
Qed.

(* --------------------------------------------- the order on (score, key) pairs *)
Definition plt (ordered asc : bool) (p q : Z * key) : bool :=
  if ordered then
    if asc then (fst p <? fst q)%Z || ((fst p =? fst q)%Z && key_ltb (snd p) (snd q))
    else (fst q <? fst p)%Z || ((fst p =? fst q)%Z && key_ltb (snd q) (snd p))
  else key_ltb (snd p) (snd q).

Lemma plt_trans : forall o a p q r, plt o a p q = true -> plt o a q r = true -> plt o a p r = true.
Proof.
  intros o a [sp kp] [sq kq] [sr kr]. unfold plt. simpl. destruct o; [|apply key_ltb_trans].
  destruct a; rewrite !orb_true_iff, !andb_true_iff, !Z.ltb_lt, !Z.eqb_eq;
    intros [H|[E H]] [H'|[E' H']]; try (left; lia); right; (split; [lia|eapply key_ltb_trans; eauto]).
Qed.

(* q is not before p, and p is before r?  we need: c < x and not (y < x) imply c < y *)
Lemma plt_total : forall o a p q, (o = true -> True) ->
  plt o a p q = true \/ plt o a q p = true \/ (if o then p = q else snd p = snd q).
Proof.
  intros o a [sp kp] [sq kq] _. unfold plt. simpl. destruct o.
  - destruct (Z.lt_total sp sq) as [L|[E|L]].
    + destruct a; [left|right; left]; apply orb_true_iff; left; apply Z.ltb_lt; lia.
    + subst. destruct (key_ltb_total kp kq) as [->|[K|K]].
      * right; right; reflexivity.
      * destruct a; [left|right; left]; apply orb_true_iff; right; rewrite Z.eqb_refl; simpl; exact K.
      * destruct a; [right; left|left]; apply orb_true_iff; right; rewrite Z.eqb_refl; simpl; exact K.
    + destruct a; [right; left|left]; apply orb_true_iff; left; apply Z.ltb_lt; lia.
  - destruct (key_ltb_total kp kq) as [->|[K|K]]; auto.
Qed.

Lemma spec_less_plt : forall o a st x y,
  spec_less o a st x y = plt o a (score_of st x, x) (score_of st y, y).
Proof. reflexivity. Qed.

Lemma spec_less_key_less : forall o a st x y, spec_less o a st x y = key_less o a st x y.
Proof.
  intros. unfold spec_less, key_less. destruct o; auto.
  destruct (score_of st x =? score_of st y)%Z eqn:E; simpl.
  - apply Z.eqb_eq in E. rewrite E, !Z.ltb_irrefl. destruct a; reflexivity.
  - destruct a; rewrite orb_false_r; reflexivity.
Qed.

Definition cursor_pair (o : bool) (cursor : list N) : Z * key :=
  if o then let '(cs, ckey) := parse_ordered_cursor cursor in (parse_int cs, ckey) else (0%Z, cursor).

Lemma spec_after_plt : forall o a st cursor k,
  spec_after o a st cursor k = plt o a (cursor_pair o cursor) (score_of st k, k).
Proof.
  intros. unfold spec_after, cursor_pair, plt. destruct o; auto.
  destruct (parse_ordered_cursor cursor) as [cs ckey]. simpl.
  destruct a; auto.
Qed.

Lemma spec_after_after : forall o a st cursor k, spec_after o a st cursor k = after_cursor o a st cursor k.
Proof.
  intros. unfold spec_after, after_cursor. destruct o; auto.
  destruct (parse_ordered_cursor cursor) as [cs ckey].
  rewrite (Z.eqb_sym (parse_int cs)).
  destruct (score_of st k =? parse_int cs)%Z eqn:E; simpl.
  - apply Z.eqb_eq in E. rewrite E, !Z.ltb_irrefl. destruct a; reflexivity.
  - destruct a; rewrite orb_false_r; reflexivity.
Qed.

(* sort.Search over a sorted list with a monotone predicate = filter *)
Lemma skipn_search_filter : forall {A} (f : A -> bool) (R : A -> A -> Prop) l,
  StronglySorted R l -> (forall x y, R x y -> f x = true -> f y = true) ->
  skipn (search f l) l = filter f l.
Proof.
  induction l as [|x l IH]; intros S M; simpl; auto.
  inversion S as [|? ? S' F]; subst. destruct (f x) eqn:E; simpl.
  - f_equal. symmetry. apply filter_all. rewrite Forall_forall in F. intros y HY. eapply M; eauto.
  - apply IH; auto.
Qed.

Lemma search_ext : forall {A} (f g : A -> bool) l, (forall x, f x = g x) -> search f l = search g l.
Proof. induction l; intro H; simpl; auto. rewrite H, IHl; auto. Qed.

Lemma after_monotone : forall o a st cursor x y,
  le o a st x y -> spec_after o a st cursor x = true -> spec_after o a st cursor y = true.
Proof.
  intros o a st cursor x y LE AF. rewrite spec_after_plt in *.
  unfold le in LE. rewrite <- spec_less_key_less, spec_less_plt in LE.
  destruct (plt_total o a (score_of st x, x) (score_of st y, y) (fun _ => I)) as [L|[L|E]].
  - eapply plt_trans; eauto.
  - congruence.
  - destruct o.
    + rewrite <- E. exact AF.
    + simpl in E. unfold plt in *. simpl in *. rewrite <- E. exact AF.
Qed.

Lemma state_page_spec : forall o a st p rev cursor limit k,
  match state_pre st p rev limit k with
  | Some r => r
  | None => state_page o st (sorted_keys o a st) p cursor limit a
  end = spec_state_read o st p rev cursor limit k a.
Proof.
  intros. unfold state_pre, spec_state_read.
  destruct rev as [[ro re]|]; [destruct (negb (snd p =? re)); [reflexivity|]|];
  (destruct (negb (is_empty k)); [destruct (aget key_eqb st k); reflexivity|]);
  (destruct (limit =? 0)%Z eqn:L0; [reflexivity|]).
  all: unfold state_page.
  all: assert (SK : sort_by (spec_less o a st) (map fst st) = sorted_keys o a st)
         by (apply sort_by_ext; intros; apply spec_less_key_less); rewrite SK.
  all: set (L := sorted_keys o a st).
  all: assert (REST : (if is_empty cursor then L else filter (spec_after o a st cursor) L) =
                      skipn (if is_empty cursor then 0%nat else search (after_cursor o a st cursor) L) L)
         by (destruct (is_empty cursor); [reflexivity|];
             rewrite (search_ext _ (spec_after o a st cursor)) by (intros; symmetry; apply spec_after_after);
             symmetry; apply (skipn_search_filter _ (le o a st)); [apply sort_sorted | intros; eapply after_monotone; eauto]).
  all: rewrite REST; set (start := if is_empty cursor then 0%nat else search (after_cursor o a st cursor) L).
  all: apply Z.eqb_neq in L0.
  all: destruct (Nat.eqb (length L) 0) eqn:T0;
       [ apply Nat.eqb_eq in T0; destruct L; [|discriminate]; rewrite skipn_nil; simpl;
         destruct (limit <? 0)%Z; [reflexivity|]; rewrite firstn_nil; simpl; destruct (Z.to_nat limit); reflexivity |].
  all: destruct (Nat.leb (length L) start) eqn:LS;
       [ apply Nat.leb_le in LS; rewrite skipn_all2 by lia; simpl;
         destruct (limit <? 0)%Z; [reflexivity|]; rewrite firstn_nil; simpl; destruct (Z.to_nat limit); reflexivity |].
  all: apply Nat.leb_gt in LS.
  all: destruct (0 <? limit)%Z eqn:LP;
       [ apply Z.ltb_lt in LP; assert ((limit <? 0)%Z = false) as -> by (apply Z.ltb_ge; lia)
       | apply Z.ltb_ge in LP; assert ((limit <? 0)%Z = true) as -> by (apply Z.ltb_lt; lia); reflexivity ].
  all: assert (LR : length (skipn start L) = (length L - start)%nat) by apply skipn_length.
  all: assert (PG : firstn (Nat.min (start + Z.to_nat limit) (length L) - start) (skipn start L) = firstn (Z.to_nat limit) (skipn start L))
         by (destruct (Nat.le_gt_cases (Z.to_nat limit) (length L - start));
             [f_equal; lia | rewrite !firstn_all2 by lia; reflexivity]).
  all: rewrite PG, LR; f_equal.
  all: destruct (Nat.ltb (Z.to_nat limit) (length L - start)) eqn:LT;
       [ apply Nat.ltb_lt in LT; assert (Nat.ltb (Nat.min (start + Z.to_nat limit) (length L)) (length L) = true) as -> by (apply Nat.ltb_lt; lia)
       | apply Nat.ltb_ge in LT; assert (Nat.ltb (Nat.min (start + Z.to_nat limit) (length L)) (length L) = false) as -> by (apply Nat.ltb_ge; lia) ];
       reflexivity.
Qed.

(* ------------------------------------------------- well-formed spec states *)
Definition WFs (s : sstate) : Prop :=
  NoDup (map fst (ss_chans s)) /\
  forall i sc, In (i, sc) (ss_chans s) -> NoDup (map fst (sc_map sc)) /\ offs_from 0 (sc_log sc).

Lemma WFs0 : WFs sstate0.
Proof. split; simpl; [constructor | intros ? ? []]. Qed.

Lemma aset_In_cases : forall {K V} (eqb : K -> K -> bool) (m : list (K * V)) k v x,
  In x (aset eqb m k v) -> x = (k, v) \/ In x m.
Proof.
  induction m as [|[k0 v0] m IH]; intros k v x H; simpl in *.
  - destruct H as [<-|[]]; auto.
  - destruct (eqb k k0).
    + destruct H as [<-|H]; auto.
    + destruct H as [<-|H]; auto. apply IH in H as [->|H]; auto.
Qed.

Lemma WFs_set : forall s ch c, WFs s -> NoDup (map fst (sc_map c)) -> offs_from 0 (sc_log c) -> WFs (s_set s ch c).
Proof.
  intros s ch c (W1 & W2) ND OF. unfold WFs, s_set; simpl. split.
  - apply (aset_nodup N.eqb N_eqb_eq'); auto.
  - intros i sc HI. apply aset_In_cases in HI as [E|HI]; [inversion E; subst; auto | eauto].
Qed.

Lemma WFs_get : forall s ch c, WFs s -> s_get s ch = Some c -> NoDup (map fst (sc_map c)) /\ offs_from 0 (sc_log c).
Proof. intros s ch c (W1 & W2) G. apply (W2 ch). apply (aget_In N.eqb N_eqb_eq'). exact G. Qed.

Lemma retained_offs : forall size sc, offs_from 0 (sc_log sc) ->
  exists a, offs_from a (retained size sc) /\ N.of_nat (length (sc_log sc)) = a + N.of_nat (length (retained size sc)).
Proof.
  intros size sc H. unfold retained, window, lastk.
  set (k1 := (length (sc_log sc) - sc_keep sc)%nat).
  set (k2 := (length (skipn k1 (sc_log sc)) - N.to_nat size)%nat).
  rewrite skipn_skipn'.
  exists (N.of_nat (Nat.min (k1 + k2) (length (sc_log sc)))). split.
  - apply (offs_from_skipn (k1 + k2) (sc_log sc) 0 H).
  - rewrite skipn_length. unfold k2. rewrite skipn_length. unfold k1. lia.
Qed.

Lemma hubR_set_spec : forall cfgs h s ch c sc',
  hubR cfgs h s -> aget N.eqb (h_chans h) ch = Some c -> chanR cfgs ch c sc' -> hubR cfgs h (s_set s ch sc').
Proof.
  intros cfgs h s ch c sc' (HC & HI & HN & HE & HB) G HCR. unfold hubR, s_set; simpl. splits; auto.
  rewrite <- (aset_same N.eqb N_eqb_eq' _ _ _ G). apply arel_set; auto.
Qed.

Lemma hubR_create : forall cfgs h s ch sc',
  hubR cfgs h s -> aget N.eqb (h_chans h) ch = None -> chanR cfgs ch (new_chan (h_nep h) false) sc' ->
  hubR cfgs (set_nep (set_chan h ch (new_chan (h_nep h) false)) (h_nep h + 1))
       (s_set (mkSS (aset N.eqb (ss_chans s) ch (mkSC (ss_nep s) [] [] 0 0 0)) (ss_idem s) (ss_now s) (ss_nep s + 1) (ss_bcast s)) ch sc').
Proof.
  intros cfgs h s ch sc' (HC & HI & HN & HE & HB) G HCR. unfold hubR, s_set; hub_simpl. splits; auto; try congruence.
  rewrite (aset_aset N.eqb N_eqb_eq'). apply arel_set; auto.
Qed.

(* ------------------------------------------------------------- read stream *)
Lemma read_stream_sim : forall cfgs h s ch since limit rv h' r s' r',
  hubR cfgs h s -> WFs s ->
  read_stream cfgs h ch since limit rv = (h', r) ->
  spec_read_stream cfgs s ch since limit rv = (s', r') ->
  r = r' /\ hubR cfgs h' s'.
Proof.
  intros cfgs h s ch since limit rv h' r s' r' HR WF H1 H2.
  unfold read_stream in H1. set (h0 := touch_meta h ch (mttl_of cfgs ch)) in *.
  assert (HR0 : hubR cfgs h0 s) by (apply hubR_touch_meta; exact HR).
  clearbody h0. clear h HR. rename h0 into h. rename HR0 into HR.
  pose proof HR as (HC & HI & HN & HE & HB).
  unfold spec_read_stream, s_ensure, s_get in *.
  destruct (get_chan h ch) as [c|] eqn:G; unfold get_chan in G.
  - destruct (arel_get_some _ _ _ _ _ HC G) as (sc & G' & HCR). rewrite G' in H2.
    set (sc' := touch_mdead (mttl_of cfgs ch) (ss_now s) sc) in *.
    assert (HCR' : chanR cfgs ch c sc') by (apply chanR_touch_mdead; exact HCR).
    assert (HR' : hubR cfgs h (s_set s ch sc')) by (eapply hubR_set_spec; eauto).
    pose proof (chanR_pos _ _ _ _ HCR') as EP. pose proof HCR' as (ES & _).
    destruct (touch_mdead_fields (mttl_of cfgs ch) (ss_now s) sc) as (F1 & F2 & F3 & F4).
    destruct (WFs_get _ _ _ WF G') as (_ & OF).
    assert (OF' : offs_from 0 (sc_log sc')) by (unfold sc'; rewrite F3; exact OF).
    destruct (retained_offs (size_of cfgs ch) sc' OF') as (a & OW & EL).
    rewrite EP in H1. rewrite ES in H1. simpl in H1.
    destruct since as [[so se]|].
    + destruct (negb (se =? 0) && negb (se =? sc_epoch sc')); [inversion H1; inversion H2; subst; auto|].
      rewrite <- (stream_get_spec _ a _ (sc_epoch sc') so limit rv OW EL) in H2.
      destruct (negb rv && (N.of_nat (length (sc_log sc')) =? so)); inversion H1; inversion H2; subst; auto.
    + rewrite <- (stream_get_spec_none _ _ (sc_epoch sc')) in H2.
      destruct (limit =? 0)%Z; inversion H1; inversion H2; subst; auto.
  - rewrite (arel_get_none _ _ _ _ HC G) in H2. unfold create_chan in H1.
    assert (HRN : hubR cfgs (set_nep (set_chan h ch (new_chan (h_nep h) false)) (h_nep h + 1))
       (s_set (mkSS (aset N.eqb (ss_chans s) ch (mkSC (ss_nep s) [] [] 0 0 0)) (ss_idem s) (ss_now s) (ss_nep s + 1) (ss_bcast s)) ch
              (touch_mdead (mttl_of cfgs ch) (ss_now s) (mkSC (ss_nep s) [] [] 0 0 0)))).
    { apply hubR_create; auto. apply chanR_touch_mdead. rewrite <- HE. apply chanR_new. discriminate. }
    inversion H1; inversion H2; subst; clear H1 H2.
    rewrite s_pos_touch. unfold s_pos; simpl. rewrite HE in HRN |- *. split; auto.
Qed.

(* -------------------------------------------------------------- read state *)
Lemma read_state_sim : forall cfgs h s ch rev cur lim k asc h' r s' r',
  hubR cfgs h s ->
  read_state cfgs h ch rev cur lim k asc = (h', r) ->
  spec_read_state cfgs s ch rev cur lim k asc = (s', r') ->
  r = r' /\ hubR cfgs h' s'.
Proof.
  intros cfgs h s ch rev cur lim k asc h' r s' r' HR H1 H2.
  unfold read_state, spec_read_state, s_get, s_ensure, s_get in *.
  destruct (cfg_of cfgs ch) as [cf|e] eqn:CF; [|inversion H1; inversion H2; subst; auto].
  set (h0 := touch_meta h ch (cf_mttl cf)) in *.
  assert (HR0 : hubR cfgs h0 s) by (apply hubR_touch_meta; exact HR).
  clearbody h0. clear h HR. rename h0 into h. rename HR0 into HR.
  pose proof HR as (HC & HI & HN & HE & HB).
  destruct (get_chan h ch) as [c|] eqn:G; unfold get_chan in G.
  - destruct (arel_get_some _ _ _ _ _ HC G) as (sc & G' & HCR0). rewrite G' in H2.
    set (sc' := touch_mdead (cf_mttl cf) (ss_now s) sc) in *.
    assert (HCR : chanR cfgs ch c sc') by (apply chanR_touch_mdead; exact HCR0).
    pose proof (chanR_pos _ _ _ _ HCR) as EP.
    pose proof HCR as (ES & EM & EL & (EO1 & EO2) & EK).
    unfold get_state_chan in H1. rewrite EP, EM in H1.
    rewrite <- (state_page_spec (cf_ordered cf) asc) in H2.
    destruct (state_pre (sc_map sc') (s_pos sc') rev lim k) eqn:PRE.
    + inversion H1; inversion H2; subst. split; auto.
      apply hubR_set_both; auto.
    + inversion H1; inversion H2; subst; clear H1 H2. split.
      * rewrite refresh_cache_sorted by assumption. rewrite EM.
        destruct (sc_map sc') as [|x m] eqn:EMM.
        -- rewrite !sorted_keys_nil, !state_page_nil. reflexivity.
        -- assert (c_ordered c = cf_ordered cf) as ->; auto.
           rewrite EO2 by (rewrite EM; discriminate). unfold ordered_of. rewrite CF. reflexivity.
      * apply hubR_set_both; auto. apply refresh_cache_chanR. assumption.
  - rewrite (arel_get_none _ _ _ _ HC G) in H2. unfold create_chan in H1.
    assert (HRN : hubR cfgs (set_nep (set_chan h ch (new_chan (h_nep h) false)) (h_nep h + 1))
       (s_set (mkSS (aset N.eqb (ss_chans s) ch (mkSC (ss_nep s) [] [] 0 0 0)) (ss_idem s) (ss_now s) (ss_nep s + 1) (ss_bcast s)) ch
              (touch_mdead (cf_mttl cf) (ss_now s) (mkSC (ss_nep s) [] [] 0 0 0)))).
    { apply hubR_create; auto. apply chanR_touch_mdead. rewrite <- HE. apply chanR_new. discriminate. }
    rewrite s_pos_touch in H2. unfold s_pos in H2; simpl in H2.
    destruct rev as [[ro re]|].
    + destruct (negb (re =? 0)); inversion H1; inversion H2; subst; rewrite HE in HRN |- *; auto.
    + inversion H1; inversion H2; subst; rewrite HE in HRN |- *; auto.
Qed.
