(* List-level lemmas for the memory stream model: consecutively numbered
   items, index lookups followed by Next()/Prev() walks, trimming. *)
From Coq Require Import List NArith ZArith Bool Lia ZifyN ZifyNat ZifyBool.
From Cfg Require Import Model.MemStream Model.StreamSpec.
Import ListNotations.
Open Scope N_scope.

Lemma number_length : forall ids lo, length (number lo ids) = length ids.
Proof. induction ids; intros; cbn [number length]; auto. Qed.

Lemma number_ids : forall ids lo, map i_id (number lo ids) = ids.
Proof. induction ids; intros; cbn [number map i_id]; f_equal; auto. Qed.

Lemma number_app : forall a b lo,
  number lo (a ++ b) = number lo a ++ number (lo + N.of_nat (length a)) b.
Proof.
  induction a; intros; cbn [number app length].
  - f_equal. lia.
  - f_equal. rewrite IHa. f_equal. f_equal. lia.
Qed.

Lemma number_skipn : forall n ids lo,
  skipn n (number lo ids) = number (lo + N.of_nat n) (skipn n ids).
Proof.
  induction n; intros; cbn [skipn].
  - f_equal. lia.
  - destruct ids; cbn [number skipn]; auto.
    rewrite IHn. f_equal. lia.
Qed.

Lemma number_off_bounds : forall ids lo it,
  In it (number lo ids) -> lo < i_off it /\ i_off it <= lo + N.of_nat (length ids).
Proof.
  induction ids; intros lo it H; cbn [number In length] in *.
  - tauto.
  - destruct H as [<- | H].
    + cbn [i_off]. lia.
    + apply IHids in H. lia.
Qed.

Lemma filter_all : forall (p : item -> bool) l, (forall x, In x l -> p x = true) -> filter p l = l.
Proof.
  induction l; intros; cbn [filter]; auto.
  rewrite H by (left; auto). f_equal. apply IHl. intros; apply H; right; auto.
Qed.

Lemma filter_none : forall (p : item -> bool) l, (forall x, In x l -> p x = false) -> filter p l = [].
Proof.
  induction l; intros; cbn [filter]; auto.
  rewrite H by (left; auto). apply IHl. intros; apply H; right; auto.
Qed.

Lemma filter_gt_all : forall ids lo o, o <= lo ->
  filter (fun it => o <? i_off it) (number lo ids) = number lo ids.
Proof.
  intros. apply filter_all. intros x Hx. apply number_off_bounds in Hx. lia.
Qed.

Lemma filter_gt_none : forall ids lo o, lo + N.of_nat (length ids) <= o ->
  filter (fun it => o <? i_off it) (number lo ids) = [].
Proof.
  intros. apply filter_none. intros x Hx. apply number_off_bounds in Hx. lia.
Qed.

Lemma filter_lt_none : forall ids lo o, o <= lo + 1 ->
  filter (fun it => i_off it <? o) (number lo ids) = [].
Proof.
  intros. apply filter_none. intros x Hx. apply number_off_bounds in Hx. lia.
Qed.

(* forward lookup: the offset is trimmed away -> not found *)
Lemma find_suffix_trimmed : forall ids lo t, t <= lo -> find_suffix t (number lo ids) = None.
Proof.
  induction ids; intros; cbn [number find_suffix i_off]; auto.
  destruct (lo + 1 =? t) eqn:E; [lia|]. apply IHids. lia.
Qed.

(* forward lookup: the offset is retained -> suffix = "offsets > t-1" *)
Lemma find_suffix_found : forall ids lo o,
  lo <= o -> o < lo + N.of_nat (length ids) ->
  find_suffix (o + 1) (number lo ids) =
  Some (filter (fun it => o <? i_off it) (number lo ids)).
Proof.
  induction ids; intros lo o H1 H2; cbn [length] in H2.
  - lia.
  - cbn [number find_suffix i_off].
    destruct (lo + 1 =? o + 1) eqn:E.
    + assert (lo = o) by lia. subst o.
      f_equal. symmetry.
      change (mkItem (lo + 1) a :: number (lo + 1) ids) with (number lo (a :: ids)).
      apply filter_gt_all. lia.
    + rewrite IHids by lia. f_equal.
      cbn [filter i_off]. destruct (o <? lo + 1) eqn:E2; [lia|]. reflexivity.
Qed.

(* reverse lookup *)
Lemma find_prefix_rev_spec : forall ids lo t acc,
  find_prefix_rev t acc (number lo ids) =
  if (lo <? t) && (t <=? lo + N.of_nat (length ids))
  then Some (rev (filter (fun it => i_off it <=? t) (number lo ids)) ++ acc)
  else None.
Proof.
  induction ids; intros lo t acc; cbn [number find_prefix_rev length i_off].
  - destruct ((lo <? t) && (t <=? lo + N.of_nat 0)) eqn:E; auto. lia.
  - destruct (lo + 1 =? t) eqn:E.
    + assert (t = lo + 1) by lia. subst t.
      replace ((lo <? lo + 1) && (lo + 1 <=? lo + N.of_nat (S (length ids)))) with true by lia.
      cbn [filter i_off]. replace (lo + 1 <=? lo + 1) with true by lia.
      rewrite filter_none.
      * reflexivity.
      * intros x Hx. apply number_off_bounds in Hx. lia.
    + rewrite IHids.
      destruct ((lo + 1 <? t) && (t <=? lo + 1 + N.of_nat (length ids))) eqn:E2.
      * replace ((lo <? t) && (t <=? lo + N.of_nat (S (length ids)))) with true by lia.
        cbn [filter i_off]. replace (lo + 1 <=? t) with true by lia.
        cbn [rev]. rewrite <- app_assoc. reflexivity.
      * replace ((lo <? t) && (t <=? lo + N.of_nat (S (length ids)))) with false by lia.
        reflexivity.
Qed.

Lemma filter_ext_in_item : forall (p q : item -> bool) l,
  (forall x, In x l -> p x = q x) -> filter p l = filter q l.
Proof.
  induction l; intros; cbn [filter]; auto.
  rewrite (H a) by (left; auto). rewrite IHl by (intros; apply H; right; auto). reflexivity.
Qed.

(* trimming a numbered list = numbering the last [size] payloads *)
Lemma trim_number : forall ids lo size,
  trim size (number lo ids) =
  number (lo + N.of_nat (length ids) - N.of_nat (length (lastn size ids))) (lastn size ids).
Proof.
  intros. unfold trim, lastn. rewrite number_length, number_skipn.
  f_equal. rewrite skipn_length. lia.
Qed.

Lemma lastn_length_le : forall (ids : list N) size, (length (lastn size ids) <= length ids)%nat.
Proof. intros. unfold lastn. rewrite skipn_length. lia. Qed.

Lemma lastn_length : forall (ids : list N) size, length (lastn size ids) = Nat.min size (length ids).
Proof. intros. unfold lastn. rewrite skipn_length. lia. Qed.
