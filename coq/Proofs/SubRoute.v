(* The routing invariant of Model/SubLifecycle.v (C04) for schedules without the
   wait-gate timeout: every hub entry has an owner (a live context, an in-flight
   attempt holding its reservation, or a thread that is tearing that generation
   down and has not yet removed the hub entry), and every committed context has
   its hub entry.

   The invariant only reads the components
     chans, genctr, gclosed, gst, hub, thr, next_ext, next_int
   of the state, so it is stated over those ([InvC]) and the preservation
   lemmas are given per primitive update. *)
From Coq Require Import List NArith ZArith Bool Lia.
From Cfg Require Import Model.SubLifecycle Proofs.SubLifecycleLib.
Import ListNotations.
Open Scope N_scope.

Definition post_commit (x : gstate) : Prop :=
  match x with GLive _ | GTear _ _ | GDead => True | _ => False end.

(* attempt [a] holds the reservation of generation g on channel c *)
Definition att_resv (a : att) (g : gen) (c : ch) : Prop :=
  a_own a = g /\ a_ch a = c /\
  match a_pc a with
  | PHandler | PGenStamp | PFailPres | PErrDelete => True
  | PPreAdd | PHubAdd1 | PHubAdd2 | PPostAdd | PPresAdd | PCommit => a_use a = g
  | _ => False
  end.
Definition holds_resv (o : option thread) (g : gen) (c : ch) : Prop :=
  match o with Some (TAtt a) => att_resv a g c | _ => False end.

Definition u_tear (u : urec) (g : gen) (c : ch) : Prop :=
  u_ch u = c /\ u_rm u = g /\
  match u_pc u with UPres | ULeave | UHubRem | UHandler => True | _ => False end.
Definition u_pre (u : urec) (g : gen) : Prop :=
  u_rm u = g /\ match u_pc u with UPres | ULeave | UHubRem => True | _ => False end.

(* the thread removed generation g's context on c and still has teardown work *)
Definition tearing (o : option thread) (g : gen) (c : ch) : Prop :=
  match o with
  | Some (TAtt a) =>
      a_ch a = c /\
      match a_pc a with
      | PClosedHubRem | PClosedPresRem | PClosedGate => a_use a = g /\ a_own a = g
      | PErrHubRem | PErrGate => a_own a = g /\ a_owned a = true
      | _ => False
      end
  | Some (TUns u) => u_tear u g c
  | Some (TCls k) => k_pc k = CLoop /\ match k_cur k with Some u => u_tear u g c | None => False end
  | _ => False
  end.

(* ... and has not yet executed its gen-matched hub removal *)
Definition pre_hubrem (o : option thread) (g : gen) : Prop :=
  match o with
  | Some (TAtt a) =>
      match a_pc a with
      | PClosedHubRem => a_use a = g
      | PErrHubRem => a_own a = g
      | _ => False
      end
  | Some (TUns u) => u_pre u g
  | Some (TCls k) => match k_cur k with Some u => u_pre u g | None => False end
  | _ => False
  end.

Definition hub_added (o : option thread) : Prop :=
  match o with
  | Some (TAtt a) => match a_pc a with PHubAdd2 | PPostAdd | PPresAdd | PCommit => True | _ => False end
  | _ => False
  end.

Section Components.
  Variables (cs : amap ctx) (gc : N) (gcl : gen -> bool) (gs : gen -> gstate)
            (hb : ch -> option gen) (th : tid -> option thread) (ne ni : N).

  Definition u_ok (t : tid) (u : urec) : Prop :=
    match u_pc u with
    | UWait => u_wg u = u_tgt u
    | UDelete => post_commit (gs (u_tgt u))
    | UPres | ULeave | UHubRem | UHandler => gs (u_rm u) = GTear t (u_ch u)
    | _ => True
    end.

  Definition cap_is (a : att) (g : gen) : Prop := forall x, a_cap a = Some x -> x = g.

  Definition thread_ok (t : tid) (o : option thread) : Prop :=
    match o with
    | Some (TAtt a) =>
        match a_pc a with
        | PReserve => True
        | PHandler | PGenStamp | PPreAdd | PHubAdd1 | PHubAdd2 | PPostAdd | PPresAdd | PCommit =>
            gs (a_own a) = GRes t (a_ch a)
        | PFailPres | PErrDelete => gs (a_own a) = GRes t (a_ch a) \/ gs (a_own a) = GDead
        | PClosedHubRem | PClosedPresRem | PClosedGate =>
            a_use a = a_own a /\ gs (a_own a) = GTear t (a_ch a) /\ cap_is a (a_own a)
        | PErrHubRem | PErrGate =>
            if a_owned a then gs (a_own a) = GTear t (a_ch a) /\ cap_is a (a_own a)
            else gs (a_own a) = GDead /\ a_cap a = None
        | PRelease => post_commit (gs (a_use a)) /\ cap_is a (a_use a)
        | PLostHubRem | PLostPresRem => False
        | PPush | PJoin | PErrOut => True
        end
    | Some (TUns u) => u_ok t u
    | Some (TCls k) => match k_cur k with Some u => k_pc k = CLoop /\ u_ok t u | None => True end
    | _ => True
    end.

  Definition tid_ok (t : tid) : Prop :=
    (exists k, t = 2 * k /\ k < ne) \/ (exists k, t = 2 * k + 1 /\ k < ni).

  Record InvC : Prop := {
    i_bound : forall g, gs g <> GNone -> 1 <= g <= gc;
    i_gcl : forall g, gcl g = true -> post_commit (gs g);
    i_tids : forall t, th t <> None -> tid_ok t;
    i_chans : forall c x, lookup c cs = Some x ->
        if c_sub x then gs (c_gen x) = GLive c /\ c_gate x = false
        else c_gate x = true /\ c_srv x = false /\ exists t, gs (c_gen x) = GRes t c;
    i_live : forall g c, gs g = GLive c ->
        exists x, lookup c cs = Some x /\ c_gen x = g /\ c_sub x = true;
    i_res : forall g t c, gs g = GRes t c ->
        (exists x, lookup c cs = Some x /\ c_gen x = g /\ c_sub x = false) /\
        gcl g = false /\ holds_resv (th t) g c;
    i_tear : forall g t c, gs g = GTear t c -> tearing (th t) g c;
    i_thr : forall t, thread_ok t (th t);
    i_hub : forall c g, hb c = Some g ->
        match gs g with
        | GLive c' => c' = c
        | GRes _ c' => c' = c
        | GTear t c' => c' = c /\ pre_hubrem (th t) g
        | _ => False
        end;
    i_live_hub : forall g c, gs g = GLive c -> hb c = Some g;
    i_res_hub : forall g t c, gs g = GRes t c -> hub_added (th t) -> hb c = Some g
  }.
End Components.

Definition Inv (s : st) : Prop :=
  InvC (chans s) (genctr s) (gclosed s) (gst s) (hub s) (thr s) (next_ext s) (next_int s).

Lemma Inv_init : Inv init.
Proof.
  unfold Inv, init; cbn. constructor; cbn; intros; try congruence; try discriminate; auto.
Qed.
