(* The routing invariant of Model/SubLifecycle.v (C04) for schedules without the
   wait-gate timeout: every hub entry has an owner (a live context, an in-flight
   attempt holding its reservation, or a thread that is tearing that generation
   down and has not yet removed the hub entry), and every committed context has
   its hub entry.

   The invariant only reads the components
     chans, genctr, gclosed, gst, hub, thr, next_ext, next_int
   of the state, so it is stated over those ([InvC]) and the preservation
   lemmas are given per primitive update. *)
From Coq Require Import List NArith ZArith Bool Lia.
From Cfg Require Import Model.SubLifecycle Proofs.SubLifecycleLib.
Import ListNotations.
Open Scope N_scope.

Definition post_commit (x : gstate) : Prop :=
  match x with GLive _ | GTear _ _ | GDead => True | _ => False end.

(* attempt [a] holds the reservation of generation g on channel c *)
Definition att_resv (a : att) (g : gen) (c : ch) : Prop :=
  a_own a = g /\ a_ch a = c /\
  match a_pc a with
  | PHandler | PGenStamp | PFailPres | PErrDelete => True
  | PPreAdd | PHubAdd1 | PHubAdd2 | PPostAdd | PPresAdd | PCommit => a_use a = g
  | _ => False
  end.
Definition holds_resv (o : option thread) (g : gen) (c : ch) : Prop :=
  match o with Some (TAtt a) => att_resv a g c | _ => False end.

Definition u_tear (u : urec) (g : gen) (c : ch) : Prop :=
  u_ch u = c /\ u_rm u = g /\
  match u_pc u with UPres | ULeave | UHubRem | UHandler => True | _ => False end.
Definition u_pre (u : urec) (g : gen) : Prop :=
  u_rm u = g /\ match u_pc u with UPres | ULeave | UHubRem => True | _ => False end.

(* the thread removed generation g's context on c and still has teardown work *)
Definition tearing (o : option thread) (g : gen) (c : ch) : Prop :=
  match o with
  | Some (TAtt a) =>
      a_ch a = c /\
      match a_pc a with
      | PClosedHubRem | PClosedPresRem | PClosedGate => a_use a = g /\ a_own a = g
      | PErrHubRem | PErrGate => a_own a = g /\ a_owned a = true
      | _ => False
      end
  | Some (TUns u) => u_tear u g c
  | Some (TCls k) => k_pc k = CLoop /\ match k_cur k with Some u => u_tear u g c | None => False end
  | _ => False
  end.

(* ... and has not yet executed its gen-matched hub removal *)
Definition pre_hubrem (o : option thread) (g : gen) : Prop :=
  match o with
  | Some (TAtt a) =>
      match a_pc a with
      | PClosedHubRem => a_use a = g
      | PErrHubRem => a_own a = g
      | _ => False
      end
  | Some (TUns u) => u_pre u g
  | Some (TCls k) => match k_cur k with Some u => u_pre u g | None => False end
  | _ => False
  end.

Definition hub_added (o : option thread) : Prop :=
  match o with
  | Some (TAtt a) => match a_pc a with PHubAdd2 | PPostAdd | PPresAdd | PCommit => True | _ => False end
  | _ => False
  end.

Section Components.
  Variables (cs : amap ctx) (gc : N) (gcl : gen -> bool) (gs : gen -> gstate)
            (hb : ch -> option gen) (th : tid -> option thread) (ne ni : N).

  Definition u_ok (t : tid) (u : urec) : Prop :=
    match u_pc u with
    | UWait => u_wg u = u_tgt u
    | UDelete => post_commit (gs (u_tgt u))
    | UPres | ULeave | UHubRem | UHandler => gs (u_rm u) = GTear t (u_ch u)
    | _ => True
    end.

  Definition cap_is (a : att) (g : gen) : Prop := forall x, a_cap a = Some x -> x = g.

  Definition thread_ok (t : tid) (o : option thread) : Prop :=
    match o with
    | Some (TAtt a) =>
        match a_pc a with
        | PReserve => True
        | PHandler | PGenStamp | PPreAdd | PHubAdd1 | PHubAdd2 | PPostAdd | PPresAdd | PCommit =>
            gs (a_own a) = GRes t (a_ch a)
        | PFailPres | PErrDelete => gs (a_own a) = GRes t (a_ch a) \/ gs (a_own a) = GDead
        | PClosedHubRem | PClosedPresRem | PClosedGate =>
            a_use a = a_own a /\ gs (a_own a) = GTear t (a_ch a) /\ cap_is a (a_own a)
        | PErrHubRem | PErrGate =>
            if a_owned a then gs (a_own a) = GTear t (a_ch a) /\ cap_is a (a_own a)
            else gs (a_own a) = GDead /\ a_cap a = None
        | PRelease => post_commit (gs (a_use a)) /\ cap_is a (a_use a)
        | PLostHubRem | PLostPresRem => False
        | PPush | PJoin | PErrOut => True
        end
    | Some (TUns u) => u_ok t u
    | Some (TCls k) => match k_cur k with Some u => k_pc k = CLoop /\ u_ok t u | None => True end
    | _ => True
    end.

  Definition tid_ok (t : tid) : Prop :=
    (exists k, t = 2 * k /\ k < ne) \/ (exists k, t = 2 * k + 1 /\ k < ni).

  Record InvC : Prop := {
    i_bound : forall g, gs g <> GNone -> 1 <= g <= gc;
    i_gcl : forall g, gcl g = true -> post_commit (gs g);
    i_tids : forall t, th t <> None -> tid_ok t;
    i_chans : forall c x, lookup c cs = Some x ->
        if c_sub x then gs (c_gen x) = GLive c /\ c_gate x = false
        else c_gate x = true /\ c_srv x = false /\ exists t, gs (c_gen x) = GRes t c;
    i_live : forall g c, gs g = GLive c ->
        exists x, lookup c cs = Some x /\ c_gen x = g /\ c_sub x = true;
    i_res : forall g t c, gs g = GRes t c ->
        (exists x, lookup c cs = Some x /\ c_gen x = g /\ c_sub x = false) /\
        gcl g = false /\ holds_resv (th t) g c;
    i_tear : forall g t c, gs g = GTear t c -> tearing (th t) g c;
    i_thr : forall t, thread_ok t (th t);
    i_hub : forall c g, hb c = Some g ->
        match gs g with
        | GLive c' => c' = c
        | GRes _ c' => c' = c
        | GTear t c' => c' = c /\ pre_hubrem (th t) g
        | _ => False
        end;
    i_live_hub : forall g c, gs g = GLive c -> hb c = Some g;
    i_res_hub : forall g t c, gs g = GRes t c -> hub_added (th t) -> hb c = Some g
  }.
End Components.

Definition Inv (s : st) : Prop :=
  InvC (chans s) (genctr s) (gclosed s) (gst s) (hub s) (thr s) (next_ext s) (next_int s).

Lemma Inv_init : Inv init.
Proof.
  unfold Inv, init; cbn. constructor; cbn; intros; try congruence; try discriminate; auto.
Qed.

(* ------------------------------------------------------------------ *)
(* Preservation per primitive update.                                  *)

Ltac dtid t0 t := destruct (N.eqb_spec t0 t); [subst t0|].

Lemma upd_eq {V} (f : N -> V) k v x : upd f k v x = if x =? k then v else f x.
Proof. reflexivity. Qed.

(* the thread [t] moves to [o'] (or ends), nothing else changes *)
Lemma P_thread cs gc gcl gs hb th ne ni t o' :
  InvC cs gc gcl gs hb th ne ni ->
  th t <> None ->
  thread_ok gs t o' ->
  (forall g c, gs g = GRes t c -> holds_resv o' g c /\ (hub_added o' -> hb c = Some g)) ->
  (forall g c, gs g = GTear t c -> tearing o' g c /\ (hb c = Some g -> pre_hubrem o' g)) ->
  InvC cs gc gcl gs hb (upd th t o') ne ni.
Proof.
  intros I Ht Hok Hres Htear. destruct I. constructor; eauto.
  - intros t0. rewrite upd_eq. dtid t0 t; eauto.
  - intros g t0 c Hg. destruct (i_res0 g t0 c Hg) as (A & B & C). repeat split; eauto.
    rewrite upd_eq. dtid t0 t; eauto. apply (Hres g c Hg).
  - intros g t0 c Hg. rewrite upd_eq. dtid t0 t; eauto. apply (Htear g c Hg).
  - intros t0. rewrite upd_eq. dtid t0 t; eauto.
  - intros c g Hh. specialize (i_hub0 c g Hh). destruct (gs g) eqn:Eg; eauto.
    destruct i_hub0 as [-> P]. split; eauto. rewrite upd_eq. dtid t0 t; eauto.
    apply (Htear g c Eg); eauto.
  - intros g t0 c Hg. rewrite upd_eq. dtid t0 t; eauto. intros Ha. apply (Hres g c Hg); eauto.
Qed.

(* a new thread at a fresh tid *)
Lemma P_spawn cs gc gcl gs hb th ne ni ne' ni' t x :
  InvC cs gc gcl gs hb th ne ni ->
  th t = None -> ne <= ne' -> ni <= ni' ->
  tid_ok ne' ni' t ->
  thread_ok gs t (Some x) ->
  InvC cs gc gcl gs hb (upd th t (Some x)) ne' ni'.
Proof.
  intros I Ht Hne Hni Htid Hok. destruct I. constructor; eauto.
  - intros t0. rewrite upd_eq. dtid t0 t; eauto. intros H. specialize (i_tids0 t0 H).
    destruct i_tids0 as [(k & -> & Hk)|(k & -> & Hk)]; [left|right]; exists k; split; auto; lia.
  - intros g t0 c Hg. destruct (i_res0 g t0 c Hg) as (A & B & C). repeat split; eauto.
    rewrite upd_eq. dtid t0 t; eauto. rewrite Ht in C. destruct C.
  - intros g t0 c Hg. specialize (i_tear0 g t0 c Hg). rewrite upd_eq. dtid t0 t; eauto.
    rewrite Ht in i_tear0. destruct i_tear0.
  - intros t0. rewrite upd_eq. dtid t0 t; eauto.
  - intros c g Hh. specialize (i_hub0 c g Hh). destruct (gs g) eqn:Eg; eauto.
    destruct i_hub0 as [-> P]. split; eauto. rewrite upd_eq. dtid t0 t; eauto.
    rewrite Ht in P. destruct P.
  - intros g t0 c Hg. rewrite upd_eq. dtid t0 t; eauto. specialize (i_res0 g t c Hg).
    rewrite Ht in i_res0. destruct i_res0 as (_ & _ & []).
Qed.

(* bounds on fresh tids *)
Lemma fresh_ext cs gc gcl gs hb th ne ni :
  InvC cs gc gcl gs hb th ne ni -> th (2 * ne) = None.
Proof.
  intros I. destruct (th (2 * ne)) eqn:E; eauto. exfalso.
  assert (H : th (2 * ne) <> None) by congruence.
  destruct (i_tids _ _ _ _ _ _ _ _ I _ H) as [(k & Hk & Hl)|(k & Hk & Hl)]; lia.
Qed.
Lemma fresh_int cs gc gcl gs hb th ne ni :
  InvC cs gc gcl gs hb th ne ni -> th (2 * ni + 1) = None.
Proof.
  intros I. destruct (th (2 * ni + 1)) eqn:E; eauto. exfalso.
  assert (H : th (2 * ni + 1) <> None) by congruence.
  destruct (i_tids _ _ _ _ _ _ _ _ I _ H) as [(k & Hk & Hl)|(k & Hk & Hl)]; lia.
Qed.

(* two entries of the channel map with the same channel carry one generation *)
Lemma res_unique cs gc gcl gs hb th ne ni g g' t t' c :
  InvC cs gc gcl gs hb th ne ni -> gs g = GRes t c -> gs g' = GRes t' c -> g = g'.
Proof.
  intros I H H'. destruct (i_res _ _ _ _ _ _ _ _ I _ _ _ H) as ((x & Lx & Gx & _) & _).
  destruct (i_res _ _ _ _ _ _ _ _ I _ _ _ H') as ((x' & Lx' & Gx' & _) & _). congruence.
Qed.
Lemma res_live_excl cs gc gcl gs hb th ne ni g g' t c :
  InvC cs gc gcl gs hb th ne ni -> gs g = GRes t c -> gs g' = GLive c -> False.
Proof.
  intros I H H'. destruct (i_res _ _ _ _ _ _ _ _ I _ _ _ H) as ((x & Lx & Gx & Sx) & _).
  destruct (i_live _ _ _ _ _ _ _ _ I _ _ H') as (x' & Lx' & Gx' & Sx'). congruence.
Qed.
Lemma live_unique cs gc gcl gs hb th ne ni g g' c :
  InvC cs gc gcl gs hb th ne ni -> gs g = GLive c -> gs g' = GLive c -> g = g'.
Proof.
  intros I H H'. destruct (i_live _ _ _ _ _ _ _ _ I _ _ H) as (x & Lx & Gx & Sx).
  destruct (i_live _ _ _ _ _ _ _ _ I _ _ H') as (x' & Lx' & Gx' & Sx'). congruence.
Qed.

(* hub.addSub for a generation whose reservation is held *)
Lemma P_hubset cs gc gcl gs hb th ne ni g t c :
  InvC cs gc gcl gs hb th ne ni ->
  gs g = GRes t c ->
  InvC cs gc gcl gs (upd hb c (Some g)) th ne ni.
Proof.
  intros I Hg. pose proof I as I0. destruct I. constructor; eauto.
  - intros c0 g0. rewrite upd_eq. destruct (N.eqb_spec c0 c); subst; [|apply i_hub0].
    intros [= <-]. rewrite Hg. reflexivity.
  - intros g0 c0 H0. rewrite upd_eq. destruct (N.eqb_spec c0 c); subst; eauto.
    exfalso. eapply res_live_excl; eauto.
  - intros g0 t0 c0 H0 Ha. rewrite upd_eq. destruct (N.eqb_spec c0 c); subst; eauto.
    f_equal. eapply res_unique; eauto.
Qed.

(* gen-matched hub removal of a generation that is neither live nor a hub-added reservation *)
Lemma P_hubclear cs gc gcl gs hb th ne ni g c :
  InvC cs gc gcl gs hb th ne ni ->
  hb c = Some g ->
  (forall c', gs g <> GLive c') ->
  (forall t c', gs g = GRes t c' -> ~ hub_added (th t)) ->
  InvC cs gc gcl gs (upd hb c None) th ne ni.
Proof.
  intros I Hh NL NR. pose proof I as I0. destruct I. constructor; eauto.
  - intros c0 g0. rewrite upd_eq. destruct (N.eqb_spec c0 c); subst; [discriminate|apply i_hub0].
  - intros g0 c0 H0. rewrite upd_eq. destruct (N.eqb_spec c0 c); subst; eauto.
    exfalso. pose proof (i_live_hub0 _ _ H0) as E. rewrite Hh in E. inv E. eapply NL; eauto.
  - intros g0 t0 c0 H0 Ha. rewrite upd_eq. destruct (N.eqb_spec c0 c); subst; eauto.
    exfalso. pose proof (i_res_hub0 _ _ _ H0 Ha) as E. rewrite Hh in E. inv E. eapply NR; eauto.
Qed.

(* close(subscribingCh) of a generation that is past its commit point *)
Lemma P_gcl cs gc gcl gs hb th ne ni g :
  InvC cs gc gcl gs hb th ne ni ->
  post_commit (gs g) ->
  InvC cs gc (upd gcl g true) gs hb th ne ni.
Proof.
  intros I Hp. destruct I. constructor; eauto.
  - intros g0. rewrite upd_eq. destruct (N.eqb_spec g0 g); subst; eauto.
  - intros g0 t0 c0 H0. destruct (i_res0 _ _ _ H0) as (A & B & C). repeat split; eauto.
    rewrite upd_eq. destruct (N.eqb_spec g0 g); subst; eauto. rewrite H0 in Hp. destruct Hp.
Qed.

(* --- thread-local facts --- *)
Lemma resv_not_tearing o g c g' c' : holds_resv o g c -> tearing o g' c' -> False.
Proof.
  destruct o as [[a| | | | |]|]; cbn; try tauto.
  unfold att_resv. destruct (a_pc a); tauto.
Qed.
Lemma resv_not_pre o g c g' : holds_resv o g c -> pre_hubrem o g' -> False.
Proof.
  destruct o as [[a| | | | |]|]; cbn; try tauto.
  unfold att_resv. destruct (a_pc a); tauto.
Qed.
Lemma resv_own o g c g' c' : holds_resv o g c -> holds_resv o g' c' -> g = g' /\ c = c'.
Proof.
  destruct o as [[a| | | | |]|]; cbn; try tauto.
  unfold att_resv. intuition congruence.
Qed.
Lemma hub_added_not_pre o g : hub_added o -> pre_hubrem o g -> False.
Proof.
  destruct o as [[a| | | | |]|]; cbn; try tauto. destruct (a_pc a); tauto.
Qed.
Lemma hub_added_not_tearing o g c : hub_added o -> tearing o g c -> False.
Proof.
  destruct o as [[a| | | | |]|]; cbn; try tauto. destruct (a_pc a); tauto.
Qed.

(* thread_ok only reads gs at generations the thread refers to *)
Lemma thread_ok_upd gs g v t0 o :
  thread_ok gs t0 o ->
  (forall c, gs g <> GRes t0 c) -> (forall c, gs g <> GTear t0 c) -> gs g <> GDead ->
  (post_commit (gs g) -> post_commit v) ->
  thread_ok (upd gs g v) t0 o.
Proof.
  intros H NR NT ND PC.
  assert (E : forall x y, gs x = y -> (forall c, y <> GRes t0 c \/ True) ->
              (x = g -> False) -> upd gs g v x = y).
  { intros x y Hx _ Hne. rewrite upd_eq. destruct (N.eqb_spec x g); [tauto|auto]. }
  assert (ER : forall x c, gs x = GRes t0 c -> upd gs g v x = GRes t0 c).
  { intros x c Hx. rewrite upd_eq. destruct (N.eqb_spec x g); subst; auto. exfalso; eapply NR; eauto. }
  assert (ET : forall x c, gs x = GTear t0 c -> upd gs g v x = GTear t0 c).
  { intros x c Hx. rewrite upd_eq. destruct (N.eqb_spec x g); subst; auto. exfalso; eapply NT; eauto. }
  assert (ED : forall x, gs x = GDead -> upd gs g v x = GDead).
  { intros x Hx. rewrite upd_eq. destruct (N.eqb_spec x g); subst; auto. tauto. }
  assert (EP : forall x, post_commit (gs x) -> post_commit (upd gs g v x)).
  { intros x Hx. rewrite upd_eq. destruct (N.eqb_spec x g); subst; auto. }
  assert (UO : forall u, u_ok gs t0 u -> u_ok (upd gs g v) t0 u).
  { intros u. unfold u_ok. destruct (u_pc u); auto. }
  destruct o as [[a|u|k| | |]|]; cbn in *; auto.
  - destruct (a_pc a); try destruct (a_owned a); intuition auto.
  - destruct (k_cur k); intuition auto.
Qed.

Lemma fresh_none cs gc gcl gs hb th ne ni :
  InvC cs gc gcl gs hb th ne ni -> gs (gc + 1) = GNone /\ gcl (gc + 1) = false.
Proof.
  intros I. assert (G : gs (gc + 1) = GNone).
  { destruct (gs (gc + 1)) eqn:E; auto; exfalso;
      assert (H : gs (gc + 1) <> GNone) by congruence;
      pose proof (i_bound _ _ _ _ _ _ _ _ I _ H); lia. }
  split; auto. destruct (gcl (gc + 1)) eqn:E; auto.
  pose proof (i_gcl _ _ _ _ _ _ _ _ I _ E) as P. rewrite G in P. destruct P.
Qed.

Lemma chans_gen_state cs gc gcl gs hb th ne ni c x :
  InvC cs gc gcl gs hb th ne ni -> lookup c cs = Some x ->
  gs (c_gen x) = GLive c \/ exists t, gs (c_gen x) = GRes t c.
Proof.
  intros I L. pose proof (i_chans _ _ _ _ _ _ _ _ I _ _ L) as H.
  destruct (c_sub x); [left; tauto|right; tauto].
Qed.

(* validateSubscribeRequest / Client.Subscribe install a reservation *)
Lemma P_reserve cs gc gcl gs hb th ne ni t c a a' :
  InvC cs gc gcl gs hb th ne ni ->
  th t = Some (TAtt a) -> a_pc a = PReserve ->
  lookup c cs = None ->
  a_own a' = gc + 1 -> a_ch a' = c -> (a_pc a' = PHandler \/ a_pc a' = PGenStamp) ->
  InvC (insert c (mkCtx (gc + 1) false false true no_opts) cs) (gc + 1) gcl
       (upd gs (gc + 1) (GRes t c)) hb (upd th t (Some (TAtt a'))) ne ni.
Proof.
  intros I Ht Hpc Hl Hown Hch Hpc'. destruct (fresh_none _ _ _ _ _ _ _ _ I) as [FN FG].
  pose proof I as I0. destruct I.
  assert (OLD : forall g, gs g <> GNone -> g <> gc + 1) by (intros g H ->; tauto).
  assert (NOREF : forall g c', holds_resv (th t) g c' -> False) by
    (intros g c'; rewrite Ht; cbn; unfold att_resv; rewrite Hpc; tauto).
  assert (NOTEAR : forall g c', tearing (th t) g c' -> False) by
    (intros g c'; rewrite Ht; cbn; rewrite Hpc; tauto).
  constructor.
  - intros g. rewrite upd_eq. destruct (N.eqb_spec g (gc + 1)); [subst g; lia|].
    intros H. specialize (i_bound0 g H). lia.
  - intros g H. rewrite upd_eq. destruct (N.eqb_spec g (gc + 1)); [subst g; congruence|auto].
  - intros t0. rewrite upd_eq. dtid t0 t; auto. intros _. apply i_tids0. congruence.
  - intros c0 x. rewrite lookup_insert. destruct (N.eqb_spec c0 c); [subst c0|].
    + intros [= <-]. cbn. rewrite upd_same. eauto.
    + intros L. pose proof (i_chans0 _ _ L) as H.
      assert (c_gen x <> gc + 1).
      { apply OLD. destruct (c_sub x); [destruct H as [E _]|destruct H as (_ & _ & t1 & E)]; congruence. }
      rewrite upd_other; auto.
  - intros g c0. rewrite upd_eq. destruct (N.eqb_spec g (gc + 1)); [subst g; discriminate|].
    intros H. destruct (i_live0 _ _ H) as (x & L & Gx & Sx). exists x. repeat split; auto.
    rewrite lookup_insert. destruct (N.eqb_spec c0 c); [subst c0; congruence|auto].
  - intros g t0 c0. rewrite upd_eq. destruct (N.eqb_spec g (gc + 1)); [subst g|].
    + intros [= <- <-]. repeat split; auto.
      * eexists. rewrite lookup_insert, N.eqb_refl. repeat split; reflexivity.
      * rewrite upd_same. cbn. unfold att_resv. repeat split; auto. destruct Hpc' as [->| ->]; auto.
    + intros H. destruct (i_res0 _ _ _ H) as ((x & L & Gx & Sx) & B & C). repeat split; auto.
      * exists x. repeat split; auto. rewrite lookup_insert.
        destruct (N.eqb_spec c0 c); [subst c0; congruence|auto].
      * rewrite upd_eq. dtid t0 t; [exfalso; eauto|eauto].
  - intros g t0 c0. rewrite upd_eq. destruct (N.eqb_spec g (gc + 1)); [subst g; discriminate|].
    intros H. specialize (i_tear0 _ _ _ H). rewrite upd_eq. dtid t0 t; [exfalso; eauto|eauto].
  - intros t0. rewrite upd_eq. dtid t0 t.
    + cbn. destruct Hpc' as [->| ->]; rewrite Hown, Hch, upd_same; reflexivity.
    + apply thread_ok_upd; auto; rewrite FN; try congruence. cbn; tauto.
  - intros c0 g Hh. specialize (i_hub0 _ _ Hh).
    assert (g <> gc + 1) by (apply OLD; destruct (gs g); congruence || tauto).
    rewrite upd_other; auto. destruct (gs g) eqn:Eg; auto. destruct i_hub0 as [-> P]. split; auto.
    rewrite upd_eq. dtid t0 t; auto. exfalso. rewrite Ht in P. cbn in P. rewrite Hpc in P. auto.
  - intros g c0. rewrite upd_eq. destruct (N.eqb_spec g (gc + 1)); [subst g; discriminate|auto].
  - intros g t0 c0. rewrite upd_eq. destruct (N.eqb_spec g (gc + 1)); [subst g|].
    + intros [= <- <-]. rewrite upd_same. cbn. destruct Hpc' as [->| ->]; tauto.
    + intros H. rewrite upd_eq. dtid t0 t; eauto.
      destruct (i_res0 _ _ _ H) as (_ & _ & C). exfalso; eauto.
Qed.

(* commitSubscription installs the context *)
Lemma P_commit cs gc gcl gs hb th ne ni t c g x' o' :
  InvC cs gc gcl gs hb th ne ni ->
  gs g = GRes t c -> hub_added (th t) ->
  c_gen x' = g -> c_sub x' = true -> c_gate x' = false ->
  thread_ok (upd gs g (GLive c)) t o' ->
  InvC (insert c x' cs) gc gcl (upd gs g (GLive c)) hb (upd th t o') ne ni.
Proof.
  intros I Hg Hadd Gx' Sx' Tx' Hok. pose proof I as I0. destruct I.
  destruct (i_res0 _ _ _ Hg) as ((x & L & Gx & Sx) & Bg & Cg).
  assert (OTHER : forall g' c', g' <> g -> gs g' = GRes t c' -> False).
  { intros g' c' Hne H'. destruct (i_res0 _ _ _ H') as (_ & _ & C').
    destruct (resv_own _ _ _ _ _ Cg C'). congruence. }
  assert (NTEAR : forall g' c', gs g' = GTear t c' -> False).
  { intros g' c' H'. eapply resv_not_tearing; eauto. }
  assert (Ht : th t <> None) by (destruct (th t); [congruence|destruct Cg]).
  constructor.
  - intros g0. rewrite upd_eq. destruct (N.eqb_spec g0 g); [subst g0|auto].
    intros _. apply i_bound0. congruence.
  - intros g0 H. rewrite upd_eq. destruct (N.eqb_spec g0 g); [cbn; auto|auto].
  - intros t0. rewrite upd_eq. dtid t0 t; auto.
  - intros c0 x0. rewrite lookup_insert. destruct (N.eqb_spec c0 c); [subst c0|].
    + intros [= <-]. rewrite Sx', Gx', upd_same. auto.
    + intros L0. pose proof (i_chans0 _ _ L0) as H.
      assert (c_gen x0 <> g).
      { intros E. destruct (c_sub x0); [destruct H as [E' _]|destruct H as (_ & _ & t1 & E')];
          rewrite E in E'; congruence. }
      rewrite upd_other; auto.
  - intros g0 c0. rewrite upd_eq. destruct (N.eqb_spec g0 g); [subst g0|].
    + intros [= <-]. exists x'. rewrite lookup_insert, N.eqb_refl. auto.
    + intros H. destruct (i_live0 _ _ H) as (x0 & L0 & G0 & S0). exists x0. repeat split; auto.
      rewrite lookup_insert. destruct (N.eqb_spec c0 c); [subst c0; congruence|auto].
  - intros g0 t0 c0. rewrite upd_eq. destruct (N.eqb_spec g0 g); [discriminate|].
    intros H. destruct (i_res0 _ _ _ H) as ((x0 & L0 & G0 & S0) & B & C). repeat split; auto.
    + exists x0. repeat split; auto. rewrite lookup_insert.
      destruct (N.eqb_spec c0 c); [subst c0; congruence|auto].
    + rewrite upd_eq. dtid t0 t; auto. exfalso; eauto.
  - intros g0 t0 c0. rewrite upd_eq. destruct (N.eqb_spec g0 g); [discriminate|].
    intros H. rewrite upd_eq. dtid t0 t; [exfalso; eauto|auto].
  - intros t0. rewrite upd_eq. dtid t0 t; auto.
    apply thread_ok_upd; auto; rewrite Hg; try congruence. cbn; tauto.
  - intros c0 g0 Hh. specialize (i_hub0 _ _ Hh). rewrite upd_eq.
    destruct (N.eqb_spec g0 g); [subst g0|].
    + rewrite Hg in i_hub0. auto.
    + destruct (gs g0) eqn:Eg; auto. destruct i_hub0 as [-> P]. split; auto.
      rewrite upd_eq. dtid t0 t; auto. exfalso; eauto.
  - intros g0 c0. rewrite upd_eq. destruct (N.eqb_spec g0 g); [subst g0|auto].
    intros [= <-]. eauto.
  - intros g0 t0 c0. rewrite upd_eq. destruct (N.eqb_spec g0 g); [discriminate|].
    intros H. rewrite upd_eq. dtid t0 t; [exfalso; eauto|eauto].
Qed.

(* the context of generation g is removed from c.channels by thread t, which now owns the teardown *)
Lemma P_delete cs gc gcl gs hb th ne ni t c g x o' :
  InvC cs gc gcl gs hb th ne ni ->
  lookup c cs = Some x -> c_gen x = g ->
  (gs g = GLive c \/ gs g = GRes t c) ->
  th t <> None ->
  thread_ok (upd gs g (GTear t c)) t o' -> tearing o' g c -> pre_hubrem o' g ->
  (forall g' c', g' <> g -> gs g' = GRes t c' -> False) ->
  (forall g' c', gs g' = GTear t c' -> False) ->
  InvC (remove c cs) gc gcl (upd gs g (GTear t c)) hb (upd th t o') ne ni.
Proof.
  intros I L Gx Hg Ht Hok Htear Hpre NR NT. pose proof I as I0. destruct I.
  assert (NN : gs g <> GNone) by (destruct Hg as [E|E]; rewrite E; congruence).
  assert (ONLY : forall c0 x0, lookup c0 cs = Some x0 -> c_gen x0 = g -> c0 = c).
  { intros c0 x0 L0 G0. destruct (chans_gen_state _ _ _ _ _ _ _ _ _ _ I0 L0) as [E|(t1 & E)];
      rewrite G0 in E; destruct Hg as [E'|E']; congruence. }
  constructor.
  - intros g0. rewrite upd_eq. destruct (N.eqb_spec g0 g); [subst g0; auto|auto].
  - intros g0 H. rewrite upd_eq. destruct (N.eqb_spec g0 g); [cbn; auto|auto].
  - intros t0. rewrite upd_eq. dtid t0 t; auto.
  - intros c0 x0. rewrite lookup_remove. destruct (N.eqb_spec c0 c); [discriminate|].
    intros L0. pose proof (i_chans0 _ _ L0) as H.
    assert (c_gen x0 <> g) by (intros E; apply n; eauto).
    rewrite upd_other; auto.
  - intros g0 c0. rewrite upd_eq. destruct (N.eqb_spec g0 g); [discriminate|].
    intros H. destruct (i_live0 _ _ H) as (x0 & L0 & G0 & S0). exists x0. repeat split; auto.
    rewrite lookup_remove. destruct (N.eqb_spec c0 c); [subst c0; congruence|auto].
  - intros g0 t0 c0. rewrite upd_eq. destruct (N.eqb_spec g0 g); [discriminate|].
    intros H. destruct (i_res0 _ _ _ H) as ((x0 & L0 & G0 & S0) & B & C). repeat split; auto.
    + exists x0. repeat split; auto. rewrite lookup_remove.
      destruct (N.eqb_spec c0 c); [subst c0; congruence|auto].
    + rewrite upd_eq. dtid t0 t; auto. exfalso; eauto.
  - intros g0 t0 c0. rewrite upd_eq. destruct (N.eqb_spec g0 g); [subst g0|].
    + intros [= <- <-]. rewrite upd_same. auto.
    + intros H. rewrite upd_eq. dtid t0 t; [exfalso; eauto|auto].
  - intros t0. rewrite upd_eq. dtid t0 t; auto.
    apply thread_ok_upd; auto; destruct Hg as [E|E]; rewrite E; try congruence; cbn; auto.
  - intros c0 g0 Hh. specialize (i_hub0 _ _ Hh). rewrite upd_eq.
    destruct (N.eqb_spec g0 g); [subst g0|].
    + rewrite upd_same. split; auto. destruct Hg as [E|E]; rewrite E in i_hub0; auto.
    + destruct (gs g0) eqn:Eg; auto. destruct i_hub0 as [-> P]. split; auto.
      rewrite upd_eq. dtid t0 t; auto. exfalso; eauto.
  - intros g0 c0. rewrite upd_eq. destruct (N.eqb_spec g0 g); [discriminate|auto].
  - intros g0 t0 c0. rewrite upd_eq. destruct (N.eqb_spec g0 g); [discriminate|].
    intros H. rewrite upd_eq. dtid t0 t; [exfalso; eauto|eauto].
Qed.

(* the teardown of generation g has passed its hub removal and ends *)
Lemma P_dead cs gc gcl gs hb th ne ni t c g o' :
  InvC cs gc gcl gs hb th ne ni ->
  gs g = GTear t c -> ~ pre_hubrem (th t) g ->
  thread_ok (upd gs g GDead) t o' ->
  InvC cs gc gcl (upd gs g GDead) hb (upd th t o') ne ni.
Proof.
  intros I Hg Hnp Hok. pose proof I as I0. destruct I.
  pose proof (i_tear0 _ _ _ Hg) as Tg.
  assert (Ht : th t <> None) by (destruct (th t); [congruence|destruct Tg]).
  assert (NORES : forall g' c', gs g' = GRes t c' -> False).
  { intros g' c' H'. destruct (i_res0 _ _ _ H') as (_ & _ & C'). eapply resv_not_tearing; eauto. }
  assert (ONE : forall g' c', gs g' = GTear t c' -> g' = g).
  { intros g' c' H'. pose proof (i_tear0 _ _ _ H') as T'. clear - Tg T'.
    destruct (th t) as [[a|u|k| | |]|]; cbn in *; try tauto.
    - destruct (a_pc a); intuition congruence.
    - unfold u_tear in *. intuition congruence.
    - destruct (k_cur k); try tauto. unfold u_tear in *. intuition congruence. }
  constructor.
  - intros g0. rewrite upd_eq. destruct (N.eqb_spec g0 g); [subst g0|auto].
    intros _. apply i_bound0. congruence.
  - intros g0 H. rewrite upd_eq. destruct (N.eqb_spec g0 g); [cbn; auto|auto].
  - intros t0. rewrite upd_eq. dtid t0 t; auto.
  - intros c0 x0 L0. pose proof (i_chans0 _ _ L0) as H.
    assert (c_gen x0 <> g).
    { intros E. destruct (c_sub x0); [destruct H as [E' _]|destruct H as (_ & _ & t1 & E')];
        rewrite E in E'; congruence. }
    rewrite upd_other; auto.
  - intros g0 c0. rewrite upd_eq. destruct (N.eqb_spec g0 g); [discriminate|auto].
  - intros g0 t0 c0. rewrite upd_eq. destruct (N.eqb_spec g0 g); [discriminate|].
    intros H. destruct (i_res0 _ _ _ H) as (A & B & C). repeat split; auto.
    rewrite upd_eq. dtid t0 t; auto. exfalso; eauto.
  - intros g0 t0 c0. rewrite upd_eq. destruct (N.eqb_spec g0 g); [discriminate|].
    intros H. rewrite upd_eq. dtid t0 t; auto. exfalso. apply n. eauto.
  - intros t0. rewrite upd_eq. dtid t0 t; auto.
    apply thread_ok_upd; auto; rewrite Hg; try congruence. cbn; auto.
  - intros c0 g0 Hh. specialize (i_hub0 _ _ Hh). rewrite upd_eq.
    destruct (N.eqb_spec g0 g); [subst g0|].
    + rewrite Hg in i_hub0. tauto.
    + destruct (gs g0) eqn:Eg; auto. destruct i_hub0 as [-> P]. split; auto.
      rewrite upd_eq. dtid t0 t; auto. exfalso. apply n. eauto.
  - intros g0 c0. rewrite upd_eq. destruct (N.eqb_spec g0 g); [discriminate|auto].
  - intros g0 t0 c0. rewrite upd_eq. destruct (N.eqb_spec g0 g); [discriminate|].
    intros H. rewrite upd_eq. dtid t0 t; [exfalso; eauto|eauto].
Qed.
