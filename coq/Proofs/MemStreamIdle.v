(* Idle sweeper ticks collapse: running the three sweeper bodies at time t and
   again at a later time t' with no operation in between leaves the hub in the
   same state as running them at t' only.  This justifies the correspondence
   driver's encoding of a long clock move (one explicit tick at the last
   sweeper instant instead of one per second).
   Uses functional extensionality (the hub's maps are functions). *)
From Coq Require Import List NArith ZArith Bool Lia ZifyN ZifyNat ZifyBool FunctionalExtensionality.
From Cfg Require Import Model.MemStream.
Import ListNotations.
Open Scope N_scope.

Definition tick (h : hub) : hub := sweep_remove (sweep_expire (sweep_cache h)).

Lemma div_mono : forall a d, a / 1000 <= (a + d) / 1000.
Proof. intros. apply N.div_le_mono; lia. Qed.

Lemma sweep1_twice : forall n n' e, n <= n' ->
  snd (sweep1 n' (snd (sweep1 n e))) = snd (sweep1 n' e) /\
  (fst (sweep1 n' e) = fst (sweep1 n e) || fst (sweep1 n' (snd (sweep1 n e)))).
Proof.
  intros n n' [[d q]|] H; cbn [sweep1 fst snd]; auto.
  destruct (q <=? n) eqn:E1; destruct (d <=? n) eqn:E2; cbn [sweep1 fst snd];
    destruct (q <=? n') eqn:E3; destruct (d <=? n') eqn:E4; cbn [sweep1 fst snd orb];
      try rewrite E3; try rewrite E4; cbn [fst snd orb]; auto; try lia.
  all: try (replace (d <=? n') with true by lia); try (replace (d <=? n') with false by lia);
       cbn [fst snd]; auto.
Qed.

Lemma tick_absorb : forall h d, tick (advance (tick h) d) = tick (advance h d).
Proof.
  intros h d. unfold tick, sweep_remove, sweep_expire, sweep_cache, advance, now_s.
  cbn [h_streams h_exp h_rem h_cache h_now h_fresh h_meta].
  pose proof (div_mono (h_now h) d) as Hm.
  set (n := h_now h / 1000) in *. set (n' := (h_now h + d) / 1000) in *.
  f_equal.
  - apply functional_extensionality. intros c.
    destruct (sweep1_twice n n' (h_exp h c) Hm) as (E1 & E2).
    destruct (sweep1_twice n n' (h_rem h c) Hm) as (R1 & R2).
    rewrite R2, E2.
    destruct (fst (sweep1 n (h_rem h c))), (fst (sweep1 n' (snd (sweep1 n (h_rem h c))))),
             (fst (sweep1 n (h_exp h c))), (fst (sweep1 n' (snd (sweep1 n (h_exp h c))))),
             (h_streams h c); reflexivity.
  - apply functional_extensionality. intros c.
    destruct (sweep1_twice n n' (h_exp h c) Hm) as (E1 & _). exact E1.
  - apply functional_extensionality. intros c.
    destruct (sweep1_twice n n' (h_rem h c) Hm) as (R1 & _). exact R1.
  - apply functional_extensionality. intros c. apply functional_extensionality. intros k.
    destruct (h_cache h c k) as [[[off ep] ex]|]; auto.
    destruct (ex <=? h_now h) eqn:E1.
    + replace (ex <=? h_now h + d) with true by lia. reflexivity.
    + reflexivity.
Qed.

Lemma advance_advance : forall h a b, advance (advance h a) b = advance h (a + b).
Proof. intros. unfold advance. cbn. f_equal. lia. Qed.

Definition ticks (ds : list N) : list op :=
  flat_map (fun d => [Advance d; SweepCache; SweepExpire; SweepRemove]) ds.

Lemma run_tick : forall h d r,
  run h ([Advance d; SweepCache; SweepExpire; SweepRemove] ++ r) =
  (fst (run (tick (advance h d)) r), OUnit :: OUnit :: OUnit :: OUnit :: snd (run (tick (advance h d)) r)).
Proof.
  intros. unfold run. cbn [app run_with step step_with]. unfold tick.
  destruct (run_with step (sweep_remove (sweep_expire (sweep_cache (advance h d)))) r). reflexivity.
Qed.

(* two consecutive idle ticks = one tick after the combined clock move; the
   rest of the run (state and every later output) is unchanged *)
Theorem idle_ticks_collapse : forall h d1 d2 r,
  run h (ticks [d1; d2] ++ r) =
  (fst (run h (ticks [d1 + d2] ++ r)),
   OUnit :: OUnit :: OUnit :: OUnit :: snd (run h (ticks [d1 + d2] ++ r))).
Proof.
  intros. unfold ticks. cbn [flat_map]. rewrite !app_nil_r.
  rewrite <- app_assoc. rewrite run_tick. rewrite run_tick. cbn [fst snd].
  rewrite run_tick. cbn [fst snd].
  rewrite tick_absorb, advance_advance. reflexivity.
Qed.
