(* Small shared facts about byte strings (used by the C32 proofs). *)
From Coq Require Import List NArith Bool.
From Cfg Require Import Model.Decimal.
Import ListNotations.
Open Scope N_scope.

Lemma bytes_eqb_iff : forall a b, bytes_eqb a b = true <-> a = b.
Proof.
  induction a as [|x a IH]; destruct b as [|y b]; cbn [bytes_eqb]; split; intros H;
    try reflexivity; try discriminate.
  - apply andb_true_iff in H. destruct H as [H1 H2].
    apply N.eqb_eq in H1. apply IH in H2. congruence.
  - inversion H; subst. rewrite N.eqb_refl. cbn. now apply IH.
Qed.

Lemma bytes_eqb_same : forall a, bytes_eqb a a = true.
Proof. intros. now apply bytes_eqb_iff. Qed.
