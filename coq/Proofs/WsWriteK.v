(* C30 proofs: control messages written through WriteMessage / NextWriter / WritePreparedMessage, and
   message types that are neither data nor control; the round trip for ALL operations. *)
From Coq Require Import String List NArith Bool Arith Lia ZifyN ZifyNat.
From Cfg Require Import Gen.WsConst Model.WsUtf8 Model.WsFrame Model.WsReadSpec Model.WsWrite Model.WsWriteSpec
     Proofs.WsLib Proofs.WsReadA Proofs.WsReadC Proofs.WsWriteA Proofs.WsWriteB Proofs.WsWriteC Proofs.WsWriteG Proofs.WsWriteH
     Proofs.WsWriteI Proofs.WsWriteJ Proofs.WsWriteZ.
Import ListNotations.
Open Scope N_scope.

Lemma control_type_cases : forall t, is_control_type t = true -> t = 8 \/ t = 9 \/ t = 10.
Proof.
  intros t H. unfold is_control_type, c_CloseMessage, c_PingMessage, c_PongMessage in H.
  destruct (N.eqb_spec t 8); [auto|]. destruct (N.eqb_spec t 9); [auto|]. destruct (N.eqb_spec t 10); [auto|discriminate].
Qed.

(* a non-final flush of a control message is refused *)
Lemma flush_ctl_nonfinal : forall cfg keys w extra,
    is_control_type (m_type w) = true -> flush_frame cfg keys w false extra = inr WeControl.
Proof. intros cfg keys w extra H. unfold flush_frame. rewrite H. reflexivity. Qed.

(* so the copy loop of a control message never flushes: it only fills the buffer *)
Lemma copy_loop_ctl : forall fuel cfg keys w p wire0 r,
    is_control_type (m_type w) = true -> (length p < fuel)%nat ->
    copy_loop fuel cfg keys w p wire0 = inl r ->
    r = (wire0, keys, mkMw (m_buf w ++ p) (m_type w) (m_compress w)).
Proof.
  induction fuel as [|f IH]; intros cfg keys w p wire0 r Hc Hf E; [lia|].
  destruct p as [|x p'].
  - simpl in E. inversion E. rewrite app_nil_r. destruct w; reflexivity.
  - set (pp := x :: p') in *. cbn [copy_loop] in E. fold pp in E.
    assert (Hpp : (1 <= length pp)%nat) by (unfold pp; simpl; lia).
    destruct (N.eqb_spec (cap cfg - N.of_nat (length (m_buf w))) 0) as [Hz|Hnz].
    + rewrite (flush_ctl_nonfinal cfg keys w [] Hc) in E. discriminate.
    + set (n := N.to_nat (N.min (cap cfg - N.of_nat (length (m_buf w))) (N.of_nat (length pp)))) in *.
      assert (Hn : (1 <= n <= length pp)%nat) by (unfold n; lia).
      apply IH in E.
      * rewrite E. simpl. rewrite <- app_assoc, firstn_skipn. reflexivity.
      * exact Hc.
      * rewrite skipn_length. lia.
Qed.

Lemma feed_ctl : forall cfg keys w c r,
    is_control_type (m_type w) = true -> feed cfg keys w c = inl r ->
    r = ([], keys, mkMw (m_buf w ++ chunk_bytes c) (m_type w) (m_compress w)).
Proof.
  intros cfg keys w c r Hc E. destruct c as [p|p|p|p]; simpl chunk_bytes; unfold feed in E.
  - destruct ((2 * wc_buf cfg <? N.of_nat (length p)) && wc_server cfg).
    + rewrite (flush_ctl_nonfinal cfg keys w p Hc) in E. discriminate.
    + apply (copy_loop_ctl (S (length p)) cfg keys w p [] r Hc ltac:(lia) E).
  - apply (copy_loop_ctl (S (length p)) cfg keys w p [] r Hc ltac:(lia) E).
  - destruct (copy_loop (S (length p)) cfg keys w p []) as [[[wire keys'] w']|e] eqn:Ec; [|discriminate].
    pose proof (copy_loop_ctl (S (length p)) cfg keys w p [] _ Hc ltac:(lia) Ec) as Hr. inversion Hr; subst.
    simpl m_buf in E. simpl m_type in E.
    destruct (N.of_nat (length (m_buf w ++ p)) =? cap cfg).
    + rewrite (flush_ctl_nonfinal cfg keys (mkMw (m_buf w ++ p) (m_type w) (m_compress w)) [] Hc) in E. discriminate.
    + inversion E. reflexivity.
  - apply (copy_loop_ctl (S (length p)) cfg keys w p [] r Hc ltac:(lia) E).
Qed.

Lemma feed_all_ctl : forall cs cfg keys w wire0 r,
    is_control_type (m_type w) = true -> feed_all cfg keys w cs wire0 = inl r ->
    r = (wire0, keys, mkMw (m_buf w ++ flat_map chunk_bytes cs) (m_type w) (m_compress w)).
Proof.
  induction cs as [|c cs IH]; intros cfg keys w wire0 r Hc E; simpl in E.
  - inversion E. simpl. rewrite app_nil_r. destruct w; reflexivity.
  - destruct (feed cfg keys w c) as [[[fr keys'] w']|e] eqn:Ef; [|discriminate].
    pose proof (feed_ctl cfg keys w c _ Hc Ef) as Hr. inversion Hr; subst.
    apply IH in E; [|exact Hc]. rewrite E. simpl. rewrite app_nil_r, <- app_assoc. reflexivity.
Qed.

Section CtlOps.
  Variable ok : N -> bool.
  Variable infl : bytes -> option bytes.
  Variable cfg : wcfg.
  Variable z : bool.
  Hypothesis Hcap : c_maxFrameHeaderSize < wc_buf cfg.
  Let masked : bool := negb (wc_server cfg).
  Let run := spec_run (S0 ok) (peerz masked z) infl.

  (* what the decoder makes of one control frame *)
  Lemma ctl_frame_events : forall key typ data,
      typ = 8 \/ typ = 9 \/ typ = 10 -> N.of_nat (length data) <= 125 -> (masked = true -> length key = 4%nat) ->
      (typ = 8 -> close_payload_ok ok data) ->
      forall rest, run None (enc_frame masked key (b0_of typ true) data ++ rest)
                   = if typ =? 8 then message_events typ data else message_events typ data ++ run None rest.
  Proof.
    intros key typ data Htyp Hlen Kl Hclose rest. unfold run. rewrite spec_run_step.
    rewrite (decode_control_frame_z ok infl masked z key typ data rest None Htyp Hlen Kl).
    unfold message_events.
    destruct Htyp as [-> | [-> | ->]].
    - simpl. specialize (Hclose eq_refl). unfold close_frame.
      destruct data as [|a [|b text]]; simpl in Hclose.
      + reflexivity.
      + contradiction.
      + destruct Hclose as [H1 H2]. unfold S0, strict, check, enforced. simpl close_ok. rewrite H1, H2. reflexivity.
    - reflexivity.
    - reflexivity.
  Qed.

  (* the final flush of a control message: one frame, or refused when longer than 125 bytes *)
  Lemma flush_ctl_final : forall keys w extra fr keys' w',
      keys_ok keys -> is_control_type (m_type w) = true -> m_compress w = false ->
      (wc_server cfg = false -> extra = []) ->
      flush_frame cfg keys w true extra = inl (fr, keys', w') ->
      N.of_nat (length (m_buf w ++ extra)) <= 125 /\ keys_ok keys'
      /\ exists key, fr = enc_frame masked key (b0_of (m_type w) true) (m_buf w ++ extra) /\ (masked = true -> length key = 4%nat).
  Proof.
    intros keys w extra fr keys' w' Hk Hc Hz Hex E. unfold flush_frame, c_maxControlFramePayloadSize in E.
    rewrite Hc, Hz in E. simpl negb in E. simpl orb in E.
    destruct (N.ltb_spec 125 (N.of_nat (length (m_buf w) + length extra))) as [|Hlen]; [discriminate|].
    simpl andb in E. cbv iota in E.
    split; [rewrite app_length; exact Hlen|].
    unfold enc_frame, masked. rewrite app_length.
    assert (Hs : wc_server cfg = true \/ wc_server cfg = false) by (destruct (wc_server cfg); auto).
    destruct Hs as [Es|Es]; rewrite Es in E |- *.
    - inversion E; subst. split; [exact Hk|]. exists []. split; [reflexivity|discriminate].
    - rewrite (Hex Es) in *. destruct (next_key_ok keys Hk) as [K1 K2].
      destruct (next_key keys) as [key ks]. simpl in K1, K2. inversion E; subst.
      split; [exact K2|]. exists key. split; [|intros _; exact K1].
      rewrite app_nil_r. simpl length. rewrite Nat.add_0_r. reflexivity.
  Qed.

  (* NextWriter(control type) ... Close: if it succeeds, exactly one control frame with all the data *)
  Lemma stream_ctl : forall keys typ cs wire keys',
      keys_ok keys -> is_data_type typ = false ->
      write_stream cfg keys typ cs = inl (wire, keys') ->
      (typ = 8 -> close_payload_ok ok (flat_map chunk_bytes cs)) ->
      keys_ok keys' /\ (typ = 8 \/ typ = 9 \/ typ = 10)
      /\ forall rest, run None (wire ++ rest)
                      = if typ =? 8 then message_events typ (flat_map chunk_bytes cs)
                        else message_events typ (flat_map chunk_bytes cs) ++ run None rest.
  Proof.
    intros keys typ cs wire keys' Hk Hnd E Hclose. unfold write_stream in E. rewrite Hnd in E. simpl negb in E.
    rewrite andb_true_r in E.
    destruct (is_control_type typ) eqn:Hc; simpl negb in E; cbv iota in E; [|discriminate].
    destruct (feed_all cfg keys (mkMw [] typ false) cs []) as [[[w0 k0] mw0]|e] eqn:Ef; [|discriminate].
    pose proof (feed_all_ctl cs cfg keys (mkMw [] typ false) [] _ Hc Ef) as Hr. inversion Hr; subst. clear Hr.
    simpl app in E.
    destruct (flush_frame cfg keys (mkMw (flat_map chunk_bytes cs) typ false) true []) as [[[fr k1] w1]|e] eqn:Efl; [|discriminate].
    destruct (flush_ctl_final keys (mkMw (flat_map chunk_bytes cs) typ false) [] fr k1 w1 Hk Hc eq_refl (fun _ => eq_refl) Efl) as [Hlen [K [key [Efr Kl]]]].
    simpl m_buf in *. simpl m_type in *. rewrite app_nil_r in *.
    inversion E; subst. clear E.
    pose proof (control_type_cases typ Hc) as Ht.
    split; [exact K|]. split; [exact Ht|]. intro rest. apply ctl_frame_events; assumption.
  Qed.

  (* WriteMessage(control type, data) *)
  Lemma message_ctl : forall keys typ data wire keys',
      keys_ok keys -> is_data_type typ = false ->
      write_message cfg keys typ data = inl (wire, keys') ->
      (typ = 8 -> close_payload_ok ok data) ->
      keys_ok keys' /\ (typ = 8 \/ typ = 9 \/ typ = 10)
      /\ forall rest, run None (wire ++ rest)
                      = if typ =? 8 then message_events typ data else message_events typ data ++ run None rest.
  Proof.
    intros keys typ data wire keys' Hk Hnd E Hclose. unfold write_message in E.
    destruct (wc_server cfg && negb (wc_compress cfg)) eqn:Fast.
    - rewrite Hnd in E. simpl negb in E. rewrite andb_true_r in E.
      destruct (is_control_type typ) eqn:Hc; simpl negb in E; cbv iota in E; [|discriminate].
      set (n := N.to_nat (N.min (cap cfg) (N.of_nat (length data)))) in *.
      destruct (flush_frame cfg keys (mkMw (firstn n data) typ false) true (skipn n data)) as [[[fr k1] w1]|e] eqn:Efl; [|discriminate].
      apply andb_true_iff in Fast as [Hs _].
      destruct (flush_ctl_final keys (mkMw (firstn n data) typ false) (skipn n data) fr k1 w1 Hk Hc eq_refl
                                ltac:(intro Hf; rewrite Hf in Hs; discriminate) Efl) as [Hlen [K [key [Efr Kl]]]].
      simpl m_buf in *. simpl m_type in *. rewrite firstn_skipn in *.
      inversion E; subst. clear E.
      pose proof (control_type_cases typ Hc) as Ht.
      split; [exact K|]. split; [exact Ht|]. intro rest. apply ctl_frame_events; assumption.
    - destruct (stream_ctl keys typ [CWrite data] wire keys' Hk Hnd E) as [K [Ht D]].
      { simpl. rewrite app_nil_r. exact Hclose. }
      simpl flat_map in D. rewrite app_nil_r in D. auto.
  Qed.
End CtlOps.

(* ---------------------------------------------------------------- all operations *)

Section SeqAll.
  Variable ok : N -> bool.
  Variable infl : bytes -> option bytes.
  Variable cfg : wcfg.
  Hypothesis Hcap : c_maxFrameHeaderSize < wc_buf cfg.
  Let run := spec_run (S0 ok) (peerz (negb (wc_server cfg)) (wc_compress cfg)) infl.

  (* what the application must supply, for every kind of operation and every message type:
     data messages as before; close payloads valid; nothing for ping/pong and for types that the
     library refuses *)
  Definition op_ok_all (t : bool) (o : wop) : Prop :=
    match o with
    | OpMessage ty d => if is_data_type ty then op_ok_t ok infl cfg t o else (ty = 8 -> close_payload_ok ok d)
    | OpStream ty cs => if is_data_type ty then op_ok_t ok infl cfg t o else (ty = 8 -> close_payload_ok ok (flat_map chunk_bytes cs))
    | OpPrepared ty d pkeys =>
        if is_data_type ty then op_ok_t ok infl cfg t o else (ty = 8 -> close_payload_ok ok d) /\ keys_ok pkeys
    | _ => op_ok_t ok infl cfg t o
    end.

  Lemma ctl_result : forall (r : (bytes * list bytes) + werr) keys ty d (keep : bool),
      keys_ok keys ->
      (forall wire k', r = inl (wire, k') ->
         keys_ok k' /\ (ty = 8 \/ ty = 9 \/ ty = 10)
         /\ forall rest, run None (wire ++ rest) = if ty =? 8 then message_events ty d else message_events ty d ++ run None rest) ->
      forall wire keys' sent' e,
        match (if keep then match r with inl (fr, _) => inl (fr, keys) | inr e0 => inr e0 end else r) with
        | inl (wire0, keys0) => (wire0, keys0, ty =? c_CloseMessage, @None werr)
        | inr e0 => ([], keys, false, Some e0)
        end = (wire, keys', sent', e) ->
        keys_ok keys'
        /\ match e with
           | Some _ => wire = [] /\ sent' = false
           | None =>
               (sent' = true /\ exists out, message_events ty d = [SEnd out] /\ forall rest, run None (wire ++ rest) = [SEnd out])
               \/ (sent' = false /\ no_end (message_events ty d)
                   /\ forall rest, run None (wire ++ rest) = message_events ty d ++ run None rest)
           end.
  Proof.
    intros r keys ty d keep Hk Hr wire keys' sent' e E.
    destruct r as [[w k']|err].
    - destruct (Hr w k' eq_refl) as [K [Ht D]].
      assert (Ekeys : keys_ok (if keep then keys else k')) by (destruct keep; assumption).
      assert (E' : (w, (if keep then keys else k'), ty =? c_CloseMessage, @None werr) = (wire, keys', sent', e)) by (destruct keep; exact E).
      inversion E'; subst. split; [exact Ekeys|]. unfold c_CloseMessage.
      destruct Ht as [-> | [-> | ->]].
      + left. split; [reflexivity|].
        assert (Ex : exists out, message_events 8 d = [SEnd out]).
        { unfold message_events. simpl. destruct d as [|a [|b text]]; eexists; reflexivity. }
        destruct Ex as [out Eo]. exists out. split; [exact Eo|]. intro rest. rewrite <- Eo. apply (D rest).
      + right. split; [reflexivity|]. split; [intros o' [Hi|[]]; discriminate|]. intro rest. apply (D rest).
      + right. split; [reflexivity|]. split; [intros o' []|]. intro rest. apply (D rest).
    - assert (E' : (@nil N, keys, false, Some err) = (wire, keys', sent', e)) by (destruct keep; exact E).
      inversion E'; subst. split; [exact Hk|]. split; reflexivity.
  Qed.

  Lemma op_decode_all : forall t keys o wire keys' sent' e,
      keys_ok keys -> op_ok_all t o ->
      write_op (cfg_t cfg t) keys false o = (wire, keys', sent', e) ->
      keys_ok keys'
      /\ match e with
         | Some _ => wire = [] /\ sent' = false
         | None =>
             (sent' = true /\ exists out, message_events (op_type o) (op_data o) = [SEnd out]
                                         /\ forall rest, run None (wire ++ rest) = [SEnd out])
             \/ (sent' = false /\ no_end (message_events (op_type o) (op_data o))
                 /\ forall rest, run None (wire ++ rest) = message_events (op_type o) (op_data o) ++ run None rest)
         end.
  Proof.
    intros t keys o wire keys' sent' e Hk Hok E.
    destruct o as [ty d|ty cs|ty d|ty d pkeys|ty d zs|ty d zs pkeys]; simpl in Hok;
      try (apply (op_decode_t ok infl cfg Hcap t keys _ wire keys' sent' e Hk Hok E)).
    - destruct (is_data_type ty) eqn:Hd; [apply (op_decode_t ok infl cfg Hcap t keys _ wire keys' sent' e Hk Hok E)|].
      unfold write_op in E. rewrite Hd, andb_false_r in E. simpl op_type. simpl op_data.
      apply (ctl_result (write_message (cfg_t cfg t) keys ty d) keys ty d false Hk); [|exact E].
      intros w k' Ew. apply (message_ctl ok infl (cfg_t cfg t) (wc_compress cfg) keys ty d w k' Hk Hd Ew Hok).
    - destruct (is_data_type ty) eqn:Hd; [apply (op_decode_t ok infl cfg Hcap t keys _ wire keys' sent' e Hk Hok E)|].
      unfold write_op in E. rewrite Hd, andb_false_r in E. simpl op_type. simpl op_data.
      apply (ctl_result (write_stream (cfg_t cfg t) keys ty cs) keys ty (flat_map chunk_bytes cs) false Hk); [|exact E].
      intros w k' Ew. apply (stream_ctl ok infl (cfg_t cfg t) (wc_compress cfg) keys ty cs w k' Hk Hd Ew Hok).
    - destruct (is_data_type ty) eqn:Hd; [apply (op_decode_t ok infl cfg Hcap t keys _ wire keys' sent' e Hk Hok E)|].
      destruct Hok as [Hclose Hpk].
      unfold write_op in E. rewrite Hd, andb_false_r in E. simpl op_type. simpl op_data.
      apply (ctl_result (write_message (prepared_cfg (cfg_t cfg t)) pkeys ty d) keys ty d true Hk); [|exact E].
      intros w k' Ew.
      destruct (message_ctl ok infl (prepared_cfg (cfg_t cfg t)) (wc_compress cfg) pkeys ty d w k' Hpk Hd Ew Hclose)
        as [K [Ht D]].
      split; [exact K|]. split; [exact Ht|exact D].
  Qed.

  (* The round trip for ALL operations: data and control messages through every write API, message
     types the library refuses, compressed and plain messages mixed. *)
  Theorem roundtrip_all : forall ops keys,
      keys_ok keys -> Forall (fun to => op_ok_all (fst to) (snd to)) ops ->
      run None (fst (write_all_t cfg keys false ops))
      = close_at_end (ops_events (map snd ops) (map is_none (snd (write_all_t cfg keys false ops)))).
  Proof.
    induction ops as [|[t o] ops IH]; intros keys Hk Hok; [reflexivity|].
    inversion Hok as [|? ? Ho Hops]; subst. simpl in Ho.
    cbn [write_all_t map snd]. fold (cfg_t cfg t).
    destruct (write_op (cfg_t cfg t) keys false o) as [[[wire keys'] sent'] e] eqn:Eo.
    destruct (op_decode_all t keys o wire keys' sent' e Hk Ho Eo) as [K R].
    destruct e as [err|].
    - destruct R as [-> ->]. specialize (IH keys' K Hops).
      destruct (write_all_t cfg keys' false ops) as [w es]. simpl in *. exact IH.
    - destruct R as [[-> [out [Em D]]]|[-> [Hne D]]].
      + destruct (write_all_t_sent cfg ops keys') as [W1 W2].
        destruct (write_all_t cfg keys' true ops) as [w es]. simpl in *. subst w.
        rewrite D. rewrite Em. rewrite (ops_events_all_failed (map snd ops) es W2). reflexivity.
      + specialize (IH keys' K Hops).
        destruct (write_all_t cfg keys' false ops) as [w es]. simpl in *.
        rewrite D. rewrite IH. rewrite close_at_end_app_noend by exact Hne. reflexivity.
  Qed.
End SeqAll.
