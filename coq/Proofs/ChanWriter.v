(* Proofs for per-channel batching (C13). *)
From Coq Require Import List NArith ZArith Bool Arith Lia.
From Cfg Require Import Model.ChanWriter Model.ChanWriterSpec.
Import ListNotations.

(* ---------------------------------------------------------------- coalescing *)
Fixpoint has_key (k : N) (l : list citem) : bool :=
  match l with [] => false | y :: l' => N.eqb (ci_key y) k || has_key k l' end.

Lemma has_key_existsb k l : existsb (fun y => N.eqb (ci_key y) k) l = has_key k l.
Proof. induction l; cbn; auto. rewrite IHl. reflexivity. Qed.

(* keys pairwise distinct *)
Fixpoint keys_distinct (l : list citem) : Prop :=
  match l with [] => True | x :: l' => has_key (ci_key x) l' = false /\ keys_distinct l' end.

Lemma has_key_app k a b : has_key k (a ++ b) = has_key k a || has_key k b.
Proof. induction a; cbn; auto. rewrite IHa. apply orb_assoc. Qed.

Lemma remove_key_absent k l : has_key k l = false -> remove_key k l = l.
Proof.
  induction l as [|x l IH]; cbn [has_key remove_key]; auto. intros H. apply orb_false_iff in H. destruct H as [H1 H2].
  rewrite H1. f_equal. auto.
Qed.

Lemma has_key_remove_other k k' l : k <> k' -> has_key k' (remove_key k l) = has_key k' l.
Proof.
  intros Hk. induction l as [|x l IH]; cbn [has_key remove_key]; auto.
  destruct (N.eqb (ci_key x) k) eqn:E.
  - apply N.eqb_eq in E. destruct (N.eqb (ci_key x) k') eqn:E'; auto. apply N.eqb_eq in E'. congruence.
  - cbn [has_key]. rewrite IH. reflexivity.
Qed.

Lemma keys_distinct_remove k l : keys_distinct l -> keys_distinct (remove_key k l).
Proof.
  induction l as [|x l IH]; cbn [keys_distinct remove_key]; auto. intros (H1 & H2).
  destruct (N.eqb (ci_key x) k) eqn:E; auto. cbn [keys_distinct]. split; auto.
  apply N.eqb_neq in E. rewrite has_key_remove_other; auto.
Qed.

Lemma newest_has_key k l : has_key k l = false -> has_key k (newest l) = false.
Proof.
  induction l as [|z l IH]; cbn [has_key newest]; auto. intros H.
  apply orb_false_iff in H. destruct H as [E1 E2].
  destruct (existsb (fun y0 => N.eqb (ci_key y0) (ci_key z)) l); auto. cbn [has_key]. rewrite E1. auto.
Qed.

(* the code's coalescing step computes the specification's "newest per key" *)
Lemma newest_snoc l x :
  newest (l ++ [x]) = remove_key (ci_key x) (newest l) ++ [x] /\ keys_distinct (newest l).
Proof.
  induction l as [|y l (IH1 & IH2)]; cbn [app newest remove_key keys_distinct]; auto.
  rewrite !has_key_existsb, has_key_app. cbn [has_key]. rewrite orb_false_r.
  destruct (has_key (ci_key y) l) eqn:E; cbn [orb].
  - split; auto.
  - destruct (N.eqb (ci_key x) (ci_key y)) eqn:Exy; cbn [remove_key keys_distinct].
    + rewrite N.eqb_sym, Exy. apply N.eqb_eq in Exy. split.
      * rewrite IH1. f_equal. apply remove_key_absent. rewrite Exy. apply newest_has_key; auto.
      * split; auto. apply newest_has_key; auto.
    + rewrite N.eqb_sym, Exy. rewrite IH1. split; [reflexivity|]. split; auto. apply newest_has_key; auto.
Qed.

(* ---------------------------------------------------------------- one channelWriter *)
Definition Rel (c : bcfg) (w : cw) (pending : list citem) : Prop :=
  cw_buf w = (if b_latest c then nonpubs pending else pending) /\
  cw_lat w = (if b_latest c then newest (pubs pending) else []) /\
  (pending <> [] -> cw_latestOnly w = b_latest c).

Lemma pubs_app a b : pubs (a ++ b) = pubs a ++ pubs b.
Proof. apply filter_app. Qed.
Lemma nonpubs_app a b : nonpubs (a ++ b) = nonpubs a ++ nonpubs b.
Proof. apply filter_app. Qed.

Lemma Rel_new c : Rel c cw_new [].
Proof. unfold Rel, cw_new; cbn. destruct (b_latest c); repeat split; auto; congruence. Qed.

Lemma Rel_timer c w p t : Rel c w p -> Rel c (mkCw (cw_buf w) (cw_lat w) t (cw_latestOnly w)) p.
Proof. intros H. exact H. Qed.

Lemma flush_rel c w p : Rel c w p ->
  match cw_flush w with
  | (w', Some batch) => batch = flush_spec (b_latest c) p /\ Rel c w' [] /\ cw_timer w' = cw_timer w
  | (w', None) => w' = w /\ flush_spec (b_latest c) p = []
  end.
Proof.
  intros (Hb & Hl & Ho). unfold cw_flush, flush_spec.
  destruct (cw_buf w) as [|b0 bs] eqn:Eb; destruct (cw_lat w) as [|l0 ls] eqn:El.
  - split; auto. destruct (b_latest c); [rewrite <- Hb, <- Hl|rewrite <- Hb]; reflexivity.
  - destruct (b_latest c) eqn:Ec; [|discriminate].
    assert (Hp : p <> []) by (intros ->; cbn in Hl; discriminate).
    rewrite (Ho Hp). cbn. rewrite <- Hb, <- Hl. repeat split; auto; congruence.
  - cbn. rewrite andb_false_r. destruct (b_latest c) eqn:Ec.
    + rewrite <- Hb, <- Hl, app_nil_r. repeat split; auto; congruence.
    + rewrite <- Hb. repeat split; auto; congruence.
  - destruct (b_latest c) eqn:Ec; [|discriminate].
    assert (Hp : p <> []) by (intros ->; cbn in Hl; discriminate).
    rewrite (Ho Hp). cbn. rewrite <- Hb, <- Hl. repeat split; auto; congruence.
Qed.

Lemma add_rel c tm w p x : Rel c w p ->
  match cw_add c tm w x with
  | (w', Some batch, _) => batch = flush_spec (b_latest c) (p ++ [x]) /\ Rel c w' []
  | (w', None, _) => Rel c w' (p ++ [x])
  end.
Proof.
  intros (Hb & Hl & Ho). unfold cw_add.
  set (bl := if b_latest c && ci_pub x then (cw_buf w, remove_key (ci_key x) (cw_lat w) ++ [x])
             else (cw_buf w ++ [x], cw_lat w)).
  assert (R1 : forall t, Rel c (mkCw (fst bl) (snd bl) t (b_latest c)) (p ++ [x])).
  { intros t. unfold Rel; cbn [cw_buf cw_lat cw_latestOnly]. subst bl.
    rewrite pubs_app, nonpubs_app. unfold pubs at 2, nonpubs at 2. cbn [filter].
    destruct (b_latest c) eqn:Ec; destruct (ci_pub x) eqn:Ex; cbn [andb negb fst snd].
    - rewrite Hb, Hl, app_nil_r. destruct (newest_snoc (pubs p) x) as (N1 & _). rewrite N1. repeat split; auto.
    - rewrite Hb, Hl, app_nil_r. repeat split; auto.
    - rewrite Hb, Hl. repeat split; auto.
    - rewrite Hb, Hl. repeat split; auto. }
  destruct bl as [buf lat] eqn:Ebl. cbn [fst snd] in R1.
  set (arm := b_delay c && (length buf + length lat =? 1) && match cw_timer w with None => true | Some _ => false end).
  destruct ((0 <? b_max c)%Z && (b_max c <=? Z.of_nat (length buf + length lat))%Z).
  - pose proof (flush_rel c (cw_stop (mkCw buf lat (if arm then Some tm else cw_timer w) (b_latest c))) (p ++ [x]) (R1 None)) as F.
    destruct (cw_flush _) as [w2 [batch|]].
    + destruct F as (F1 & F2 & _). auto.
    + destruct F as (-> & _). apply (R1 None).
  - apply R1.
Qed.

Lemma fire_rel c tm w p : Rel c w p ->
  match cw_fire tm w with
  | (w', Some batch) => batch = flush_spec (b_latest c) p /\ Rel c w' []
  | (w', None) => Rel c w' p
  end.
Proof.
  intros R. unfold cw_fire. destruct (cw_timer w) as [t|]; [|exact R].
  destruct (t =? tm); [|exact R].
  pose proof (flush_rel c w p R) as F. destruct (cw_flush w) as [w1 [batch|]].
  - destruct F as (F1 & F2 & _). split; auto.
  - destruct F as (-> & _). exact R.
Qed.

Lemma close_rel c f w p : Rel c w p ->
  match cw_close f w with
  | (w', Some batch) => f = true /\ batch = flush_spec (b_latest c) p /\ Rel c w' []
  | (w', None) => Rel c w' []
  end.
Proof.
  intros R. unfold cw_close.
  assert (RN : forall t o, Rel c (mkCw [] [] t o) []).
  { intros t o. unfold Rel; cbn. destruct (b_latest c); repeat split; auto; congruence. }
  destruct f.
  - pose proof (flush_rel c (cw_stop w) p R) as F. destruct (cw_flush (cw_stop w)) as [w1 [batch|]].
    + destruct F as (F1 & _). repeat split; auto. apply RN.
    + apply RN.
  - apply RN.
Qed.

(* every batch a channelWriter hands to flushFn is the specification's flush of exactly the items added
   since its previous flush / close; Close(false) forgets them *)
Fixpoint check_run (c : bcfg) (st : cw * nat) (pending : list citem) (ops : list cwop) : Prop :=
  match ops with
  | [] => True
  | o :: ops' =>
      let '(st', b) := cwop_step c st o in
      let pending1 := match o with CAdd x => pending ++ [x] | _ => pending end in
      match b with
      | Some batch => batch = flush_spec (b_latest c) pending1 /\ check_run c st' [] ops'
      | None => check_run c st' (match o with CClose _ => [] | _ => pending1 end) ops'
      end
  end.

Lemma check_run_ok c ops : forall st pending, Rel c (fst st) pending -> check_run c st pending ops.
Proof.
  induction ops as [|o ops IH]; intros [w n] p R; cbn [check_run]; auto. cbn [fst] in R.
  destruct o as [x|tm|f]; cbn [cwop_step].
  - pose proof (add_rel c n w p x R) as A. destruct (cw_add c n w x) as [[w1 b] armed].
    destruct b as [batch|]; [destruct A as (A1 & A2); split; auto|]; apply IH; auto.
  - pose proof (fire_rel c tm w p R) as A. destruct (cw_fire tm w) as [w1 b].
    destruct b as [batch|]; [destruct A as (A1 & A2); split; auto|]; apply IH; auto.
  - pose proof (close_rel c f w p R) as A. destruct (cw_close f w) as [w1 b].
    destruct b as [batch|]; [destruct A as (_ & A1 & A2); split; auto|]; apply IH; auto.
Qed.

Theorem instance_spec c ops : check_run c (cw_new, 0) [] ops.
Proof. apply check_run_ok. apply Rel_new. Qed.

(* a timer goroutine whose timer is no longer the active one does nothing *)
Lemma stale_fire tm w : cw_timer w <> Some tm -> cw_fire tm w = (w, None).
Proof.
  intros H. unfold cw_fire. destruct (cw_timer w) as [t|]; auto.
  destruct (t =? tm) eqn:E; auto. apply Nat.eqb_eq in E. subst. congruence.
Qed.
