(* Proofs for per-channel batching (C13). *)
From Coq Require Import List NArith ZArith Bool Arith Lia.
From Cfg Require Import Model.ChanWriter Model.ChanWriterSpec.
Import ListNotations.

(* ---------------------------------------------------------------- coalescing *)
Fixpoint has_key (k : N) (l : list citem) : bool :=
  match l with [] => false | y :: l' => N.eqb (ci_key y) k || has_key k l' end.

Lemma has_key_existsb k l : existsb (fun y => N.eqb (ci_key y) k) l = has_key k l.
Proof. induction l; cbn; auto. rewrite IHl. reflexivity. Qed.

(* keys pairwise distinct *)
Fixpoint keys_distinct (l : list citem) : Prop :=
  match l with [] => True | x :: l' => has_key (ci_key x) l' = false /\ keys_distinct l' end.

Lemma has_key_app k a b : has_key k (a ++ b) = has_key k a || has_key k b.
Proof. induction a; cbn; auto. rewrite IHa. apply orb_assoc. Qed.

Lemma remove_key_absent k l : has_key k l = false -> remove_key k l = l.
Proof.
  induction l as [|x l IH]; cbn [has_key remove_key]; auto. intros H. apply orb_false_iff in H. destruct H as [H1 H2].
  rewrite H1. f_equal. auto.
Qed.

Lemma has_key_remove_other k k' l : k <> k' -> has_key k' (remove_key k l) = has_key k' l.
Proof.
  intros Hk. induction l as [|x l IH]; cbn [has_key remove_key]; auto.
  destruct (N.eqb (ci_key x) k) eqn:E.
  - apply N.eqb_eq in E. destruct (N.eqb (ci_key x) k') eqn:E'; auto. apply N.eqb_eq in E'. congruence.
  - cbn [has_key]. rewrite IH. reflexivity.
Qed.

Lemma keys_distinct_remove k l : keys_distinct l -> keys_distinct (remove_key k l).
Proof.
  induction l as [|x l IH]; cbn [keys_distinct remove_key]; auto. intros (H1 & H2).
  destruct (N.eqb (ci_key x) k) eqn:E; auto. cbn [keys_distinct]. split; auto.
  apply N.eqb_neq in E. rewrite has_key_remove_other; auto.
Qed.

Lemma newest_has_key k l : has_key k l = false -> has_key k (newest l) = false.
Proof.
  induction l as [|z l IH]; cbn [has_key newest]; auto. intros H.
  apply orb_false_iff in H. destruct H as [E1 E2].
  destruct (existsb (fun y0 => N.eqb (ci_key y0) (ci_key z)) l); auto. cbn [has_key]. rewrite E1. auto.
Qed.

(* the code's coalescing step computes the specification's "newest per key" *)
Lemma newest_snoc l x :
  newest (l ++ [x]) = remove_key (ci_key x) (newest l) ++ [x] /\ keys_distinct (newest l).
Proof.
  induction l as [|y l (IH1 & IH2)]; cbn [app newest remove_key keys_distinct]; auto.
  rewrite !has_key_existsb, has_key_app. cbn [has_key]. rewrite orb_false_r.
  destruct (has_key (ci_key y) l) eqn:E; cbn [orb].
  - split; auto.
  - destruct (N.eqb (ci_key x) (ci_key y)) eqn:Exy; cbn [remove_key keys_distinct].
    + rewrite N.eqb_sym, Exy. apply N.eqb_eq in Exy. split.
      * rewrite IH1. f_equal. apply remove_key_absent. rewrite Exy. apply newest_has_key; auto.
      * split; auto. apply newest_has_key; auto.
    + rewrite N.eqb_sym, Exy. rewrite IH1. split; [reflexivity|]. split; auto. apply newest_has_key; auto.
Qed.

(* ---------------------------------------------------------------- one channelWriter *)
Definition Rel (c : bcfg) (w : cw) (pending : list citem) : Prop :=
  cw_buf w = (if b_latest c then nonpubs pending else pending) /\
  cw_lat w = (if b_latest c then newest (pubs pending) else []) /\
  (pending <> [] -> cw_latestOnly w = b_latest c).

Lemma pubs_app a b : pubs (a ++ b) = pubs a ++ pubs b.
Proof. apply filter_app. Qed.
Lemma nonpubs_app a b : nonpubs (a ++ b) = nonpubs a ++ nonpubs b.
Proof. apply filter_app. Qed.

Lemma Rel_new c : Rel c cw_new [].
Proof. unfold Rel, cw_new; cbn. destruct (b_latest c); repeat split; auto; congruence. Qed.

Lemma Rel_timer c w p t cl : Rel c w p -> Rel c (mkCw (cw_buf w) (cw_lat w) t (cw_latestOnly w) cl) p.
Proof. intros H. exact H. Qed.

Lemma Rel_empty c t o cl : Rel c (mkCw [] [] t o cl) [].
Proof. unfold Rel; cbn. destruct (b_latest c); repeat split; auto; congruence. Qed.

Lemma flush_rel c w p : Rel c w p ->
  match cw_flush w with
  | (w', Some batch) => batch = flush_spec (b_latest c) p /\ Rel c w' [] /\ cw_timer w' = cw_timer w /\ cw_closed w' = cw_closed w
  | (w', None) => w' = w /\ flush_spec (b_latest c) p = []
  end.
Proof.
  intros (Hb & Hl & Ho). unfold cw_flush, flush_spec.
  destruct (cw_buf w) as [|b0 bs] eqn:Eb; destruct (cw_lat w) as [|l0 ls] eqn:El.
  - split; auto. destruct (b_latest c); [rewrite <- Hb, <- Hl|rewrite <- Hb]; reflexivity.
  - destruct (b_latest c) eqn:Ec; [|discriminate].
    assert (Hp : p <> []) by (intros ->; cbn in Hl; discriminate).
    rewrite (Ho Hp). cbn. rewrite <- Hb, <- Hl. split; [reflexivity|]. split; [apply Rel_empty|split; reflexivity].
  - cbn. rewrite andb_false_r. destruct (b_latest c) eqn:Ec.
    + rewrite <- Hb, <- Hl, app_nil_r. split; [reflexivity|]. split; [apply Rel_empty|split; reflexivity].
    + rewrite <- Hb. split; [reflexivity|]. split; [apply Rel_empty|split; reflexivity].
  - destruct (b_latest c) eqn:Ec; [|discriminate].
    assert (Hp : p <> []) by (intros ->; cbn in Hl; discriminate).
    rewrite (Ho Hp). cbn. rewrite <- Hb, <- Hl. split; [reflexivity|]. split; [apply Rel_empty|split; reflexivity].
Qed.

Lemma add_closed c tm w x : cw_closed w = true -> cw_add c tm w x = (w, None, false).
Proof. intros H. unfold cw_add, cw_add_gen. rewrite H. reflexivity. Qed.

Lemma add_rel c tm w p x : Rel c w p ->
  match cw_add c tm w x with
  | (w', Some batch, _) => cw_closed w = false /\ batch = flush_spec (b_latest c) (p ++ [x]) /\ Rel c w' [] /\ cw_closed w' = false
  | (w', None, _) => Rel c w' (if cw_closed w then p else p ++ [x]) /\ cw_closed w' = cw_closed w
  end.
Proof.
  intros R. destruct (cw_closed w) eqn:Ecl.
  { rewrite add_closed by auto. rewrite Ecl. auto. }
  destruct R as (Hb & Hl & Ho). unfold cw_add, cw_add_gen. rewrite Ecl. cbn [andb].
  set (bl := if b_latest c && ci_pub x then (cw_buf w, remove_key (ci_key x) (cw_lat w) ++ [x])
             else (cw_buf w ++ [x], cw_lat w)).
  assert (R1 : forall t, Rel c (mkCw (fst bl) (snd bl) t (b_latest c) false) (p ++ [x])).
  { intros t. unfold Rel; cbn [cw_buf cw_lat cw_latestOnly]. subst bl.
    rewrite pubs_app, nonpubs_app. unfold pubs at 2, nonpubs at 2. cbn [filter].
    destruct (b_latest c) eqn:Ec; destruct (ci_pub x) eqn:Ex; cbn [andb negb fst snd].
    - rewrite Hb, Hl, app_nil_r. destruct (newest_snoc (pubs p) x) as (N1 & _). rewrite N1. repeat split; auto.
    - rewrite Hb, Hl, app_nil_r. repeat split; auto.
    - rewrite Hb, Hl. repeat split; auto.
    - rewrite Hb, Hl. repeat split; auto. }
  destruct bl as [buf lat] eqn:Ebl. cbn [fst snd] in R1.
  set (arm := b_delay c && (length buf + length lat =? 1) && match cw_timer w with None => true | Some _ => false end).
  destruct ((0 <? b_max c)%Z && (b_max c <=? Z.of_nat (length buf + length lat))%Z).
  - pose proof (flush_rel c (cw_stop (mkCw buf lat (if arm then Some tm else cw_timer w) (b_latest c) false)) (p ++ [x]) (R1 None)) as F.
    destruct (cw_flush _) as [w2 [batch|]].
    + destruct F as (F1 & F2 & _ & F4). auto.
    + destruct F as (-> & _). split; [apply (R1 None)|reflexivity].
  - split; [apply R1|reflexivity].
Qed.

Lemma fire_rel c tm w p : Rel c w p ->
  match cw_fire tm w with
  | (w', Some batch) => batch = flush_spec (b_latest c) p /\ Rel c w' []
  | (w', None) => Rel c w' p
  end.
Proof.
  intros R. unfold cw_fire. destruct (cw_timer w) as [t|]; [|exact R].
  destruct (t =? tm); [|exact R].
  pose proof (flush_rel c w p R) as F. destruct (cw_flush w) as [w1 [batch|]].
  - destruct F as (F1 & F2 & _). split; auto.
  - destruct F as (-> & _). exact R.
Qed.

Lemma fire_closed tm w : cw_closed (fst (cw_fire tm w)) = cw_closed w.
Proof.
  unfold cw_fire. destruct (cw_timer w) as [t|]; auto. destruct (t =? tm); auto.
  unfold cw_flush. destruct (cw_buf w), (cw_lat w); reflexivity.
Qed.

Lemma close_rel c f w p : Rel c w p ->
  match cw_close f w with
  | (w', Some batch) => f = true /\ batch = flush_spec (b_latest c) p /\ Rel c w' []
  | (w', None) => Rel c w' []
  end.
Proof.
  intros R. unfold cw_close.
  assert (RN : forall t o cl, Rel c (mkCw [] [] t o cl) []) by (intros; apply Rel_empty).
  destruct f.
  - pose proof (flush_rel c (cw_stop w) p R) as F. destruct (cw_flush (cw_stop w)) as [w1 [batch|]].
    + destruct F as (F1 & _). split; [reflexivity|]. split; [exact F1|apply RN].
    + apply RN.
  - apply RN.
Qed.

(* every batch a channelWriter hands to flushFn is the specification's flush of exactly the items added
   since its previous flush / close; Close(false) forgets them *)
Fixpoint check_run (c : bcfg) (st : cw * nat) (pending : list citem) (ops : list cwop) : Prop :=
  match ops with
  | [] => True
  | o :: ops' =>
      let '(st', b) := cwop_step c st o in
      let pending1 := match o with
                      | CAdd x => if cw_closed (fst st) then pending else pending ++ [x]   (* a closed writer drops the item *)
                      | _ => pending end in
      match b with
      | Some batch => batch = flush_spec (b_latest c) pending1 /\ check_run c st' [] ops'
      | None => check_run c st' (match o with CClose _ => [] | _ => pending1 end) ops'
      end
  end.

Lemma check_run_ok c ops : forall st pending, Rel c (fst st) pending -> check_run c st pending ops.
Proof.
  induction ops as [|o ops IH]; intros [w n] p R; cbn [check_run]; auto. cbn [fst] in R.
  destruct o as [x|tm|f]; cbn [cwop_step].
  - pose proof (add_rel c n w p x R) as A. destruct (cw_add c n w x) as [[w1 b] armed].
    destruct b as [batch|].
    + destruct A as (A0 & A1 & A2 & _). cbn [fst]. rewrite A0. split; auto.
    + destruct A as (A1 & _). cbn [fst]. apply IH; auto.
  - pose proof (fire_rel c tm w p R) as A. destruct (cw_fire tm w) as [w1 b].
    destruct b as [batch|]; [destruct A as (A1 & A2); split; auto|]; apply IH; auto.
  - pose proof (close_rel c f w p R) as A. destruct (cw_close f w) as [w1 b].
    destruct b as [batch|]; [destruct A as (_ & A1 & A2); split; auto|]; apply IH; auto.
Qed.

Theorem instance_spec c ops : check_run c (cw_new, 0) [] ops.
Proof. apply check_run_ok. apply Rel_new. Qed.

(* a timer goroutine whose timer is no longer the active one does nothing *)
Lemma stale_fire tm w : cw_timer w <> Some tm -> cw_fire tm w = (w, None).
Proof.
  intros H. unfold cw_fire. destruct (cw_timer w) as [t|]; auto.
  destruct (t =? tm) eqn:E; auto. apply Nat.eqb_eq in E. subst. congruence.
Qed.

(* ---------------------------------------------------------------- perChannelWriter *)
Definition dead (w : cw) : Prop := cw_buf w = [] /\ cw_lat w = [] /\ cw_timer w = None.
Definition mapped (s : pst) (i : nat) : bool := existsb (fun ci => snd ci =? i) (p_map s).
Definition referenced (s : pst) (i : nat) : bool := existsb (fun r => snd (snd r) =? i) (p_refs s).
Definition out_of (i : nat) (out : list (N * nat * list citem)) := filter (fun e => snd (fst e) =? i) out.

(* instance i exists, is in nobody's hands and holds nothing *)
Definition silent (s : pst) (i : nat) : Prop :=
  i < p_next s /\ mapped s i = false /\
  exists w, lookup (p_inst s) i = Some w /\ dead w /\ cw_closed w = true.

Lemma lookupN_mapped {A} (l : list (N * A)) ch v : lookupN l ch = Some v -> In (ch, v) l.
Proof.
  induction l as [|[k x] l IH]; cbn; [discriminate|]. destruct (N.eqb k ch) eqn:E.
  - apply N.eqb_eq in E. intros [= ->]. subst. auto.
  - auto.
Qed.

Lemma mapped_in s ch i : In (ch, i) (p_map s) -> mapped s i = true.
Proof. intros H. unfold mapped. apply existsb_exists. exists (ch, i). cbn. rewrite Nat.eqb_refl. auto. Qed.

Lemma lookup_in {A} (l : list (nat * A)) k v : lookup l k = Some v -> In (k, v) l.
Proof.
  induction l as [|[k' x] l IH]; cbn; [discriminate|]. destruct (k' =? k) eqn:E.
  - apply Nat.eqb_eq in E. intros [= ->]. subst. auto.
  - auto.
Qed.

Lemma referenced_in s t ch i : In (t, (ch, i)) (p_refs s) -> referenced s i = true.
Proof. intros H. unfold referenced. apply existsb_exists. exists (t, (ch, i)). cbn. rewrite Nat.eqb_refl. auto. Qed.

Lemma existsb_filter_false {A} (f g : A -> bool) l : existsb f l = false -> existsb f (filter g l) = false.
Proof.
  induction l as [|x l IH]; cbn; auto. intros H. apply orb_false_iff in H. destruct H as [H1 H2].
  destruct (g x); cbn; rewrite ?H1; auto.
Qed.

Lemma out_of_emit i out ch j b : j <> i -> out_of i (emit out ch j b) = out_of i out.
Proof.
  intros H. destruct b; cbn; auto. unfold out_of. rewrite filter_app. cbn.
  replace (j =? i) with false by (symmetry; apply Nat.eqb_neq; auto). apply app_nil_r.
Qed.

(* Close visits the mapped instances only *)
Lemma close_mapped_other flush i : forall m insts out w,
  existsb (fun ci => snd ci =? i) m = false -> lookup insts i = Some w ->
  let r := fold_left (fun '(insts, out) '(ch, j) =>
               match lookup insts j with
               | Some w => let '(w1, b) := cw_close flush w in ((j, w1) :: insts, emit out ch j b)
               | None => (insts, out)
               end) m (insts, out) in
  lookup (fst r) i = Some w /\ out_of i (snd r) = out_of i out.
Proof.
  induction m as [|[ch j] m IH]; intros insts out w Hm Hl; cbn [fold_left]; auto.
  cbn in Hm. apply orb_false_iff in Hm. destruct Hm as [Hj Hm]. apply Nat.eqb_neq in Hj.
  destruct (lookup insts j) as [wj|] eqn:Ej.
  - destruct (cw_close flush wj) as [w1 b] eqn:Ec.
    destruct (IH ((j, w1) :: insts) (emit out ch j b) w Hm) as (A & B).
    { cbn. replace (j =? i) with false by (symmetry; apply Nat.eqb_neq; auto). exact Hl. }
    split; auto. rewrite B. apply out_of_emit; auto.
  - apply IH; auto.
Qed.

(* a silent instance stays silent and emits nothing, whatever happens -- including the second half of
   an Add call that obtained it before it was closed *)
Lemma silent_step cf s l s' i : silent s i -> pstep cf s l = Some s' ->
  silent s' i /\ out_of i (p_out s') = out_of i (p_out s).
Proof.
  intros (Hlt & Hm & w & Hw & Hd & Hcl) H. unfold pstep in H. destruct l; cbn [pstep_gen] in H.
  - (* PGet *)
    destruct (lookup (p_refs s) t); [discriminate|].
    destruct (lookupN (p_map s) ch) as [j|] eqn:Ej; injection H as <-; cbn.
    + split; auto. unfold silent, mapped in *; cbn. repeat split; auto. eauto.
    + split; auto. unfold silent, mapped in *; cbn.
      replace (p_next s =? i) with false by (symmetry; apply Nat.eqb_neq; lia).
      repeat split; auto. exists w. auto.
  - (* PAdd *)
    destruct (lookup (p_refs s) t) as [[ch j]|] eqn:Et; [|discriminate].
    destruct (lookup (p_inst s) j) as [wj|] eqn:Ej; [|discriminate].
    destruct (Nat.eq_dec j i) as [->|Hji].
    + rewrite Hw in Ej. injection Ej as <-. fold (cw_add (cf ch) (p_next s) w x) in H.
      rewrite add_closed in H by auto. injection H as <-. cbn. split; auto.
      unfold silent, mapped; cbn. rewrite Nat.eqb_refl. repeat split; auto. exists w. auto.
    + destruct (cw_add_gen true (cf ch) (p_next s) wj x) as [[w1 b] armed]. injection H as <-.
      cbn. split; [|apply out_of_emit; auto].
      unfold silent, mapped in *; cbn.
      replace (j =? i) with false by (symmetry; apply Nat.eqb_neq; auto).
      repeat split; auto; [destruct armed; lia|eauto].
  - (* PFire *)
    destruct (lookup (p_timers s) tm) as [j|]; [|discriminate].
    destruct (lookup (p_inst s) j) as [wj|] eqn:Ej; [|discriminate].
    destruct (Nat.eq_dec j i) as [->|Hji].
    + rewrite Hw in Ej. injection Ej as <-. destruct Hd as (D1 & D2 & D3).
      rewrite stale_fire in H by (rewrite D3; discriminate). injection H as <-. cbn.
      split; auto. unfold silent, mapped; cbn. rewrite Nat.eqb_refl.
      repeat split; auto. exists w. repeat split; auto.
    + destruct (cw_fire tm wj) as [w1 b]. injection H as <-. cbn. split; [|apply out_of_emit; auto].
      unfold silent, mapped in *; cbn.
      replace (j =? i) with false by (symmetry; apply Nat.eqb_neq; auto). repeat split; auto. eauto.
  - (* PCancelled *)
    destruct (lookup (p_timers s) tm) as [j|]; [|discriminate].
    destruct (lookup (p_inst s) j) as [wj|]; [|discriminate].
    destruct (cw_timer wj) as [t|]; [destruct (t =? tm); [discriminate|]|]; injection H as <-; cbn;
      (split; auto; unfold silent, mapped in *; cbn; repeat split; auto; eauto).
  - (* PDel *)
    destruct (lookupN (p_map s) ch) as [j|] eqn:Ej.
    + destruct (lookup (p_inst s) j) as [wj|] eqn:Ew; [|discriminate].
      destruct (cw_close flush wj) as [w1 b]. injection H as <-.
      assert (Hji : j <> i).
      { intros ->. apply lookupN_mapped in Ej. apply mapped_in in Ej. congruence. }
      cbn. split; [|apply out_of_emit; auto].
      unfold silent, mapped in *; cbn.
      replace (j =? i) with false by (symmetry; apply Nat.eqb_neq; auto). repeat split; auto.
      * unfold removeN. apply existsb_filter_false. exact Hm.
      * eauto.
    + injection H as <-. split; auto. unfold silent. repeat split; auto. eauto.
  - (* PClose *)
    destruct (close_mapped flush s) as [insts out] eqn:Ec. injection H as <-. cbn.
    unfold close_mapped in Ec.
    destruct (close_mapped_other flush i (p_map s) (p_inst s) (p_out s) w Hm Hw) as (A & B).
    rewrite Ec in A, B. cbn in A, B. split; auto.
    unfold silent, mapped in *; cbn. repeat split; auto. eauto.
Qed.

Lemma silent_run cf sched : forall s s' i, silent s i -> prun cf s sched = Some s' ->
  silent s' i /\ out_of i (p_out s') = out_of i (p_out s).
Proof.
  unfold prun. induction sched as [|l sched IH]; intros s s' i Hs; cbn [prun_gen].
  - intros [= <-]. auto.
  - destruct (pstep_gen true cf s l) as [s1|] eqn:E; [|discriminate]. intros H.
    destruct (silent_step cf s l s1 i Hs E) as (S1 & O1).
    destruct (IH s1 s' i S1 H) as (S2 & O2). split; auto. congruence.
Qed.

(* well-formedness of the tables *)
Definition WFp (s : pst) : Prop :=
  NoDup (map snd (p_map s)) /\
  (forall ch i, In (ch, i) (p_map s) -> i < p_next s /\ lookup (p_inst s) i <> None) /\
  (forall i w, lookup (p_inst s) i = Some w -> i < p_next s).

Lemma WFp_init : WFp p_init.
Proof. unfold WFp, p_init; cbn. repeat split; try constructor; try contradiction; discriminate. Qed.

Lemma in_filter_map {A} (f : N * A -> bool) l : incl (filter f l) l.
Proof. intros x H. apply filter_In in H. apply H. Qed.

Lemma NoDup_map_filter {A B} (g : A -> B) (f : A -> bool) l : NoDup (map g l) -> NoDup (map g (filter f l)).
Proof.
  induction l as [|x l IH]; cbn; auto. intros H. inversion H; subst. destruct (f x); cbn; auto.
  constructor; auto. intros Hin. apply H2. apply in_map_iff in Hin. destruct Hin as (y & E & Hy).
  apply filter_In in Hy. apply in_map_iff. exists y. split; auto. apply Hy.
Qed.

Lemma close_mapped_keeps flush : forall m insts out i,
  lookup insts i <> None ->
  lookup (fst (fold_left (fun '(insts, out) '(ch, j) =>
               match lookup insts j with
               | Some w => let '(w1, b) := cw_close flush w in ((j, w1) :: insts, emit out ch j b)
               | None => (insts, out)
               end) m (insts, out))) i <> None.
Proof.
  induction m as [|[ch j] m IH]; intros insts out i H; cbn [fold_left]; auto.
  destruct (lookup insts j) as [wj|] eqn:Ej; [|apply IH; auto].
  destruct (cw_close flush wj) as [w1 b]. apply IH. cbn. destruct (j =? i); [discriminate|auto].
Qed.

Lemma close_mapped_bound flush n : forall m insts out,
  (forall i w, lookup insts i = Some w -> i < n) -> (forall ch i, In (ch, i) m -> i < n) ->
  forall i w, lookup (fst (fold_left (fun '(insts, out) '(ch, j) =>
               match lookup insts j with
               | Some w => let '(w1, b) := cw_close flush w in ((j, w1) :: insts, emit out ch j b)
               | None => (insts, out)
               end) m (insts, out))) i = Some w -> i < n.
Proof.
  induction m as [|[ch j] m IH]; intros insts out H Hm i w; cbn [fold_left]; [apply H|].
  destruct (lookup insts j) as [wj|] eqn:Ej.
  - destruct (cw_close flush wj) as [w1 b]. apply IH.
    + intros i0 w0. cbn. destruct (j =? i0) eqn:E; [apply Nat.eqb_eq in E; subst; intros _; apply (Hm ch); left; auto|apply H].
    + intros ch0 i0 Hin. apply (Hm ch0). right; auto.
  - apply IH; auto. intros ch0 i0 Hin. apply (Hm ch0). right; auto.
Qed.

Lemma WFp_step cf s l s' : WFp s -> pstep cf s l = Some s' -> WFp s'.
Proof.
  intros (ND & Hm & Hi) H. unfold pstep in H. destruct l; cbn [pstep_gen] in H.
  - destruct (lookup (p_refs s) t); [discriminate|].
    destruct (lookupN (p_map s) ch) as [j|] eqn:Ej; injection H as <-; unfold WFp; cbn.
    + auto.
    + split; [|split].
      * constructor; auto. intros Hin. apply in_map_iff in Hin. destruct Hin as ([c k] & E & Hk). cbn in E. subst k.
        destruct (Hm c _ Hk). lia.
      * intros c i [E|Hin].
        -- injection E as <- <-. rewrite Nat.eqb_refl. split; [lia|discriminate].
        -- destruct (Hm c i Hin) as (A & B). split; [lia|]. destruct (p_next s =? i); [discriminate|auto].
      * intros i w. destruct (p_next s =? i) eqn:E; [apply Nat.eqb_eq in E; lia|]. intros Hl. specialize (Hi i w Hl). lia.
  - destruct (lookup (p_refs s) t) as [[ch j]|]; [|discriminate].
    destruct (lookup (p_inst s) j) as [wj|] eqn:Ej; [|discriminate].
    destruct (cw_add_gen true (cf ch) (p_next s) wj x) as [[w1 b] armed]. injection H as <-. unfold WFp; cbn.
    split; auto. split.
    + intros c i Hin. destruct (Hm c i Hin) as (A & B). split; [destruct armed; lia|]. destruct (j =? i); [discriminate|auto].
    + intros i w. destruct (j =? i) eqn:E.
      * apply Nat.eqb_eq in E. subst. intros _. specialize (Hi _ _ Ej). destruct armed; lia.
      * intros Hl. specialize (Hi i w Hl). destruct armed; lia.
  - destruct (lookup (p_timers s) tm) as [j|]; [|discriminate].
    destruct (lookup (p_inst s) j) as [wj|] eqn:Ej; [|discriminate].
    destruct (cw_fire tm wj) as [w1 b]. injection H as <-. unfold WFp; cbn. split; auto. split.
    + intros c i Hin. destruct (Hm c i Hin) as (A & B). split; auto. destruct (j =? i); [discriminate|auto].
    + intros i w. destruct (j =? i) eqn:E; [apply Nat.eqb_eq in E; subst; intros _; apply (Hi _ _ Ej)|apply Hi].
  - destruct (lookup (p_timers s) tm) as [j|]; [|discriminate].
    destruct (lookup (p_inst s) j) as [wj|]; [|discriminate].
    destruct (cw_timer wj) as [t|]; [destruct (t =? tm); [discriminate|]|]; injection H as <-; unfold WFp; cbn; auto.
  - destruct (lookupN (p_map s) ch) as [j|] eqn:Ej.
    + destruct (lookup (p_inst s) j) as [wj|] eqn:Ew; [|discriminate].
      destruct (cw_close flush wj) as [w1 b]. injection H as <-. unfold WFp; cbn. split; [|split].
      * unfold removeN. apply NoDup_map_filter. exact ND.
      * intros c i Hin. unfold removeN in Hin. apply filter_In in Hin. destruct Hin as (Hin & _).
        destruct (Hm c i Hin) as (A & B). split; auto. destruct (j =? i); [discriminate|auto].
      * intros i w. destruct (j =? i) eqn:E; [apply Nat.eqb_eq in E; subst; intros _; apply (Hi _ _ Ew)|apply Hi].
    + injection H as <-. unfold WFp. auto.
  - destruct (close_mapped flush s) as [insts out] eqn:Ec. injection H as <-. unfold WFp; cbn.
    unfold close_mapped in Ec. split; auto. split.
    + intros c i Hin. destruct (Hm c i Hin) as (A & B). split; auto.
      pose proof (close_mapped_keeps flush (p_map s) (p_inst s) (p_out s) i B) as K. rewrite Ec in K. exact K.
    + intros i w Hl.
      pose proof (close_mapped_bound flush (p_next s) (p_map s) (p_inst s) (p_out s) Hi (fun c k Hk => proj1 (Hm c k Hk)) i w) as K.
      rewrite Ec in K. apply K. exact Hl.
Qed.

Lemma WFp_run cf sched : forall s s', WFp s -> prun cf s sched = Some s' -> WFp s'.
Proof.
  unfold prun. induction sched as [|l sched IH]; intros s s' W; cbn [prun_gen].
  - intros [= <-]. auto.
  - destruct (pstep_gen true cf s l) as [s1|] eqn:E; [|discriminate]. intros H.
    eapply IH; [eapply WFp_step; eauto|exact H].
Qed.

Lemma cw_close_false_dead w : dead (fst (cw_close false w)) /\ cw_closed (fst (cw_close false w)) = true.
Proof. unfold cw_close, dead; cbn. auto. Qed.

(* "Nothing buffered for a channel is delivered after the subscription ended":
   once delWriter(ch, false) has run, the writer instance that served ch never calls flushFn again,
   whatever happens afterwards -- including perChannelWriter.Add calls that had obtained this instance
   before the delWriter and complete after it (their item is dropped by the closed writer). *)
Theorem nothing_after_unsubscribe cf sched1 s1 ch i s2 sched2 s3 :
  prun cf p_init sched1 = Some s1 ->
  lookupN (p_map s1) ch = Some i ->
  pstep cf s1 (PDel ch false) = Some s2 -> prun cf s2 sched2 = Some s3 ->
  out_of i (p_out s3) = out_of i (p_out s1).
Proof.
  intros H1 Hm H2 H3.
  pose proof (WFp_run cf sched1 _ _ WFp_init H1) as (ND & HM & HI).
  assert (Hin : In (ch, i) (p_map s1)) by (apply lookupN_mapped; auto).
  destruct (HM ch i Hin) as (Hlt & Hex).
  unfold pstep in H2. cbn [pstep_gen] in H2. rewrite Hm in H2. destruct (lookup (p_inst s1) i) as [w|] eqn:Ew; [|congruence].
  pose proof (cw_close_false_dead w) as (Hd & Hcl). destruct (cw_close false w) as [w1 b] eqn:Ec. cbn in Hd, Hcl.
  assert (b = None) by (unfold cw_close in Ec; cbn in Ec; congruence). subst b.
  injection H2 as <-.
  assert (Hs : silent (mkP (removeN (p_map s1) ch) ((i, w1) :: p_inst s1) (p_ich s1) (p_refs s1) (p_timers s1)
                           (p_next s1) (emit (p_out s1) ch i None)) i).
  { unfold silent, mapped; cbn. rewrite Nat.eqb_refl. repeat split; auto.
    - (* no other channel maps to i *)
      clear - ND Hin. unfold removeN. induction (p_map s1) as [|[c k] m IH]; cbn; auto.
      cbn in ND. inversion ND; subst. destruct Hin as [E|Hin].
      + injection E as -> ->. rewrite N.eqb_refl. cbn.
        apply existsb_filter_false. destruct (existsb (fun ci => snd ci =? i) m) eqn:E; auto.
        apply existsb_exists in E. destruct E as ([c' k'] & Hk & Ek). cbn in Ek. apply Nat.eqb_eq in Ek. subst k'.
        exfalso. apply H1. apply in_map_iff. exists (c', i). auto.
      + destruct (N.eqb c ch); cbn; [apply IH; auto|].
        replace (k =? i) with false; [apply IH; auto|]. symmetry. apply Nat.eqb_neq. intros ->.
        apply H1. apply in_map_iff. exists (ch, i). auto.
    - exists w1. auto. }
  destruct (silent_run cf sched2 _ s3 i Hs H3) as (_ & O). rewrite O. reflexivity.
Qed.

(* Close(false) empties every writer that is in the map *)
Lemma close_mapped_dead : forall m insts out,
  NoDup (map snd m) -> (forall ch i, In (ch, i) m -> lookup insts i <> None) ->
  forall ch i, In (ch, i) m ->
  exists w, lookup (fst (fold_left (fun '(insts, out) '(ch, j) =>
               match lookup insts j with
               | Some w => let '(w1, b) := cw_close false w in ((j, w1) :: insts, emit out ch j b)
               | None => (insts, out)
               end) m (insts, out))) i = Some w /\ dead w.
Proof.
  induction m as [|[c j] m IH]; intros insts out ND Hex ch i Hin; [contradiction|]. cbn [fold_left].
  cbn in ND. inversion ND; subst.
  destruct (lookup insts j) as [wj|] eqn:Ej; [|exfalso; apply (Hex c j); [left; auto|exact Ej]].
  destruct (cw_close false wj) as [w1 b] eqn:Ec.
  destruct Hin as [E|Hin].
  - injection E as -> ->.
    assert (Hni : existsb (fun ci => snd ci =? i) m = false).
    { destruct (existsb (fun ci => snd ci =? i) m) eqn:E; auto. apply existsb_exists in E.
      destruct E as ([c' k'] & Hk & Ek). cbn in Ek. apply Nat.eqb_eq in Ek. subst k'.
      exfalso. apply H1. apply in_map_iff. exists (c', i). auto. }
    destruct (close_mapped_other false i m ((i, w1) :: insts) (emit out ch i b) w1 Hni) as (A & _).
    { cbn. rewrite Nat.eqb_refl. reflexivity. }
    exists w1. split; [exact A|]. pose proof (cw_close_false_dead wj) as (D & _). rewrite Ec in D. exact D.
  - apply IH with (ch := ch); auto. intros c0 i0 Hin0. cbn. destruct (j =? i0); [discriminate|]. apply (Hex c0). right; auto.
Qed.

Theorem close_clears cf sched s s' :
  prun cf p_init sched = Some s -> pstep cf s (PClose false) = Some s' ->
  forall ch i, In (ch, i) (p_map s') -> exists w, lookup (p_inst s') i = Some w /\ dead w.
Proof.
  intros H1 H2 ch i Hin. pose proof (WFp_run cf sched _ _ WFp_init H1) as (ND & HM & HI).
  unfold pstep in H2. cbn [pstep_gen] in H2. destruct (close_mapped false s) as [insts out] eqn:Ec. injection H2 as <-. cbn in *.
  unfold close_mapped in Ec.
  destruct (close_mapped_dead (p_map s) (p_inst s) (p_out s) ND (fun c k Hk => proj2 (HM c k Hk)) ch i Hin) as (w & A & D).
  rewrite Ec in A. eauto.
Qed.
