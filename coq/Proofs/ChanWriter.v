(* Proofs for per-channel batching (C13). *)
From Coq Require Import List NArith ZArith Bool Arith Lia.
From Cfg Require Import Model.ChanWriter Model.ChanWriterSpec.
Import ListNotations.

(* ---------------------------------------------------------------- coalescing *)
Fixpoint has_key (k : N) (l : list citem) : bool :=
  match l with [] => false | y :: l' => N.eqb (ci_key y) k || has_key k l' end.

Lemma has_key_existsb k l : existsb (fun y => N.eqb (ci_key y) k) l = has_key k l.
Proof. induction l; cbn; auto. rewrite IHl. reflexivity. Qed.

(* keys pairwise distinct *)
Fixpoint keys_distinct (l : list citem) : Prop :=
  match l with [] => True | x :: l' => has_key (ci_key x) l' = false /\ keys_distinct l' end.

Lemma has_key_app k a b : has_key k (a ++ b) = has_key k a || has_key k b.
Proof. induction a; cbn; auto. rewrite IHa. apply orb_assoc. Qed.

Lemma remove_key_absent k l : has_key k l = false -> remove_key k l = l.
Proof.
  induction l as [|x l IH]; cbn [has_key remove_key]; auto. intros H. apply orb_false_iff in H. destruct H as [H1 H2].
  rewrite H1. f_equal. auto.
Qed.

Lemma has_key_remove_other k k' l : k <> k' -> has_key k' (remove_key k l) = has_key k' l.
Proof.
  intros Hk. induction l as [|x l IH]; cbn [has_key remove_key]; auto.
  destruct (N.eqb (ci_key x) k) eqn:E.
  - apply N.eqb_eq in E. destruct (N.eqb (ci_key x) k') eqn:E'; auto. apply N.eqb_eq in E'. congruence.
  - cbn [has_key]. rewrite IH. reflexivity.
Qed.

Lemma keys_distinct_remove k l : keys_distinct l -> keys_distinct (remove_key k l).
Proof.
  induction l as [|x l IH]; cbn [keys_distinct remove_key]; auto. intros (H1 & H2).
  destruct (N.eqb (ci_key x) k) eqn:E; auto. cbn [keys_distinct]. split; auto.
  apply N.eqb_neq in E. rewrite has_key_remove_other; auto.
Qed.

Lemma newest_has_key k l : has_key k l = false -> has_key k (newest l) = false.
Proof.
  induction l as [|z l IH]; cbn [has_key newest]; auto. intros H.
  apply orb_false_iff in H. destruct H as [E1 E2].
  destruct (existsb (fun y0 => N.eqb (ci_key y0) (ci_key z)) l); auto. cbn [has_key]. rewrite E1. auto.
Qed.

(* the code's coalescing step computes the specification's "newest per key" *)
Lemma newest_snoc l x :
  newest (l ++ [x]) = remove_key (ci_key x) (newest l) ++ [x] /\ keys_distinct (newest l).
Proof.
  induction l as [|y l (IH1 & IH2)]; cbn [app newest remove_key keys_distinct]; auto.
  rewrite !has_key_existsb, has_key_app. cbn [has_key]. rewrite orb_false_r.
  destruct (has_key (ci_key y) l) eqn:E; cbn [orb].
  - split; auto.
  - destruct (N.eqb (ci_key x) (ci_key y)) eqn:Exy; cbn [remove_key keys_distinct].
    + rewrite N.eqb_sym, Exy. apply N.eqb_eq in Exy. split.
      * rewrite IH1. f_equal. apply remove_key_absent. rewrite Exy. apply newest_has_key; auto.
      * split; auto. apply newest_has_key; auto.
    + rewrite N.eqb_sym, Exy. rewrite IH1. split; [reflexivity|]. split; auto. apply newest_has_key; auto.
Qed.

(* ---------------------------------------------------------------- one channelWriter *)
Definition Rel (c : bcfg) (w : cw) (pending : list citem) : Prop :=
  cw_buf w = (if b_latest c then nonpubs pending else pending) /\
  cw_lat w = (if b_latest c then newest (pubs pending) else []) /\
  (pending <> [] -> cw_latestOnly w = b_latest c).

Lemma pubs_app a b : pubs (a ++ b) = pubs a ++ pubs b.
Proof. apply filter_app. Qed.
Lemma nonpubs_app a b : nonpubs (a ++ b) = nonpubs a ++ nonpubs b.
Proof. apply filter_app. Qed.

Lemma Rel_new c : Rel c cw_new [].
Proof. unfold Rel, cw_new; cbn. destruct (b_latest c); repeat split; auto; congruence. Qed.

Lemma Rel_timer c w p t cl : Rel c w p -> Rel c (mkCw (cw_buf w) (cw_lat w) t (cw_latestOnly w) cl) p.
Proof. intros H. exact H. Qed.

Lemma Rel_empty c t o cl : Rel c (mkCw [] [] t o cl) [].
Proof. unfold Rel; cbn. destruct (b_latest c); repeat split; auto; congruence. Qed.

Lemma flush_rel c w p : Rel c w p ->
  match cw_flush w with
  | (w', Some batch) => batch = flush_spec (b_latest c) p /\ Rel c w' [] /\ cw_timer w' = cw_timer w /\ cw_closed w' = cw_closed w
  | (w', None) => w' = w /\ flush_spec (b_latest c) p = []
  end.
Proof.
  intros (Hb & Hl & Ho). unfold cw_flush, flush_spec.
  destruct (cw_buf w) as [|b0 bs] eqn:Eb; destruct (cw_lat w) as [|l0 ls] eqn:El.
  - split; auto. destruct (b_latest c); [rewrite <- Hb, <- Hl|rewrite <- Hb]; reflexivity.
  - destruct (b_latest c) eqn:Ec; [|discriminate].
    assert (Hp : p <> []) by (intros ->; cbn in Hl; discriminate).
    rewrite (Ho Hp). cbn. rewrite <- Hb, <- Hl. split; [reflexivity|]. split; [apply Rel_empty|split; reflexivity].
  - cbn. rewrite andb_false_r. destruct (b_latest c) eqn:Ec.
    + rewrite <- Hb, <- Hl, app_nil_r. split; [reflexivity|]. split; [apply Rel_empty|split; reflexivity].
    + rewrite <- Hb. split; [reflexivity|]. split; [apply Rel_empty|split; reflexivity].
  - destruct (b_latest c) eqn:Ec; [|discriminate].
    assert (Hp : p <> []) by (intros ->; cbn in Hl; discriminate).
    rewrite (Ho Hp). cbn. rewrite <- Hb, <- Hl. split; [reflexivity|]. split; [apply Rel_empty|split; reflexivity].
Qed.

Lemma add_closed c tm w x : cw_closed w = true -> cw_add c tm w x = (w, None, false).
Proof. intros H. unfold cw_add, cw_add_gen. rewrite H. reflexivity. Qed.

Lemma add_rel c tm w p x : Rel c w p ->
  match cw_add c tm w x with
  | (w', Some batch, _) => cw_closed w = false /\ batch = flush_spec (b_latest c) (p ++ [x]) /\ Rel c w' [] /\ cw_closed w' = false
  | (w', None, _) => Rel c w' (if cw_closed w then p else p ++ [x]) /\ cw_closed w' = cw_closed w
  end.
Proof.
  intros R. destruct (cw_closed w) eqn:Ecl.
  { rewrite add_closed by auto. rewrite Ecl. auto. }
  destruct R as (Hb & Hl & Ho). unfold cw_add, cw_add_gen. rewrite Ecl. cbn [andb].
  set (bl := if b_latest c && ci_pub x then (cw_buf w, remove_key (ci_key x) (cw_lat w) ++ [x])
             else (cw_buf w ++ [x], cw_lat w)).
  assert (R1 : forall t, Rel c (mkCw (fst bl) (snd bl) t (b_latest c) false) (p ++ [x])).
  { intros t. unfold Rel; cbn [cw_buf cw_lat cw_latestOnly]. subst bl.
    rewrite pubs_app, nonpubs_app. unfold pubs at 2, nonpubs at 2. cbn [filter].
    destruct (b_latest c) eqn:Ec; destruct (ci_pub x) eqn:Ex; cbn [andb negb fst snd].
    - rewrite Hb, Hl, app_nil_r. destruct (newest_snoc (pubs p) x) as (N1 & _). rewrite N1. repeat split; auto.
    - rewrite Hb, Hl, app_nil_r. repeat split; auto.
    - rewrite Hb, Hl. repeat split; auto.
    - rewrite Hb, Hl. repeat split; auto. }
  destruct bl as [buf lat] eqn:Ebl. cbn [fst snd] in R1.
  set (arm := b_delay c && (length buf + length lat =? 1) && match cw_timer w with None => true | Some _ => false end).
  destruct ((0 <? b_max c)%Z && (b_max c <=? Z.of_nat (length buf + length lat))%Z).
  - pose proof (flush_rel c (cw_stop (mkCw buf lat (if arm then Some tm else cw_timer w) (b_latest c) false)) (p ++ [x]) (R1 None)) as F.
    destruct (cw_flush _) as [w2 [batch|]].
    + destruct F as (F1 & F2 & _ & F4). auto.
    + destruct F as (-> & _). split; [apply (R1 None)|reflexivity].
  - split; [apply R1|reflexivity].
Qed.

Lemma fire_rel c tm w p : Rel c w p ->
  match cw_fire tm w with
  | (w', Some batch) => batch = flush_spec (b_latest c) p /\ Rel c w' []
  | (w', None) => Rel c w' p
  end.
Proof.
  intros R. unfold cw_fire. destruct (cw_timer w) as [t|]; [|exact R].
  destruct (t =? tm); [|exact R].
  pose proof (flush_rel c w p R) as F. destruct (cw_flush w) as [w1 [batch|]].
  - destruct F as (F1 & F2 & _). split; auto.
  - destruct F as (-> & _). exact R.
Qed.

Lemma fire_closed tm w : cw_closed (fst (cw_fire tm w)) = cw_closed w.
Proof.
  unfold cw_fire. destruct (cw_timer w) as [t|]; auto. destruct (t =? tm); auto.
  unfold cw_flush. destruct (cw_buf w), (cw_lat w); reflexivity.
Qed.

Lemma close_rel c f w p : Rel c w p ->
  match cw_close f w with
  | (w', Some batch) => f = true /\ batch = flush_spec (b_latest c) p /\ Rel c w' []
  | (w', None) => Rel c w' []
  end.
Proof.
  intros R. unfold cw_close.
  assert (RN : forall t o cl, Rel c (mkCw [] [] t o cl) []) by (intros; apply Rel_empty).
  destruct f.
  - pose proof (flush_rel c (cw_stop w) p R) as F. destruct (cw_flush (cw_stop w)) as [w1 [batch|]].
    + destruct F as (F1 & _). split; [reflexivity|]. split; [exact F1|apply RN].
    + apply RN.
  - apply RN.
Qed.

(* every batch a channelWriter hands to flushFn is the specification's flush of exactly the items added
   since its previous flush / close; Close(false) forgets them *)
Fixpoint check_run (c : bcfg) (st : cw * nat) (pending : list citem) (ops : list cwop) : Prop :=
  match ops with
  | [] => True
  | o :: ops' =>
      let '(st', b) := cwop_step c st o in
      let pending1 := match o with
                      | CAdd x => if cw_closed (fst st) then pending else pending ++ [x]   (* a closed writer drops the item *)
                      | _ => pending end in
      match b with
      | Some batch => batch = flush_spec (b_latest c) pending1 /\ check_run c st' [] ops'
      | None => check_run c st' (match o with CClose _ => [] | _ => pending1 end) ops'
      end
  end.

Lemma check_run_ok c ops : forall st pending, Rel c (fst st) pending -> check_run c st pending ops.
Proof.
  induction ops as [|o ops IH]; intros [w n] p R; cbn [check_run]; auto. cbn [fst] in R.
  destruct o as [x|tm|f]; cbn [cwop_step].
  - pose proof (add_rel c n w p x R) as A. destruct (cw_add c n w x) as [[w1 b] armed].
    destruct b as [batch|].
    + destruct A as (A0 & A1 & A2 & _). cbn [fst]. rewrite A0. split; auto.
    + destruct A as (A1 & _). cbn [fst]. apply IH; auto.
  - pose proof (fire_rel c tm w p R) as A. destruct (cw_fire tm w) as [w1 b].
    destruct b as [batch|]; [destruct A as (A1 & A2); split; auto|]; apply IH; auto.
  - pose proof (close_rel c f w p R) as A. destruct (cw_close f w) as [w1 b].
    destruct b as [batch|]; [destruct A as (_ & A1 & A2); split; auto|]; apply IH; auto.
Qed.

Theorem instance_spec c ops : check_run c (cw_new, 0) [] ops.
Proof. apply check_run_ok. apply Rel_new. Qed.

(* a timer goroutine whose timer is no longer the active one does nothing *)
Lemma stale_fire tm w : cw_timer w <> Some tm -> cw_fire tm w = (w, None).
Proof.
  intros H. unfold cw_fire. destruct (cw_timer w) as [t|]; auto.
  destruct (t =? tm) eqn:E; auto. apply Nat.eqb_eq in E. subst. congruence.
Qed.

(* ---------------------------------------------------------------- perChannelWriter *)
Definition dead (w : cw) : Prop := cw_buf w = [] /\ cw_lat w = [] /\ cw_timer w = None.
Definition mapped (s : pst) (i : nat) : bool := existsb (fun ci => snd ci =? i) (p_map s).
Definition referenced (s : pst) (i : nat) : bool := existsb (fun r => snd (snd r) =? i) (p_refs s).
Definition out_of (i : nat) (out : list (N * nat * list citem)) := filter (fun e => snd (fst e) =? i) out.

(* instance i exists, is in nobody's hands and holds nothing *)
Definition silent (s : pst) (i : nat) : Prop :=
  i < p_next s /\ mapped s i = false /\
  exists w, lookup (p_inst s) i = Some w /\ dead w /\ cw_closed w = true.

Lemma lookupN_mapped {A} (l : list (N * A)) ch v : lookupN l ch = Some v -> In (ch, v) l.
Proof.
  induction l as [|[k x] l IH]; cbn; [discriminate|]. destruct (N.eqb k ch) eqn:E.
  - apply N.eqb_eq in E. intros [= ->]. subst. auto.
  - auto.
Qed.

Lemma mapped_in s ch i : In (ch, i) (p_map s) -> mapped s i = true.
Proof. intros H. unfold mapped. apply existsb_exists. exists (ch, i). cbn. rewrite Nat.eqb_refl. auto. Qed.

Lemma lookup_in {A} (l : list (nat * A)) k v : lookup l k = Some v -> In (k, v) l.
Proof.
  induction l as [|[k' x] l IH]; cbn; [discriminate|]. destruct (k' =? k) eqn:E.
  - apply Nat.eqb_eq in E. intros [= ->]. subst. auto.
  - auto.
Qed.

Lemma referenced_in s t ch i : In (t, (ch, i)) (p_refs s) -> referenced s i = true.
Proof. intros H. unfold referenced. apply existsb_exists. exists (t, (ch, i)). cbn. rewrite Nat.eqb_refl. auto. Qed.

Lemma existsb_filter_false {A} (f g : A -> bool) l : existsb f l = false -> existsb f (filter g l) = false.
Proof.
  induction l as [|x l IH]; cbn; auto. intros H. apply orb_false_iff in H. destruct H as [H1 H2].
  destruct (g x); cbn; rewrite ?H1; auto.
Qed.

Lemma out_of_emit i out ch j b : j <> i -> out_of i (emit out ch j b) = out_of i out.
Proof.
  intros H. destruct b; cbn; auto. unfold out_of. rewrite filter_app. cbn.
  replace (j =? i) with false by (symmetry; apply Nat.eqb_neq; auto). apply app_nil_r.
Qed.

(* Close visits the mapped instances only *)
Lemma close_mapped_other flush i : forall m insts out w,
  existsb (fun ci => snd ci =? i) m = false -> lookup insts i = Some w ->
  let r := fold_left (fun '(insts, out) '(ch, j) =>
               match lookup insts j with
               | Some w => let '(w1, b) := cw_close flush w in ((j, w1) :: insts, emit out ch j b)
               | None => (insts, out)
               end) m (insts, out) in
  lookup (fst r) i = Some w /\ out_of i (snd r) = out_of i out.
Proof.
  induction m as [|[ch j] m IH]; intros insts out w Hm Hl; cbn [fold_left]; auto.
  cbn in Hm. apply orb_false_iff in Hm. destruct Hm as [Hj Hm]. apply Nat.eqb_neq in Hj.
  destruct (lookup insts j) as [wj|] eqn:Ej.
  - destruct (cw_close flush wj) as [w1 b] eqn:Ec.
    destruct (IH ((j, w1) :: insts) (emit out ch j b) w Hm) as (A & B).
    { cbn. replace (j =? i) with false by (symmetry; apply Nat.eqb_neq; auto). exact Hl. }
    split; auto. rewrite B. apply out_of_emit; auto.
  - apply IH; auto.
Qed.

(* a silent instance stays silent and emits nothing, whatever happens -- including the second half of
   an Add call that obtained it before it was closed *)
Lemma silent_step cf s l s' i : silent s i -> pstep cf s l = Some s' ->
  silent s' i /\ out_of i (p_out s') = out_of i (p_out s).
Proof.
  intros (Hlt & Hm & w & Hw & Hd & Hcl) H. unfold pstep in H. destruct l; cbn [pstep_gen] in H.
  - (* PGet *)
    destruct (lookup (p_refs s) t); [discriminate|].
    destruct (lookupN (p_map s) ch) as [j|] eqn:Ej; injection H as <-; cbn.
    + split; auto. unfold silent, mapped in *; cbn. repeat split; auto. eauto.
    + split; auto. unfold silent, mapped in *; cbn.
      replace (p_next s =? i) with false by (symmetry; apply Nat.eqb_neq; lia).
      repeat split; auto. exists w. auto.
  - (* PAdd *)
    destruct (lookup (p_refs s) t) as [[ch j]|] eqn:Et; [|discriminate].
    destruct (lookup (p_inst s) j) as [wj|] eqn:Ej; [|discriminate].
    destruct (Nat.eq_dec j i) as [->|Hji].
    + rewrite Hw in Ej. injection Ej as <-. fold (cw_add (cf ch) (p_next s) w x) in H.
      rewrite add_closed in H by auto. injection H as <-. cbn. split; auto.
      unfold silent, mapped; cbn. rewrite Nat.eqb_refl. repeat split; auto. exists w. auto.
    + destruct (cw_add_gen true (cf ch) (p_next s) wj x) as [[w1 b] armed]. injection H as <-.
      cbn. split; [|apply out_of_emit; auto].
      unfold silent, mapped in *; cbn.
      replace (j =? i) with false by (symmetry; apply Nat.eqb_neq; auto).
      repeat split; auto; [destruct armed; lia|eauto].
  - (* PFire *)
    destruct (lookup (p_timers s) tm) as [j|]; [|discriminate].
    destruct (lookup (p_inst s) j) as [wj|] eqn:Ej; [|discriminate].
    destruct (Nat.eq_dec j i) as [->|Hji].
    + rewrite Hw in Ej. injection Ej as <-. destruct Hd as (D1 & D2 & D3).
      rewrite stale_fire in H by (rewrite D3; discriminate). injection H as <-. cbn.
      split; auto. unfold silent, mapped; cbn. rewrite Nat.eqb_refl.
      repeat split; auto. exists w. repeat split; auto.
    + destruct (cw_fire tm wj) as [w1 b]. injection H as <-. cbn. split; [|apply out_of_emit; auto].
      unfold silent, mapped in *; cbn.
      replace (j =? i) with false by (symmetry; apply Nat.eqb_neq; auto). repeat split; auto. eauto.
  - (* PCancelled *)
    destruct (lookup (p_timers s) tm) as [j|]; [|discriminate].
    destruct (lookup (p_inst s) j) as [wj|]; [|discriminate].
    destruct (cw_timer wj) as [t|]; [destruct (t =? tm); [discriminate|]|]; injection H as <-; cbn;
      (split; auto; unfold silent, mapped in *; cbn; repeat split; auto; eauto).
  - (* PDel *)
    destruct (lookupN (p_map s) ch) as [j|] eqn:Ej.
    + destruct (lookup (p_inst s) j) as [wj|] eqn:Ew; [|discriminate].
      destruct (cw_close flush wj) as [w1 b]. injection H as <-.
      assert (Hji : j <> i).
      { intros ->. apply lookupN_mapped in Ej. apply mapped_in in Ej. congruence. }
      cbn. split; [|apply out_of_emit; auto].
      unfold silent, mapped in *; cbn.
      replace (j =? i) with false by (symmetry; apply Nat.eqb_neq; auto). repeat split; auto.
      * unfold removeN. apply existsb_filter_false. exact Hm.
      * eauto.
    + injection H as <-. split; auto. unfold silent. repeat split; auto. eauto.
  - (* PClose *)
    destruct (close_mapped flush s) as [insts out] eqn:Ec. injection H as <-. cbn.
    unfold close_mapped in Ec.
    destruct (close_mapped_other flush i (p_map s) (p_inst s) (p_out s) w Hm Hw) as (A & B).
    rewrite Ec in A, B. cbn in A, B. split; auto.
    unfold silent, mapped in *; cbn. repeat split; auto. eauto.
Qed.

Lemma silent_run cf sched : forall s s' i, silent s i -> prun cf s sched = Some s' ->
  silent s' i /\ out_of i (p_out s') = out_of i (p_out s).
Proof.
  unfold prun. induction sched as [|l sched IH]; intros s s' i Hs; cbn [prun_gen].
  - intros [= <-]. auto.
  - destruct (pstep_gen true cf s l) as [s1|] eqn:E; [|discriminate]. intros H.
    destruct (silent_step cf s l s1 i Hs E) as (S1 & O1).
    destruct (IH s1 s' i S1 H) as (S2 & O2). split; auto. congruence.
Qed.

(* well-formedness of the tables *)
Definition WFp (s : pst) : Prop :=
  NoDup (map snd (p_map s)) /\
  (forall ch i, In (ch, i) (p_map s) -> i < p_next s /\ lookup (p_inst s) i <> None) /\
  (forall i w, lookup (p_inst s) i = Some w -> i < p_next s).

Lemma WFp_init : WFp p_init.
Proof. unfold WFp, p_init; cbn. repeat split; try constructor; try contradiction; discriminate. Qed.

Lemma in_filter_map {A} (f : N * A -> bool) l : incl (filter f l) l.
Proof. intros x H. apply filter_In in H. apply H. Qed.

Lemma NoDup_map_filter {A B} (g : A -> B) (f : A -> bool) l : NoDup (map g l) -> NoDup (map g (filter f l)).
Proof.
  induction l as [|x l IH]; cbn; auto. intros H. inversion H; subst. destruct (f x); cbn; auto.
  constructor; auto. intros Hin. apply H2. apply in_map_iff in Hin. destruct Hin as (y & E & Hy).
  apply filter_In in Hy. apply in_map_iff. exists y. split; auto. apply Hy.
Qed.

Lemma close_mapped_keeps flush : forall m insts out i,
  lookup insts i <> None ->
  lookup (fst (fold_left (fun '(insts, out) '(ch, j) =>
               match lookup insts j with
               | Some w => let '(w1, b) := cw_close flush w in ((j, w1) :: insts, emit out ch j b)
               | None => (insts, out)
               end) m (insts, out))) i <> None.
Proof.
  induction m as [|[ch j] m IH]; intros insts out i H; cbn [fold_left]; auto.
  destruct (lookup insts j) as [wj|] eqn:Ej; [|apply IH; auto].
  destruct (cw_close flush wj) as [w1 b]. apply IH. cbn. destruct (j =? i); [discriminate|auto].
Qed.

Lemma close_mapped_bound flush n : forall m insts out,
  (forall i w, lookup insts i = Some w -> i < n) -> (forall ch i, In (ch, i) m -> i < n) ->
  forall i w, lookup (fst (fold_left (fun '(insts, out) '(ch, j) =>
               match lookup insts j with
               | Some w => let '(w1, b) := cw_close flush w in ((j, w1) :: insts, emit out ch j b)
               | None => (insts, out)
               end) m (insts, out))) i = Some w -> i < n.
Proof.
  induction m as [|[ch j] m IH]; intros insts out H Hm i w; cbn [fold_left]; [apply H|].
  destruct (lookup insts j) as [wj|] eqn:Ej.
  - destruct (cw_close flush wj) as [w1 b]. apply IH.
    + intros i0 w0. cbn. destruct (j =? i0) eqn:E; [apply Nat.eqb_eq in E; subst; intros _; apply (Hm ch); left; auto|apply H].
    + intros ch0 i0 Hin. apply (Hm ch0). right; auto.
  - apply IH; auto. intros ch0 i0 Hin. apply (Hm ch0). right; auto.
Qed.

Lemma WFp_step cf s l s' : WFp s -> pstep cf s l = Some s' -> WFp s'.
Proof.
  intros (ND & Hm & Hi) H. unfold pstep in H. destruct l; cbn [pstep_gen] in H.
  - destruct (lookup (p_refs s) t); [discriminate|].
    destruct (lookupN (p_map s) ch) as [j|] eqn:Ej; injection H as <-; unfold WFp; cbn.
    + auto.
    + split; [|split].
      * constructor; auto. intros Hin. apply in_map_iff in Hin. destruct Hin as ([c k] & E & Hk). cbn in E. subst k.
        destruct (Hm c _ Hk). lia.
      * intros c i [E|Hin].
        -- injection E as <- <-. rewrite Nat.eqb_refl. split; [lia|discriminate].
        -- destruct (Hm c i Hin) as (A & B). split; [lia|]. destruct (p_next s =? i); [discriminate|auto].
      * intros i w. destruct (p_next s =? i) eqn:E; [apply Nat.eqb_eq in E; lia|]. intros Hl. specialize (Hi i w Hl). lia.
  - destruct (lookup (p_refs s) t) as [[ch j]|]; [|discriminate].
    destruct (lookup (p_inst s) j) as [wj|] eqn:Ej; [|discriminate].
    destruct (cw_add_gen true (cf ch) (p_next s) wj x) as [[w1 b] armed]. injection H as <-. unfold WFp; cbn.
    split; auto. split.
    + intros c i Hin. destruct (Hm c i Hin) as (A & B). split; [destruct armed; lia|]. destruct (j =? i); [discriminate|auto].
    + intros i w. destruct (j =? i) eqn:E.
      * apply Nat.eqb_eq in E. subst. intros _. specialize (Hi _ _ Ej). destruct armed; lia.
      * intros Hl. specialize (Hi i w Hl). destruct armed; lia.
  - destruct (lookup (p_timers s) tm) as [j|]; [|discriminate].
    destruct (lookup (p_inst s) j) as [wj|] eqn:Ej; [|discriminate].
    destruct (cw_fire tm wj) as [w1 b]. injection H as <-. unfold WFp; cbn. split; auto. split.
    + intros c i Hin. destruct (Hm c i Hin) as (A & B). split; auto. destruct (j =? i); [discriminate|auto].
    + intros i w. destruct (j =? i) eqn:E; [apply Nat.eqb_eq in E; subst; intros _; apply (Hi _ _ Ej)|apply Hi].
  - destruct (lookup (p_timers s) tm) as [j|]; [|discriminate].
    destruct (lookup (p_inst s) j) as [wj|]; [|discriminate].
    destruct (cw_timer wj) as [t|]; [destruct (t =? tm); [discriminate|]|]; injection H as <-; unfold WFp; cbn; auto.
  - destruct (lookupN (p_map s) ch) as [j|] eqn:Ej.
    + destruct (lookup (p_inst s) j) as [wj|] eqn:Ew; [|discriminate].
      destruct (cw_close flush wj) as [w1 b]. injection H as <-. unfold WFp; cbn. split; [|split].
      * unfold removeN. apply NoDup_map_filter. exact ND.
      * intros c i Hin. unfold removeN in Hin. apply filter_In in Hin. destruct Hin as (Hin & _).
        destruct (Hm c i Hin) as (A & B). split; auto. destruct (j =? i); [discriminate|auto].
      * intros i w. destruct (j =? i) eqn:E; [apply Nat.eqb_eq in E; subst; intros _; apply (Hi _ _ Ew)|apply Hi].
    + injection H as <-. unfold WFp. auto.
  - destruct (close_mapped flush s) as [insts out] eqn:Ec. injection H as <-. unfold WFp; cbn.
    unfold close_mapped in Ec. split; auto. split.
    + intros c i Hin. destruct (Hm c i Hin) as (A & B). split; auto.
      pose proof (close_mapped_keeps flush (p_map s) (p_inst s) (p_out s) i B) as K. rewrite Ec in K. exact K.
    + intros i w Hl.
      pose proof (close_mapped_bound flush (p_next s) (p_map s) (p_inst s) (p_out s) Hi (fun c k Hk => proj1 (Hm c k Hk)) i w) as K.
      rewrite Ec in K. apply K. exact Hl.
Qed.

Lemma WFp_run cf sched : forall s s', WFp s -> prun cf s sched = Some s' -> WFp s'.
Proof.
  unfold prun. induction sched as [|l sched IH]; intros s s' W; cbn [prun_gen].
  - intros [= <-]. auto.
  - destruct (pstep_gen true cf s l) as [s1|] eqn:E; [|discriminate]. intros H.
    eapply IH; [eapply WFp_step; eauto|exact H].
Qed.

Lemma cw_close_false_dead w : dead (fst (cw_close false w)) /\ cw_closed (fst (cw_close false w)) = true.
Proof. unfold cw_close, dead; cbn. auto. Qed.

(* "Nothing buffered for a channel is delivered after the subscription ended":
   once delWriter(ch, false) has run, the writer instance that served ch never calls flushFn again,
   whatever happens afterwards -- including perChannelWriter.Add calls that had obtained this instance
   before the delWriter and complete after it (their item is dropped by the closed writer). *)
Theorem nothing_after_unsubscribe cf sched1 s1 ch i s2 sched2 s3 :
  prun cf p_init sched1 = Some s1 ->
  lookupN (p_map s1) ch = Some i ->
  pstep cf s1 (PDel ch false) = Some s2 -> prun cf s2 sched2 = Some s3 ->
  out_of i (p_out s3) = out_of i (p_out s1).
Proof.
  intros H1 Hm H2 H3.
  pose proof (WFp_run cf sched1 _ _ WFp_init H1) as (ND & HM & HI).
  assert (Hin : In (ch, i) (p_map s1)) by (apply lookupN_mapped; auto).
  destruct (HM ch i Hin) as (Hlt & Hex).
  unfold pstep in H2. cbn [pstep_gen] in H2. rewrite Hm in H2. destruct (lookup (p_inst s1) i) as [w|] eqn:Ew; [|congruence].
  pose proof (cw_close_false_dead w) as (Hd & Hcl). destruct (cw_close false w) as [w1 b] eqn:Ec. cbn in Hd, Hcl.
  assert (b = None) by (unfold cw_close in Ec; cbn in Ec; congruence). subst b.
  injection H2 as <-.
  assert (Hs : silent (mkP (removeN (p_map s1) ch) ((i, w1) :: p_inst s1) (p_ich s1) (p_refs s1) (p_timers s1)
                           (p_next s1) (emit (p_out s1) ch i None)) i).
  { unfold silent, mapped; cbn. rewrite Nat.eqb_refl. repeat split; auto.
    - (* no other channel maps to i *)
      clear - ND Hin. unfold removeN. induction (p_map s1) as [|[c k] m IH]; cbn; auto.
      cbn in ND. inversion ND; subst. destruct Hin as [E|Hin].
      + injection E as -> ->. rewrite N.eqb_refl. cbn.
        apply existsb_filter_false. destruct (existsb (fun ci => snd ci =? i) m) eqn:E; auto.
        apply existsb_exists in E. destruct E as ([c' k'] & Hk & Ek). cbn in Ek. apply Nat.eqb_eq in Ek. subst k'.
        exfalso. apply H1. apply in_map_iff. exists (c', i). auto.
      + destruct (N.eqb c ch); cbn; [apply IH; auto|].
        replace (k =? i) with false; [apply IH; auto|]. symmetry. apply Nat.eqb_neq. intros ->.
        apply H1. apply in_map_iff. exists (ch, i). auto.
    - exists w1. auto. }
  destruct (silent_run cf sched2 _ s3 i Hs H3) as (_ & O). rewrite O. reflexivity.
Qed.

(* Close(false) empties every writer that is in the map *)
Lemma close_mapped_dead : forall m insts out,
  NoDup (map snd m) -> (forall ch i, In (ch, i) m -> lookup insts i <> None) ->
  forall ch i, In (ch, i) m ->
  exists w, lookup (fst (fold_left (fun '(insts, out) '(ch, j) =>
               match lookup insts j with
               | Some w => let '(w1, b) := cw_close false w in ((j, w1) :: insts, emit out ch j b)
               | None => (insts, out)
               end) m (insts, out))) i = Some w /\ dead w.
Proof.
  induction m as [|[c j] m IH]; intros insts out ND Hex ch i Hin; [contradiction|]. cbn [fold_left].
  cbn in ND. inversion ND; subst.
  destruct (lookup insts j) as [wj|] eqn:Ej; [|exfalso; apply (Hex c j); [left; auto|exact Ej]].
  destruct (cw_close false wj) as [w1 b] eqn:Ec.
  destruct Hin as [E|Hin].
  - injection E as -> ->.
    assert (Hni : existsb (fun ci => snd ci =? i) m = false).
    { destruct (existsb (fun ci => snd ci =? i) m) eqn:E; auto. apply existsb_exists in E.
      destruct E as ([c' k'] & Hk & Ek). cbn in Ek. apply Nat.eqb_eq in Ek. subst k'.
      exfalso. apply H1. apply in_map_iff. exists (c', i). auto. }
    destruct (close_mapped_other false i m ((i, w1) :: insts) (emit out ch i b) w1 Hni) as (A & _).
    { cbn. rewrite Nat.eqb_refl. reflexivity. }
    exists w1. split; [exact A|]. pose proof (cw_close_false_dead wj) as (D & _). rewrite Ec in D. exact D.
  - apply IH with (ch := ch); auto. intros c0 i0 Hin0. cbn. destruct (j =? i0); [discriminate|]. apply (Hex c0). right; auto.
Qed.

Theorem close_clears cf sched s s' :
  prun cf p_init sched = Some s -> pstep cf s (PClose false) = Some s' ->
  forall ch i, In (ch, i) (p_map s') -> exists w, lookup (p_inst s') i = Some w /\ dead w.
Proof.
  intros H1 H2 ch i Hin. pose proof (WFp_run cf sched _ _ WFp_init H1) as (ND & HM & HI).
  unfold pstep in H2. cbn [pstep_gen] in H2. destruct (close_mapped false s) as [insts out] eqn:Ec. injection H2 as <-. cbn in *.
  unfold close_mapped in Ec.
  destruct (close_mapped_dead (p_map s) (p_inst s) (p_out s) ND (fun c k Hk => proj2 (HM c k Hk)) ch i Hin) as (w & A & D).
  rewrite Ec in A. eauto.
Qed.

(* ---------------------------------------------------------------- the per-writer specification inside the perChannelWriter
   Ghost: for every writer instance, the items added to it (while open) since its last flush or close.
   Every batch any schedule makes any instance hand to flushFn is the specification's flush of that ghost. *)
Definition ghost := nat -> list citem.
Definition gset (g : ghost) (i : nat) (v : list citem) : ghost := fun j => if j =? i then v else g j.

Definition emitted (s s' : pst) : list (N * nat * list citem) := skipn (length (p_out s)) (p_out s').

(* the instance an Add of thread t goes to, and whether that instance accepts it *)
Definition add_target (s : pst) (t : nat) : option (nat * bool) :=
  match lookup (p_refs s) t with
  | Some (_, i) => match lookup (p_inst s) i with Some w => Some (i, negb (cw_closed w)) | None => None end
  | None => None
  end.

(* pending of instance j as seen by the step that is being taken *)
Definition gview (s : pst) (g : ghost) (l : plabel) (j : nat) : list citem :=
  match l with
  | PAdd t x => match add_target s t with
                | Some (i, true) => if j =? i then g j ++ [x] else g j
                | _ => g j
                end
  | _ => g j
  end.

Definition step_spec (cf : N -> bcfg) (s : pst) (g : ghost) (l : plabel) (s' : pst) : Prop :=
  forall ch j batch, In (ch, j, batch) (emitted s s') ->
    batch = flush_spec (b_latest (cf (chan_of s j))) (gview s g l j).

Definition closed_by (s : pst) (l : plabel) (j : nat) : bool :=
  match l with
  | PDel ch _ => match lookupN (p_map s) ch with Some i => j =? i | None => false end
  | PClose _ => mapped s j
  | _ => false
  end.

Definition gnext (s : pst) (g : ghost) (l : plabel) (s' : pst) : ghost :=
  fun j => if existsb (fun e => snd (fst e) =? j) (emitted s s') || closed_by s l j then []
           else gview s g l j.

Fixpoint gcheck (cf : N -> bcfg) (s : pst) (g : ghost) (sched : list plabel) : Prop :=
  match sched with
  | [] => True
  | l :: sched' =>
      match pstep cf s l with
      | Some s' => step_spec cf s g l s' /\ gcheck cf s' (gnext s g l s') sched'
      | None => True
      end
  end.

(* table consistency: an instance is only ever reached under the channel it was created for *)
Definition CI (s : pst) : Prop :=
  (forall t ch i, lookup (p_refs s) t = Some (ch, i) -> lookup (p_ich s) i = Some ch /\ lookup (p_inst s) i <> None) /\
  (forall ch i, In (ch, i) (p_map s) -> lookup (p_ich s) i = Some ch) /\
  (forall i ch, lookup (p_ich s) i = Some ch -> i < p_next s).

Definition GI (cf : N -> bcfg) (s : pst) (g : ghost) : Prop :=
  WFp s /\ CI s /\
  (forall i w, lookup (p_inst s) i = Some w -> Rel (cf (chan_of s i)) w (g i)) /\
  (forall i, lookup (p_inst s) i = None -> g i = []).

Lemma lookup_remove_k {A} (l : list (nat * A)) t t' : t <> t' -> lookup (remove_k l t) t' = lookup l t'.
Proof.
  intros Hne. unfold remove_k. induction l as [|[k v] l IH]; cbn; auto.
  destruct (k =? t) eqn:E; cbn.
  - apply Nat.eqb_eq in E. subst. replace (t =? t') with false by (symmetry; apply Nat.eqb_neq; auto). exact IH.
  - destruct (k =? t'); auto.
Qed.

Lemma lookup_remove_k_same {A} (l : list (nat * A)) t : lookup (remove_k l t) t = None.
Proof.
  unfold remove_k. induction l as [|[k x] l IH]; cbn; auto.
  destruct (k =? t) eqn:E; cbn; auto. rewrite E. exact IH.
Qed.

Lemma lookup_remove_k_some {A} (l : list (nat * A)) t t' v : lookup (remove_k l t) t' = Some v -> lookup l t' = Some v.
Proof.
  destruct (Nat.eq_dec t t') as [->|Hne]; [|rewrite lookup_remove_k; auto].
  rewrite lookup_remove_k_same. discriminate.
Qed.

Lemma emitted_emit s out' ch i b : out' = emit (p_out s) ch i b ->
  skipn (length (p_out s)) out' = match b with Some items => [(ch, i, items)] | None => [] end.
Proof.
  intros ->. destruct b; cbn.
  - rewrite skipn_app, Nat.sub_diag, skipn_all. reflexivity.
  - apply skipn_all.
Qed.

Lemma GI_init cf : GI cf p_init (fun _ => []).
Proof.
  split; [apply WFp_init|]. split.
  - unfold CI, p_init; cbn. repeat split; try discriminate; contradiction.
  - split; [intros i w H; discriminate|reflexivity].
Qed.

Lemma emitted_same s s' : p_out s' = p_out s -> emitted s s' = [].
Proof. intros H. unfold emitted. rewrite H. apply skipn_all. Qed.

(* Close: every mapped instance flushes (or not) according to the specification and ends empty *)
Definition cm_step (flush : bool) : list (nat * cw) * list (N * nat * list citem) -> N * nat ->
                                    list (nat * cw) * list (N * nat * list citem) :=
  fun '(insts, out) '(ch, j) =>
  match lookup insts j with
  | Some w => let '(w1, b) := cw_close flush w in ((j, w1) :: insts, emit out ch j b)
  | None => (insts, out)
  end.

Lemma close_mapped_cm flush s : close_mapped flush s = fold_left (cm_step flush) (p_map s) (p_inst s, p_out s).
Proof. reflexivity. Qed.

Lemma close_mapped_spec cf flush (g : ghost) : forall m insts out,
  NoDup (map snd m) ->
  (forall ch j, In (ch, j) m -> exists w, lookup insts j = Some w /\ Rel (cf ch) w (g j)) ->
  (forall j, existsb (fun ci => snd ci =? j) m = false ->
             lookup (fst (fold_left (cm_step flush) m (insts, out))) j = lookup insts j) /\
  (forall ch j, In (ch, j) m ->
             exists w', lookup (fst (fold_left (cm_step flush) m (insts, out))) j = Some w' /\ Rel (cf ch) w' []) /\
  exists E, snd (fold_left (cm_step flush) m (insts, out)) = out ++ E /\
            forall ch j batch, In (ch, j, batch) E -> In (ch, j) m /\ batch = flush_spec (b_latest (cf ch)) (g j).
Proof.
  induction m as [|[c j] m IH]; intros insts out ND Hex; cbn [fold_left].
  - split; [auto|]. split; [intros ? ? []|]. exists []. rewrite app_nil_r. split; auto. intros ? ? ? [].
  - cbn in ND. inversion ND as [|? ? Hnin ND']; subst.
    destruct (Hex c j (or_introl eq_refl)) as (wj & Ej & Rj).
    pose proof (close_rel (cf c) flush wj (g j) Rj) as CR.
    destruct (cw_close flush wj) as [w1 b] eqn:Ec.
    replace (cm_step flush (insts, out) (c, j)) with ((j, w1) :: insts, emit out c j b)
      by (unfold cm_step; rewrite Ej, Ec; reflexivity).
    assert (Hnj : existsb (fun ci => snd ci =? j) m = false).
    { destruct (existsb (fun ci => snd ci =? j) m) eqn:E; auto. apply existsb_exists in E.
      destruct E as ([c' k'] & Hk & Ek). cbn in Ek. apply Nat.eqb_eq in Ek. subst k'.
      exfalso. apply Hnin. apply in_map_iff. exists (c', j). auto. }
    destruct (IH ((j, w1) :: insts) (emit out c j b) ND') as (A & B & E & HE & HEin).
    { intros ch k Hin. destruct (Hex ch k (or_intror Hin)) as (wk & Ek & Rk). exists wk. split; auto.
      cbn. replace (j =? k) with false; auto. symmetry. apply Nat.eqb_neq. intros ->.
      apply Hnin. apply in_map_iff. exists (ch, k). auto. }
    split; [|split].
    + intros k Hk. cbn in Hk. apply orb_false_iff in Hk. destruct Hk as [Hjk Hk]. rewrite (A k Hk).
      cbn. rewrite Hjk. reflexivity.
    + intros ch k [Heq|Hin].
      * injection Heq as <- <-. rewrite (A j Hnj). cbn. rewrite Nat.eqb_refl. exists w1. split; auto.
        destruct b; [destruct CR as (_ & _ & R1)|]; auto.
      * apply B; auto.
    + destruct b as [batch|].
      * destruct CR as (_ & Hb & _). exists ((c, j, batch) :: E). rewrite HE. cbn [emit]. rewrite <- app_assoc. split; auto.
        intros ch k bt [Heq|Hin]; [injection Heq as <- <- <-; split; [left; auto|auto]|].
        destruct (HEin ch k bt Hin). split; auto. right; auto.
      * exists E. rewrite HE. cbn [emit]. split; auto. intros ch k bt Hin. destruct (HEin ch k bt Hin). split; auto. right; auto.
Qed.

Lemma chan_of_stable s s' i : p_ich s' = p_ich s -> chan_of s' i = chan_of s i.
Proof. intros H. unfold chan_of. rewrite H. reflexivity. Qed.

Ltac gi_simple_out :=
  match goal with |- context [emitted ?s ?s'] => rewrite (emitted_same s s') by reflexivity end.

Lemma gstep_ok cf s g l s' : GI cf s g -> pstep cf s l = Some s' ->
  step_spec cf s g l s' /\ GI cf s' (gnext s g l s').
Proof.
  intros (HW & (C1 & C2 & C3) & HR & HN) H.
  pose proof (WFp_step cf s l s' HW H) as HW'.
  unfold pstep in H. destruct l; cbn [pstep_gen] in H.
  - (* PGet *)
    destruct (lookup (p_refs s) t) eqn:Et; [discriminate|].
    destruct (lookupN (p_map s) ch) as [i|] eqn:Ei; injection H as <-.
    + split; [intros c j b Hin; rewrite emitted_same in Hin by reflexivity; destruct Hin|].
      split; [exact HW'|]. split; [|split].
      * unfold CI; cbn. split; [|split; auto].
        intros t0 c0 i0. destruct (t =? t0); [|apply C1].
        intros [= <- <-]. apply lookupN_mapped in Ei. split; [apply C2; auto|].
        destruct HW as (_ & HM & _). apply (HM ch i Ei).
      * intros j w Hl. unfold gnext. rewrite emitted_same by reflexivity. cbn. apply HR. exact Hl.
      * intros j Hl. unfold gnext. rewrite emitted_same by reflexivity. cbn. apply HN. exact Hl.
    + assert (Hfresh : lookup (p_inst s) (p_next s) = None).
      { destruct (lookup (p_inst s) (p_next s)) eqn:E; auto. destruct HW as (_ & _ & HI). specialize (HI _ _ E). lia. }
      split; [intros c j b Hin; rewrite emitted_same in Hin by reflexivity; destruct Hin|].
      split; [exact HW'|]. split; [|split].
      * unfold CI; cbn. split; [|split].
        -- intros t0 c0 i0. destruct (t =? t0).
           ++ intros [= <- <-]. rewrite Nat.eqb_refl. split; auto. discriminate.
           ++ intros Hl. destruct (C1 _ _ _ Hl) as (A & B). specialize (C3 _ _ A).
              replace (p_next s =? i0) with false by (symmetry; apply Nat.eqb_neq; lia). auto.
        -- intros c0 i0 [E|Hin].
           ++ injection E as <- <-. rewrite Nat.eqb_refl. reflexivity.
           ++ pose proof (C2 _ _ Hin) as A. specialize (C3 _ _ A).
              replace (p_next s =? i0) with false by (symmetry; apply Nat.eqb_neq; lia). exact A.
        -- intros i0 c0. destruct (p_next s =? i0) eqn:E; [apply Nat.eqb_eq in E; lia|].
           intros Hl. specialize (C3 _ _ Hl). lia.
      * intros j w. cbn [p_inst lookup]. unfold gnext. rewrite emitted_same by reflexivity. cbn [orb closed_by gview].
        destruct (p_next s =? j) eqn:E.
        -- apply Nat.eqb_eq in E. subst j. intros [= <-]. rewrite (HN _ Hfresh). apply Rel_new.
        -- intros Hl. unfold chan_of; cbn [p_ich lookup]. rewrite E. apply HR. exact Hl.
      * intros j. cbn [p_inst lookup]. unfold gnext. rewrite emitted_same by reflexivity. cbn [orb closed_by gview].
        destruct (p_next s =? j); [discriminate|]. apply HN.
  - (* PAdd *)
    destruct (lookup (p_refs s) t) as [[ch i]|] eqn:Et; [|discriminate].
    destruct (lookup (p_inst s) i) as [w|] eqn:Ei; [|discriminate].
    destruct (C1 _ _ _ Et) as (Hch & _).
    assert (Hc : chan_of s i = ch) by (unfold chan_of; rewrite Hch; reflexivity).
    pose proof (HR i w Ei) as R. rewrite Hc in R.
    pose proof (add_rel (cf ch) (p_next s) w (g i) x R) as A.
    fold (cw_add (cf ch) (p_next s) w x) in H.
    destruct (cw_add (cf ch) (p_next s) w x) as [[w1 b] armed] eqn:Ea. injection H as <-.
    assert (Ht : add_target s t = Some (i, negb (cw_closed w))) by (unfold add_target; rewrite Et, Ei; reflexivity).
    assert (Hem : emitted s (mkP (p_map s) ((i, w1) :: p_inst s) (p_ich s) (remove_k (p_refs s) t)
                               (if armed then (p_next s, i) :: p_timers s else p_timers s)
                               (if armed then S (p_next s) else p_next s) (emit (p_out s) ch i b))
                  = match b with Some items => [(ch, i, items)] | None => [] end).
    { unfold emitted. apply emitted_emit. reflexivity. }
    split.
    + intros c j bt Hin. rewrite Hem in Hin. destruct b as [items|]; [|destruct Hin].
      destruct Hin as [E|[]]. injection E as <- <- <-. destruct A as (A0 & A1 & _).
      rewrite Hc. cbn [gview]. rewrite Ht, A0. cbn [negb]. rewrite Nat.eqb_refl. exact A1.
    + split; [exact HW'|]. split; [|split].
      * unfold CI; cbn. split; [|split].
        -- intros t0 c0 i0 Hl. apply lookup_remove_k_some in Hl. destruct (C1 _ _ _ Hl) as (A1 & A2). split; auto.
           destruct (i =? i0); [discriminate|auto].
        -- exact C2.
        -- intros i0 c0 Hl. specialize (C3 _ _ Hl). destruct armed; lia.
      * intros j wj. cbn [p_inst lookup]. unfold gnext. rewrite Hem. cbn [closed_by orb gview]. rewrite Ht.
        rewrite (chan_of_stable s _ j) by reflexivity.
        destruct (i =? j) eqn:E.
        -- apply Nat.eqb_eq in E. subst j. intros [= <-]. rewrite Hc. rewrite Nat.eqb_refl.
           destruct b as [items|]; cbn [existsb fst snd].
           ++ rewrite Nat.eqb_refl. cbn. apply A.
           ++ cbn. destruct A as (A1 & _). destruct (cw_closed w); exact A1.
        -- intros Hl. rewrite Nat.eqb_sym in E.
           replace (existsb _ _) with false.
           ++ cbn. destruct (negb (cw_closed w)); rewrite ?E; apply HR; exact Hl.
           ++ destruct b; cbn; [rewrite Nat.eqb_sym, E|]; reflexivity.
      * intros j. cbn [p_inst lookup]. destruct (i =? j) eqn:E; [discriminate|]. intros Hl.
        unfold gnext. rewrite Hem. cbn [closed_by orb gview]. rewrite Ht. rewrite Nat.eqb_sym in E.
        replace (existsb _ _) with false by (destruct b; cbn; [rewrite Nat.eqb_sym, E|]; reflexivity).
        cbn. destruct (negb (cw_closed w)); rewrite ?E; apply HN; exact Hl.
  - (* PFire *)
    destruct (lookup (p_timers s) tm) as [i|]; [|discriminate].
    destruct (lookup (p_inst s) i) as [w|] eqn:Ei; [|discriminate].
    pose proof (fire_rel (cf (chan_of s i)) tm w (g i) (HR i w Ei)) as A.
    destruct (cw_fire tm w) as [w1 b] eqn:Ef. injection H as <-.
    assert (Hem : emitted s (mkP (p_map s) ((i, w1) :: p_inst s) (p_ich s) (p_refs s) (remove_k (p_timers s) tm)
                               (p_next s) (emit (p_out s) (chan_of s i) i b))
                  = match b with Some items => [(chan_of s i, i, items)] | None => [] end).
    { unfold emitted. apply emitted_emit. reflexivity. }
    split.
    + intros c j bt Hin. rewrite Hem in Hin. destruct b as [items|]; [|destruct Hin].
      destruct Hin as [E|[]]. injection E as <- <- <-. apply A.
    + split; [exact HW'|]. split; [|split].
      * unfold CI; cbn. split; [|split; auto].
        intros t0 c0 i0 Hl. destruct (C1 _ _ _ Hl) as (A1 & A2). split; auto. destruct (i =? i0); [discriminate|auto].
      * intros j wj. cbn [p_inst lookup]. unfold gnext. rewrite Hem. cbn [closed_by orb gview].
        rewrite (chan_of_stable s _ j) by reflexivity.
        destruct (i =? j) eqn:E.
        -- apply Nat.eqb_eq in E. subst j. intros [= <-].
           destruct b as [items|]; cbn [existsb fst snd]; [rewrite Nat.eqb_refl; cbn; apply A|cbn; exact A].
        -- intros Hl. replace (existsb _ _) with false by (destruct b; cbn; [rewrite E|]; reflexivity).
           cbn. apply HR; exact Hl.
      * intros j. cbn [p_inst lookup]. destruct (i =? j) eqn:E; [discriminate|]. intros Hl.
        unfold gnext. rewrite Hem. cbn [closed_by orb gview].
        replace (existsb _ _) with false by (destruct b; cbn; [rewrite E|]; reflexivity).
        cbn. apply HN; exact Hl.
  - (* PCancelled *)
    destruct (lookup (p_timers s) tm) as [i|]; [|discriminate].
    destruct (lookup (p_inst s) i) as [w|]; [|discriminate].
    assert (Hs : forall s1, s1 = mkP (p_map s) (p_inst s) (p_ich s) (p_refs s) (remove_k (p_timers s) tm) (p_next s) (p_out s) ->
              WFp s1 -> step_spec cf s g (PCancelled tm) s1 /\ GI cf s1 (gnext s g (PCancelled tm) s1)).
    { intros s1 -> HW1. split; [intros c j b Hin; rewrite emitted_same in Hin by reflexivity; destruct Hin|].
      split; [exact HW1|]. split; [unfold CI; cbn; auto|]. split.
      - intros j wj Hl. unfold gnext. rewrite emitted_same by reflexivity. cbn. apply HR. exact Hl.
      - intros j Hl. unfold gnext. rewrite emitted_same by reflexivity. cbn. apply HN. exact Hl. }
    destruct (cw_timer w) as [t0|]; [destruct (t0 =? tm); [discriminate|]|]; injection H as <-; apply Hs; auto.
  - (* PDel *)
    destruct (lookupN (p_map s) ch) as [i|] eqn:Em.
    + destruct (lookup (p_inst s) i) as [w|] eqn:Ei; [|discriminate].
      pose proof (lookupN_mapped _ _ _ Em) as Hin. pose proof (C2 _ _ Hin) as Hch.
      assert (Hc : chan_of s i = ch) by (unfold chan_of; rewrite Hch; reflexivity).
      pose proof (HR i w Ei) as R. rewrite Hc in R.
      pose proof (close_rel (cf ch) flush w (g i) R) as A.
      destruct (cw_close flush w) as [w1 b] eqn:Ec. injection H as <-.
      assert (Hem : emitted s (mkP (removeN (p_map s) ch) ((i, w1) :: p_inst s) (p_ich s) (p_refs s) (p_timers s)
                                 (p_next s) (emit (p_out s) ch i b))
                    = match b with Some items => [(ch, i, items)] | None => [] end).
      { unfold emitted. apply emitted_emit. reflexivity. }
      split.
      * intros c j bt Hin'. rewrite Hem in Hin'. destruct b as [items|]; [|destruct Hin'].
        destruct Hin' as [E|[]]. injection E as <- <- <-. rewrite Hc. apply A.
      * split; [exact HW'|]. split; [|split].
        -- unfold CI; cbn. split; [|split; auto].
           ++ intros t0 c0 i0 Hl. destruct (C1 _ _ _ Hl) as (A1 & A2). split; auto. destruct (i =? i0); [discriminate|auto].
           ++ intros c0 i0 Hin0. unfold removeN in Hin0. apply filter_In in Hin0. apply C2. apply Hin0.
        -- intros j wj. cbn [p_inst lookup]. unfold gnext. cbn [closed_by gview]. rewrite Em.
           rewrite (chan_of_stable s _ j) by reflexivity.
           destruct (i =? j) eqn:E.
           ++ apply Nat.eqb_eq in E. subst j. intros [= <-]. rewrite Nat.eqb_refl, orb_true_r. rewrite Hc.
              destruct b; [apply A|exact A].
           ++ intros Hl. rewrite Hem. rewrite (Nat.eqb_sym j i), E, orb_false_r.
              replace (existsb _ _) with false by (destruct b; cbn; [rewrite E|]; reflexivity).
              apply HR; exact Hl.
        -- intros j. cbn [p_inst lookup]. destruct (i =? j) eqn:E; [discriminate|]. intros Hl.
           unfold gnext. cbn [closed_by gview]. rewrite Em, Hem, (Nat.eqb_sym j i), E, orb_false_r.
           replace (existsb _ _) with false by (destruct b; cbn; [rewrite E|]; reflexivity).
           apply HN; exact Hl.
    + injection H as <-. split; [intros c j b Hin; rewrite emitted_same in Hin by reflexivity; destruct Hin|].
      split; [exact HW|]. split; [unfold CI; auto|]. split.
      * intros j wj Hl. unfold gnext. rewrite emitted_same by reflexivity. cbn [closed_by]. rewrite Em. cbn. apply HR. exact Hl.
      * intros j Hl. unfold gnext. rewrite emitted_same by reflexivity. cbn [closed_by]. rewrite Em. cbn. apply HN. exact Hl.
  - (* PClose *)
    rewrite close_mapped_cm in H.
    destruct HW as (ND & HM & HI).
    destruct (close_mapped_spec cf flush g (p_map s) (p_inst s) (p_out s) ND) as (A & B & E & HE & HEin).
    { intros ch j Hin. destruct (HM ch j Hin) as (_ & Hex). destruct (lookup (p_inst s) j) as [w|] eqn:Ej; [|congruence].
      exists w. split; auto. pose proof (HR j w Ej) as R. unfold chan_of in R. rewrite (C2 _ _ Hin) in R. exact R. }
    destruct (fold_left (cm_step flush) (p_map s) (p_inst s, p_out s)) as [insts out] eqn:Ef. injection H as <-.
    cbn [fst snd] in A, B, HE.
    assert (Hem : emitted s (mkP (p_map s) insts (p_ich s) (p_refs s) (p_timers s) (p_next s) out) = E).
    { unfold emitted; cbn [p_out]. rewrite HE, skipn_app, Nat.sub_diag, skipn_all. reflexivity. }
    assert (Hmapped : forall j, mapped s j = true -> exists ch, In (ch, j) (p_map s)).
    { intros j Hj. unfold mapped in Hj. apply existsb_exists in Hj. destruct Hj as ((ch, k) & Hin & Ek).
      cbn in Ek. apply Nat.eqb_eq in Ek. subst. eauto. }
    split.
    + intros c j bt Hin. rewrite Hem in Hin. destruct (HEin _ _ _ Hin) as (Hm & ->).
      unfold chan_of. rewrite (C2 _ _ Hm). reflexivity.
    + split; [exact HW'|]. split; [|split].
      * unfold CI; cbn. split; [|split; auto].
        intros t0 c0 i0 Hl. destruct (C1 _ _ _ Hl) as (A1 & A2). split; auto.
        destruct (mapped s i0) eqn:Emp.
        -- destruct (Hmapped _ Emp) as (ch & Hin). destruct (B _ _ Hin) as (w' & Hw' & _). congruence.
        -- rewrite (A i0 Emp). exact A2.
      * intros j wj. cbn [p_inst]. unfold gnext. cbn [closed_by gview]. rewrite (chan_of_stable s _ j) by reflexivity.
        destruct (mapped s j) eqn:Emp.
        -- rewrite orb_true_r. destruct (Hmapped _ Emp) as (ch & Hin). destruct (B _ _ Hin) as (w' & Hw' & R').
           intros Hl. rewrite Hw' in Hl. injection Hl as <-. unfold chan_of. rewrite (C2 _ _ Hin). exact R'.
        -- rewrite (A j Emp). intros Hl. rewrite orb_false_r, Hem.
           replace (existsb (fun e => snd (fst e) =? j) E) with false; [apply HR; exact Hl|].
           symmetry. destruct (existsb (fun e => snd (fst e) =? j) E) eqn:Ex; auto.
           apply existsb_exists in Ex. destruct Ex as (((c0, k), bt) & Hin & Ek). cbn in Ek. apply Nat.eqb_eq in Ek. subst k.
           destruct (HEin _ _ _ Hin) as (Hm & _). apply mapped_in in Hm. congruence.
      * intros j. cbn [p_inst]. intros Hl. unfold gnext. cbn [closed_by gview].
        destruct (mapped s j) eqn:Emp; [rewrite orb_true_r; reflexivity|].
        rewrite (A j Emp) in Hl. rewrite orb_false_r, Hem.
        destruct (existsb (fun e => snd (fst e) =? j) E); [reflexivity|apply HN; exact Hl].
Qed.

Theorem pcw_instance_spec cf sched : forall s g, GI cf s g -> gcheck cf s g sched.
Proof.
  induction sched as [|l sched IH]; intros s g HG; cbn [gcheck]; auto.
  destruct (pstep cf s l) as [s'|] eqn:E; auto.
  destruct (gstep_ok cf s g l s' HG E) as (A & B). split; auto.
Qed.
