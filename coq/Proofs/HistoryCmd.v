(* Proofs for C43 (client history command over the memory broker model). *)
From Coq Require Import List NArith ZArith Bool Lia ZifyN ZifyNat ZifyBool.
From Cfg Require Import Model.MemStream Model.StreamSpec Model.HistoryCmd Proofs.MemStreamLib Proofs.MemStream.
Import ListNotations.
Open Scope N_scope.

Lemma clamp_eff : forall maxl limit, clamp maxl limit = eff_limit maxl limit.
Proof.
  intros. unfold clamp, eff_limit.
  destruct (maxl <=? 0)%Z eqn:A; destruct (limit <? 0)%Z eqn:B; destruct (maxl <? limit)%Z eqn:C;
    destruct (0 <? maxl)%Z eqn:D; cbn [andb orb]; lia.
Qed.

Lemma clamp_bounds : forall maxl limit, (0 < maxl)%Z -> (0 <= clamp maxl limit <= maxl)%Z.
Proof.
  intros. unfold clamp.
  destruct (limit <? 0)%Z eqn:B; destruct (maxl <? limit)%Z eqn:C;
    destruct (0 <? maxl)%Z eqn:D; cbn [andb orb]; lia.
Qed.

Lemma take_length : forall limit l, (0 <= limit)%Z -> (Z.of_nat (length (take limit l)) <= limit)%Z.
Proof.
  intros. unfold take. replace (limit <? 0)%Z with false by lia.
  destruct (Z.of_nat (length l) <=? limit)%Z eqn:E; [lia|].
  pose proof (firstn_le_length (Z.to_nat limit) l). rewrite firstn_length. lia.
Qed.

Lemma sget_length : forall s off u limit rv,
  (0 <= limit)%Z -> (Z.of_nat (length (sget s off u limit rv)) <= limit)%Z.
Proof.
  intros. unfold sget.
  destruct (u && (s_top s + 1 <=? off)); [cbn [length]; lia|].
  destruct (limit =? 0)%Z; [cbn [length]; lia|].
  apply take_length; auto.
Qed.

Lemma get_items_length : forall s f,
  (0 <= f_limit f)%Z -> (Z.of_nat (length (get_items s f)) <= f_limit f)%Z.
Proof.
  intros s f H. unfold get_items.
  destruct (f_since f) as [[so se]|].
  - destruct (negb (f_rev f) && (s_top s =? so) && (se =? s_epoch s)); [cbn [length]; lia|].
    apply sget_length; auto.
  - destruct (f_limit f =? 0)%Z; [cbn [length]; lia|]. apply sget_length; auto.
Qed.

Lemma hub_get_some : forall h ch s f m,
  h_streams h ch = Some s ->
  snd (hub_get h ch f m) = OHist (get_items s f) (s_top s) (s_epoch s).
Proof. intros. unfold hub_get. rewrite H. reflexivity. Qed.

Lemma hub_get_none : forall h ch f m,
  h_streams h ch = None -> snd (hub_get h ch f m) = OHist [] 0 (h_fresh h).
Proof. intros. unfold hub_get. rewrite H. reflexivity. Qed.

(* never more publications than the configured limit - for ANY broker state *)
Theorem history_limit : forall maxl h ch since limit rev,
  (0 < maxl)%Z ->
  match snd (client_history maxl h ch since limit rev) with
  | COk items _ _ => (Z.of_nat (length items) <= maxl)%Z
  | CErr _ => True
  end.
Proof.
  intros maxl h ch since limit rev Hm.
  pose proof (clamp_bounds maxl limit Hm) as Hc.
  unfold client_history, node_history. cbn [f_since f_rev].
  destruct (match since with Some (o, _) => rev && (o =? 0) | None => false end); [exact I|].
  set (f := mkFilter since (clamp maxl limit) rev).
  destruct (h_streams h ch) as [s|] eqn:ES.
  - pose proof (hub_get_some h ch s f 0 ES) as G.
    pose proof (get_items_length s f) as GL. cbn [f f_limit] in GL.
    destruct (hub_get h ch f 0) as [h1 out]. cbn [snd] in G. subst out.
    destruct since as [[so se]|]; [destruct ((se =? 0) || (se =? s_epoch s))|]; cbn [snd]; auto; lia.
  - pose proof (hub_get_none h ch f 0 ES) as G.
    destruct (hub_get h ch f 0) as [h1 out]. cbn [snd] in G. subst out.
    destruct since as [[so se]|]; [destruct ((se =? 0) || (se =? h_fresh h))|]; cbn [snd length]; auto; lia.
Qed.

(* the reply is exactly the node-level history for the effective filter:
   the retained suffix filtered by since / effective limit / direction, the
   stream position, or the error the node-level call reports *)
Theorem history_exact_cmd : forall maxl h ch s since limit rev,
  reachable h -> h_streams h ch = Some s ->
  filter_ok (mkFilter since (eff_limit maxl limit) rev) = true ->
  snd (client_history maxl h ch since limit rev) =
  spec_client_history maxl (s_items s) (s_top s) (s_epoch s) since limit rev.
Proof.
  intros maxl h ch s since limit rev Hr Hs Hok.
  unfold client_history, node_history, spec_client_history. rewrite clamp_eff.
  cbn [f_since f_rev].
  set (f := mkFilter since (eff_limit maxl limit) rev) in *.
  pose proof (history_exact h ch s f 0 Hr Hs Hok) as (HX & _).
  destruct since as [[o se]|].
  - destruct (rev && (o =? 0)) eqn:E0; [reflexivity|].
    destruct (hub_get h ch f 0) as [h1 out]. cbn [snd] in HX. subst out.
    destruct ((se =? 0) || (se =? s_epoch s)); reflexivity.
  - destruct (hub_get h ch f 0) as [h1 out]. cbn [snd] in HX. subst out. reflexivity.
Qed.

(* a reverse request since offset zero is rejected as a bad request and
   touches nothing *)
Theorem history_reverse0 : forall maxl h ch e limit,
  client_history maxl h ch (Some (0, e)) limit true = (h, CErr ErrBadRequest).
Proof. intros. unfold client_history, node_history. cbn. reflexivity. Qed.

Theorem presence_identity : forall r, presence_reply r = r.
Proof. reflexivity. Qed.
Theorem presence_stats_identity : forall r, presence_stats_reply r = r.
Proof. reflexivity. Qed.

Lemma creply_eqb_eq : forall a b, creply_eqb a b = true <-> a = b.
Proof.
  intros [x|i1 t1 e1] [y|i2 t2 e2]; cbn [creply_eqb]; try (split; discriminate).
  - split; [intros; f_equal; lia|intros X; inversion X; lia].
  - rewrite !andb_true_iff, (list_eqb_eq item_eqb item_eqb_eq). split.
    + intros [[-> B] C]. f_equal; lia.
    + intros X; inversion X; subst. repeat split; lia.
Qed.
